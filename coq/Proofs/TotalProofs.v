(* Fuel sufficiency ("totality") and error budget of the lexer / parser model.
   Depends only on Model.Lex, Model.Parse and the standard library.

   Main results
     NextToken_fuel_enough        NextToken with lex_fuel never runs out of fuel (any lexer record)
     Parse_never_out_of_fuel      the out-of-fuel flag of Parse is always false
     lreach_errcnt, lreach_lexer_errs, lreach_errs_bounded, lreach_ninth_is_tooMany,
     lreach_all_lexer_errs, lreach_done_after_drop
                                  error budget of the lexer on reachable lexer states
     Parse_lexer_errors_bounded   Parse reports at most 9 lexer messages
   Measures: mu l = 2 * |after| + |items|, nu p = mu (lx p) + |toks p|;
   Pot l bounds the number of TError tokens the lexer can still deliver. *)
From Coq Require Import List NArith ZArith Bool Lia Arith.
Import ListNotations.
From GY Require Import Model.Lex Model.Parse.

Local Notation la k := (length (after k)).
Local Notation lal l := (length (after (cu l))).

(* ------------------------------------------------------------------ cursor *)
Lemma advance_after c k w : after (advance c k w) = tl (after k).
Proof.
  unfold advance. destruct (after k) as [|x r] eqn:Ha; [rewrite Ha; reflexivity|].
  destruct (c =? cLF)%N; [reflexivity|]. destruct (c =? cTAB)%N; reflexivity.
Qed.

Lemma next_fst k : fst (next k) = hd EOFR (after k).
Proof. unfold next. destruct (after k); reflexivity. Qed.

Lemma next_after k : after (snd (next k)) = tl (after k).
Proof.
  unfold next. destruct (after k) as [|x r] eqn:Ha; cbn [snd].
  - cbn [set_width after]. exact Ha.
  - rewrite advance_after, Ha. reflexivity.
Qed.

Lemma next_la_le k : la (snd (next k)) <= la k.
Proof. rewrite next_after. destruct (after k); cbn [tl length]; lia. Qed.

Lemma next_la_S k : after k <> [] -> S (la (snd (next k))) = la k.
Proof. intros H. rewrite next_after. destruct (after k); [congruence|reflexivity]. Qed.

Lemma hd_not_eof_nonempty (s : str) : hd EOFR s <> EOFR -> s <> [].
Proof. destruct s; cbn [hd]; congruence. Qed.

Lemma peek_eq k : peek k = (fst (next k), backup (snd (next k))).
Proof. unfold peek. destruct (next k); reflexivity. Qed.

Lemma backup_next_after k : after (backup (snd (next k))) = after k.
Proof.
  unfold next. destruct (after k) as [|x r] eqn:Ha; cbn [snd].
  - unfold backup. cbn [set_width width]. cbn [after]. exact Ha.
  - unfold advance. rewrite Ha.
    destruct (x =? cLF)%N; [|destruct (x =? cTAB)%N];
      unfold backup; cbn [width before after tokrev unread col line tcol tl];
      match goal with |- context [if ?b then _ else _] => destruct b end; reflexivity.
Qed.

Lemma peek_fst k : fst (peek k) = hd EOFR (after k).
Proof. rewrite peek_eq. cbn [fst]. apply next_fst. Qed.

Lemma peek_after k : after (snd (peek k)) = after k.
Proof. rewrite peek_eq. cbn [snd]. apply backup_next_after. Qed.

Lemma is_blank_EOFR : is_blank EOFR = false.
Proof. vm_compute. reflexivity. Qed.

Lemma acceptRun_le f : forall k, la (acceptRun f k) <= la k.
Proof.
  induction f as [|f IH]; intros k; cbn [acceptRun]; [lia|].
  pose proof (next_la_le k) as Hn. pose proof (backup_next_after k) as Hb.
  destruct (next k) as [c k'] eqn:E. cbn [snd] in *.
  destruct (is_blank c).
  - specialize (IH k'). lia.
  - rewrite Hb. lia.
Qed.

Lemma acceptRun_nb f : forall k, la k < f -> is_blank (hd EOFR (after (acceptRun f k))) = false.
Proof.
  induction f as [|f IH]; intros k Hlt; [lia|]. cbn [acceptRun].
  pose proof (next_fst k) as Hf. pose proof (backup_next_after k) as Hb.
  pose proof (next_la_S k) as HS.
  destruct (next k) as [c k'] eqn:E. cbn [fst snd] in *.
  destruct (is_blank c) eqn:Hc.
  - apply IH. assert (after k <> []) as Hne.
    { apply hd_not_eof_nonempty. rewrite <- Hf. intros Q. rewrite Q, is_blank_EOFR in Hc. discriminate. }
    specialize (HS Hne). lia.
  - rewrite Hb, <- Hf. exact Hc.
Qed.

Lemma updateCursor_go_le n : forall k, la (updateCursor_go n k) <= la k.
Proof.
  induction n as [|n IH]; intros k; cbn [updateCursor_go]; [lia|].
  destruct (after k) as [|c r] eqn:Ha; [rewrite Ha; lia|].
  specialize (IH (advance c k 0)). rewrite advance_after, Ha in IH. cbn [tl length] in *. lia.
Qed.

Lemma updateCursor_le n k : la (updateCursor n k) <= la k.
Proof. unfold updateCursor. cbn [set_width after]. apply updateCursor_go_le. Qed.

Lemma skipTo1_le c k : la (snd (skipTo1 c k)) <= la k.
Proof. unfold skipTo1. destruct (index1 c (after k)); cbn [snd]; [apply updateCursor_le|lia]. Qed.

Lemma skipTo2_le c d k : la (snd (skipTo2 c d k)) <= la k.
Proof. unfold skipTo2. destruct (index2 c d (after k)); cbn [snd]; [apply updateCursor_le|lia]. Qed.

(* ------------------------------------------------------------------ item queue *)
Definition TErr (t : token) : Prop := is_TError t = true.
Definition nerrs (its : list token) : nat := length (filter is_TError its).
Definition push (its : list token) (t : token) : list token :=
  if (length its <? maxErrors)%nat then its ++ [t] else its.

Lemma nerrs_app xs ys : nerrs (xs ++ ys) = nerrs xs + nerrs ys.
Proof.
  unfold nerrs. induction xs as [|x xs IH]; cbn [app filter]; [reflexivity|].
  destruct (is_TError x); cbn [length]; lia.
Qed.

Lemma nerrs_le_length xs : nerrs xs <= length xs.
Proof.
  unfold nerrs. induction xs as [|x xs IH]; cbn [filter length]; [lia|].
  destruct (is_TError x); cbn [length]; lia.
Qed.

Lemma push_nil t : push [] t = [t].
Proof. reflexivity. Qed.

Lemma push_ne its t : push its t <> [].
Proof.
  unfold push. destruct (Nat.ltb_spec (length its) maxErrors) as [H|H].
  - destruct its; discriminate.
  - destruct its; [cbn in H; unfold maxErrors in H; lia|discriminate].
Qed.

Lemma push_len its t : length (push its t) <= S (length its).
Proof. unfold push. destruct (length its <? maxErrors)%nat; [rewrite app_length; cbn [length]|]; lia. Qed.

Lemma push_nerrs its t : nerrs (push its t) <= nerrs its + (if is_TError t then 1 else 0).
Proof.
  unfold push. destruct (length its <? maxErrors)%nat; [|lia].
  rewrite nerrs_app. unfold nerrs at 2. cbn [filter]. destruct (is_TError t); cbn [length]; lia.
Qed.

Lemma push_Forall its t : Forall TErr its -> TErr t -> Forall TErr (push its t).
Proof.
  intros H Ht. unfold push. destruct (length its <? maxErrors)%nat; [|exact H].
  apply Forall_app. split; [exact H|constructor; [exact Ht|constructor]].
Qed.

Lemma Forall_removelast (A : Type) (Q : A -> Prop) (xs : list A) : Forall Q xs -> Forall Q (removelast xs).
Proof.
  induction xs as [|x xs IH]; intros H; [constructor|]. inversion H as [|? ? Hx Hxs]; subst.
  cbn [removelast]. destruct xs as [|y ys]; [constructor|]. constructor; [exact Hx|apply IH; exact Hxs].
Qed.

Lemma push_O2 its t : Forall TErr its -> Forall TErr (removelast (push its t)).
Proof.
  intros H. unfold push. destruct (length its <? maxErrors)%nat.
  - rewrite removelast_last. exact H.
  - apply Forall_removelast. exact H.
Qed.

(* ------------------------------------------------------------------ invariants *)
Definition is_lexer_err (e : perr) : bool :=
  match e_kind e with
  | EMissingSQuote | EMissingDQuote | EMissingComment | EInternalNL | EInvalidEscape | ETooMany => true
  | _ => false
  end.

Definition cnt (es : list perr) : nat := length (filter is_lexer_err es).

Lemma cnt_app xs ys : cnt (xs ++ ys) = cnt xs + cnt ys.
Proof.
  unfold cnt. induction xs as [|x xs IH]; cbn [app filter]; [reflexivity|].
  destruct (is_lexer_err x); cbn [length]; lia.
Qed.

Lemma cnt_rev xs : cnt (rev xs) = cnt xs.
Proof.
  induction xs as [|x xs IH]; [reflexivity|]. cbn [rev]. rewrite cnt_app, IH.
  change (x :: xs) with ([x] ++ xs). rewrite cnt_app. lia.
Qed.

Lemma cnt_all xs : Forall (fun e => is_lexer_err e = true) xs -> cnt xs = length xs.
Proof.
  unfold cnt. induction 1 as [|x xs Hx _ IH]; [reflexivity|]. cbn [filter]. rewrite Hx. cbn [length]. lia.
Qed.

Definition tooMany : perr := {| e_pos := None; e_kind := ETooMany; e_subject := None |}.

(* l' extends the error log of l by lexer messages only, one per counted error; the message that
   brings the count to 9 is "too many errors" *)
Definition ext (l l' : lexer) : Prop :=
  exists es, errs l' = es ++ errs l /\ Forall (fun e => is_lexer_err e = true) es /\
             errcnt l' = length es + errcnt l /\
             (errcnt l < 9 -> errcnt l' = 9 -> exists r, es = tooMany :: r).

Lemma ext_same l l' : errs l' = errs l -> errcnt l' = errcnt l -> ext l l'.
Proof.
  intros H1 H2. exists []. split; [exact H1|split; [constructor|split; [exact H2|]]]. intros; lia.
Qed.

Lemma ext_refl l : ext l l.
Proof. apply ext_same; reflexivity. Qed.

Lemma ext_trans l1 l2 l3 : ext l1 l2 -> ext l2 l3 -> ext l1 l3.
Proof.
  intros (a & Ha & Fa & Ca & Ta) (b & Hb & Fb & Cb & Tb). exists (b ++ a).
  split; [rewrite Hb, Ha, app_assoc; reflexivity|]. split; [apply Forall_app; split; assumption|].
  split; [rewrite app_length; lia|]. intros H1 H3.
  destruct (Nat.eq_dec (errcnt l2) 9) as [E|N].
  - destruct (Ta H1 E) as [r Hr]. assert (length b = 0) as Hb0 by lia.
    destruct b; [|discriminate]. exists r. exact Hr.
  - assert (errcnt l2 < 9) as H2 by lia. destruct (Tb H2 H3) as [r Hr]. exists (r ++ a). rewrite Hr. reflexivity.
Qed.

Definition O3 (l : lexer) : Prop := errcnt l <= 9 /\ (errcnt l = 9 -> after (cu l) = []).
Definition nerr (l : lexer) : nat := nerrs (items l).
Definition Pn (l : lexer) : nat := nerr l + (10 - errcnt l).
Definition Pot (l : lexer) : nat := match state l with SDone => nerr l | _ => Pn l end.
Definition mu (l : lexer) : nat := 2 * lal l + length (items l).
Definition O2 (l : lexer) : Prop := Forall TErr (removelast (items l)).

Lemma P_le_Pn l : Pot l <= Pn l.
Proof. unfold Pot, Pn. destruct (state l); lia. Qed.

Lemma emitText_items l c text :
  items (emitText l c text) =
  push (items l) {| t_code := c; t_text := text; t_line := sline l; t_col := (scol l + 1)%Z; t_off := soff l |}.
Proof. reflexivity. Qed.

Lemma ErrorfAt_spec l ln cl kind subj :
  (forall pos s, is_lexer_err {| e_pos := pos; e_kind := kind; e_subject := s |} = true) ->
  let l' := ErrorfAt l ln cl kind subj in
  state l' = state l /\ inPattern l' = inPattern l /\ lal l' <= lal l /\
  (exists t, TErr t /\ items l' = push (items l) t) /\
  ext l l' /\ (O3 l -> O3 l') /\
  (errcnt l <> 9 -> errcnt l' = S (errcnt l)) /\ (errcnt l = 9 -> errcnt l' = 9).
Proof.
  intros Hk. destruct l as [k sl sc so ip its ec es st]. unfold ErrorfAt, emit, emitText.
  cbn [errcnt cu items errs state inPattern sline scol soff].
  destruct (Nat.eqb_spec ec maxErrors) as [E8|N8]; [|destruct (Nat.eqb_spec ec (S maxErrors)) as [E9|N9]];
    unfold O3, ext; cbn [errcnt cu items errs state inPattern sline scol soff clear_input consume after length];
    unfold maxErrors in *;
    (split; [reflexivity|split; [reflexivity|split; [lia|split; [eexists; split; [|reflexivity]; reflexivity|]]]]).
  - split; [eexists [_]; split; [reflexivity|split; [constructor; [reflexivity|constructor]|
              split; [cbn [length]; lia|intros; eexists; reflexivity]]]|].
    split; [intros _; split; [lia|reflexivity]|]. split; intros; lia.
  - split; [exists []; split; [reflexivity|split; [constructor|split; [reflexivity|intros; lia]]]|].
    split; [intros H; exact H|]. split; intros; lia.
  - split; [eexists [_]; split; [reflexivity|split; [constructor; [apply Hk|constructor]|
              split; [cbn [length]; lia|intros; lia]]]|].
    split; [intros [H1 H2]; split; [lia|intros; lia]|]. split; intros; lia.
Qed.

(* ------------------------------------------------------------------ lexQString *)
Lemma len0_nil (A : Type) (s : list A) : length s <= 0 -> s = [].
Proof. destruct s; cbn [length]; [reflexivity|lia]. Qed.

Lemma emitText_proj l c text :
  let l' := emitText l c text in
  cu l' = consume (cu l) /\ errs l' = errs l /\ errcnt l' = errcnt l /\ state l' = state l /\
  inPattern l' = inPattern l /\
  exists t, t_code t = c /\ items l' = push (items l) t.
Proof.
  cbv zeta. repeat (split; [reflexivity|]). eexists. split; [|apply emitText_items]. reflexivity.
Qed.

Definition QSpec (l l' : lexer) : Prop :=
  lal l' <= lal l /\ ext l l' /\ (O3 l -> O3 l' /\ Pot l' <= Pn l) /\
  (state l' = SGround \/ state l' = SDone) /\ (items l' <> [] \/ state l' = SDone) /\
  (Forall TErr (items l) -> O2 l') /\ mu l' <= S (mu l).

Lemma QSpec_done l : QSpec l (with_state l SDone).
Proof.
  unfold QSpec, O3, Pot, Pn, nerr, mu, O2. cbn [with_state cu items errs errcnt state].
  split; [lia|]. split; [apply ext_same; reflexivity|]. split; [intros H; split; [exact H|lia]|].
  split; [right; reflexivity|]. split; [right; reflexivity|]. split; [apply Forall_removelast|lia].
Qed.

Lemma QSpec_eof l k ln cl kind subj :
  (forall pos s, is_lexer_err {| e_pos := pos; e_kind := kind; e_subject := s |} = true) ->
  la k <= lal l -> QSpec l (with_state (ErrorfAt (with_cu l k) ln cl kind subj) SDone).
Proof.
  intros Hk Hle.
  destruct (ErrorfAt_spec (with_cu l k) ln cl kind subj Hk) as (Est & _ & Ela & (t & Ht & Eit) & Eext & EO3 & _ & _).
  remember (ErrorfAt (with_cu l k) ln cl kind subj) as l1 eqn:E1. clear E1.
  unfold QSpec, O3, Pot, Pn, nerr, mu, O2, ext in *. cbn [with_state with_cu cu items errs errcnt state] in *.
  split; [lia|]. split; [exact Eext|]. split.
  { intros [H1 H2]. split.
    - apply EO3. split; [exact H1|]. intros H9. apply len0_nil. rewrite (H2 H9) in Hle. exact Hle.
    - rewrite Eit. pose proof (push_nerrs (items l) t) as Hp. rewrite Ht in Hp. lia. }
  split; [right; reflexivity|]. split; [right; reflexivity|]. split.
  { intros HF. rewrite Eit. apply Forall_removelast. apply push_Forall; assumption. }
  rewrite Eit. pose proof (push_len (items l) t). lia.
Qed.

Lemma QSpec_dq l k text : S (la k) = lal l -> QSpec l (with_state (emitText (with_cu l k) TString text) SGround).
Proof.
  intros Hk.
  destruct (emitText_proj (with_cu l k) TString text) as (Ecu & Eer & Eec & _ & _ & (t & Ht & Eit)).
  remember (emitText (with_cu l k) TString text) as l1 eqn:E1. clear E1.
  assert (Hne : is_TError t = false) by (unfold is_TError; rewrite Ht; reflexivity).
  unfold QSpec, O3, Pot, Pn, nerr, mu, O2 in *. cbn [with_state with_cu cu items errs errcnt state] in *.
  rewrite Ecu, Eec, Eit. cbn [consume after].
  split; [lia|]. split; [apply ext_same; cbn [with_state errs errcnt]; assumption|]. split.
  { intros [H1 H2]. split; [split; [exact H1|]|].
    - intros H9. rewrite (H2 H9) in Hk. discriminate.
    - pose proof (push_nerrs (items l) t) as Hp. rewrite Hne in Hp. lia. }
  split; [left; reflexivity|]. split; [left; apply push_ne|]. split; [apply push_O2|].
  pose proof (push_len (items l) t). lia.
Qed.

Lemma QSpec_step l l0 l' :
  lal l0 <= lal l -> ext l l0 -> (O3 l -> O3 l0 /\ Pn l0 <= Pn l) ->
  (Forall TErr (items l) -> Forall TErr (items l0)) -> mu l0 <= mu l ->
  QSpec l0 l' -> QSpec l l'.
Proof.
  intros Hla Hext HO HF Hmu (A & B & C & D & E & F & G). unfold QSpec.
  split; [lia|]. split; [eapply ext_trans; eassumption|]. split.
  { intros H. destruct (HO H) as [H0 Hp]. destruct (C H0) as [H1 Hp1]. split; [exact H1|lia]. }
  split; [exact D|]. split; [exact E|]. split; [intros H; apply F, HF, H|lia].
Qed.

Lemma QSpec_cu l k l' : la k <= lal l -> QSpec (with_cu l k) l' -> QSpec l l'.
Proof.
  intros Hle. apply QSpec_step; unfold O3, Pn, nerr, mu; cbn [with_cu cu items errs errcnt].
  - exact Hle.
  - apply ext_same; reflexivity.
  - intros [H1 H2]. split; [split; [exact H1|]|lia]. intros H9. apply len0_nil. rewrite (H2 H9) in Hle. exact Hle.
  - intros H; exact H.
  - lia.
Qed.

Lemma QSpec_err l k k2 ln cl subj l' :
  S (la k) = lal l -> la k2 <= la k ->
  QSpec (ErrorfAt (with_cu (with_cu l k) k2) ln cl EInvalidEscape subj) l' -> QSpec l l'.
Proof.
  intros Hk Hk2.
  destruct (ErrorfAt_spec (with_cu (with_cu l k) k2) ln cl EInvalidEscape subj (fun _ _ => eq_refl))
    as (_ & _ & Ela & (t & Ht & Eit) & Eext & EO3 & EcS & _).
  remember (ErrorfAt (with_cu (with_cu l k) k2) ln cl EInvalidEscape subj) as l1 eqn:E1. clear E1.
  apply QSpec_step; unfold O3, Pn, nerr, mu, ext in *; cbn [with_cu cu items errs errcnt] in *.
  - lia.
  - exact Eext.
  - intros [H1 H2]. assert (N9 : errcnt l <> 9).
    { intros H9. rewrite (H2 H9) in Hk. discriminate. }
    split; [apply EO3; split; [exact H1|intros; contradiction]|].
    rewrite Eit, (EcS N9). pose proof (push_nerrs (items l) t) as Hp. rewrite Ht in Hp. lia.
  - intros HF. rewrite Eit. apply push_Forall; assumption.
  - rewrite Eit. pose proof (push_len (items l) t). lia.
Qed.

Lemma qstring_loop_spec f : forall l indent ql qc over tr, QSpec l (qstring_loop f l indent ql qc over tr).
Proof.
  induction f as [|f IH]; intros l indent ql qc over tr; cbn [qstring_loop].
  - apply QSpec_done.
  - pose proof (next_fst (cu l)) as Hc. pose proof (next_la_le (cu l)) as Hle. pose proof (next_la_S (cu l)) as HS.
    destruct (next (cu l)) as [c k] eqn:En. cbn [fst snd] in *.
    destruct (N.eqb_spec c EOFR) as [Heof|Hne].
    + apply QSpec_eof; [intros; reflexivity|exact Hle].
    + assert (Hk : S (la k) = lal l).
      { apply HS. apply hd_not_eof_nonempty. rewrite <- Hc. exact Hne. }
      destruct (c =? cDQ)%N. { apply QSpec_dq. exact Hk. }
      destruct (c =? cLF)%N. { apply (QSpec_cu l k); [lia|apply IH]. }
      destruct ((c =? cSP) || (c =? cTAB))%N.
      { destruct (negb over && (tcol k <=? indent)%Z); (apply (QSpec_cu l k); [lia|apply IH]). }
      destruct (c =? cBSL)%N; [|apply (QSpec_cu l k); [lia|apply IH]].
      pose proof (next_la_le k) as Hle2. destruct (next k) as [c2 k2] eqn:En2. cbn [snd] in Hle2.
      assert (Hplain : forall a b, QSpec l (qstring_loop f (with_cu (with_cu l k) k2) indent ql qc a b)).
      { intros a b. apply (QSpec_cu l k); [lia|]. apply (QSpec_cu _ k2); [cbn [with_cu cu]; lia|apply IH]. }
      destruct (c2 =? c_n)%N; [apply Hplain|]. destruct (c2 =? c_t)%N; [apply Hplain|].
      destruct (c2 =? cDQ)%N; [apply Hplain|]. destruct (c2 =? cBSL)%N; [apply Hplain|].
      match goal with |- context [if ?b then _ else ErrorfAt _ _ _ _ _] => destruct b end; [apply Hplain|].
      eapply QSpec_err; [exact Hk|exact Hle2|apply IH].
Qed.

Lemma lexQString_spec l : QSpec l (lexQString l).
Proof. unfold lexQString. apply qstring_loop_spec. Qed.

(* ------------------------------------------------------------------ lexUnquoted *)
Definition USpec (l l' : lexer) : Prop :=
  lal l' <= lal l /\ errs l' = errs l /\ errcnt l' = errcnt l /\
  ((state l' = SGround /\ exists t, is_TError t = false /\ items l' = push (items l) t) \/
   (state l' = SDone /\ items l' = items l)).

Lemma is_delim_EOFR : is_delim EOFR = true.
Proof. vm_compute. reflexivity. Qed.

Lemma unquoted_loop_spec f : forall l,
  USpec l (unquoted_loop f l) /\
  (f <> 0 -> is_delim (hd EOFR (after (cu l))) = false -> lal (unquoted_loop f l) < lal l).
Proof.
  induction f as [|f IH]; intros l; cbn [unquoted_loop].
  - split; [|intros H; contradiction]. unfold USpec. cbn [with_state cu items errs errcnt state].
    split; [lia|]. split; [reflexivity|]. split; [reflexivity|]. right. split; reflexivity.
  - pose proof (peek_fst (cu l)) as Hc. pose proof (peek_after (cu l)) as Ha.
    destruct (peek (cu l)) as [c k] eqn:Ep. cbn [fst snd] in *. rewrite <- Hc.
    destruct (is_delim c) eqn:Hd.
    + split; [|intros _ Q; discriminate].
      destruct (emitText_proj (with_cu l k) TUnquoted (rev (tokrev (cu (with_cu l k)))))
        as (Ecu & Eer & Eec & _ & _ & (t & Ht & Eit)).
      unfold emit. remember (emitText (with_cu l k) TUnquoted _) as l1 eqn:E1. clear E1.
      unfold USpec. cbn [with_state with_cu cu items errs errcnt state] in *.
      rewrite Ecu, Eer, Eec, Eit. cbn [consume after]. rewrite Ha.
      split; [lia|]. split; [reflexivity|]. split; [reflexivity|]. left. split; [reflexivity|].
      exists t. split; [unfold is_TError; rewrite Ht|]; reflexivity.
    + assert (Hne : after k <> []).
      { rewrite Ha. apply hd_not_eof_nonempty. rewrite <- Hc. intros Q. rewrite Q, is_delim_EOFR in Hd. discriminate. }
      pose proof (next_la_S k Hne) as HS. destruct (next k) as [c' k2] eqn:En. cbn [snd] in HS.
      destruct (IH (with_cu l k2)) as [(A & B & C & D) _]. cbn [with_cu cu items errs errcnt] in *.
      rewrite Ha in HS. split; [|intros _ _; lia]. unfold USpec. split; [lia|].
      split; [exact B|]. split; [exact C|exact D].
Qed.

(* ------------------------------------------------------------------ lexGround *)
Definition Shape (l l' : lexer) : Prop :=
    (state l' = SDone /\ items l' = [] /\ lal l' <= lal l)
 \/ ((state l' = SDone \/ state l' = SGround) /\ length (items l') = 1 /\ lal l' < lal l)
 \/ (state l' = SGround /\ items l' = [] /\ lal l' < lal l)
 \/ (state l' = SQString /\ items l' = [] /\ lal l' < lal l)
 \/ (state l' = SUnquoted /\ items l' = [] /\
     (lal l' < lal l \/ (lal l' <= lal l /\ is_delim (hd EOFR (after (cu l'))) = false))).

Definition GSpec (l l' : lexer) : Prop :=
  lal l' <= lal l /\ ext l l' /\ (O3 l -> O3 l' /\ Pot l' <= Pn l) /\ (items l = [] -> Shape l l').

Lemma GS_noerr l l' :
  errs l' = errs l -> errcnt l' = errcnt l -> lal l' <= lal l -> nerr l' <= nerr l ->
  (items l = [] -> Shape l l') -> GSpec l l'.
Proof.
  intros He Hc Hla Hn Hs. unfold GSpec. split; [exact Hla|]. split; [apply ext_same; assumption|].
  split; [|exact Hs]. intros [H1 H2]. split.
  - unfold O3. rewrite Hc. split; [exact H1|]. intros H9. apply len0_nil. rewrite (H2 H9) in Hla. exact Hla.
  - pose proof (P_le_Pn l'). unfold Pn in *. rewrite Hc in *. lia.
Qed.

Lemma GS_same l l' :
  errs l' = errs l -> errcnt l' = errcnt l -> lal l' <= lal l -> items l' = items l ->
  (items l = [] -> Shape l l') -> GSpec l l'.
Proof. intros He Hc Hla Hi Hs. apply GS_noerr; try assumption. unfold nerr. rewrite Hi. lia. Qed.

Lemma GS_item l l' :
  errs l' = errs l -> errcnt l' = errcnt l -> lal l' < lal l ->
  (exists t, is_TError t = false /\ items l' = push (items l) t) ->
  (state l' = SDone \/ state l' = SGround) -> GSpec l l'.
Proof.
  intros He Hc Hla (t & Ht & Hi) Hst. apply GS_noerr; try assumption; [lia| |].
  - unfold nerr. rewrite Hi. pose proof (push_nerrs (items l) t) as Hp. rewrite Ht in Hp. lia.
  - intros H0. right. left. split; [exact Hst|]. split; [|exact Hla]. rewrite Hi, H0. reflexivity.
Qed.

Lemma GS_err l l0 ln cl kind subj :
  (forall pos s, is_lexer_err {| e_pos := pos; e_kind := kind; e_subject := s |} = true) ->
  items l0 = items l -> errs l0 = errs l -> errcnt l0 = errcnt l -> lal l0 < lal l ->
  GSpec l (with_state (ErrorfAt l0 ln cl kind subj) SDone).
Proof.
  intros Hk Hi He Hc Hla.
  destruct (ErrorfAt_spec l0 ln cl kind subj Hk) as (_ & _ & Ela & (t & Ht & Eit) & Eext & EO3 & _ & _).
  remember (ErrorfAt l0 ln cl kind subj) as l1 eqn:E1. clear E1.
  unfold GSpec, O3, Pot, Pn, nerr, ext in *. cbn [with_state cu items errs errcnt state] in *.
  rewrite He, Hc, Hi in *.
  split; [lia|]. split; [exact Eext|]. split.
  - intros [H1 H2]. split.
    + apply EO3. split; [exact H1|]. intros H9. rewrite (H2 H9) in Hla. cbn [length] in Hla. lia.
    + rewrite Eit. pose proof (push_nerrs (items l) t) as Hp. rewrite Ht in Hp. lia.
  - intros H0. right. left. cbn [with_state cu items errs errcnt state].
    split; [left; reflexivity|]. split; [rewrite Eit, H0; reflexivity|lia].
Qed.

Lemma not_delim c :
  is_blank c = false -> (c =? EOFR)%N = false -> ((c =? cSEMI) || (c =? cLB) || (c =? cRB))%N = false ->
  (c =? cSQ)%N = false -> (c =? cDQ)%N = false -> is_delim c = false.
Proof.
  unfold is_blank, is_delim. intros H1 H2 H3 H4 H5.
  repeat match goal with H : (_ || _)%bool = false |- _ => apply orb_false_elim in H; destruct H end.
  repeat match goal with H : (_ =? _)%N = false |- _ => rewrite H; clear H end. reflexivity.
Qed.

Ltac gproj := cbn [with_state with_cu cu items errs errcnt state consume after] in *.

Lemma lexGround_spec l : GSpec l (lexGround l).
Proof.
  assert (Hk0 : la (consume (acceptRun (S (lal l)) (cu l))) <= lal l)
    by (cbn [consume after]; apply acceptRun_le).
  assert (Hnb : is_blank (hd EOFR (after (consume (acceptRun (S (lal l)) (cu l))))) = false)
    by (cbn [consume after]; apply acceptRun_nb; lia).
  unfold lexGround.
  remember (consume (acceptRun (S (lal l)) (cu l))) as k0 eqn:Ek0. clear Ek0.
  cbv zeta.
  set (l0 := {| cu := k0; sline := line k0; scol := col k0; soff := length (before k0);
                inPattern := inPattern l; items := items l; errcnt := errcnt l; errs := errs l;
                state := state l |}).
  assert (I0 : items l0 = items l) by reflexivity.
  assert (E0 : errs l0 = errs l) by reflexivity.
  assert (C0 : errcnt l0 = errcnt l) by reflexivity.
  clearbody l0.
  pose proof (peek_fst k0) as Hc. pose proof (peek_after k0) as Ha.
  destruct (peek k0) as [c k1] eqn:Ep. cbn [fst snd] in *.
  assert (Hk1 : la k1 = la k0) by (rewrite Ha; reflexivity).
  destruct (c =? EOFR)%N eqn:Heof.
  { apply GS_same; gproj; try assumption; [lia|]. intros H0. left. gproj. split; [reflexivity|].
    split; [congruence|lia]. }
  assert (Hne : after k1 <> []).
  { rewrite Ha. apply hd_not_eof_nonempty. rewrite <- Hc. apply N.eqb_neq. exact Heof. }
  pose proof (next_la_S k1 Hne) as Hk2.
  destruct ((c =? cSEMI) || (c =? cLB) || (c =? cRB))%N eqn:Hpunct.
  { destruct (next k1) as [c' k2]. cbn [snd] in Hk2. unfold emit.
    destruct (emitText_proj (with_cu (with_cu l0 k1) k2) (TChar c) (rev (tokrev (cu (with_cu (with_cu l0 k1) k2)))))
      as (Ecu & Eer & Eec & _ & _ & (t & Ht & Eit)).
    remember (emitText (with_cu (with_cu l0 k1) k2) (TChar c) _) as l1 eqn:E1. clear E1. gproj.
    apply GS_item; gproj; [congruence|congruence|rewrite Ecu; gproj; lia| |right; reflexivity].
    exists t. split; [unfold is_TError; rewrite Ht; reflexivity|congruence]. }
  destruct (c =? cSQ)%N eqn:Hsq.
  { destruct (next k1) as [c' k2]. cbn [snd] in Hk2.
    pose proof (skipTo1_le cSQ (consume k2)) as Hk3.
    destruct (skipTo1 cSQ (consume k2)) as [found k3]. cbn [snd] in Hk3. gproj.
    destruct found.
    - unfold emit.
      destruct (emitText_proj (with_cu (with_cu l0 k1) k3) TString (rev (tokrev (cu (with_cu (with_cu l0 k1) k3)))))
        as (Ecu & Eer & Eec & _ & _ & (t & Ht & Eit)).
      remember (emitText (with_cu (with_cu l0 k1) k3) TString _) as l1 eqn:E1. clear E1. gproj.
      pose proof (next_la_le (cu l1)) as Hk4. destruct (next (cu l1)) as [c'' k4]. cbn [snd] in Hk4.
      rewrite Ecu in Hk4. gproj.
      apply GS_item; gproj; [congruence|congruence|lia| |right; reflexivity].
      exists t. split; [unfold is_TError; rewrite Ht; reflexivity|congruence].
    - apply GS_err; gproj; [intros; reflexivity|assumption|assumption|assumption|lia]. }
  destruct (c =? cDQ)%N eqn:Hdq.
  { destruct (next k1) as [c' k2]. cbn [snd] in Hk2.
    apply GS_same; gproj; try assumption; [lia|]. intros H0. right. right. right. left. gproj.
    split; [reflexivity|]. split; [congruence|lia]. }
  destruct (c =? cSLASH)%N eqn:Hslash.
  { destruct (next k1) as [c' k2]. cbn [snd] in Hk2.
    pose proof (peek_after k2) as Ha3. destruct (peek k2) as [c2 k3]. cbn [snd] in Ha3.
    assert (Hk3 : la k3 = la k2) by (rewrite Ha3; reflexivity).
    destruct (c2 =? cSLASH)%N.
    { pose proof (skipTo1_le cLF k3) as Hk4. destruct (skipTo1 cLF k3) as [found k4]. cbn [snd] in Hk4.
      destruct found.
      - apply GS_same; gproj; try assumption; [lia|]. intros H0. right. right. left. gproj.
        split; [reflexivity|]. split; [congruence|lia].
      - apply GS_err; gproj; [intros; reflexivity|assumption|assumption|assumption|lia]. }
    destruct (c2 =? cSTAR)%N.
    { pose proof (next_la_le k3) as Hk4. destruct (next k3) as [c4 k4]. cbn [snd] in Hk4.
      pose proof (skipTo2_le cSTAR cSLASH k4) as Hk5. destruct (skipTo2 cSTAR cSLASH k4) as [found k5].
      cbn [snd] in Hk5. destruct found.
      - pose proof (next_la_le k5) as Hk6. destruct (next k5) as [c6 k6]. cbn [snd] in Hk6.
        pose proof (next_la_le k6) as Hk7. destruct (next k6) as [c7 k7]. cbn [snd] in Hk7.
        apply GS_same; gproj; try assumption; [lia|]. intros H0. right. right. left. gproj.
        split; [reflexivity|]. split; [congruence|lia].
      - apply GS_err; gproj; [intros; reflexivity|assumption|assumption|assumption|lia]. }
    apply GS_same; gproj; try assumption; [lia|]. intros H0. right. right. right. right. gproj.
    split; [reflexivity|]. split; [congruence|left; lia]. }
  destruct (c =? cPLUS)%N eqn:Hplus.
  { destruct (next k1) as [c' k2]. cbn [snd] in Hk2.
    pose proof (peek_after k2) as Ha3. destruct (peek k2) as [c2 k3]. cbn [snd] in Ha3.
    assert (Hk3 : la k3 = la k2) by (rewrite Ha3; reflexivity).
    destruct ((c2 =? cDQ) || (c2 =? cSQ))%N.
    - unfold emit.
      destruct (emitText_proj (with_cu (with_cu l0 k1) k3) TUnquoted (rev (tokrev (cu (with_cu (with_cu l0 k1) k3)))))
        as (Ecu & Eer & Eec & _ & _ & (t & Ht & Eit)).
      remember (emitText (with_cu (with_cu l0 k1) k3) TUnquoted _) as l1 eqn:E1. clear E1. gproj.
      apply GS_item; gproj; [congruence|congruence|rewrite Ecu; gproj; lia| |right; reflexivity].
      exists t. split; [unfold is_TError; rewrite Ht; reflexivity|congruence].
    - apply GS_same; gproj; try assumption; [lia|]. intros H0. right. right. right. right. gproj.
      split; [reflexivity|]. split; [congruence|left; lia]. }
  apply GS_same; gproj; try assumption; [lia|]. intros H0. right. right. right. right. gproj.
  split; [reflexivity|]. split; [congruence|right]. split; [lia|].
  rewrite Ha, <- Hc. apply not_delim; try assumption. rewrite Hc. exact Hnb.
Qed.

(* ------------------------------------------------------------------ run_state / NextToken *)
Lemma USpec_QSpec l l' : USpec l l' -> QSpec l l'.
Proof.
  intros (Hla & He & Hc & Hs). unfold QSpec.
  split; [exact Hla|]. split; [apply ext_same; assumption|].
  assert (HO : O3 l -> O3 l').
  { intros [H1 H2]. unfold O3. rewrite Hc. split; [exact H1|]. intros H9. apply len0_nil.
    rewrite (H2 H9) in Hla. exact Hla. }
  destruct Hs as [(Hst & t & Ht & Hi)|(Hst & Hi)].
  - pose proof (push_nerrs (items l) t) as Hp. rewrite Ht in Hp. pose proof (push_len (items l) t) as Hl.
    split; [intros H; split; [apply HO, H|]|].
    { unfold Pot, Pn, nerr. rewrite Hst, Hc, Hi. lia. }
    split; [left; exact Hst|]. split; [left; rewrite Hi; apply push_ne|].
    split; [intros HF; unfold O2; rewrite Hi; apply push_O2, HF|]. unfold mu. rewrite Hi. lia.
  - split; [intros H; split; [apply HO, H|]|].
    { unfold Pot, Pn, nerr. rewrite Hst, Hi. lia. }
    split; [right; exact Hst|]. split; [right; exact Hst|].
    split; [intros HF; unfold O2; rewrite Hi; apply Forall_removelast, HF|]. unfold mu. rewrite Hi. lia.
Qed.

Lemma lexUnquoted_spec l : QSpec l (lexUnquoted l).
Proof. apply USpec_QSpec. unfold lexUnquoted. apply unquoted_loop_spec. Qed.

Definition Mono3 (l l' : lexer) : Prop := lal l' <= lal l /\ ext l l' /\ (O3 l -> O3 l').

Lemma Mono3_refl l : Mono3 l l.
Proof. split; [lia|]. split; [apply ext_refl|auto]. Qed.

Lemma Mono3_trans a b c : Mono3 a b -> Mono3 b c -> Mono3 a c.
Proof.
  intros (A1 & A2 & A3) (B1 & B2 & B3). split; [lia|]. split; [eapply ext_trans; eassumption|auto].
Qed.

Lemma QSpec_Mono3 l l' : QSpec l l' -> Mono3 l l'.
Proof. intros (A & B & C & _). split; [exact A|]. split; [exact B|]. intros H. apply C, H. Qed.

Lemma run_state_mono l : Mono3 l (run_state l).
Proof.
  unfold run_state. destruct (state l).
  - destruct (lexGround_spec l) as (A & B & C & _). split; [exact A|]. split; [exact B|]. intros H. apply C, H.
  - apply QSpec_Mono3, lexQString_spec.
  - apply QSpec_Mono3, lexUnquoted_spec.
  - apply Mono3_refl.
Qed.

Definition popl (l : lexer) (r : list token) : lexer :=
  {| cu := cu l; sline := sline l; scol := scol l; soff := soff l; inPattern := inPattern l;
     items := r; errcnt := errcnt l; errs := errs l; state := state l |}.

Lemma NT_cons f l t r : items l = t :: r -> NextToken f l = (Some (Some t), popl l r).
Proof. intros H. destruct f; cbn [NextToken]; rewrite H; reflexivity. Qed.

Lemma NT_done f l : items l = [] -> state l = SDone -> NextToken f l = (Some None, l).
Proof. intros H1 H2. destruct f; cbn [NextToken]; rewrite H1, H2; reflexivity. Qed.

Lemma NT_step f l : items l = [] -> state l <> SDone -> NextToken (S f) l = NextToken f (run_state l).
Proof. intros H1 H2. cbn [NextToken]. rewrite H1. destruct (state l); [reflexivity..|congruence]. Qed.

Lemma NT_zero l : items l = [] -> state l <> SDone -> NextToken 0 l = (None, l).
Proof. intros H1 H2. cbn [NextToken]. rewrite H1. destruct (state l); [reflexivity..|congruence]. Qed.

Lemma NT_term f l : items l <> [] \/ state l = SDone -> NextToken f l = NextToken 0 l.
Proof.
  intros H. destruct (items l) as [|t r] eqn:Hi.
  - destruct H as [H|H]; [congruence|]. rewrite !NT_done by assumption. reflexivity.
  - rewrite !(NT_cons _ l t r Hi). reflexivity.
Qed.

Lemma NT_some f l : items l <> [] \/ state l = SDone -> fst (NextToken f l) <> None.
Proof.
  intros H. destruct (items l) as [|t r] eqn:Hi.
  - destruct H as [H|H]; [congruence|]. rewrite NT_done by assumption. discriminate.
  - rewrite (NT_cons _ l t r Hi). discriminate.
Qed.

Lemma popl_mono l r : Mono3 l (popl l r).
Proof. split; [cbn [popl cu]; lia|]. split; [apply ext_same; reflexivity|]. intros H; exact H. Qed.

Lemma NT_mono3 f : forall l, Mono3 l (snd (NextToken f l)).
Proof.
  induction f as [|f IH]; intros l; (destruct (items l) as [|t r] eqn:Hi;
    [|rewrite (NT_cons _ l t r Hi); cbn [snd]; apply popl_mono]);
    destruct (state l) eqn:Hs;
    try (rewrite (NT_done _ l Hi Hs); apply Mono3_refl).
  1-3: rewrite NT_zero by congruence; apply Mono3_refl.
  1-3: rewrite NT_step by congruence; (eapply Mono3_trans; [apply run_state_mono|apply IH]).
Qed.

(* ---- T1: fuel sufficiency of NextToken ---- *)
Definition Mfuel (l : lexer) : nat := 2 * lal l + match state l with SGround => 1 | _ => 0 end.

Lemma NT_fuel f : forall l, Mfuel l < f -> fst (NextToken f l) <> None.
Proof.
  induction f as [|f IH]; intros l HM; [lia|].
  destruct (items l) as [|t r] eqn:Hi; [|rewrite (NT_cons _ l t r Hi); discriminate].
  destruct (state l) eqn:Hs.
  - rewrite NT_step by congruence. unfold run_state. rewrite Hs.
    destruct (lexGround_spec l) as (_ & _ & _ & Sh). specialize (Sh Hi).
    unfold Mfuel in HM. rewrite Hs in HM.
    destruct Sh as [(A & B & C)|[(A & B & C)|[(A & B & C)|[(A & B & C)|(A & B & C)]]]].
    + apply NT_some. right. exact A.
    + apply NT_some. left. intros Q. rewrite Q in B. discriminate.
    + apply IH. unfold Mfuel. rewrite A. lia.
    + apply IH. unfold Mfuel. rewrite A. lia.
    + apply IH. unfold Mfuel. rewrite A. lia.
  - rewrite NT_step by congruence. unfold run_state. rewrite Hs.
    destruct (lexQString_spec l) as (_ & _ & _ & _ & A & _). apply NT_some, A.
  - rewrite NT_step by congruence. unfold run_state. rewrite Hs.
    destruct (lexUnquoted_spec l) as (_ & _ & _ & _ & A & _). apply NT_some, A.
  - rewrite NT_done by assumption. discriminate.
Qed.

Theorem NextToken_fuel_enough : forall l : lexer, fst (NextToken (lex_fuel l) l) <> None.
Proof. intros l. apply NT_fuel. unfold Mfuel, lex_fuel. destruct (state l); lia. Qed.

(* ------------------------------------------------------------------ T3: error budget of the lexer *)
Inductive lreach : lexer -> Prop :=
| lreach_new input : lreach (newLexer input)
| lreach_tok f l : lreach l -> lreach (snd (NextToken f l))
| lreach_pat l b : lreach l -> lreach (with_inPattern l b).

Lemma lreach_inv l : lreach l ->
  O3 l /\ length (errs l) = errcnt l /\ (errcnt l = 9 -> exists r, errs l = tooMany :: r).
Proof.
  induction 1 as [input|f l H IH|l b H IH].
  - unfold O3. cbn [newLexer errcnt errs length]. split; [split; [lia|intros; discriminate]|].
    split; [reflexivity|intros; discriminate].
  - destruct IH as (IH1 & IH2 & IH3). destruct (NT_mono3 f l) as (A & (es & E1 & E2 & E3 & E4) & C).
    split; [apply C, IH1|]. split; [rewrite E1, app_length, E3; lia|].
    intros H9. destruct (Nat.eq_dec (errcnt l) 9) as [E|N].
    + assert (length es = 0) as H0 by lia. destruct es; [|discriminate]. rewrite E1. apply IH3, E.
    + destruct IH1 as [IH1 _]. assert (errcnt l < 9) as Hlt by lia. destruct (E4 Hlt H9) as [r Hr].
      exists (r ++ errs l). rewrite E1, Hr. reflexivity.
  - exact IH.
Qed.

Theorem lreach_errcnt : forall l, lreach l -> (errcnt l <= 9)%nat /\ (errcnt l = 9%nat -> after (cu l) = []).
Proof. intros l H. apply (lreach_inv l H). Qed.

Theorem lreach_lexer_errs : forall l, lreach l -> length (errs l) = errcnt l.
Proof. intros l H. apply (lreach_inv l H). Qed.

Theorem lreach_errs_bounded : forall l, lreach l -> length (errs l) <= 9.
Proof. intros l H. destruct (lreach_inv l H) as ([A _] & B & _). lia. Qed.

(* errs is newest first: the ninth message written is "too many errors" *)
Theorem lreach_ninth_is_tooMany : forall l, lreach l -> errcnt l = 9 -> exists r, errs l = tooMany :: r.
Proof. intros l H. apply (lreach_inv l H). Qed.

Theorem lreach_all_lexer_errs : forall l, lreach l -> Forall (fun e => is_lexer_err e = true) (errs l).
Proof.
  induction 1 as [input|f l H IH|l b H IH].
  - constructor.
  - destruct (NT_mono3 f l) as (_ & (es & E1 & E2 & _) & _). rewrite E1. apply Forall_app. split; assumption.
  - exact IH.
Qed.

Theorem lreach_done_after_drop : forall l, lreach l -> errcnt l = 9 ->
  forall f, after (cu (snd (NextToken f l))) = [] /\ errs (snd (NextToken f l)) = errs l.
Proof.
  intros l H H9 f. destruct (lreach_inv l H) as ([_ A] & _ & _).
  pose proof (lreach_inv _ (lreach_tok f l H)) as ([B _] & _ & _).
  destruct (NT_mono3 f l) as (Hla & (es & E1 & _ & E3 & _) & _).
  split; [apply len0_nil; rewrite (A H9) in Hla; exact Hla|].
  assert (length es = 0) as H0 by lia. destruct es; [|discriminate]. exact E1.
Qed.

(* ------------------------------------------------------------------ one NextToken call, from a resting state *)
Definition Term (B : nat) (l1 : lexer) : Prop :=
  (state l1 = SGround \/ state l1 = SDone) /\ O2 l1 /\ mu l1 <= B /\ (items l1 = [] -> state l1 = SDone).

Definition MonoP (l l1 : lexer) : Prop := ext l l1 /\ (O3 l -> O3 l1 /\ Pot l1 <= Pn l).

Lemma O2_short l : length (items l) <= 1 -> O2 l.
Proof.
  unfold O2. destruct (items l) as [|t [|u r]]; cbn [length removelast]; intros H; [constructor|constructor|lia].
Qed.

(* second stage: the state entered by lexGround emits *)
Lemma stage2 l l1 l2 :
  items l1 = [] -> state l1 <> SDone -> MonoP l l1 -> QSpec l1 l2 -> mu l2 <= 2 * lal l ->
  Term (2 * lal l) l2 /\ MonoP l l2.
Proof.
  intros Hi Hs (Hext & HO) (A & B & C & D & E & F & G) Hmu. split.
  - split; [exact D|]. split; [apply F; rewrite Hi; constructor|]. split; [exact Hmu|].
    intros H0. destruct E as [E|E]; [contradiction|exact E].
  - split; [eapply ext_trans; eassumption|]. intros H. destruct (HO H) as [H1 Hp].
    destruct (C H1) as [H2 Hp2]. split; [exact H2|].
    assert (Pot l1 = Pn l1) as Q by (unfold Pot; destruct (state l1); congruence). lia.
Qed.

Lemma NT_run f : forall l r l', state l = SGround -> items l = [] -> NextToken f l = (Some r, l') ->
  exists l1, NextToken 0 l1 = (Some r, l') /\ Term (2 * lal l) l1 /\ MonoP l l1.
Proof.
  induction f as [|f IH]; intros l r l' Hs Hi H.
  - rewrite NT_zero in H by congruence. discriminate.
  - rewrite NT_step in H by congruence. unfold run_state in H. rewrite Hs in H.
    destruct (lexGround_spec l) as (Hla & Hext & HO & Sh). specialize (Sh Hi).
    set (l1 := lexGround l) in *.
    assert (HM : MonoP l l1) by (split; assumption).
    destruct Sh as [(A & B & C)|[(A & B & C)|[(A & B & C)|[(A & B & C)|(A & B & C)]]]].
    + exists l1. rewrite NT_term in H by (right; exact A). split; [exact H|]. split; [|exact HM].
      split; [right; exact A|]. split; [apply O2_short; rewrite B; cbn [length]; lia|].
      split; [unfold mu; rewrite B; cbn [length]; lia|intros _; exact A].
    + assert (Hne : items l1 <> []) by (intros Q; rewrite Q in B; discriminate).
      exists l1. rewrite NT_term in H by (left; exact Hne). split; [exact H|]. split; [|exact HM].
      split; [destruct A as [A|A]; [right|left]; exact A|]. split; [apply O2_short; lia|].
      split; [unfold mu; lia|intros Q; contradiction].
    + destruct (IH l1 r l' A B H) as (l2 & H2 & (T1 & T2 & T3 & T4) & (E2 & O2')).
      exists l2. split; [exact H2|]. split.
      * split; [exact T1|]. split; [exact T2|]. split; [lia|exact T4].
      * split; [eapply ext_trans; eassumption|]. intros HO3. destruct (HO HO3) as [H1 Hp].
        destruct (O2' H1) as [H3 Hp3]. split; [exact H3|]. unfold Pot in Hp. rewrite A in Hp. lia.
    + destruct f as [|f]; [rewrite NT_zero in H by congruence; discriminate|].
      rewrite NT_step in H by congruence. unfold run_state in H. rewrite A in H.
      pose proof (lexQString_spec l1) as HQ. set (l2 := lexQString l1) in *.
      assert (Hmu : mu l2 <= 2 * lal l).
      { destruct HQ as (_ & _ & _ & _ & _ & _ & G). unfold mu in G at 2. rewrite B in G. cbn [length] in G. lia. }
      destruct (stage2 l l1 l2 B ltac:(congruence) HM HQ Hmu) as [T M].
      exists l2. split; [|split; assumption].
      rewrite NT_term in H; [exact H|]. destruct HQ as (_ & _ & _ & _ & E & _). exact E.
    + destruct f as [|f]; [rewrite NT_zero in H by congruence; discriminate|].
      rewrite NT_step in H by congruence. unfold run_state in H. rewrite A in H.
      pose proof (lexUnquoted_spec l1) as HQ.
      destruct (unquoted_loop_spec (S (lal l1)) l1) as [HU HU2]. fold (lexUnquoted l1) in HU, HU2.
      set (l2 := lexUnquoted l1) in *.
      assert (Hmu : mu l2 <= 2 * lal l).
      { destruct HU as (U1 & _ & _ & U4). unfold mu.
        assert (length (items l2) <= 1) as Hlen.
        { destruct U4 as [(_ & t & _ & U4)|(_ & U4)]; rewrite U4, B; [rewrite push_nil|]; cbn [length]; lia. }
        destruct C as [C|[C1 C2]]; [lia|]. specialize (HU2 ltac:(discriminate) C2). lia. }
      destruct (stage2 l l1 l2 B ltac:(congruence) HM HQ Hmu) as [T M].
      exists l2. split; [|split; assumption].
      rewrite NT_term in H; [exact H|]. destruct HQ as (_ & _ & _ & _ & E & _). exact E.
Qed.

(* the invariant of the lexer between two NextToken calls *)
Definition LexInv (l : lexer) : Prop :=
  (state l = SGround \/ state l = SDone) /\ O2 l /\ O3 l /\ Pot l <= 10 /\ cnt (errs l) = errcnt l.

Lemma NT_PI f l r l' : LexInv l -> NextToken f l = (Some r, l') ->
  LexInv l' /\
  match r with
  | Some t => mu l' < mu l /\ (if is_TError t then Pot l' < Pot l else items l' = [] /\ Pot l' <= Pot l)
  | None => mu l' <= mu l /\ items l' = [] /\ Pot l' <= Pot l
  end.
Proof.
  intros (I1 & I2 & I3 & I4 & I5) H.
  assert (exists l1, NextToken 0 l1 = (Some r, l') /\ Term (mu l) l1 /\ ext l l1 /\ O3 l1 /\ Pot l1 <= Pot l)
    as (l1 & H1 & (T1 & T2 & T3 & T4) & Hext & HO & HP).
  { destruct (items l) as [|t its] eqn:Hi.
    - destruct I1 as [Hs|Hs].
      + destruct (NT_run f l r l' Hs Hi H) as (l1 & H1 & T & (E & O)). exists l1.
        destruct (O I3) as [O1 O2']. split; [exact H1|]. split; [|split; [exact E|split; [exact O1|]]].
        * unfold mu at 1. rewrite Hi. cbn [length]. rewrite Nat.add_0_r. exact T.
        * unfold Pot at 2. rewrite Hs. exact O2'.
      + exists l. rewrite NT_term in H by (right; exact Hs). split; [exact H|].
        split; [|split; [apply ext_refl|split; [exact I3|lia]]].
        split; [right; exact Hs|]. split; [exact I2|]. split; [lia|intros _; exact Hs].
    - exists l. rewrite NT_term in H by (left; rewrite Hi; discriminate). split; [exact H|].
      split; [|split; [apply ext_refl|split; [exact I3|lia]]].
      split; [exact I1|]. split; [exact I2|]. split; [lia|intros Q; rewrite Hi in Q; discriminate]. }
  assert (Hcnt : cnt (errs l1) = errcnt l1).
  { destruct Hext as (es & E1 & E2 & E3 & _). rewrite E1, cnt_app, (cnt_all es E2), I5, E3. reflexivity. }
  destruct (items l1) as [|t its] eqn:Hi1.
  - rewrite (NT_done 0 l1 Hi1 (T4 eq_refl)) in H1. injection H1 as <- <-.
    split; [|split; [lia|split; [exact Hi1|exact HP]]].
    split; [exact T1|]. split; [exact T2|]. split; [exact HO|]. split; [lia|exact Hcnt].
  - rewrite (NT_cons 0 l1 t its Hi1) in H1. injection H1 as <- <-.
    assert (Hn : nerr l1 = (if is_TError t then 1 else 0) + nerrs its).
    { unfold nerr. rewrite Hi1. change (t :: its) with ([t] ++ its). rewrite nerrs_app.
      unfold nerrs at 1. cbn [filter]. destruct (is_TError t); reflexivity. }
    assert (HP' : Pot (popl l1 its) + (if is_TError t then 1 else 0) = Pot l1).
    { unfold Pot, Pn, nerr in *. cbn [popl state items errcnt]. rewrite Hi1 in *. destruct (state l1); lia. }
    split.
    + split; [exact T1|]. split.
      { unfold O2 in *. cbn [popl items]. rewrite Hi1 in T2. cbn [removelast] in T2.
        destruct its as [|u its']; [constructor|]. inversion T2; assumption. }
      split; [exact HO|]. split; [lia|exact Hcnt].
    + split; [unfold mu in *; cbn [popl cu items]; rewrite Hi1 in T3; cbn [length] in T3; lia|].
      destruct (is_TError t) eqn:Ht; [lia|]. split; [|lia]. cbn [popl items].
      unfold O2 in T2. rewrite Hi1 in T2. cbn [removelast] in T2.
      destruct its as [|u its']; [reflexivity|]. inversion T2 as [|? ? Hx _]. unfold TErr in Hx. congruence.
Qed.

(* ------------------------------------------------------------------ parser: raw / concat_loop / pnext *)
Definition nu (p : parser) : nat := mu (lx p) + length (toks p).

Lemma raw_next_spec f : forall p r p', LexInv (lx p) -> oof p = false -> Pot (lx p) < f -> raw_next f p = (r, p') ->
  LexInv (lx p') /\ oof p' = false /\ toks p' = toks p /\ items (lx p') = [] /\
  match r with Some _ => mu (lx p') < mu (lx p) | None => mu (lx p') <= mu (lx p) end.
Proof.
  induction f as [|f IH]; intros p r p' HPI Hoof HP H; [lia|]. cbn [raw_next] in H.
  pose proof (NextToken_fuel_enough (lx p)) as Hfuel.
  destruct (NextToken (lex_fuel (lx p)) (lx p)) as [[[t|]|] l1] eqn:E; cbn [fst] in Hfuel; [| |congruence].
  - destruct (NT_PI _ _ _ _ HPI E) as (PI1 & Hmu & Ht). destruct (is_TError t).
    + destruct (IH (with_lx p l1) r p' PI1 Hoof ltac:(cbn [with_lx lx]; lia) H) as (A & B & C & D & F).
      cbn [with_lx lx toks] in *. split; [exact A|]. split; [exact B|]. split; [exact C|]. split; [exact D|].
      destruct r; lia.
    + injection H as <- <-. cbn [with_lx lx toks oof]. destruct Ht as [Hi _].
      split; [exact PI1|]. split; [exact Hoof|]. split; [reflexivity|]. split; [exact Hi|exact Hmu].
  - destruct (NT_PI _ _ _ _ HPI E) as (PI1 & Hmu & Hi & _). injection H as <- <-. cbn [with_lx lx toks oof].
    split; [exact PI1|]. split; [exact Hoof|]. split; [reflexivity|]. split; [exact Hi|exact Hmu].
Qed.

Lemma raw_spec p r p' : LexInv (lx p) -> oof p = false -> raw p = (r, p') ->
  LexInv (lx p') /\ oof p' = false /\ toks p' = toks p /\ items (lx p') = [] /\
  match r with Some _ => mu (lx p') < mu (lx p) | None => mu (lx p') <= mu (lx p) end.
Proof.
  intros HPI Hoof H. unfold raw in H. apply (raw_next_spec _ _ _ _ HPI Hoof) in H; [exact H|].
  destruct HPI as (_ & _ & _ & HP & _). unfold raw_fuel. lia.
Qed.

Lemma raw_no_oof p : LexInv (lx p) -> oof p = false -> oof (snd (raw p)) = false.
Proof. intros H1 H2. destruct (raw p) as [r p'] eqn:E. apply (raw_spec _ _ _ H1 H2 E). Qed.

Lemma concat_loop_spec f : forall t p r p',
  LexInv (lx p) -> oof p = false -> items (lx p) = [] -> lal (lx p) < f -> concat_loop f t p = (r, p') ->
  LexInv (lx p') /\ oof p' = false /\ nu p' <= nu p /\ r <> None.
Proof.
  induction f as [|f IH]; intros t p r p' HPI Hoof Hi Hf H; [lia|]. cbn [concat_loop] in H.
  destruct (raw p) as [nt p1] eqn:R1. destruct (raw_spec _ _ _ HPI Hoof R1) as (PI1 & O1 & T1 & I1 & M1).
  assert (L1 : length (toks p1) = length (toks p)) by (rewrite T1; reflexivity).
  destruct nt as [nt'|].
  2:{ injection H as <- <-. split; [exact PI1|]. split; [exact O1|]. split; [unfold nu; lia|discriminate]. }
  destruct (is_TUnquoted nt' && str_eqb (t_text nt') s_plus).
  2:{ injection H as <- <-. cbn [with_toks lx oof]. split; [exact PI1|]. split; [exact O1|].
      split; [unfold nu; cbn [with_toks lx toks length]; lia|discriminate]. }
  destruct (raw p1) as [nnt p2] eqn:R2. destruct (raw_spec _ _ _ PI1 O1 R2) as (PI2 & O2' & T2 & I2 & M2).
  assert (L2 : length (toks p2) = length (toks p1)) by (rewrite T2; reflexivity).
  destruct nnt as [nnt'|].
  2:{ injection H as <- <-. cbn [with_toks lx oof]. split; [exact PI2|]. split; [exact O2'|].
      split; [unfold nu; cbn [with_toks lx toks length]; lia|discriminate]. }
  destruct (is_TString nnt').
  - assert (Hf2 : lal (lx p2) < f).
    { unfold mu in M1, M2. rewrite Hi, I1 in M1. rewrite I1, I2 in M2. cbn [length] in *. lia. }
    destruct (IH _ _ _ _ PI2 O2' I2 Hf2 H) as (A & B & C & D).
    split; [exact A|]. split; [exact B|]. split; [unfold nu in *; lia|exact D].
  - injection H as <- <-. cbn [with_toks lx oof]. split; [exact PI2|]. split; [exact O2'|].
    split; [unfold nu; cbn [with_toks lx toks length]; lia|discriminate].
Qed.

Lemma pnext_spec p r p' : LexInv (lx p) -> oof p = false -> pnext p = (r, p') ->
  LexInv (lx p') /\ oof p' = false /\ match r with Some _ => nu p' < nu p | None => nu p' <= nu p end.
Proof.
  intros HPI Hoof H. unfold pnext in H. destruct (toks p) as [|t0 ts] eqn:Ht.
  - destruct (raw p) as [t p1] eqn:R1. destruct (raw_spec _ _ _ HPI Hoof R1) as (PI1 & O1 & T1 & I1 & M1).
    assert (L1 : length (toks p1) = length (toks p)) by (rewrite T1; reflexivity).
    destruct t as [t'|].
    + destruct (is_TString t').
      * destruct (concat_loop_spec _ _ _ _ _ PI1 O1 I1 (Nat.lt_succ_diag_r _) H) as (A & B & C & D).
        split; [exact A|]. split; [exact B|]. destruct r; [|congruence]. unfold nu in *. lia.
      * injection H as <- <-. split; [exact PI1|]. split; [exact O1|]. unfold nu. lia.
    + injection H as <- <-. split; [exact PI1|]. split; [exact O1|]. unfold nu. lia.
  - injection H as <- <-. cbn [with_toks lx oof]. split; [exact HPI|]. split; [exact Hoof|].
    unfold nu. cbn [with_toks lx toks]. rewrite Ht. cbn [length]. lia.
Qed.

Lemma pnext_no_oof p : LexInv (lx p) -> oof p = false -> oof (snd (pnext p)) = false.
Proof. intros H1 H2. destruct (pnext p) as [r p'] eqn:E. apply (pnext_spec _ _ _ H1 H2 E). Qed.

(* ------------------------------------------------------------------ parser: nextStatement / parse_loop / Parse *)
Lemma add_err_PI p pos k s :
  is_lexer_err {| e_pos := pos; e_kind := k; e_subject := s |} = false ->
  LexInv (lx p) -> LexInv (lx (add_err p pos k s)).
Proof.
  intros Hk (A & B & C & D & E). unfold LexInv, O2, O3, Pot, Pn, nerr in *.
  cbn [add_err with_lx lx state items errcnt cu errs].
  split; [exact A|]. split; [exact B|]. split; [exact C|]. split; [exact D|].
  unfold cnt in *. cbn [filter]. rewrite Hk. exact E.
Qed.

Lemma nu_add_err p pos k s : nu (add_err p pos k s) = nu p.
Proof. reflexivity. Qed.

Lemma PI_with_inPattern l b : LexInv l -> LexInv (with_inPattern l b).
Proof. intros H. exact H. Qed.

(* the sub-statement loop of nextStatement, named (the model uses an anonymous nested fix) *)
Section TpSubs.
  Variable ns : parser -> sres * parser.
  Variable mk : list stmt -> stmt.
  Fixpoint tp_subs (n : nat) (p : parser) (acc : list stmt) {struct n} : sres * parser :=
    match n with
    | O => (RNil, set_oof p)
    | S n' =>
      match ns p with
      | (RNil, p) => (RNil, p)
      | (RBrace, p) => (RStmt (mk (rev acc)), p)
      | (RIgnore, p) => tp_subs n' p (Stmt [] false [] 0 0 0 [] :: acc)
      | (RStmt s, p) => tp_subs n' p (s :: acc)
      end
    end.
End TpSubs.

Definition tp_tail (f : nat) (t : token) (p : parser) : sres * parser :=
  let kw := t_text t in
  let p := with_lx p (with_inPattern (lx p) (str_eqb kw s_pattern)) in
  let (t2, p) := pnext p in
  let p := with_lx p (with_inPattern (lx p) false) in
  let '(has, arg, t3, p) :=
    match t2 with
    | Some a => if is_TString a || is_TUnquoted a
                then let (t3, p) := pnext p in (true, t_text a, t3, p)
                else (false, [], t2, p)
    | None => (false, [], t2, p)
    end in
  match t3 with
  | None => (RNil, add_err p None EUnexpectedEOF None)
  | Some t3 =>
    if is_TChar cSEMI t3 then (RStmt (Stmt kw has arg (t_line t) (t_col t) (t_off t) []), p)
    else if is_TChar cLB t3 then
      let p := {| lx := lx p; toks := toks p; depth := (depth p + 1)%Z; hb_line := hb_line p;
                  hb_col := hb_col p; hb_off := hb_off p; oof := oof p |} in
      tp_subs (nextStatement f) (fun l => Stmt kw has arg (t_line t) (t_col t) (t_off t) l) f p []
    else (RIgnore, add_err p (tok_pos t3) ESyntax (Some (t_off t3)))
  end.

Lemma tp_nextStatement_eq f p : nextStatement (S f) p =
  let (t, p) := pnext p in
  match t with
  | None => (RNil, p)
  | Some t =>
    if is_TChar cRB t then
      (RBrace, {| lx := lx p; toks := toks p; depth := (depth p - 1)%Z; hb_line := t_line t; hb_col := t_col t;
                  hb_off := t_off t; oof := oof p |})
    else if negb (is_TUnquoted t) then
      (RIgnore, add_err p (tok_pos t) EKeywordNotUnquoted (Some (t_off t)))
    else tp_tail f t p
  end.
Proof. reflexivity. Qed.

Definition NSpost (p : parser) (r : sres) (p' : parser) : Prop :=
  LexInv (lx p') /\ oof p' = false /\ nu p' <= nu p /\ (r <> RNil -> nu p' < nu p).

Lemma tp_subs_spec ns mk f0 :
  (forall p r p', LexInv (lx p) -> oof p = false -> nu p < f0 -> ns p = (r, p') -> NSpost p r p') ->
  forall n p acc r p', LexInv (lx p) -> oof p = false -> nu p < n -> nu p < f0 ->
    tp_subs ns mk n p acc = (r, p') -> LexInv (lx p') /\ oof p' = false /\ nu p' <= nu p.
Proof.
  intros Hns. induction n as [|n IH]; intros p acc r p' HPI Hoof Hn Hf H; [lia|]. cbn [tp_subs] in H.
  destruct (ns p) as [r1 p1] eqn:E1. destruct (Hns _ _ _ HPI Hoof Hf E1) as (A & B & C & D).
  destruct r1.
  - injection H as <- <-. split; [exact A|]. split; [exact B|exact C].
  - injection H as <- <-. split; [exact A|]. split; [exact B|exact C].
  - specialize (D ltac:(discriminate)).
    destruct (IH _ _ _ _ A B ltac:(lia) ltac:(lia) H) as (A' & B' & C'). split; [exact A'|]. split; [exact B'|lia].
  - specialize (D ltac:(discriminate)).
    destruct (IH _ _ _ _ A B ltac:(lia) ltac:(lia) H) as (A' & B' & C'). split; [exact A'|]. split; [exact B'|lia].
Qed.

Lemma nextStatement_spec f : forall p r p', LexInv (lx p) -> oof p = false -> nu p < f ->
  nextStatement f p = (r, p') -> NSpost p r p'.
Proof.
  induction f as [|f IH]; intros p r p' HPI Hoof Hf H; [lia|].
  rewrite tp_nextStatement_eq in H.
  destruct (pnext p) as [t p1] eqn:H1. destruct (pnext_spec _ _ _ HPI Hoof H1) as (PI1 & O1 & N1).
  destruct t as [t|].
  2:{ injection H as <- <-. split; [exact PI1|]. split; [exact O1|]. split; [exact N1|congruence]. }
  assert (Fin : LexInv (lx p') /\ oof p' = false /\ nu p' <= nu p1 -> NSpost p r p').
  { intros (A & B & C). split; [exact A|]. split; [exact B|]. split; intros; lia. }
  apply Fin. clear Fin.
  destruct (is_TChar cRB t).
  { injection H as <- <-. cbn [lx oof]. split; [exact PI1|]. split; [exact O1|]. unfold nu. cbn [lx toks]. lia. }
  destruct (is_TUnquoted t); cbn [negb] in H.
  2:{ injection H as <- <-. split; [apply add_err_PI; [reflexivity|exact PI1]|]. split; [exact O1|].
      rewrite nu_add_err. lia. }
  unfold tp_tail in H. cbv zeta in H.
  assert (PI2 : LexInv (lx (with_lx p1 (with_inPattern (lx p1) (str_eqb (t_text t) s_pattern))))) by exact PI1.
  assert (N2 : nu (with_lx p1 (with_inPattern (lx p1) (str_eqb (t_text t) s_pattern))) = nu p1) by reflexivity.
  destruct (pnext (with_lx p1 (with_inPattern (lx p1) (str_eqb (t_text t) s_pattern)))) as [t2 p3] eqn:H3.
  destruct (pnext_spec _ _ _ PI2 O1 H3) as (PI3 & O3' & N3).
  assert (N3' : nu p3 <= nu p1) by (destruct t2; lia).
  assert (PI4 : LexInv (lx (with_lx p3 (with_inPattern (lx p3) false)))) by exact PI3.
  assert (N4 : nu (with_lx p3 (with_inPattern (lx p3) false)) = nu p3) by reflexivity.
  assert (O4 : oof (with_lx p3 (with_inPattern (lx p3) false)) = false) by exact O3'.
  set (p4 := with_lx p3 (with_inPattern (lx p3) false)) in *.
  assert (Tail : forall has arg t3 p5, LexInv (lx p5) -> oof p5 = false -> nu p5 <= nu p1 ->
            match t3 with
            | None => (RNil, add_err p5 None EUnexpectedEOF None)
            | Some t3 =>
              if is_TChar cSEMI t3 then (RStmt (Stmt (t_text t) has arg (t_line t) (t_col t) (t_off t) []), p5)
              else if is_TChar cLB t3 then
                tp_subs (nextStatement f) (fun l => Stmt (t_text t) has arg (t_line t) (t_col t) (t_off t) l) f
                  {| lx := lx p5; toks := toks p5; depth := (depth p5 + 1)%Z; hb_line := hb_line p5;
                     hb_col := hb_col p5; hb_off := hb_off p5; oof := oof p5 |} []
              else (RIgnore, add_err p5 (tok_pos t3) ESyntax (Some (t_off t3)))
            end = (r, p') -> LexInv (lx p') /\ oof p' = false /\ nu p' <= nu p1).
  { intros has arg t3 p5 PI5 O5 N5 Q. destruct t3 as [t3|].
    - destruct (is_TChar cSEMI t3).
      + injection Q as <- <-. split; [exact PI5|]. split; [exact O5|exact N5].
      + destruct (is_TChar cLB t3).
        * set (p6 := {| lx := lx p5; toks := toks p5; depth := (depth p5 + 1)%Z; hb_line := hb_line p5;
                         hb_col := hb_col p5; hb_off := hb_off p5; oof := oof p5 |}) in Q.
          assert (N6 : nu p6 = nu p5) by reflexivity.
          destruct (tp_subs_spec (nextStatement f) _ f IH f p6 _ _ _ (PI5 : LexInv (lx p6)) (O5 : oof p6 = false)
                      ltac:(lia) ltac:(lia) Q) as (A & B & C).
          split; [exact A|]. split; [exact B|]. lia.
        * injection Q as <- <-. split; [apply add_err_PI; [reflexivity|exact PI5]|]. split; [exact O5|].
          rewrite nu_add_err. exact N5.
    - injection Q as <- <-. split; [apply add_err_PI; [reflexivity|exact PI5]|]. split; [exact O5|].
      rewrite nu_add_err. exact N5. }
  destruct t2 as [a|].
  - destruct (is_TString a || is_TUnquoted a).
    + destruct (pnext p4) as [t3 p5] eqn:H5. destruct (pnext_spec _ _ _ PI4 O4 H5) as (PI5 & O5 & N5).
      apply (Tail true (t_text a) t3 p5 PI5 O5 ltac:(destruct t3; lia) H).
    + apply (Tail false [] (Some a) p4 PI4 O4 ltac:(lia) H).
  - apply (Tail false [] None p4 PI4 O4 ltac:(lia) H).
Qed.

Lemma parse_loop_spec fuel : forall n p acc ss p', LexInv (lx p) -> oof p = false -> nu p < n -> nu p < fuel ->
  parse_loop fuel n p acc = (ss, p') -> LexInv (lx p') /\ oof p' = false.
Proof.
  induction n as [|n IH]; intros p acc ss p' HPI Hoof Hn Hf H; [lia|]. cbn [parse_loop] in H.
  destruct (nextStatement fuel p) as [r p1] eqn:E1.
  destruct (nextStatement_spec _ _ _ _ HPI Hoof Hf E1) as (A & B & C & D).
  destruct r.
  - injection H as <- <-. split; assumption.
  - specialize (D ltac:(discriminate)). refine (IH _ _ _ _ _ _ _ _ H).
    + apply add_err_PI; [reflexivity|exact A].
    + exact B.
    + rewrite nu_add_err. lia.
    + rewrite nu_add_err. lia.
  - specialize (D ltac:(discriminate)). apply (IH _ _ _ _ A B ltac:(lia) ltac:(lia) H).
  - specialize (D ltac:(discriminate)). apply (IH _ _ _ _ A B ltac:(lia) ltac:(lia) H).
Qed.

Lemma newLexer_len input : lal (newLexer input) <= S (length input).
Proof.
  cbn [newLexer cu after]. destruct (rev input) as [|c r]; [lia|].
  destruct (c =? cLF)%N; [lia|]. rewrite app_length. cbn [length]. lia.
Qed.

Lemma newLexer_PI input : LexInv (newLexer input).
Proof.
  unfold LexInv, O2, O3, Pot, Pn, nerr, cnt. cbn [newLexer state items errcnt errs removelast nerrs filter length].
  split; [left; reflexivity|]. split; [constructor|]. split; [split; [lia|intros; discriminate]|].
  split; [unfold nerrs; cbn [filter length]; lia|reflexivity].
Qed.

Lemma Parse_final input : exists p, LexInv (lx p) /\ oof p = false /\ snd (Parse input) = oof p /\
  snd (fst (Parse input)) = rev (errs (lx p)).
Proof.
  unfold Parse. destruct (parse_loop (parse_fuel input) (parse_fuel input) (newParser input) []) as [ss p1] eqn:E.
  assert (Hnu : nu (newParser input) < parse_fuel input).
  { unfold nu, mu, parse_fuel. cbn [newParser lx toks length]. pose proof (newLexer_len input).
    assert (items (newLexer input) = []) as -> by reflexivity. cbn [length]. lia. }
  destruct (parse_loop_spec _ _ _ _ _ _ (newLexer_PI input : LexInv (lx (newParser input))) eq_refl Hnu Hnu E) as [A B].
  set (p2 := match errs (lx p1) with
             | [] => if (depth p1 =? 0)%Z then p1
                     else add_err p1 (Some (line (cu (lx p1)), col (cu (lx p1)))) EMissingBraces None
             | _ => p1
             end).
  assert (H2 : LexInv (lx p2) /\ oof p2 = false).
  { unfold p2. destruct (errs (lx p1)); [|split; assumption].
    destruct (depth p1 =? 0)%Z; [split; assumption|]. split; [apply add_err_PI; [reflexivity|exact A]|exact B]. }
  exists p2. split; [apply H2|]. split; [apply H2|].
  destruct (errs (lx p2)); split; reflexivity.
Qed.

(* ---- T2 ---- *)
Theorem Parse_never_out_of_fuel : forall input : str, snd (Parse input) = false.
Proof. intros input. destruct (Parse_final input) as (p & _ & B & C & _). rewrite C. exact B. Qed.

(* ---- T4 ---- *)
Theorem Parse_lexer_errors_bounded : forall input,
  length (filter is_lexer_err (snd (fst (Parse input)))) <= 9.
Proof.
  intros input. destruct (Parse_final input) as (p & (_ & _ & [H9 _] & _ & Hc) & _ & _ & D).
  rewrite D. fold (cnt (rev (errs (lx p)))). rewrite cnt_rev, Hc. exact H9.
Qed.

(* ---- non-vacuity ---- *)
Example Parse_good_text :
  Parse [97;32;123;98;59;125]%N =
  ([Stmt [97%N] false [] 1 1 0 [Stmt [98%N] false [] 1 4 3 []]], [], false).
Proof. vm_compute. reflexivity. Qed.

(* a " \a\a\a\a\a\a\a\a\a\a\a\a"; : twelve invalid escapes give eight messages, then "too many errors" *)
Example Parse_error_budget :
  let r := Parse [97;32;34;92;97;92;97;92;97;92;97;92;97;92;97;92;97;92;97;92;97;92;97;92;97;92;97;34;59]%N in
  map e_kind (filter is_lexer_err (snd (fst r))) =
    [EInvalidEscape; EInvalidEscape; EInvalidEscape; EInvalidEscape; EInvalidEscape; EInvalidEscape;
     EInvalidEscape; EInvalidEscape; ETooMany] /\
  map e_kind (snd (fst r)) =
    [EInvalidEscape; EInvalidEscape; EInvalidEscape; EInvalidEscape; EInvalidEscape; EInvalidEscape;
     EInvalidEscape; EInvalidEscape; ETooMany; EUnexpectedEOF] /\
  snd r = false.
Proof. vm_compute. repeat split. Qed.

Example lreach_budget_reached :
  let l := snd (NextToken 100 (newLexer [34;92;97;92;97;92;97;92;97;92;97;92;97;92;97;92;97;92;97;92;97;34]%N)) in
  lreach l /\ errcnt l = 9 /\ after (cu l) = [] /\ length (errs l) = 9.
Proof. split; [apply lreach_tok, lreach_new|]. vm_compute. repeat split. Qed.

(* ------------------------------------------------------------------------------------------------
   Totality facts about the other modelled functions, derived from the specifications proved in the
   proof files of C10 / C15 (used by Properties/C01.v; everything above depends on Lex / Parse only). *)
From GY Require Base.Outcome Model.Number Model.Range Spec.C10 Spec.C15 Proofs.RangeProofs Proofs.NumberProofs.

(* parseChildRanges (types_builtin.go) on a well-formed parent restriction returns a range or an error:
   the model has no reachable Panic *)
Lemma parseChildRanges_no_panic fd dec y s :
  C10.okRs fd y -> C10.WF y -> (dec = false -> fd = 0%Z) ->
  Range.parseChildRanges y s dec fd <> Outcome.Panic.
Proof.
  intros O W H E. pose proof (RangeProofs.parseChildRanges_spec fd dec y s O W H) as P.
  rewrite E in P. exact P.
Qed.

(* Number.Int never wraps around and never panics: it returns the exact value when that is an int64 and
   an error otherwise *)
Lemma Int_no_wrap n : C15.dom n ->
  (exists z, Number.Int n = Outcome.Ok z /\ z = C15.sval n /\ (- Number.two63 <= z < Number.two63)%Z) \/
  Number.Int n = Outcome.Err.
Proof.
  intro D. pose proof (NumberProofs.Int_spec n D) as P.
  destruct (Number.Int n) as [z| | |]; [left; exists z; intuition|right; reflexivity|contradiction|contradiction].
Qed.
