(* C13 (c), nested includes: submodules including submodules, any acyclic include graph in which
   every submodule belongs to the module.  Instantiates the generic part of IncludeProofs.v. *)
From Coq Require Import List Arith NArith Bool Lia Permutation.
Import ListNotations.
From GY Require Import Model.Schema Proofs.IncludeProofs.

Definition sstep (SC : schema) (f : nat) (st : list module * list str) (sn : str) : list module * list str :=
  let '(acc, seen) := st in
  if mem sn seen then st
  else match find_module SC sn with
       | None => (acc, seen)
       | Some sm =>
         let '(below, seen') := subs_of f SC (sn :: seen) (m_includes sm) in
         (acc ++ sm :: below, seen')
       end.

Lemma subs_of_S : forall f SC seen incs,
  subs_of (S f) SC seen incs = fold_left (sstep SC f) incs ([], seen).
Proof. reflexivity. Qed.

Lemma sstep_acc : forall SC f incs acc seen,
  fold_left (sstep SC f) incs (acc, seen) =
  (acc ++ fst (fold_left (sstep SC f) incs ([], seen)), snd (fold_left (sstep SC f) incs ([], seen))).
Proof.
  intros SC f. induction incs as [|sn r IH]; intros acc seen; [cbn; rewrite app_nil_r; reflexivity|].
  cbn [fold_left]. unfold sstep at 2 4 6. destruct (mem sn seen).
  - apply IH.
  - destruct (find_module SC sn) as [sm|]; [|apply IH].
    destruct (subs_of f SC (sn :: seen) (m_includes sm)) as [below seen'].
    rewrite (IH (acc ++ sm :: below)), (IH ([] ++ sm :: below)). cbn [fst snd app]. rewrite <- app_assoc. reflexivity.
Qed.

Lemma find_part_app : forall u a b,
  find_part u (a ++ b) = match find_part u a with Some r => Some r | None => find_part u b end.
Proof.
  induction a as [|s a IH]; intros b; [reflexivity|]. cbn [app find_part].
  destruct (find_in u (groupings_of (m_body s))) as [[gid bd]|]; [reflexivity|apply IH].
Qed.

Definition defined (ps : list module) (u : str) : bool := existsb (fun Y => mem u (top_names Y)) ps.

(* a uses name of part X: local, and if it names a top-level grouping of the family at all, then
   one of X itself or of a submodule X reaches through its includes *)
Definition uses_ok_n (SC : schema) (m : module) (subs : list module) (X : module) (u : str) : bool :=
  let u' := trim_prefix (m_prefix m ++ [cCOLON]) u in
  no_colon u' &&
  (negb (defined (m :: subs) u') || defined (X :: fst (subs_of (length SC) SC [] (m_includes X))) u').

Definition part_ok_n (SC : schema) (m : module) (subs : list module) (X : module) : bool :=
  okb (uses_ok_n SC m subs X) (m_body X) &&
  forallb (fun a => okb (uses_ok_n SC m subs X) (snd a)) (m_augments X).

Record nested_family (SC : schema) (m : module) (subs : list module) (rank : module -> nat) : Prop := {
  nf_names : NoDup (map m_name SC);
  nf_m : In m SC;
  nf_nodup : NoDup (map m_name (m :: subs));
  nf_subs : Forall (fun s => In s SC /\ m_belongs s = Some (m_name m) /\ m_prefix s = m_prefix m) subs;
  (* every include of every part names one of the submodules *)
  nf_closed : forall X sn, In X (m :: subs) -> In sn (m_includes X) -> exists s, In s subs /\ m_name s = sn;
  (* no include cycles: includes go down a rank *)
  nf_rank_le : forall X, In X (m :: subs) -> rank X <= length SC;
  nf_rank : forall X s, In X (m :: subs) -> In s subs -> In (m_name s) (m_includes X) -> rank s < rank X;
  (* subs are the submodules reachable from m, in depth-first include order *)
  nf_reach : reachable_subs SC m = subs;
  nf_colon : Forall (fun X => no_colon (m_name X) = true) (m :: subs);
  (* top-level grouping names are distinct across the family *)
  nf_distinct : forall Y Z u, In Y (m :: subs) -> In Z (m :: subs) ->
                find_in u (groupings_of (m_body Y)) <> None -> find_in u (groupings_of (m_body Z)) <> None -> Y = Z;
  nf_ok : Forall (fun X => part_ok_n SC m subs X = true) (m :: subs) }.

Section Nested.
Variable SC : schema.
Variable ic : bool.
Variable m : module.
Variable subs : list module.
Variable rank : module -> nat.
Hypothesis NF : nested_family SC m subs rank.

Local Notation parts := (m :: subs).
Local Notation m' := (absorb m subs).
Local Notation SC' := (map (replace_family (absorb m subs) subs) SC).
Let P := uses_ok_n SC m subs.

Lemma nbase : family_base SC m subs.
Proof.
  constructor; [apply (nf_names _ _ _ _ NF)|apply (nf_m _ _ _ _ NF)|apply (nf_nodup _ _ _ _ NF)|].
  pose proof (nf_subs _ _ _ _ NF) as S. rewrite Forall_forall in *. intros s Hs. destruct (S s Hs) as (A & _ & B). auto.
Qed.

Lemma nok : Forall (fun X => okb (P X) (m_body X) = true /\
                             forallb (fun a => okb (P X) (snd a)) (m_augments X) = true) parts.
Proof.
  pose proof (nf_ok _ _ _ _ NF) as O. rewrite Forall_forall in *. intros X HX. specialize (O X HX).
  unfold part_ok_n in O. apply andb_true_iff in O. exact O.
Qed.

Lemma nfound : forall s, In s subs -> find_module SC (m_name s) = Some s.
Proof.
  intros s H. pose proof (nf_subs _ _ _ _ NF) as S. rewrite Forall_forall in S. destruct (S s H) as (A & _).
  apply find_module_in; [apply (nf_names _ _ _ _ NF)|exact A].
Qed.

Lemma sub_part : forall s, In s subs -> In s parts.
Proof. intros. right. assumption. Qed.

(* the include walk of FindGrouping visits what subs_of lists, in the same order *)
Lemma walk_nested : forall f u, no_colon u = true -> forall incs seen,
  (forall sn, In sn incs -> exists s, In s subs /\ m_name s = sn /\ rank s < f) ->
  (forall s, In s (fst (subs_of f SC seen incs)) -> In s subs) /\
  match find_part u (fst (subs_of f SC seen incs)) with
  | Some (gid, b, s) => fst (incl_walk f SC u incs seen) = Some (gid, b, {| g_mod := s; g_scopes := [m_body s] |})
  | None => incl_walk f SC u incs seen = (None, snd (subs_of f SC seen incs))
  end.
Proof.
  induction f as [|f IHf]; intros u Hu incs seen Hin.
  - destruct incs as [|sn r]; [cbn; split; [tauto|reflexivity]|].
    destruct (Hin sn (or_introl eq_refl)) as (s & _ & _ & L). lia.
  - rewrite subs_of_S. revert seen. induction incs as [|sn r IHr]; intros seen; [cbn; split; [tauto|reflexivity]|].
    cbn [fold_left incl_walk]. unfold sstep at 2 4 6. change (existsb (str_eqb sn) seen) with (mem sn seen).
    assert (Hr : forall sn0, In sn0 r -> exists s, In s subs /\ m_name s = sn0 /\ rank s < S f)
      by (intros; apply Hin; right; assumption).
    destruct (mem sn seen); [apply IHr; exact Hr|].
    destruct (Hin sn (or_introl eq_refl)) as (s & Hs & <- & Rk). rewrite (nfound s Hs).
    assert (Hc : forall cn, In cn (m_includes s) -> exists c, In c subs /\ m_name c = cn /\ rank c < f).
    { intros cn Hcn. destruct (nf_closed _ _ _ _ NF s cn (sub_part s Hs) Hcn) as (c & Hc1 & Hc2).
      exists c. repeat split; auto. pose proof (nf_rank _ _ _ _ NF s c (sub_part s Hs) Hc1). rewrite Hc2 in H.
      specialize (H Hcn). lia. }
    destruct (IHf u Hu (m_includes s) (m_name s :: seen) Hc) as [B1 B2].
    destruct (subs_of f SC (m_name s :: seen) (m_includes s)) as [below seen1] eqn:Eb. cbn [fst snd] in B1, B2.
    rewrite sstep_acc. cbn [fst snd app].
    destruct (IHr Hr seen1) as [R1 R2].
    split.
    + intros x Hx. destruct Hx as [<-|Hx]; [exact Hs|]. apply in_app_or in Hx. destruct Hx as [Hx|Hx]; auto.
    + rewrite fgm_local by exact Hu. cbn [find_part].
      destruct (find_in u (groupings_of (m_body s))) as [[gid b]|] eqn:F; [reflexivity|].
      rewrite find_part_app. destruct (find_part u below) as [[[gid b] x]|] eqn:Fb.
      * destruct f as [|f0]; [cbn in Eb; inversion Eb; subst; discriminate|].
        destruct (incl_walk (S f0) SC u (m_includes s) (m_name s :: seen)) as [[g|] sx]; cbn [fst] in B2; [|discriminate].
        rewrite B2. reflexivity.
      * destruct f as [|f0].
        -- (* no fuel left below: s has no includes *)
           destruct (m_includes s) as [|cn cr] eqn:Ei.
           ++ cbn in Eb. inversion Eb; subst. cbn [find_grouping_mod]. exact R2.
           ++ destruct (Hc cn (or_introl eq_refl)) as (c & _ & _ & L). lia.
        -- rewrite B2. exact R2.
Qed.

Lemma find_part_some : forall u ps gid b s, find_part u ps = Some (gid, b, s) ->
  In s ps /\ find_in u (groupings_of (m_body s)) = Some (gid, b).
Proof.
  induction ps as [|y r IH]; intros gid b s H; [discriminate|]. cbn [find_part] in H.
  destruct (find_in u (groupings_of (m_body y))) as [[g0 b0]|] eqn:E.
  - inversion H; subst. split; [left; reflexivity|exact E].
  - destruct (IH _ _ _ H). split; [right|]; assumption.
Qed.

Lemma find_part_none_inv : forall u ps, find_part u ps = None ->
  forall Y, In Y ps -> find_in u (groupings_of (m_body Y)) = None.
Proof.
  induction ps as [|y r IH]; intros H Y HY; [destruct HY|]. cbn [find_part] in H.
  destruct (find_in u (groupings_of (m_body y))) as [[g0 b0]|] eqn:E; [discriminate|].
  destruct HY as [<-|HY]; [exact E|apply IH; assumption].
Qed.

Lemma find_in_mem : forall u gs, find_in u gs <> None <->
  mem u (map (fun g : nat * str * list dnode => snd (fst g)) gs) = true.
Proof.
  induction gs as [|[[gid n] bd] gs IH]; cbn [find_in map mem existsb fst snd]; [split; [congruence|discriminate]|].
  rewrite (str_eqb_sym u n). destruct (str_eqb n u); [split; [reflexivity|discriminate]|]. exact IH.
Qed.

Lemma nested_LK : forall X u, In X parts -> P X u = true ->
  same_found m subs P
    (fst (find_grouping_mod (S (length SC)) SC X false (trim_prefix (m_prefix m ++ [cCOLON]) u) []))
    (fst (find_grouping_mod (S (length SC')) SC' m' false (trim_prefix (m_prefix m ++ [cCOLON]) u) [])).
Proof.
  intros X u0 HX HP. unfold P, uses_ok_n in HP. set (u := trim_prefix (m_prefix m ++ [cCOLON]) u0) in *.
  apply andb_true_iff in HP. destruct HP as [Hu HD].
  destruct (len_SC SC m subs nbase) as [f0 L]. rewrite (len_SC' SC m subs), L.
  rewrite !fgm_local by exact Hu. rewrite (body_m' m subs), find_in_flat.
  assert (Im' : m_includes m' = []) by reflexivity. rewrite Im'. cbn [incl_walk].
  set (LX := fst (subs_of (length SC) SC [] (m_includes X))) in *.
  assert (Hin : forall sn, In sn (m_includes X) -> exists s, In s subs /\ m_name s = sn /\ rank s < S f0).
  { intros sn Hsn. destruct (nf_closed _ _ _ _ NF X sn HX Hsn) as (s & A & B). exists s. repeat split; auto.
    pose proof (nf_rank _ _ _ _ NF X s HX A) as R. rewrite B in R. specialize (R Hsn).
    pose proof (nf_rank_le _ _ _ _ NF X HX). lia. }
  destruct (walk_nested (S f0) u Hu (m_includes X) [] Hin) as [W1 W2]. rewrite <- L in W1, W2. fold LX in W1, W2.
  assert (LXp : forall Y, In Y (X :: LX) -> In Y parts).
  { intros Y [<-|HY]; [exact HX|right; apply W1; exact HY]. }
  (* the split side is find_part over X and what it reaches *)
  match goal with
  | |- same_found _ _ _ ?l _ =>
    assert (Split : l = match find_part u (X :: LX) with
                        | Some (gid, b, s) => Some (gid, b, {| g_mod := s; g_scopes := [m_body s] |})
                        | None => None
                        end)
  end.
  { cbn [find_part]. destruct (find_in u (groupings_of (m_body X))) as [[gid b]|]; [reflexivity|].
    rewrite <- L. destruct (find_part u LX) as [[[gid b] s]|]; [exact W2|rewrite W2; reflexivity]. }
  rewrite Split. clear Split W2.
  assert (Good : forall gid b s, In s parts -> find_in u (groupings_of (m_body s)) = Some (gid, b) ->
            exists Y, In Y parts /\ Rctx m subs P Y {| g_mod := s; g_scopes := [m_body s] |}
                                          {| g_mod := m'; g_scopes := [m_body m'] |} /\ okb (P Y) b = true).
  { intros gid b s Hs F. exists s. split; [exact Hs|]. split.
    - split; [reflexivity|]. split; [reflexivity|]. exists []. auto.
    - apply (okb_grouping (P s) (m_body s) u gid b); [apply (part_body_ok m subs P nok s Hs)|exact F]. }
  destruct (find_part u parts) as [[[gid b] s]|] eqn:Fp.
  - destruct (find_part_some _ _ _ _ _ Fp) as [Hs Fs].
    assert (Dp : defined parts u = true).
    { apply existsb_exists. exists s. split; [exact Hs|]. apply find_in_mem. rewrite Fs. discriminate. }
    rewrite Dp in HD. cbn [negb orb] in HD. apply existsb_exists in HD. destruct HD as (Y & HY & MY).
    apply find_in_mem in MY.
    assert (Y = s) by (apply (nf_distinct _ _ _ _ NF Y s u); auto; rewrite Fs; discriminate). subst Y.
    rewrite (find_part_only u s (X :: LX)); [|intros Z HZ|exact HY].
    + rewrite Fs. cbn [fst]. unfold same_found. repeat split. eapply Good; eassumption.
    + destruct (find_in u (groupings_of (m_body Z))) eqn:FZ; [left|right; reflexivity].
      apply (nf_distinct _ _ _ _ NF Z s u (LXp Z HZ) Hs); [rewrite FZ|rewrite Fs]; discriminate.
  - rewrite (find_part_none u (X :: LX)); [exact I|].
    intros Y HY. apply (find_part_none_inv u parts Fp). apply LXp. exact HY.
Qed.

(* ------------------------------------------------------------------ module_dir on an include graph *)

Definition merge_pair (acc p : list (str * entry) * bool) : list (str * entry) * bool :=
  let '(sd, serr) := p in let '(d, e) := merge_dir acc None sd in (d, e || serr).

Lemma merge_pair_run : forall A acc,
  merge_pair acc (fold_left run_act A ([], false)) = fold_left run_act A acc.
Proof.
  intros A acc. rewrite (run_split A acc). unfold merge_pair.
  destruct (fold_left run_act A ([], false)) as [sd serr]. rewrite merge_dir_adds. reflexivity.
Qed.

Lemma own_dir_acts : forall f s, entry_fuel SC = S f ->
  own_dir SC s = fold_left run_act
                   (flat_map (act_of SC f {| g_mod := s; g_scopes := [m_body s] |} []) (m_body s)) ([], false).
Proof. intros f s E. rewrite (own_dir_body SC f s E). unfold body_dir. cbn [g_mod g_scopes]. apply body_fold_act. Qed.

Lemma merge_parts_assoc : forall s L acc,
  merge_pair acc (fold_left (merge_part SC) L (own_dir SC s)) = fold_left (merge_part SC) (s :: L) acc.
Proof.
  intros s L acc. destruct (fuel_S SC) as [f Ef].
  set (A := fun x => flat_map (act_of SC f {| g_mod := x; g_scopes := [m_body x] |} []) (m_body x)).
  assert (MP : forall l a, fold_left (merge_part SC) l a = fold_left run_act (flat_map A l) a).
  { induction l as [|x l IH]; intros a; [reflexivity|]. cbn [fold_left flat_map]. rewrite fold_left_app, <- IH. f_equal.
    change (merge_part SC a x) with (merge_pair a (own_dir SC x)). rewrite (own_dir_acts f x Ef). apply merge_pair_run. }
  rewrite !MP. rewrite (own_dir_acts f s Ef). fold (A s). rewrite <- fold_left_app.
  rewrite merge_pair_run. cbn [flat_map]. reflexivity.
Qed.

Definition BK (merged seen : list str) : Prop :=
  (forall s, In s subs -> mem (key2 (m_name s) (m_name m)) merged = mem (m_name s) seen) /\
  (forall Y s, In Y parts -> In s subs -> mem (key2 (m_name Y) (m_name s)) merged = true -> In (m_name Y) (m_includes s)) /\
  (forall s Y, In s subs -> In Y parts -> mem (key2 (m_name s) (m_name Y)) merged = true ->
               mem (key2 (m_name s) (m_name m)) merged = true).

Lemma name_colon : forall X, In X parts -> no_colon (m_name X) = true.
Proof. intros X HX. pose proof (nf_colon _ _ _ _ NF) as C. rewrite Forall_forall in C. apply C. exact HX. Qed.

Lemma sub_not_m : forall s, In s subs -> m_name s <> m_name m.
Proof.
  intros s Hs E. pose proof (nf_nodup _ _ _ _ NF) as N. cbn [map] in N. inversion N as [|? ? N1 _]; subst.
  apply N1. rewrite <- E. apply in_map. exact Hs.
Qed.

Lemma mem_cons : forall k x l, mem k (x :: l) = str_eqb k x || mem k l.
Proof. reflexivity. Qed.

Lemma BK_push : forall merged seen X s, BK merged seen -> In X parts -> In s subs ->
  In (m_name s) (m_includes X) ->
  BK (key2 (m_name s) (m_name X) :: key2 (m_name s) (m_name m) :: merged) (m_name s :: seen).
Proof.
  intros merged seen X s (B1 & B2 & B3) HX Hs Hinc. split; [|split].
  - intros t Ht. rewrite !mem_cons, (B1 t Ht).
    destruct (str_eqb (m_name t) (m_name s)) eqn:E.
    + apply str_eqb_eq in E. rewrite E, str_eqb_refl. rewrite orb_true_r. reflexivity.
    + assert (str_eqb (key2 (m_name t) (m_name m)) (key2 (m_name s) (m_name m)) = false) as ->.
      { apply str_eqb_neq. intros C. apply key2_inj_l in C. rewrite C, str_eqb_refl in E. discriminate. }
      assert (str_eqb (key2 (m_name t) (m_name m)) (key2 (m_name s) (m_name X)) = false) as ->.
      { apply str_eqb_neq. intros C. apply key2_inj in C; [|apply name_colon; right; exact Ht|apply name_colon; right; exact Hs].
        destruct C as [C _]. rewrite C, str_eqb_refl in E. discriminate. }
      reflexivity.
  - intros Y t HY Ht. rewrite !mem_cons. intros H. apply orb_true_iff in H. destruct H as [H|H].
    + apply str_eqb_eq in H. apply key2_inj in H; [|apply name_colon; exact HY|apply name_colon; right; exact Hs].
      destruct H as [H1 H2]. assert (t = X) by (apply (part_eq SC m subs nbase); auto; right; exact Ht). subst t.
      rewrite H1. exact Hinc.
    + apply orb_true_iff in H. destruct H as [H|H]; [|apply (B2 Y t HY Ht H)].
      apply str_eqb_eq in H. apply key2_inj in H; [|apply name_colon; exact HY|apply name_colon; right; exact Hs].
      destruct H as [_ H2]. exfalso. apply (sub_not_m t Ht). exact H2.
  - intros t Y Ht HY. rewrite !mem_cons. intros H. apply orb_true_iff in H. destruct H as [H|H].
    + apply str_eqb_eq in H. apply key2_inj in H; [|apply name_colon; right; exact Ht|apply name_colon; right; exact Hs].
      destruct H as [H1 _]. rewrite H1, str_eqb_refl. rewrite orb_true_r. reflexivity.
    + apply orb_true_iff in H. destruct H as [H|H].
      * apply str_eqb_eq in H. apply key2_inj in H; [|apply name_colon; right; exact Ht|apply name_colon; right; exact Hs].
        destruct H as [H1 _]. rewrite H1, str_eqb_refl. rewrite orb_true_r. reflexivity.
      * rewrite (B3 t Y Ht HY H). rewrite !orb_true_r. reflexivity.
Qed.

Lemma module_dir_nested : forall f X merged seen, In X parts -> rank X <= f -> BK merged seen ->
  exists merged',
    module_dir SC ic (S f) merged X =
      (fold_left (merge_part SC) (fst (subs_of (S f) SC seen (m_includes X))) (own_dir SC X), merged') /\
    BK merged' (snd (subs_of (S f) SC seen (m_includes X))) /\
    (forall s, In s (fst (subs_of (S f) SC seen (m_includes X))) -> In s subs).
Proof.
  induction f as [f IHf] using lt_wf_ind. intros X merged seen HX Rk B.
  rewrite module_dir_S, subs_of_S.
  assert (Inner : forall l,
            (forall sn, In sn l -> exists s, In s subs /\ m_name s = sn /\ rank s < rank X /\ In sn (m_includes X)) ->
            forall merged seen acc, BK merged seen ->
            exists merged',
              fold_left (inc_step SC ic f X) l (acc, merged) =
                (fold_left (merge_part SC) (fst (fold_left (sstep SC f) l ([], seen))) acc, merged') /\
              BK merged' (snd (fold_left (sstep SC f) l ([], seen))) /\
              (forall s, In s (fst (fold_left (sstep SC f) l ([], seen))) -> In s subs)).
  { induction l as [|sn r IHr]; intros Hinc mg sn0 acc B0.
    - exists mg. cbn. split; [reflexivity|]. split; [exact B0|tauto].
    - cbn [fold_left]. destruct (Hinc sn (or_introl eq_refl)) as (s & Hs & <- & Rs & Hsn).
      assert (Hr : forall x, In x r -> exists s0, In s0 subs /\ m_name s0 = x /\ rank s0 < rank X /\ In x (m_includes X))
        by (intros x H0; apply Hinc; right; exact H0).
      pose proof B0 as (B1 & B2 & B3).
      pose proof (nf_subs _ _ _ _ NF) as Sb. rewrite Forall_forall in Sb. destruct (Sb s Hs) as (_ & Bel & _).
      assert (NeX : str_eqb (m_name s) (m_name X) = false).
      { apply str_eqb_neq. intros E. assert (s = X) by (apply (part_eq SC m subs nbase); auto; right; exact Hs). subst s. lia. }
      assert (NoBack : mem (key2 (m_name X) (m_name s)) mg = false).
      { destruct (mem (key2 (m_name X) (m_name s)) mg) eqn:E; [|reflexivity]. exfalso.
        pose proof (B2 X s HX Hs E) as Back.
        destruct HX as [<-|HXs].
        - destruct (nf_closed _ _ _ _ NF s (m_name m) (sub_part s Hs) Back) as (t & Ht & Et). apply (sub_not_m t Ht Et).
        - pose proof (nf_rank _ _ _ _ NF s X (sub_part s Hs) HXs Back). lia. }
      unfold inc_step at 2. unfold sstep at 2 4 6. rewrite (nfound s Hs), Bel, NoBack, NeX. cbn [negb andb].
      destruct (mem (key2 (m_name s) (m_name X)) mg) eqn:K1.
      + assert (mem (m_name s) sn0 = true) as -> by (rewrite <- (B1 s Hs); apply (B3 s X Hs HX K1)).
        apply IHr; assumption.
      + rewrite (B1 s Hs). destruct (mem (m_name s) sn0) eqn:Sn; [apply IHr; assumption|].
        (* first visit of s: recurse *)
        assert (Fpos : exists f1, f = S f1) by (destruct f as [|f1]; [lia|exists f1; reflexivity]).
        destruct Fpos as [f1 ->].
        pose proof (BK_push mg sn0 X s B0 HX Hs Hsn) as Bp.
        destruct (IHf f1 (Nat.lt_succ_diag_r f1) s _ _ (sub_part s Hs) ltac:(lia) Bp) as (mg1 & E1 & Bk1 & Sub1).
        rewrite E1. destruct (subs_of (S f1) SC (m_name s :: sn0) (m_includes s)) as [below seen1] eqn:Eb.
        cbn [fst snd] in *. 
        change (let '(d, e) := merge_dir acc None (fst (fold_left (merge_part SC) below (own_dir SC s))) in
                (d, e || snd (fold_left (merge_part SC) below (own_dir SC s))))
          with (merge_pair acc (fold_left (merge_part SC) below (own_dir SC s))) || idtac.
        destruct (IHr Hr mg1 seen1 (fold_left (merge_part SC) (s :: below) acc) Bk1) as (mg2 & E2 & Bk2 & Sub2).
        exists mg2. rewrite sstep_acc. cbn [fst snd app]. split; [|split].
        * assert (St : (let '(sd, serr) := fold_left (merge_part SC) below (own_dir SC s) in
                         let '(d, e) := merge_dir acc None sd in (d, e || serr, mg1)) =
                       (fold_left (merge_part SC) (s :: below) acc, mg1)).
          { rewrite <- merge_parts_assoc. unfold merge_pair.
            destruct (fold_left (merge_part SC) below (own_dir SC s)) as [sd serr].
            destruct (merge_dir acc None sd). reflexivity. }
          rewrite St, E2. change (s :: below ++ fst (fold_left (sstep SC (S f1)) r ([], seen1)))
            with ((s :: below) ++ fst (fold_left (sstep SC (S f1)) r ([], seen1))).
          rewrite fold_left_app. reflexivity.
        * exact Bk2.
        * intros x [<-|Hx]; [exact Hs|]. apply in_app_or in Hx. destruct Hx as [Hx|Hx]; auto. }
  apply Inner; [|exact B].
  intros sn Hsn. destruct (nf_closed _ _ _ _ NF X sn HX Hsn) as (s & A & E). exists s.
  split; [exact A|]. split; [exact E|]. split; [|exact Hsn].
  pose proof (nf_rank _ _ _ _ NF X s HX A) as R. rewrite E in R. exact (R Hsn).
Qed.

Lemma BK_init : BK [] [m_name m].
Proof.
  split; [|split]; try (intros; discriminate).
  intros s Hs. cbn [mem existsb]. rewrite orb_false_r. symmetry. apply str_eqb_neq. apply sub_not_m. exact Hs.
Qed.

(* the split side: whatever the include graph looks like, every reachable submodule is merged
   exactly once, in depth-first include order *)
Lemma nested_HS :
  fst (module_dir SC ic (S (length SC)) [] m) = fold_left (merge_part SC) subs (own_dir SC m).
Proof.
  destruct (module_dir_nested (length SC) m [] [m_name m] (or_introl eq_refl)
              (nf_rank_le _ _ _ _ NF m (or_introl eq_refl)) BK_init) as (mg & E & _ & _).
  rewrite E. cbn [fst]. fold (reachable_subs SC m). rewrite (nf_reach _ _ _ _ NF). reflexivity.
Qed.

Theorem nested_module_entry :
  fst (module_entry (unsplit_schema SC m) ic (unsplit SC m)) = fst (module_entry SC ic m) /\
  snd (module_entry (unsplit_schema SC m) ic (unsplit SC m)) =
    snd (module_entry SC ic m) || existsb devs_err (reachable_subs SC m).
Proof.
  unfold unsplit_schema, unsplit. rewrite (nf_reach _ _ _ _ NF).
  exact (gen_module_entry SC ic m subs P nbase nok nested_LK nested_HS).
Qed.

Theorem nested_shape :
  find_module (unsplit_schema SC m) (m_name m) = Some (unsplit SC m) /\
  m_includes (unsplit SC m) = [] /\
  map m_name (unsplit_schema SC m) = map m_name SC.
Proof. unfold unsplit_schema, unsplit. rewrite (nf_reach _ _ _ _ NF). exact (gen_shape SC m subs nbase). Qed.

Theorem nested_uses_lookup : forall X inner u,
  In X (m :: subs) -> Forall (fun sc => okb (uses_ok_n SC m subs X) sc = true) inner ->
  uses_ok_n SC m subs X u = true ->
  match FindGrouping SC {| g_mod := X; g_scopes := inner ++ [m_body X] |} u,
        FindGrouping (unsplit_schema SC m)
                     {| g_mod := unsplit SC m; g_scopes := inner ++ [m_body (unsplit SC m)] |} u with
  | None, None => True
  | Some (gid, gb, _), Some (gid', gb', _) => gid = gid' /\ gb = gb'
  | _, _ => False
  end.
Proof. unfold unsplit_schema, unsplit. rewrite (nf_reach _ _ _ _ NF). exact (gen_uses_lookup SC m subs P nbase nested_LK). Qed.

Theorem nested_module_augs :
  map (fun a => (a_path a, a_dir a, a_err a)) (module_augs (unsplit_schema SC m) (unsplit SC m)) =
  flat_map (fun X => map (fun a => (a_path a, a_dir a, a_err a)) (module_augs SC X)) (m :: subs).
Proof. unfold unsplit_schema, unsplit. rewrite (nf_reach _ _ _ _ NF). exact (gen_module_augs SC m subs P nbase nok nested_LK). Qed.

End Nested.
