(* Round trip of the reader (Model/Reader.v): reading back the rendering of an abstract module gives the module. *)
From Coq Require Import List NArith ZArith Bool Lia DecimalN.
Import ListNotations.
From GY Require Import Model.Schema Model.Reader Proofs.SchemaLemmas.
From GY Require Model.Parse.
Local Open Scope N_scope.

(* ------------------------------------------------------------------ decimals *)
Lemma runes_uint_uint_runes : forall u, runes_uint (uint_runes u) = Some u.
Proof. induction u; simpl; try rewrite IHu; reflexivity. Qed.

Lemma parse_num_dec : forall n, n <=? MaxUint64 = true -> parse_num (dec n) = Some n.
Proof.
  intros n H. unfold parse_num, dec. rewrite runes_uint_uint_runes.
  cbv zeta. rewrite DecimalN.Unsigned.of_to. rewrite str_eqb_refl, H. reflexivity.
Qed.

Lemma dec_not_unbounded : forall n, str_eqb (dec n) s_unbounded = false.
Proof.
  intro n. destruct (str_eqb (dec n) s_unbounded) eqn:E; auto.
  apply str_eqb_eq in E. pose proof (runes_uint_uint_runes (N.to_uint n)) as H.
  unfold dec in E. rewrite E in H. discriminate H.
Qed.

Lemma parse_max_render : forall n, n <=? MaxUint64 = true ->
  parse_max (if n =? MaxUint64 then s_unbounded else dec n) = Some n.
Proof.
  intros n H. destruct (n =? MaxUint64) eqn:E.
  - apply N.eqb_eq in E. subst. reflexivity.
  - unfold parse_max. rewrite dec_not_unbounded. apply parse_num_dec, H.
Qed.

(* ------------------------------------------------------------------ fields *)
Ltac ev_str :=
  repeat match goal with
         | |- context [str_eqb ?a ?b] =>
           let v := eval vm_compute in (str_eqb a b) in
           match v with true => change (str_eqb a b) with true | false => change (str_eqb a b) with false end
         end.

Lemma is_kw_mk k k' a s : is_kw k (mk k' a s) = str_eqb k' k.
Proof. reflexivity. Qed.
Lemma is_kw_mk0 k k' s : is_kw k (mk0 k' s) = str_eqb k' k.
Proof. reflexivity. Qed.

Lemma filter_tri k k' t : filter (is_kw k) (r_tri k' t) = if str_eqb k' k then r_tri k' t else [].
Proof. destruct t; simpl; rewrite ?is_kw_mk; destruct (str_eqb k' k); reflexivity. Qed.
Lemma filter_opt k k' o : filter (is_kw k) (r_opt k' o) = if str_eqb k' k then r_opt k' o else [].
Proof. destruct o; simpl; rewrite ?is_kw_mk; destruct (str_eqb k' k); reflexivity. Qed.
Lemma filter_num k k' o : filter (is_kw k) (r_num k' o) = if str_eqb k' k then r_num k' o else [].
Proof. destruct o; simpl; rewrite ?is_kw_mk; destruct (str_eqb k' k); reflexivity. Qed.
Lemma filter_max k k' o : filter (is_kw k) (r_max k' o) = if str_eqb k' k then r_max k' o else [].
Proof. destruct o; simpl; rewrite ?is_kw_mk; destruct (str_eqb k' k); reflexivity. Qed.
Lemma filter_mks {A} k k' (f : A -> str) (g : A -> list Parse.stmt) l :
  filter (is_kw k) (map (fun x => mk k' (f x) (g x)) l)
  = if str_eqb k' k then map (fun x => mk k' (f x) (g x)) l else [].
Proof.
  induction l; simpl.
  - destruct (str_eqb k' k); reflexivity.
  - rewrite is_kw_mk, IHl. destruct (str_eqb k' k); reflexivity.
Qed.
Lemma filter_cons_mk k k' a s l :
  filter (is_kw k) (mk k' a s :: l) = if str_eqb k' k then mk k' a s :: filter (is_kw k) l else filter (is_kw k) l.
Proof. reflexivity. Qed.

Lemma opt_field_spec k subs o : filter (is_kw k) subs = r_opt k o -> opt_field k subs = Some o.
Proof. intro H. unfold opt_field. rewrite H. destruct o; reflexivity. Qed.
Lemma req_field_spec k subs a : filter (is_kw k) subs = [mk k a []] -> req_field k subs = Some a.
Proof. intro H. unfold req_field, opt_field. rewrite H. reflexivity. Qed.
Lemma tri_field_spec k subs t : filter (is_kw k) subs = r_tri k t -> tri_field k subs = Some t.
Proof. intro H. unfold tri_field, opt_field. rewrite H. destruct t; reflexivity. Qed.
Lemma num_field_spec k subs o : filter (is_kw k) subs = r_num k o -> on_ok o = true -> num_field k subs = Some o.
Proof.
  intros H W. unfold num_field, conv_field, opt_field. rewrite H. destruct o as [n|]; simpl; auto.
  rewrite parse_num_dec; auto.
Qed.
Lemma max_field_spec k subs o : filter (is_kw k) subs = r_max k o -> on_ok o = true -> max_field k subs = Some o.
Proof.
  intros H W. unfold max_field, conv_field, opt_field. rewrite H. destruct o as [n|]; simpl; auto.
  rewrite parse_max_render; auto.
Qed.
Lemma omap_simple k l : omap simple_arg (map (fun x => mk k x []) l) = Some l.
Proof. induction l; simpl; auto. rewrite IHl. reflexivity. Qed.
Lemma list_field_spec k subs l : filter (is_kw k) subs = map (fun x => mk k x []) l -> list_field k subs = Some l.
Proof. intro H. unfold list_field. rewrite H. apply omap_simple. Qed.

(* ------------------------------------------------------------------ data definitions *)
Fixpoint erase (d : dnode) : dnode :=
  match d with
  | DContainer n c b => DContainer n c (map erase b)
  | DList n k c mn mx b => DList n k c mn mx (map erase b)
  | DChoice n c m df b => DChoice n c m df (map erase b)
  | DCase n b => DCase n (map erase b)
  | DGrouping _ n b => DGrouping O n (map erase b)
  | DRpc a n i o => DRpc a n (option_map (map erase) i) (option_map (map erase) o)
  | DNotification n b => DNotification n (map erase b)
  | _ => d
  end.

Section Ind.
  Variable P : dnode -> Prop.
  Hypothesis HLeaf : forall n ty c m d u, P (DLeaf n ty c m d u).
  Hypothesis HLeafList : forall n ty c ds mn mx, P (DLeafList n ty c ds mn mx).
  Hypothesis HContainer : forall n c b, Forall P b -> P (DContainer n c b).
  Hypothesis HList : forall n k c mn mx b, Forall P b -> P (DList n k c mn mx b).
  Hypothesis HChoice : forall n c m d b, Forall P b -> P (DChoice n c m d b).
  Hypothesis HCase : forall n b, Forall P b -> P (DCase n b).
  Hypothesis HAny : forall x n c m, P (DAny x n c m).
  Hypothesis HUses : forall g, P (DUses g).
  Hypothesis HGrouping : forall g n b, Forall P b -> P (DGrouping g n b).
  Definition OptAll (o : option (list dnode)) : Prop := match o with Some b => Forall P b | None => True end.
  Hypothesis HRpc : forall a n i o, OptAll i -> OptAll o -> P (DRpc a n i o).
  Hypothesis HNotification : forall n b, Forall P b -> P (DNotification n b).
  Fixpoint dnode_ind2 (d : dnode) : P d :=
    let all := (fix all (l : list dnode) : Forall P l :=
                  match l with [] => Forall_nil P | x :: r => Forall_cons x (dnode_ind2 x) (all r) end) in
    match d with
    | DLeaf n ty c m df u => HLeaf n ty c m df u
    | DLeafList n ty c ds mn mx => HLeafList n ty c ds mn mx
    | DContainer n c b => HContainer n c b (all b)
    | DList n k c mn mx b => HList n k c mn mx b (all b)
    | DChoice n c m df b => HChoice n c m df b (all b)
    | DCase n b => HCase n b (all b)
    | DAny x n c m => HAny x n c m
    | DUses g => HUses g
    | DGrouping g n b => HGrouping g n b (all b)
    | DRpc a n i o =>
      HRpc a n i o (match i return OptAll i with Some b => all b | None => I end)
           (match o return OptAll o with Some b => all b | None => I end)
    | DNotification n b => HNotification n b (all b)
    end.
End Ind.

Lemma render_is_node d : is_node (render_dnode d) = true.
Proof. destruct d; try reflexivity. - destruct xml; reflexivity. - destruct action; reflexivity. Qed.
Lemma render_is_item d : is_item (render_dnode d) = true.
Proof. destruct d; try reflexivity. - destruct xml; reflexivity. - destruct action; reflexivity. Qed.

Definition hdr_kws : list str :=
  [k_type; k_config; k_mandatory; k_default; k_units; k_key; k_min; k_max; k_namespace; k_prefix; k_import; k_include;
   k_augment; k_deviation; k_belongs; k_input; k_output].
Lemma render_not_hdr k d : In k hdr_kws -> is_kw k (render_dnode d) = false.
Proof.
  intro H. simpl in H.
  repeat (destruct H as [<-|H]; [destruct d; try reflexivity; [destruct xml|destruct action]; reflexivity|]).
  contradiction.
Qed.
Lemma filter_body k b : In k hdr_kws -> filter (is_kw k) (map render_dnode b) = [].
Proof. intro H. induction b; simpl; auto. rewrite render_not_hdr; auto. Qed.
Lemma filter_defaults k k' l :
  filter (is_kw k) (map (fun x => mk k' x []) l) = if str_eqb k' k then map (fun x => mk k' x []) l else [].
Proof.
  induction l; simpl.
  - destruct (str_eqb k' k); reflexivity.
  - rewrite is_kw_mk, IHl. destruct (str_eqb k' k); reflexivity.
Qed.

Ltac fsolve :=
  repeat (rewrite ?filter_app, ?filter_cons_mk, ?filter_tri, ?filter_opt, ?filter_num, ?filter_max, ?filter_defaults);
  rewrite ?filter_body by (simpl; tauto);
  ev_str; cbv iota; cbn [app filter]; rewrite ?app_nil_r; reflexivity.

Lemma read_items_skip f a b :
  forallb (fun s => negb (is_item s)) a = true -> read_items f (a ++ b) = read_items f b.
Proof.
  induction a; simpl; auto. intro H. apply andb_true_iff in H. destruct H as [H1 H2].
  destruct (is_item a); try discriminate. auto.
Qed.
Lemma read_items_map f b :
  Forall (fun d => f (render_dnode d) = Some (INode (erase d))) b ->
  read_items f (map render_dnode b) = Some (map INode (map erase b)).
Proof.
  induction 1; simpl; auto. rewrite render_is_item, H. fold (read_items f). rewrite IHForall. reflexivity.
Qed.
Lemma nodes_of_map l : nodes_of (map INode l) = Some l.
Proof. unfold nodes_of. induction l; simpl; auto. rewrite IHl. reflexivity. Qed.

Lemma kw_in_app_r pre l s : kw_in l s = true -> kw_in (pre ++ l) s = true.
Proof. unfold kw_in. intro H. rewrite existsb_app, H. apply orb_true_r. Qed.
Lemma only_body pre b : only (pre ++ node_kws) (map render_dnode b) = true.
Proof.
  unfold only. induction b; simpl; auto. rewrite IHb, andb_true_r. apply kw_in_app_r. apply render_is_node.
Qed.
Lemma only_app l a b : only l (a ++ b) = only l a && only l b.
Proof. apply forallb_app. Qed.

Lemma read_item_mk k n subs : read_item (mk k n subs) = read_stmt k true n subs (read_items read_item subs).
Proof. reflexivity. Qed.
Lemma read_item_mk0 k subs : read_item (mk0 k subs) = read_stmt k false [] subs (read_items read_item subs).
Proof. reflexivity. Qed.

Lemma Forall_imp_ok (P : dnode -> Prop) b :
  Forall (fun d => nums_ok d = true -> P d) b -> forallb nums_ok b = true -> Forall P b.
Proof.
  induction 1; simpl; intro W; constructor; apply andb_true_iff in W; destruct W; auto.
Qed.

Ltac body_items IH W :=
  rewrite read_items_skip;
  [ rewrite (read_items_map read_item _ (Forall_imp_ok _ _ IH W)) | ].

Lemma read_items_cons f x r :
  read_items f (x :: r) = if is_item x then match f x, read_items f r with Some y, Some ys => Some (y :: ys) | _, _ => None end
                          else read_items f r.
Proof. reflexivity. Qed.
Lemma only_nodes b : only node_kws (map render_dnode b) = true.
Proof. change node_kws with ([] ++ node_kws). apply only_body. Qed.

Lemma read_io_in b : Forall (fun d => read_item (render_dnode d) = Some (INode (erase d))) b ->
  read_item (mk0 k_input (map render_dnode b)) = Some (IIn (map erase b)).
Proof.
  intro H. rewrite read_item_mk0, (read_items_map _ _ H). unfold read_stmt. ev_str. cbv iota. cbn [negb andb].
  rewrite only_nodes. cbn [obind]. rewrite nodes_of_map. reflexivity.
Qed.
Lemma read_io_out b : Forall (fun d => read_item (render_dnode d) = Some (INode (erase d))) b ->
  read_item (mk0 k_output (map render_dnode b)) = Some (IOut (map erase b)).
Proof.
  intro H. rewrite read_item_mk0, (read_items_map _ _ H). unfold read_stmt. ev_str. cbv iota. cbn [negb andb].
  rewrite only_nodes. cbn [obind]. rewrite nodes_of_map. reflexivity.
Qed.

Theorem read_item_render : forall d, nums_ok d = true -> read_item (render_dnode d) = Some (INode (erase d)).
Proof.
  induction d using dnode_ind2; intro W; simpl in W.
  - (* leaf *) destruct c, m, d, u; reflexivity.
  - (* leaf-list *)
    apply andb_true_iff in W. destruct W as [W _]. apply andb_true_iff in W. destruct W as [W1 W2].
    simpl render_dnode. rewrite read_item_mk. unfold read_stmt. ev_str. cbv iota. cbn [negb].
    replace (only _ _) with true by (destruct c, mn, mx; simpl r_tri; simpl r_num; simpl r_max;
      unfold only; cbn [forallb app]; rewrite ?forallb_app; simpl;
      rewrite ?andb_true_r; induction ds; simpl; auto).
    rewrite (req_field_spec _ _ ty) by fsolve.
    rewrite (tri_field_spec _ _ c) by fsolve.
    rewrite (list_field_spec _ _ ds) by fsolve.
    rewrite (num_field_spec _ _ mn) by (try fsolve; auto).
    rewrite (max_field_spec _ _ mx) by (try fsolve; auto).
    reflexivity.
  - (* container *)
    simpl render_dnode. rewrite read_item_mk.
    body_items H W. 2: destruct c; reflexivity.
    unfold read_stmt. ev_str. cbv iota. cbn [negb].
    rewrite only_app. change (k_config :: node_kws) with ([k_config] ++ node_kws). rewrite only_body, andb_true_r.
    replace (only _ _) with true by (destruct c; reflexivity).
    rewrite (tri_field_spec _ _ c) by fsolve.
    cbn [obind]. rewrite nodes_of_map. reflexivity.
  - (* list *)
    apply andb_true_iff in W; destruct W as [W0 W]. apply andb_true_iff in W0. destruct W0 as [W1 W2].
    simpl render_dnode. rewrite read_item_mk.
    body_items H W. 2: destruct k, c, mn, mx; reflexivity.
    unfold read_stmt. ev_str. cbv iota. cbn [negb].
    rewrite only_app. change (k_key :: k_config :: k_min :: k_max :: node_kws) with ([k_key; k_config; k_min; k_max] ++ node_kws).
    rewrite only_body, andb_true_r.
    replace (only _ _) with true by (destruct k, c, mn, mx; reflexivity).
    rewrite (opt_field_spec _ _ k) by fsolve.
    rewrite (tri_field_spec _ _ c) by fsolve.
    rewrite (num_field_spec _ _ mn) by (try fsolve; auto).
    rewrite (max_field_spec _ _ mx) by (try fsolve; auto).
    cbn [obind]. rewrite nodes_of_map. reflexivity.
  - (* choice *)
    simpl render_dnode. rewrite read_item_mk.
    body_items H W. 2: destruct c, m, d; reflexivity.
    unfold read_stmt. ev_str. cbv iota. cbn [negb].
    rewrite only_app. change (k_config :: k_mandatory :: k_default :: node_kws) with ([k_config; k_mandatory; k_default] ++ node_kws).
    rewrite only_body, andb_true_r.
    replace (only _ _) with true by (destruct c, m, d; reflexivity).
    rewrite (tri_field_spec _ _ c) by fsolve.
    rewrite (tri_field_spec _ _ m) by fsolve.
    rewrite (opt_field_spec _ _ d) by fsolve.
    cbn [obind]. rewrite nodes_of_map. reflexivity.
  - (* case *)
    simpl render_dnode. rewrite read_item_mk. rewrite (read_items_map read_item _ (Forall_imp_ok _ _ H W)).
    unfold read_stmt. ev_str. cbv iota. cbn [negb]. rewrite only_nodes. cbn [obind]. rewrite nodes_of_map. reflexivity.
  - (* any *) destruct x, c, m; reflexivity.
  - (* uses *) reflexivity.
  - (* grouping *)
    simpl render_dnode. rewrite read_item_mk. rewrite (read_items_map read_item _ (Forall_imp_ok _ _ H W)).
    unfold read_stmt. ev_str. cbv iota. cbn [negb]. rewrite only_nodes. cbn [obind]. rewrite nodes_of_map. reflexivity.
  - (* rpc / action *)
    apply andb_true_iff in W; destruct W as [Wi Wo].
    simpl render_dnode. rewrite read_item_mk.
    destruct i as [bi|], o as [bo|]; cbn [app]; rewrite ?read_items_cons;
      change (is_item (mk0 k_input _)) with true; change (is_item (mk0 k_output _)) with true; cbv iota;
      try rewrite (read_io_in bi) by (apply (Forall_imp_ok _ _ H Wi));
      try rewrite (read_io_out bo) by (apply (Forall_imp_ok _ _ H0 Wo));
      destruct a; reflexivity.
  - (* notification *)
    simpl render_dnode. rewrite read_item_mk. rewrite (read_items_map read_item _ (Forall_imp_ok _ _ H W)).
    unfold read_stmt. ev_str. cbv iota. cbn [negb]. rewrite only_nodes. cbn [obind]. rewrite nodes_of_map. reflexivity.
Qed.

Theorem read_dnode_render : forall d, nums_ok d = true -> read_dnode (render_dnode d) = Some (erase d).
Proof. intros d W. unfold read_dnode. rewrite read_item_render; auto. Qed.

(* ------------------------------------------------------------------ ghost ids *)
Definition num_ok (d : dnode) : Prop := forall g g', check_node d g = Some g' -> number_node (erase d) g = (d, g').

Lemma thread_check l : Forall num_ok l ->
  forall g g', cthread check_node l g = Some g' -> thread number_node (map erase l) g = (l, g').
Proof.
  induction 1 as [|x r Hx Hr IH]; simpl; intros g g' E.
  - inversion E. reflexivity.
  - destruct (check_node x g) as [g1|] eqn:E1; try discriminate.
    rewrite (Hx _ _ E1). fold (thread number_node). rewrite (IH _ _ E). reflexivity.
Qed.

Theorem number_check : forall d, num_ok d.
Proof.
  induction d using dnode_ind2; unfold num_ok; simpl; intros g0 g' E;
    try (inversion E; reflexivity);
    try (rewrite (thread_check _ H _ _ E); reflexivity).
  - (* grouping *)
    destruct (Nat.eqb g g0) eqn:Eg; try discriminate. apply Nat.eqb_eq in Eg. subst.
    rewrite (thread_check _ H _ _ E). reflexivity.
  - (* rpc *)
    destruct i as [bi|], o as [bo|]; simpl in *.
    + destruct (cthread check_node bi g0) as [g1|] eqn:E1; try discriminate.
      rewrite (thread_check _ H _ _ E1), (thread_check _ H0 _ _ E). reflexivity.
    + destruct (cthread check_node bi g0) as [g1|] eqn:E1; try discriminate.
      rewrite (thread_check _ H _ _ E1). inversion E. reflexivity.
    + rewrite (thread_check _ H0 _ _ E). reflexivity.
    + inversion E. reflexivity.
Qed.

Theorem number_nodes_check : forall l g g',
  check_nodes l g = Some g' -> number_nodes (map erase l) g = (l, g').
Proof. intros l g g' E. apply thread_check; auto. apply Forall_forall. intros. apply number_check. Qed.

(* ------------------------------------------------------------------ modules *)
Definition erase_aug (a : str * list dnode) : str * list dnode := (fst a, map erase (snd a)).
Definition erase_module (m : module) : module :=
  {| m_name := m_name m; m_prefix := m_prefix m; m_ns := m_ns m; m_belongs := m_belongs m; m_imports := m_imports m;
     m_includes := m_includes m; m_body := map erase (m_body m); m_augments := map erase_aug (m_augments m);
     m_deviations := m_deviations m |}.

Lemma filter_map_kw {A} k k' (F : A -> Parse.stmt) l :
  (forall x, skw (F x) = k') -> filter (is_kw k) (map F l) = if str_eqb k' k then map F l else [].
Proof.
  intro H. induction l; simpl.
  - destruct (str_eqb k' k); reflexivity.
  - unfold is_kw at 1. rewrite H, IHl. destruct (str_eqb k' k); reflexivity.
Qed.
Lemma forallb_map_const {A} (p : Parse.stmt -> bool) (F : A -> Parse.stmt) l :
  (forall x, p (F x) = true) -> forallb p (map F l) = true.
Proof. intro H. induction l; simpl; auto. rewrite H, IHl. reflexivity. Qed.
Lemma read_items_none f a : forallb (fun s => negb (is_item s)) a = true -> read_items f a = Some [].
Proof. intro H. rewrite <- (app_nil_r a). rewrite read_items_skip; auto. Qed.
Lemma read_items_map_app f b rest :
  Forall (fun d => f (render_dnode d) = Some (INode (erase d))) b -> read_items f rest = Some [] ->
  read_items f (map render_dnode b ++ rest) = Some (map INode (map erase b)).
Proof.
  intros H R. induction H; simpl; auto. rewrite render_is_item, H. fold (read_items f). rewrite IHForall. reflexivity.
Qed.
Lemma all_render b : forallb nums_ok b = true ->
  Forall (fun d => read_item (render_dnode d) = Some (INode (erase d))) b.
Proof.
  intro W. apply Forall_forall. intros d I. apply read_item_render.
  rewrite forallb_forall in W. auto.
Qed.
Lemma read_body_render b : forallb nums_ok b = true -> read_body (map render_dnode b) = Some (map erase b).
Proof.
  intro W. unfold read_body. rewrite (read_items_map _ _ (all_render _ W)). cbn [obind]. apply nodes_of_map.
Qed.

Lemma omap_imports l :
  omap read_import (map (fun i : str * str => mk k_import (snd i) [mk k_prefix (fst i) []]) l) = Some l.
Proof. induction l as [|[p n] l IH]; simpl; auto. fold (omap read_import). rewrite IH. reflexivity. Qed.
Lemma omap_augs l : forallb (fun a => forallb nums_ok (snd a)) l = true ->
  omap read_augment (map (fun a : str * list dnode => mk k_augment (fst a) (map render_dnode (snd a))) l)
  = Some (map erase_aug l).
Proof.
  induction l as [|[p b] l IH]; simpl; auto. intro W. apply andb_true_iff in W. destruct W as [W1 W2].
  rewrite only_nodes, read_body_render by auto. cbn [obind]. rewrite IH by auto. reflexivity.
Qed.

Lemma read_deviate_render d : deviate_ok d = true -> read_deviate (render_deviate d) = Some d.
Proof.
  destruct d as [k c m df mn mx u t]. unfold deviate_ok; simpl. intro W. apply andb_true_iff in W. destruct W as [W1 W2].
  unfold render_deviate; simpl. unfold read_deviate, mk. ev_str. cbn [andb].
  replace (only _ _) with true by (destruct c, m, df, mn, mx, u, t; reflexivity).
  rewrite (tri_field_spec _ _ c) by fsolve.
  rewrite (tri_field_spec _ _ m) by fsolve.
  rewrite (opt_field_spec _ _ df) by fsolve.
  rewrite (num_field_spec _ _ mn) by (try fsolve; auto).
  rewrite (max_field_spec _ _ mx) by (try fsolve; auto).
  rewrite (opt_field_spec _ _ u) by fsolve.
  rewrite (opt_field_spec _ _ t) by fsolve.
  reflexivity.
Qed.
Lemma omap_deviates l : forallb deviate_ok l = true -> omap read_deviate (map render_deviate l) = Some l.
Proof.
  induction l; [reflexivity|]. cbn [map omap forallb]. intro W. apply andb_true_iff in W. destruct W as [W1 W2].
  rewrite read_deviate_render, IHl by auto. reflexivity.
Qed.
Lemma only_deviates l : only [k_deviate] (map render_deviate l) = true.
Proof. apply forallb_map_const. reflexivity. Qed.
Lemma omap_devs l : forallb (fun d => forallb deviate_ok (snd d)) l = true ->
  omap read_deviation (map (fun d : str * list deviate => mk k_deviation (fst d) (map render_deviate (snd d))) l)
  = Some l.
Proof.
  induction l as [|[p ds] l IH]; simpl; auto. intro W. apply andb_true_iff in W. destruct W as [W1 W2].
  rewrite only_deviates, omap_deviates by auto. cbn [obind]. rewrite IH by auto. reflexivity.
Qed.

Ltac fsolve2 :=
  repeat rewrite filter_app; cbn [filter];
  repeat match goal with
         | |- context [is_kw ?k (Parse.Stmt ?k' ?h ?a ?l ?c ?o ?s)] =>
           change (is_kw k (Parse.Stmt k' h a l c o s)) with (str_eqb k' k)
         end;
  rewrite ?filter_body by (simpl; tauto);
  repeat (erewrite filter_map_kw; [| intro; cbv beta iota delta [skw mk]; reflexivity]);
  ev_str; cbv iota; cbn [app filter]; rewrite ?app_nil_r; reflexivity.

Ltac only_solve :=
  unfold only; rewrite !forallb_app;
  repeat (rewrite forallb_map_const by (intro; first [reflexivity | apply kw_in_app_r, render_is_node]));
  reflexivity.

Theorem read_module0_render : forall m, text_ok m = true -> read_module0 (render_module m) = Some (erase_module m).
Proof.
  intros [name pfx ns bel imps incs body augs devs] W. unfold text_ok in W; simpl in W.
  unfold erase_module; cbn [m_name m_prefix m_ns m_belongs m_imports m_includes m_body m_augments m_deviations].
  apply andb_true_iff in W. destruct W as [W Wdev]. apply andb_true_iff in W. destruct W as [W Waug].
  apply andb_true_iff in W. destruct W as [Wb Wbody].
  unfold render_module; cbn [m_name m_prefix m_ns m_belongs m_imports m_includes m_body m_augments m_deviations].
  match goal with |- read_module0 (mk _ _ ?s) = _ => set (subs := s) end.
  unfold read_module0, mk. cbn [negb].
  assert (Fi : filter (is_kw k_import) subs = map (fun i : str * str => mk k_import (snd i) [mk k_prefix (fst i) []]) imps)
    by (subst subs; destruct bel; fsolve2).
  assert (Fa : filter (is_kw k_augment) subs
               = map (fun a : str * list dnode => mk k_augment (fst a) (map render_dnode (snd a))) augs)
    by (subst subs; destruct bel; fsolve2).
  assert (Fd : filter (is_kw k_deviation) subs
               = map (fun d : str * list deviate => mk k_deviation (fst d) (map render_deviate (snd d))) devs)
    by (subst subs; destruct bel; fsolve2).
  assert (Fn : filter (is_kw k_include) subs = map (fun s => mk k_include s []) incs)
    by (subst subs; destruct bel; fsolve2).
  assert (Fb : read_body subs = Some (map erase body)).
  { subst subs. unfold read_body. rewrite read_items_skip.
    - rewrite read_items_map_app.
      + cbn [obind]. apply nodes_of_map.
      + apply all_render, Wbody.
      + apply read_items_none. rewrite forallb_app. rewrite !forallb_map_const by (intro; reflexivity). reflexivity.
    - rewrite !forallb_app. rewrite !forallb_map_const by (intro; reflexivity). destruct bel; reflexivity. }
  rewrite Fi, omap_imports. cbn [obind]. unfold list_field. rewrite Fn, omap_simple. cbn [obind].
  rewrite Fb. cbn [obind]. rewrite Fa, (omap_augs _ Waug). cbn [obind]. rewrite Fd, (omap_devs _ Wdev). cbn [obind].
  destruct bel as [o|].
  - (* submodule *)
    destruct ns; try discriminate. ev_str. cbv iota.
    replace (only _ subs) with true
      by (subst subs; symmetry;
          change (k_belongs :: k_import :: k_include :: k_augment :: k_deviation :: node_kws)
            with ([k_belongs; k_import; k_include; k_augment; k_deviation] ++ node_kws); only_solve).
    replace (filter (is_kw k_belongs) subs) with [mk k_belongs o [mk k_prefix pfx []]]
      by (subst subs; symmetry; fsolve2).
    reflexivity.
  - ev_str. cbv iota.
    replace (only _ subs) with true
      by (subst subs; symmetry;
          change (k_namespace :: k_prefix :: k_import :: k_include :: k_augment :: k_deviation :: node_kws)
            with ([k_namespace; k_prefix; k_import; k_include; k_augment; k_deviation] ++ node_kws); only_solve).
    rewrite (req_field_spec _ _ ns) by (subst subs; fsolve2).
    rewrite (req_field_spec _ _ pfx) by (subst subs; fsolve2).
    reflexivity.
Qed.

Lemma thread_aug_check l : forall g g',
  cthread (fun a : str * list dnode => check_nodes (snd a)) l g = Some g' ->
  thread number_aug (map erase_aug l) g = (l, g').
Proof.
  induction l as [|[p b] l IH]; cbn [cthread map thread]; intros g g' E.
  - inversion E. reflexivity.
  - cbn [snd] in E. destruct (check_nodes b g) as [g1|] eqn:E1; try discriminate.
    unfold number_aug at 1, erase_aug at 1. cbn [fst snd]. rewrite (number_nodes_check _ _ _ E1).
    fold (thread number_aug). rewrite (IH _ _ E). reflexivity.
Qed.

Theorem number_module_check : forall m g g',
  gids_from m g = Some g' -> number_module (erase_module m) g = (m, g').
Proof.
  intros [name pfx ns bel imps incs body augs devs] g g'. unfold gids_from, number_module, erase_module.
  cbn [m_name m_prefix m_ns m_belongs m_imports m_includes m_body m_augments m_deviations]. intro E.
  destruct (check_nodes body g) as [g1|] eqn:E1; try discriminate.
  rewrite (number_nodes_check _ _ _ E1), (thread_aug_check _ _ _ E). reflexivity.
Qed.

(* THE ROUND TRIP: reading the rendering of a well-formed module gives back the module, ghost ids included *)
Theorem reader_roundtrip : forall m, reader_wf m = true -> read_module (render_module m) = Some m.
Proof.
  intros m W. unfold reader_wf, reader_wf_from in W.
  destruct (text_ok m) eqn:T; try discriminate. destruct (gids_from m 1) as [g'|] eqn:G; try discriminate.
  unfold read_module. rewrite (read_module0_render _ T). cbn [obind]. rewrite (number_module_check _ _ _ G). reflexivity.
Qed.

(* the same with the ids counted from any g (how read_schema numbers a whole module set) *)
Theorem reader_roundtrip_from : forall m g g', reader_wf_from m g = Some g' ->
  obind (read_module0 (render_module m)) (fun m0 => Some (number_module m0 g)) = Some (m, g').
Proof.
  intros m g g' W. unfold reader_wf_from in W. destruct (text_ok m) eqn:T; try discriminate.
  rewrite (read_module0_render _ T). cbn [obind]. rewrite (number_module_check _ _ _ W). reflexivity.
Qed.

(* ------------------------------------------------------------------ the hypothesis is satisfiable *)
Definition ex_s (l : list N) : str := l.
Definition ex_module : module :=
  let g := [103] in let a := [97] in let c := [99] in let l := [108] in let r := [114] in
  {| m_name := [109]; m_prefix := [112]; m_ns := [117;114;110;58;109]; m_belongs := None;
     m_imports := [([113], [110])]; m_includes := [[109;115]];
     m_body := [ DGrouping 1 g [DLeaf l [115;116;114;105;110;103] TSTrue TSUnset (Some [100]) None;
                                DGrouping 2 a [DLeafList a [105;110;116;56] TSUnset [[49];[50]] (Some 0) (Some MaxUint64)]];
                 DContainer c TSFalse [DUses g; DList l (Some l) TSUnset None (Some 4) [DLeaf l [105;110;116;56] TSUnset TSUnset None None]];
                 DRpc false r (Some [DUses g]) None;
                 DChoice [120] TSUnset TSTrue None [DCase [121] [DAny true [122] TSUnset TSUnset]] ];
     m_augments := [([47;112;58;99], [DGrouping 3 [104] []; DLeaf a [105;110;116;56] TSUnset TSUnset None None])];
     m_deviations := [([47;112;58;99;47;112;58;108],
                       [{| dv_kind := s_replace; dv_cfg := TSFalse; dv_mand := TSUnset; dv_default := None;
                           dv_min := Some 1; dv_max := Some MaxUint64; dv_units := Some [117]; dv_type := None |}])] |}.
Example ex_module_wf : reader_wf ex_module = true.
Proof. vm_compute. reflexivity. Qed.
Example ex_module_roundtrip : read_module (render_module ex_module) = Some ex_module.
Proof. vm_compute. reflexivity. Qed.
(* from the TEXT:  module m { namespace "u"; prefix p; grouping g { leaf l { type t; config true; } } container c { uses g; } } *)
Definition ex_text : list N :=
  [109;111;100;117;108;101;32;109;32;123;32;110;97;109;101;115;112;97;99;101;32;34;117;34;59;32;112;114;101;102;105;120;
   32;112;59;32;103;114;111;117;112;105;110;103;32;103;32;123;32;108;101;97;102;32;108;32;123;32;116;121;112;101;32;116;
   59;32;99;111;110;102;105;103;32;116;114;117;101;59;32;125;32;125;32;99;111;110;116;97;105;110;101;114;32;99;32;123;32;
   117;115;101;115;32;103;59;32;125;32;125].
Example ex_text_read :
  read_text ex_text
  = Some {| m_name := [109]; m_prefix := [112]; m_ns := [117]; m_belongs := None; m_imports := []; m_includes := [];
            m_body := [DGrouping 1 [103] [DLeaf [108] [116] TSTrue TSUnset None None]; DContainer [99] TSUnset [DUses [103]]];
            m_augments := []; m_deviations := [] |}.
Proof. vm_compute. reflexivity. Qed.
(* anything outside the subset is rejected, not dropped:  module m { namespace "u"; prefix p; description "d"; } *)
Example ex_text_rejected :
  read_text [109;111;100;117;108;101;32;109;32;123;32;110;97;109;101;115;112;97;99;101;32;34;117;34;59;32;112;114;101;
             102;105;120;32;112;59;32;100;101;115;99;114;105;112;116;105;111;110;32;34;100;34;59;32;125] = None.
Proof. vm_compute. reflexivity. Qed.
