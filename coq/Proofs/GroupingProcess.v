(* C06: T1 lifted to whole module sets: Process of the inlined module set = Process of the original one.
   Parts: statements without uses are built independently of module set, context and fuel ([to_entry_plain]); the
   inlined form is such a statement ([inline_plain]) and fits the fuel of any module set that contains it; Process
   reads a module set only through header fields and built entries ([Process_congruence], after the pattern of
   DeviationStripProofs.v). *)
From Coq Require Import List NArith Bool Lia Arith.
From GY Require Import Model.Schema Spec.C06 Proofs.SchemaLemmas Proofs.GroupingProofs.
From GY Require Spec.C04.
From GY Require Import Proofs.TreeInvProofs.
Import ListNotations.

(* [plain f n]: n contains no uses statement and nests less than f levels deep *)
Fixpoint plain (f : nat) (n : dnode) {struct f} : Prop :=
  match f with
  | O => False
  | S f' =>
    match n with
    | DUses _ => False
    | DLeaf _ _ _ _ _ _ | DLeafList _ _ _ _ _ _ | DAny _ _ _ _ => True
    | DContainer _ _ b | DList _ _ _ _ _ b | DChoice _ _ _ _ b | DCase _ b | DGrouping _ _ b | DNotification _ b =>
        Forall (plain f') b
    | DRpc _ _ i o =>
        (match i with Some b => Forall (plain f') b | None => True end) /\
        (match o with Some b => Forall (plain f') b | None => True end)
    end
  end.

Lemma plain_mono : forall f n, plain f n -> plain (S f) n.
Proof.
  induction f as [|f IH]; intros n H; [destruct H|].
  assert (L : forall b, Forall (plain f) b -> Forall (plain (S f)) b).
  { intros b Hb. rewrite Forall_forall in *. intros x Hx. apply IH. apply Hb. assumption. }
  destruct n; cbn [plain] in *; auto.
  destruct H as [A B]. split; [destruct input | destruct output]; auto.
Qed.

Lemma plain_le : forall f f' n, f <= f' -> plain f n -> plain f' n.
Proof. intros f f' n L H. induction L; [assumption | apply plain_mono; assumption]. Qed.

Lemma plain_not_uses : forall f n, plain f n -> is_uses n = false.
Proof. intros f n H. destruct f; [destruct H|]. destruct n; try reflexivity. destruct H. Qed.

Lemma fold_left_ext_in : forall {A B} (f g : A -> B -> A) l a,
  (forall a b, In b l -> f a b = g a b) -> fold_left f l a = fold_left g l a.
Proof.
  induction l as [|x r IH]; intros a H; [reflexivity|]. cbn [fold_left].
  rewrite (H a x (or_introl eq_refl)). apply IH. intros. apply H. right. assumption.
Qed.

(* a statement without uses is built the same way whatever the module set, the context, the busy set and the fuel *)
Lemma to_entry_plain : forall f f' n, plain f n -> plain f' n ->
  forall SC SC' c c' busy busy', to_entry SC f c busy n = to_entry SC' f' c' busy' n.
Proof.
  induction f as [|f IH]; intros f' n H H'; [destruct H|]. destruct f' as [|f']; [destruct H'|].
  intros SC SC' c c' busy busy'.
  assert (BD : forall b, Forall (plain f) b -> Forall (plain f') b ->
               body_dir SC f c busy b = body_dir SC' f' c' busy' b).
  { intros b Hb Hb'. unfold body_dir. apply fold_left_ext_in. intros acc ch Hin.
    rewrite Forall_forall in Hb, Hb'. specialize (Hb ch Hin). specialize (Hb' ch Hin).
    pose proof (plain_not_uses _ _ Hb) as U.
    pose proof (IH f' ch Hb Hb' SC SC' (inner_ctx c b) (inner_ctx c' b) busy busy') as E.
    destruct (is_grouping ch) eqn:G.
    - rewrite (body_step_grouping SC f _ busy acc ch G), (body_step_grouping SC' f' _ busy' acc ch G). rewrite E. reflexivity.
    - rewrite (body_step_plain SC f _ busy acc ch U G), (body_step_plain SC' f' _ busy' acc ch U G). rewrite E. reflexivity. }
  rewrite !to_entry_S.
  destruct n; cbn [plain] in H, H'; try reflexivity; try (rewrite (BD body H H'); reflexivity).
  destruct H as [HI HO], H' as [HI' HO'].
  assert (IO : forall k nm b, (match b with Some x => Forall (plain f) x | None => True end) ->
                 (match b with Some x => Forall (plain f') x | None => True end) ->
                 rpc_io SC f c busy k nm b = rpc_io SC' f' c' busy' k nm b).
  { intros k nm b A B. unfold rpc_io. destruct b as [x|]; [|reflexivity]. rewrite (BD x A B). reflexivity. }
  rewrite (IO KInput s_input input HI HI'), (IO KOutput s_output output HO HO'). reflexivity.
Qed.

Section InlinePlain.
Variable SC : schema.

Definition PP (f : nat) : Prop := forall c busy n n', inline_node SC f c busy n = Some n' -> plain f n'.
Definition QP (f : nat) : Prop := forall c' busy body out0 body',
  fold_left (inline_step SC (inline_node SC f) c' busy) body (Some out0) = Some body' ->
  Forall (plain f) out0 -> Forall (plain f) body'.

Lemma QP_body : forall f, QP f -> forall c busy body body', inline_body SC f c busy body = Some body' -> Forall (plain f) body'.
Proof. intros f HQ c busy body body' H. eapply HQ; [exact H | constructor]. Qed.

Lemma PP_step : forall f, QP f -> PP (S f).
Proof.
  intros f HQ c busy n n' H. rewrite inline_node_S in H. pose proof (QP_body f HQ c busy) as BD.
  destruct n; try (inversion H; subst; exact I);
  try (destruct (inline_body SC f c busy body) as [body'|] eqn:IB; [|discriminate]; inversion H; subst;
       cbn [plain]; apply (BD _ _ IB)).
  destruct input as [bi|].
  - destruct (inline_body SC f c busy bi) as [bi'|] eqn:EI; [|discriminate]. cbn [option_map] in H.
    destruct output as [bo|].
    + destruct (inline_body SC f c busy bo) as [bo'|] eqn:EO; [|discriminate]. cbn [option_map] in H.
      inversion H; subst. cbn [plain]. split; [apply (BD _ _ EI) | apply (BD _ _ EO)].
    + inversion H; subst. cbn [plain]. split; [apply (BD _ _ EI) | exact I].
  - destruct output as [bo|].
    + destruct (inline_body SC f c busy bo) as [bo'|] eqn:EO; [|discriminate]. cbn [option_map] in H.
      inversion H; subst. cbn [plain]. split; [exact I | apply (BD _ _ EO)].
    + inversion H; subst. cbn [plain]. split; exact I.
Qed.

Lemma QP_step : forall f, PP f -> (forall f0, f = S f0 -> QP f0) -> QP f.
Proof.
  intros f HP HQ c' busy. induction body as [|ch r IH]; intros out0 body' H HO.
  - cbn [fold_left] in H. inversion H; subst. assumption.
  - cbn [fold_left] in H.
    destruct (inline_step SC (inline_node SC f) c' busy (Some out0) ch) as [out1|] eqn:ST;
      [|rewrite inline_fold_none in H; discriminate].
    apply (IH _ _ H). unfold inline_step in ST.
    destruct (is_uses ch) eqn:U.
    + destruct ch; try discriminate U.
      destruct (FindGrouping SC c' gname) as [[[gid gb] gc]|]; [|discriminate].
      destruct (existsb (Nat.eqb gid) busy); [discriminate|].
      destruct f as [|f0]; [cbn [inline_node] in ST; discriminate ST|].
      rewrite inline_node_S in ST.
      destruct (inline_body SC f0 gc (gid :: busy) gb) as [gb'|] eqn:IB; cbn [option_map] in ST; [|discriminate ST].
      inversion ST; subst out1. apply Forall_app. split; [assumption|].
      pose proof (QP_body f0 (HQ f0 eq_refl) _ _ _ _ IB) as G.
      rewrite Forall_forall in *. intros x Hx. apply plain_mono. apply G. assumption.
    + assert (ST' : match inline_node SC f c' busy ch with Some ch' => Some (out0 ++ [ch']) | None => None end = Some out1)
        by (destruct ch; try discriminate U; exact ST).
      destruct (inline_node SC f c' busy ch) as [ch'|] eqn:IN; [|discriminate]. inversion ST'; subst out1.
      apply Forall_app. split; [assumption|]. constructor; [apply (HP _ _ _ _ IN) | constructor].
Qed.

Lemma PP_QP : forall f, PP f /\ QP f.
Proof.
  induction f as [|f [IHP IHQ]].
  - assert (P0 : PP 0) by (intros c busy n n' H; discriminate H).
    split; [exact P0|]. apply QP_step; [exact P0 | intros; discriminate].
  - assert (PS : PP (S f)) by (apply PP_step; exact IHQ).
    split; [exact PS|]. apply QP_step; [exact PS|]. intros f0 E. inversion E; subst. exact IHQ.
Qed.

(* the inlined form contains no uses statement and nests less deep than the fuel that produced it *)
Theorem inline_plain : forall f c busy n n', inline_node SC f c busy n = Some n' -> plain f n'.
Proof. intros f. apply (proj1 (PP_QP f)). Qed.

End InlinePlain.

(* ------------------------------------------------------------------ sizes *)
Lemma sl_eq : forall l,
  (fix sl (l : list dnode) : nat := match l with [] => O | x :: r => (size_node x + sl r)%nat end) l = size_nodes l.
Proof. induction l as [|x r IH]; [reflexivity|]. unfold size_nodes in *. cbn [fold_right]. rewrite <- IH. reflexivity. Qed.

Lemma size_node_eq : forall n,
  size_node n =
  S (match n with
     | DContainer _ _ b | DList _ _ _ _ _ b | DChoice _ _ _ _ b | DCase _ b | DGrouping _ _ b | DNotification _ b => size_nodes b
     | DRpc _ _ i o => (match i with Some b => S (size_nodes b) | None => O end) +
                       (match o with Some b => S (size_nodes b) | None => O end)
     | _ => O
     end).
Proof.
  destruct n; cbn [size_node]; rewrite ?sl_eq; try reflexivity.
Qed.

Lemma size_nodes_in : forall b x, In x b -> size_node x <= size_nodes b.
Proof.
  induction b as [|y r IH]; intros x H; [destruct H|]. unfold size_nodes in *. cbn [fold_right].
  destruct H as [->|H]; [lia|]. specialize (IH x H). lia.
Qed.

Lemma plain_size : forall f n, plain f n -> plain (S (size_node n)) n.
Proof.
  induction f as [|f IH]; intros n H; [destruct H|].
  assert (L : forall b k, Forall (plain f) b -> size_nodes b <= k -> Forall (plain (S k)) b).
  { intros b k Hb Hk. rewrite Forall_forall in *. intros x Hx.
    apply (plain_le (S (size_node x))); [pose proof (size_nodes_in b x Hx); lia | apply IH; apply Hb; assumption]. }
  rewrite size_node_eq. destruct n; cbn [plain] in *; auto; try (apply L; [assumption | lia]).
  destruct H as [A B]. split.
  - destruct input; [apply L; [assumption | lia] | exact I].
  - destruct output; [apply L; [assumption | lia] | exact I].
Qed.

Lemma plain_stmts : forall f gid nm body, plain f (DGrouping gid nm body) -> forall k, size_nodes body < k ->
  plain (S k) (DGrouping gid nm body).
Proof.
  intros f gid nm body H k Hk. apply (plain_le (S (size_node (DGrouping gid nm body)))); [|apply (plain_size f); assumption].
  rewrite size_node_eq. lia.
Qed.

Lemma module_size_le : forall (SC : schema) m, In m SC -> S (module_size m) <= schema_size SC.
Proof.
  induction SC as [|x r IH]; intros m H; [destruct H|]. unfold schema_size in *. cbn [fold_right].
  destruct H as [->|H]; [lia|]. specialize (IH m H). lia.
Qed.

Lemma body_size_fuel : forall (SC : schema) m, In m SC -> size_nodes (m_body m) < pred (entry_fuel SC).
Proof.
  intros SC m H. pose proof (module_size_le SC m H) as L. unfold module_size in L. unfold entry_fuel.
  set (z := schema_size SC) in *. assert (size_nodes (m_body m) < z) by lia. nia.
Qed.

Lemma aug_size_fuel : forall (SC : schema) m a, In m SC -> In a (m_augments m) -> size_nodes (snd a) < pred (entry_fuel SC).
Proof.
  intros SC m a H Ha. pose proof (module_size_le SC m H) as L. unfold module_size in L. unfold entry_fuel.
  assert (A : S (size_nodes (snd a)) <= fold_right (fun a n => S (size_nodes (snd a)) + n) 0 (m_augments m)).
  { clear L. induction (m_augments m) as [|y r IH]; [destruct Ha|]. cbn [fold_right].
    destruct Ha as [->|Ha]; [lia|]. specialize (IH Ha). lia. }
  set (z := schema_size SC) in *. assert (size_nodes (snd a) < z) by lia. nia.
Qed.

(* ================================================================== Process only reads headers and built entries *)
(* A module transformer g that keeps every header field and the paths of the augments, and under which the
   statement lists of every module of SC and of its augments are BUILT to the same entries: Process gives the same
   result on [map g SC] as on SC.  (Pattern of DeviationStripProofs.v.) *)
Section Congruence.
Variable SC : schema.
Variable g : module -> module.
Let S' := map g SC.

Hypothesis Hname : forall m, m_name (g m) = m_name m.
Hypothesis Hprefix : forall m, m_prefix (g m) = m_prefix m.
Hypothesis Hns : forall m, m_ns (g m) = m_ns m.
Hypothesis Hbelongs : forall m, m_belongs (g m) = m_belongs m.
Hypothesis Himports : forall m, m_imports (g m) = m_imports m.
Hypothesis Hincludes : forall m, m_includes (g m) = m_includes m.
Hypothesis Hdevs : forall m, m_deviations (g m) = m_deviations m.
Hypothesis Hbody : forall m, In m SC -> body_entry S' (g m) [] (m_body (g m)) = body_entry SC m [] (m_body m).
Hypothesis Haugs : forall m, In m SC ->
  map (fun a => (fst a, body_entry S' (g m) [m_body (g m)] (snd a))) (m_augments (g m)) =
  map (fun a => (fst a, body_entry SC m [m_body m] (snd a))) (m_augments m).

Definition gaug (a : aug) : aug := {| a_mod := g (a_mod a); a_path := a_path a; a_dir := a_dir a; a_err := a_err a |}.
Definition gP (P : pendings) : pendings := map (fun kv => (fst kv, map gaug (snd kv))) P.

Lemma fold_left_ext : forall {A B} (f h : A -> B -> A) l a, (forall a b, f a b = h a b) -> fold_left f l a = fold_left h l a.
Proof. induction l; cbn; intros; auto. rewrite H. apply IHl. assumption. Qed.

Lemma find_module_map : forall (l : schema) n, find_module (map g l) n = option_map g (find_module l n).
Proof.
  induction l as [|x r IH]; intro n; cbn; [reflexivity|]. rewrite Hname.
  destruct (str_eqb (m_name x) n); [reflexivity | apply IH].
Qed.

Lemma find_module_g : forall n, find_module S' n = option_map g (find_module SC n).
Proof. intro n. apply find_module_map. Qed.

Lemma find_module_in : forall (l : schema) n m, find_module l n = Some m -> In m l.
Proof.
  induction l as [|x r IH]; intros n m H; cbn in H; [discriminate|].
  destruct (str_eqb (m_name x) n); [inversion H; left; reflexivity | right; eapply IH; eassumption].
Qed.

Lemma is_sub_g : forall m, is_sub (g m) = is_sub m.
Proof. intro m. unfold is_sub. rewrite Hbelongs. reflexivity. Qed.

Lemma owner_g : forall m, owner S' (g m) = option_map g (owner SC m).
Proof.
  intro m. unfold owner. rewrite Hbelongs. destruct (m_belongs m) as [o|]; [|reflexivity].
  rewrite find_module_g. destruct (find_module SC o) as [om|]; [|reflexivity]. cbn [option_map].
  rewrite is_sub_g. destruct (is_sub om); reflexivity.
Qed.

Lemma length_g : length S' = length SC.
Proof. apply map_length. Qed.

Lemma module_dir_g : forall ic fuel merged m, In m SC ->
  module_dir S' ic fuel merged (g m) = module_dir SC ic fuel merged m.
Proof.
  intros ic. induction fuel as [|f IH]; intros merged m Hm; [reflexivity|].
  cbn [module_dir]. rewrite Hincludes, Hname, (Hbody m Hm).
  destruct (body_entry SC m [] (m_body m)) as [me err].
  apply fold_left_ext. intros [acc mg] sn.
  rewrite find_module_g. destruct (find_module SC sn) as [sm|] eqn:FM; cbn [option_map]; [|reflexivity].
  rewrite Hname, Hbelongs. rewrite (IH _ sm (find_module_in _ _ _ FM)). reflexivity.
Qed.

Lemma module_entry_g : forall ic m, In m SC -> module_entry S' ic (g m) = module_entry SC ic m.
Proof.
  intros ic m Hm. unfold module_entry. rewrite length_g, (module_dir_g ic _ _ m Hm), Hname, Hdevs. reflexivity.
Qed.

Lemma FindModuleByPrefix_g : forall ctx prefix,
  FindModuleByPrefix S' (g ctx) prefix = option_map g (FindModuleByPrefix SC ctx prefix).
Proof.
  intros. unfold FindModuleByPrefix. rewrite Hprefix, Himports.
  destruct (_ || _); [reflexivity|].
  induction (m_imports ctx) as [|[p mn] r IH]; [reflexivity|].
  destruct (str_eqb prefix p); [apply find_module_g | apply IH].
Qed.

Lemma Find_g : forall F ctx start name, Find S' F (g ctx) start name = Find SC F ctx start name.
Proof.
  intros. unfold Find. destruct name as [|c0 nm]; [reflexivity|].
  destruct (split_on cSLASH [] (c0 :: nm)) as [|[|x l] [|first rest]]; try reflexivity.
  destruct (fst (getPrefix first)) as [|a pfx].
  - rewrite find_module_g. destruct (find_module SC (fst start)) as [sm|]; cbn [option_map]; [|reflexivity].
    rewrite owner_g. destruct (owner SC sm); cbn [option_map]; [rewrite Hname|]; reflexivity.
  - rewrite FindModuleByPrefix_g. destruct (FindModuleByPrefix SC ctx (a :: pfx)) as [md|]; cbn [option_map]; [|reflexivity].
    rewrite owner_g. destruct (owner SC md); cbn [option_map]; [rewrite Hname|]; reflexivity.
Qed.

Lemma module_augs_g : forall m, In m SC -> module_augs S' (g m) = map gaug (module_augs SC m).
Proof.
  intros m Hm. unfold module_augs. pose proof (Haugs m Hm) as H. rewrite map_map.
  revert H. generalize (m_augments (g m)) as l'. generalize (m_augments m) as l.
  induction l as [|a r IH]; intros [|a' r'] H; cbn [map] in *; try discriminate; [reflexivity|].
  inversion H as [[E1 E2 E3]]. rewrite E1, E2. rewrite (IH _ E3).
  destruct (body_entry SC m [m_body m] (snd a)) as [e err]. reflexivity.
Qed.

Lemma owner_ns_g : forall m, owner_ns S' (g m) = owner_ns SC m.
Proof. intro m. unfold owner_ns. rewrite owner_g. destruct (owner SC m); cbn [option_map]; [rewrite Hns|]; reflexivity. Qed.

Definition lift_am (r : forest * bool * nat * list aug) : forest * bool * nat * list aug :=
  let '(F, e, n, un) := r in (F, e, n, map gaug un).

Lemma augment_module_g : forall pending F err ae,
  augment_module S' F err (map gaug pending) ae = lift_am (augment_module SC F err pending ae).
Proof.
  induction pending as [|a rest IH]; intros F err ae; [reflexivity|].
  cbn [map augment_module]. cbn [gaug a_mod a_path a_dir a_err]. rewrite Hname, Find_g, owner_ns_g.
  destruct (Find SC F (a_mod a) (m_name (a_mod a), []) (a_path a)) as [target F1].
  destruct (match target with
            | Some p => match locate_pos F1 p with
                        | Some te => match e_dir te with Some _ => true | None => false end
                        | None => false
                        end
            | None => false
            end).
  - destruct target as [p|]; [|reflexivity].
    rewrite IH. destruct (augment_module SC _ _ rest ae) as [[[F3 e3] n] un]. reflexivity.
  - rewrite IH. destruct (augment_module SC F1 _ rest ae) as [[[F3 e3] n] un]. reflexivity.
Qed.

Lemma lookup_gP : forall mn P, lookup mn (gP P) = option_map (map gaug) (lookup mn P).
Proof.
  intros mn P. unfold gP. induction P as [|[k v] r IH]; [reflexivity|]. cbn.
  destruct (str_eqb mn k); [reflexivity | apply IH].
Qed.

Lemma update_gP : forall mn un P, update mn (map gaug un) (gP P) = gP (update mn un P).
Proof.
  intros mn un P. unfold gP. induction P as [|[k v] r IH]; [reflexivity|]. cbn.
  destruct (str_eqb mn k); cbn; [reflexivity|]. rewrite IH. reflexivity.
Qed.

Lemma pend_gP : forall mn P,
  match lookup mn (gP P) with Some l => l | None => [] end = map gaug (match lookup mn P with Some l => l | None => [] end).
Proof. intros. rewrite lookup_gP. destruct (lookup mn P); reflexivity. Qed.

Definition lift_ap (r : forest * bool * pendings * list str * nat) : forest * bool * pendings * list str * nat :=
  let '(F, e, P, mods, n) := r in (F, e, gP P, mods, n).

Lemma augment_pass_g : forall fuel F err P mods i processed,
  augment_pass S' fuel F err (gP P) mods i processed = lift_ap (augment_pass SC fuel F err P mods i processed).
Proof.
  induction fuel as [|f IH]; intros; [reflexivity|].
  cbn [augment_pass]. destruct (nth_error mods i) as [mn|]; [|reflexivity].
  rewrite pend_gP, augment_module_g.
  destruct (augment_module SC F err _ false) as [[[F1 e1] p] un]. cbn [lift_am].
  rewrite update_gP. destruct un as [|u un']; cbn [map]; apply IH.
Qed.

Lemma augment_loop_g : forall fuel F err P mods applied,
  augment_loop S' fuel F err (gP P) mods applied = lift_ap (augment_loop SC fuel F err P mods applied).
Proof.
  induction fuel as [|f IH]; intros; [reflexivity|].
  cbn [augment_loop]. destruct mods as [|m0 mods']; [reflexivity|].
  rewrite augment_pass_g.
  destruct (augment_pass SC _ F err P (m0 :: mods') 0 0) as [[[[F1 e1] P1] mods1] processed]. cbn [lift_ap].
  destruct processed; [reflexivity | apply IH].
Qed.

Definition lift_r (r : forest * bool * pendings * list str) : forest * bool * pendings * list str :=
  let '(F, e, P, mods) := r in (F, e, gP P, mods).

Lemma rounds_g : forall n_aug fuel round F err P mods,
  C04.rounds S' n_aug fuel round F err (gP P) mods = lift_r (C04.rounds SC n_aug fuel round F err P mods).
Proof.
  intros n_aug. induction fuel as [|f IH]; intros; [reflexivity|].
  cbn [C04.rounds]. rewrite augment_loop_g.
  destruct (augment_loop SC (S n_aug) F err P mods 0) as [[[[Fa ea] Pa] modsa] applied]. cbn [lift_ap].
  destruct modsa as [|m0 ms]; [reflexivity|].
  destruct round; [apply IH|]. destruct applied; [reflexivity | apply IH].
Qed.

Lemma stage_P0_list : forall l : list module, (forall m, In m l -> In m SC) ->
  map (fun m => (m_name m, module_augs S' m)) (map g l) = gP (map (fun m => (m_name m, module_augs SC m)) l).
Proof.
  induction l as [|x r IH]; intro H; [reflexivity|]. cbn [map gP fst snd]. fold (gP (map (fun m => (m_name m, module_augs SC m)) r)).
  rewrite Hname, (module_augs_g x (H x (or_introl eq_refl))). f_equal. apply IH. intros. apply H. right. assumption.
Qed.

Lemma stage_P0_g : C04.stage_P0 S' = gP (C04.stage_P0 SC).
Proof. unfold C04.stage_P0, S'. apply stage_P0_list. auto. Qed.

Lemma stage_F0_list : forall ic (l : list module), (forall m, In m l -> In m SC) ->
  map (fun x : module * built => (m_name (fst x), fst (snd x)))
      (filter (fun x => negb (is_sub (fst x))) (map (fun m => (m, module_entry S' ic m)) (map g l))) =
  map (fun x : module * built => (m_name (fst x), fst (snd x)))
      (filter (fun x => negb (is_sub (fst x))) (map (fun m => (m, module_entry SC ic m)) l)).
Proof.
  intros ic l. induction l as [|x r IH]; intro H; [reflexivity|].
  cbn [map filter fst]. rewrite is_sub_g.
  assert (IH' := IH (fun m Hm => H m (or_intror Hm))).
  destruct (negb (is_sub x)); cbn [map fst snd].
  - rewrite Hname, (module_entry_g ic x (H x (or_introl eq_refl))). f_equal. apply IH'.
  - apply IH'.
Qed.

Lemma stage_F0_g : forall ic, C04.stage_F0 S' ic = C04.stage_F0 SC ic.
Proof. intro ic. apply (stage_F0_list ic SC). auto. Qed.

Lemma stage_naug_list : forall l : list module, (forall m, In m l -> In m SC) ->
  fold_right (fun m n => length (m_augments m) + n)%nat O (map g l) =
  fold_right (fun m n => length (m_augments m) + n)%nat O l.
Proof.
  induction l as [|x r IH]; intro H; [reflexivity|]. cbn [map fold_right].
  pose proof (f_equal (@length _) (Haugs x (H x (or_introl eq_refl)))) as E. rewrite !map_length in E.
  rewrite E, IH; [reflexivity|]. intros. apply H. right. assumption.
Qed.

Lemma stage_naug_g : C04.stage_naug S' = C04.stage_naug SC.
Proof. unfold C04.stage_naug, S'. apply stage_naug_list. auto. Qed.

Lemma stage_rounds_g : forall ic order, C04.stage_rounds S' ic order = lift_r (C04.stage_rounds SC ic order).
Proof. intros. unfold C04.stage_rounds. rewrite stage_naug_g, stage_F0_g, stage_P0_g. apply rounds_g. Qed.

Definition lift_f (st : forest * bool * pendings) : forest * bool * pendings := let '(F, e, P) := st in (F, e, gP P).

Lemma final_step_g : forall st mn, C04.final_step S' (lift_f st) mn = lift_f (C04.final_step SC st mn).
Proof.
  intros [[F e] P] mn. unfold C04.final_step, lift_f. rewrite pend_gP, augment_module_g.
  destruct (augment_module SC F e _ true) as [[[F1 e1] n] un]. cbn [lift_am]. rewrite update_gP. reflexivity.
Qed.

Lemma final_fold_g : forall mods st,
  fold_left (C04.final_step S') mods (lift_f st) = lift_f (fold_left (C04.final_step SC) mods st).
Proof. induction mods as [|mn mods IH]; intro st; [reflexivity|]. cbn [fold_left]. rewrite final_step_g. apply IH. Qed.

Lemma stage_final_g : forall ic order, C04.stage_final S' ic order = lift_f (C04.stage_final SC ic order).
Proof.
  intros. unfold C04.stage_final, C04.stage_mods1, C04.stage_F2, C04.stage_err1, C04.stage_P1.
  rewrite stage_rounds_g. destruct (C04.stage_rounds SC ic order) as [[[F2 e1] P1] mods1]. cbn [lift_r fst snd].
  apply (final_fold_g mods1 (F2, e1, P1)).
Qed.

Lemma stage_F3_g : forall ic order, C04.stage_F3 S' ic order = C04.stage_F3 SC ic order.
Proof. intros. unfold C04.stage_F3. rewrite stage_final_g. destruct (C04.stage_final SC ic order) as [[F e] P]. reflexivity. Qed.
Lemma stage_err3_g : forall ic order, C04.stage_err3 S' ic order = C04.stage_err3 SC ic order.
Proof. intros. unfold C04.stage_err3. rewrite stage_final_g. destruct (C04.stage_final SC ic order) as [[F e] P]. reflexivity. Qed.

(* deviations: the deviating module is only a context for path lookup *)
Lemma apply_deviations_g : forall ins m devs F err,
  apply_deviations S' ins F err (g m) devs = apply_deviations SC ins F err m devs.
Proof.
  intros ins m. induction devs as [|[path dvs] rest IH]; intros F err; [reflexivity|].
  cbn [apply_deviations]. rewrite Hname, Find_g.
  destruct (Find SC F m (m_name m, []) path) as [target F1].
  destruct target as [p|]; [|apply IH].
  destruct (locate_pos F1 p) as [cur|]; [|apply IH].
  destruct (apply_deviates ins F1 p cur true err dvs) as [[[F2 cur'] attached] err']. apply IH.
Qed.

Lemma dev_step_g : forall ins st mn, C04.dev_step S' ins st mn = C04.dev_step SC ins st mn.
Proof.
  intros. unfold C04.dev_step. rewrite find_module_g. destruct (find_module SC mn) as [m|]; cbn [option_map]; [|reflexivity].
  rewrite Hdevs. apply apply_deviations_g.
Qed.

Lemma stage_dev_g : forall ic ins order, C04.stage_dev S' ic ins order = C04.stage_dev SC ic ins order.
Proof.
  intros. unfold C04.stage_dev. rewrite stage_F3_g, stage_err3_g. apply fold_left_ext. intros. apply dev_step_g.
Qed.

Lemma includes_ok_g : forall fuel seen m, includes_ok S' fuel seen (g m) = includes_ok SC fuel seen m.
Proof.
  induction fuel as [|f IH]; intros seen m; [reflexivity|].
  cbn [includes_ok]. rewrite Hname, Hincludes, Himports.
  destruct (mem (m_name m) seen); [reflexivity|].
  assert (ST : forall (st : bool * list str) (name : str) (w : bool),
    (if fst st then match find_module S' name with
                    | Some x => if Bool.eqb (is_sub x) w then includes_ok S' f (snd st) x else (false, snd st)
                    | None => (false, snd st) end else st) =
    (if fst st then match find_module SC name with
                    | Some x => if Bool.eqb (is_sub x) w then includes_ok SC f (snd st) x else (false, snd st)
                    | None => (false, snd st) end else st)).
  { intros st name w. destruct (fst st); [|reflexivity]. rewrite find_module_g.
    destruct (find_module SC name) as [x|]; cbn [option_map]; [|reflexivity].
    rewrite is_sub_g, IH. reflexivity. }
  rewrite (fold_left_ext _ _ (m_includes m) (true, m_name m :: seen) (fun st sn => ST st sn true)).
  apply fold_left_ext. intros st i. apply ST.
Qed.

Lemma includes_list : forall n (l : list module),
  forallb (fun m => fst (includes_ok S' n [] m)) (filter (fun m => negb (is_sub m)) (map g l)) =
  forallb (fun m => fst (includes_ok SC n [] m)) (filter (fun m => negb (is_sub m)) l).
Proof.
  intros n l. induction l as [|x r IH]; [reflexivity|].
  cbn [map filter]. rewrite is_sub_g. destruct (negb (is_sub x)); cbn [forallb]; [|apply IH].
  rewrite includes_ok_g, IH. reflexivity.
Qed.

Lemma includes_fail_g : C04.includes_fail S' = C04.includes_fail SC.
Proof. unfold C04.includes_fail. f_equal. rewrite length_g. exact (includes_list (S (length SC)) SC). Qed.

Lemma build_list : forall ic (l : list module), (forall m, In m l -> In m SC) ->
  existsb (fun m => snd (module_entry S' ic m)) (map g l) = existsb (fun m => snd (module_entry SC ic m)) l.
Proof.
  intros ic l. induction l as [|x r IH]; intro H; [reflexivity|].
  cbn [map existsb]. rewrite (module_entry_g ic x (H x (or_introl eq_refl))), IH; [reflexivity|].
  intros. apply H. right. assumption.
Qed.

Lemma build_fail_g : forall ic, C04.build_fail S' ic = C04.build_fail SC ic.
Proof. intro ic. apply (build_list ic SC). auto. Qed.

Theorem Process_congruence : forall ic ins order, Process S' ic ins order = Process SC ic ins order.
Proof.
  intros. rewrite !Process_stages. rewrite includes_fail_g, build_fail_g.
  unfold C04.stage_err4, C04.stage_F4. rewrite stage_dev_g. reflexivity.
Qed.

End Congruence.

(* ================================================================== T1 for whole module sets *)
Lemma opt_map_spec : forall {A B} (f : A -> option B) (d : A -> B) l l',
  opt_map f l = Some l' ->
  l' = map (fun x => match f x with Some y => y | None => d x end) l /\ (forall x, In x l -> f x <> None).
Proof.
  induction l as [|x r IH]; intros l' H; cbn [opt_map] in H.
  - inversion H. split; [reflexivity | intros x []].
  - destruct (f x) as [y|] eqn:E; [|discriminate]. destruct (opt_map f r) as [ys|]; [|discriminate].
    inversion H; subst. destruct (IH ys eq_refl) as [A1 A2]. split.
    + cbn [map]. rewrite E, <- A1. reflexivity.
    + intros z [<-|Hz]; [congruence | apply A2; assumption].
Qed.

Section Whole.
Variable SC : schema.

Definition inl (m : module) : module := match inline_module SC m with Some m' => m' | None => m end.

Lemma inline_stmts_node : forall m scopes body body',
  inline_stmts SC m scopes body = Some body' ->
  inline_node SC (entry_fuel SC) {| g_mod := m; g_scopes := scopes |} [] (DGrouping O [] body) = Some (DGrouping O [] body').
Proof.
  intros m scopes body body' H. unfold inline_stmts in H.
  destruct (entry_fuel SC) as [|f]; [discriminate H|]. rewrite inline_node_S in *.
  destruct (inline_body SC f _ [] body) as [b'|]; [|discriminate]. cbn [option_map] in *. inversion H; subst. reflexivity.
Qed.

(* the statement list, inlined, is built to the same entry in ANY module set in which it fits the fuel *)
Lemma stmts_built : forall m scopes body body' (S2 : schema) m2 scopes2,
  inline_stmts SC m scopes body = Some body' -> size_nodes body' < pred (entry_fuel S2) ->
  body_entry S2 m2 scopes2 body' = body_entry SC m scopes body.
Proof.
  intros m scopes body body' S2 m2 scopes2 H Hs.
  pose proof (inline_stmts_node _ _ _ _ H) as IN.
  rewrite (inline_stmts_faithful SC m scopes body body' H {| g_mod := m; g_scopes := scopes |} []).
  unfold body_entry. pose proof (inline_plain SC _ _ _ _ _ IN) as PL.
  apply to_entry_plain; [|exact PL].
  assert (E : entry_fuel S2 = S (pred (entry_fuel S2))) by (unfold entry_fuel; lia).
  rewrite E. eapply plain_stmts; [exact PL | exact Hs].
Qed.

Lemma inl_fields : forall m,
  m_name (inl m) = m_name m /\ m_prefix (inl m) = m_prefix m /\ m_ns (inl m) = m_ns m /\ m_belongs (inl m) = m_belongs m /\
  m_imports (inl m) = m_imports m /\ m_includes (inl m) = m_includes m /\ m_deviations (inl m) = m_deviations m.
Proof.
  intro m. unfold inl, inline_module.
  destruct (inline_stmts SC m [] (m_body m)); [|repeat split].
  destruct (inline_augs SC m); repeat split.
Qed.

Hypothesis OK : forall m, In m SC -> inline_module SC m <> None.

Lemma inl_body : forall m, In m SC ->
  inline_stmts SC m [] (m_body m) = Some (m_body (inl m)) /\ inline_augs SC m = Some (m_augments (inl m)).
Proof.
  intros m Hm. specialize (OK m Hm). unfold inl. unfold inline_module in *.
  destruct (inline_stmts SC m [] (m_body m)); [|congruence].
  destruct (inline_augs SC m); [|congruence]. split; reflexivity.
Qed.

Lemma inl_in : forall m, In m SC -> In (inl m) (map inl SC).
Proof. intros. apply in_map. assumption. Qed.

Lemma Hbody_inl : forall m, In m SC ->
  body_entry (map inl SC) (inl m) [] (m_body (inl m)) = body_entry SC m [] (m_body m).
Proof.
  intros m Hm. destruct (inl_body m Hm) as [B _]. apply (stmts_built _ _ _ _ _ _ _ B).
  apply body_size_fuel. apply inl_in. assumption.
Qed.

Lemma Haugs_inl : forall m, In m SC ->
  map (fun a => (fst a, body_entry (map inl SC) (inl m) [m_body (inl m)] (snd a))) (m_augments (inl m)) =
  map (fun a => (fst a, body_entry SC m [m_body m] (snd a))) (m_augments m).
Proof.
  intros m Hm. destruct (inl_body m Hm) as [_ A]. unfold inline_augs in A.
  assert (SZ : forall a, In a (m_augments (inl m)) -> size_nodes (snd a) < pred (entry_fuel (map inl SC))).
  { intros a Ha. eapply aug_size_fuel; [apply inl_in; exact Hm | exact Ha]. }
  revert A SZ. generalize (m_augments (inl m)) as l'. generalize (m_augments m) as l.
  induction l as [|a r IH]; intros l' A SZ; cbn [opt_map] in A.
  - inversion A. reflexivity.
  - destruct (inline_stmts SC m [m_body m] (snd a)) as [b'|] eqn:E; cbn [option_map] in A; [|discriminate].
    destruct (opt_map _ r) as [ys|] eqn:R; [|discriminate]. inversion A; subst l'. cbn [map fst snd].
    rewrite (stmts_built _ _ _ _ _ _ _ E (SZ (fst a, b') (or_introl eq_refl))).
    f_equal. apply (IH ys eq_refl). intros x Hx. apply SZ. right. assumption.
Qed.

Theorem Process_inl : forall ic ins order, Process (map inl SC) ic ins order = Process SC ic ins order.
Proof.
  apply Process_congruence; try (intro m; apply (inl_fields m)).
  - exact Hbody_inl.
  - exact Haugs_inl.
Qed.

End Whole.

(* T1 lifted to the processed result: where the reference expansion succeeds for every module, submodule and augment,
   processing the inlined module set gives exactly the result of processing the original one -- the same forest or
   the same error verdict -- for every visiting order and all options *)
Theorem inline_schema_process : forall SC SC' ic ins order,
  inline_schema SC = Some SC' -> Process SC' ic ins order = Process SC ic ins order.
Proof.
  intros SC SC' ic ins order H. unfold inline_schema in H.
  destruct (opt_map_spec (inline_module SC) (fun m => m) SC SC' H) as [E OK]. subst SC'.
  apply (Process_inl SC OK).
Qed.
