(* C05: requests for modules by name through the search path (Spec/C05.v part 5): the answer to a request is a
   function of the file tree, the search path and the name -- not of the requests made before it. *)
From Coq Require Import List NArith Bool Permutation.
From GY Require Import Base.Outcome Model.Registry Model.File Spec.C05.
Import ListNotations.

Lemma lookups_functional : forall root path names n o,
  In (n, o) (lookups root path names) -> o = lookup_fs root path n.
Proof.
  intros root path names n o Hin. unfold lookups in Hin.
  apply in_map_iff in Hin. destruct Hin as [x [Heq _]].
  inversion Heq; subst. reflexivity.
Qed.

Lemma lookups_perm : forall root path names names', Permutation names names' ->
  forall n o, In (n, o) (lookups root path names) <-> In (n, o) (lookups root path names').
Proof.
  intros root path names names' Hp n o.
  assert (Hm : Permutation (lookups root path names) (lookups root path names')).
  { unfold lookups. apply Permutation_map. exact Hp. }
  split; intro Hin.
  - exact (Permutation_in _ Hm Hin).
  - exact (Permutation_in _ (Permutation_sym Hm) Hin).
Qed.

(* whatever was asked before (a prefix of requests), the answer to [n] is the same *)
Lemma lookups_app : forall root path before after n,
  lookups root path (before ++ n :: after) =
  lookups root path before ++ (n, lookup_fs root path n) :: lookups root path after.
Proof. intros. unfold lookups. rewrite map_app. reflexivity. Qed.

(* non-vacuity: two directories hold c.yang, only the second holds d.yang; the path is ROOT/... .  The walk settles
   c on a/c.yang and d on b/d.yang -- also when d (found in b) was asked for first. *)
Definition ex_yang (c : N) : str := [c; 46; 121; 97; 110; 103]%N.
Definition ex_root : entry :=
  Dir [] [Dir [98%N] [File (ex_yang 100); File (ex_yang 99)]; Dir [97%N] [File (ex_yang 99)]].
Definition ex_path : spath := [([], true)].
Lemma lookups_example :
  lookups ex_root ex_path [[99%N]; [100%N]] =
    [([99%N], Ok (Found 1 [[97%N]; ex_yang 99])); ([100%N], Ok (Found 1 [[98%N]; ex_yang 100]))] /\
  lookups ex_root ex_path [[100%N]; [99%N]] =
    [([100%N], Ok (Found 1 [[98%N]; ex_yang 100])); ([99%N], Ok (Found 1 [[97%N]; ex_yang 99]))].
Proof. split; vm_compute; reflexivity. Qed.
