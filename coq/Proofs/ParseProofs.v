(* Invariants of the parser model: every token the parser sees, every statement it builds and every error
   it writes carries the true position of the place of the text it is about (C16). *)
From Coq Require Import List NArith ZArith Bool Lia.
Import ListNotations.
From GY Require Import Model.Lex Model.Parse Spec.C16 Proofs.LexProofs.
Local Open Scope Z_scope.

Lemma run_state_inv text l : LInv text l -> LInv text (run_state l).
Proof.
  intros (HI & HE & HSv). unfold run_state. unfold SInv in HSv. destruct (state l) eqn:Hs.
  - apply lexGround_inv; auto.
  - destruct HSv as (Z & X & S & A & B). apply lexQString_inv; auto.
  - destruct HSv as (L & S & Sp & N). apply lexUnquoted_inv; auto.
  - split; [exact HI|split; [exact HE|]]. unfold SInv. rewrite Hs. exact I.
Qed.

Lemma NextToken_inv text fuel : forall l r l', LInv text l -> NextToken fuel l = (r, l') ->
  LInv text l' /\ (forall t, r = Some (Some t) -> tok_ok text t).
Proof.
  assert (Pop : forall l t r, LInv text l -> items l = t :: r ->
            LInv text {| cu := cu l; sline := sline l; scol := scol l; soff := soff l; inPattern := inPattern l;
                         items := r; errcnt := errcnt l; errs := errs l; state := state l |} /\ tok_ok text t).
  { intros l t r (HI & HE & HSv) Hi. rewrite Hi in HI. inversion HI; subst.
    split; [|assumption]. split; [assumption|split; [exact HE|exact HSv]]. }
  induction fuel as [|f IH]; intros l r l' HL H; cbn [NextToken] in H.
  - destruct (items l) as [|t its] eqn:Hi.
    + destruct (state l); injection H as <- <-; (split; [exact HL|discriminate]).
    + injection H as <- <-. destruct (Pop l t its HL Hi) as [A B]. split; [exact A|]. intros t' Q. injection Q as <-. exact B.
  - destruct (items l) as [|t its] eqn:Hi.
    + destruct (state l) eqn:Hs; try (apply (IH _ _ _ (run_state_inv text l HL) H)).
      injection H as <- <-. split; [exact HL|discriminate].
    + injection H as <- <-. destruct (Pop l t its HL Hi) as [A B]. split; [exact A|]. intros t' Q. injection Q as <-. exact B.
Qed.

(* ---------------------------------------------------------------- parser invariant *)
Definition PInv (text : str) (p : parser) : Prop := LInv text (lx p) /\ Forall (tok_ok text) (toks p).
Definition hb_ok (text : str) (p : parser) : Prop := (hb_line p, hb_col p) = linecol text (hb_off p).

Lemma raw_next_inv text fuel : forall p t p', PInv text p -> raw_next fuel p = (t, p') ->
  PInv text p' /\ (forall t', t = Some t' -> tok_ok text t').
Proof.
  induction fuel as [|f IH]; intros p t p' [HL HT] H; cbn [raw_next] in H.
  - injection H as <- <-. split; [split; assumption|discriminate].
  - destruct (NextToken (lex_fuel (lx p)) (lx p)) as [r l] eqn:Hn.
    destruct (NextToken_inv text _ _ _ _ HL Hn) as [HL' Ht].
    destruct r as [[t0|]|].
    + destruct (is_TError t0).
      * apply (IH _ _ _ (conj HL' HT : PInv text (with_lx p l)) H).
      * injection H as <- <-. split; [split; assumption|]. intros t' Q. injection Q as <-. apply Ht. reflexivity.
    + injection H as <- <-. split; [split; assumption|discriminate].
    + injection H as <- <-. split; [split; assumption|discriminate].
Qed.

Lemma raw_inv text p t p' : PInv text p -> raw p = (t, p') ->
  PInv text p' /\ (forall t', t = Some t' -> tok_ok text t').
Proof. apply raw_next_inv. Qed.

Lemma set_text_ok text t s : tok_ok text t -> is_TString t = true -> tok_ok text (set_text t s).
Proof.
  intros [A B] H. unfold is_TString in H. split; [exact A|]. cbn [set_text t_code]. destruct (t_code t); try discriminate. exact I.
Qed.

Lemma push_inv text p ts : PInv text p -> Forall (tok_ok text) ts -> PInv text (with_toks p (ts ++ toks p)).
Proof. intros [A B] C. split; [exact A|]. cbn [with_toks toks]. apply Forall_app. split; assumption. Qed.

Lemma concat_loop_inv text fuel : forall t p r p', PInv text p -> tok_ok text t -> is_TString t = true ->
  concat_loop fuel t p = (r, p') -> PInv text p' /\ (forall t', r = Some t' -> tok_ok text t').
Proof.
  induction fuel as [|f IH]; intros t p r p' HP Ht Hs H; cbn [concat_loop] in H.
  - injection H as <- <-. split; [exact HP|]. intros t' Q; injection Q as <-; exact Ht.
  - destruct (raw p) as [nt p1] eqn:H1. destruct (raw_inv text _ _ _ HP H1) as [HP1 Hnt].
    assert (Fin : forall p2, PInv text p2 -> PInv text p2 /\ (forall t', Some t = Some t' -> tok_ok text t')).
    { intros p2 Q. split; [exact Q|]. intros t' Q'; injection Q' as <-; exact Ht. }
    destruct nt as [nt'|]; [|injection H as <- <-; apply Fin; exact HP1].
    pose proof (Hnt _ eq_refl) as Hnt'.
    destruct (is_TUnquoted nt' && str_eqb (t_text nt') s_plus).
    + destruct (raw p1) as [nnt p2] eqn:H2. destruct (raw_inv text _ _ _ HP1 H2) as [HP2 Hnnt].
      destruct nnt as [nnt'|].
      * pose proof (Hnnt _ eq_refl) as Hnnt'. destruct (is_TString nnt').
        -- apply (IH _ _ _ _ HP2 (set_text_ok text t _ Ht Hs) Hs H).
        -- injection H as <- <-. apply Fin. apply (push_inv text p2 [nt'; nnt'] HP2). auto.
      * injection H as <- <-. apply Fin. apply (push_inv text p2 [nt'] HP2). auto.
    + injection H as <- <-. apply Fin. apply (push_inv text p1 [nt'] HP1). auto.
Qed.

Lemma pnext_inv text p r p' : PInv text p -> pnext p = (r, p') ->
  PInv text p' /\ (forall t, r = Some t -> tok_ok text t).
Proof.
  intros HP H. unfold pnext in H. destruct (toks p) as [|t ts] eqn:Ht.
  - destruct (raw p) as [t p1] eqn:H1. destruct (raw_inv text _ _ _ HP H1) as [HP1 Hok].
    destruct t as [t'|].
    + destruct (is_TString t') eqn:Hs.
      * apply (concat_loop_inv text _ _ _ _ _ HP1 (Hok _ eq_refl) Hs H).
      * injection H as <- <-. split; assumption.
    + injection H as <- <-. split; [assumption|discriminate].
  - injection H as <- <-. destruct HP as [A B]. rewrite Ht in B. inversion B; subst.
    split; [split; assumption|]. intros t' Q; injection Q as <-; assumption.
Qed.

(* the sub-statement loop of nextStatement, named *)
Section Subs.
  Variable ns : parser -> sres * parser.
  Variable mk : list stmt -> stmt.
  Fixpoint subs_loop (n : nat) (p : parser) (acc : list stmt) {struct n} : sres * parser :=
    match n with
    | O => (RNil, set_oof p)
    | S n' =>
      match ns p with
      | (RNil, p) => (RNil, p)
      | (RBrace, p) => (RStmt (mk (rev acc)), p)
      | (RIgnore, p) => subs_loop n' p (Stmt [] false [] 0 0 0 [] :: acc)
      | (RStmt s, p) => subs_loop n' p (s :: acc)
      end
    end.
End Subs.

Definition ns_tail (f : nat) (t : token) (p : parser) : sres * parser :=
  let kw := t_text t in
  let p := with_lx p (with_inPattern (lx p) (str_eqb kw s_pattern)) in
  let (t2, p) := pnext p in
  let p := with_lx p (with_inPattern (lx p) false) in
  let '(has, arg, t3, p) :=
    match t2 with
    | Some a => if is_TString a || is_TUnquoted a
                then let (t3, p) := pnext p in (true, t_text a, t3, p)
                else (false, [], t2, p)
    | None => (false, [], t2, p)
    end in
  match t3 with
  | None => (RNil, add_err p None EUnexpectedEOF None)
  | Some t3 =>
    if is_TChar cSEMI t3 then (RStmt (Stmt kw has arg (t_line t) (t_col t) (t_off t) []), p)
    else if is_TChar cLB t3 then
      let p := {| lx := lx p; toks := toks p; depth := depth p + 1; hb_line := hb_line p;
                  hb_col := hb_col p; hb_off := hb_off p; oof := oof p |} in
      subs_loop (nextStatement f) (fun l => Stmt kw has arg (t_line t) (t_col t) (t_off t) l) f p []
    else (RIgnore, add_err p (tok_pos t3) ESyntax (Some (t_off t3)))
  end.

Lemma nextStatement_eq f p : nextStatement (S f) p =
  let (t, p) := pnext p in
  match t with
  | None => (RNil, p)
  | Some t =>
    if is_TChar cRB t then
      (RBrace, {| lx := lx p; toks := toks p; depth := depth p - 1; hb_line := t_line t; hb_col := t_col t;
                  hb_off := t_off t; oof := oof p |})
    else if negb (is_TUnquoted t) then
      (RIgnore, add_err p (tok_pos t) EKeywordNotUnquoted (Some (t_off t)))
    else ns_tail f t p
  end.
Proof. reflexivity. Qed.

Lemma stmt_ok_eq text kw h a ln cl off subs :
  stmt_ok text (Stmt kw h a ln cl off subs) <->
  ((kw <> [] -> (ln, cl) = linecol text off /\ text_at text off kw) /\ Forall (stmt_ok text) subs).
Proof.
  cbn [stmt_ok]. 
  assert (E : forall l, (fix all (l : list stmt) : Prop := match l with [] => True | x :: r => stmt_ok text x /\ all r end) l
                        <-> Forall (stmt_ok text) l).
  { induction l as [|x r IH]; [split; auto|]. split.
    - intros [A B]. constructor; [exact A|apply IH; exact B].
    - intros H. inversion H; subst. split; [assumption|apply IH; assumption]. }
  rewrite E. reflexivity.
Qed.

Lemma ignore_ok text : stmt_ok text (Stmt [] false [] 0 0 0 []).
Proof. apply stmt_ok_eq. split; [congruence|constructor]. Qed.

Lemma add_err_inv text p pos k subj : PInv text p ->
  err_ok text {| e_pos := pos; e_kind := k; e_subject := subj |} ->
  PInv text (add_err p pos k subj).
Proof.
  intros [(HI & HE & HS) HT] H. split; [|exact HT]. split; [exact HI|]. split; [|exact HS].
  cbn [add_err with_lx lx errs]. constructor; [exact H|exact HE].
Qed.

Lemma with_inPattern_inv text p b : PInv text p -> PInv text (with_lx p (with_inPattern (lx p) b)).
Proof. intros [(HI & HE & HS) HT]. split; [|exact HT]. split; [exact HI|split; [exact HE|exact HS]]. Qed.

Definition ns_post (text : str) (r : sres) (p' : parser) : Prop :=
  PInv text p' /\ (r = RBrace -> hb_ok text p') /\ (forall s, r = RStmt s -> stmt_ok text s).

Lemma subs_loop_inv text ns mk :
  (forall p r p', PInv text p -> ns p = (r, p') -> ns_post text r p') ->
  (forall l, Forall (stmt_ok text) l -> stmt_ok text (mk l)) ->
  forall n p acc r p', PInv text p -> Forall (stmt_ok text) acc -> subs_loop ns mk n p acc = (r, p') ->
  PInv text p' /\ r <> RBrace /\ (forall s, r = RStmt s -> stmt_ok text s).
Proof.
  intros Hns Hmk. induction n as [|n IH]; intros p acc r p' HP HA H; cbn [subs_loop] in H.
  - injection H as <- <-. split; [exact HP|split; discriminate].
  - destruct (ns p) as [r1 p1] eqn:H1. destruct (Hns _ _ _ HP H1) as (HP1 & _ & Hs).
    destruct r1.
    + injection H as <- <-. split; [exact HP1|split; discriminate].
    + injection H as <- <-. split; [exact HP1|split; [discriminate|]]. intros s Q; injection Q as <-.
      apply Hmk. apply Forall_rev. exact HA.
    + apply (IH _ _ _ _ HP1 (Forall_cons _ (ignore_ok text) HA) H).
    + apply (IH _ _ _ _ HP1 (Forall_cons _ (Hs _ eq_refl) HA) H).
Qed.

Lemma nextStatement_inv text fuel : forall p r p', PInv text p -> nextStatement fuel p = (r, p') -> ns_post text r p'.
Proof.
  induction fuel as [|f IH]; intros p r p' HP H.
  - cbn [nextStatement] in H. injection H as <- <-. split; [exact HP|split; discriminate].
  - rewrite nextStatement_eq in H.
    destruct (pnext p) as [t p1] eqn:H1. destruct (pnext_inv text _ _ _ HP H1) as [HP1 Ht].
    destruct t as [t|]; [|injection H as <- <-; split; [exact HP1|split; discriminate]].
    pose proof (Ht _ eq_refl) as [Hpos Hclaim].
    destruct (is_TChar cRB t).
    { injection H as <- <-. split; [exact HP1|split; [|discriminate]]. intros _. exact Hpos. }
    destruct (is_TUnquoted t) eqn:Hu; cbn [negb] in H.
    2:{ injection H as <- <-. split; [|split; discriminate]. apply add_err_inv; [exact HP1|apply err_ok_intro; exact Hpos]. }
    assert (Hkw : (t_line t, t_col t) = linecol text (t_off t) /\ text_at text (t_off t) (t_text t)).
    { split; [exact Hpos|]. unfold is_TUnquoted in Hu. destruct (t_code t); try discriminate. apply Hclaim. }
    clear Hclaim Ht.
    unfold ns_tail in H. cbv zeta in H.
    pose proof (with_inPattern_inv text p1 (str_eqb (t_text t) s_pattern) HP1) as HP2.
    destruct (pnext (with_lx p1 (with_inPattern (lx p1) (str_eqb (t_text t) s_pattern)))) as [t2 p3] eqn:H3.
    destruct (pnext_inv text _ _ _ HP2 H3) as [HP3 Ht2].
    pose proof (with_inPattern_inv text p3 false HP3) as HP4.
    set (p4 := with_lx p3 (with_inPattern (lx p3) false)) in *.
    assert (Tail : forall has arg t3 p5, PInv text p5 -> (forall t', t3 = Some t' -> tok_ok text t') ->
              match t3 with
              | None => (RNil, add_err p5 None EUnexpectedEOF None)
              | Some t3 =>
                if is_TChar cSEMI t3 then (RStmt (Stmt (t_text t) has arg (t_line t) (t_col t) (t_off t) []), p5)
                else if is_TChar cLB t3 then
                  subs_loop (nextStatement f) (fun l => Stmt (t_text t) has arg (t_line t) (t_col t) (t_off t) l) f
                    {| lx := lx p5; toks := toks p5; depth := depth p5 + 1; hb_line := hb_line p5;
                       hb_col := hb_col p5; hb_off := hb_off p5; oof := oof p5 |} []
                else (RIgnore, add_err p5 (tok_pos t3) ESyntax (Some (t_off t3)))
              end = (r, p') -> ns_post text r p').
    { intros has arg t3 p5 HP5 Ht3 Q. destruct t3 as [t3|].
      - destruct (is_TChar cSEMI t3).
        + injection Q as <- <-. split; [exact HP5|split; [discriminate|]]. intros s Q; injection Q as <-.
          apply stmt_ok_eq. split; [intros _; exact Hkw|constructor].
        + destruct (is_TChar cLB t3).
          * destruct (subs_loop_inv text (nextStatement f) _ IH
                        ltac:(intros l Hl; apply stmt_ok_eq; split; [intros _; exact Hkw|exact Hl])
                        _ _ _ _ _ (HP5 : PInv text (Build_parser _ _ _ _ _ _ _)) (Forall_nil _) Q) as (A & B & C).
            split; [exact A|split; [intro; contradiction|exact C]].
          * injection Q as <- <-. split; [|split; discriminate]. apply add_err_inv; [exact HP5|].
            destruct (Ht3 _ eq_refl) as [X _]. apply err_ok_intro. exact X.
      - injection Q as <- <-. split; [|split; discriminate]. apply add_err_inv; [exact HP5|exact I]. }
    destruct t2 as [a|].
    + destruct (is_TString a || is_TUnquoted a).
      * destruct (pnext p4) as [t3 p5] eqn:H5. destruct (pnext_inv text _ _ _ HP4 H5) as [HP5 Ht3].
        apply (Tail true (t_text a) t3 p5 HP5 Ht3 H).
      * apply (Tail false [] (Some a) p4 HP4 Ht2 H).
    + apply (Tail false [] None p4 HP4 Ht2 H).
Qed.

Lemma parse_loop_inv text fuel : forall n p acc ss p', PInv text p -> Forall (stmt_ok text) acc ->
  parse_loop fuel n p acc = (ss, p') -> PInv text p' /\ Forall (stmt_ok text) ss.
Proof.
  induction n as [|n IH]; intros p acc ss p' HP HA H; cbn [parse_loop] in H.
  - injection H as <- <-. split; [exact HP|apply Forall_rev; exact HA].
  - destruct (nextStatement fuel p) as [r p1] eqn:H1.
    destruct (nextStatement_inv text _ _ _ _ HP H1) as (HP1 & Hb & Hs).
    destruct r.
    + injection H as <- <-. split; [exact HP1|apply Forall_rev; exact HA].
    + refine (IH _ _ _ _ _ HA H). apply add_err_inv; [exact HP1|]. apply err_ok_intro. apply Hb. reflexivity.
    + apply (IH _ _ _ _ HP1 (Forall_cons _ (ignore_ok text) HA) H).
    + apply (IH _ _ _ _ HP1 (Forall_cons _ (Hs _ eq_refl) HA) H).
Qed.

Lemma newParser_inv input : PInv (terminated input) (newParser input).
Proof.
  split; [|constructor]. split; [constructor|split; [constructor|]].
  unfold SInv. cbn [newParser lx newLexer state cu]. split.
  - unfold zip. reflexivity.
  - left. unfold Exact. cbn. auto.
Qed.

Theorem Parse_positions input ss es o : Parse input = (ss, es, o) ->
  Forall (stmt_ok (terminated input)) ss /\ Forall (err_ok (terminated input)) es.
Proof.
  unfold Parse. cbv zeta.
  destruct (parse_loop (parse_fuel input) (parse_fuel input) (newParser input) []) as [ss0 p] eqn:Hl.
  destruct (parse_loop_inv (terminated input) _ _ _ _ _ _ (newParser_inv input) (Forall_nil _) Hl) as [HP HS].
  set (p' := match errs (lx p) with [] => _ | _ => _ end).
  assert (HP' : PInv (terminated input) p').
  { unfold p'. destruct (errs (lx p)); [|exact HP]. destruct (depth p =? 0); [exact HP|].
    apply add_err_inv; [exact HP|exact I]. }
  destruct HP' as [(_ & HE & _) _].
  destruct (errs (lx p')) as [|e es'] eqn:He; intros Q; injection Q as <- <- <-.
  - split; [exact HS|constructor].
  - split; [constructor|]. change (rev es' ++ [e]) with (rev (e :: es')). apply Forall_rev. exact HE.
Qed.

Lemma Parse_statement_positions input ss o :
  Parse input = (ss, [], o) -> Forall (stmt_ok (terminated input)) ss.
Proof. intro H. exact (proj1 (Parse_positions input ss [] o H)). Qed.
Lemma Parse_error_positions input ss es o :
  Parse input = (ss, es, o) -> Forall (err_ok (terminated input)) es.
Proof. intro H. exact (proj2 (Parse_positions input ss es o H)). Qed.

Lemma linecol_terminated input off :
  (off <= length input)%nat -> linecol (terminated input) off = linecol input off.
Proof.
  intro H. unfold terminated. destruct (rev input) as [|c r]; [reflexivity|].
  destruct (c =? cLF)%N; [reflexivity|]. unfold linecol. rewrite firstn_app.
  replace (off - length input)%nat with O by lia. cbn [firstn]. rewrite app_nil_r. reflexivity.
Qed.

(* ---------------------------------------------------------------- C02: shape of the result *)
Lemma Parse_reject_shape input ss es o : Parse input = (ss, es, o) ->
  (es <> [] -> ss = []) /\ (es = [] \/ ss = []).
Proof.
  unfold Parse. cbv zeta.
  destruct (parse_loop (parse_fuel input) (parse_fuel input) (newParser input) []) as [ss0 p].
  match goal with |- context [errs (lx ?q)] => destruct (errs (lx q)) as [|e es'] end;
    intros Q; injection Q as <- <- <-.
  - split; [congruence|left; reflexivity].
  - split; [reflexivity|right; reflexivity].
Qed.
