(* Invariants of the parser model: every token the parser sees, every statement it builds and every error
   it writes carries the true position of the place of the text it is about (C16). *)
From Coq Require Import List NArith ZArith Bool Lia.
Import ListNotations.
From GY Require Import Model.Lex Model.Parse Spec.C16 Spec.C02 Proofs.LexProofs.
Local Open Scope Z_scope.

Lemma run_state_inv text l : LInv text l -> LInv text (run_state l).
Proof.
  intros (HI & HE & HSv). unfold run_state. unfold SInv in HSv. destruct (state l) eqn:Hs.
  - apply lexGround_inv; auto.
  - destruct HSv as (Z & X & S & A & B). apply lexQString_inv; auto.
  - destruct HSv as (L & S & Sp & N). apply lexUnquoted_inv; auto.
  - split; [exact HI|split; [exact HE|]]. unfold SInv. rewrite Hs. exact I.
Qed.

Lemma NextToken_inv text fuel : forall l r l', LInv text l -> NextToken fuel l = (r, l') ->
  LInv text l' /\ (forall t, r = Some (Some t) -> tok_ok text t).
Proof.
  assert (Pop : forall l t r, LInv text l -> items l = t :: r ->
            LInv text {| cu := cu l; sline := sline l; scol := scol l; soff := soff l; inPattern := inPattern l;
                         items := r; errcnt := errcnt l; errs := errs l; state := state l |} /\ tok_ok text t).
  { intros l t r (HI & HE & HSv) Hi. rewrite Hi in HI. inversion HI; subst.
    split; [|assumption]. split; [assumption|split; [exact HE|exact HSv]]. }
  induction fuel as [|f IH]; intros l r l' HL H; cbn [NextToken] in H.
  - destruct (items l) as [|t its] eqn:Hi.
    + destruct (state l); injection H as <- <-; (split; [exact HL|discriminate]).
    + injection H as <- <-. destruct (Pop l t its HL Hi) as [A B]. split; [exact A|]. intros t' Q. injection Q as <-. exact B.
  - destruct (items l) as [|t its] eqn:Hi.
    + destruct (state l) eqn:Hs; try (apply (IH _ _ _ (run_state_inv text l HL) H)).
      injection H as <- <-. split; [exact HL|discriminate].
    + injection H as <- <-. destruct (Pop l t its HL Hi) as [A B]. split; [exact A|]. intros t' Q. injection Q as <-. exact B.
Qed.

(* ---------------------------------------------------------------- parser invariant *)
Definition PInv (text : str) (p : parser) : Prop := LInv text (lx p) /\ Forall (tok_ok text) (toks p).
Definition hb_ok (text : str) (p : parser) : Prop := (hb_line p, hb_col p) = linecol text (hb_off p).

Lemma raw_next_inv text fuel : forall p t p', PInv text p -> raw_next fuel p = (t, p') ->
  PInv text p' /\ (forall t', t = Some t' -> tok_ok text t').
Proof.
  induction fuel as [|f IH]; intros p t p' [HL HT] H; cbn [raw_next] in H.
  - injection H as <- <-. split; [split; assumption|discriminate].
  - destruct (NextToken (lex_fuel (lx p)) (lx p)) as [r l] eqn:Hn.
    destruct (NextToken_inv text _ _ _ _ HL Hn) as [HL' Ht].
    destruct r as [[t0|]|].
    + destruct (is_TError t0).
      * apply (IH _ _ _ (conj HL' HT : PInv text (with_lx p l)) H).
      * injection H as <- <-. split; [split; assumption|]. intros t' Q. injection Q as <-. apply Ht. reflexivity.
    + injection H as <- <-. split; [split; assumption|discriminate].
    + injection H as <- <-. split; [split; assumption|discriminate].
Qed.

Lemma raw_inv text p t p' : PInv text p -> raw p = (t, p') ->
  PInv text p' /\ (forall t', t = Some t' -> tok_ok text t').
Proof. apply raw_next_inv. Qed.

Lemma set_text_ok text t s : tok_ok text t -> is_TString t = true -> tok_ok text (set_text t s).
Proof.
  intros [A B] H. unfold is_TString in H. split; [exact A|]. cbn [set_text t_code]. destruct (t_code t); try discriminate. exact I.
Qed.

Lemma push_inv text p ts : PInv text p -> Forall (tok_ok text) ts -> PInv text (with_toks p (ts ++ toks p)).
Proof. intros [A B] C. split; [exact A|]. cbn [with_toks toks]. apply Forall_app. split; assumption. Qed.

Lemma concat_loop_inv text fuel : forall t p r p', PInv text p -> tok_ok text t -> is_TString t = true ->
  concat_loop fuel t p = (r, p') -> PInv text p' /\ (forall t', r = Some t' -> tok_ok text t').
Proof.
  induction fuel as [|f IH]; intros t p r p' HP Ht Hs H; cbn [concat_loop] in H.
  - injection H as <- <-. split; [exact HP|]. intros t' Q; injection Q as <-; exact Ht.
  - destruct (raw p) as [nt p1] eqn:H1. destruct (raw_inv text _ _ _ HP H1) as [HP1 Hnt].
    assert (Fin : forall p2, PInv text p2 -> PInv text p2 /\ (forall t', Some t = Some t' -> tok_ok text t')).
    { intros p2 Q. split; [exact Q|]. intros t' Q'; injection Q' as <-; exact Ht. }
    destruct nt as [nt'|]; [|injection H as <- <-; apply Fin; exact HP1].
    pose proof (Hnt _ eq_refl) as Hnt'.
    destruct (is_TUnquoted nt' && str_eqb (t_text nt') s_plus).
    + destruct (raw p1) as [nnt p2] eqn:H2. destruct (raw_inv text _ _ _ HP1 H2) as [HP2 Hnnt].
      destruct nnt as [nnt'|].
      * pose proof (Hnnt _ eq_refl) as Hnnt'. destruct (is_TString nnt').
        -- apply (IH _ _ _ _ HP2 (set_text_ok text t _ Ht Hs) Hs H).
        -- injection H as <- <-. apply Fin. apply (push_inv text p2 [nt'; nnt'] HP2). auto.
      * injection H as <- <-. apply Fin. apply (push_inv text p2 [nt'] HP2). auto.
    + injection H as <- <-. apply Fin. apply (push_inv text p1 [nt'] HP1). auto.
Qed.

Lemma pnext_inv text p r p' : PInv text p -> pnext p = (r, p') ->
  PInv text p' /\ (forall t, r = Some t -> tok_ok text t).
Proof.
  intros HP H. unfold pnext in H. destruct (toks p) as [|t ts] eqn:Ht.
  - destruct (raw p) as [t p1] eqn:H1. destruct (raw_inv text _ _ _ HP H1) as [HP1 Hok].
    destruct t as [t'|].
    + destruct (is_TString t') eqn:Hs.
      * apply (concat_loop_inv text _ _ _ _ _ HP1 (Hok _ eq_refl) Hs H).
      * injection H as <- <-. split; assumption.
    + injection H as <- <-. split; [assumption|discriminate].
  - injection H as <- <-. destruct HP as [A B]. rewrite Ht in B. inversion B; subst.
    split; [split; assumption|]. intros t' Q; injection Q as <-; assumption.
Qed.

(* the sub-statement loop of nextStatement, named *)
Section Subs.
  Variable ns : parser -> sres * parser.
  Variable mk : list stmt -> stmt.
  Fixpoint subs_loop (n : nat) (p : parser) (acc : list stmt) {struct n} : sres * parser :=
    match n with
    | O => (RNil, set_oof p)
    | S n' =>
      match ns p with
      | (RNil, p) => (RNil, p)
      | (RBrace, p) => (RStmt (mk (rev acc)), p)
      | (RIgnore, p) => subs_loop n' p (Stmt [] false [] 0 0 0 [] :: acc)
      | (RStmt s, p) => subs_loop n' p (s :: acc)
      end
    end.
End Subs.

Definition ns_tail (f : nat) (t : token) (p : parser) : sres * parser :=
  let kw := t_text t in
  let p := with_lx p (with_inPattern (lx p) (str_eqb kw s_pattern)) in
  let (t2, p) := pnext p in
  let p := with_lx p (with_inPattern (lx p) false) in
  let '(has, arg, t3, p) :=
    match t2 with
    | Some a => if is_TString a || is_TUnquoted a
                then let (t3, p) := pnext p in (true, t_text a, t3, p)
                else (false, [], t2, p)
    | None => (false, [], t2, p)
    end in
  match t3 with
  | None => (RNil, add_err p None EUnexpectedEOF None)
  | Some t3 =>
    if is_TChar cSEMI t3 then (RStmt (Stmt kw has arg (t_line t) (t_col t) (t_off t) []), p)
    else if is_TChar cLB t3 then
      let p := {| lx := lx p; toks := toks p; depth := depth p + 1; hb_line := hb_line p;
                  hb_col := hb_col p; hb_off := hb_off p; oof := oof p |} in
      subs_loop (nextStatement f) (fun l => Stmt kw has arg (t_line t) (t_col t) (t_off t) l) f p []
    else (RIgnore, add_err p (tok_pos t3) ESyntax (Some (t_off t3)))
  end.

Lemma nextStatement_eq f p : nextStatement (S f) p =
  let (t, p) := pnext p in
  match t with
  | None => (RNil, p)
  | Some t =>
    if is_TChar cRB t then
      (RBrace, {| lx := lx p; toks := toks p; depth := depth p - 1; hb_line := t_line t; hb_col := t_col t;
                  hb_off := t_off t; oof := oof p |})
    else if negb (is_TUnquoted t) then
      (RIgnore, add_err p (tok_pos t) EKeywordNotUnquoted (Some (t_off t)))
    else ns_tail f t p
  end.
Proof. reflexivity. Qed.

Lemma stmt_ok_eq text kw h a ln cl off subs :
  stmt_ok text (Stmt kw h a ln cl off subs) <->
  ((kw <> [] -> (ln, cl) = linecol text off /\ text_at text off kw) /\ Forall (stmt_ok text) subs).
Proof.
  cbn [stmt_ok]. 
  assert (E : forall l, (fix all (l : list stmt) : Prop := match l with [] => True | x :: r => stmt_ok text x /\ all r end) l
                        <-> Forall (stmt_ok text) l).
  { induction l as [|x r IH]; [split; auto|]. split.
    - intros [A B]. constructor; [exact A|apply IH; exact B].
    - intros H. inversion H; subst. split; [assumption|apply IH; assumption]. }
  rewrite E. reflexivity.
Qed.

Lemma ignore_ok text : stmt_ok text (Stmt [] false [] 0 0 0 []).
Proof. apply stmt_ok_eq. split; [congruence|constructor]. Qed.

Lemma add_err_inv text p pos k subj : PInv text p ->
  err_ok text {| e_pos := pos; e_kind := k; e_subject := subj |} ->
  PInv text (add_err p pos k subj).
Proof.
  intros [(HI & HE & HS) HT] H. split; [|exact HT]. split; [exact HI|]. split; [|exact HS].
  cbn [add_err with_lx lx errs]. constructor; [exact H|exact HE].
Qed.

Lemma with_inPattern_inv text p b : PInv text p -> PInv text (with_lx p (with_inPattern (lx p) b)).
Proof. intros [(HI & HE & HS) HT]. split; [|exact HT]. split; [exact HI|split; [exact HE|exact HS]]. Qed.

Definition ns_post (text : str) (r : sres) (p' : parser) : Prop :=
  PInv text p' /\ (r = RBrace -> hb_ok text p') /\ (forall s, r = RStmt s -> stmt_ok text s).

Lemma subs_loop_inv text ns mk :
  (forall p r p', PInv text p -> ns p = (r, p') -> ns_post text r p') ->
  (forall l, Forall (stmt_ok text) l -> stmt_ok text (mk l)) ->
  forall n p acc r p', PInv text p -> Forall (stmt_ok text) acc -> subs_loop ns mk n p acc = (r, p') ->
  PInv text p' /\ r <> RBrace /\ (forall s, r = RStmt s -> stmt_ok text s).
Proof.
  intros Hns Hmk. induction n as [|n IH]; intros p acc r p' HP HA H; cbn [subs_loop] in H.
  - injection H as <- <-. split; [exact HP|split; discriminate].
  - destruct (ns p) as [r1 p1] eqn:H1. destruct (Hns _ _ _ HP H1) as (HP1 & _ & Hs).
    destruct r1.
    + injection H as <- <-. split; [exact HP1|split; discriminate].
    + injection H as <- <-. split; [exact HP1|split; [discriminate|]]. intros s Q; injection Q as <-.
      apply Hmk. apply Forall_rev. exact HA.
    + apply (IH _ _ _ _ HP1 (Forall_cons _ (ignore_ok text) HA) H).
    + apply (IH _ _ _ _ HP1 (Forall_cons _ (Hs _ eq_refl) HA) H).
Qed.

Lemma nextStatement_inv text fuel : forall p r p', PInv text p -> nextStatement fuel p = (r, p') -> ns_post text r p'.
Proof.
  induction fuel as [|f IH]; intros p r p' HP H.
  - cbn [nextStatement] in H. injection H as <- <-. split; [exact HP|split; discriminate].
  - rewrite nextStatement_eq in H.
    destruct (pnext p) as [t p1] eqn:H1. destruct (pnext_inv text _ _ _ HP H1) as [HP1 Ht].
    destruct t as [t|]; [|injection H as <- <-; split; [exact HP1|split; discriminate]].
    pose proof (Ht _ eq_refl) as [Hpos Hclaim].
    destruct (is_TChar cRB t).
    { injection H as <- <-. split; [exact HP1|split; [|discriminate]]. intros _. exact Hpos. }
    destruct (is_TUnquoted t) eqn:Hu; cbn [negb] in H.
    2:{ injection H as <- <-. split; [|split; discriminate]. apply add_err_inv; [exact HP1|apply err_ok_intro; exact Hpos]. }
    assert (Hkw : (t_line t, t_col t) = linecol text (t_off t) /\ text_at text (t_off t) (t_text t)).
    { split; [exact Hpos|]. unfold is_TUnquoted in Hu. destruct (t_code t); try discriminate. apply Hclaim. }
    clear Hclaim Ht.
    unfold ns_tail in H. cbv zeta in H.
    pose proof (with_inPattern_inv text p1 (str_eqb (t_text t) s_pattern) HP1) as HP2.
    destruct (pnext (with_lx p1 (with_inPattern (lx p1) (str_eqb (t_text t) s_pattern)))) as [t2 p3] eqn:H3.
    destruct (pnext_inv text _ _ _ HP2 H3) as [HP3 Ht2].
    pose proof (with_inPattern_inv text p3 false HP3) as HP4.
    set (p4 := with_lx p3 (with_inPattern (lx p3) false)) in *.
    assert (Tail : forall has arg t3 p5, PInv text p5 -> (forall t', t3 = Some t' -> tok_ok text t') ->
              match t3 with
              | None => (RNil, add_err p5 None EUnexpectedEOF None)
              | Some t3 =>
                if is_TChar cSEMI t3 then (RStmt (Stmt (t_text t) has arg (t_line t) (t_col t) (t_off t) []), p5)
                else if is_TChar cLB t3 then
                  subs_loop (nextStatement f) (fun l => Stmt (t_text t) has arg (t_line t) (t_col t) (t_off t) l) f
                    {| lx := lx p5; toks := toks p5; depth := depth p5 + 1; hb_line := hb_line p5;
                       hb_col := hb_col p5; hb_off := hb_off p5; oof := oof p5 |} []
                else (RIgnore, add_err p5 (tok_pos t3) ESyntax (Some (t_off t3)))
              end = (r, p') -> ns_post text r p').
    { intros has arg t3 p5 HP5 Ht3 Q. destruct t3 as [t3|].
      - destruct (is_TChar cSEMI t3).
        + injection Q as <- <-. split; [exact HP5|split; [discriminate|]]. intros s Q; injection Q as <-.
          apply stmt_ok_eq. split; [intros _; exact Hkw|constructor].
        + destruct (is_TChar cLB t3).
          * destruct (subs_loop_inv text (nextStatement f) _ IH
                        ltac:(intros l Hl; apply stmt_ok_eq; split; [intros _; exact Hkw|exact Hl])
                        _ _ _ _ _ (HP5 : PInv text (Build_parser _ _ _ _ _ _ _)) (Forall_nil _) Q) as (A & B & C).
            split; [exact A|split; [intro; contradiction|exact C]].
          * injection Q as <- <-. split; [|split; discriminate]. apply add_err_inv; [exact HP5|].
            destruct (Ht3 _ eq_refl) as [X _]. apply err_ok_intro. exact X.
      - injection Q as <- <-. split; [|split; discriminate]. apply add_err_inv; [exact HP5|exact I]. }
    destruct t2 as [a|].
    + destruct (is_TString a || is_TUnquoted a).
      * destruct (pnext p4) as [t3 p5] eqn:H5. destruct (pnext_inv text _ _ _ HP4 H5) as [HP5 Ht3].
        apply (Tail true (t_text a) t3 p5 HP5 Ht3 H).
      * apply (Tail false [] (Some a) p4 HP4 Ht2 H).
    + apply (Tail false [] None p4 HP4 Ht2 H).
Qed.

Lemma parse_loop_inv text fuel : forall n p acc ss p', PInv text p -> Forall (stmt_ok text) acc ->
  parse_loop fuel n p acc = (ss, p') -> PInv text p' /\ Forall (stmt_ok text) ss.
Proof.
  induction n as [|n IH]; intros p acc ss p' HP HA H; cbn [parse_loop] in H.
  - injection H as <- <-. split; [exact HP|apply Forall_rev; exact HA].
  - destruct (nextStatement fuel p) as [r p1] eqn:H1.
    destruct (nextStatement_inv text _ _ _ _ HP H1) as (HP1 & Hb & Hs).
    destruct r.
    + injection H as <- <-. split; [exact HP1|apply Forall_rev; exact HA].
    + refine (IH _ _ _ _ _ HA H). apply add_err_inv; [exact HP1|]. apply err_ok_intro. apply Hb. reflexivity.
    + apply (IH _ _ _ _ HP1 (Forall_cons _ (ignore_ok text) HA) H).
    + apply (IH _ _ _ _ HP1 (Forall_cons _ (Hs _ eq_refl) HA) H).
Qed.

Lemma newParser_inv input : PInv (terminated input) (newParser input).
Proof.
  split; [|constructor]. split; [constructor|split; [constructor|]].
  unfold SInv. cbn [newParser lx newLexer state cu]. split.
  - unfold zip. reflexivity.
  - left. unfold Exact. cbn. auto.
Qed.

Theorem Parse_positions input ss es o : Parse input = (ss, es, o) ->
  Forall (stmt_ok (terminated input)) ss /\ Forall (err_ok (terminated input)) es.
Proof.
  unfold Parse. cbv zeta.
  destruct (parse_loop (parse_fuel input) (parse_fuel input) (newParser input) []) as [ss0 p] eqn:Hl.
  destruct (parse_loop_inv (terminated input) _ _ _ _ _ _ (newParser_inv input) (Forall_nil _) Hl) as [HP HS].
  set (p' := match errs (lx p) with [] => _ | _ => _ end).
  assert (HP' : PInv (terminated input) p').
  { unfold p'. destruct (errs (lx p)); [|exact HP]. destruct (depth p =? 0); [exact HP|].
    apply add_err_inv; [exact HP|exact I]. }
  destruct HP' as [(_ & HE & _) _].
  destruct (errs (lx p')) as [|e es'] eqn:He; intros Q; injection Q as <- <- <-.
  - split; [exact HS|constructor].
  - split; [constructor|]. change (rev es' ++ [e]) with (rev (e :: es')). apply Forall_rev. exact HE.
Qed.

Lemma Parse_statement_positions input ss o :
  Parse input = (ss, [], o) -> Forall (stmt_ok (terminated input)) ss.
Proof. intro H. exact (proj1 (Parse_positions input ss [] o H)). Qed.
Lemma Parse_error_positions input ss es o :
  Parse input = (ss, es, o) -> Forall (err_ok (terminated input)) es.
Proof. intro H. exact (proj2 (Parse_positions input ss es o H)). Qed.

Lemma linecol_terminated input off :
  (off <= length input)%nat -> linecol (terminated input) off = linecol input off.
Proof.
  intro H. unfold terminated. destruct (rev input) as [|c r]; [reflexivity|].
  destruct (c =? cLF)%N; [reflexivity|]. unfold linecol. rewrite firstn_app.
  replace (off - length input)%nat with O by lia. cbn [firstn]. rewrite app_nil_r. reflexivity.
Qed.

(* ---------------------------------------------------------------- C02: shape of the result *)
Lemma Parse_reject_shape input ss es o : Parse input = (ss, es, o) ->
  (es <> [] -> ss = []) /\ (es = [] \/ ss = []).
Proof.
  unfold Parse. cbv zeta.
  destruct (parse_loop (parse_fuel input) (parse_fuel input) (newParser input) []) as [ss0 p].
  match goal with |- context [errs (lx ?q)] => destruct (errs (lx q)) as [|e es'] end;
    intros Q; injection Q as <- <- <-.
  - split; [congruence|left; reflexivity].
  - split; [reflexivity|right; reflexivity].
Qed.

(* ================================================================ C02: the parser accepts what the reference reader accepts *)
Definition frame (p p' : parser) : Prop := toks p' = toks p /\ depth p' = depth p /\ oof p' = oof p.

Lemma read_token_punct_indep text pat s c s3 :
  read_token text false s = TOk (KPunct c) s3 -> read_token text pat s = TOk (KPunct c) s3.
Proof.
  unfold read_token. destruct (skip InGap s) as [[|c0 r]|]; try discriminate.
  destruct (punct c0); [auto|]. destruct (c0 =? cSQ)%N; [destruct (squoted r) as [[u s']|]; discriminate|].
  destruct (c0 =? cDQ)%N.
  - destruct (dquoted false _ r); discriminate.
  - destruct (unquoted (c0 :: r)) as [u s']. destruct (opener_in (tl u)); discriminate.
Qed.

Lemma tok_matches_not_error k t : tok_matches k t -> is_TError t = false.
Proof. unfold is_TError. destruct k; cbn; try contradiction; intros [-> _]; reflexivity. Qed.

Definition raw_result (text : str) (p : parser) (res : option token * parser) (r : tres) : Prop :=
  match r with
  | TOk KEnd _ => exists p', res = (None, p') /\ same_errs (lx p) (lx p') /\ frame p p' /\ state (lx p') = SDone /\ items (lx p') = []
  | TOk k s' => exists t p', res = (Some t, p') /\ tok_matches k t /\ same_errs (lx p) (lx p') /\ frame p p' /\ glex text (lx p') s'
  | _ => True
  end.

Lemma raw_sim text p s : ~ In EOFR text -> lf_term text -> glex text (lx p) s ->
  raw_result text p (raw p) (read_token text (inPattern (lx p)) s).
Proof.
  intros NE LT G.
  assert (Hf : (2 * length s + 4 <= lex_fuel (lx p))%nat).
  { unfold lex_fuel. destruct G as (_ & _ & _ & ->). lia. }
  pose proof (NextToken_sim text NE LT (length s) s (lx p) _ (le_n _) G Hf) as R. unfold token_result in R.
  unfold raw, raw_fuel. replace (length (after (cu (lx p))) + 12)%nat with (S (length (after (cu (lx p))) + 11)) by lia.
  cbn [raw_next].
  destruct (read_token text (inPattern (lx p)) s) as [[u|u|c|] s'| |]; try exact I; cbn [tr_of raw_result] in *.
  1-3: destruct R as (t & l' & -> & M & SE & G'); rewrite (tok_matches_not_error _ _ M);
       exists t, (with_lx p l'); split; [reflexivity|split; [exact M|split; [exact SE|split; [repeat split|exact G']]]].
  destruct R as (l' & -> & SE & A & B). exists (with_lx p l'). split; [reflexivity|]. split; [exact SE|]. split; [repeat split|]. split; assumption.
Qed.

(* where the parser stands in the text: its lexer is in the ground state at [s], or it holds one pushed-back
   punctuation token and re-reading that token from [s] leads to where the lexer is *)
Inductive ppos (text : str) (p : parser) (s : str) : Prop :=
| PP_direct : toks p = [] -> glex text (lx p) s -> ppos text p s
| PP_pushed t c s1 : toks p = [t] -> tokq (TChar c) [c] t -> read_token text false s = TOk (KPunct c) s1 ->
                     glex text (lx p) s1 -> ppos text p s.

Definition pframe (p p' : parser) : Prop :=
  same_errs (lx p) (lx p') /\ depth p' = depth p /\ oof p' = oof p.
Lemma pframe_refl p : pframe p p. Proof. repeat split. Qed.
Lemma pframe_trans a b c : pframe a b -> pframe b c -> pframe a c.
Proof. intros (A1 & A2 & A3) (B1 & B2 & B3). split; [eapply same_errs_trans; eauto|split; congruence]. Qed.

Lemma is_code t c u : tokq c u t ->
  is_TString t = (match c with TString => true | _ => false end) /\
  is_TUnquoted t = (match c with TUnquoted => true | _ => false end) /\
  (forall d, is_TChar d t = match c with TChar e => (d =? e)%N | _ => false end).
Proof. intros [H _]. unfold is_TString, is_TUnquoted, is_TChar. rewrite H. destruct c; auto. Qed.

(* the concatenation loop *)
Lemma concat_loop_sim text : ~ In EOFR text -> lf_term text -> forall fs pat acc s1 arg s2 c s3,
  pieces fs text pat acc s1 = AOk true arg s2 -> read_token text false s2 = TOk (KPunct c) s3 ->
  forall fm t p, (fs <= fm)%nat -> toks p = [] -> glex text (lx p) s1 -> inPattern (lx p) = pat -> tokq TString acc t ->
  exists t' p', concat_loop fm t p = (Some t', p') /\ tokq TString arg t' /\ ppos text p' s2 /\ pframe p p' /\
                inPattern (lx p') = pat.
Proof.
  intros NE LT. induction fs as [|fs IH]; intros pat acc s1 arg s2 c s3 Hp Hr fm t p Hfm Ht G Hpat Hq; [discriminate|].
  destruct fm as [|fm]; [lia|]. cbn [pieces] in Hp. cbn [concat_loop].
  pose proof (raw_sim text p s1 NE LT G) as R1. rewrite Hpat in R1.
  destruct (read_token text pat s1) as [[u|u|c1|] s1'| |] eqn:E1; try discriminate.
  - (* an unquoted token: must be + *)
    destruct R1 as (nt & p1 & -> & M1 & SE1 & (F1a & F1b & F1c) & G1).
    destruct (is_code _ _ _ M1) as (_ & -> & _). destruct M1 as [_ M1t]. rewrite M1t. cbn [andb].
    destruct (str_eqb u s_plus) eqn:Eplus.
    + pose proof (raw_sim text p1 s1' NE LT G1) as R2.
      assert (Hpat1 : inPattern (lx p1) = pat) by (destruct SE1 as (_ & _ & ->); exact Hpat). rewrite Hpat1 in R2.
      destruct (read_token text pat s1') as [[v|v|c2|] s2'| |] eqn:E2; try discriminate.
      destruct R2 as (nnt & p2 & -> & M2 & SE2 & (F2a & F2b & F2c) & G2).
      destruct (is_code _ _ _ M2) as (-> & _ & _).
      destruct (IH pat (acc ++ v) s2' arg s2 c s3 Hp Hr fm (set_text t (t_text t ++ t_text nnt)) p2 ltac:(lia)) as (t' & p' & A & B & C & D & E).
      * rewrite F2a, F1a. exact Ht.
      * exact G2.
      * destruct SE2 as (_ & _ & ->). exact Hpat1.
      * destruct Hq as [Hq1 Hq2]. destruct M2 as [_ M2t]. split; [exact Hq1|]. cbn [set_text t_text]. rewrite Hq2, M2t. reflexivity.
      * exists t', p'. split; [exact A|split; [exact B|split; [exact C|split; [|exact E]]]].
        eapply pframe_trans; [|exact D]. eapply pframe_trans; [split; [exact SE1|split; assumption]|split; [exact SE2|split; assumption]].
    + (* not a + : then it would have to be the punctuation that follows; impossible *)
      injection Hp as <- <-. rewrite (read_token_punct_indep text pat s1 c s3 Hr) in E1. discriminate.
  - injection Hp as <- <-. rewrite (read_token_punct_indep text pat s1 c s3 Hr) in E1. discriminate.
  - (* the punctuation that follows the argument: pushed back *)
    injection Hp as <- <-. rewrite (read_token_punct_indep text pat s1 c s3 Hr) in E1. injection E1 as <- <-.
    destruct R1 as (nt & p1 & -> & M1 & SE1 & (F1a & F1b & F1c) & G1).
    destruct (is_code _ _ _ M1) as (_ & -> & _). cbn [andb].
    exists t, (with_toks p1 (nt :: toks p1)). split; [reflexivity|]. split; [exact Hq|]. split.
    + apply (PP_pushed text _ s1 nt c s3); [cbn [with_toks toks]; rewrite F1a, Ht; reflexivity|exact M1|exact Hr|exact G1].
    + split; [split; [exact SE1|split; assumption]|]. cbn [with_toks lx]. destruct SE1 as (_ & _ & ->). exact Hpat.
  - injection Hp as <- <-. rewrite (read_token_punct_indep text pat s1 c s3 Hr) in E1. discriminate.
Qed.

(* pnext on a token that is not a quoted string *)
Lemma pnext_plain text p s k s' : ~ In EOFR text -> lf_term text -> ppos text p s ->
  read_token text (inPattern (lx p)) s = TOk k s' -> (forall u, k <> KStr u) ->
  match k with
  | KEnd => exists p', pnext p = (None, p') /\ pframe p p' /\ toks p' = []
  | _ => exists t p', pnext p = (Some t, p') /\ tok_matches k t /\ pframe p p' /\ toks p' = [] /\ glex text (lx p') s'
  end.
Proof.
  intros NE LT P Hr Hk. destruct P as [Ht G|t c s1 Ht Hq Hr' G].
  - unfold pnext. rewrite Ht. pose proof (raw_sim text p s NE LT G) as R. rewrite Hr in R.
    destruct k as [u|u|c|]; cbn [raw_result] in R.
    + destruct R as (t & p' & -> & M & SE & (F1 & F2 & F3) & G'). destruct (is_code _ _ _ M) as (-> & _).
      exists t, p'. split; [reflexivity|]. split; [exact M|]. split; [split; [exact SE|split; assumption]|].
      split; [rewrite F1; exact Ht|exact G'].
    + exfalso. apply (Hk u). reflexivity.
    + destruct R as (t & p' & -> & M & SE & (F1 & F2 & F3) & G'). destruct (is_code _ _ _ M) as (-> & _).
      exists t, p'. split; [reflexivity|]. split; [exact M|]. split; [split; [exact SE|split; assumption]|].
      split; [rewrite F1; exact Ht|exact G'].
    + destruct R as (p' & -> & SE & (F1 & F2 & F3) & _). exists p'. split; [reflexivity|].
      split; [split; [exact SE|split; assumption]|rewrite F1; exact Ht].
  - rewrite (read_token_punct_indep text _ s c s1 Hr') in Hr. injection Hr as <- <-.
    unfold pnext. rewrite Ht. exists t, (with_toks p []). split; [reflexivity|]. split; [exact Hq|].
    split; [repeat split|]. split; [reflexivity|exact G].
Qed.

(* the optional argument and the token after it *)
Definition read_arg (p : parser) (pat : bool) : bool * str * option token * parser :=
  let p := with_lx p (with_inPattern (lx p) pat) in
  let (t2, p) := pnext p in
  let p := with_lx p (with_inPattern (lx p) false) in
  match t2 with
  | Some a => if is_TString a || is_TUnquoted a
              then let (t3, p) := pnext p in (true, t_text a, t3, p)
              else (false, [], t2, p)
  | None => (false, [], t2, p)
  end.

Lemma ns_tail_eq f t p : ns_tail f t p =
  let '(has, arg, t3, p) := read_arg p (str_eqb (t_text t) s_pattern) in
  match t3 with
  | None => (RNil, add_err p None EUnexpectedEOF None)
  | Some t3 =>
    if is_TChar cSEMI t3 then (RStmt (Stmt (t_text t) has arg (t_line t) (t_col t) (t_off t) []), p)
    else if is_TChar cLB t3 then
      subs_loop (nextStatement f) (fun l => Stmt (t_text t) has arg (t_line t) (t_col t) (t_off t) l) f
        {| lx := lx p; toks := toks p; depth := depth p + 1; hb_line := hb_line p;
           hb_col := hb_col p; hb_off := hb_off p; oof := oof p |} []
    else (RIgnore, add_err p (tok_pos t3) ESyntax (Some (t_off t3)))
  end.
Proof.
  unfold ns_tail, read_arg. cbv zeta.
  destruct (pnext (with_lx p (with_inPattern (lx p) (str_eqb (t_text t) s_pattern)))) as [t2 p1].
  destruct t2 as [a|]; [|reflexivity]. destruct (is_TString a || is_TUnquoted a); [|reflexivity].
  destruct (pnext (with_lx p1 (with_inPattern (lx p1) false))) as [t3 p2]. reflexivity.
Qed.

Lemma glex_inPattern text l s b : glex text l s -> glex text (with_inPattern l b) s.
Proof. intros (A & B & C & D). repeat split; auto; apply C. Qed.

Lemma pieces_has text pat : forall f acc s has arg s2, pieces f text pat acc s = AOk has arg s2 -> has = true.
Proof.
  induction f as [|f IH]; intros acc s has arg s2 H; [discriminate|]. cbn [pieces] in H.
  destruct (read_token text pat s) as [[u|u|c|] s1| |]; try discriminate; try (injection H as <- _ _; reflexivity).
  destruct (str_eqb u s_plus); [|injection H as <- _ _; reflexivity].
  destruct (read_token text pat s1) as [[v|v|c|] s1'| |]; try discriminate. eapply IH; eauto.
Qed.

Lemma read_arg_sim text p s1 pat has arg s2 c s3 : ~ In EOFR text -> lf_term text ->
  toks p = [] -> glex text (lx p) s1 ->
  argument text pat s1 = AOk has arg s2 -> read_token text false s2 = TOk (KPunct c) s3 ->
  exists t3 p', read_arg p pat = (has, arg, Some t3, p') /\ tokq (TChar c) [c] t3 /\
                toks p' = [] /\ glex text (lx p') s3 /\ inPattern (lx p') = false /\
                errs (lx p') = errs (lx p) /\ errcnt (lx p') = errcnt (lx p) /\ depth p' = depth p /\ oof p' = oof p.
Proof.
  intros NE LT Ht G Ha Hr. unfold read_arg. cbv zeta.
  set (p0 := with_lx p (with_inPattern (lx p) pat)).
  assert (G0 : glex text (lx p0) s1) by (apply glex_inPattern; exact G).
  assert (P0 : ppos text p0 s1) by (apply PP_direct; [exact Ht|exact G0]).
  unfold argument in Ha.
  destruct (read_token text pat s1) as [[u|u|c1|] s1'| |] eqn:E1; try discriminate.
  - (* unquoted argument *)
    injection Ha as <- <- <-.
    destruct (pnext_plain text p0 s1 (KUnq u) s1' NE LT P0 E1 ltac:(discriminate)) as (t2 & p1 & -> & M & (SE & D1 & O1) & T1 & G1).
    destruct (is_code _ _ _ M) as (_ & -> & _). rewrite orb_true_r.
    set (p2 := with_lx p1 (with_inPattern (lx p1) false)).
    assert (P2 : ppos text p2 s1') by (apply PP_direct; [exact T1|apply glex_inPattern; exact G1]).
    destruct (pnext_plain text p2 s1' (KPunct c) s3 NE LT P2 Hr ltac:(discriminate)) as (t3 & p3 & -> & M3 & (SE3 & D3 & O3) & T3 & G3).
    exists t3, p3. destruct M as [_ ->]. split; [reflexivity|]. split; [exact M3|]. split; [exact T3|]. split; [exact G3|].
    destruct SE as (S1 & S2 & S3). destruct SE3 as (S4 & S5 & S6).
    unfold p2, p0 in *. cbn [with_lx lx with_inPattern errs errcnt inPattern depth oof] in *.
    repeat split; congruence.
  - (* quoted pieces *)
    unfold pnext at 1. change (toks p0) with (toks p). rewrite Ht.
    pose proof (raw_sim text p0 s1 NE LT G0) as R. change (inPattern (lx p0)) with pat in R. rewrite E1 in R.
    destruct R as (t2 & p1 & -> & M & SE & (F1 & F2 & F3) & G1).
    destruct (is_code _ _ _ M) as (-> & _).
    assert (Hp1 : inPattern (lx p1) = pat) by (destruct SE as (_ & _ & ->); reflexivity).
    assert (Hhas : has = true) by (eapply pieces_has; eauto). subst has.
    assert (Hfm : (S (length s1') <= S (length (after (cu (lx p1)))))%nat) by (destruct G1 as (_ & _ & _ & ->); lia).
    destruct (concat_loop_sim text NE LT _ pat u s1' arg s2 c s3 Ha Hr (S (length (after (cu (lx p1))))) t2 p1 Hfm
                ltac:(rewrite F1; exact Ht) G1 Hp1 M) as (t' & p' & -> & B & C & (SE' & D' & O') & E).
    destruct (is_code _ _ _ B) as (-> & _). cbn [orb].
    set (p2 := with_lx p' (with_inPattern (lx p') false)).
    assert (P2 : ppos text p2 s2).
    { destruct C as [Ct Cg|tt cc ss Ct Cq Cr Cg].
      - apply PP_direct; [exact Ct|apply glex_inPattern; exact Cg].
      - apply (PP_pushed text p2 s2 tt cc ss); [exact Ct|exact Cq|exact Cr|apply glex_inPattern; exact Cg]. }
    destruct (pnext_plain text p2 s2 (KPunct c) s3 NE LT P2 Hr ltac:(discriminate)) as (t3 & p3 & -> & M3 & (SE3 & D3 & O3) & T3 & G3).
    exists t3, p3. destruct B as [_ ->]. split; [reflexivity|]. split; [exact M3|]. split; [exact T3|]. split; [exact G3|].
    destruct SE as (S1 & S2 & S3). destruct SE' as (S1' & S2' & S3'). destruct SE3 as (S4 & S5 & S6).
    unfold p2, p0 in *. cbn [with_lx lx with_inPattern errs errcnt inPattern depth oof] in *.
    repeat split; congruence.
  - (* no argument: punctuation *)
    injection Ha as <- <- <-. rewrite (read_token_punct_indep text pat s1 c s3 Hr) in E1. injection E1 as <- <-.
    destruct (pnext_plain text p0 s1 (KPunct c) s3 NE LT P0 (read_token_punct_indep text pat s1 c s3 Hr) ltac:(discriminate))
      as (t2 & p1 & -> & M & (SE & D1 & O1) & T1 & G1).
    destruct (is_code _ _ _ M) as (-> & -> & _). cbn [orb].
    exists t2, (with_lx p1 (with_inPattern (lx p1) false)). split; [reflexivity|]. split; [exact M|]. split; [exact T1|].
    split; [apply glex_inPattern; exact G1|]. destruct SE as (S1 & S2 & S3).
    unfold p0 in *. cbn [with_lx lx with_inPattern errs errcnt inPattern depth oof] in *. repeat split; congruence.
  - (* no argument: end of text; then no punctuation follows *)
    injection Ha as <- <- <-. rewrite (read_token_punct_indep text pat s1 c s3 Hr) in E1. discriminate.
Qed.

(* calling nextStatement again and again from [p] yields the statements [ss] and then [r] *)
Inductive reads (mf : nat) : parser -> list stmt -> sres -> parser -> Prop :=
| reads_end p r p' : nextStatement mf p = (r, p') -> (r = RBrace \/ r = RNil) -> reads mf p [] r p'
| reads_cons p s p1 ss r p' : nextStatement mf p = (RStmt s, p1) -> reads mf p1 ss r p' -> reads mf p (s :: ss) r p'.

Lemma subs_loop_reads mf mk : forall p ss r p', reads mf p ss r p' -> forall n acc, (length ss < n)%nat ->
  subs_loop (nextStatement mf) mk n p acc =
  (match r with RBrace => RStmt (mk (rev acc ++ ss)) | _ => RNil end, p').
Proof.
  induction 1 as [p r p' H Hr|p s p1 ss r p' H _ IH]; intros n acc Hn; (destruct n as [|n]; [cbn in Hn; lia|]); cbn [subs_loop]; rewrite H.
  - destruct Hr as [->| ->]; [rewrite app_nil_r|]; reflexivity.
  - rewrite IH by (cbn [length] in Hn; lia). cbn [rev]. rewrite <- app_assoc. reflexivity.
Qed.

Lemma parse_loop_reads mf : forall p ss p', reads mf p ss RNil p' -> forall n acc, (length ss < n)%nat ->
  parse_loop mf n p acc = (rev acc ++ ss, p').
Proof.
  intros p ss p' H. remember RNil as r eqn:Er. induction H as [p r p' H Hr|p s p1 ss r p' H _ IH]; intros n acc Hn;
    (destruct n as [|n]; [cbn in Hn; lia|]); cbn [parse_loop]; rewrite H.
  - subst r. rewrite app_nil_r. reflexivity.
  - rewrite (IH Er) by (cbn [length] in Hn; lia). cbn [rev]. rewrite <- app_assoc. reflexivity.
Qed.

Definition pframe' (p p' : parser) : Prop :=
  errs (lx p') = errs (lx p) /\ errcnt (lx p') = errcnt (lx p) /\ oof p' = oof p.

Lemma stmts_sim text : ~ In EOFR text -> lf_term text -> forall fs s nodes closed rest,
  stmts fs text s = POk nodes closed rest ->
  forall p mf, (fs <= mf)%nat -> ppos text p s -> inPattern (lx p) = false ->
  exists ss r p', reads mf p ss r p' /\ map erase ss = nodes /\ (length ss < fs)%nat /\ pframe' p p' /\
    (if closed then r = RBrace /\ ppos text p' rest /\ inPattern (lx p') = false /\ depth p' = depth p - 1
     else r = RNil /\ depth p' = depth p).
Proof.
  intros NE LT. induction fs as [|fs IH]; intros s nodes closed rest Hs p mf Hmf P Hpat; [discriminate|].
  destruct mf as [|mf]; [lia|]. cbn [stmts] in Hs.
  destruct (read_token text false s) as [[kw|u|c|] s1| |] eqn:E1; try discriminate.
  - (* a keyword *)
    destruct (argument text (str_eqb kw s_pattern) s1) as [has arg s2| |] eqn:Ea; try discriminate.
    destruct (read_token text false s2) as [[u|u|c|] s3| |] eqn:E3; try discriminate.
    assert (E1' : read_token text (inPattern (lx p)) s = TOk (KUnq kw) s1) by (rewrite Hpat; exact E1).
    destruct (pnext_plain text p s (KUnq kw) s1 NE LT P E1' ltac:(discriminate)) as (t & p1 & Hn1 & M & (SE1 & D1 & O1) & T1 & G1).
    destruct (is_code _ _ _ M) as (_ & Hu & Hc). destruct M as [_ Mt].
    destruct (read_arg_sim text p1 s1 _ has arg s2 c s3 NE LT T1 G1 Ea E3) as (t3 & p2 & Hra & M3 & T2 & G2 & Hp2 & X1 & X2 & X3 & X4).
    destruct (is_code _ _ _ M3) as (_ & _ & Hc3).
    assert (Hns : nextStatement (S mf) p =
              let '(has, arg, t3, p) := read_arg p1 (str_eqb (t_text t) s_pattern) in
              match t3 with
              | None => (RNil, add_err p None EUnexpectedEOF None)
              | Some t3 =>
                if is_TChar cSEMI t3 then (RStmt (Stmt (t_text t) has arg (t_line t) (t_col t) (t_off t) []), p)
                else if is_TChar cLB t3 then
                  subs_loop (nextStatement mf) (fun l => Stmt (t_text t) has arg (t_line t) (t_col t) (t_off t) l) mf
                    {| lx := lx p; toks := toks p; depth := depth p + 1; hb_line := hb_line p;
                       hb_col := hb_col p; hb_off := hb_off p; oof := oof p |} []
                else (RIgnore, add_err p (tok_pos t3) ESyntax (Some (t_off t3)))
              end).
    { rewrite nextStatement_eq, Hn1. rewrite (Hc cRB). change (cRB =? _)%N with false. cbv iota.
      rewrite Hu. cbn [negb]. apply ns_tail_eq. }
    rewrite Mt, Hra in Hns. rewrite (Hc3 cSEMI), (Hc3 cLB) in Hns.
    assert (SE01 : errs (lx p1) = errs (lx p) /\ errcnt (lx p1) = errcnt (lx p)) by (destruct SE1 as (A & B & _); auto).
    destruct (N.eqb_spec c cSEMI) as [->|Nsemi].
    + (* kw [arg] ; *)
      rewrite N.eqb_refl in Hns.
      destruct (stmts fs text s3) as [f1 cl1 r1| |] eqn:Es3; try discriminate. cbn [pcons] in Hs. injection Hs as <- <- <-.
      destruct (IH s3 f1 cl1 r1 Es3 p2 (S mf) ltac:(lia) (PP_direct text p2 s3 T2 G2) Hp2) as (ss & r & p' & R & Em & Hl & (Y1 & Y2 & Y3) & Hcl).
      exists (Stmt kw has arg (t_line t) (t_col t) (t_off t) [] :: ss), r, p'.
      split; [eapply reads_cons; [exact Hns|exact R]|]. split; [cbn [map erase]; rewrite Em; reflexivity|].
      split; [cbn [length]; lia|]. split; [repeat split; destruct SE01; congruence|].
      destruct cl1; [destruct Hcl as (A & B & C & D); repeat split; auto; congruence|destruct Hcl as (A & D); split; [exact A|congruence]].
    + destruct (N.eqb_spec c cLB) as [->|Nlb]; [|discriminate].
      (* kw [arg] { ... } *)
      destruct (stmts fs text s3) as [subs cl1 s4| |] eqn:Es3; try discriminate. destruct cl1; [|discriminate].
      destruct (stmts fs text s4) as [f2 cl2 r2| |] eqn:Es4; try discriminate. cbn [pcons] in Hs. injection Hs as <- <- <-.
      set (p3 := {| lx := lx p2; toks := toks p2; depth := depth p2 + 1; hb_line := hb_line p2;
                    hb_col := hb_col p2; hb_off := hb_off p2; oof := oof p2 |}) in *.
      destruct (IH s3 subs true s4 Es3 p3 mf ltac:(lia) (PP_direct text p3 s3 T2 G2) Hp2) as (ss1 & r1 & p4 & R1 & Em1 & Hl1 & (Y1 & Y2 & Y3) & (-> & P4 & Hp4 & D4)).
      rewrite (subs_loop_reads mf _ p3 ss1 RBrace p4 R1 mf [] ltac:(lia)) in Hns. cbn [rev app] in Hns.
      destruct (IH s4 f2 cl2 r2 Es4 p4 (S mf) ltac:(lia) P4 Hp4) as (ss & r & p' & R & Em & Hl & (Z1 & Z2 & Z3) & Hcl).
      exists (Stmt kw has arg (t_line t) (t_col t) (t_off t) ss1 :: ss), r, p'.
      split; [eapply reads_cons; [exact Hns|exact R]|]. split; [cbn [map erase]; rewrite Em, Em1; reflexivity|].
      split; [cbn [length]; lia|].
      cbn [p3 lx depth oof] in *.
      split; [repeat split; destruct SE01; congruence|].
      destruct cl2; [destruct Hcl as (A & B & C & D); repeat split; auto; lia|destruct Hcl as (A & D); split; [exact A|lia]].
  - (* } *)
    destruct (N.eqb_spec c cRB) as [->|]; [|discriminate]. injection Hs as <- <- <-.
    assert (E1' : read_token text (inPattern (lx p)) s = TOk (KPunct cRB) s1) by (rewrite Hpat; exact E1).
    destruct (pnext_plain text p s (KPunct cRB) s1 NE LT P E1' ltac:(discriminate)) as (t & p1 & Hn1 & M & (SE1 & D1 & O1) & T1 & G1).
    destruct (is_code _ _ _ M) as (_ & _ & Hc).
    set (p2 := {| lx := lx p1; toks := toks p1; depth := depth p1 - 1; hb_line := t_line t; hb_col := t_col t;
                  hb_off := t_off t; oof := oof p1 |}).
    exists [], RBrace, p2. split.
    + apply reads_end; [|left; reflexivity]. rewrite nextStatement_eq, Hn1, (Hc cRB), N.eqb_refl. reflexivity.
    + split; [reflexivity|]. split; [cbn; lia|]. destruct SE1 as (A & B & C).
      split; [repeat split; assumption|]. split; [reflexivity|]. split; [apply PP_direct; [exact T1|exact G1]|].
      split; [cbn [p2 lx]; congruence|cbn [p2 depth]; lia].
  - (* end of text *)
    injection Hs as <- <- <-.
    assert (E1' : read_token text (inPattern (lx p)) s = TOk KEnd s1) by (rewrite Hpat; exact E1).
    destruct (pnext_plain text p s KEnd s1 NE LT P E1' ltac:(discriminate)) as (p1 & Hn1 & (SE1 & D1 & O1) & T1).
    exists [], RNil, p1. split.
    + apply reads_end; [|right; reflexivity]. rewrite nextStatement_eq, Hn1. reflexivity.
    + split; [reflexivity|]. split; [cbn; lia|]. destruct SE1 as (A & B & C). split; [repeat split; assumption|].
      split; [reflexivity|exact D1].
Qed.

Lemma terminated_lf input : lf_term (terminated input).
Proof.
  unfold terminated. destruct (rev input) as [|c r] eqn:E; [left; destruct input; [reflexivity|]|].
  - apply (f_equal (@length rune)) in E. rewrite rev_length in E. discriminate.
  - destruct (N.eqb_spec c cLF) as [->|]; right; [|eexists; reflexivity].
    exists (rev r). rewrite <- (rev_involutive input), E. reflexivity.
Qed.
Lemma terminated_in input c : In c (terminated input) -> In c input \/ c = cLF.
Proof.
  unfold terminated. destruct (rev input) as [|x r]; [auto|]. destruct (x =? cLF)%N; [auto|].
  intro H. apply in_app_or in H. destruct H as [H|[H|[]]]; auto.
Qed.
Lemma terminated_length input : (length (terminated input) <= S (length input))%nat.
Proof.
  unfold terminated. destruct (rev input) as [|x r]; [lia|]. destruct (x =? cLF)%N; [lia|]. rewrite app_length. cbn. lia.
Qed.

Theorem Parse_accepts input f : ~ In EOFR input -> spec_parse (terminated input) = Accept f ->
  exists ss, Parse input = (ss, [], false) /\ map erase ss = f.
Proof.
  intros NE0 H. set (T := terminated input) in *.
  assert (NE : ~ In EOFR T).
  { intro Q. destruct (terminated_in _ _ Q) as [Q'|Q']; [exact (NE0 Q')|vm_compute in Q'; discriminate Q']. }
  pose proof (terminated_lf input) as LT. fold T in LT.
  unfold spec_parse in H. destruct (stmts (S (length T)) T T) as [f0 cl rest| |] eqn:Es; try discriminate.
  destruct cl; [discriminate|]. injection H as <-.
  assert (P0 : ppos T (newParser input) T).
  { apply PP_direct; [reflexivity|]. split; [reflexivity|]. split; [reflexivity|]. split; [|reflexivity].
    destruct (newParser_inv input) as [(_ & _ & L) _]. exact L. }
  assert (Hmf : (S (length T) <= parse_fuel input)%nat).
  { unfold parse_fuel. pose proof (terminated_length input). fold T in H. lia. }
  destruct (stmts_sim T NE LT _ _ _ _ _ Es (newParser input) (parse_fuel input) Hmf P0 eq_refl)
    as (ss & r & p' & R & Em & Hl & (Y1 & Y2 & Y3) & (-> & D)).
  exists ss. split; [|exact Em].
  unfold Parse. cbv zeta.
  rewrite (parse_loop_reads _ _ _ _ R (parse_fuel input) [] ltac:(lia)). cbn [rev app].
  change (errs (lx (newParser input))) with (@nil perr) in Y1. change (oof (newParser input)) with false in Y3.
  change (depth (newParser input)) with 0 in D.
  rewrite Y1, D. cbn. rewrite Y1, Y3. reflexivity.
Qed.

Definition pkeeps (p p' : parser) : Prop := keeps (lx p) (lx p').
Lemma pkeeps_refl p : pkeeps p p. Proof. apply keeps_refl. Qed.
Lemma pkeeps_trans a b c : pkeeps a b -> pkeeps b c -> pkeeps a c.
Proof. apply keeps_trans. Qed.

Ltac pk_same := unfold pkeeps; apply keeps_same; reflexivity.

Lemma raw_next_keeps fuel : forall p t p', raw_next fuel p = (t, p') -> pkeeps p p'.
Proof.
  induction fuel as [|f IH]; intros p t p' H; cbn [raw_next] in H; [injection H as _ <-; pk_same|].
  destruct (NextToken (lex_fuel (lx p)) (lx p)) as [r l] eqn:Hn. pose proof (NextToken_keeps _ _ _ _ Hn) as K.
  destruct r as [[t0|]|]; try (injection H as _ <-; exact K).
  destruct (is_TError t0); [|injection H as _ <-; exact K].
  eapply pkeeps_trans; [|eapply IH; exact H]. exact K.
Qed.
Lemma raw_keeps p t p' : raw p = (t, p') -> pkeeps p p'.
Proof. apply raw_next_keeps. Qed.

Lemma concat_loop_keeps fuel : forall t p r p', concat_loop fuel t p = (r, p') -> pkeeps p p'.
Proof.
  induction fuel as [|f IH]; intros t p r p' H; cbn [concat_loop] in H; [injection H as _ <-; pk_same|].
  destruct (raw p) as [nt p1] eqn:H1. pose proof (raw_keeps _ _ _ H1) as K1.
  destruct nt as [nt'|]; [|injection H as _ <-; exact K1].
  destruct (is_TUnquoted nt' && str_eqb (t_text nt') s_plus); [|injection H as _ <-; exact K1].
  destruct (raw p1) as [nnt p2] eqn:H2. pose proof (raw_keeps _ _ _ H2) as K2.
  destruct nnt as [nnt'|]; [|injection H as _ <-; eapply pkeeps_trans; eauto].
  destruct (is_TString nnt'); [|injection H as _ <-; eapply pkeeps_trans; eauto].
  eapply pkeeps_trans; [exact K1|]. eapply pkeeps_trans; [exact K2|]. eapply IH; exact H.
Qed.

Lemma pnext_keeps p r p' : pnext p = (r, p') -> pkeeps p p'.
Proof.
  unfold pnext. destruct (toks p); [|intro H; injection H as _ <-; pk_same].
  destruct (raw p) as [t p1] eqn:H1. pose proof (raw_keeps _ _ _ H1) as K1.
  destruct t as [t'|]; [|intro H; injection H as _ <-; exact K1].
  destruct (is_TString t'); [|intro H; injection H as _ <-; exact K1].
  intro H. eapply pkeeps_trans; [exact K1|eapply concat_loop_keeps; exact H].
Qed.

Lemma add_err_nonempty p pos k subj : errs (lx (add_err p pos k subj)) <> [].
Proof. discriminate. Qed.

Lemma subs_loop_keeps ns mk : (forall p r p', ns p = (r, p') -> pkeeps p p') ->
  forall n p acc r p', subs_loop ns mk n p acc = (r, p') -> pkeeps p p'.
Proof.
  intros Hns. induction n as [|n IH]; intros p acc r p' H; cbn [subs_loop] in H; [injection H as _ <-; pk_same|].
  destruct (ns p) as [r1 p1] eqn:H1. pose proof (Hns _ _ _ H1) as K1.
  destruct r1; try (injection H as _ <-; exact K1); (eapply pkeeps_trans; [exact K1|eapply IH; exact H]).
Qed.

Lemma nextStatement_keeps fuel : forall p r p', nextStatement fuel p = (r, p') -> pkeeps p p'.
Proof.
  induction fuel as [|f IH]; intros p r p' H; [cbn [nextStatement] in H; injection H as _ <-; pk_same|].
  rewrite nextStatement_eq in H.
  destruct (pnext p) as [t p1] eqn:H1. pose proof (pnext_keeps _ _ _ H1) as K1.
  destruct t as [t|]; [|injection H as _ <-; exact K1].
  destruct (is_TChar cRB t); [injection H as _ <-; exact K1|].
  destruct (negb (is_TUnquoted t)); [injection H as _ <-; intros _; apply add_err_nonempty|].
  unfold ns_tail in H. cbv zeta in H.
  destruct (pnext (with_lx p1 (with_inPattern (lx p1) (str_eqb (t_text t) s_pattern)))) as [t2 p3] eqn:H3.
  pose proof (pnext_keeps _ _ _ H3) as K3.
  assert (K13 : pkeeps p (with_lx p3 (with_inPattern (lx p3) false))).
  { eapply pkeeps_trans; [exact K1|]. intro Q. apply K3. exact Q. }
  set (p4 := with_lx p3 (with_inPattern (lx p3) false)) in *.
  assert (Tail : forall has arg t3 p5, pkeeps p p5 ->
            match t3 with
            | None => (RNil, add_err p5 None EUnexpectedEOF None)
            | Some t3 =>
              if is_TChar cSEMI t3 then (RStmt (Stmt (t_text t) has arg (t_line t) (t_col t) (t_off t) []), p5)
              else if is_TChar cLB t3 then
                subs_loop (nextStatement f) (fun l => Stmt (t_text t) has arg (t_line t) (t_col t) (t_off t) l) f
                  {| lx := lx p5; toks := toks p5; depth := depth p5 + 1; hb_line := hb_line p5;
                     hb_col := hb_col p5; hb_off := hb_off p5; oof := oof p5 |} []
              else (RIgnore, add_err p5 (tok_pos t3) ESyntax (Some (t_off t3)))
            end = (r, p') -> pkeeps p p').
  { intros has arg t3 p5 K5 Q. destruct t3 as [t3|]; [|injection Q as _ <-; intros _; apply add_err_nonempty].
    destruct (is_TChar cSEMI t3); [injection Q as _ <-; exact K5|].
    destruct (is_TChar cLB t3); [|injection Q as _ <-; intros _; apply add_err_nonempty].
    eapply pkeeps_trans; [exact K5|]. pose proof (subs_loop_keeps _ _ IH _ _ _ _ _ Q) as K6. exact K6. }
  destruct t2 as [a|].
  - destruct (is_TString a || is_TUnquoted a).
    + destruct (pnext p4) as [t3 p5] eqn:H5. pose proof (pnext_keeps _ _ _ H5) as K5.
      apply (Tail true (t_text a) t3 p5 (pkeeps_trans _ _ _ K13 K5) H).
    + apply (Tail false [] (Some a) p4 K13 H).
  - apply (Tail false [] None p4 K13 H).
Qed.

Lemma parse_loop_keeps fuel : forall n p acc ss p', parse_loop fuel n p acc = (ss, p') -> pkeeps p p'.
Proof.
  induction n as [|n IH]; intros p acc ss p' H; cbn [parse_loop] in H; [injection H as _ <-; pk_same|].
  destruct (nextStatement fuel p) as [r p1] eqn:H1. pose proof (nextStatement_keeps _ _ _ _ H1) as K1.
  destruct r; try (injection H as _ <-; exact K1); try (eapply pkeeps_trans; [exact K1|eapply IH; exact H]).
  intros _. pose proof (IH _ _ _ _ H) as K2. apply K2. apply add_err_nonempty.
Qed.

(* ================================================================ C02: the parser rejects what the reference reader rejects *)
Definition perrs (p : parser) : Prop := errs (lx p) <> [].

Lemma raw_rej text p s : ~ In EOFR text -> lf_term text -> glex text (lx p) s -> errcnt (lx p) = O ->
  read_token text (inPattern (lx p)) s = TReject -> forall t p', raw p = (t, p') -> perrs p'.
Proof.
  intros NE LT G Hc Hr t p' H.
  assert (Hf : (2 * length s + 4 <= lex_fuel (lx p))%nat).
  { unfold lex_fuel. destruct G as (_ & _ & _ & ->). lia. }
  unfold raw, raw_fuel in H. replace (length (after (cu (lx p))) + 12)%nat with (S (length (after (cu (lx p))) + 11)) in H by lia.
  cbn [raw_next] in H.
  destruct (NextToken (lex_fuel (lx p)) (lx p)) as [r l] eqn:Hn.
  pose proof (NextToken_rej text NE LT (length s) s (lx p) _ (le_n _) G Hc Hf Hr _ _ Hn) as E.
  destruct r as [[t0|]|]; try (injection H as _ <-; exact E).
  destruct (is_TError t0); [|injection H as _ <-; exact E].
  apply (raw_next_keeps _ _ _ _ H). exact E.
Qed.

Lemma pnext_rej text p s : ~ In EOFR text -> lf_term text -> ppos text p s -> errcnt (lx p) = O ->
  read_token text (inPattern (lx p)) s = TReject -> forall t p', pnext p = (t, p') -> perrs p'.
Proof.
  intros NE LT P Hc Hr t p' H. destruct P as [Ht G|t0 c s1 Ht Hq Hr' G].
  - unfold pnext in H. rewrite Ht in H. destruct (raw p) as [t1 p1] eqn:H1.
    pose proof (raw_rej text p s NE LT G Hc Hr _ _ H1) as E.
    destruct t1 as [t1|]; [|injection H as _ <-; exact E].
    destruct (is_TString t1); [|injection H as _ <-; exact E].
    apply (concat_loop_keeps _ _ _ _ _ H). exact E.
  - rewrite (read_token_punct_indep text _ s c s1 Hr') in Hr. discriminate.
Qed.

(* a quoted string where the parser asks for a token: what comes back is a string token *)
Lemma concat_loop_code fuel : forall t p r p', concat_loop fuel t p = (r, p') -> exists t', r = Some t' /\ t_code t' = t_code t.
Proof.
  induction fuel as [|f IH]; intros t p r p' H; cbn [concat_loop] in H; [injection H as <- _; eauto|].
  destruct (raw p) as [nt p1]. destruct nt as [nt'|]; [|injection H as <- _; eauto].
  destruct (is_TUnquoted nt' && str_eqb (t_text nt') s_plus); [|injection H as <- _; eauto].
  destruct (raw p1) as [nnt p2]. destruct nnt as [nnt'|]; [|injection H as <- _; eauto].
  destruct (is_TString nnt'); [|injection H as <- _; eauto].
  destruct (IH _ _ _ _ H) as (t' & A & B). exists t'. split; [exact A|exact B].
Qed.

Lemma pnext_string text p s u s1 : ~ In EOFR text -> lf_term text -> ppos text p s ->
  read_token text (inPattern (lx p)) s = TOk (KStr u) s1 ->
  exists t' p1, pnext p = (Some t', p1) /\ t_code t' = TString /\ pkeeps p p1.
Proof.
  intros NE LT P Hr. destruct P as [Ht G|t0 c s2 Ht Hq Hr' G].
  - pose proof (raw_sim text p s NE LT G) as R. rewrite Hr in R.
    destruct R as (t & p1 & E & M & SE & _ & _).
    destruct (pnext p) as [r p2] eqn:Hp. pose proof (pnext_keeps _ _ _ Hp) as K.
    unfold pnext in Hp. rewrite Ht, E in Hp. destruct (is_code _ _ _ M) as (Hs & _). rewrite Hs in Hp.
    destruct (concat_loop_code _ _ _ _ _ Hp) as (t' & -> & Hc). exists t', p2. split; [reflexivity|]. split; [|exact K].
    rewrite Hc. apply M.
  - rewrite (read_token_punct_indep text _ s c s2 Hr') in Hr. discriminate.
Qed.

(* the token after the argument that makes the statement reader report an error *)
Definition bad_t3 (t3 : option token) : Prop :=
  match t3 with None => True | Some t => is_TChar cSEMI t = false /\ is_TChar cLB t = false end.

Lemma tok_not_open k t : tok_matches k t -> k <> KPunct cSEMI -> k <> KPunct cLB -> bad_t3 (Some t).
Proof.
  intros M N1 N2. destruct k as [u|u|c|]; cbn in M; try contradiction.
  - destruct (is_code _ _ _ M) as (_ & _ & H). split; apply H.
  - destruct (is_code _ _ _ M) as (_ & _ & H). split; apply H.
  - destruct (is_code _ _ _ M) as (_ & _ & H). split; rewrite H; apply N.eqb_neq; intros <-; [apply N1|apply N2]; reflexivity.
Qed.

Lemma read_token_punct_indep' text pat s c s3 :
  read_token text pat s = TOk (KPunct c) s3 -> read_token text false s = TOk (KPunct c) s3.
Proof.
  unfold read_token. destruct (skip InGap s) as [[|c0 r]|]; try discriminate.
  destruct (punct c0); [auto|]. destruct (c0 =? cSQ)%N; [destruct (squoted r) as [[u s']|]; discriminate|].
  destruct (c0 =? cDQ)%N.
  - destruct (dquoted pat _ r); discriminate.
  - destruct (unquoted (c0 :: r)) as [u s']. destruct (opener_in (tl u)); discriminate.
Qed.
Lemma read_token_end_indep' text pat s s3 :
  read_token text pat s = TOk KEnd s3 -> read_token text false s = TOk KEnd s3.
Proof.
  unfold read_token. destruct (skip InGap s) as [[|c0 r]|]; try discriminate; [auto|].
  destruct (punct c0); [discriminate|]. destruct (c0 =? cSQ)%N; [destruct (squoted r) as [[u s']|]; discriminate|].
  destruct (c0 =? cDQ)%N.
  - destruct (dquoted pat _ r); discriminate.
  - destruct (unquoted (c0 :: r)) as [u s']. destruct (opener_in (tl u)); discriminate.
Qed.

Definition notopen (R : tres) : Prop :=
  R <> TAmbiguous /\ (forall s3, R <> TOk (KPunct cSEMI) s3) /\ (forall s3, R <> TOk (KPunct cLB) s3).

Lemma pnext_bad text p s : ~ In EOFR text -> lf_term text -> ppos text p s -> errcnt (lx p) = O ->
  notopen (read_token text (inPattern (lx p)) s) ->
  forall t3 p', pnext p = (t3, p') -> perrs p' \/ bad_t3 t3.
Proof.
  intros NE LT P Hc (N0 & N1 & N2) t3 p' H.
  destruct (read_token text (inPattern (lx p)) s) as [k s'| |] eqn:Hr; [| |contradiction].
  - destruct k as [u|u|c|].
    + destruct (pnext_plain text p s (KUnq u) s' NE LT P Hr ltac:(discriminate)) as (t & p1 & E & M & _).
      rewrite E in H. injection H as <- <-. right. apply (tok_not_open _ _ M); discriminate.
    + destruct (pnext_string text p s u s' NE LT P Hr) as (t & p1 & E & Hcode & _).
      rewrite E in H. injection H as <- <-. right. unfold bad_t3, is_TChar. rewrite Hcode. auto.
    + destruct (pnext_plain text p s (KPunct c) s' NE LT P Hr ltac:(discriminate)) as (t & p1 & E & M & _).
      rewrite E in H. injection H as <- <-. right. apply (tok_not_open _ _ M); intro Q; injection Q as ->; [apply (N1 s')|apply (N2 s')]; reflexivity.
    + destruct (pnext_plain text p s KEnd s' NE LT P Hr ltac:(discriminate)) as (p1 & E & _).
      rewrite E in H. injection H as <- <-. right. exact I.
  - left. eapply pnext_rej; eauto.
Qed.

Lemma str_eqb_eq a : forall b, str_eqb a b = true -> a = b.
Proof.
  induction a as [|x a IH]; intros [|y b] H; cbn [str_eqb] in H; try discriminate; [reflexivity|].
  apply andb_true_iff in H. destruct H as [H1 H2]. apply N.eqb_eq in H1. subst. f_equal. apply IH. exact H2.
Qed.

(* what the concatenation loop leaves behind, whatever follows the quoted pieces *)
Definition lookahead_left (text : str) (pat : bool) (p' : parser) (s2 : str) : Prop :=
  match read_token text pat s2 with
  | TOk KEnd _ => toks p' = [] /\ state (lx p') = SDone /\ items (lx p') = []
  | TOk k _ => exists nt, toks p' = [nt] /\ tok_matches k nt
  | _ => True
  end.

Definition concat_result (text : str) (pat : bool) (res : option token * parser) (a : ares) : Prop :=
  match a with
  | AAmbiguous => True
  | AReject => perrs (snd res) \/ exists nt rest, toks (snd res) = nt :: rest /\ tokq TUnquoted s_plus nt
  | AOk _ arg s2 => exists t', fst res = Some t' /\ tokq TString arg t' /\ lookahead_left text pat (snd res) s2
  end.

Lemma concat_loop_gen text : ~ In EOFR text -> lf_term text -> forall fs pat acc s1 fm t p,
  (fs <= fm)%nat -> toks p = [] -> glex text (lx p) s1 -> errcnt (lx p) = O -> inPattern (lx p) = pat -> tokq TString acc t ->
  concat_result text pat (concat_loop fm t p) (pieces fs text pat acc s1).
Proof.
  intros NE LT. induction fs as [|fs IH]; intros pat acc s1 fm t p Hfm Ht G Hc Hpat Hq; [exact I|].
  destruct fm as [|fm]; [lia|]. cbn [pieces concat_loop].
  pose proof (raw_sim text p s1 NE LT G) as R1. rewrite Hpat in R1.
  destruct (raw p) as [nt0 p1] eqn:Hraw.
  destruct (read_token text pat s1) as [[u|u|c1|] s1'| |] eqn:E1.
  - destruct R1 as (nt & p1' & Q & M1 & SE1 & (F1a & F1b & F1c) & G1). injection Q as -> <-.
    destruct (is_code _ _ _ M1) as (_ & Hu & _). rewrite Hu. destruct M1 as [M1c M1t]. rewrite M1t. cbn [andb].
    destruct (str_eqb u s_plus) eqn:Eplus.
    + pose proof (raw_sim text p1 s1' NE LT G1) as R2.
      assert (Hpat1 : inPattern (lx p1) = pat) by (destruct SE1 as (_ & _ & ->); exact Hpat). rewrite Hpat1 in R2.
      assert (Hc1 : errcnt (lx p1) = O) by (destruct SE1 as (_ & -> & _); exact Hc).
      assert (Hplus : tokq TUnquoted s_plus nt) by (split; [exact M1c|rewrite M1t; apply str_eqb_eq; exact Eplus]).
      destruct (raw p1) as [nnt0 p2] eqn:Hraw2.
      destruct (read_token text pat s1') as [[v|v|c2|] s2'| |] eqn:E2.
      * destruct R2 as (nnt & p2' & Q & M2 & _). injection Q as -> <-. destruct (is_code _ _ _ M2) as (-> & _).
        right. exists nt, (nnt :: toks p2). split; reflexivity || exact Hplus.
      * destruct R2 as (nnt & p2' & Q & M2 & SE2 & (F2a & F2b & F2c) & G2). injection Q as -> <-.
        destruct (is_code _ _ _ M2) as (-> & _).
        apply (IH pat (acc ++ v) s2' fm (set_text t (t_text t ++ t_text nnt)) p2 ltac:(lia)).
        -- rewrite F2a, F1a. exact Ht.
        -- exact G2.
        -- destruct SE2 as (_ & -> & _). exact Hc1.
        -- destruct SE2 as (_ & _ & ->). exact Hpat1.
        -- destruct Hq as [Hq1 Hq2]. destruct M2 as [_ M2t]. split; [exact Hq1|]. cbn [set_text t_text]. rewrite Hq2, M2t. reflexivity.
      * destruct R2 as (nnt & p2' & Q & M2 & _). injection Q as -> <-. destruct (is_code _ _ _ M2) as (-> & _).
        right. exists nt, (nnt :: toks p2). split; reflexivity || exact Hplus.
      * destruct R2 as (p2' & Q & _). injection Q as -> <-.
        right. exists nt, (toks p2). split; reflexivity || exact Hplus.
      * left. pose proof (raw_rej text p1 s1' NE LT G1 Hc1 ltac:(rewrite Hpat1; exact E2) _ _ Hraw2) as E.
        destruct nnt0 as [nnt'|]; [destruct (is_TString nnt')|]; cbn [snd]; try exact E.
        eapply concat_loop_keeps; [|exact E]. apply surjective_pairing.
      * exact I.
    + exists t. split; [reflexivity|]. split; [exact Hq|]. unfold lookahead_left. rewrite E1.
      exists nt. split; [cbn [snd with_toks toks]; rewrite F1a, Ht; reflexivity|split; assumption].
  - destruct R1 as (nt & p1' & Q & M1 & SE1 & (F1a & F1b & F1c) & G1). injection Q as -> <-.
    destruct (is_code _ _ _ M1) as (_ & Hu & _). rewrite Hu. cbn [andb].
    exists t. split; [reflexivity|]. split; [exact Hq|]. unfold lookahead_left. rewrite E1.
    exists nt. split; [cbn [snd with_toks toks]; rewrite F1a, Ht; reflexivity|exact M1].
  - destruct R1 as (nt & p1' & Q & M1 & SE1 & (F1a & F1b & F1c) & G1). injection Q as -> <-.
    destruct (is_code _ _ _ M1) as (_ & Hu & _). rewrite Hu. cbn [andb].
    exists t. split; [reflexivity|]. split; [exact Hq|]. unfold lookahead_left. rewrite E1.
    exists nt. split; [cbn [snd with_toks toks]; rewrite F1a, Ht; reflexivity|exact M1].
  - destruct R1 as (p1' & Q & SE1 & (F1a & F1b & F1c) & Hs & Hi). injection Q as -> <-.
    exists t. split; [reflexivity|]. split; [exact Hq|]. unfold lookahead_left. rewrite E1.
    split; [cbn [snd]; rewrite F1a; exact Ht|split; assumption].
  - left. pose proof (raw_rej text p s1 NE LT G Hc ltac:(rewrite Hpat; exact E1) _ _ Hraw) as E.
    destruct nt0 as [nt'|]; [|exact E].
    destruct (is_TUnquoted nt' && str_eqb (t_text nt') s_plus); [|exact E].
    destruct (raw p1) as [nnt p2] eqn:Hraw2. pose proof (raw_keeps _ _ _ Hraw2 E) as E2.
    destruct nnt as [nnt'|]; [|exact E2]. destruct (is_TString nnt'); [|exact E2].
    eapply concat_loop_keeps; [|exact E2]. apply surjective_pairing.
  - exact I.
Qed.

Lemma pnext_pop p t r : toks p = t :: r -> pnext p = (Some t, with_toks p r).
Proof. intro H. unfold pnext. rewrite H. reflexivity. Qed.

Lemma raw_done p : state (lx p) = SDone -> items (lx p) = [] -> exists p', raw p = (None, p').
Proof.
  intros Hs Hi. unfold raw, raw_fuel. replace (length (after (cu (lx p))) + 12)%nat with (S (length (after (cu (lx p))) + 11)) by lia.
  cbn [raw_next]. rewrite (NextToken_done _ _ Hi Hs). eexists; reflexivity.
Qed.

Lemma pieces_lookahead text pat : forall f acc s has arg s2, pieces f text pat acc s = AOk has arg s2 ->
  exists k s3, read_token text pat s2 = TOk k s3.
Proof.
  induction f as [|f IH]; intros acc s has arg s2 H; [discriminate|]. cbn [pieces] in H.
  destruct (read_token text pat s) as [[u|u|c|] s1| |] eqn:E; try discriminate.
  - destruct (str_eqb u s_plus).
    + destruct (read_token text pat s1) as [[v|v|c|] s1'| |]; try discriminate. eapply IH; eauto.
    + injection H as _ _ <-. eauto.
  - injection H as _ _ <-. eauto.
  - injection H as _ _ <-. eauto.
  - injection H as _ _ <-. eauto.
Qed.

(* the argument reader when the statement cannot go on with ; or { *)
Lemma read_arg_rej text p s1 pat : ~ In EOFR text -> lf_term text ->
  toks p = [] -> glex text (lx p) s1 -> errcnt (lx p) = O ->
  (argument text pat s1 = AReject \/
   exists has arg s2, argument text pat s1 = AOk has arg s2 /\ notopen (read_token text false s2)) ->
  forall has' arg' t3 p', read_arg p pat = (has', arg', t3, p') -> perrs p' \/ bad_t3 t3.
Proof.
  intros NE LT Ht G Hc Hspec has' arg' t3 p' H. unfold read_arg in H. cbv zeta in H.
  set (p0 := with_lx p (with_inPattern (lx p) pat)) in *.
  assert (G0 : glex text (lx p0) s1) by (apply glex_inPattern; exact G).
  assert (P0 : ppos text p0 s1) by (apply PP_direct; [exact Ht|exact G0]).
  assert (Hc0 : errcnt (lx p0) = O) by exact Hc.
  destruct (pnext p0) as [t2 p1] eqn:Hn1.
  unfold argument in Hspec.
  destruct (read_token text pat s1) as [[u|u|c1|] s1'| |] eqn:E1.
  - (* unquoted argument *)
    destruct Hspec as [Q|(has & arg & s2 & Q & NO)]; [discriminate|]. injection Q as <- <- <-.
    destruct (pnext_plain text p0 s1 (KUnq u) s1' NE LT P0 E1 ltac:(discriminate)) as (t & p1' & Q & M & (SE & D1 & O1) & T1 & G1).
    rewrite Hn1 in Q. injection Q as -> <-.
    destruct (is_code _ _ _ M) as (_ & Hu & _). rewrite Hu, orb_true_r in H.
    set (p2 := with_lx p1 (with_inPattern (lx p1) false)) in *.
    destruct (pnext p2) as [t3' p3] eqn:Hn3. injection H as _ _ <- <-.
    apply (pnext_bad text p2 s1' NE LT (PP_direct text p2 s1' T1 (glex_inPattern _ _ _ _ G1))); auto.
    destruct SE as (_ & S2 & _). cbn [p2 with_lx lx with_inPattern errcnt]. rewrite S2. exact Hc.
  - (* quoted pieces *)
    unfold pnext in Hn1. change (toks p0) with (toks p) in Hn1. rewrite Ht in Hn1.
    pose proof (raw_sim text p0 s1 NE LT G0) as R. change (inPattern (lx p0)) with pat in R. rewrite E1 in R.
    destruct R as (ts & pr & Er & M & SE & (F1 & F2 & F3) & G1). rewrite Er in Hn1.
    destruct (is_code _ _ _ M) as (Hs & _). rewrite Hs in Hn1.
    assert (Hpr : inPattern (lx pr) = pat) by (destruct SE as (_ & _ & ->); reflexivity).
    assert (Hcr : errcnt (lx pr) = O) by (destruct SE as (_ & -> & _); exact Hc).
    assert (Hfm : (S (length s1') <= S (length (after (cu (lx pr)))))%nat) by (destruct G1 as (_ & _ & _ & ->); lia).
    pose proof (concat_loop_gen text NE LT _ pat u s1' _ ts pr Hfm ltac:(rewrite F1; exact Ht) G1 Hcr Hpr M) as CR.
    rewrite Hn1 in CR. unfold concat_result in CR. cbn [fst snd] in CR.
    destruct (pieces (S (length s1')) text pat u s1') as [has arg s2| |] eqn:Ep.
    + destruct Hspec as [Q|(has0 & arg0 & s20 & Q & NO)]; [discriminate|]. injection Q as <- <- <-.
      destruct CR as (t' & -> & Mt & LA). destruct (is_code _ _ _ Mt) as (Hs' & _). rewrite Hs' in H. cbn [orb] in H.
      set (p2 := with_lx p1 (with_inPattern (lx p1) false)) in *.
      destruct (pnext p2) as [t3' p3] eqn:Hn3. injection H as _ _ <- <-.
      unfold lookahead_left in LA. destruct NO as (N0 & N1 & N2).
      destruct (read_token text pat s2) as [[v|v|c2|] s3| |] eqn:E2.
      * destruct LA as (nt & Tn & Mn). rewrite (pnext_pop p2 nt [] Tn) in Hn3. injection Hn3 as <- <-.
        right. apply (tok_not_open _ _ Mn); discriminate.
      * destruct LA as (nt & Tn & Mn). rewrite (pnext_pop p2 nt [] Tn) in Hn3. injection Hn3 as <- <-.
        right. apply (tok_not_open _ _ Mn); discriminate.
      * destruct LA as (nt & Tn & Mn). rewrite (pnext_pop p2 nt [] Tn) in Hn3. injection Hn3 as <- <-.
        right. pose proof (read_token_punct_indep' _ _ _ _ _ E2) as E2'.
        apply (tok_not_open _ _ Mn); intro Q; injection Q as ->; [apply (N1 s3)|apply (N2 s3)]; exact E2'.
      * destruct LA as (Tn & Sd & Id).
        destruct (raw_done p2 Sd Id) as (pd & Hd). unfold pnext in Hn3. change (toks p2) with (toks p1) in Hn3.
        rewrite Tn, Hd in Hn3. injection Hn3 as <- <-. right. exact I.
      * destruct (pieces_lookahead _ _ _ _ _ _ _ _ Ep) as (k & s3 & Q). rewrite E2 in Q. discriminate.
      * destruct (pieces_lookahead _ _ _ _ _ _ _ _ Ep) as (k & s3 & Q). rewrite E2 in Q. discriminate.
    + (* the pieces are rejected *)
      destruct (concat_loop_code _ _ _ _ _ Hn1) as (t' & -> & Hcode).
      assert (Hs' : is_TString t' = true) by (unfold is_TString; rewrite Hcode; destruct M as [-> _]; reflexivity).
      rewrite Hs' in H. cbn [orb] in H.
      set (p2 := with_lx p1 (with_inPattern (lx p1) false)) in *.
      destruct (pnext p2) as [t3' p3] eqn:Hn3. injection H as _ _ <- <-.
      destruct CR as [E|(nt & rest & Tn & Mn)].
      * left. apply (pnext_keeps _ _ _ Hn3). exact E.
      * rewrite (pnext_pop p2 nt rest Tn) in Hn3. injection Hn3 as <- <-. right.
        destruct (is_code _ _ _ Mn) as (_ & _ & Hch). split; apply Hch.
    + destruct Hspec as [Q|(has0 & arg0 & s20 & Q & NO)]; discriminate.
  - (* punctuation right after the keyword *)
    destruct Hspec as [Q|(has & arg & s2 & Q & NO)]; [discriminate|]. injection Q as <- <- <-.
    destruct (pnext_plain text p0 s1 (KPunct c1) s1' NE LT P0 E1 ltac:(discriminate)) as (t & p1' & Q & M & _).
    rewrite Hn1 in Q. injection Q as -> <-.
    destruct (is_code _ _ _ M) as (Hs & Hu & _). rewrite Hs, Hu in H. cbn [orb] in H. injection H as _ _ <- <-.
    right. destruct NO as (N0 & N1 & N2). pose proof (read_token_punct_indep' _ _ _ _ _ E1) as E1'.
    apply (tok_not_open _ _ M); intro Q; injection Q as ->; [apply (N1 s1')|apply (N2 s1')]; exact E1'.
  - (* end of text right after the keyword *)
    destruct (pnext_plain text p0 s1 KEnd s1' NE LT P0 E1 ltac:(discriminate)) as (p1' & Q & _).
    rewrite Hn1 in Q. injection Q as -> <-. injection H as _ _ <- <-. right. exact I.
  - (* the argument token is rejected *)
    pose proof (pnext_rej text p0 s1 NE LT P0 Hc0 E1 _ _ Hn1) as E.
    left. destruct t2 as [a|]; [|injection H as _ _ _ <-; exact E].
    destruct (is_TString a || is_TUnquoted a); [|injection H as _ _ _ <-; exact E].
    destruct (pnext (with_lx p1 (with_inPattern (lx p1) false))) as [t3' p3] eqn:Hn3. injection H as _ _ _ <-.
    apply (pnext_keeps _ _ _ Hn3). exact E.
  - destruct Hspec as [Q|(has0 & arg0 & s20 & Q & NO)]; discriminate.
Qed.

Lemma ns_tail_rej f t p r p' : ns_tail f t p = (r, p') ->
  (forall has arg t3 p2, read_arg p (str_eqb (t_text t) s_pattern) = (has, arg, t3, p2) -> perrs p2 \/ bad_t3 t3) ->
  perrs p'.
Proof.
  rewrite ns_tail_eq. intros H Hb.
  destruct (read_arg p (str_eqb (t_text t) s_pattern)) as [[[has arg] t3] p2] eqn:Hra.
  specialize (Hb _ _ _ _ eq_refl).
  destruct t3 as [t3|]; [|injection H as _ <-; apply add_err_nonempty].
  destruct (is_TChar cSEMI t3) eqn:E1.
  - injection H as _ <-. destruct Hb as [E|[Q _]]; [exact E|congruence].
  - destruct (is_TChar cLB t3) eqn:E2; [|injection H as _ <-; apply add_err_nonempty].
    destruct Hb as [E|[_ Q]]; [|congruence].
    apply (subs_loop_keeps _ _ (nextStatement_keeps f) _ _ _ _ _ H). exact E.
Qed.

(* the reading loop, started at [p], ends up rejecting: after [k] good statements a call either leaves an
   error behind, or hits the end of the text inside an open block *)
Inductive fails (mf : nat) : nat -> parser -> Prop :=
| F_err k p r p' : nextStatement mf p = (r, p') -> perrs p' -> fails mf k p
| F_open k p p' : nextStatement mf p = (RNil, p') -> depth p + 1 <= depth p' -> fails mf k p
| F_next k p s p1 : nextStatement mf p = (RStmt s, p1) -> depth p1 = depth p -> fails mf k p1 -> fails mf (S k) p.

Lemma fails_weaken mf k p : fails mf k p -> forall k', (k <= k')%nat -> fails mf k' p.
Proof.
  induction 1 as [k p r p' H E|k p p' H D|k p s p1 H D _ IH]; intros k' Hk.
  - eapply F_err; eauto.
  - eapply F_open; eauto.
  - destruct k' as [|k']; [lia|]. eapply F_next; eauto. apply IH. lia.
Qed.

Lemma subs_loop_fails mf mk : forall k p, fails mf k p -> forall n acc r p', (k < n)%nat ->
  subs_loop (nextStatement mf) mk n p acc = (r, p') -> perrs p' \/ (r = RNil /\ depth p + 1 <= depth p').
Proof.
  induction 1 as [k p r0 p0 H E|k p p0 H D|k p s p1 H D _ IH]; intros n acc r p' Hn Hs;
    (destruct n as [|n]; [lia|]); cbn [subs_loop] in Hs; rewrite H in Hs.
  - left. destruct r0; try (injection Hs as _ <-; exact E);
      apply (subs_loop_keeps _ _ (nextStatement_keeps mf) _ _ _ _ _ Hs); exact E.
  - injection Hs as <- <-. right. split; [reflexivity|exact D].
  - destruct (IH n _ _ _ ltac:(lia) Hs) as [E|[-> D']]; [left; exact E|right; split; [reflexivity|lia]].
Qed.

Lemma parse_loop_fails mf : forall k p, fails mf k p -> forall n acc ss p', (k < n)%nat ->
  parse_loop mf n p acc = (ss, p') -> perrs p' \/ depth p + 1 <= depth p'.
Proof.
  induction 1 as [k p r0 p0 H E|k p p0 H D|k p s p1 H D _ IH]; intros n acc ss p' Hn Hs;
    (destruct n as [|n]; [lia|]); cbn [parse_loop] in Hs; rewrite H in Hs.
  - left. destruct r0; try (injection Hs as _ <-; exact E);
      apply (parse_loop_keeps _ _ _ _ _ _ Hs); try exact E. apply add_err_nonempty.
  - injection Hs as _ <-. right. exact D.
  - destruct (IH n _ _ _ ltac:(lia) Hs) as [E|D']; [left; exact E|right; lia].
Qed.

Lemma parse_loop_reads_brace mf : forall p ss p', reads mf p ss RBrace p' -> forall n acc ss' pf, (length ss < n)%nat ->
  parse_loop mf n p acc = (ss', pf) -> perrs pf.
Proof.
  intros p ss p' H. remember RBrace as r eqn:Er. induction H as [p r p' H Hr|p s p1 ss r p' H _ IH]; intros n acc ss' pf Hn Hs;
    (destruct n as [|n]; [cbn in Hn; lia|]); cbn [parse_loop] in Hs; rewrite H in Hs.
  - subst r. apply (parse_loop_keeps _ _ _ _ _ _ Hs). apply add_err_nonempty.
  - apply (IH Er n _ _ _ ltac:(cbn [length] in Hn; lia) Hs).
Qed.

Lemma stmts_rej text : ~ In EOFR text -> lf_term text -> forall fs s,
  stmts fs text s = PReject ->
  forall p mf, (fs <= mf)%nat -> ppos text p s -> inPattern (lx p) = false -> errcnt (lx p) = O ->
  exists k, (k < fs)%nat /\ fails mf k p.
Proof.
  intros NE LT. induction fs as [|fs IH]; intros s Hs p mf Hmf P Hpat Hc; [discriminate|].
  destruct mf as [|mf]; [lia|]. cbn [stmts] in Hs.
  destruct (nextStatement (S mf) p) as [r0 pr] eqn:Hns0.
  destruct (read_token text false s) as [[kw|u|c|] s1| |] eqn:E1; try discriminate.
  - (* a keyword *)
    assert (E1' : read_token text (inPattern (lx p)) s = TOk (KUnq kw) s1) by (rewrite Hpat; exact E1).
    destruct (pnext_plain text p s (KUnq kw) s1 NE LT P E1' ltac:(discriminate)) as (t & p1 & Hn1 & M & (SE1 & D1 & O1) & T1 & G1).
    destruct (is_code _ _ _ M) as (_ & Hu & Hch). destruct M as [_ Mt].
    assert (Hc1 : errcnt (lx p1) = O) by (destruct SE1 as (_ & -> & _); exact Hc).
    assert (Hns : nextStatement (S mf) p = ns_tail mf t p1).
    { rewrite nextStatement_eq, Hn1. rewrite (Hch cRB). change (cRB =? _)%N with false. cbv iota. rewrite Hu. reflexivity. }
    assert (Local : (argument text (str_eqb kw s_pattern) s1 = AReject \/
                     exists has arg s2, argument text (str_eqb kw s_pattern) s1 = AOk has arg s2 /\ notopen (read_token text false s2)) ->
                    exists k, (k < S fs)%nat /\ fails (S mf) k p).
    { intro Hsp. exists O. split; [lia|]. eapply F_err; [exact Hns0|].
      rewrite Hns in Hns0. apply (ns_tail_rej _ _ _ _ _ Hns0). intros has arg t3 p2 Hra. rewrite Mt in Hra.
      apply (read_arg_rej text p1 s1 _ NE LT T1 G1 Hc1 Hsp _ _ _ _ Hra). }
    destruct (argument text (str_eqb kw s_pattern) s1) as [has arg s2| |] eqn:Ea; try discriminate.
    2:{ apply Local. left. reflexivity. }
    destruct (read_token text false s2) as [[u|u|c|] s3| |] eqn:E3; try discriminate.
    1,2,4,5: apply Local; right; exists has, arg, s2; split; [reflexivity|]; rewrite E3; repeat split; discriminate.
    destruct (N.eqb_spec c cSEMI) as [->|Nsemi].
    + (* kw [arg] ; then the rest is rejected *)
      destruct (read_arg_sim text p1 s1 _ has arg s2 cSEMI s3 NE LT T1 G1 Ea E3) as (t3 & p2 & Hra & M3 & T2 & G2 & Hp2 & X1 & X2 & X3 & X4).
      destruct (is_code _ _ _ M3) as (_ & _ & Hc3).
      rewrite Hns, ns_tail_eq, Mt, Hra, (Hc3 cSEMI), N.eqb_refl in Hns0. injection Hns0 as <- <-.
      destruct (stmts fs text s3) as [f1 cl1 r1| |] eqn:Es3; try discriminate.
      destruct (IH s3 Es3 p2 (S mf) ltac:(lia) (PP_direct text p2 s3 T2 G2) Hp2 ltac:(congruence)) as (k & Hk & Fk).
      exists (S k). split; [lia|]. eapply F_next; [rewrite Hns, ns_tail_eq, Mt, Hra, (Hc3 cSEMI), N.eqb_refl; reflexivity| |exact Fk]. congruence.
    + destruct (N.eqb_spec c cLB) as [->|Nlb].
      2:{ apply Local. right. exists has, arg, s2. split; [reflexivity|]. rewrite E3.
          split; [discriminate|split; intros s4 Q; injection Q as Q _; congruence]. }
      (* kw [arg] { ... *)
      destruct (read_arg_sim text p1 s1 _ has arg s2 cLB s3 NE LT T1 G1 Ea E3) as (t3 & p2 & Hra & M3 & T2 & G2 & Hp2 & X1 & X2 & X3 & X4).
      destruct (is_code _ _ _ M3) as (_ & _ & Hc3).
      assert (Hns' : nextStatement (S mf) p =
                subs_loop (nextStatement mf) (fun l => Stmt (t_text t) has arg (t_line t) (t_col t) (t_off t) l) mf
                  {| lx := lx p2; toks := toks p2; depth := depth p2 + 1; hb_line := hb_line p2;
                     hb_col := hb_col p2; hb_off := hb_off p2; oof := oof p2 |} []).
      { rewrite Hns, ns_tail_eq, Mt, Hra, (Hc3 cSEMI), (Hc3 cLB), N.eqb_refl. reflexivity. }
      set (p3 := {| lx := lx p2; toks := toks p2; depth := depth p2 + 1; hb_line := hb_line p2;
                    hb_col := hb_col p2; hb_off := hb_off p2; oof := oof p2 |}) in *.
      assert (P3 : ppos text p3 s3) by (apply PP_direct; [exact T2|exact G2]).
      assert (Hc3' : errcnt (lx p3) = O) by (cbn [p3 lx]; congruence).
      destruct (stmts fs text s3) as [subs cl1 s4| |] eqn:Es3; try discriminate.
      * destruct cl1.
        -- (* the block is read; the rest is rejected *)
           destruct (stmts fs text s4) as [f2 cl2 r2| |] eqn:Es4; try discriminate.
           destruct (stmts_sim text NE LT fs s3 subs true s4 Es3 p3 mf ltac:(lia) P3 Hp2)
             as (ss1 & r1 & p4 & R1 & Em1 & Hl1 & (Y1 & Y2 & Y3) & (-> & P4 & Hp4 & D4)).
           rewrite (subs_loop_reads mf _ p3 ss1 RBrace p4 R1 mf [] ltac:(lia)) in Hns'. cbn [rev app] in Hns'.
           destruct (IH s4 Es4 p4 (S mf) ltac:(lia) P4 Hp4 ltac:(congruence)) as (k & Hk & Fk).
           exists (S k). split; [lia|]. eapply F_next; [exact Hns'| |exact Fk]. cbn [p3 depth] in D4. lia.
        -- (* the block is never closed *)
           destruct (stmts_sim text NE LT fs s3 subs false s4 Es3 p3 mf ltac:(lia) P3 Hp2)
             as (ss1 & r1 & p4 & R1 & Em1 & Hl1 & (Y1 & Y2 & Y3) & (-> & D4)).
           rewrite (subs_loop_reads mf _ p3 ss1 RNil p4 R1 mf [] ltac:(lia)) in Hns'.
           exists O. split; [lia|]. eapply F_open; [exact Hns'|]. cbn [p3 depth] in D4. lia.
      * (* the block is rejected *)
        destruct (IH s3 Es3 p3 mf ltac:(lia) P3 Hp2 Hc3') as (k & Hk & Fk).
        rewrite Hns' in Hns0.
        destruct (subs_loop_fails mf _ k p3 Fk mf [] r0 pr ltac:(lia) Hns0) as [E|[-> D]].
        -- exists O. split; [lia|]. eapply F_err; [rewrite Hns'; exact Hns0|exact E].
        -- exists O. split; [lia|]. eapply F_open; [rewrite Hns'; exact Hns0|]. cbn [p3 depth] in D. lia.
  - (* a quoted string where a keyword must stand *)
    assert (E1' : read_token text (inPattern (lx p)) s = TOk (KStr u) s1) by (rewrite Hpat; exact E1).
    destruct (pnext_string text p s u s1 NE LT P E1') as (t & p1 & Hn1 & Hcode & _).
    exists O. split; [lia|]. eapply F_err; [exact Hns0|].
    rewrite nextStatement_eq, Hn1 in Hns0. unfold is_TChar, is_TUnquoted in Hns0. rewrite Hcode in Hns0. cbn [negb] in Hns0.
    injection Hns0 as _ <-. apply add_err_nonempty.
  - (* ; or { where a keyword must stand *)
    destruct (N.eqb_spec c cRB) as [->|Nrb]; [discriminate|].
    assert (E1' : read_token text (inPattern (lx p)) s = TOk (KPunct c) s1) by (rewrite Hpat; exact E1).
    destruct (pnext_plain text p s (KPunct c) s1 NE LT P E1' ltac:(discriminate)) as (t & p1 & Hn1 & M & _).
    destruct (is_code _ _ _ M) as (_ & Hu & Hch).
    exists O. split; [lia|]. eapply F_err; [exact Hns0|].
    rewrite nextStatement_eq, Hn1, (Hch cRB), Hu in Hns0.
    rewrite (proj2 (N.eqb_neq cRB c)) in Hns0 by (intro Q; apply Nrb; symmetry; exact Q). cbn [negb] in Hns0.
    injection Hns0 as _ <-. apply add_err_nonempty.
  - (* the first token is rejected *)
    exists O. split; [lia|]. eapply F_err; [exact Hns0|].
    rewrite nextStatement_eq in Hns0. destruct (pnext p) as [t p1] eqn:Hn1.
    assert (E1' : read_token text (inPattern (lx p)) s = TReject) by (rewrite Hpat; exact E1).
    pose proof (pnext_rej text p s NE LT P Hc E1' _ _ Hn1) as E.
    (* the error is already there after the first token; everything after keeps it *)
    destruct t as [t|]; [|injection Hns0 as _ <-; exact E].
    destruct (is_TChar cRB t); [injection Hns0 as _ <-; exact E|].
    destruct (negb (is_TUnquoted t)); [injection Hns0 as _ <-; apply add_err_nonempty|].
    rewrite ns_tail_eq in Hns0.
    destruct (read_arg p1 (str_eqb (t_text t) s_pattern)) as [[[has arg] t3] p2] eqn:Hra.
    assert (E2 : perrs p2).
    { unfold read_arg in Hra. cbv zeta in Hra.
      destruct (pnext (with_lx p1 (with_inPattern (lx p1) (str_eqb (t_text t) s_pattern)))) as [t2 q1] eqn:Hq1.
      pose proof (pnext_keeps _ _ _ Hq1 E) as Eq1.
      destruct t2 as [a|]; [|injection Hra as _ _ _ <-; exact Eq1].
      destruct (is_TString a || is_TUnquoted a); [|injection Hra as _ _ _ <-; exact Eq1].
      destruct (pnext (with_lx q1 (with_inPattern (lx q1) false))) as [t3' q2] eqn:Hq2. injection Hra as _ _ _ <-.
      apply (pnext_keeps _ _ _ Hq2). exact Eq1. }
    destruct t3 as [t3|]; [|injection Hns0 as _ <-; apply add_err_nonempty].
    destruct (is_TChar cSEMI t3); [injection Hns0 as _ <-; exact E2|].
    destruct (is_TChar cLB t3); [|injection Hns0 as _ <-; apply add_err_nonempty].
    apply (subs_loop_keeps _ _ (nextStatement_keeps mf) _ _ _ _ _ Hns0). exact E2.
Qed.

Theorem Parse_rejects input : ~ In EOFR input -> spec_parse (terminated input) = Reject ->
  forall ss es o, Parse input = (ss, es, o) -> ss = [] /\ es <> [].
Proof.
  intros NE0 H ss es o HP. set (T := terminated input) in *.
  assert (NE : ~ In EOFR T).
  { intro Q. destruct (terminated_in _ _ Q) as [Q'|Q']; [exact (NE0 Q')|vm_compute in Q'; discriminate Q']. }
  pose proof (terminated_lf input) as LT. fold T in LT.
  assert (P0 : ppos T (newParser input) T).
  { apply PP_direct; [reflexivity|]. split; [reflexivity|]. split; [reflexivity|]. split; [|reflexivity].
    destruct (newParser_inv input) as [(_ & _ & L) _]. exact L. }
  assert (Hmf : (S (length T) <= parse_fuel input)%nat).
  { unfold parse_fuel. pose proof (terminated_length input) as Q. fold T in Q. lia. }
  assert (Main : forall ss0 p, parse_loop (parse_fuel input) (parse_fuel input) (newParser input) [] = (ss0, p) ->
                 perrs p \/ depth p <> 0).
  { intros ss0 p Hl. unfold spec_parse in H. destruct (stmts (S (length T)) T T) as [f0 cl rest| |] eqn:Es; try discriminate.
    - destruct cl; [|discriminate].
      destruct (stmts_sim T NE LT _ _ _ _ _ Es (newParser input) (parse_fuel input) Hmf P0 eq_refl)
        as (ss1 & r & p' & R & _ & Hl1 & _ & (-> & _)).
      left. apply (parse_loop_reads_brace _ _ _ _ R (parse_fuel input) [] ss0 p ltac:(lia) Hl).
    - destruct (stmts_rej T NE LT _ _ Es (newParser input) (parse_fuel input) Hmf P0 eq_refl eq_refl) as (k & Hk & Fk).
      destruct (parse_loop_fails _ _ _ Fk (parse_fuel input) [] ss0 p ltac:(lia) Hl) as [E|D]; [left; exact E|right].
      change (depth (newParser input)) with 0 in D. lia. }
  unfold Parse in HP. cbv zeta in HP.
  destruct (parse_loop (parse_fuel input) (parse_fuel input) (newParser input) []) as [ss0 p] eqn:Hl.
  specialize (Main _ _ eq_refl).
  assert (Hfin : errs (lx (match errs (lx p) with
                           | [] => if depth p =? 0 then p else add_err p (Some (line (cu (lx p)), col (cu (lx p)))) EMissingBraces None
                           | _ :: _ => p end)) <> []).
  { destruct (errs (lx p)) as [|e es0] eqn:Ee.
    - destruct Main as [E|D]; [exfalso; apply E; exact Ee|]. destruct (Z.eqb_spec (depth p) 0); [contradiction|]. apply add_err_nonempty.
    - rewrite Ee. discriminate. }
  match type of HP with context [errs (lx ?q)] => destruct (errs (lx q)) as [|e es0] eqn:Ee end; [contradiction|].
  injection HP as <- <- _. split; [reflexivity|]. intro Q. apply (f_equal (@length perr)) in Q. rewrite app_length in Q. cbn in Q. lia.
Qed.

(* ================================================================ C16: an accepted forest holds no placeholder statement *)
Lemma stmt_real_eq kw h a ln cl off subs :
  stmt_real (Stmt kw h a ln cl off subs) <-> (kw <> [] /\ Forall stmt_real subs).
Proof.
  cbn [stmt_real].
  assert (E : forall l, (fix all (l : list stmt) : Prop := match l with [] => True | x :: r => stmt_real x /\ all r end) l
                        <-> Forall stmt_real l).
  { induction l as [|x r IH]; [split; auto|]. split.
    - intros [A B]. constructor; [exact A|apply IH; exact B].
    - intros H. inversion H; subst. split; [assumption|apply IH; assumption]. }
  rewrite E. reflexivity.
Qed.

Definition real_or_err (p : parser) (l : list stmt) : Prop := perrs p \/ Forall stmt_real l.

Lemma subs_loop_real text ns mk :
  (forall p r p', PInv text p -> ns p = (r, p') -> PInv text p' /\ (r = RIgnore -> perrs p') /\ (forall s, r = RStmt s -> real_or_err p' [s])) ->
  (forall p r p', ns p = (r, p') -> pkeeps p p') ->
  (forall l, Forall stmt_real l -> stmt_real (mk l)) ->
  forall n p acc r p', PInv text p -> real_or_err p acc -> subs_loop ns mk n p acc = (r, p') ->
  r <> RIgnore /\ (forall s, r = RStmt s -> real_or_err p' [s]).
Proof.
  intros Hns Hk Hmk. induction n as [|n IH]; intros p acc r p' HP HA H; cbn [subs_loop] in H.
  - injection H as <- <-. split; discriminate.
  - destruct (ns p) as [r1 p1] eqn:H1. destruct (Hns _ _ _ HP H1) as (HP1 & Hi & Hs). pose proof (Hk _ _ _ H1) as K1.
    assert (HA1 : real_or_err p1 acc) by (destruct HA as [E|F]; [left; apply K1; exact E|right; exact F]).
    destruct r1.
    + injection H as <- <-. split; discriminate.
    + injection H as <- <-. split; [discriminate|]. intros s Q; injection Q as <-.
      destruct HA1 as [E|F]; [left; exact E|right]. constructor; [|constructor]. apply Hmk. apply Forall_rev. exact F.
    + apply (IH _ _ _ _ HP1 (or_introl (Hi eq_refl)) H).
    + refine (IH _ _ _ _ HP1 _ H). destruct (Hs _ eq_refl) as [E|F]; [left; exact E|].
      destruct HA1 as [E|F']; [left; exact E|right]. constructor; [inversion F; assumption|exact F'].
Qed.

Lemma nextStatement_real text fuel : forall p r p', PInv text p -> nextStatement fuel p = (r, p') ->
  (r = RIgnore -> perrs p') /\ (forall s, r = RStmt s -> real_or_err p' [s]).
Proof.
  induction fuel as [|f IH]; intros p r p' HP H.
  - cbn [nextStatement] in H. injection H as <- <-. split; discriminate.
  - rewrite nextStatement_eq in H.
    destruct (pnext p) as [t p1] eqn:H1. destruct (pnext_inv text _ _ _ HP H1) as [HP1 Ht].
    destruct t as [t|]; [|injection H as <- <-; split; discriminate].
    pose proof (Ht _ eq_refl) as [Hpos Hclaim].
    destruct (is_TChar cRB t); [injection H as <- <-; split; discriminate|].
    destruct (is_TUnquoted t) eqn:Hu; cbn [negb] in H.
    2:{ injection H as <- <-. split; [intros _; apply add_err_nonempty|discriminate]. }
    assert (Hkw : t_text t <> []).
    { unfold is_TUnquoted in Hu. destruct (t_code t); try discriminate. apply Hclaim. }
    unfold ns_tail in H. cbv zeta in H.
    pose proof (with_inPattern_inv text p1 (str_eqb (t_text t) s_pattern) HP1) as HP2.
    destruct (pnext (with_lx p1 (with_inPattern (lx p1) (str_eqb (t_text t) s_pattern)))) as [t2 p3] eqn:H3.
    destruct (pnext_inv text _ _ _ HP2 H3) as [HP3 _].
    pose proof (with_inPattern_inv text p3 false HP3) as HP4.
    set (p4 := with_lx p3 (with_inPattern (lx p3) false)) in *.
    assert (Tail : forall has arg t3 p5, PInv text p5 ->
              match t3 with
              | None => (RNil, add_err p5 None EUnexpectedEOF None)
              | Some t3 =>
                if is_TChar cSEMI t3 then (RStmt (Stmt (t_text t) has arg (t_line t) (t_col t) (t_off t) []), p5)
                else if is_TChar cLB t3 then
                  subs_loop (nextStatement f) (fun l => Stmt (t_text t) has arg (t_line t) (t_col t) (t_off t) l) f
                    {| lx := lx p5; toks := toks p5; depth := depth p5 + 1; hb_line := hb_line p5;
                       hb_col := hb_col p5; hb_off := hb_off p5; oof := oof p5 |} []
                else (RIgnore, add_err p5 (tok_pos t3) ESyntax (Some (t_off t3)))
              end = (r, p') -> (r = RIgnore -> perrs p') /\ (forall s, r = RStmt s -> real_or_err p' [s])).
    { intros has arg t3 p5 HP5 Q. destruct t3 as [t3|]; [|injection Q as <- <-; split; discriminate].
      destruct (is_TChar cSEMI t3).
      - injection Q as <- <-. split; [discriminate|]. intros s Q; injection Q as <-. right. constructor; [|constructor].
        apply stmt_real_eq. split; [exact Hkw|constructor].
      - destruct (is_TChar cLB t3); [|injection Q as <- <-; split; [intros _; apply add_err_nonempty|discriminate]].
        destruct (subs_loop_real text (nextStatement f) _
                    ltac:(intros q r1 q' HQ E; destruct (nextStatement_inv text f q r1 q' HQ E) as (A & _); destruct (IH q r1 q' HQ E); auto)
                    (nextStatement_keeps f)
                    ltac:(intros l Hl; apply stmt_real_eq; split; [exact Hkw|exact Hl])
                    _ _ _ _ _ (HP5 : PInv text (Build_parser _ _ _ _ _ _ _)) (or_intror (Forall_nil _)) Q) as (A & B).
        split; [intro E; contradiction|exact B]. }
    destruct t2 as [a|].
    + destruct (is_TString a || is_TUnquoted a).
      * destruct (pnext p4) as [t3 p5] eqn:H5. destruct (pnext_inv text _ _ _ HP4 H5) as [HP5 _].
        apply (Tail true (t_text a) t3 p5 HP5 H).
      * apply (Tail false [] (Some a) p4 HP4 H).
    + apply (Tail false [] None p4 HP4 H).
Qed.

Lemma parse_loop_real text fuel : forall n p acc ss p', PInv text p -> real_or_err p acc ->
  parse_loop fuel n p acc = (ss, p') -> real_or_err p' ss.
Proof.
  induction n as [|n IH]; intros p acc ss p' HP HA H; cbn [parse_loop] in H.
  - injection H as <- <-. destruct HA as [E|F]; [left; exact E|right; apply Forall_rev; exact F].
  - destruct (nextStatement fuel p) as [r p1] eqn:H1.
    destruct (nextStatement_inv text _ _ _ _ HP H1) as (HP1 & Hb & _).
    destruct (nextStatement_real text _ _ _ _ HP H1) as (Hi & Hs).
    pose proof (nextStatement_keeps _ _ _ _ H1) as K1.
    assert (HA1 : real_or_err p1 acc) by (destruct HA as [E|F]; [left; apply K1; exact E|right; exact F]).
    destruct r.
    + injection H as <- <-. destruct HA1 as [E|F]; [left; exact E|right; apply Forall_rev; exact F].
    + refine (IH _ _ _ _ _ (or_introl (add_err_nonempty _ _ _ _)) H).
      apply add_err_inv; [exact HP1|]. apply err_ok_intro. apply Hb. reflexivity.
    + apply (IH _ _ _ _ HP1 (or_introl (Hi eq_refl)) H).
    + refine (IH _ _ _ _ HP1 _ H). destruct (Hs _ eq_refl) as [E|F]; [left; exact E|].
      destruct HA1 as [E|F']; [left; exact E|right]. constructor; [inversion F; assumption|exact F'].
Qed.

Lemma Parse_statements_real input ss o : Parse input = (ss, [], o) -> Forall stmt_real ss.
Proof.
  unfold Parse. cbv zeta.
  destruct (parse_loop (parse_fuel input) (parse_fuel input) (newParser input) []) as [ss0 p] eqn:Hl.
  pose proof (parse_loop_real (terminated input) _ _ _ _ _ _ (newParser_inv input) (or_intror (Forall_nil _)) Hl) as R.
  destruct (errs (lx p)) as [|e es] eqn:Ee.
  - destruct (depth p =? 0).
    + rewrite Ee. intro Q. injection Q as <- _. destruct R as [E|F]; [exfalso; apply E; exact Ee|exact F].
    + cbn [add_err with_lx lx errs]. intro Q. injection Q as _ Q _. exfalso. apply (f_equal (@length perr)) in Q.
      rewrite app_length in Q. cbn in Q. lia.
  - rewrite Ee. intro Q. injection Q as _ Q _. exfalso. apply (f_equal (@length perr)) in Q. rewrite app_length in Q. cbn in Q. lia.
Qed.

Lemma NextToken_any text l : ~ In EOFR text -> LInv text l -> QI l -> nt_ok l (NextToken (lex_fuel l) l).
Proof.
  intros NE (HI & HE & HS) Q. pose proof Q as (S & L1 & L2).
  destruct (items l) as [|t r] eqn:E.
  - destruct S as [S|S].
    + unfold SInv in HS. rewrite S in HS.
      apply (NextToken_total text NE (length (after (cu l))) (after (cu l)) l); [lia| |unfold lex_fuel; lia].
      split; [exact S|split; [exact E|split; [exact HS|reflexivity]]].
    + rewrite (NextToken_done _ _ E S). exists None, l. split; [reflexivity|]. split; [exact Q|split; assumption].
  - apply deliver; [exact S|left; rewrite E; discriminate|rewrite E; exact L1|rewrite E; exact L2|lia|lia].
Qed.

(* ---- the parser ---- *)
Definition PQ (text : str) (p : parser) : Prop := LInv text (lx p) /\ QI (lx p).
Definition psi (p : parser) : nat := (length (toks p) + nu2 (lx p))%nat.
Definition same_frame (p p' : parser) : Prop := oof p' = oof p.

Lemma nu_bound l : QI l -> (nu l <= length (after (cu l)) + 9)%nat.
Proof. intros (_ & L & _). unfold nu, maxErrors in *. destruct (state l); lia. Qed.
Lemma nu2_bound l : QI l -> (nu2 l <= length (after (cu l)) + 1)%nat.
Proof. intros (_ & _ & L). unfold nu2, lrest. destruct (state l); lia. Qed.

Lemma raw_next_total text : ~ In EOFR text -> forall fuel p, PQ text p -> (nu (lx p) < fuel)%nat ->
  exists r p', raw_next fuel p = (r, p') /\ oof p' = oof p /\ toks p' = toks p /\ PQ text p' /\
    (nu2 (lx p') + match r with Some _ => 1 | None => 0 end <= nu2 (lx p))%nat.
Proof.
  intros NE. induction fuel as [|f IH]; intros p [HL HQ] Hf; [lia|]. cbn [raw_next].
  destruct (NextToken_any text (lx p) NE HL HQ) as (r & l' & E & Q' & M). rewrite E.
  pose proof (proj1 (NextToken_inv text _ _ _ _ HL E)) as HL'.
  destruct r as [t|].
  - destruct M as [M1 M2]. destruct (is_TError t) eqn:Et.
    + destruct (IH (with_lx p l') (conj HL' Q') ltac:(cbn [with_lx lx]; lia)) as (r & p' & E2 & A & B & C & D).
      exists r, p'. split; [exact E2|]. split; [exact A|]. split; [exact B|]. split; [exact C|]. cbn [with_lx lx] in D.
      unfold tok_cost in M2. rewrite Et in M2. lia.
    + exists (Some t), (with_lx p l'). split; [reflexivity|]. split; [reflexivity|]. split; [reflexivity|]. split; [split; assumption|].
      cbn [with_lx lx]. unfold tok_cost in M2. rewrite Et in M2. lia.
  - destruct M as [M1 M2]. exists None, (with_lx p l'). split; [reflexivity|]. split; [reflexivity|]. split; [reflexivity|].
    split; [split; assumption|]. cbn [with_lx lx]. unfold nu2, lrest. rewrite M1, M2. cbn. lia.
Qed.

Lemma raw_total text p : ~ In EOFR text -> PQ text p ->
  exists r p', raw p = (r, p') /\ oof p' = oof p /\ toks p' = toks p /\ PQ text p' /\
    (nu2 (lx p') + match r with Some _ => 1 | None => 0 end <= nu2 (lx p))%nat.
Proof.
  intros NE HP. apply raw_next_total; auto. unfold raw_fuel. pose proof (nu_bound _ (proj2 HP)). lia.
Qed.

Lemma PQ_toks text p ts : PQ text p -> PQ text (with_toks p ts).
Proof. intro H; exact H. Qed.

Lemma concat_loop_total text : ~ In EOFR text -> forall fuel t p, PQ text p -> (nu2 (lx p) + 1 <= 2 * fuel)%nat ->
  exists r p', concat_loop fuel t p = (r, p') /\ oof p' = oof p /\ PQ text p' /\ (psi p' <= psi p)%nat.
Proof.
  intros NE. induction fuel as [|f IH]; intros t p HP Hf; [lia|]. cbn [concat_loop].
  destruct (raw_total text p NE HP) as (nt & p1 & E1 & O1 & T1 & HP1 & M1). rewrite E1.
  destruct nt as [nt'|]; [|exists (Some t), p1; split; [reflexivity|split; [exact O1|split; [exact HP1|unfold psi; rewrite T1; lia]]]].
  destruct (is_TUnquoted nt' && str_eqb (t_text nt') s_plus).
  - destruct (raw_total text p1 NE HP1) as (nnt & p2 & E2 & O2 & T2 & HP2 & M2). rewrite E2.
    destruct nnt as [nnt'|].
    + destruct (is_TString nnt').
      * destruct (IH (set_text t (t_text t ++ t_text nnt')) p2 HP2 ltac:(lia)) as (r & p' & E3 & O3 & HP3 & M3).
        exists r, p'. split; [exact E3|]. split; [congruence|]. split; [exact HP3|]. unfold psi in *. rewrite T2, T1 in M3. lia.
      * eexists _, _. split; [reflexivity|]. split; [cbn [with_toks oof]; congruence|]. split; [exact HP2|].
        unfold psi. cbn [with_toks toks lx length]. rewrite T2, T1. lia.
    + eexists _, _. split; [reflexivity|]. split; [cbn [with_toks oof]; congruence|]. split; [exact HP2|].
      unfold psi. cbn [with_toks toks lx length]. rewrite T2, T1. lia.
  - eexists _, _. split; [reflexivity|]. split; [cbn [with_toks oof]; congruence|]. split; [exact HP1|].
    unfold psi. cbn [with_toks toks lx length]. rewrite T1. lia.
Qed.

Lemma pnext_total text p : ~ In EOFR text -> PQ text p ->
  exists r p', pnext p = (r, p') /\ oof p' = oof p /\ PQ text p' /\
    (psi p' + match r with Some _ => 1 | None => 0 end <= psi p)%nat.
Proof.
  intros NE HP. unfold pnext. destruct (toks p) as [|t ts] eqn:Et.
  - destruct (raw_total text p NE HP) as (r & p1 & E1 & O1 & T1 & HP1 & M1). rewrite E1.
    destruct r as [t'|]; [|exists None, p1; split; [reflexivity|split; [exact O1|split; [exact HP1|unfold psi; rewrite T1, Et; lia]]]].
    destruct (is_TString t').
    + pose proof (nu2_bound _ (proj2 HP1)) as B.
      destruct (concat_loop_total text NE (S (length (after (cu (lx p1))))) t' p1 HP1 ltac:(lia)) as (r & p' & E2 & O2 & HP2 & M2).
      destruct (concat_loop_code _ _ _ _ _ E2) as (t'' & -> & _).
      exists (Some t''), p'. split; [exact E2|]. split; [congruence|]. split; [exact HP2|]. unfold psi in *. rewrite T1, Et in *. cbn [length] in *. lia.
    + exists (Some t'), p1. split; [reflexivity|]. split; [exact O1|]. split; [exact HP1|]. unfold psi. rewrite T1, Et. lia.
  - exists (Some t), (with_toks p ts). split; [reflexivity|]. split; [reflexivity|]. split; [exact HP|].
    unfold psi. cbn [with_toks toks lx]. rewrite Et. cbn [length]. lia.
Qed.

Definition ns_ok (text : str) (p : parser) (res : sres * parser) : Prop :=
  oof (snd res) = oof p /\ PQ text (snd res) /\ (psi (snd res) <= psi p)%nat /\
  (fst res <> RNil -> (psi (snd res) + 1 <= psi p)%nat).

Lemma subs_loop_total text ns mk : (forall p, PQ text p -> ns_ok text p (ns p)) ->
  forall n p acc, PQ text p -> (psi p < n)%nat ->
  oof (snd (subs_loop ns mk n p acc)) = oof p /\ PQ text (snd (subs_loop ns mk n p acc)) /\
  (psi (snd (subs_loop ns mk n p acc)) <= psi p)%nat.
Proof.
  intros Hns. induction n as [|n IH]; intros p acc HP Hn; [lia|]. cbn [subs_loop].
  destruct (Hns p HP) as (O1 & HP1 & M1 & M2). destruct (ns p) as [r p1]. cbn [fst snd] in *.
  destruct r; cbn [snd]; try (split; [exact O1|split; [exact HP1|exact M1]]).
  - specialize (M2 ltac:(discriminate)). destruct (IH p1 (Stmt [] false [] 0 0 0 [] :: acc) HP1 ltac:(lia)) as (A & B & C).
    split; [congruence|split; [exact B|lia]].
  - specialize (M2 ltac:(discriminate)). destruct (IH p1 (s :: acc) HP1 ltac:(lia)) as (A & B & C).
    split; [congruence|split; [exact B|lia]].
Qed.

Lemma PQ_frame text p p' : lx p' = lx p -> PQ text p -> PQ text p'.
Proof. unfold PQ. intros ->. auto. Qed.
(* adding an error to errout or toggling inPattern does not touch what the measures look at *)
Lemma QI_same l l' : items l' = items l -> state l' = state l -> QI l -> QI l'.
Proof. unfold QI. intros -> ->. auto. Qed.

Lemma nextStatement_total text : ~ In EOFR text -> forall f p, PInv text p -> QI (lx p) -> (psi p < f)%nat ->
  ns_ok text p (nextStatement f p) /\ PInv text (snd (nextStatement f p)).
Proof.
  intros NE. induction f as [|f IH]; intros p HPI HQ Hf; [lia|].
  rewrite nextStatement_eq.
  assert (HP : PQ text p) by (split; [apply HPI|exact HQ]).
  destruct (pnext_total text p NE HP) as (t & p1 & E1 & O1 & HP1 & M1). rewrite E1.
  destruct (pnext_inv text _ _ _ HPI E1) as [HPI1 Ht].
  destruct t as [t|]; [|split; [split; [exact O1|split; [exact HP1|cbn [fst snd]; split; [lia|intro Q; contradiction]]]|exact HPI1]].
  assert (Done : forall r p2, lx p2 = lx p1 -> toks p2 = toks p1 -> oof p2 = oof p1 ->
                 ns_ok text p (r, p2) /\ PInv text p2).
  { intros r p2 El Et Eo. split; [|split; [rewrite El; apply HPI1|rewrite Et; apply HPI1]].
    split; [cbn [snd]; congruence|]. split; [apply (PQ_frame text p1); assumption|].
    unfold psi in *. cbn [snd fst]. rewrite El, Et. split; [lia|intros _; lia]. }
  destruct (is_TChar cRB t); [apply Done; reflexivity|].
  destruct (negb (is_TUnquoted t)) eqn:Hu.
  { assert (HPIe : PInv text (add_err p1 (tok_pos t) EKeywordNotUnquoted (Some (t_off t)))).
    { apply add_err_inv; [exact HPI1|]. apply err_ok_intro. apply (Ht _ eq_refl). }
    split; [|exact HPIe].
    split; [cbn [snd]; exact O1|]. split; [split; [apply HPIe|exact (proj2 HP1)]|].
    unfold psi in *. cbn [snd fst add_err with_lx lx toks]. unfold nu2, lrest in *. cbn [items state cu]. split; [lia|intros _; lia]. }
  unfold ns_tail. cbv zeta.
  pose proof (with_inPattern_inv text p1 (str_eqb (t_text t) s_pattern) HPI1) as HPI2.
  set (p2 := with_lx p1 (with_inPattern (lx p1) (str_eqb (t_text t) s_pattern))) in *.
  assert (HP2 : PQ text p2) by (split; [apply HPI2|exact (proj2 HP1)]).
  destruct (pnext_total text p2 NE HP2) as (t2 & p3 & E3 & O3 & HP3 & M3). rewrite E3.
  destruct (pnext_inv text _ _ _ HPI2 E3) as [HPI3 Ht2].
  pose proof (with_inPattern_inv text p3 false HPI3) as HPI4.
  set (p4 := with_lx p3 (with_inPattern (lx p3) false)) in *.
  assert (HP4 : PQ text p4) by (split; [apply HPI4|exact (proj2 HP3)]).
  assert (Psi2 : psi p2 = psi p1) by reflexivity.
  assert (Psi4 : psi p4 = psi p3) by reflexivity.
  assert (Oo : oof p4 = oof p) by (cbn [p4 p2 with_lx oof] in *; congruence).
  assert (Tail : forall has arg t3 p5, PInv text p5 -> QI (lx p5) -> oof p5 = oof p -> (psi p5 + 1 <= psi p)%nat ->
            (forall t', t3 = Some t' -> tok_ok text t') ->
            let res := match t3 with
              | None => (RNil, add_err p5 None EUnexpectedEOF None)
              | Some t3 =>
                if is_TChar cSEMI t3 then (RStmt (Stmt (t_text t) has arg (t_line t) (t_col t) (t_off t) []), p5)
                else if is_TChar cLB t3 then
                  subs_loop (nextStatement f) (fun l => Stmt (t_text t) has arg (t_line t) (t_col t) (t_off t) l) f
                    {| lx := lx p5; toks := toks p5; depth := depth p5 + 1; hb_line := hb_line p5;
                       hb_col := hb_col p5; hb_off := hb_off p5; oof := oof p5 |} []
                else (RIgnore, add_err p5 (tok_pos t3) ESyntax (Some (t_off t3)))
              end in ns_ok text p res /\ PInv text (snd res)).
  { intros has arg t3 p5 HPI5 HQ5 O5 M5 Ht3. cbv zeta.
    assert (Err : forall r pos k subj, err_ok text {| e_pos := pos; e_kind := k; e_subject := subj |} ->
                  ns_ok text p (r, add_err p5 pos k subj) /\ PInv text (add_err p5 pos k subj)).
    { intros r pos k subj He. pose proof (add_err_inv text p5 pos k subj HPI5 He) as HPIe. split; [|exact HPIe].
      split; [exact O5|]. split; [split; [apply HPIe|exact HQ5]|].
      unfold psi in *. cbn [snd fst add_err with_lx lx toks]. unfold nu2, lrest in *. cbn [items state cu]. split; [lia|intros _; lia]. }
    destruct t3 as [t3|]; [|apply Err; exact I].
    destruct (is_TChar cSEMI t3).
    { split; [|exact HPI5]. split; [exact O5|]. split; [split; [apply HPI5|exact HQ5]|]. cbn [fst snd]. split; [lia|intros _; lia]. }
    destruct (is_TChar cLB t3); [|apply Err; apply err_ok_intro; apply (Ht3 _ eq_refl)].
    set (p6 := Build_parser _ _ _ _ _ _ _).
    assert (HPI6 : PInv text p6) by exact HPI5.
    assert (Hns : forall q, PQ text q -> True) by auto.
    (* the statements of the block are read with fuel f, which exceeds what is left *)
    assert (Hf6 : (psi p6 < f)%nat) by (change (psi p6) with (psi p5); lia).
    assert (Loop : forall n q acc, PInv text q -> QI (lx q) -> (psi q < n)%nat -> (psi q < f)%nat ->
              let res := subs_loop (nextStatement f) (fun l => Stmt (t_text t) has arg (t_line t) (t_col t) (t_off t) l) n q acc in
              oof (snd res) = oof q /\ PInv text (snd res) /\ QI (lx (snd res)) /\ (psi (snd res) <= psi q)%nat).
    { induction n as [|n IHn]; intros q acc HPIq HQq Hn Hfq; [lia|]. cbn [subs_loop].
      destruct (IH q HPIq HQq Hfq) as ((A1 & A2 & A3 & A4) & A5). destruct (nextStatement f q) as [r q1]. cbn [fst snd] in *.
      destruct r; cbn [snd]; try (split; [exact A1|split; [exact A5|split; [apply A2|exact A3]]]).
      - specialize (A4 ltac:(discriminate)). destruct (IHn q1 (Stmt [] false [] 0 0 0 [] :: acc) A5 (proj2 A2) ltac:(lia) ltac:(lia)) as (B1 & B2 & B3 & B4).
        split; [congruence|split; [exact B2|split; [exact B3|lia]]].
      - specialize (A4 ltac:(discriminate)). destruct (IHn q1 (s :: acc) A5 (proj2 A2) ltac:(lia) ltac:(lia)) as (B1 & B2 & B3 & B4).
        split; [congruence|split; [exact B2|split; [exact B3|lia]]]. }
    destruct (Loop f p6 [] HPI6 HQ5 Hf6 Hf6) as (B1 & B2 & B3 & B4).
    split; [|exact B2]. split; [rewrite B1; exact O5|]. split; [split; [apply B2|exact B3]|].
    change (psi p6) with (psi p5) in B4. split; [lia|intros _; lia]. }
  destruct t2 as [a|].
  - destruct (is_TString a || is_TUnquoted a).
    + destruct (pnext_total text p4 NE HP4) as (t3 & p5 & E5 & O5 & HP5 & M5). rewrite E5.
      destruct (pnext_inv text _ _ _ HPI4 E5) as [HPI5 Ht3].
      apply (Tail true (t_text a) t3 p5 HPI5 (proj2 HP5)); [congruence| |exact Ht3].
      rewrite Psi4, Psi2 in *. lia.
    + apply (Tail false [] (Some a) p4 HPI4 (proj2 HP4) Oo); [rewrite Psi4, Psi2 in *; lia|exact Ht2].
  - apply (Tail false [] None p4 HPI4 (proj2 HP4) Oo); [rewrite Psi4, Psi2 in *; lia|discriminate].
Qed.

Lemma parse_loop_total text fuel : ~ In EOFR text -> forall n p acc, PInv text p -> QI (lx p) -> (psi p < n)%nat -> (psi p < fuel)%nat ->
  oof (snd (parse_loop fuel n p acc)) = oof p.
Proof.
  intros NE. induction n as [|n IH]; intros p acc HPI HQ Hn Hf; [lia|]. cbn [parse_loop].
  destruct (nextStatement_total text NE fuel p HPI HQ Hf) as ((A1 & A2 & A3 & A4) & A5).
  destruct (nextStatement_inv text fuel p _ _ HPI (surjective_pairing _)) as (_ & Hb & _).
  destruct (nextStatement fuel p) as [r p1]. cbn [fst snd] in *.
  destruct r; cbn [snd]; try exact A1.
  - specialize (A4 ltac:(discriminate)).
    rewrite IH; [exact A1| | | |].
    + apply add_err_inv; [exact A5|]. apply err_ok_intro. apply Hb. reflexivity.
    + exact (proj2 A2).
    + change (psi (add_err p1 _ _ _)) with (psi p1). lia.
    + change (psi (add_err p1 _ _ _)) with (psi p1). lia.
  - specialize (A4 ltac:(discriminate)). rewrite IH; [exact A1|exact A5|exact (proj2 A2)|lia|lia].
  - specialize (A4 ltac:(discriminate)). rewrite IH; [exact A1|exact A5|exact (proj2 A2)|lia|lia].
Qed.

Theorem Parse_fuel_sufficient input ss es o : ~ In EOFR input -> Parse input = (ss, es, o) -> o = false.
Proof.
  intros NE0 H. set (T := terminated input).
  assert (NE : ~ In EOFR T).
  { intro Q. destruct (terminated_in _ _ Q) as [Q'|Q']; [exact (NE0 Q')|vm_compute in Q'; discriminate Q']. }
  assert (Hpsi : (psi (newParser input) < parse_fuel input)%nat).
  { unfold psi, nu2, lrest, parse_fuel. cbn [newParser toks lx newLexer items state cu after length]. change (nonerr []) with O.
    pose proof (terminated_length input) as Q. unfold terminated in Q. lia. }
  assert (HQ : QI (lx (newParser input))).
  { split; [left; reflexivity|]. cbn. unfold maxErrors. split; lia. }
  pose proof (parse_loop_total T (parse_fuel input) NE (parse_fuel input) (newParser input) [] (newParser_inv input) HQ Hpsi Hpsi) as E.
  unfold Parse in H. cbv zeta in H.
  destruct (parse_loop (parse_fuel input) (parse_fuel input) (newParser input) []) as [ss0 p]. cbn [snd] in E.
  change (oof (newParser input)) with false in E.
  assert (E' : oof (match errs (lx p) with
                    | [] => if depth p =? 0 then p else add_err p (Some (line (cu (lx p)), col (cu (lx p)))) EMissingBraces None
                    | _ :: _ => p end) = false).
  { destruct (errs (lx p)); [destruct (depth p =? 0)|]; exact E. }
  match type of H with context [errs (lx ?q)] => destruct (errs (lx q)) end; injection H as _ _ <-; exact E'.
Qed.
