(* Invariants of the parser model: every token the parser sees, every statement it builds and every error
   it writes carries the true position of the place of the text it is about (C16). *)
From Coq Require Import List NArith ZArith Bool Lia.
Import ListNotations.
From GY Require Import Model.Lex Model.Parse Spec.C16 Spec.C02 Proofs.LexProofs.
Local Open Scope Z_scope.

Lemma run_state_inv text l : LInv text l -> LInv text (run_state l).
Proof.
  intros (HI & HE & HSv). unfold run_state. unfold SInv in HSv. destruct (state l) eqn:Hs.
  - apply lexGround_inv; auto.
  - destruct HSv as (Z & X & S & A & B). apply lexQString_inv; auto.
  - destruct HSv as (L & S & Sp & N). apply lexUnquoted_inv; auto.
  - split; [exact HI|split; [exact HE|]]. unfold SInv. rewrite Hs. exact I.
Qed.

Lemma NextToken_inv text fuel : forall l r l', LInv text l -> NextToken fuel l = (r, l') ->
  LInv text l' /\ (forall t, r = Some (Some t) -> tok_ok text t).
Proof.
  assert (Pop : forall l t r, LInv text l -> items l = t :: r ->
            LInv text {| cu := cu l; sline := sline l; scol := scol l; soff := soff l; inPattern := inPattern l;
                         items := r; errcnt := errcnt l; errs := errs l; state := state l |} /\ tok_ok text t).
  { intros l t r (HI & HE & HSv) Hi. rewrite Hi in HI. inversion HI; subst.
    split; [|assumption]. split; [assumption|split; [exact HE|exact HSv]]. }
  induction fuel as [|f IH]; intros l r l' HL H; cbn [NextToken] in H.
  - destruct (items l) as [|t its] eqn:Hi.
    + destruct (state l); injection H as <- <-; (split; [exact HL|discriminate]).
    + injection H as <- <-. destruct (Pop l t its HL Hi) as [A B]. split; [exact A|]. intros t' Q. injection Q as <-. exact B.
  - destruct (items l) as [|t its] eqn:Hi.
    + destruct (state l) eqn:Hs; try (apply (IH _ _ _ (run_state_inv text l HL) H)).
      injection H as <- <-. split; [exact HL|discriminate].
    + injection H as <- <-. destruct (Pop l t its HL Hi) as [A B]. split; [exact A|]. intros t' Q. injection Q as <-. exact B.
Qed.

(* ---------------------------------------------------------------- parser invariant *)
Definition PInv (text : str) (p : parser) : Prop := LInv text (lx p) /\ Forall (tok_ok text) (toks p).
Definition hb_ok (text : str) (p : parser) : Prop := (hb_line p, hb_col p) = linecol text (hb_off p).

Lemma raw_next_inv text fuel : forall p t p', PInv text p -> raw_next fuel p = (t, p') ->
  PInv text p' /\ (forall t', t = Some t' -> tok_ok text t').
Proof.
  induction fuel as [|f IH]; intros p t p' [HL HT] H; cbn [raw_next] in H.
  - injection H as <- <-. split; [split; assumption|discriminate].
  - destruct (NextToken (lex_fuel (lx p)) (lx p)) as [r l] eqn:Hn.
    destruct (NextToken_inv text _ _ _ _ HL Hn) as [HL' Ht].
    destruct r as [[t0|]|].
    + destruct (is_TError t0).
      * apply (IH _ _ _ (conj HL' HT : PInv text (with_lx p l)) H).
      * injection H as <- <-. split; [split; assumption|]. intros t' Q. injection Q as <-. apply Ht. reflexivity.
    + injection H as <- <-. split; [split; assumption|discriminate].
    + injection H as <- <-. split; [split; assumption|discriminate].
Qed.

Lemma raw_inv text p t p' : PInv text p -> raw p = (t, p') ->
  PInv text p' /\ (forall t', t = Some t' -> tok_ok text t').
Proof. apply raw_next_inv. Qed.

Lemma set_text_ok text t s : tok_ok text t -> is_TString t = true -> tok_ok text (set_text t s).
Proof.
  intros [A B] H. unfold is_TString in H. split; [exact A|]. cbn [set_text t_code]. destruct (t_code t); try discriminate. exact I.
Qed.

Lemma push_inv text p ts : PInv text p -> Forall (tok_ok text) ts -> PInv text (with_toks p (ts ++ toks p)).
Proof. intros [A B] C. split; [exact A|]. cbn [with_toks toks]. apply Forall_app. split; assumption. Qed.

Lemma concat_loop_inv text fuel : forall t p r p', PInv text p -> tok_ok text t -> is_TString t = true ->
  concat_loop fuel t p = (r, p') -> PInv text p' /\ (forall t', r = Some t' -> tok_ok text t').
Proof.
  induction fuel as [|f IH]; intros t p r p' HP Ht Hs H; cbn [concat_loop] in H.
  - injection H as <- <-. split; [exact HP|]. intros t' Q; injection Q as <-; exact Ht.
  - destruct (raw p) as [nt p1] eqn:H1. destruct (raw_inv text _ _ _ HP H1) as [HP1 Hnt].
    assert (Fin : forall p2, PInv text p2 -> PInv text p2 /\ (forall t', Some t = Some t' -> tok_ok text t')).
    { intros p2 Q. split; [exact Q|]. intros t' Q'; injection Q' as <-; exact Ht. }
    destruct nt as [nt'|]; [|injection H as <- <-; apply Fin; exact HP1].
    pose proof (Hnt _ eq_refl) as Hnt'.
    destruct (is_TUnquoted nt' && str_eqb (t_text nt') s_plus).
    + destruct (raw p1) as [nnt p2] eqn:H2. destruct (raw_inv text _ _ _ HP1 H2) as [HP2 Hnnt].
      destruct nnt as [nnt'|].
      * pose proof (Hnnt _ eq_refl) as Hnnt'. destruct (is_TString nnt').
        -- apply (IH _ _ _ _ HP2 (set_text_ok text t _ Ht Hs) Hs H).
        -- injection H as <- <-. apply Fin. apply (push_inv text p2 [nt'; nnt'] HP2). auto.
      * injection H as <- <-. apply Fin. apply (push_inv text p2 [nt'] HP2). auto.
    + injection H as <- <-. apply Fin. apply (push_inv text p1 [nt'] HP1). auto.
Qed.

Lemma pnext_inv text p r p' : PInv text p -> pnext p = (r, p') ->
  PInv text p' /\ (forall t, r = Some t -> tok_ok text t).
Proof.
  intros HP H. unfold pnext in H. destruct (toks p) as [|t ts] eqn:Ht.
  - destruct (raw p) as [t p1] eqn:H1. destruct (raw_inv text _ _ _ HP H1) as [HP1 Hok].
    destruct t as [t'|].
    + destruct (is_TString t') eqn:Hs.
      * apply (concat_loop_inv text _ _ _ _ _ HP1 (Hok _ eq_refl) Hs H).
      * injection H as <- <-. split; assumption.
    + injection H as <- <-. split; [assumption|discriminate].
  - injection H as <- <-. destruct HP as [A B]. rewrite Ht in B. inversion B; subst.
    split; [split; assumption|]. intros t' Q; injection Q as <-; assumption.
Qed.

(* the sub-statement loop of nextStatement, named *)
Section Subs.
  Variable ns : parser -> sres * parser.
  Variable mk : list stmt -> stmt.
  Fixpoint subs_loop (n : nat) (p : parser) (acc : list stmt) {struct n} : sres * parser :=
    match n with
    | O => (RNil, set_oof p)
    | S n' =>
      match ns p with
      | (RNil, p) => (RNil, p)
      | (RBrace, p) => (RStmt (mk (rev acc)), p)
      | (RIgnore, p) => subs_loop n' p (Stmt [] false [] 0 0 0 [] :: acc)
      | (RStmt s, p) => subs_loop n' p (s :: acc)
      end
    end.
End Subs.

Definition ns_tail (f : nat) (t : token) (p : parser) : sres * parser :=
  let kw := t_text t in
  let p := with_lx p (with_inPattern (lx p) (str_eqb kw s_pattern)) in
  let (t2, p) := pnext p in
  let p := with_lx p (with_inPattern (lx p) false) in
  let '(has, arg, t3, p) :=
    match t2 with
    | Some a => if is_TString a || is_TUnquoted a
                then let (t3, p) := pnext p in (true, t_text a, t3, p)
                else (false, [], t2, p)
    | None => (false, [], t2, p)
    end in
  match t3 with
  | None => (RNil, add_err p None EUnexpectedEOF None)
  | Some t3 =>
    if is_TChar cSEMI t3 then (RStmt (Stmt kw has arg (t_line t) (t_col t) (t_off t) []), p)
    else if is_TChar cLB t3 then
      let p := {| lx := lx p; toks := toks p; depth := depth p + 1; hb_line := hb_line p;
                  hb_col := hb_col p; hb_off := hb_off p; oof := oof p |} in
      subs_loop (nextStatement f) (fun l => Stmt kw has arg (t_line t) (t_col t) (t_off t) l) f p []
    else (RIgnore, add_err p (tok_pos t3) ESyntax (Some (t_off t3)))
  end.

Lemma nextStatement_eq f p : nextStatement (S f) p =
  let (t, p) := pnext p in
  match t with
  | None => (RNil, p)
  | Some t =>
    if is_TChar cRB t then
      (RBrace, {| lx := lx p; toks := toks p; depth := depth p - 1; hb_line := t_line t; hb_col := t_col t;
                  hb_off := t_off t; oof := oof p |})
    else if negb (is_TUnquoted t) then
      (RIgnore, add_err p (tok_pos t) EKeywordNotUnquoted (Some (t_off t)))
    else ns_tail f t p
  end.
Proof. reflexivity. Qed.

Lemma stmt_ok_eq text kw h a ln cl off subs :
  stmt_ok text (Stmt kw h a ln cl off subs) <->
  ((kw <> [] -> (ln, cl) = linecol text off /\ text_at text off kw) /\ Forall (stmt_ok text) subs).
Proof.
  cbn [stmt_ok]. 
  assert (E : forall l, (fix all (l : list stmt) : Prop := match l with [] => True | x :: r => stmt_ok text x /\ all r end) l
                        <-> Forall (stmt_ok text) l).
  { induction l as [|x r IH]; [split; auto|]. split.
    - intros [A B]. constructor; [exact A|apply IH; exact B].
    - intros H. inversion H; subst. split; [assumption|apply IH; assumption]. }
  rewrite E. reflexivity.
Qed.

Lemma ignore_ok text : stmt_ok text (Stmt [] false [] 0 0 0 []).
Proof. apply stmt_ok_eq. split; [congruence|constructor]. Qed.

Lemma add_err_inv text p pos k subj : PInv text p ->
  err_ok text {| e_pos := pos; e_kind := k; e_subject := subj |} ->
  PInv text (add_err p pos k subj).
Proof.
  intros [(HI & HE & HS) HT] H. split; [|exact HT]. split; [exact HI|]. split; [|exact HS].
  cbn [add_err with_lx lx errs]. constructor; [exact H|exact HE].
Qed.

Lemma with_inPattern_inv text p b : PInv text p -> PInv text (with_lx p (with_inPattern (lx p) b)).
Proof. intros [(HI & HE & HS) HT]. split; [|exact HT]. split; [exact HI|split; [exact HE|exact HS]]. Qed.

Definition ns_post (text : str) (r : sres) (p' : parser) : Prop :=
  PInv text p' /\ (r = RBrace -> hb_ok text p') /\ (forall s, r = RStmt s -> stmt_ok text s).

Lemma subs_loop_inv text ns mk :
  (forall p r p', PInv text p -> ns p = (r, p') -> ns_post text r p') ->
  (forall l, Forall (stmt_ok text) l -> stmt_ok text (mk l)) ->
  forall n p acc r p', PInv text p -> Forall (stmt_ok text) acc -> subs_loop ns mk n p acc = (r, p') ->
  PInv text p' /\ r <> RBrace /\ (forall s, r = RStmt s -> stmt_ok text s).
Proof.
  intros Hns Hmk. induction n as [|n IH]; intros p acc r p' HP HA H; cbn [subs_loop] in H.
  - injection H as <- <-. split; [exact HP|split; discriminate].
  - destruct (ns p) as [r1 p1] eqn:H1. destruct (Hns _ _ _ HP H1) as (HP1 & _ & Hs).
    destruct r1.
    + injection H as <- <-. split; [exact HP1|split; discriminate].
    + injection H as <- <-. split; [exact HP1|split; [discriminate|]]. intros s Q; injection Q as <-.
      apply Hmk. apply Forall_rev. exact HA.
    + apply (IH _ _ _ _ HP1 (Forall_cons _ (ignore_ok text) HA) H).
    + apply (IH _ _ _ _ HP1 (Forall_cons _ (Hs _ eq_refl) HA) H).
Qed.

Lemma nextStatement_inv text fuel : forall p r p', PInv text p -> nextStatement fuel p = (r, p') -> ns_post text r p'.
Proof.
  induction fuel as [|f IH]; intros p r p' HP H.
  - cbn [nextStatement] in H. injection H as <- <-. split; [exact HP|split; discriminate].
  - rewrite nextStatement_eq in H.
    destruct (pnext p) as [t p1] eqn:H1. destruct (pnext_inv text _ _ _ HP H1) as [HP1 Ht].
    destruct t as [t|]; [|injection H as <- <-; split; [exact HP1|split; discriminate]].
    pose proof (Ht _ eq_refl) as [Hpos Hclaim].
    destruct (is_TChar cRB t).
    { injection H as <- <-. split; [exact HP1|split; [|discriminate]]. intros _. exact Hpos. }
    destruct (is_TUnquoted t) eqn:Hu; cbn [negb] in H.
    2:{ injection H as <- <-. split; [|split; discriminate]. apply add_err_inv; [exact HP1|apply err_ok_intro; exact Hpos]. }
    assert (Hkw : (t_line t, t_col t) = linecol text (t_off t) /\ text_at text (t_off t) (t_text t)).
    { split; [exact Hpos|]. unfold is_TUnquoted in Hu. destruct (t_code t); try discriminate. apply Hclaim. }
    clear Hclaim Ht.
    unfold ns_tail in H. cbv zeta in H.
    pose proof (with_inPattern_inv text p1 (str_eqb (t_text t) s_pattern) HP1) as HP2.
    destruct (pnext (with_lx p1 (with_inPattern (lx p1) (str_eqb (t_text t) s_pattern)))) as [t2 p3] eqn:H3.
    destruct (pnext_inv text _ _ _ HP2 H3) as [HP3 Ht2].
    pose proof (with_inPattern_inv text p3 false HP3) as HP4.
    set (p4 := with_lx p3 (with_inPattern (lx p3) false)) in *.
    assert (Tail : forall has arg t3 p5, PInv text p5 -> (forall t', t3 = Some t' -> tok_ok text t') ->
              match t3 with
              | None => (RNil, add_err p5 None EUnexpectedEOF None)
              | Some t3 =>
                if is_TChar cSEMI t3 then (RStmt (Stmt (t_text t) has arg (t_line t) (t_col t) (t_off t) []), p5)
                else if is_TChar cLB t3 then
                  subs_loop (nextStatement f) (fun l => Stmt (t_text t) has arg (t_line t) (t_col t) (t_off t) l) f
                    {| lx := lx p5; toks := toks p5; depth := depth p5 + 1; hb_line := hb_line p5;
                       hb_col := hb_col p5; hb_off := hb_off p5; oof := oof p5 |} []
                else (RIgnore, add_err p5 (tok_pos t3) ESyntax (Some (t_off t3)))
              end = (r, p') -> ns_post text r p').
    { intros has arg t3 p5 HP5 Ht3 Q. destruct t3 as [t3|].
      - destruct (is_TChar cSEMI t3).
        + injection Q as <- <-. split; [exact HP5|split; [discriminate|]]. intros s Q; injection Q as <-.
          apply stmt_ok_eq. split; [intros _; exact Hkw|constructor].
        + destruct (is_TChar cLB t3).
          * destruct (subs_loop_inv text (nextStatement f) _ IH
                        ltac:(intros l Hl; apply stmt_ok_eq; split; [intros _; exact Hkw|exact Hl])
                        _ _ _ _ _ (HP5 : PInv text (Build_parser _ _ _ _ _ _ _)) (Forall_nil _) Q) as (A & B & C).
            split; [exact A|split; [intro; contradiction|exact C]].
          * injection Q as <- <-. split; [|split; discriminate]. apply add_err_inv; [exact HP5|].
            destruct (Ht3 _ eq_refl) as [X _]. apply err_ok_intro. exact X.
      - injection Q as <- <-. split; [|split; discriminate]. apply add_err_inv; [exact HP5|exact I]. }
    destruct t2 as [a|].
    + destruct (is_TString a || is_TUnquoted a).
      * destruct (pnext p4) as [t3 p5] eqn:H5. destruct (pnext_inv text _ _ _ HP4 H5) as [HP5 Ht3].
        apply (Tail true (t_text a) t3 p5 HP5 Ht3 H).
      * apply (Tail false [] (Some a) p4 HP4 Ht2 H).
    + apply (Tail false [] None p4 HP4 Ht2 H).
Qed.

Lemma parse_loop_inv text fuel : forall n p acc ss p', PInv text p -> Forall (stmt_ok text) acc ->
  parse_loop fuel n p acc = (ss, p') -> PInv text p' /\ Forall (stmt_ok text) ss.
Proof.
  induction n as [|n IH]; intros p acc ss p' HP HA H; cbn [parse_loop] in H.
  - injection H as <- <-. split; [exact HP|apply Forall_rev; exact HA].
  - destruct (nextStatement fuel p) as [r p1] eqn:H1.
    destruct (nextStatement_inv text _ _ _ _ HP H1) as (HP1 & Hb & Hs).
    destruct r.
    + injection H as <- <-. split; [exact HP1|apply Forall_rev; exact HA].
    + refine (IH _ _ _ _ _ HA H). apply add_err_inv; [exact HP1|]. apply err_ok_intro. apply Hb. reflexivity.
    + apply (IH _ _ _ _ HP1 (Forall_cons _ (ignore_ok text) HA) H).
    + apply (IH _ _ _ _ HP1 (Forall_cons _ (Hs _ eq_refl) HA) H).
Qed.

Lemma newParser_inv input : PInv (terminated input) (newParser input).
Proof.
  split; [|constructor]. split; [constructor|split; [constructor|]].
  unfold SInv. cbn [newParser lx newLexer state cu]. split.
  - unfold zip. reflexivity.
  - left. unfold Exact. cbn. auto.
Qed.

Theorem Parse_positions input ss es o : Parse input = (ss, es, o) ->
  Forall (stmt_ok (terminated input)) ss /\ Forall (err_ok (terminated input)) es.
Proof.
  unfold Parse. cbv zeta.
  destruct (parse_loop (parse_fuel input) (parse_fuel input) (newParser input) []) as [ss0 p] eqn:Hl.
  destruct (parse_loop_inv (terminated input) _ _ _ _ _ _ (newParser_inv input) (Forall_nil _) Hl) as [HP HS].
  set (p' := match errs (lx p) with [] => _ | _ => _ end).
  assert (HP' : PInv (terminated input) p').
  { unfold p'. destruct (errs (lx p)); [|exact HP]. destruct (depth p =? 0); [exact HP|].
    apply add_err_inv; [exact HP|exact I]. }
  destruct HP' as [(_ & HE & _) _].
  destruct (errs (lx p')) as [|e es'] eqn:He; intros Q; injection Q as <- <- <-.
  - split; [exact HS|constructor].
  - split; [constructor|]. change (rev es' ++ [e]) with (rev (e :: es')). apply Forall_rev. exact HE.
Qed.

Lemma Parse_statement_positions input ss o :
  Parse input = (ss, [], o) -> Forall (stmt_ok (terminated input)) ss.
Proof. intro H. exact (proj1 (Parse_positions input ss [] o H)). Qed.
Lemma Parse_error_positions input ss es o :
  Parse input = (ss, es, o) -> Forall (err_ok (terminated input)) es.
Proof. intro H. exact (proj2 (Parse_positions input ss es o H)). Qed.

Lemma linecol_terminated input off :
  (off <= length input)%nat -> linecol (terminated input) off = linecol input off.
Proof.
  intro H. unfold terminated. destruct (rev input) as [|c r]; [reflexivity|].
  destruct (c =? cLF)%N; [reflexivity|]. unfold linecol. rewrite firstn_app.
  replace (off - length input)%nat with O by lia. cbn [firstn]. rewrite app_nil_r. reflexivity.
Qed.

(* ---------------------------------------------------------------- C02: shape of the result *)
Lemma Parse_reject_shape input ss es o : Parse input = (ss, es, o) ->
  (es <> [] -> ss = []) /\ (es = [] \/ ss = []).
Proof.
  unfold Parse. cbv zeta.
  destruct (parse_loop (parse_fuel input) (parse_fuel input) (newParser input) []) as [ss0 p].
  match goal with |- context [errs (lx ?q)] => destruct (errs (lx q)) as [|e es'] end;
    intros Q; injection Q as <- <- <-.
  - split; [congruence|left; reflexivity].
  - split; [reflexivity|right; reflexivity].
Qed.

(* ================================================================ C02: the parser accepts what the reference reader accepts *)
Definition frame (p p' : parser) : Prop := toks p' = toks p /\ depth p' = depth p /\ oof p' = oof p.

Lemma read_token_punct_indep text pat s c s3 :
  read_token text false s = TOk (KPunct c) s3 -> read_token text pat s = TOk (KPunct c) s3.
Proof.
  unfold read_token. destruct (skip InGap s) as [[|c0 r]|]; try discriminate.
  destruct (punct c0); [auto|]. destruct (c0 =? cSQ)%N; [destruct (squoted r) as [[u s']|]; discriminate|].
  destruct (c0 =? cDQ)%N.
  - destruct (dquoted false _ r); discriminate.
  - destruct (unquoted (c0 :: r)) as [u s']. destruct (opener_in (tl u)); discriminate.
Qed.

Lemma tok_matches_not_error k t : tok_matches k t -> is_TError t = false.
Proof. unfold is_TError. destruct k; cbn; try contradiction; intros [-> _]; reflexivity. Qed.

Definition raw_result (text : str) (p : parser) (res : option token * parser) (r : tres) : Prop :=
  match r with
  | TOk KEnd _ => exists p', res = (None, p') /\ same_errs (lx p) (lx p') /\ frame p p' /\ state (lx p') = SDone /\ items (lx p') = []
  | TOk k s' => exists t p', res = (Some t, p') /\ tok_matches k t /\ same_errs (lx p) (lx p') /\ frame p p' /\ glex text (lx p') s'
  | _ => True
  end.

Lemma raw_sim text p s : ~ In EOFR text -> lf_term text -> glex text (lx p) s ->
  raw_result text p (raw p) (read_token text (inPattern (lx p)) s).
Proof.
  intros NE LT G.
  assert (Hf : (2 * length s + 4 <= lex_fuel (lx p))%nat).
  { unfold lex_fuel. destruct G as (_ & _ & _ & ->). lia. }
  pose proof (NextToken_sim text NE LT (length s) s (lx p) _ (le_n _) G Hf) as R. unfold token_result in R.
  unfold raw, raw_fuel. replace (length (after (cu (lx p))) + 12)%nat with (S (length (after (cu (lx p))) + 11)) by lia.
  cbn [raw_next].
  destruct (read_token text (inPattern (lx p)) s) as [[u|u|c|] s'| |]; try exact I; cbn [tr_of raw_result] in *.
  1-3: destruct R as (t & l' & -> & M & SE & G'); rewrite (tok_matches_not_error _ _ M);
       exists t, (with_lx p l'); split; [reflexivity|split; [exact M|split; [exact SE|split; [repeat split|exact G']]]].
  destruct R as (l' & -> & SE & A & B). exists (with_lx p l'). split; [reflexivity|]. split; [exact SE|]. split; [repeat split|]. split; assumption.
Qed.

(* where the parser stands in the text: its lexer is in the ground state at [s], or it holds one pushed-back
   punctuation token and re-reading that token from [s] leads to where the lexer is *)
Inductive ppos (text : str) (p : parser) (s : str) : Prop :=
| PP_direct : toks p = [] -> glex text (lx p) s -> ppos text p s
| PP_pushed t c s1 : toks p = [t] -> tokq (TChar c) [c] t -> read_token text false s = TOk (KPunct c) s1 ->
                     glex text (lx p) s1 -> ppos text p s.

Definition pframe (p p' : parser) : Prop :=
  same_errs (lx p) (lx p') /\ depth p' = depth p /\ oof p' = oof p.
Lemma pframe_refl p : pframe p p. Proof. repeat split. Qed.
Lemma pframe_trans a b c : pframe a b -> pframe b c -> pframe a c.
Proof. intros (A1 & A2 & A3) (B1 & B2 & B3). split; [eapply same_errs_trans; eauto|split; congruence]. Qed.

Lemma is_code t c u : tokq c u t ->
  is_TString t = (match c with TString => true | _ => false end) /\
  is_TUnquoted t = (match c with TUnquoted => true | _ => false end) /\
  (forall d, is_TChar d t = match c with TChar e => (d =? e)%N | _ => false end).
Proof. intros [H _]. unfold is_TString, is_TUnquoted, is_TChar. rewrite H. destruct c; auto. Qed.

(* the concatenation loop *)
Lemma concat_loop_sim text : ~ In EOFR text -> lf_term text -> forall fs pat acc s1 arg s2 c s3,
  pieces fs text pat acc s1 = AOk true arg s2 -> read_token text false s2 = TOk (KPunct c) s3 ->
  forall fm t p, (fs <= fm)%nat -> toks p = [] -> glex text (lx p) s1 -> inPattern (lx p) = pat -> tokq TString acc t ->
  exists t' p', concat_loop fm t p = (Some t', p') /\ tokq TString arg t' /\ ppos text p' s2 /\ pframe p p' /\
                inPattern (lx p') = pat.
Proof.
  intros NE LT. induction fs as [|fs IH]; intros pat acc s1 arg s2 c s3 Hp Hr fm t p Hfm Ht G Hpat Hq; [discriminate|].
  destruct fm as [|fm]; [lia|]. cbn [pieces] in Hp. cbn [concat_loop].
  pose proof (raw_sim text p s1 NE LT G) as R1. rewrite Hpat in R1.
  destruct (read_token text pat s1) as [[u|u|c1|] s1'| |] eqn:E1; try discriminate.
  - (* an unquoted token: must be + *)
    destruct R1 as (nt & p1 & -> & M1 & SE1 & (F1a & F1b & F1c) & G1).
    destruct (is_code _ _ _ M1) as (_ & -> & _). destruct M1 as [_ M1t]. rewrite M1t. cbn [andb].
    destruct (str_eqb u s_plus) eqn:Eplus.
    + pose proof (raw_sim text p1 s1' NE LT G1) as R2.
      assert (Hpat1 : inPattern (lx p1) = pat) by (destruct SE1 as (_ & _ & ->); exact Hpat). rewrite Hpat1 in R2.
      destruct (read_token text pat s1') as [[v|v|c2|] s2'| |] eqn:E2; try discriminate.
      destruct R2 as (nnt & p2 & -> & M2 & SE2 & (F2a & F2b & F2c) & G2).
      destruct (is_code _ _ _ M2) as (-> & _ & _).
      destruct (IH pat (acc ++ v) s2' arg s2 c s3 Hp Hr fm (set_text t (t_text t ++ t_text nnt)) p2 ltac:(lia)) as (t' & p' & A & B & C & D & E).
      * rewrite F2a, F1a. exact Ht.
      * exact G2.
      * destruct SE2 as (_ & _ & ->). exact Hpat1.
      * destruct Hq as [Hq1 Hq2]. destruct M2 as [_ M2t]. split; [exact Hq1|]. cbn [set_text t_text]. rewrite Hq2, M2t. reflexivity.
      * exists t', p'. split; [exact A|split; [exact B|split; [exact C|split; [|exact E]]]].
        eapply pframe_trans; [|exact D]. eapply pframe_trans; [split; [exact SE1|split; assumption]|split; [exact SE2|split; assumption]].
    + (* not a + : then it would have to be the punctuation that follows; impossible *)
      injection Hp as <- <-. rewrite (read_token_punct_indep text pat s1 c s3 Hr) in E1. discriminate.
  - injection Hp as <- <-. rewrite (read_token_punct_indep text pat s1 c s3 Hr) in E1. discriminate.
  - (* the punctuation that follows the argument: pushed back *)
    injection Hp as <- <-. rewrite (read_token_punct_indep text pat s1 c s3 Hr) in E1. injection E1 as <- <-.
    destruct R1 as (nt & p1 & -> & M1 & SE1 & (F1a & F1b & F1c) & G1).
    destruct (is_code _ _ _ M1) as (_ & -> & _). cbn [andb].
    exists t, (with_toks p1 (nt :: toks p1)). split; [reflexivity|]. split; [exact Hq|]. split.
    + apply (PP_pushed text _ s1 nt c s3); [cbn [with_toks toks]; rewrite F1a, Ht; reflexivity|exact M1|exact Hr|exact G1].
    + split; [split; [exact SE1|split; assumption]|]. cbn [with_toks lx]. destruct SE1 as (_ & _ & ->). exact Hpat.
  - injection Hp as <- <-. rewrite (read_token_punct_indep text pat s1 c s3 Hr) in E1. discriminate.
Qed.

(* pnext on a token that is not a quoted string *)
Lemma pnext_plain text p s k s' : ~ In EOFR text -> lf_term text -> ppos text p s ->
  read_token text (inPattern (lx p)) s = TOk k s' -> (forall u, k <> KStr u) ->
  match k with
  | KEnd => exists p', pnext p = (None, p') /\ pframe p p' /\ toks p' = []
  | _ => exists t p', pnext p = (Some t, p') /\ tok_matches k t /\ pframe p p' /\ toks p' = [] /\ glex text (lx p') s'
  end.
Proof.
  intros NE LT P Hr Hk. destruct P as [Ht G|t c s1 Ht Hq Hr' G].
  - unfold pnext. rewrite Ht. pose proof (raw_sim text p s NE LT G) as R. rewrite Hr in R.
    destruct k as [u|u|c|]; cbn [raw_result] in R.
    + destruct R as (t & p' & -> & M & SE & (F1 & F2 & F3) & G'). destruct (is_code _ _ _ M) as (-> & _).
      exists t, p'. split; [reflexivity|]. split; [exact M|]. split; [split; [exact SE|split; assumption]|].
      split; [rewrite F1; exact Ht|exact G'].
    + exfalso. apply (Hk u). reflexivity.
    + destruct R as (t & p' & -> & M & SE & (F1 & F2 & F3) & G'). destruct (is_code _ _ _ M) as (-> & _).
      exists t, p'. split; [reflexivity|]. split; [exact M|]. split; [split; [exact SE|split; assumption]|].
      split; [rewrite F1; exact Ht|exact G'].
    + destruct R as (p' & -> & SE & (F1 & F2 & F3) & _). exists p'. split; [reflexivity|].
      split; [split; [exact SE|split; assumption]|rewrite F1; exact Ht].
  - rewrite (read_token_punct_indep text _ s c s1 Hr') in Hr. injection Hr as <- <-.
    unfold pnext. rewrite Ht. exists t, (with_toks p []). split; [reflexivity|]. split; [exact Hq|].
    split; [repeat split|]. split; [reflexivity|exact G].
Qed.

(* the optional argument and the token after it *)
Definition read_arg (p : parser) (pat : bool) : bool * str * option token * parser :=
  let p := with_lx p (with_inPattern (lx p) pat) in
  let (t2, p) := pnext p in
  let p := with_lx p (with_inPattern (lx p) false) in
  match t2 with
  | Some a => if is_TString a || is_TUnquoted a
              then let (t3, p) := pnext p in (true, t_text a, t3, p)
              else (false, [], t2, p)
  | None => (false, [], t2, p)
  end.

Lemma ns_tail_eq f t p : ns_tail f t p =
  let '(has, arg, t3, p) := read_arg p (str_eqb (t_text t) s_pattern) in
  match t3 with
  | None => (RNil, add_err p None EUnexpectedEOF None)
  | Some t3 =>
    if is_TChar cSEMI t3 then (RStmt (Stmt (t_text t) has arg (t_line t) (t_col t) (t_off t) []), p)
    else if is_TChar cLB t3 then
      subs_loop (nextStatement f) (fun l => Stmt (t_text t) has arg (t_line t) (t_col t) (t_off t) l) f
        {| lx := lx p; toks := toks p; depth := depth p + 1; hb_line := hb_line p;
           hb_col := hb_col p; hb_off := hb_off p; oof := oof p |} []
    else (RIgnore, add_err p (tok_pos t3) ESyntax (Some (t_off t3)))
  end.
Proof.
  unfold ns_tail, read_arg. cbv zeta.
  destruct (pnext (with_lx p (with_inPattern (lx p) (str_eqb (t_text t) s_pattern)))) as [t2 p1].
  destruct t2 as [a|]; [|reflexivity]. destruct (is_TString a || is_TUnquoted a); [|reflexivity].
  destruct (pnext (with_lx p1 (with_inPattern (lx p1) false))) as [t3 p2]. reflexivity.
Qed.

Lemma glex_inPattern text l s b : glex text l s -> glex text (with_inPattern l b) s.
Proof. intros (A & B & C & D). repeat split; auto; apply C. Qed.

Lemma pieces_has text pat : forall f acc s has arg s2, pieces f text pat acc s = AOk has arg s2 -> has = true.
Proof.
  induction f as [|f IH]; intros acc s has arg s2 H; [discriminate|]. cbn [pieces] in H.
  destruct (read_token text pat s) as [[u|u|c|] s1| |]; try discriminate; try (injection H as <- _ _; reflexivity).
  destruct (str_eqb u s_plus); [|injection H as <- _ _; reflexivity].
  destruct (read_token text pat s1) as [[v|v|c|] s1'| |]; try discriminate. eapply IH; eauto.
Qed.

Lemma read_arg_sim text p s1 pat has arg s2 c s3 : ~ In EOFR text -> lf_term text ->
  toks p = [] -> glex text (lx p) s1 ->
  argument text pat s1 = AOk has arg s2 -> read_token text false s2 = TOk (KPunct c) s3 ->
  exists t3 p', read_arg p pat = (has, arg, Some t3, p') /\ tokq (TChar c) [c] t3 /\
                toks p' = [] /\ glex text (lx p') s3 /\ inPattern (lx p') = false /\
                errs (lx p') = errs (lx p) /\ errcnt (lx p') = errcnt (lx p) /\ depth p' = depth p /\ oof p' = oof p.
Proof.
  intros NE LT Ht G Ha Hr. unfold read_arg. cbv zeta.
  set (p0 := with_lx p (with_inPattern (lx p) pat)).
  assert (G0 : glex text (lx p0) s1) by (apply glex_inPattern; exact G).
  assert (P0 : ppos text p0 s1) by (apply PP_direct; [exact Ht|exact G0]).
  unfold argument in Ha.
  destruct (read_token text pat s1) as [[u|u|c1|] s1'| |] eqn:E1; try discriminate.
  - (* unquoted argument *)
    injection Ha as <- <- <-.
    destruct (pnext_plain text p0 s1 (KUnq u) s1' NE LT P0 E1 ltac:(discriminate)) as (t2 & p1 & -> & M & (SE & D1 & O1) & T1 & G1).
    destruct (is_code _ _ _ M) as (_ & -> & _). rewrite orb_true_r.
    set (p2 := with_lx p1 (with_inPattern (lx p1) false)).
    assert (P2 : ppos text p2 s1') by (apply PP_direct; [exact T1|apply glex_inPattern; exact G1]).
    destruct (pnext_plain text p2 s1' (KPunct c) s3 NE LT P2 Hr ltac:(discriminate)) as (t3 & p3 & -> & M3 & (SE3 & D3 & O3) & T3 & G3).
    exists t3, p3. destruct M as [_ ->]. split; [reflexivity|]. split; [exact M3|]. split; [exact T3|]. split; [exact G3|].
    destruct SE as (S1 & S2 & S3). destruct SE3 as (S4 & S5 & S6).
    unfold p2, p0 in *. cbn [with_lx lx with_inPattern errs errcnt inPattern depth oof] in *.
    repeat split; congruence.
  - (* quoted pieces *)
    unfold pnext at 1. change (toks p0) with (toks p). rewrite Ht.
    pose proof (raw_sim text p0 s1 NE LT G0) as R. change (inPattern (lx p0)) with pat in R. rewrite E1 in R.
    destruct R as (t2 & p1 & -> & M & SE & (F1 & F2 & F3) & G1).
    destruct (is_code _ _ _ M) as (-> & _).
    assert (Hp1 : inPattern (lx p1) = pat) by (destruct SE as (_ & _ & ->); reflexivity).
    assert (Hhas : has = true) by (eapply pieces_has; eauto). subst has.
    assert (Hfm : (S (length s1') <= S (length (after (cu (lx p1)))))%nat) by (destruct G1 as (_ & _ & _ & ->); lia).
    destruct (concat_loop_sim text NE LT _ pat u s1' arg s2 c s3 Ha Hr (S (length (after (cu (lx p1))))) t2 p1 Hfm
                ltac:(rewrite F1; exact Ht) G1 Hp1 M) as (t' & p' & -> & B & C & (SE' & D' & O') & E).
    destruct (is_code _ _ _ B) as (-> & _). cbn [orb].
    set (p2 := with_lx p' (with_inPattern (lx p') false)).
    assert (P2 : ppos text p2 s2).
    { destruct C as [Ct Cg|tt cc ss Ct Cq Cr Cg].
      - apply PP_direct; [exact Ct|apply glex_inPattern; exact Cg].
      - apply (PP_pushed text p2 s2 tt cc ss); [exact Ct|exact Cq|exact Cr|apply glex_inPattern; exact Cg]. }
    destruct (pnext_plain text p2 s2 (KPunct c) s3 NE LT P2 Hr ltac:(discriminate)) as (t3 & p3 & -> & M3 & (SE3 & D3 & O3) & T3 & G3).
    exists t3, p3. destruct B as [_ ->]. split; [reflexivity|]. split; [exact M3|]. split; [exact T3|]. split; [exact G3|].
    destruct SE as (S1 & S2 & S3). destruct SE' as (S1' & S2' & S3'). destruct SE3 as (S4 & S5 & S6).
    unfold p2, p0 in *. cbn [with_lx lx with_inPattern errs errcnt inPattern depth oof] in *.
    repeat split; congruence.
  - (* no argument: punctuation *)
    injection Ha as <- <- <-. rewrite (read_token_punct_indep text pat s1 c s3 Hr) in E1. injection E1 as <- <-.
    destruct (pnext_plain text p0 s1 (KPunct c) s3 NE LT P0 (read_token_punct_indep text pat s1 c s3 Hr) ltac:(discriminate))
      as (t2 & p1 & -> & M & (SE & D1 & O1) & T1 & G1).
    destruct (is_code _ _ _ M) as (-> & -> & _). cbn [orb].
    exists t2, (with_lx p1 (with_inPattern (lx p1) false)). split; [reflexivity|]. split; [exact M|]. split; [exact T1|].
    split; [apply glex_inPattern; exact G1|]. destruct SE as (S1 & S2 & S3).
    unfold p0 in *. cbn [with_lx lx with_inPattern errs errcnt inPattern depth oof] in *. repeat split; congruence.
  - (* no argument: end of text; then no punctuation follows *)
    injection Ha as <- <- <-. rewrite (read_token_punct_indep text pat s1 c s3 Hr) in E1. discriminate.
Qed.

(* calling nextStatement again and again from [p] yields the statements [ss] and then [r] *)
Inductive reads (mf : nat) : parser -> list stmt -> sres -> parser -> Prop :=
| reads_end p r p' : nextStatement mf p = (r, p') -> (r = RBrace \/ r = RNil) -> reads mf p [] r p'
| reads_cons p s p1 ss r p' : nextStatement mf p = (RStmt s, p1) -> reads mf p1 ss r p' -> reads mf p (s :: ss) r p'.

Lemma subs_loop_reads mf mk : forall p ss r p', reads mf p ss r p' -> forall n acc, (length ss < n)%nat ->
  subs_loop (nextStatement mf) mk n p acc =
  (match r with RBrace => RStmt (mk (rev acc ++ ss)) | _ => RNil end, p').
Proof.
  induction 1 as [p r p' H Hr|p s p1 ss r p' H _ IH]; intros n acc Hn; (destruct n as [|n]; [cbn in Hn; lia|]); cbn [subs_loop]; rewrite H.
  - destruct Hr as [->| ->]; [rewrite app_nil_r|]; reflexivity.
  - rewrite IH by (cbn [length] in Hn; lia). cbn [rev]. rewrite <- app_assoc. reflexivity.
Qed.

Lemma parse_loop_reads mf : forall p ss p', reads mf p ss RNil p' -> forall n acc, (length ss < n)%nat ->
  parse_loop mf n p acc = (rev acc ++ ss, p').
Proof.
  intros p ss p' H. remember RNil as r eqn:Er. induction H as [p r p' H Hr|p s p1 ss r p' H _ IH]; intros n acc Hn;
    (destruct n as [|n]; [cbn in Hn; lia|]); cbn [parse_loop]; rewrite H.
  - subst r. rewrite app_nil_r. reflexivity.
  - rewrite (IH Er) by (cbn [length] in Hn; lia). cbn [rev]. rewrite <- app_assoc. reflexivity.
Qed.

Definition pframe' (p p' : parser) : Prop :=
  errs (lx p') = errs (lx p) /\ errcnt (lx p') = errcnt (lx p) /\ oof p' = oof p.

Lemma stmts_sim text : ~ In EOFR text -> lf_term text -> forall fs s nodes closed rest,
  stmts fs text s = POk nodes closed rest ->
  forall p mf, (fs <= mf)%nat -> ppos text p s -> inPattern (lx p) = false ->
  exists ss r p', reads mf p ss r p' /\ map erase ss = nodes /\ (length ss < fs)%nat /\ pframe' p p' /\
    (if closed then r = RBrace /\ ppos text p' rest /\ inPattern (lx p') = false /\ depth p' = depth p - 1
     else r = RNil /\ depth p' = depth p).
Proof.
  intros NE LT. induction fs as [|fs IH]; intros s nodes closed rest Hs p mf Hmf P Hpat; [discriminate|].
  destruct mf as [|mf]; [lia|]. cbn [stmts] in Hs.
  destruct (read_token text false s) as [[kw|u|c|] s1| |] eqn:E1; try discriminate.
  - (* a keyword *)
    destruct (argument text (str_eqb kw s_pattern) s1) as [has arg s2| |] eqn:Ea; try discriminate.
    destruct (read_token text false s2) as [[u|u|c|] s3| |] eqn:E3; try discriminate.
    assert (E1' : read_token text (inPattern (lx p)) s = TOk (KUnq kw) s1) by (rewrite Hpat; exact E1).
    destruct (pnext_plain text p s (KUnq kw) s1 NE LT P E1' ltac:(discriminate)) as (t & p1 & Hn1 & M & (SE1 & D1 & O1) & T1 & G1).
    destruct (is_code _ _ _ M) as (_ & Hu & Hc). destruct M as [_ Mt].
    destruct (read_arg_sim text p1 s1 _ has arg s2 c s3 NE LT T1 G1 Ea E3) as (t3 & p2 & Hra & M3 & T2 & G2 & Hp2 & X1 & X2 & X3 & X4).
    destruct (is_code _ _ _ M3) as (_ & _ & Hc3).
    assert (Hns : nextStatement (S mf) p =
              let '(has, arg, t3, p) := read_arg p1 (str_eqb (t_text t) s_pattern) in
              match t3 with
              | None => (RNil, add_err p None EUnexpectedEOF None)
              | Some t3 =>
                if is_TChar cSEMI t3 then (RStmt (Stmt (t_text t) has arg (t_line t) (t_col t) (t_off t) []), p)
                else if is_TChar cLB t3 then
                  subs_loop (nextStatement mf) (fun l => Stmt (t_text t) has arg (t_line t) (t_col t) (t_off t) l) mf
                    {| lx := lx p; toks := toks p; depth := depth p + 1; hb_line := hb_line p;
                       hb_col := hb_col p; hb_off := hb_off p; oof := oof p |} []
                else (RIgnore, add_err p (tok_pos t3) ESyntax (Some (t_off t3)))
              end).
    { rewrite nextStatement_eq, Hn1. rewrite (Hc cRB). change (cRB =? _)%N with false. cbv iota.
      rewrite Hu. cbn [negb]. apply ns_tail_eq. }
    rewrite Mt, Hra in Hns. rewrite (Hc3 cSEMI), (Hc3 cLB) in Hns.
    assert (SE01 : errs (lx p1) = errs (lx p) /\ errcnt (lx p1) = errcnt (lx p)) by (destruct SE1 as (A & B & _); auto).
    destruct (N.eqb_spec c cSEMI) as [->|Nsemi].
    + (* kw [arg] ; *)
      rewrite N.eqb_refl in Hns.
      destruct (stmts fs text s3) as [f1 cl1 r1| |] eqn:Es3; try discriminate. cbn [pcons] in Hs. injection Hs as <- <- <-.
      destruct (IH s3 f1 cl1 r1 Es3 p2 (S mf) ltac:(lia) (PP_direct text p2 s3 T2 G2) Hp2) as (ss & r & p' & R & Em & Hl & (Y1 & Y2 & Y3) & Hcl).
      exists (Stmt kw has arg (t_line t) (t_col t) (t_off t) [] :: ss), r, p'.
      split; [eapply reads_cons; [exact Hns|exact R]|]. split; [cbn [map erase]; rewrite Em; reflexivity|].
      split; [cbn [length]; lia|]. split; [repeat split; destruct SE01; congruence|].
      destruct cl1; [destruct Hcl as (A & B & C & D); repeat split; auto; congruence|destruct Hcl as (A & D); split; [exact A|congruence]].
    + destruct (N.eqb_spec c cLB) as [->|Nlb]; [|discriminate].
      (* kw [arg] { ... } *)
      destruct (stmts fs text s3) as [subs cl1 s4| |] eqn:Es3; try discriminate. destruct cl1; [|discriminate].
      destruct (stmts fs text s4) as [f2 cl2 r2| |] eqn:Es4; try discriminate. cbn [pcons] in Hs. injection Hs as <- <- <-.
      set (p3 := {| lx := lx p2; toks := toks p2; depth := depth p2 + 1; hb_line := hb_line p2;
                    hb_col := hb_col p2; hb_off := hb_off p2; oof := oof p2 |}) in *.
      destruct (IH s3 subs true s4 Es3 p3 mf ltac:(lia) (PP_direct text p3 s3 T2 G2) Hp2) as (ss1 & r1 & p4 & R1 & Em1 & Hl1 & (Y1 & Y2 & Y3) & (-> & P4 & Hp4 & D4)).
      rewrite (subs_loop_reads mf _ p3 ss1 RBrace p4 R1 mf [] ltac:(lia)) in Hns. cbn [rev app] in Hns.
      destruct (IH s4 f2 cl2 r2 Es4 p4 (S mf) ltac:(lia) P4 Hp4) as (ss & r & p' & R & Em & Hl & (Z1 & Z2 & Z3) & Hcl).
      exists (Stmt kw has arg (t_line t) (t_col t) (t_off t) ss1 :: ss), r, p'.
      split; [eapply reads_cons; [exact Hns|exact R]|]. split; [cbn [map erase]; rewrite Em, Em1; reflexivity|].
      split; [cbn [length]; lia|].
      cbn [p3 lx depth oof] in *.
      split; [repeat split; destruct SE01; congruence|].
      destruct cl2; [destruct Hcl as (A & B & C & D); repeat split; auto; lia|destruct Hcl as (A & D); split; [exact A|lia]].
  - (* } *)
    destruct (N.eqb_spec c cRB) as [->|]; [|discriminate]. injection Hs as <- <- <-.
    assert (E1' : read_token text (inPattern (lx p)) s = TOk (KPunct cRB) s1) by (rewrite Hpat; exact E1).
    destruct (pnext_plain text p s (KPunct cRB) s1 NE LT P E1' ltac:(discriminate)) as (t & p1 & Hn1 & M & (SE1 & D1 & O1) & T1 & G1).
    destruct (is_code _ _ _ M) as (_ & _ & Hc).
    set (p2 := {| lx := lx p1; toks := toks p1; depth := depth p1 - 1; hb_line := t_line t; hb_col := t_col t;
                  hb_off := t_off t; oof := oof p1 |}).
    exists [], RBrace, p2. split.
    + apply reads_end; [|left; reflexivity]. rewrite nextStatement_eq, Hn1, (Hc cRB), N.eqb_refl. reflexivity.
    + split; [reflexivity|]. split; [cbn; lia|]. destruct SE1 as (A & B & C).
      split; [repeat split; assumption|]. split; [reflexivity|]. split; [apply PP_direct; [exact T1|exact G1]|].
      split; [cbn [p2 lx]; congruence|cbn [p2 depth]; lia].
  - (* end of text *)
    injection Hs as <- <- <-.
    assert (E1' : read_token text (inPattern (lx p)) s = TOk KEnd s1) by (rewrite Hpat; exact E1).
    destruct (pnext_plain text p s KEnd s1 NE LT P E1' ltac:(discriminate)) as (p1 & Hn1 & (SE1 & D1 & O1) & T1).
    exists [], RNil, p1. split.
    + apply reads_end; [|right; reflexivity]. rewrite nextStatement_eq, Hn1. reflexivity.
    + split; [reflexivity|]. split; [cbn; lia|]. destruct SE1 as (A & B & C). split; [repeat split; assumption|].
      split; [reflexivity|exact D1].
Qed.

Lemma terminated_lf input : lf_term (terminated input).
Proof.
  unfold terminated. destruct (rev input) as [|c r] eqn:E; [left; destruct input; [reflexivity|]|].
  - apply (f_equal (@length rune)) in E. rewrite rev_length in E. discriminate.
  - destruct (N.eqb_spec c cLF) as [->|]; right; [|eexists; reflexivity].
    exists (rev r). rewrite <- (rev_involutive input), E. reflexivity.
Qed.
Lemma terminated_in input c : In c (terminated input) -> In c input \/ c = cLF.
Proof.
  unfold terminated. destruct (rev input) as [|x r]; [auto|]. destruct (x =? cLF)%N; [auto|].
  intro H. apply in_app_or in H. destruct H as [H|[H|[]]]; auto.
Qed.
Lemma terminated_length input : (length (terminated input) <= S (length input))%nat.
Proof.
  unfold terminated. destruct (rev input) as [|x r]; [lia|]. destruct (x =? cLF)%N; [lia|]. rewrite app_length. cbn. lia.
Qed.

Theorem Parse_accepts input f : ~ In EOFR input -> spec_parse (terminated input) = Accept f ->
  exists ss, Parse input = (ss, [], false) /\ map erase ss = f.
Proof.
  intros NE0 H. set (T := terminated input) in *.
  assert (NE : ~ In EOFR T).
  { intro Q. destruct (terminated_in _ _ Q) as [Q'|Q']; [exact (NE0 Q')|vm_compute in Q'; discriminate Q']. }
  pose proof (terminated_lf input) as LT. fold T in LT.
  unfold spec_parse in H. destruct (stmts (S (length T)) T T) as [f0 cl rest| |] eqn:Es; try discriminate.
  destruct cl; [discriminate|]. injection H as <-.
  assert (P0 : ppos T (newParser input) T).
  { apply PP_direct; [reflexivity|]. split; [reflexivity|]. split; [reflexivity|]. split; [|reflexivity].
    destruct (newParser_inv input) as [(_ & _ & L) _]. exact L. }
  assert (Hmf : (S (length T) <= parse_fuel input)%nat).
  { unfold parse_fuel. pose proof (terminated_length input). fold T in H. lia. }
  destruct (stmts_sim T NE LT _ _ _ _ _ Es (newParser input) (parse_fuel input) Hmf P0 eq_refl)
    as (ss & r & p' & R & Em & Hl & (Y1 & Y2 & Y3) & (-> & D)).
  exists ss. split; [|exact Em].
  unfold Parse. cbv zeta.
  rewrite (parse_loop_reads _ _ _ _ R (parse_fuel input) [] ltac:(lia)). cbn [rev app].
  change (errs (lx (newParser input))) with (@nil perr) in Y1. change (oof (newParser input)) with false in Y3.
  change (depth (newParser input)) with 0 in D.
  rewrite Y1, D. cbn. rewrite Y1, Y3. reflexivity.
Qed.
