(* C08 — lemmas about ApplyDeviate as modelled in Model/Schema.v (apply_add_replace, apply_delete, apply_deviates,
   apply_deviations, the deviation pass of Process) and about the reference semantics Spec/C08.v.

   1  strings, association lists, kinds, setters                       (str_eqb_eq .. bounded_la)
   2  the model's add/replace and delete split into stages              (apply_add_replace_stages, apply_delete_stages)
   3  stage-by-stage agreement with the reference edits                 (set_agree, del_agree)
   4  positions, locate after update_at: at, below, away, above         (locate_update_at_.., locate_pos_update_..)
   5  T1: the loop over the deviate statements agrees with spec_apply_all (deviates_agree, deviates_agree_top),
      one deviation (deviation_agree), the deviations of a module (module_agree)
   6  what remove_target / replace_attrs do to a forest                 (remove_target_.., replace_attrs_..)
   7  T2: frame of the model without hypotheses                         (deviation_frame_.., jobs_frame, Process_frame)
   8  T3: IgnoreDeviateNotSupported                                     (ignore_not_supported..)
   9  Process = pre_dev + deviation pass; T4: what is reported          (Process_split, Process_reports_.., .._errs)
  10  what a path lookup creates and its frame                          (find_created, Find_frame)
  11  T1 for the whole pass and for Process on C04's tree invariant     (jobs_agree, Process_agrees)
  12  Process without the deviation statements                          (Process_strip, Process_frame_without) *)
From Coq Require Import List NArith Bool Lia.
From GY Require Import Model.Schema Spec.C08 Proofs.DeviationStripProofs.
From GY Require Spec.C04 Proofs.TreeInvProofs.
Import ListNotations.
Local Open Scope N_scope.

(* ------------------------------------------------------------------ strings and association lists *)
Lemma str_eqb_eq : forall a b, str_eqb a b = true <-> a = b.
Proof.
  induction a as [|x a IH]; destruct b as [|y b]; cbn; split; intro H; try discriminate; auto.
  - apply andb_true_iff in H. destruct H as [H1 H2]. apply N.eqb_eq in H1. apply IH in H2. congruence.
  - inversion H; subst. rewrite N.eqb_refl. cbn. apply IH. reflexivity.
Qed.

Lemma str_eqb_refl : forall a, str_eqb a a = true.
Proof. intro a. apply str_eqb_eq. reflexivity. Qed.

Lemma str_eqb_neq : forall a b, str_eqb a b = false <-> a <> b.
Proof.
  intros a b. split; intro H.
  - intro E. apply str_eqb_eq in E. congruence.
  - destruct (str_eqb a b) eqn:E; auto. apply str_eqb_eq in E. contradiction.
Qed.

Lemma str_eqb_sym : forall a b, str_eqb a b = str_eqb b a.
Proof.
  intros a b. destruct (str_eqb a b) eqn:E.
  - apply str_eqb_eq in E. subst. symmetry. apply str_eqb_refl.
  - symmetry. apply str_eqb_neq. apply str_eqb_neq in E. congruence.
Qed.

Section Assoc.
Context {A : Type}.

Lemma lookup_update_same : forall k (v : A) l, lookup k l <> None -> lookup k (update k v l) = Some v.
Proof.
  induction l as [|[k' v'] r IH]; cbn; intro H; [congruence|].
  destruct (str_eqb k k') eqn:E; cbn; rewrite E; auto.
Qed.

Lemma lookup_update_other : forall k k' (v : A) l, str_eqb k k' = false -> lookup k (update k' v l) = lookup k l.
Proof.
  induction l as [|[k2 v2] r IH]; cbn; intro H; auto.
  destruct (str_eqb k' k2) eqn:E; cbn.
  - apply str_eqb_eq in E. subst. rewrite H. reflexivity.
  - destruct (str_eqb k k2); auto.
Qed.

Lemma lookup_remove_other : forall k k' (l : list (str * A)), str_eqb k k' = false -> lookup k (remove k' l) = lookup k l.
Proof.
  induction l as [|[k2 v2] r IH]; cbn; intro H; auto.
  destruct (str_eqb k' k2) eqn:E; cbn.
  - apply str_eqb_eq in E. subst. rewrite H. reflexivity.
  - destruct (str_eqb k k2); auto.
Qed.

Lemma lookup_notin : forall k (l : list (str * A)), ~ In k (map fst l) -> lookup k l = None.
Proof.
  induction l as [|[k2 v2] r IH]; cbn; intro H; auto.
  destruct (str_eqb k k2) eqn:E.
  - apply str_eqb_eq in E. subst. exfalso. apply H. left. reflexivity.
  - apply IH. intro. apply H. right. assumption.
Qed.

Lemma lookup_remove_same : forall k (l : list (str * A)), NoDup (map fst l) -> lookup k (remove k l) = None.
Proof.
  induction l as [|[k2 v2] r IH]; cbn; intro H; auto.
  inversion H as [|? ? Hn Hd]; subst.
  destruct (str_eqb k k2) eqn:E; cbn.
  - apply str_eqb_eq in E. subst. apply lookup_notin. assumption.
  - rewrite E. auto.
Qed.

Lemma update_id : forall k (v : A) l, lookup k l = Some v -> update k v l = l.
Proof.
  induction l as [|[k2 v2] r IH]; cbn; intro H; auto.
  destruct (str_eqb k k2) eqn:E.
  - inversion H; subst. reflexivity.
  - rewrite IH; auto.
Qed.

Lemma map_fst_update : forall k (v : A) l, map fst (update k v l) = map fst l.
Proof.
  induction l as [|[k2 v2] r IH]; cbn; auto.
  destruct (str_eqb k k2); cbn; congruence.
Qed.
End Assoc.

(* ------------------------------------------------------------------ kinds *)
Lemma kind_of_spec : forall s,
  match kind_of s with
  | Some DKNotSupported => str_eqb s s_notsupported = true
  | Some DKAdd => str_eqb s s_notsupported = false /\ str_eqb s s_add = true
  | Some DKReplace => str_eqb s s_notsupported = false /\ str_eqb s s_add = false /\ str_eqb s s_replace = true
  | Some DKDelete => str_eqb s s_notsupported = false /\ str_eqb s s_add = false /\ str_eqb s s_replace = false
                     /\ str_eqb s s_delete = true
  | None => str_eqb s s_notsupported = false /\ str_eqb s s_add = false /\ str_eqb s s_replace = false
            /\ str_eqb s s_delete = false
  end.
Proof.
  intro s. unfold kind_of.
  destruct (str_eqb s s_add) eqn:Ea.
  { apply str_eqb_eq in Ea. subst. split; reflexivity. }
  destruct (str_eqb s s_replace) eqn:Er.
  { apply str_eqb_eq in Er. subst. repeat split; reflexivity. }
  destruct (str_eqb s s_delete) eqn:Ed.
  { apply str_eqb_eq in Ed. subst. repeat split; reflexivity. }
  destruct (str_eqb s s_notsupported) eqn:En; auto.
Qed.

(* ------------------------------------------------------------------ setters and observers *)
Ltac de e := destruct e as [en ek ec em ed eu et eky [[[emn emx] [ehm ehx]]|] ens edir erpc].

Definition shape (e : entry) :=
  (e_name e, e_kind e, e_key e, e_ns e, e_dir e, e_rpc e, match e_la e with Some _ => true | None => false end).

Lemma isLeafList_shape : forall e,
  isLeafList e = match shape e with
                 | (_, k, _, _, d, _, b) => match d, k, b with None, KLeaf, true => true | _, _, _ => false end
                 end.
Proof. intro e. de e; cbn; destruct edir, ek; reflexivity. Qed.
Lemma isList_shape : forall e,
  isList e = match shape e with (_, _, _, _, d, _, b) => match d, b with Some _, true => true | _, _ => false end end.
Proof. intro e. de e; cbn; destruct edir; reflexivity. Qed.
Lemma shape_isLeafList : forall a b, shape a = shape b -> isLeafList a = isLeafList b.
Proof. intros a b H. rewrite !isLeafList_shape, H. reflexivity. Qed.
Lemma shape_isList : forall a b, shape a = shape b -> isList a = isList b.
Proof. intros a b H. rewrite !isList_shape, H. reflexivity. Qed.
Lemma shape_bounded : forall a b, shape a = shape b -> bounded a = bounded b.
Proof. intros. unfold bounded. erewrite shape_isList, shape_isLeafList; eauto. Qed.

Lemma shape_set_cfg : forall e c, shape (set_cfg e c) = shape e. Proof. intros; de e; reflexivity. Qed.
Lemma shape_set_mand : forall e c, shape (set_mand e c) = shape e. Proof. intros; de e; reflexivity. Qed.
Lemma shape_set_dflt : forall e c, shape (set_dflt e c) = shape e. Proof. intros; de e; reflexivity. Qed.
Lemma shape_set_units : forall e c, shape (set_units e c) = shape e. Proof. intros; de e; reflexivity. Qed.
Lemma shape_set_ty : forall e c, shape (set_ty e c) = shape e. Proof. intros; de e; reflexivity. Qed.
Lemma shape_with_min : forall e c w, shape (with_min e c w) = shape e. Proof. intros; de e; reflexivity. Qed.
Lemma shape_with_max : forall e c w, shape (with_max e c w) = shape e. Proof. intros; de e; reflexivity. Qed.

Lemma bounded_la : forall e, bounded e = true -> exists mn mx hm hx, e_la e = Some (mn, mx, (hm, hx)).
Proof.
  intros e H. unfold bounded, isList, isLeafList in H. de e; cbn in *; eauto 6.
  destruct edir; [|destruct ek]; discriminate.
Qed.

(* ------------------------------------------------------------------ the model's add/replace and delete, stage by stage *)
Definition m_cfg (dv : deviate) (t : entry) : entry := if is_set (dv_cfg dv) then set_cfg t (dv_cfg dv) else t.
Definition m_mand (dv : deviate) (t : entry) : entry := if is_set (dv_mand dv) then set_mand t (dv_mand dv) else t.
Definition m_dflt (replace : bool) (dv : deviate) (t : entry) : entry * bool :=
  match dv_default dv with
  | None => (t, false)
  | Some d =>
    if replace then (set_dflt t [d], false)
    else if isLeafList t then (set_dflt t (e_dflt t ++ [d]), false)
    else match e_dflt t with [] => (set_dflt t [d], false) | _ => (t, true) end
  end.
Definition m_ut (dv : deviate) (t : entry) : entry :=
  let t := match dv_units dv with Some u => set_units t u | None => t end in
  match dv_type dv with Some ty => set_ty t (Some ty) | None => t end.
Definition m_bounds (dv : deviate) (t : entry) (e1 : bool) : entry * bool :=
  let listy := isList t || isLeafList t in
  match dv_min dv with
  | Some _ => if negb listy then (t, true) else
    let t := with_min t (semCheckMin (dv_min dv)) true in
    match dv_max dv with
    | Some mx => (m_ut dv (with_max t mx true), e1)
    | None => (m_ut dv t, e1)
    end
  | None =>
    match dv_max dv with
    | Some mx => if negb listy then (t, true) else (m_ut dv (with_max t mx true), e1)
    | None => (m_ut dv t, e1)
    end
  end.

Lemma apply_add_replace_stages : forall rep dv t,
  apply_add_replace rep dv t =
  let '(t2, e1) := m_dflt rep dv (m_cfg dv t) in m_bounds dv (m_mand dv t2) e1.
Proof.
  intros. unfold apply_add_replace, m_bounds, m_ut, m_mand, m_dflt, m_cfg.
  destruct (dv_default dv); [destruct rep; [|destruct (isLeafList _); [|destruct (e_dflt _)]]|];
  destruct (dv_min dv), (dv_max dv); reflexivity.
Qed.

Definition d_cfg (dv : deviate) (t : entry) : entry := if is_set (dv_cfg dv) then set_cfg t TSUnset else t.
Definition d_mand (dv : deviate) (t : entry) : entry := if is_set (dv_mand dv) then set_mand t TSUnset else t.
Definition d_dflt (dv : deviate) (t : entry) : entry * bool :=
  match dv_default dv with
  | None => (t, false)
  | Some d =>
    if isLeafList t then (t, true)
    else match e_dflt t with
         | [] => (t, true)
         | x :: _ => if str_eqb d x then (set_dflt t [], false) else (t, true)
         end
  end.
(* the value differs, or the statement is not there *)
Definition bad_min (t : entry) (v : N) : bool :=
  match e_la t with Some (mn, _, (hm, _)) => negb (mn =? v) || negb hm | None => false end.
Definition bad_max (t : entry) (v : N) : bool :=
  match e_la t with Some (_, cur, (_, hx)) => negb (cur =? v) || negb hx | None => false end.

Definition d_bounds (dv : deviate) (t : entry) (e1 : bool) : entry * bool :=
  let listy := isList t || isLeafList t in
  match dv_min dv with
  | Some _ => if negb listy then (t, true) else
    let bad := bad_min t (semCheckMin (dv_min dv)) in
    let t := with_min t 0 false in
    match dv_max dv with
    | Some mx => (with_max t MaxUint64 false, e1 || bad || bad_max t mx)
    | None => (t, e1 || bad)
    end
  | None =>
    match dv_max dv with
    | Some mx => if negb listy then (t, true) else (with_max t MaxUint64 false, e1 || bad_max t mx)
    | None => (t, e1)
    end
  end.

Lemma apply_delete_stages : forall dv t,
  apply_delete dv t = let '(t2, e1) := d_dflt dv (d_cfg dv t) in d_bounds dv (d_mand dv t2) e1.
Proof.
  intros. unfold apply_delete, d_bounds, d_mand, d_dflt, d_cfg.
  destruct (dv_default dv); [destruct (isLeafList _); [|destruct (e_dflt _); [|destruct (str_eqb _ _)]]|];
  destruct (dv_min dv), (dv_max dv); reflexivity.
Qed.

(* ------------------------------------------------------------------ projections of updated nodes *)
Ltac prj := intros; match goal with e : entry |- _ => de e; reflexivity end.
Lemma dflt_set_cfg : forall e c, e_dflt (set_cfg e c) = e_dflt e. Proof. prj. Qed.
Lemma dflt_set_mand : forall e c, e_dflt (set_mand e c) = e_dflt e. Proof. prj. Qed.
Lemma dflt_set_units : forall e c, e_dflt (set_units e c) = e_dflt e. Proof. prj. Qed.
Lemma dflt_set_ty : forall e c, e_dflt (set_ty e c) = e_dflt e. Proof. prj. Qed.
Lemma dflt_set_dflt : forall e c, e_dflt (set_dflt e c) = c. Proof. prj. Qed.
Lemma dflt_with_min : forall e c w, e_dflt (with_min e c w) = e_dflt e. Proof. prj. Qed.
Lemma dflt_with_max : forall e c w, e_dflt (with_max e c w) = e_dflt e. Proof. prj. Qed.
Lemma la_set_cfg : forall e c, e_la (set_cfg e c) = e_la e. Proof. prj. Qed.
Lemma la_set_mand : forall e c, e_la (set_mand e c) = e_la e. Proof. prj. Qed.
Lemma la_set_units : forall e c, e_la (set_units e c) = e_la e. Proof. prj. Qed.
Lemma la_set_ty : forall e c, e_la (set_ty e c) = e_la e. Proof. prj. Qed.
Lemma la_set_dflt : forall e c, e_la (set_dflt e c) = e_la e. Proof. prj. Qed.
Lemma la_set_la : forall e c, e_la (set_la e c) = c. Proof. prj. Qed.

Lemma with_node_id : forall st, with_node st (ts_node st) = st.
Proof. destruct st; reflexivity. Qed.

(* ------------------------------------------------------------------ the named properties, group by group *)
Definition P_cfg (dv : deviate) := match dv_cfg dv with TSUnset => [] | v => [PConfig v] end.
Definition P_dflt (dv : deviate) := match dv_default dv with Some d => [PDefault d] | None => [] end.
Definition P_mand (dv : deviate) := match dv_mand dv with TSUnset => [] | v => [PMandatory v] end.
Definition P_min (dv : deviate) := match dv_min dv with Some n => [PMin n] | None => [] end.
Definition P_max (dv : deviate) := match dv_max dv with Some n => [PMax n] | None => [] end.
Definition P_units (dv : deviate) := match dv_units dv with Some u => [PUnits u] | None => [] end.
Definition P_type (dv : deviate) := match dv_type dv with Some t => [PType t] | None => [] end.

Lemma named_props_groups : forall dv,
  named_props dv = P_cfg dv ++ P_dflt dv ++ P_mand dv ++ (P_min dv ++ P_max dv ++ P_units dv ++ P_type dv).
Proof. reflexivity. Qed.

Lemma spec_edits_app : forall k a b st,
  spec_edits k st (a ++ b) = match spec_edits k st a with Some st' => spec_edits k st' b | None => None end.
Proof.
  induction a as [|p a IH]; intros; cbn; auto.
  destruct (spec_edit k st p); auto.
Qed.

(* what every applicable edit leaves alone *)
Definition step_rel (st st' : tstate) : Prop :=
  ts_removed st' = ts_removed st /\ shape (ts_node st') = shape (ts_node st).

Lemma step_rel_refl : forall st, step_rel st st. Proof. split; reflexivity. Qed.
Lemma step_rel_trans : forall a b c, step_rel a b -> step_rel b c -> step_rel a c.
Proof. intros a b c [H1 H2] [H3 H4]. split; congruence. Qed.

Definition kset (rep : bool) : dkind := if rep then DKReplace else DKAdd.

Lemma kset_edit : forall rep st p, spec_edit (kset rep) st p = spec_set rep st p.
Proof. destruct rep; reflexivity. Qed.

(* --- add / replace *)
Lemma set_cfg_stage : forall rep dv st,
  spec_edits (kset rep) st (P_cfg dv) = Some (with_node st (m_cfg dv (ts_node st))).
Proof.
  intros. unfold P_cfg, m_cfg. destruct (dv_cfg dv); cbn [spec_edits is_set]; repeat (rewrite kset_edit; cbn); cbn;
    rewrite ?with_node_id; reflexivity.
Qed.

Lemma set_mand_stage : forall rep dv st,
  spec_edits (kset rep) st (P_mand dv) = Some (with_node st (m_mand dv (ts_node st))).
Proof.
  intros. unfold P_mand, m_mand. destruct (dv_mand dv); cbn [spec_edits is_set]; repeat (rewrite kset_edit; cbn); cbn;
    rewrite ?with_node_id; reflexivity.
Qed.

Lemma set_dflt_stage : forall rep dv st,
  match spec_edits (kset rep) st (P_dflt dv) with
  | Some st' => m_dflt rep dv (ts_node st) = (ts_node st', false) /\ st' = with_node st (ts_node st')
  | None => snd (m_dflt rep dv (ts_node st)) = true
  end.
Proof.
  intros. unfold P_dflt, m_dflt. destruct (dv_default dv) as [d|]; cbn [spec_edits].
  2:{ split; [reflexivity|]. rewrite with_node_id. reflexivity. }
  rewrite kset_edit. cbn [spec_set]. destruct rep.
  { split; reflexivity. }
  destruct (isLeafList (ts_node st)).
  { split; reflexivity. }
  destruct (e_dflt (ts_node st)); [split; reflexivity|reflexivity].
Qed.

Lemma set_ut_stage : forall rep dv st,
  spec_edits (kset rep) st (P_units dv ++ P_type dv) = Some (with_node st (m_ut dv (ts_node st))).
Proof.
  intros. unfold P_units, P_type, m_ut. destruct (dv_units dv), (dv_type dv); cbn [spec_edits app];
    repeat (rewrite kset_edit; cbn); cbn; rewrite ?with_node_id; reflexivity.
Qed.

Lemma shape_m_ut : forall dv t, shape (m_ut dv t) = shape t.
Proof.
  intros. unfold m_ut. destruct (dv_units dv), (dv_type dv); rewrite ?shape_set_ty, ?shape_set_units; reflexivity.
Qed.
Lemma shape_m_cfg : forall dv t, shape (m_cfg dv t) = shape t.
Proof. intros. unfold m_cfg. destruct (is_set _); rewrite ?shape_set_cfg; reflexivity. Qed.
Lemma shape_m_mand : forall dv t, shape (m_mand dv t) = shape t.
Proof. intros. unfold m_mand. destruct (is_set _); rewrite ?shape_set_mand; reflexivity. Qed.

Ltac shp := cbn [ts_node with_node ts_removed];
  repeat first [rewrite shape_m_ut | rewrite shape_with_max | rewrite shape_with_min]; reflexivity.

Lemma bounded_with_min : forall e n w, bounded (with_min e n w) = bounded e.
Proof. intros. apply shape_bounded, shape_with_min. Qed.
Lemma bounded_with_max : forall e n w, bounded (with_max e n w) = bounded e.
Proof. intros. apply shape_bounded, shape_with_max. Qed.

Lemma set_bounds_stage : forall rep dv st e1,
  match spec_edits (kset rep) st (P_min dv ++ P_max dv ++ P_units dv ++ P_type dv) with
  | Some st' => m_bounds dv (ts_node st) e1 = (ts_node st', e1) /\ step_rel st st'
  | None => snd (m_bounds dv (ts_node st) e1) = true
  end.
Proof.
  intros rep dv st e1. unfold m_bounds, P_min, P_max. fold (bounded (ts_node st)).
  destruct (dv_min dv) as [n|]; destruct (dv_max dv) as [m|]; cbn [app spec_edits semCheckMin].
  - rewrite kset_edit. cbn [spec_set]. destruct (bounded (ts_node st)) eqn:B; cbn [negb]; [|reflexivity].
    rewrite kset_edit. cbn [spec_set ts_node with_node]. rewrite bounded_with_min, B.
    rewrite set_ut_stage. cbn [ts_node with_node].
    split; [reflexivity|]. split; [reflexivity|]. shp.
  - rewrite kset_edit. cbn [spec_set]. destruct (bounded (ts_node st)) eqn:B; cbn [negb]; [|reflexivity].
    rewrite set_ut_stage. cbn [ts_node with_node].
    split; [reflexivity|]. split; [reflexivity|]. shp.
  - rewrite kset_edit. cbn [spec_set]. destruct (bounded (ts_node st)) eqn:B; cbn [negb]; [|reflexivity].
    rewrite set_ut_stage. cbn [ts_node with_node].
    split; [reflexivity|]. split; [reflexivity|]. shp.
  - rewrite set_ut_stage. cbn [ts_node with_node].
    split; [reflexivity|]. split; [reflexivity|]. shp.
Qed.

Lemma m_bounds_err : forall dv t, snd (m_bounds dv t true) = true.
Proof.
  intros. unfold m_bounds. destruct (dv_min dv), (dv_max dv); destruct (isList t || isLeafList t); reflexivity.
Qed.

Lemma shape_m_dflt : forall rep dv t, shape (fst (m_dflt rep dv t)) = shape t.
Proof.
  intros. unfold m_dflt. destruct (dv_default dv); [|reflexivity].
  destruct rep; [apply shape_set_dflt|]. destruct (isLeafList t); [apply shape_set_dflt|].
  destruct (e_dflt t); [apply shape_set_dflt|reflexivity].
Qed.

Lemma set_agree : forall rep dv st,
  match spec_edits (kset rep) st (named_props dv) with
  | Some st' => apply_add_replace rep dv (ts_node st) = (ts_node st', false) /\ step_rel st st'
  | None => snd (apply_add_replace rep dv (ts_node st)) = true
  end.
Proof.
  intros rep dv st. rewrite apply_add_replace_stages, named_props_groups.
  rewrite spec_edits_app, set_cfg_stage.
  rewrite spec_edits_app.
  pose proof (set_dflt_stage rep dv (with_node st (m_cfg dv (ts_node st)))) as HD.
  cbn [ts_node with_node] in HD.
  destruct (spec_edits (kset rep) (with_node st (m_cfg dv (ts_node st))) (P_dflt dv)) as [st2|].
  - destruct HD as [HD1 HD2]. rewrite HD1.
    rewrite spec_edits_app, set_mand_stage.
    pose proof (set_bounds_stage rep dv (with_node st2 (m_mand dv (ts_node st2))) false) as HB.
    cbn [ts_node with_node] in HB.
    destruct (spec_edits (kset rep) (with_node st2 (m_mand dv (ts_node st2))) _) as [st4|].
    + destruct HB as [HB1 HB2]. split; [assumption|].
      eapply step_rel_trans; [|exact HB2]. split; cbn [ts_removed ts_node with_node].
      * rewrite HD2. reflexivity.
      * rewrite shape_m_mand. rewrite <- (shape_m_cfg dv (ts_node st)).
        replace (ts_node st2) with (fst (m_dflt rep dv (m_cfg dv (ts_node st)))) by (rewrite HD1; reflexivity).
        apply shape_m_dflt.
    + assumption.
  - destruct (m_dflt rep dv (m_cfg dv (ts_node st))) as [t2 e1]. cbn in HD. subst e1. apply m_bounds_err.
Qed.

(* --- delete *)

Lemma del_cfg_stage : forall dv st,
  spec_edits DKDelete st (P_cfg dv) = Some (with_node st (d_cfg dv (ts_node st))).
Proof.
  intros. unfold P_cfg, d_cfg. destruct (dv_cfg dv); cbn; rewrite ?with_node_id; reflexivity.
Qed.
Lemma del_mand_stage : forall dv st,
  spec_edits DKDelete st (P_mand dv) = Some (with_node st (d_mand dv (ts_node st))).
Proof.
  intros. unfold P_mand, d_mand. destruct (dv_mand dv); cbn; rewrite ?with_node_id; reflexivity.
Qed.

Lemma del_dflt_stage : forall dv st,
  (dv_default dv <> None -> isLeafList (ts_node st) = false) ->
  match spec_edits DKDelete st (P_dflt dv) with
  | Some st' => d_dflt dv (ts_node st) = (ts_node st', false) /\ st' = with_node st (ts_node st')
  | None => snd (d_dflt dv (ts_node st)) = true
  end.
Proof.
  intros dv st HL. unfold P_dflt, d_dflt. destruct (dv_default dv) as [d|]; cbn [spec_edits].
  2:{ split; [reflexivity|]. rewrite with_node_id. reflexivity. }
  rewrite HL by discriminate. cbn [spec_edit spec_unset]. rewrite HL by discriminate.
  destruct (e_dflt (ts_node st)) as [|x r]; [reflexivity|].
  destruct (str_eqb d x); [split; reflexivity|reflexivity].
Qed.

Lemma shape_d_cfg : forall dv t, shape (d_cfg dv t) = shape t.
Proof. intros. unfold d_cfg. destruct (is_set _); rewrite ?shape_set_cfg; reflexivity. Qed.
Lemma shape_d_mand : forall dv t, shape (d_mand dv t) = shape t.
Proof. intros. unfold d_mand. destruct (is_set _); rewrite ?shape_set_mand; reflexivity. Qed.
Lemma shape_d_dflt : forall dv t, shape (fst (d_dflt dv t)) = shape t.
Proof.
  intros. unfold d_dflt. destruct (dv_default dv); [|reflexivity].
  destruct (isLeafList t); [reflexivity|]. destruct (e_dflt t); [reflexivity|].
  destruct (str_eqb _ _); [apply shape_set_dflt|reflexivity].
Qed.
Lemma la_d_cfg : forall dv t, e_la (d_cfg dv t) = e_la t.
Proof. intros. unfold d_cfg. destruct (is_set _); rewrite ?la_set_cfg; reflexivity. Qed.
Lemma la_d_mand : forall dv t, e_la (d_mand dv t) = e_la t.
Proof. intros. unfold d_mand. destruct (is_set _); rewrite ?la_set_mand; reflexivity. Qed.
Lemma la_d_dflt : forall dv t, e_la (fst (d_dflt dv t)) = e_la t.
Proof.
  intros. unfold d_dflt. destruct (dv_default dv); [|reflexivity].
  destruct (isLeafList t); [reflexivity|]. destruct (e_dflt t); [reflexivity|].
  destruct (str_eqb _ _); [apply la_set_dflt|reflexivity].
Qed.

Lemma bad_min_spec : forall t v, bounded t = true -> bad_min t v = negb (min_written t && (min_of t =? v)).
Proof.
  intros t v B. destruct (bounded_la _ B) as (mn & mx & hm & hx & L). unfold bad_min, min_written, min_of. rewrite L.
  destruct (mn =? v), hm; reflexivity.
Qed.
Lemma bad_max_spec : forall t v, bounded t = true -> bad_max t v = negb (max_written t && (max_of t =? v)).
Proof.
  intros t v B. destruct (bounded_la _ B) as (mn & mx & hm & hx & L). unfold bad_max, max_written, max_of. rewrite L.
  destruct (mx =? v), hx; reflexivity.
Qed.
Lemma max_after_min : forall t n w v, bad_max (with_min t n w) v = bad_max t v /\
  max_written (with_min t n w) = max_written t /\ max_of (with_min t n w) = max_of t.
Proof. intros. de t; cbn; auto. Qed.

Lemma del_bounds_stage : forall dv st e1,
  dv_units dv = None -> dv_type dv = None ->
  match spec_edits DKDelete st (P_min dv ++ P_max dv ++ P_units dv ++ P_type dv) with
  | Some st' => d_bounds dv (ts_node st) e1 = (ts_node st', e1) /\ step_rel st st'
  | None => snd (d_bounds dv (ts_node st) e1) = true
  end.
Proof.
  intros dv st e1 HU HT. unfold d_bounds, P_min, P_max, P_units, P_type. rewrite HU, HT.
  fold (bounded (ts_node st)). rewrite !app_nil_r.
  destruct (dv_min dv) as [n|]; destruct (dv_max dv) as [m|]; cbn [app spec_edits semCheckMin spec_edit spec_unset].
  - destruct (bounded (ts_node st)) eqn:B; cbn [negb andb]; [|reflexivity].
    rewrite (bad_min_spec _ n B).
    destruct (min_written (ts_node st) && (min_of (ts_node st) =? n)) eqn:E1; cbn [negb].
    2:{ cbn. rewrite orb_true_r. reflexivity. }
    cbn [andb ts_node with_node].
    destruct (max_after_min (ts_node st) 0 false m) as (M1 & M2 & M3).
    rewrite bounded_with_min, B, M1, M2, M3. cbn [andb].
    rewrite (bad_max_spec _ m B).
    destruct (max_written (ts_node st) && (max_of (ts_node st) =? m)) eqn:E2; cbn [negb].
    2:{ cbn. rewrite orb_true_r. reflexivity. }
    rewrite !orb_false_r. split; [reflexivity|]. split; [reflexivity|]. shp.
  - destruct (bounded (ts_node st)) eqn:B; cbn [negb andb]; [|reflexivity].
    rewrite (bad_min_spec _ n B).
    destruct (min_written (ts_node st) && (min_of (ts_node st) =? n)) eqn:E1; cbn [negb].
    2:{ cbn. rewrite orb_true_r. reflexivity. }
    cbn [andb]. rewrite !orb_false_r.
    split; [reflexivity|]. split; [reflexivity|]. shp.
  - destruct (bounded (ts_node st)) eqn:B; cbn [negb andb]; [|reflexivity].
    rewrite (bad_max_spec _ m B).
    destruct (max_written (ts_node st) && (max_of (ts_node st) =? m)) eqn:E2; cbn [negb].
    2:{ cbn. rewrite orb_true_r. reflexivity. }
    cbn [andb]. rewrite !orb_false_r.
    split; [reflexivity|]. split; [reflexivity|]. shp.
  - split; [reflexivity|]. apply step_rel_refl.
Qed.

Lemma d_bounds_err : forall dv t, snd (d_bounds dv t true) = true.
Proof.
  intros. unfold d_bounds. destruct (dv_min dv), (dv_max dv); destruct (isList t || isLeafList t); reflexivity.
Qed.

Lemma kind_delete_scope : forall dv, kind_of (dv_kind dv) = Some DKDelete -> in_scope dv = true ->
  dv_units dv = None /\ dv_type dv = None.
Proof.
  intros dv K S. unfold in_scope in S. rewrite K in S. destruct (dv_units dv), (dv_type dv); try discriminate; auto.
Qed.

Lemma del_agree : forall dv st,
  kind_of (dv_kind dv) = Some DKDelete -> in_scope dv = true -> refused st dv = false ->
  match spec_edits DKDelete st (named_props dv) with
  | Some st' => apply_delete dv (ts_node st) = (ts_node st', false) /\ step_rel st st'
  | None => snd (apply_delete dv (ts_node st)) = true
  end.
Proof.
  intros dv st K S R.
  destruct (kind_delete_scope _ K S) as [HU HT].
  unfold refused in R. rewrite K in R.
  rewrite apply_delete_stages, named_props_groups.
  rewrite spec_edits_app, del_cfg_stage. rewrite spec_edits_app.
  pose proof (del_dflt_stage dv (with_node st (d_cfg dv (ts_node st)))) as HDf.
  cbn [ts_node with_node] in HDf.
  assert (LL : isLeafList (d_cfg dv (ts_node st)) = isLeafList (ts_node st))
    by (apply shape_isLeafList, shape_d_cfg).
  specialize (HDf ltac:(rewrite LL; destruct (dv_default dv); [intros _; exact R|congruence])).
  destruct (spec_edits DKDelete (with_node st (d_cfg dv (ts_node st))) (P_dflt dv)) as [st2|].
  - destruct HDf as [HD1 HD2]. rewrite HD1.
    rewrite spec_edits_app, del_mand_stage.
    assert (SH : shape (d_mand dv (ts_node st2)) = shape (ts_node st)).
    { rewrite shape_d_mand. rewrite <- (shape_d_cfg dv (ts_node st)).
      replace (ts_node st2) with (fst (d_dflt dv (d_cfg dv (ts_node st)))) by (rewrite HD1; reflexivity).
      apply shape_d_dflt. }
    pose proof (del_bounds_stage dv (with_node st2 (d_mand dv (ts_node st2))) false HU HT) as HB.
    cbn [ts_node with_node] in HB.
    destruct (spec_edits DKDelete (with_node st2 (d_mand dv (ts_node st2))) _) as [st4|].
    + destruct HB as [HB1 HB2]. split; [assumption|].
      eapply step_rel_trans; [|exact HB2]. split; cbn [ts_removed ts_node with_node].
      * rewrite HD2. reflexivity.
      * exact SH.
    + assumption.
  - destruct (d_dflt dv (d_cfg dv (ts_node st))) as [t2 e1]. cbn in HDf. subst e1. apply d_bounds_err.
Qed.

(* ------------------------------------------------------------------ positions *)
(* two step lists are comparable when one is a prefix of the other: the nodes they name are equal or one
   is an ancestor of the other *)
Fixpoint comparable (a b : list step) : Prop :=
  match a, b with
  | [], _ => True
  | _, [] => True
  | x :: a', y :: b' => x = y /\ comparable a' b'
  end.

Definition pcomparable (p q : pos) : Prop := fst p = fst q /\ comparable (snd p) (snd q).

Lemma comparable_prefix : forall a b, comparable a b <-> (exists r, b = a ++ r) \/ (exists r, a = b ++ r).
Proof.
  induction a as [|x a IH]; intros b.
  - cbn. split; auto. intros _. left. exists b. reflexivity.
  - destruct b as [|y b]; cbn.
    + split; auto. intros _. right. exists (x :: a). reflexivity.
    + rewrite IH. split.
      * intros [E [[r H]|[r H]]]; subst; [left|right]; exists r; reflexivity.
      * intros [[r H]|[r H]]; inversion H; subst; (split; [reflexivity|]); [left|right]; exists r; reflexivity.
Qed.

Lemma comparable_sym : forall a b, comparable a b -> comparable b a.
Proof. intros a b H. apply comparable_prefix in H. apply comparable_prefix. tauto. Qed.

Lemma comparable_app_l : forall a r, comparable a (a ++ r).
Proof. intros. apply comparable_prefix. left. exists r. reflexivity. Qed.

Lemma step_eq_dec : forall a b : step, {a = b} + {a <> b}.
Proof.
  intros [n| |] [m| |]; try (left; reflexivity); try (right; discriminate).
  destruct (str_eqb n m) eqn:E.
  - left. apply str_eqb_eq in E. congruence.
  - right. intro H. inversion H; subst. rewrite str_eqb_refl in E. discriminate.
Qed.

(* ------------------------------------------------------------------ field updates *)
Lemma dir_set_dir : forall e d, e_dir (set_dir e d) = d. Proof. intros; de e; reflexivity. Qed.
Lemma rpc_set_dir : forall e d, e_rpc (set_dir e d) = e_rpc e. Proof. intros; de e; reflexivity. Qed.
Lemma dir_set_rpc : forall e d, e_dir (set_rpc e d) = e_dir e. Proof. intros; de e; reflexivity. Qed.
Lemma rpc_set_rpc : forall e d, e_rpc (set_rpc e d) = d. Proof. intros; de e; reflexivity. Qed.

(* everything a node says about itself, as opposed to its subtree *)
Definition attrs (e : entry) :=
  (e_name e, e_kind e, e_cfg e, e_mand e, e_dflt e, e_units e, e_ty e, e_key e, e_la e, e_ns e).

Lemma attrs_set_dir : forall e d, attrs (set_dir e d) = attrs e. Proof. intros; de e; reflexivity. Qed.
Lemma attrs_set_rpc : forall e d, attrs (set_rpc e d) = attrs e. Proof. intros; de e; reflexivity. Qed.

Lemma entry_eq : forall a b, attrs a = attrs b -> e_dir a = e_dir b -> e_rpc a = e_rpc b -> a = b.
Proof.
  intros a b H1 H2 H3. destruct a, b. cbn in *. inversion H1. subst. reflexivity.
Qed.

Lemma keep_children_attrs : forall old new, attrs (keep_children old new) = attrs new.
Proof. intros. unfold keep_children. rewrite attrs_set_rpc, attrs_set_dir. reflexivity. Qed.
Lemma keep_children_dir : forall old new, e_dir (keep_children old new) = e_dir old.
Proof. intros. unfold keep_children. rewrite dir_set_rpc, dir_set_dir. reflexivity. Qed.
Lemma keep_children_rpc : forall old new, e_rpc (keep_children old new) = e_rpc old.
Proof. intros. unfold keep_children. rewrite rpc_set_rpc. reflexivity. Qed.
Lemma keep_children_id : forall e, keep_children e e = e.
Proof.
  intro e. apply entry_eq; [apply keep_children_attrs|apply keep_children_dir|apply keep_children_rpc].
Qed.

(* ------------------------------------------------------------------ locate after update_at *)
Lemma locate_app : forall a b e,
  locate e (a ++ b) = match locate e a with Some x => locate x b | None => None end.
Proof.
  induction a as [|s a IH]; intros; cbn [app locate]; auto.
  destruct s.
  - destruct (e_dir e); auto. destruct (lookup n l); auto.
  - destruct (e_rpc e) as [[[i|] o]|]; auto.
  - destruct (e_rpc e) as [[i [o|]]|]; auto.
Qed.

Lemma lookup_some_ne : forall {A} k (l : list (str * A)) v, lookup k l = Some v -> lookup k l <> None.
Proof. congruence. Qed.

(* at and below the updated position *)
Lemma locate_update_at_below : forall steps root f e r,
  locate root steps = Some e -> locate (update_at root steps f) (steps ++ r) = locate (f e) r.
Proof.
  induction steps as [|s steps IH]; intros root f e r H; cbn [locate update_at app] in *.
  - inversion H. reflexivity.
  - destruct s.
    + destruct (e_dir root) as [d|] eqn:D; [|discriminate].
      destruct (lookup n d) as [c|] eqn:L; [|discriminate].
      rewrite dir_set_dir. rewrite lookup_update_same by congruence. apply IH. assumption.
    + destruct (e_rpc root) as [[[i|] o]|] eqn:R; try discriminate.
      rewrite rpc_set_rpc. apply IH. assumption.
    + destruct (e_rpc root) as [[i [o|]]|] eqn:R; try discriminate.
      rewrite rpc_set_rpc. apply IH. assumption.
Qed.

(* away from the updated position; [tail] lets the update reach one step further, as the removal of a
   child does *)
Lemma locate_update_at_away : forall steps tail root f qs,
  (forall e qs', ~ comparable tail qs' -> locate (f e) qs' = locate e qs') ->
  ~ comparable (steps ++ tail) qs ->
  locate (update_at root steps f) qs = locate root qs.
Proof.
  induction steps as [|s steps IH]; intros tail root f qs Hf Hc; cbn [app update_at] in *.
  - apply Hf. assumption.
  - destruct qs as [|s' qs]; [exfalso; apply Hc; exact I|].
    cbn [comparable] in Hc.
    destruct (step_eq_dec s s') as [E|NE].
    + subst s'. assert (Hc' : ~ comparable (steps ++ tail) qs) by tauto.
      destruct s; cbn [locate].
      * destruct (e_dir root) as [d|] eqn:D; [|rewrite D; reflexivity].
        destruct (lookup n d) as [c|] eqn:L; [|rewrite D, L; reflexivity].
        rewrite dir_set_dir. rewrite lookup_update_same by congruence. apply IH with (tail := tail); assumption.
      * destruct (e_rpc root) as [[[i|] o]|] eqn:R; try (rewrite R; reflexivity).
        rewrite rpc_set_rpc. apply IH with (tail := tail); assumption.
      * destruct (e_rpc root) as [[i [o|]]|] eqn:R; try (rewrite R; reflexivity).
        rewrite rpc_set_rpc. apply IH with (tail := tail); assumption.
    + destruct s.
      * destruct (e_dir root) as [d|] eqn:D; [|reflexivity].
        destruct (lookup n d) as [c|] eqn:L; [|reflexivity].
        destruct s'; cbn [locate]; rewrite ?dir_set_dir, ?rpc_set_dir, ?D; try reflexivity.
        rewrite lookup_update_other; [reflexivity|].
        apply str_eqb_neq. congruence.
      * destruct (e_rpc root) as [[[i|] o]|] eqn:R; try reflexivity.
        destruct s'; cbn [locate]; rewrite ?dir_set_rpc, ?rpc_set_rpc, ?R; try reflexivity. congruence.
      * destruct (e_rpc root) as [[i [o|]]|] eqn:R; try reflexivity.
        destruct s'; cbn [locate]; rewrite ?dir_set_rpc, ?rpc_set_rpc, ?R; try reflexivity. congruence.
Qed.

(* above the updated position: same node, updated further down *)
Lemma locate_update_at_above : forall a root b f,
  locate (update_at root (a ++ b) f) a =
  match locate root a with Some e => Some (update_at e b f) | None => None end.
Proof.
  induction a as [|s a IH]; intros; cbn [app locate update_at]; auto.
  destruct s.
  - destruct (e_dir root) as [d|] eqn:D; [|rewrite D; reflexivity].
    destruct (lookup n d) as [c|] eqn:L; [|rewrite D, L; reflexivity].
    rewrite dir_set_dir. rewrite lookup_update_same by congruence. apply IH.
  - destruct (e_rpc root) as [[[i|] o]|] eqn:R; try (rewrite R; reflexivity).
    rewrite rpc_set_rpc. apply IH.
  - destruct (e_rpc root) as [[i [o|]]|] eqn:R; try (rewrite R; reflexivity).
    rewrite rpc_set_rpc. apply IH.
Qed.

Lemma update_at_attrs : forall s r e f, attrs (update_at e (s :: r) f) = attrs e.
Proof.
  intros. cbn [update_at]. destruct s.
  - destruct (e_dir e); [|reflexivity]. destruct (lookup n l); [|reflexivity]. apply attrs_set_dir.
  - destruct (e_rpc e) as [[[i|] o]|]; try reflexivity. apply attrs_set_rpc.
  - destruct (e_rpc e) as [[i [o|]]|]; try reflexivity. apply attrs_set_rpc.
Qed.

(* an update that does not change the node it reaches changes nothing *)
Lemma update_at_id : forall steps root f e, locate root steps = Some e -> f e = e -> update_at root steps f = root.
Proof.
  induction steps as [|s steps IH]; intros root f e H Hf; cbn [locate update_at] in *.
  - inversion H; subst. assumption.
  - destruct s.
    + destruct (e_dir root) as [d|] eqn:D; [|reflexivity].
      destruct (lookup n d) as [c|] eqn:L; [|reflexivity].
      rewrite (IH c f e H Hf). rewrite update_id by assumption.
      apply entry_eq; rewrite ?attrs_set_dir, ?dir_set_dir, ?rpc_set_dir; auto.
    + destruct (e_rpc root) as [[[i|] o]|] eqn:R; try reflexivity.
      rewrite (IH i f e H Hf).
      apply entry_eq; rewrite ?attrs_set_rpc, ?dir_set_rpc, ?rpc_set_rpc; auto.
    + destruct (e_rpc root) as [[i [o|]]|] eqn:R; try reflexivity.
      rewrite (IH o f e H Hf).
      apply entry_eq; rewrite ?attrs_set_rpc, ?dir_set_rpc, ?rpc_set_rpc; auto.
Qed.

(* ------------------------------------------------------------------ the same on forests *)
Definition below (p : pos) (r : list step) : pos := (fst p, snd p ++ r).

Lemma locate_pos_update_below : forall F p f e r,
  locate_pos F p = Some e -> locate_pos (update_pos F p f) (below p r) = locate (f e) r.
Proof.
  intros F [mn steps] f e r H. unfold locate_pos, update_pos, below in *. cbn [fst snd] in *.
  destruct (lookup mn F) as [root|] eqn:L; [|discriminate].
  rewrite lookup_update_same by congruence. apply locate_update_at_below. assumption.
Qed.

Lemma locate_pos_update_self : forall F p f e,
  locate_pos F p = Some e -> locate_pos (update_pos F p f) p = Some (f e).
Proof.
  intros F p f e H. pose proof (locate_pos_update_below F p f e [] H) as X.
  unfold below in X. rewrite app_nil_r in X. destruct p. exact X.
Qed.

Lemma locate_pos_update_away : forall F p tail f q,
  (forall e qs', ~ comparable tail qs' -> locate (f e) qs' = locate e qs') ->
  ~ pcomparable (below p tail) q ->
  locate_pos (update_pos F p f) q = locate_pos F q.
Proof.
  intros F [mn steps] tail f [qn qs] Hf Hc. unfold locate_pos, update_pos, pcomparable, below in *.
  cbn [fst snd] in *.
  destruct (lookup mn F) as [root|] eqn:L; [|reflexivity].
  destruct (str_eqb qn mn) eqn:E.
  - apply str_eqb_eq in E. subst qn. rewrite lookup_update_same by congruence. rewrite L.
    apply locate_update_at_away with (tail := tail); [assumption|]. tauto.
  - rewrite lookup_update_other by assumption. reflexivity.
Qed.

Lemma locate_pos_update_above : forall F mn a b f,
  locate_pos (update_pos F (mn, a ++ b) f) (mn, a) =
  match locate_pos F (mn, a) with Some e => Some (update_at e b f) | None => None end.
Proof.
  intros. unfold locate_pos, update_pos. cbn [fst snd].
  destruct (lookup mn F) as [root|] eqn:L; [|rewrite L; reflexivity].
  rewrite lookup_update_same by congruence. apply locate_update_at_above.
Qed.

Lemma update_pos_id : forall F p f e, locate_pos F p = Some e -> f e = e -> update_pos F p f = F.
Proof.
  intros F [mn steps] f e H Hf. unfold locate_pos, update_pos in *. cbn [fst snd] in *.
  destruct (lookup mn F) as [root|] eqn:L; [|reflexivity].
  rewrite (update_at_id _ _ _ _ H Hf). apply update_id. assumption.
Qed.

(* ------------------------------------------------------------------ ill-formed statements *)
Lemma props_valid_app : forall res a b, props_valid res (a ++ b) = props_valid res a && props_valid res b.
Proof. intros. unfold props_valid. apply forallb_app. Qed.

Lemma props_valid_named : forall res dv,
  props_valid res (named_props dv) =
  negb (match dv_max dv with Some x => x =? 0 | None => false end) &&
  negb (match dv_type dv with Some t => negb (res t) | None => false end).
Proof.
  intros. unfold named_props. rewrite !props_valid_app.
  destruct (dv_cfg dv), (dv_default dv), (dv_mand dv), (dv_min dv), (dv_max dv), (dv_units dv), (dv_type dv);
    cbn; rewrite ?andb_true_r, ?negb_involutive; reflexivity.
Qed.

Lemma deviate_err_spec : forall dv,
  deviate_err dv = match kind_of (dv_kind dv) with
                   | None => true
                   | Some _ => negb (props_valid is_builtin (named_props dv))
                   end.
Proof.
  intro dv. unfold deviate_err. rewrite props_valid_named.
  pose proof (kind_of_spec (dv_kind dv)) as K.
  destruct (kind_of (dv_kind dv)) as [[| | |]|].
  - destruct K as (K1 & K2). rewrite K2. cbn.
    destruct (match dv_max dv with Some x => x =? 0 | None => false end); cbn; [reflexivity|].
    rewrite negb_involutive. reflexivity.
  - destruct K as (K1 & K2 & K3). rewrite K2, K3. cbn.
    destruct (match dv_max dv with Some x => x =? 0 | None => false end); cbn; [reflexivity|].
    rewrite negb_involutive. reflexivity.
  - destruct K as (K1 & K2 & K3 & K4). rewrite K2, K3, K4. cbn.
    destruct (match dv_max dv with Some x => x =? 0 | None => false end); cbn; [reflexivity|].
    rewrite negb_involutive. reflexivity.
  - rewrite K. rewrite !orb_true_r. cbn.
    destruct (match dv_max dv with Some x => x =? 0 | None => false end); cbn; [reflexivity|].
    rewrite negb_involutive. reflexivity.
  - destruct K as (K1 & K2 & K3 & K4). rewrite K1, K2, K3, K4. reflexivity.
Qed.

(* ------------------------------------------------------------------ the loop over the deviate statements *)
Lemma apply_deviates_err : forall ign p dvs F cur att, snd (apply_deviates ign F p cur att true dvs) = true.
Proof.
  induction dvs as [|dv dvs IH]; intros; cbn [apply_deviates]; [reflexivity|].
  destruct (str_eqb (dv_kind dv) s_notsupported).
  { destruct (rev (snd p)) as [|last up]; [apply IH|]. destruct ign; [apply IH|]. destruct last; cbn [orb]; apply IH. }
  destruct (str_eqb (dv_kind dv) s_add || str_eqb (dv_kind dv) s_replace).
  { destruct (apply_add_replace _ dv cur). apply IH. }
  destruct (str_eqb (dv_kind dv) s_delete); [|apply IH].
  destruct (apply_delete dv cur). apply IH.
Qed.

(* the target is (still) held by its parent *)
Definition present_at (F : forest) (p : pos) : bool :=
  match rev (snd p) with
  | SChild n :: up =>
    match locate_pos F (fst p, rev up) with
    | Some pe => match e_dir pe with
                 | Some d => match lookup n d with Some _ => true | None => false end
                 | None => false
                 end
    | None => false
    end
  | _ => false
  end.

(* sibling names are distinct where the target hangs (part of the C04 tree invariant) *)
Definition parent_nodup (F : forest) (p : pos) : Prop :=
  forall pe d, locate_pos F (parent_of p) = Some pe -> e_dir pe = Some d -> NoDup (map fst d).

Definition attach_inv (F : forest) (p : pos) (st : tstate) : Prop :=
  if ts_removed st then present_at F p = false else present_at F p = true /\ parent_nodup F p.

Lemma removelast_rev : forall (l : list step) x up, rev l = x :: up -> removelast l = rev up.
Proof.
  intros l x up H. assert (E : l = rev up ++ [x]).
  { rewrite <- (rev_involutive l), H. reflexivity. }
  rewrite E. apply removelast_last.
Qed.

Lemma present_after_remove : forall F p,
  removable p = true -> present_at F p = true -> parent_nodup F p -> present_at (remove_target F p) p = false.
Proof.
  intros F p R P ND. unfold remove_target, present_at, removable, parent_nodup, parent_of in *.
  destruct (rev (snd p)) as [|[n| |] up] eqn:E; try discriminate.
  rewrite (removelast_rev _ _ _ E) in *.
  destruct (locate_pos F (fst p, rev up)) as [pe|] eqn:L; [|discriminate].
  erewrite locate_pos_update_self by eassumption.
  destruct (e_dir pe) as [d|] eqn:D; [|discriminate].
  rewrite dir_set_dir. rewrite lookup_remove_same; [reflexivity|]. eapply ND; eauto.
Qed.

Lemma removed_mono : forall res ign rem dvs st st',
  spec_apply_all res ign rem st dvs = Some st' -> ts_removed st = true -> ts_removed st' = true.
Proof.
  induction dvs as [|dv dvs IH]; cbn; intros st st' H R.
  - inversion H; subst; assumption.
  - destruct (spec_deviate res ign rem st dv) as [st1|] eqn:E; [|discriminate].
    eapply IH; [eassumption|].
    unfold spec_deviate in E. destruct (kind_of (dv_kind dv)) as [k|]; [|discriminate].
    destruct (negb (props_valid res (named_props dv))); [discriminate|].
    assert (X : forall k0, spec_edits k0 st (named_props dv) = Some st1 -> ts_removed st1 = true).
    { intros k0 HE. pose proof HE as HE'. clear E.
      revert st R HE HE'. generalize (named_props dv). induction l as [|q l IHl]; cbn; intros st R HE _.
      - inversion HE; subst; assumption.
      - destruct (spec_edit k0 st q) as [s2|] eqn:E2; [|discriminate].
        apply (IHl s2); auto.
        destruct k0; cbn in E2; [| | |inversion E2; subst; assumption].
        1,2: destruct q; cbn in E2;
          repeat match type of E2 with
                 | (if ?c then _ else _) = _ => destruct c
                 | match ?c with _ => _ end = _ => destruct c
                 end; inversion E2; subst; cbn; assumption.
        destruct q; cbn in E2;
          repeat match type of E2 with
                 | (if ?c then _ else _) = _ => destruct c
                 | match ?c with _ => _ end = _ => destruct c
                 end; inversion E2; subst; cbn; assumption. }
    destruct k; try (apply X with (k0 := DKAdd); assumption); try (eapply X; eassumption).
    destruct ign; [inversion E; subst; assumption|].
    rewrite R in E. rewrite andb_false_r in E. discriminate.
Qed.

Definition T1_result (ign : bool) (F : forest) (p : pos) (cur : entry) (att err : bool) (st : tstate) (dvs : list deviate) : Prop :=
  match spec_apply_all is_builtin ign (removable p) st dvs with
  | Some st' =>
      apply_deviates ign F p cur att err dvs =
        (if negb (ts_removed st) && ts_removed st' then remove_target F p else F,
         ts_node st', negb (ts_removed st'), err)
      /\ existsb deviate_err dvs = false
  | None => snd (apply_deviates ign F p cur att err dvs) = true \/ existsb deviate_err dvs = true
  end.

Lemma deviates_agree : forall ign p dvs F cur att err st,
  cur = ts_node st -> att = negb (ts_removed st) ->
  (ign = true -> snd p <> []) ->
  (ign = false -> removable p = true -> attach_inv F p st) ->
  claimed is_builtin ign (removable p) st dvs = true ->
  T1_result ign F p cur att err st dvs.
Proof.
  intros ign p. unfold T1_result.
  induction dvs as [|dv dvs IH]; intros F cur att err st Hc Ha Hroot Hinv Hcl.
  { cbn. subst. rewrite andb_negb_l. auto. }
  cbn [spec_apply_all apply_deviates existsb claimed] in *.
  apply andb_true_iff in Hcl. destruct Hcl as [Hstep Hcl].
  unfold step_claimed in Hstep. apply andb_true_iff in Hstep. destruct Hstep as [Hscope Href].
  apply negb_true_iff in Href.
  rewrite deviate_err_spec.
  unfold spec_deviate in *.
  pose proof (kind_of_spec (dv_kind dv)) as K.
  destruct (kind_of (dv_kind dv)) as [k|] eqn:KO; [|right; reflexivity].
  destruct (props_valid is_builtin (named_props dv)) eqn:PV; cbn [negb orb] in *; [|right; reflexivity].
  destruct k.
  - (* add *)
    destruct K as (K1 & K2). rewrite K1, K2. cbn [orb].
    assert (KR : str_eqb (dv_kind dv) s_replace = false).
    { apply str_eqb_eq in K2. rewrite K2. reflexivity. }
    rewrite KR. pose proof (set_agree false dv st) as A. cbn [kset] in A. subst cur.
    destruct (spec_edits DKAdd st (named_props dv)) as [st1|] eqn:E.
    + destruct A as [A1 [A2 A3]]. rewrite A1, orb_false_r.
      specialize (IH F (ts_node st1) att err st1 eq_refl).
      rewrite A2 in IH. specialize (IH Ha Hroot).
      specialize (IH ltac:(intros; unfold attach_inv; rewrite A2; apply Hinv; assumption)).
      specialize (IH Hcl).
      destruct (spec_apply_all is_builtin ign (removable p) st1 dvs); assumption.
    + left. destruct (apply_add_replace false dv (ts_node st)) as [c e]. cbn in A. subst e.
      rewrite orb_true_r. apply apply_deviates_err.
  - (* replace *)
    destruct K as (K1 & K2 & K3). rewrite K1, K2, K3. cbn [orb].
    pose proof (set_agree true dv st) as A. cbn [kset] in A. subst cur.
    destruct (spec_edits DKReplace st (named_props dv)) as [st1|] eqn:E.
    + destruct A as [A1 [A2 A3]]. rewrite A1, orb_false_r.
      specialize (IH F (ts_node st1) att err st1 eq_refl).
      rewrite A2 in IH. specialize (IH Ha Hroot).
      specialize (IH ltac:(intros; unfold attach_inv; rewrite A2; apply Hinv; assumption)).
      specialize (IH Hcl).
      destruct (spec_apply_all is_builtin ign (removable p) st1 dvs); assumption.
    + left. destruct (apply_add_replace true dv (ts_node st)) as [c e]. cbn in A. subst e.
      rewrite orb_true_r. apply apply_deviates_err.
  - (* delete *)
    destruct K as (K1 & K2 & K3 & K4). rewrite K1, K2, K3, K4. cbn [orb]. subst cur.
    pose proof (del_agree dv st KO Hscope Href) as A.
    destruct (spec_edits DKDelete st (named_props dv)) as [st1|] eqn:E.
    + destruct A as [A1 [A2 A3]]. rewrite A1, orb_false_r.
      specialize (IH F (ts_node st1) att err st1 eq_refl).
      rewrite A2 in IH. specialize (IH Ha Hroot).
      specialize (IH ltac:(intros; unfold attach_inv; rewrite A2; apply Hinv; assumption)).
      specialize (IH Hcl).
      destruct (spec_apply_all is_builtin ign (removable p) st1 dvs); assumption.
    + left. destruct (apply_delete dv (ts_node st)) as [c e]. cbn in A. subst e.
      rewrite orb_true_r. apply apply_deviates_err.
  - (* not-supported *)
    rewrite K. unfold removable in *.
    destruct (rev (snd p)) as [|last up] eqn:RV.
    { destruct ign.
      - exfalso. apply Hroot; [reflexivity|]. rewrite <- (rev_involutive (snd p)), RV. reflexivity.
      - cbn [andb]. left. apply apply_deviates_err. }
    destruct ign.
    { specialize (IH F cur att err st Hc Ha Hroot ltac:(discriminate) Hcl).
      destruct (spec_apply_all is_builtin true _ st dvs); assumption. }
    destruct last as [n| |]; cbn [andb]; try (left; apply apply_deviates_err).
    specialize (Hinv eq_refl eq_refl). unfold attach_inv in Hinv.
    destruct (ts_removed st) eqn:RM; cbn [negb andb].
    + (* already removed *)
      left. unfold present_at in Hinv. rewrite RV in Hinv.
      destruct (locate_pos F (fst p, rev up)) as [pe|]; [destruct (e_dir pe) as [d|]; [destruct (lookup n d)|]|];
        try discriminate; cbn [negb]; rewrite orb_true_r; apply apply_deviates_err.
    + destruct Hinv as [HP HN].
      assert (PR : (match locate_pos F (fst p, rev up) with
                    | Some pe => match e_dir pe with
                                 | Some d => match lookup n d with Some _ => true | None => false end
                                 | None => false
                                 end
                    | None => false
                    end) = true).
      { unfold present_at in HP. rewrite RV in HP. exact HP. }
      rewrite PR. cbn [negb]. rewrite orb_false_r.
      set (st1 := {| ts_node := ts_node st; ts_removed := true |}) in *.
      assert (RT : update_pos F (fst p, rev up)
                     (fun pe => match e_dir pe with Some d => set_dir pe (Some (remove n d)) | None => pe end)
                   = remove_target F p).
      { unfold remove_target, parent_of. rewrite RV. rewrite (removelast_rev _ _ _ RV). reflexivity. }
      rewrite RT.
      specialize (IH (remove_target F p) cur false err st1 Hc eq_refl Hroot).
      specialize (IH ltac:(intros _ _; unfold attach_inv; cbn [st1 ts_removed];
                           apply present_after_remove; [unfold removable; rewrite RV; reflexivity|assumption|assumption])).
      specialize (IH Hcl).
      destruct (spec_apply_all is_builtin false true st1 dvs) as [st2|] eqn:SA; [|assumption].
      rewrite (removed_mono _ _ _ _ _ _ SA eq_refl). cbn [st1 ts_removed negb andb] in IH.
      rewrite (removed_mono _ _ _ _ _ _ SA eq_refl) in IH. cbn [negb] in IH. exact IH.
Qed.

(* ------------------------------------------------------------------ T1 for a target that exists *)
Lemma snd_rev_last : forall (l : list step) x up, rev l = x :: up -> l = rev up ++ [x].
Proof. intros l x up H. rewrite <- (rev_involutive l), H. reflexivity. Qed.

Lemma located_present : forall F p cur, removable p = true -> locate_pos F p = Some cur -> present_at F p = true.
Proof.
  intros F [mn steps] cur R L. unfold removable, present_at, locate_pos in *. cbn [fst snd] in *.
  destruct (rev steps) as [|[n| |] up] eqn:E; try discriminate.
  apply snd_rev_last in E. subst steps.
  destruct (lookup mn F) as [root|]; [|discriminate].
  rewrite locate_app in L. destruct (locate root (rev up)) as [pe|]; [|discriminate].
  cbn [locate] in L. destruct (e_dir pe) as [d|]; [|discriminate].
  destruct (lookup n d); [reflexivity|discriminate].
Qed.

Theorem deviates_agree_top : forall ign F p cur dvs err,
  locate_pos F p = Some cur ->
  parent_nodup F p -> (ign = true -> snd p <> []) ->
  claimed is_builtin ign (removable p) (init_state cur) dvs = true ->
  match spec_apply_all is_builtin ign (removable p) (init_state cur) dvs with
  | Some st' =>
      apply_deviates ign F p cur true err dvs =
        (if ts_removed st' then remove_target F p else F, ts_node st', negb (ts_removed st'), err)
      /\ existsb deviate_err dvs = false
  | None => snd (apply_deviates ign F p cur true err dvs) = true \/ existsb deviate_err dvs = true
  end.
Proof.
  intros ign F p cur dvs err L ND HR HC.
  pose proof (deviates_agree ign p dvs F cur true err (init_state cur) eq_refl eq_refl HR) as A.
  specialize (A ltac:(intros _ R; unfold attach_inv; cbn; split; [eapply located_present; eassumption|assumption])).
  specialize (A HC). unfold T1_result in A. cbn [init_state ts_removed negb andb] in A. exact A.
Qed.

(* ------------------------------------------------------------------ one deviation, the deviations of a module *)
Lemma apply_deviations_err : forall SC ign m devs F, snd (apply_deviations SC ign F true m devs) = true.
Proof.
  induction devs as [|[path dvs] devs IH]; intros; cbn [apply_deviations]; [reflexivity|].
  destruct (Find SC F m (m_name m, []) path) as [[p|] F1]; [|apply IH].
  destruct (locate_pos F1 p) as [cur|]; [|apply IH].
  pose proof (apply_deviates_err ign p dvs F1 cur true) as E.
  destruct (apply_deviates ign F1 p cur true true dvs) as [[[F2 c2] a2] e2]. cbn in E. subst e2. apply IH.
Qed.

Lemma apply_deviations_cons : forall SC ign m d devs F err,
  apply_deviations SC ign F err m (d :: devs) =
  let '(F', err') := apply_deviations SC ign F err m [d] in apply_deviations SC ign F' err' m devs.
Proof.
  intros. destruct d as [path dvs]. cbn [apply_deviations].
  destruct (Find SC F m (m_name m, []) path) as [[p|] F1]; [|reflexivity].
  destruct (locate_pos F1 p) as [cur|]; [|reflexivity].
  destruct (apply_deviates ign F1 p cur true err dvs) as [[[F2 c2] a2] e2]. reflexivity.
Qed.

(* the hypotheses of the agreement, at the place the deviation is applied *)
Definition deviation_claimed (SC : schema) (ign : bool) (F : forest) (m : module)
           (d : str * list deviate) : Prop :=
  match Find SC F m (m_name m, []) (fst d) with
  | (Some p, F1) =>
    match locate_pos F1 p with
    | Some cur => parent_nodup F1 p /\ (ign = true -> snd p <> []) /\
                  claimed is_builtin ign (removable p) (init_state cur) (snd d) = true
    | None => True
    end
  | (None, _) => True
  end.

Theorem deviation_agree : forall SC ign F err m d,
  deviation_claimed SC ign F m d ->
  match spec_deviation SC ign F m d with
  | Some F' => apply_deviations SC ign F err m [d] = (F', err) /\ existsb deviate_err (snd d) = false
  | None => snd (apply_deviations SC ign F err m [d]) = true \/ existsb deviate_err (snd d) = true
  end.
Proof.
  intros SC ign F err m [path dvs] HC. unfold deviation_claimed, spec_deviation in *.
  cbn [fst snd apply_deviations] in *.
  destruct (Find SC F m (m_name m, []) path) as [[p|] F1]; [|left; reflexivity].
  destruct (locate_pos F1 p) as [cur|] eqn:L; [|left; reflexivity].
  destruct HC as (ND & HR & HC).
  pose proof (deviates_agree_top ign F1 p cur dvs err L ND HR HC) as A.
  destruct (spec_apply_all is_builtin ign (removable p) (init_state cur) dvs) as [st|].
  - destruct A as [A1 A2]. rewrite A1. split; [|assumption].
    destruct (ts_removed st); reflexivity.
  - destruct A as [A|A]; [left|right; assumption].
    destruct (apply_deviates ign F1 p cur true err dvs) as [[[F2 c2] a2] e2]. cbn in *. subst. reflexivity.
Qed.

Fixpoint module_claimed (SC : schema) (ign : bool) (F : forest) (m : module)
         (devs : list (str * list deviate)) : Prop :=
  match devs with
  | [] => True
  | d :: rest =>
    deviation_claimed SC ign F m d /\
    match spec_deviation SC ign F m d with
    | Some F' => module_claimed SC ign F' m rest
    | None => True
    end
  end.

Definition any_deviate_err (devs : list (str * list deviate)) : bool :=
  existsb (fun d => existsb deviate_err (snd d)) devs.

Theorem module_agree : forall SC ign m devs F err,
  module_claimed SC ign F m devs ->
  match spec_module SC ign F m devs with
  | Some F' => apply_deviations SC ign F err m devs = (F', err) /\ any_deviate_err devs = false
  | None => snd (apply_deviations SC ign F err m devs) = true \/ any_deviate_err devs = true
  end.
Proof.
  induction devs as [|d devs IH]; intros F err HC.
  { cbn. auto. }
  rewrite apply_deviations_cons. cbn [spec_module module_claimed any_deviate_err existsb] in *.
  destruct HC as [HC1 HC2].
  pose proof (deviation_agree SC ign F err m d HC1) as A.
  destruct (spec_deviation SC ign F m d) as [F'|].
  - destruct A as [A1 A2]. rewrite A1, A2. cbn [orb]. apply IH. assumption.
  - destruct A as [A|A].
    + left. destruct (apply_deviations SC ign F err m [d]) as [F' e']. cbn in A. subst e'.
      apply apply_deviations_err.
    + right. rewrite A. reflexivity.
Qed.

(* ------------------------------------------------------------------ what the two forest operations of the reference do *)
Definition rm_child (n : str) : entry -> entry :=
  fun pe => match e_dir pe with Some d => set_dir pe (Some (remove n d)) | None => pe end.

Lemma rm_child_away : forall n e qs', ~ comparable [SChild n] qs' -> locate (rm_child n e) qs' = locate e qs'.
Proof.
  intros n e qs' H. unfold rm_child. destruct qs' as [|s qs]; [exfalso; apply H; exact I|].
  destruct (e_dir e) as [d|] eqn:D; [|reflexivity].
  destruct s; cbn [locate]; rewrite ?dir_set_dir, ?rpc_set_dir, ?D; try reflexivity.
  rewrite lookup_remove_other; [reflexivity|].
  apply str_eqb_neq. intro E. apply H. cbn. subst. split; [reflexivity|]. destruct qs; exact I.
Qed.

Lemma rm_child_attrs : forall n e, attrs (rm_child n e) = attrs e.
Proof. intros. unfold rm_child. destruct (e_dir e); [apply attrs_set_dir|reflexivity]. Qed.

Lemma remove_target_eq : forall F p n up, rev (snd p) = SChild n :: up ->
  remove_target F p = update_pos F (fst p, rev up) (rm_child n) /\ p = below (fst p, rev up) [SChild n].
Proof.
  intros F [mn steps] n up E. unfold remove_target, parent_of, below. cbn [fst snd] in *. rewrite E.
  rewrite (removelast_rev _ _ _ E). split; [reflexivity|]. rewrite (snd_rev_last _ _ _ E). reflexivity.
Qed.

(* not-supported removes exactly the target subtree: nothing at or below the target is left ... *)
Theorem remove_target_gone : forall F p cur r,
  removable p = true -> locate_pos F p = Some cur -> parent_nodup F p ->
  locate_pos (remove_target F p) (below p r) = None.
Proof.
  intros F p cur r R L ND. unfold removable in R.
  destruct (rev (snd p)) as [|[n| |] up] eqn:E; try discriminate.
  destruct (remove_target_eq F p n up E) as [RT PB]. rewrite RT.
  assert (PO : parent_of p = (fst p, rev up)).
  { unfold parent_of. rewrite (removelast_rev _ _ _ E). reflexivity. }
  unfold parent_nodup in ND. rewrite PO in ND.
  rewrite PB in L. unfold below in L. cbn [fst snd] in L.
  unfold locate_pos in L. cbn [fst snd] in L.
  destruct (lookup (fst p) F) as [root|] eqn:LR; [|discriminate].
  rewrite locate_app in L. destruct (locate root (rev up)) as [pe|] eqn:LP; [|discriminate].
  assert (LPP : locate_pos F (fst p, rev up) = Some pe).
  { unfold locate_pos. cbn [fst snd]. rewrite LR. assumption. }
  replace (below p r) with (below (fst p, rev up) (SChild n :: r)).
  2:{ rewrite PB at 2. unfold below. cbn [fst snd]. rewrite <- app_assoc. reflexivity. }
  rewrite (locate_pos_update_below _ _ _ _ _ LPP).
  cbn [locate] in L. destruct (e_dir pe) as [d|] eqn:D; [|discriminate].
  unfold rm_child. rewrite D. cbn [locate]. rewrite dir_set_dir.
  rewrite lookup_remove_same; [reflexivity|]. eapply ND; eauto.
Qed.

(* ... every node that is neither the target, nor below it, nor one of its ancestors is untouched ... *)
Theorem remove_target_away : forall F p q, ~ pcomparable p q -> locate_pos (remove_target F p) q = locate_pos F q.
Proof.
  intros F p q H. destruct (rev (snd p)) as [|[n| |] up] eqn:E;
    try (unfold remove_target; rewrite E; reflexivity).
  destruct (remove_target_eq F p n up E) as [RT PB]. rewrite RT.
  apply locate_pos_update_away with (tail := [SChild n]); [apply rm_child_away|]. rewrite <- PB. assumption.
Qed.

Lemma update_at_attrs_gen : forall b e f, (forall x, attrs (f x) = attrs x) -> attrs (update_at e b f) = attrs e.
Proof. intros [|s r] e f H; [apply H|apply update_at_attrs]. Qed.

(* ... and an ancestor of the target keeps all its own attributes *)
Theorem remove_target_above : forall F p a b, snd p = a ++ b -> b <> [] ->
  option_map attrs (locate_pos (remove_target F p) (fst p, a)) = option_map attrs (locate_pos F (fst p, a)).
Proof.
  intros F p a b S NB. destruct (rev (snd p)) as [|[n| |] up] eqn:E;
    try (unfold remove_target; rewrite E; reflexivity).
  destruct (remove_target_eq F p n up E) as [RT PB]. rewrite RT.
  pose proof (snd_rev_last _ _ _ E) as SL. rewrite S in SL.
  destruct (exists_last NB) as (b' & x & Hb). subst b. rewrite app_assoc in SL.
  apply app_inj_tail in SL. destruct SL as [SL _]. rewrite <- SL.
  rewrite locate_pos_update_above. destruct (locate_pos F (fst p, a)); [|reflexivity].
  cbn [option_map]. rewrite update_at_attrs_gen; [reflexivity|]. apply rm_child_attrs.
Qed.

(* add / replace / delete: the target gets the new attributes and keeps its subtree ... *)
Theorem replace_attrs_target : forall F p old new,
  locate_pos F p = Some old ->
  exists e, locate_pos (replace_attrs F p new) p = Some e /\ attrs e = attrs new /\ e_dir e = e_dir old /\ e_rpc e = e_rpc old.
Proof.
  intros F p old new L. unfold replace_attrs. rewrite (locate_pos_update_self _ _ _ _ L).
  eexists. split; [reflexivity|]. rewrite attrs_set_rpc, attrs_set_dir, dir_set_rpc, dir_set_dir, rpc_set_rpc. auto.
Qed.

Lemma locate_same_children : forall a b s r, e_dir a = e_dir b -> e_rpc a = e_rpc b -> locate a (s :: r) = locate b (s :: r).
Proof. intros a b s r H1 H2. destruct s; cbn [locate]; rewrite ?H1, ?H2; reflexivity. Qed.

Theorem replace_attrs_below : forall F p old new s r,
  locate_pos F p = Some old -> locate_pos (replace_attrs F p new) (below p (s :: r)) = locate_pos F (below p (s :: r)).
Proof.
  intros F p old new s r L. unfold replace_attrs. rewrite (locate_pos_update_below _ _ _ _ _ L).
  transitivity (locate old (s :: r)).
  - apply locate_same_children; rewrite ?dir_set_rpc, ?dir_set_dir, ?rpc_set_rpc; reflexivity.
  - unfold locate_pos, below in *. cbn [fst snd]. destruct (lookup (fst p) F); [|discriminate].
    rewrite locate_app, L. reflexivity.
Qed.

Theorem replace_attrs_away : forall F p new q, ~ pcomparable p q -> locate_pos (replace_attrs F p new) q = locate_pos F q.
Proof.
  intros F p new q H. unfold replace_attrs. apply locate_pos_update_away with (tail := []).
  - intros e qs' X. exfalso. apply X. exact I.
  - unfold below. rewrite app_nil_r. destruct p. assumption.
Qed.

Theorem replace_attrs_above : forall F p new a b, snd p = a ++ b -> b <> [] ->
  option_map attrs (locate_pos (replace_attrs F p new) (fst p, a)) = option_map attrs (locate_pos F (fst p, a)).
Proof.
  intros F [mn steps] new a b S NB. cbn [fst snd] in *. subst steps. unfold replace_attrs.
  rewrite locate_pos_update_above. destruct (locate_pos F (mn, a)); [|reflexivity].
  cbn [option_map]. destruct b as [|s r]; [congruence|]. rewrite update_at_attrs. reflexivity.
Qed.

(* ------------------------------------------------------------------ the frame of the model itself (no hypotheses) *)
Definition dv_forest (r : forest * entry * bool * bool) : forest := fst (fst (fst r)).
Definition dv_node (r : forest * entry * bool * bool) : entry := snd (fst (fst r)).
Definition dv_att (r : forest * entry * bool * bool) : bool := snd (fst r).

Lemma apply_deviates_err_indep : forall ign p dvs F cur att e1 e2,
  fst (apply_deviates ign F p cur att e1 dvs) = fst (apply_deviates ign F p cur att e2 dvs).
Proof.
  induction dvs as [|dv dvs IH]; intros; cbn [apply_deviates]; [reflexivity|].
  destruct (str_eqb (dv_kind dv) s_notsupported).
  { destruct (rev (snd p)) as [|last up]; [apply IH|]. destruct ign; [apply IH|]. destruct last; apply IH. }
  destruct (str_eqb (dv_kind dv) s_add || str_eqb (dv_kind dv) s_replace).
  { destruct (apply_add_replace _ dv cur). apply IH. }
  destruct (str_eqb (dv_kind dv) s_delete); [|apply IH].
  destruct (apply_delete dv cur). apply IH.
Qed.

Lemma apply_deviates_detached : forall ign p dvs F cur err,
  dv_att (apply_deviates ign F p cur false err dvs) = false.
Proof.
  induction dvs as [|dv dvs IH]; intros; cbn [apply_deviates]; [reflexivity|].
  destruct (str_eqb (dv_kind dv) s_notsupported).
  { destruct (rev (snd p)) as [|last up]; [apply IH|]. destruct ign; [apply IH|]. destruct last; apply IH. }
  destruct (str_eqb (dv_kind dv) s_add || str_eqb (dv_kind dv) s_replace).
  { destruct (apply_add_replace _ dv cur). apply IH. }
  destruct (str_eqb (dv_kind dv) s_delete); [|apply IH].
  destruct (apply_delete dv cur). apply IH.
Qed.

(* a target that is still attached afterwards was never removed: the forest is the one given *)
Lemma apply_deviates_attached : forall ign p dvs F cur att err,
  dv_att (apply_deviates ign F p cur att err dvs) = true ->
  dv_forest (apply_deviates ign F p cur att err dvs) = F.
Proof.
  induction dvs as [|dv dvs IH]; intros F cur att err H; cbn [apply_deviates] in *; [reflexivity|].
  destruct (str_eqb (dv_kind dv) s_notsupported).
  { destruct (rev (snd p)) as [|last up]; [apply IH; assumption|]. destruct ign; [apply IH; assumption|].
    destruct last; try (apply IH; assumption).
    rewrite apply_deviates_detached in H. discriminate. }
  destruct (str_eqb (dv_kind dv) s_add || str_eqb (dv_kind dv) s_replace).
  { destruct (apply_add_replace _ dv cur). apply IH; assumption. }
  destruct (str_eqb (dv_kind dv) s_delete); [|apply IH; assumption].
  destruct (apply_delete dv cur). apply IH; assumption.
Qed.

Lemma apply_deviates_away : forall ign p q dvs F cur att err,
  ~ pcomparable p q -> locate_pos (dv_forest (apply_deviates ign F p cur att err dvs)) q = locate_pos F q.
Proof.
  intros ign p q. induction dvs as [|dv dvs IH]; intros F cur att err H; cbn [apply_deviates]; [reflexivity|].
  destruct (str_eqb (dv_kind dv) s_notsupported).
  { destruct (rev (snd p)) as [|last up] eqn:E; [apply IH; assumption|]. destruct ign; [apply IH; assumption|].
    destruct last as [n| |]; try (apply IH; assumption).
    rewrite IH by assumption. fold (rm_child n).
    apply locate_pos_update_away with (tail := [SChild n]); [apply rm_child_away|].
    destruct (remove_target_eq F p n up E) as [_ PB]. rewrite <- PB. assumption. }
  destruct (str_eqb (dv_kind dv) s_add || str_eqb (dv_kind dv) s_replace).
  { destruct (apply_add_replace _ dv cur). apply IH; assumption. }
  destruct (str_eqb (dv_kind dv) s_delete); [|apply IH; assumption].
  destruct (apply_delete dv cur). apply IH; assumption.
Qed.

Lemma apply_deviates_above : forall ign p a b dvs F cur att err,
  snd p = a ++ b -> b <> [] ->
  option_map attrs (locate_pos (dv_forest (apply_deviates ign F p cur att err dvs)) (fst p, a)) =
  option_map attrs (locate_pos F (fst p, a)).
Proof.
  intros ign p a b. induction dvs as [|dv dvs IH]; intros F cur att err S NB; cbn [apply_deviates]; [reflexivity|].
  destruct (str_eqb (dv_kind dv) s_notsupported).
  { destruct (rev (snd p)) as [|last up] eqn:E; [apply IH; assumption|]. destruct ign; [apply IH; assumption|].
    destruct last as [n| |]; try (apply IH; assumption).
    rewrite IH by assumption. fold (rm_child n).
    destruct (remove_target_eq F p n up E) as [RT _]. rewrite <- RT.
    eapply remove_target_above; eassumption. }
  destruct (str_eqb (dv_kind dv) s_add || str_eqb (dv_kind dv) s_replace).
  { destruct (apply_add_replace _ dv cur). apply IH; assumption. }
  destruct (str_eqb (dv_kind dv) s_delete); [|apply IH; assumption].
  destruct (apply_delete dv cur). apply IH; assumption.
Qed.

(* what ApplyDeviate leaves for one deviation whose target was found at p in F1 *)
Definition deviation_forest (ign : bool) (F1 : forest) (p : pos) (cur : entry) (dvs : list deviate) : forest :=
  let r := apply_deviates ign F1 p cur true false dvs in
  if dv_att r then update_pos (dv_forest r) p (fun old => keep_children old (dv_node r)) else dv_forest r.

Lemma apply_deviations_one : forall SC ign F err m path dvs p F1 cur,
  Find SC F m (m_name m, []) path = (Some p, F1) -> locate_pos F1 p = Some cur ->
  fst (apply_deviations SC ign F err m [(path, dvs)]) = deviation_forest ign F1 p cur dvs.
Proof.
  intros SC ign F err m path dvs p F1 cur HF HL. cbn [apply_deviations]. rewrite HF, HL.
  unfold deviation_forest, dv_att, dv_forest, dv_node.
  pose proof (apply_deviates_err_indep ign p dvs F1 cur true err false) as E.
  destruct (apply_deviates ign F1 p cur true err dvs) as [[[F2 c2] a2] e2].
  destruct (apply_deviates ign F1 p cur true false dvs) as [[[F2' c2'] a2'] e2'].
  cbn in *. inversion E; subst. reflexivity.
Qed.

(* T2, one deviation: (i) away from the target nothing changes *)
Theorem deviation_frame_away : forall ign F1 p cur dvs q,
  ~ pcomparable p q -> locate_pos (deviation_forest ign F1 p cur dvs) q = locate_pos F1 q.
Proof.
  intros ign F1 p cur dvs q H. unfold deviation_forest.
  destruct (dv_att _).
  - rewrite locate_pos_update_away with (tail := []).
    + apply apply_deviates_away. assumption.
    + intros e qs' X. exfalso. apply X. exact I.
    + unfold below. rewrite app_nil_r. destruct p. assumption.
  - apply apply_deviates_away. assumption.
Qed.

(* (ii) the ancestors of the target keep their own attributes *)
Theorem deviation_frame_above : forall ign F1 p cur dvs a b,
  snd p = a ++ b -> b <> [] ->
  option_map attrs (locate_pos (deviation_forest ign F1 p cur dvs) (fst p, a)) =
  option_map attrs (locate_pos F1 (fst p, a)).
Proof.
  intros ign F1 p cur dvs a b S NB. unfold deviation_forest.
  destruct (dv_att _).
  - destruct p as [mn steps]. cbn [fst snd] in *. subst steps.
    rewrite locate_pos_update_above.
    pose proof (apply_deviates_above ign (mn, a ++ b) a b dvs F1 cur true false eq_refl NB) as X.
    cbn [fst] in X. rewrite <- X.
    destruct (locate_pos _ (mn, a)); [|reflexivity].
    cbn [option_map]. destruct b as [|s r]; [congruence|]. rewrite update_at_attrs. reflexivity.
  - eapply apply_deviates_above; eassumption.
Qed.

(* (iii) a target that stays keeps its subtree *)
Theorem deviation_frame_target : forall ign F1 p cur dvs,
  locate_pos F1 p = Some cur ->
  dv_att (apply_deviates ign F1 p cur true false dvs) = true ->
  (exists e, locate_pos (deviation_forest ign F1 p cur dvs) p = Some e /\
             attrs e = attrs (dv_node (apply_deviates ign F1 p cur true false dvs)) /\
             e_dir e = e_dir cur /\ e_rpc e = e_rpc cur) /\
  (forall s r, locate_pos (deviation_forest ign F1 p cur dvs) (below p (s :: r)) = locate_pos F1 (below p (s :: r))).
Proof.
  intros ign F1 p cur dvs L A. unfold deviation_forest. rewrite A.
  rewrite (apply_deviates_attached _ _ _ _ _ _ _ A).
  split.
  - apply (replace_attrs_target F1 p cur _ L).
  - intros s r. apply (replace_attrs_below F1 p cur _ s r L).
Qed.

(* ------------------------------------------------------------------ T3: the option *)
Definition is_ns (dv : deviate) : bool := str_eqb (dv_kind dv) s_notsupported.

Theorem ignore_not_supported : forall p dvs F cur att err,
  snd p <> [] ->
  apply_deviates true F p cur att err dvs =
  apply_deviates false F p cur att err (filter (fun dv => negb (is_ns dv)) dvs).
Proof.
  intros p. induction dvs as [|dv dvs IH]; intros F cur att err NR; cbn [filter]; [reflexivity|].
  unfold is_ns at 1. destruct (str_eqb (dv_kind dv) s_notsupported) eqn:K; cbn [negb].
  - cbn [apply_deviates]. rewrite K.
    destruct (rev (snd p)) as [|last up] eqn:E.
    + exfalso. apply NR. rewrite <- (rev_involutive (snd p)), E. reflexivity.
    + apply IH. assumption.
  - cbn [apply_deviates]. rewrite K.
    destruct (str_eqb (dv_kind dv) s_add || str_eqb (dv_kind dv) s_replace).
    { destruct (apply_add_replace _ dv cur). apply IH. assumption. }
    destruct (str_eqb (dv_kind dv) s_delete); [|apply IH; assumption].
    destruct (apply_delete dv cur). apply IH. assumption.
Qed.

Theorem ignore_not_supported_only : forall p dvs F cur att err,
  snd p <> [] -> forallb is_ns dvs = true ->
  apply_deviates true F p cur att err dvs = (F, cur, att, err).
Proof.
  intros p dvs F cur att err NR H. rewrite ignore_not_supported by assumption.
  replace (filter (fun dv => negb (is_ns dv)) dvs) with (@nil deviate); [reflexivity|].
  induction dvs as [|dv dvs IH]; [reflexivity|]. cbn in *. apply andb_true_iff in H. destruct H as [H1 H2].
  rewrite H1. cbn. apply IH. assumption.
Qed.

Theorem ignore_not_supported_forest : forall SC F err m path dvs p F1 cur,
  Find SC F m (m_name m, []) path = (Some p, F1) -> locate_pos F1 p = Some cur ->
  snd p <> [] -> forallb is_ns dvs = true ->
  apply_deviations SC true F err m [(path, dvs)] = (F1, err).
Proof.
  intros SC F err m path dvs p F1 cur HF HL NR H. cbn [apply_deviations]. rewrite HF, HL.
  rewrite ignore_not_supported_only by assumption.
  rewrite (update_pos_id F1 p _ cur HL); [reflexivity|]. apply keep_children_id.
Qed.

(* ------------------------------------------------------------------ the deviation pass as a run over jobs *)
(* a job: one deviation statement together with the module it is written in *)
Definition job := (module * (str * list deviate))%type.

Definition run_job (SC : schema) (ign : bool) (st : forest * bool) (j : job) : forest * bool :=
  apply_deviations SC ign (fst st) (snd st) (fst j) [snd j].
Definition run_jobs (SC : schema) (ign : bool) (st : forest * bool) (js : list job) : forest * bool :=
  fold_left (run_job SC ign) js st.

Definition module_jobs (m : module) : list job := map (pair m) (m_deviations m).
Definition jobs (SC : schema) (order : list str) : list job :=
  flat_map (fun mn => match find_module SC mn with Some m => module_jobs m | None => [] end) order.

Lemma apply_deviations_jobs : forall SC ign m devs F err,
  apply_deviations SC ign F err m devs = run_jobs SC ign (F, err) (map (pair m) devs).
Proof.
  induction devs as [|d devs IH]; intros; [reflexivity|].
  rewrite apply_deviations_cons. cbn [map run_jobs fold_left]. unfold run_job at 2. cbn [fst snd].
  destruct (apply_deviations SC ign F err m [d]) as [F' e']. apply IH.
Qed.

Lemma run_jobs_app : forall SC ign a b st, run_jobs SC ign st (a ++ b) = run_jobs SC ign (run_jobs SC ign st a) b.
Proof. intros. unfold run_jobs. apply fold_left_app. Qed.

Definition dev_pass (SC : schema) (ign : bool) (order : list str) (st : forest * bool) : forest * bool :=
  fold_left (fun st mn =>
               match find_module SC mn with
               | Some m => apply_deviations SC ign (fst st) (snd st) m (m_deviations m)
               | None => st
               end) order st.

Lemma dev_pass_jobs : forall SC ign order st, dev_pass SC ign order st = run_jobs SC ign st (jobs SC order).
Proof.
  induction order as [|mn order IH]; intros st; [reflexivity|].
  unfold dev_pass, jobs in *. cbn [fold_left flat_map]. rewrite run_jobs_app. rewrite IH. f_equal.
  destruct (find_module SC mn) as [m|]; [|reflexivity].
  destruct st as [F err]. apply apply_deviations_jobs.
Qed.

Lemma run_job_err : forall SC ign F j, snd (run_job SC ign (F, true) j) = true.
Proof. intros. unfold run_job. apply apply_deviations_err. Qed.

Lemma run_jobs_err : forall SC ign js F, snd (run_jobs SC ign (F, true) js) = true.
Proof.
  induction js as [|j js IH]; intros; [reflexivity|]. cbn [run_jobs fold_left].
  pose proof (run_job_err SC ign F j) as E. destruct (run_job SC ign (F, true) j) as [F' e']. cbn in E. subst. apply IH.
Qed.

(* ------------------------------------------------------------------ Process = everything before the deviation pass + the pass *)
(* The part before the pass (includes, ToEntry, augment rounds, choice fix-up, reporting pass: it may fail, it
   does not look at the option) is named stage by stage in Spec/C04.v; Process is tied to those stages by
   TreeInvProofs.Process_stages. *)
Definition pre_dev (SC : schema) (ic : bool) (order : list str) : option (forest * bool) :=
  if C04.includes_fail SC || C04.build_fail SC ic then None
  else Some (C04.stage_F3 SC ic order, C04.stage_err3 SC ic order).

Theorem Process_split : forall SC ic ign order,
  Process SC ic ign order =
  match pre_dev SC ic order with
  | None => RErr
  | Some st => let '(F4, err4) := dev_pass SC ign order st in if err4 then RErr else ROk F4
  end.
Proof.
  intros. rewrite TreeInvProofs.Process_stages. unfold pre_dev.
  destruct (C04.includes_fail SC); [reflexivity|]. destruct (C04.build_fail SC ic); [reflexivity|]. cbn [orb].
  unfold C04.stage_err4, C04.stage_F4, C04.stage_dev, dev_pass.
  change (C04.dev_step SC ign) with
    (fun (st : forest * bool) (mn : str) =>
       match find_module SC mn with
       | Some m => apply_deviations SC ign (fst st) (snd st) m (m_deviations m)
       | None => st
       end).
  destruct (fold_left _ order (C04.stage_F3 SC ic order, C04.stage_err3 SC ic order)) as [F4 e4]. reflexivity.
Qed.

(* the forest handed to the deviation pass satisfies the tree invariant of C04, and the pass keeps it *)
Lemma pre_dev_inv : forall SC ic order F3 e3, pre_dev SC ic order = Some (F3, e3) -> C04.ForestInv false F3.
Proof.
  intros SC ic order F3 e3 H. unfold pre_dev in H. destruct (_ || _); [discriminate|]. inversion H; subst.
  apply TreeInvProofs.stage_F3_inv.
Qed.

Lemma run_job_inv : forall SC ign s st j, C04.ForestInv s (fst st) -> C04.ForestInv s (fst (run_job SC ign st j)).
Proof. intros. unfold run_job. apply TreeInvProofs.apply_deviations_inv. assumption. Qed.

Lemma forestinv_parent_nodup : forall s F p, C04.ForestInv s F -> parent_nodup F p.
Proof.
  intros s F p H pe d L D. pose proof (TreeInvProofs.locate_pos_inv _ _ _ _ H L) as T.
  destruct (TreeInvProofs.TreeInv_dir _ _ _ T D) as [[ND _] _]. exact ND.
Qed.

(* ------------------------------------------------------------------ T4: what is reported *)
(* a deviate statement that cannot be read (unknown kind, max-elements 0, unresolvable type) anywhere in
   the module set *)
Theorem Process_reports_bad_statement : forall SC ic ign order m d dv,
  In m SC -> In d (m_deviations m) -> In dv (snd d) -> deviate_err dv = true ->
  Process SC ic ign order = RErr.
Proof.
  intros SC ic ign order m d dv Hm Hd Hdv E. unfold Process.
  destruct (negb (forallb _ (modules_only SC))); [reflexivity|].
  lazy zeta.
  match goal with |- (if existsb ?f ?l then _ else _) = _ => assert (X : existsb f l = true) end.
  { apply existsb_exists. exists (m, module_entry SC ic m). split.
    - apply in_map_iff. exists m. auto.
    - cbn [snd]. unfold module_entry. destruct (module_dir SC ic (S (length SC)) [] m) as [[dd err] mg]. cbn [snd].
      apply orb_true_iff. right. apply existsb_exists. exists d. split; [assumption|].
      apply existsb_exists. exists dv. auto. }
  rewrite X. reflexivity.
Qed.

(* a job fails when its target is not found or applying its statements raises the error flag *)
Definition job_fails (SC : schema) (ign : bool) (F : forest) (j : job) : Prop :=
  match Find SC F (fst j) (m_name (fst j), []) (fst (snd j)) with
  | (None, _) => True
  | (Some p, F1) =>
    match locate_pos F1 p with
    | None => True
    | Some cur => snd (apply_deviates ign F1 p cur true false (snd (snd j))) = true
    end
  end.

Lemma apply_deviates_err_or : forall ign p dvs F cur att err,
  snd (apply_deviates ign F p cur att err dvs) = err || snd (apply_deviates ign F p cur att false dvs).
Proof.
  intros. destruct err; [|reflexivity]. apply apply_deviates_err.
Qed.

Lemma job_fails_err : forall SC ign F err j, job_fails SC ign F j -> snd (run_job SC ign (F, err) j) = true.
Proof.
  intros SC ign F err [m [path dvs]] H. unfold job_fails, run_job in *. cbn [fst snd apply_deviations] in *.
  destruct (Find SC F m (m_name m, []) path) as [[p|] F1]; [|reflexivity].
  destruct (locate_pos F1 p) as [cur|]; [|reflexivity].
  pose proof (apply_deviates_err_or ign p dvs F1 cur true err) as E. rewrite H, orb_true_r in E.
  destruct (apply_deviates ign F1 p cur true err dvs) as [[[F2 c2] a2] e2]. cbn in E. subst. reflexivity.
Qed.

Theorem Process_reports_failed_job : forall SC ic ign order st0 pre j post,
  pre_dev SC ic order = Some st0 ->
  jobs SC order = pre ++ j :: post ->
  job_fails SC ign (fst (run_jobs SC ign st0 pre)) j ->
  Process SC ic ign order = RErr.
Proof.
  intros SC ic ign order st0 pre j post HP HJ HF. rewrite Process_split, HP, dev_pass_jobs, HJ.
  rewrite run_jobs_app. cbn [run_jobs fold_left]. fold (run_jobs SC ign).
  destruct (run_jobs SC ign st0 pre) as [Fa ea]. cbn [fst] in HF.
  pose proof (job_fails_err SC ign Fa ea j HF) as E.
  destruct (run_job SC ign (Fa, ea) j) as [Fb eb]. cbn in E. subst eb.
  pose proof (run_jobs_err SC ign post Fb) as E2. unfold run_jobs in E2.
  destruct (fold_left (run_job SC ign) post (Fb, true)) as [F4 e4]. cbn in E2. subst. reflexivity.
Qed.

(* missing target *)
Theorem missing_target_fails : forall SC ign F j,
  fst (Find SC F (fst j) (m_name (fst j), []) (fst (snd j))) = None -> job_fails SC ign F j.
Proof.
  intros SC ign F j H. unfold job_fails. destruct (Find _ _ _ _ _) as [[p|] F1]; [discriminate|exact I].
Qed.

(* the node the statements have made of the target so far *)
Definition node_step (cur : entry) (dv : deviate) : entry :=
  if str_eqb (dv_kind dv) s_notsupported then cur
  else if str_eqb (dv_kind dv) s_add || str_eqb (dv_kind dv) s_replace
       then fst (apply_add_replace (str_eqb (dv_kind dv) s_replace) dv cur)
       else if str_eqb (dv_kind dv) s_delete then fst (apply_delete dv cur) else cur.
Definition node_after (cur : entry) (dvs : list deviate) : entry := fold_left node_step dvs cur.

(* one statement raises the flag on the node it meets *)
Definition step_errs (cur : entry) (dv : deviate) : bool :=
  if str_eqb (dv_kind dv) s_notsupported then false
  else if str_eqb (dv_kind dv) s_add || str_eqb (dv_kind dv) s_replace
       then snd (apply_add_replace (str_eqb (dv_kind dv) s_replace) dv cur)
       else if str_eqb (dv_kind dv) s_delete then snd (apply_delete dv cur) else true.

Lemma apply_deviates_step_errs : forall ign p d1 dv d2 F cur att err,
  step_errs (node_after cur d1) dv = true ->
  snd (apply_deviates ign F p cur att err (d1 ++ dv :: d2)) = true.
Proof.
  intros ign p. induction d1 as [|d d1 IH]; intros dv d2 F cur att err H.
  - cbn [app apply_deviates node_after fold_left] in *. unfold step_errs in H.
    destruct (str_eqb (dv_kind dv) s_notsupported); [discriminate|].
    destruct (str_eqb (dv_kind dv) s_add || str_eqb (dv_kind dv) s_replace).
    { destruct (apply_add_replace _ dv cur) as [c e]. cbn in H. subst. rewrite orb_true_r. apply apply_deviates_err. }
    destruct (str_eqb (dv_kind dv) s_delete); [|apply apply_deviates_err].
    destruct (apply_delete dv cur) as [c e]. cbn in H. subst. rewrite orb_true_r. apply apply_deviates_err.
  - change (node_after cur (d :: d1)) with (node_after (node_step cur d) d1) in H.
    remember (node_step cur d) as c1 eqn:C. unfold node_step in C.
    cbn [app apply_deviates].
    destruct (str_eqb (dv_kind d) s_notsupported).
    { subst c1. destruct (rev (snd p)) as [|last up]; [apply IH; exact H|]. destruct ign; [apply IH; exact H|].
      destruct last; apply IH; exact H. }
    destruct (str_eqb (dv_kind d) s_add || str_eqb (dv_kind d) s_replace).
    { destruct (apply_add_replace _ d cur). cbn [fst] in C. subst c1. apply IH; exact H. }
    destruct (str_eqb (dv_kind d) s_delete); [|subst c1; apply IH; exact H].
    destruct (apply_delete d cur). cbn [fst] in C. subst c1. apply IH; exact H.
Qed.

(* the cases the property lists, as conditions on the statement and on the node it meets *)
Lemma kind_add_tests : forall dv, kind_of (dv_kind dv) = Some DKAdd ->
  str_eqb (dv_kind dv) s_notsupported = false /\ str_eqb (dv_kind dv) s_add = true /\ str_eqb (dv_kind dv) s_replace = false.
Proof.
  intros dv K. pose proof (kind_of_spec (dv_kind dv)) as S. rewrite K in S. destruct S as [S1 S2].
  repeat split; auto. apply str_eqb_eq in S2. rewrite S2. reflexivity.
Qed.

Lemma isLeafList_m_cfg : forall dv t, isLeafList (m_cfg dv t) = isLeafList t.
Proof. intros. apply shape_isLeafList, shape_m_cfg. Qed.
Lemma dflt_m_cfg : forall dv t, e_dflt (m_cfg dv t) = e_dflt t.
Proof. intros. unfold m_cfg. destruct (is_set _); [apply dflt_set_cfg|reflexivity]. Qed.
Lemma dflt_d_cfg : forall dv t, e_dflt (d_cfg dv t) = e_dflt t.
Proof. intros. unfold d_cfg. destruct (is_set _); [apply dflt_set_cfg|reflexivity]. Qed.

(* adding a default where one exists (not a leaf-list) *)
Theorem add_default_exists_errs : forall cur dv d,
  kind_of (dv_kind dv) = Some DKAdd -> dv_default dv = Some d ->
  isLeafList cur = false -> e_dflt cur <> [] -> step_errs cur dv = true.
Proof.
  intros cur dv d K D LL NE. destruct (kind_add_tests dv K) as (K1 & K2 & K3).
  unfold step_errs. rewrite K1, K2, K3. cbn [orb]. rewrite apply_add_replace_stages.
  unfold m_dflt. rewrite D, isLeafList_m_cfg, LL, dflt_m_cfg.
  destruct (e_dflt cur); [congruence|]. apply m_bounds_err.
Qed.

Lemma kind_delete_tests : forall dv, kind_of (dv_kind dv) = Some DKDelete ->
  str_eqb (dv_kind dv) s_notsupported = false /\ str_eqb (dv_kind dv) s_add = false /\
  str_eqb (dv_kind dv) s_replace = false /\ str_eqb (dv_kind dv) s_delete = true.
Proof. intros dv K. pose proof (kind_of_spec (dv_kind dv)) as S. rewrite K in S. exact S. Qed.

(* deleting a default that is absent or different (or any default of a leaf-list) *)
Theorem delete_default_mismatch_errs : forall cur dv d,
  kind_of (dv_kind dv) = Some DKDelete -> dv_default dv = Some d ->
  (isLeafList cur = true \/ e_dflt cur = [] \/ (exists x r, e_dflt cur = x :: r /\ x <> d)) ->
  step_errs cur dv = true.
Proof.
  intros cur dv d K D H. destruct (kind_delete_tests dv K) as (K1 & K2 & K3 & K4).
  unfold step_errs. rewrite K1, K2, K3, K4. cbn [orb]. rewrite apply_delete_stages.
  unfold d_dflt. rewrite D, (shape_isLeafList _ _ (shape_d_cfg dv cur)), dflt_d_cfg.
  destruct H as [H|[H|(x & r & H & NE)]].
  - rewrite H. apply d_bounds_err.
  - rewrite H. destruct (isLeafList cur); apply d_bounds_err.
  - rewrite H. destruct (isLeafList cur); [apply d_bounds_err|].
    destruct (str_eqb d x) eqn:E; [|apply d_bounds_err]. apply str_eqb_eq in E. congruence.
Qed.

Lemma la_m_mand_etc : forall dv t, e_la (d_mand dv (fst (d_dflt dv (d_cfg dv t)))) = e_la t.
Proof. intros. rewrite la_d_mand, la_d_dflt, la_d_cfg. reflexivity. Qed.
Lemma bounded_d_stages : forall dv t, bounded (d_mand dv (fst (d_dflt dv (d_cfg dv t)))) = bounded t.
Proof. intros. apply shape_bounded. rewrite shape_d_mand, shape_d_dflt, shape_d_cfg. reflexivity. Qed.

(* deleting an element bound whose statement is absent or whose value is different *)
Theorem delete_bound_absent_or_different_errs : forall cur dv,
  kind_of (dv_kind dv) = Some DKDelete ->
  ((exists n, dv_min dv = Some n /\ (min_written cur = false \/ min_of cur <> n)) \/
   (exists n, dv_max dv = Some n /\ (max_written cur = false \/ max_of cur <> n))) ->
  step_errs cur dv = true.
Proof.
  intros cur dv K H. destruct (kind_delete_tests dv K) as (K1 & K2 & K3 & K4).
  unfold step_errs. rewrite K1, K2, K3, K4. cbn [orb]. rewrite apply_delete_stages.
  pose proof (la_m_mand_etc dv cur) as LA. pose proof (bounded_d_stages dv cur) as BD.
  destruct (d_dflt dv (d_cfg dv cur)) as [t2 e1]. cbn [fst] in *.
  unfold d_bounds. fold (bounded (d_mand dv t2)). rewrite BD.
  destruct (bounded cur) eqn:B.
  2:{ destruct H as [(n & E & _)|(n & E & _)]; rewrite E; destruct (dv_min dv); reflexivity. }
  destruct (bounded_la _ B) as (mn & mx & hm & hx & L).
  unfold min_of, max_of, min_written, max_written in H. rewrite L in H. cbn [negb].
  destruct H as [(n & E & NE)|(n & E & NE)]; rewrite E; cbn [semCheckMin].
  - assert (X : bad_min (d_mand dv t2) n = true).
    { unfold bad_min. rewrite LA, L. destruct NE as [NE|NE]; [subst hm; apply orb_true_r|].
      apply N.eqb_neq in NE. rewrite NE. reflexivity. }
    rewrite X. destruct (dv_max dv); cbn [snd]; rewrite ?orb_true_r; reflexivity.
  - assert (X : bad_max (d_mand dv t2) n = true).
    { unfold bad_max. rewrite LA, L. destruct NE as [NE|NE]; [subst hx; apply orb_true_r|].
      apply N.eqb_neq in NE. rewrite NE. reflexivity. }
    destruct (dv_min dv).
    + destruct (max_after_min (d_mand dv t2) 0 false n) as (M1 & _). rewrite M1, X. cbn [snd]. apply orb_true_r.
    + rewrite X. cbn [snd]. apply orb_true_r.
Qed.

(* element bounds on a node that is neither a list nor a leaf-list *)
Theorem bounds_on_non_list_errs : forall cur dv k,
  kind_of (dv_kind dv) = Some k -> k <> DKNotSupported ->
  (dv_min dv <> None \/ dv_max dv <> None) -> bounded cur = false ->
  step_errs cur dv = true.
Proof.
  intros cur dv k K NK H B. pose proof (kind_of_spec (dv_kind dv)) as S. rewrite K in S.
  unfold step_errs. destruct k; [| | |congruence].
  - destruct S as (S1 & S2). rewrite S1, S2. cbn [orb]. rewrite apply_add_replace_stages.
    destruct (m_dflt _ dv (m_cfg dv cur)) as [t2 e1] eqn:E.
    assert (BD : bounded (m_mand dv t2) = false).
    { rewrite <- B. apply shape_bounded. rewrite shape_m_mand. replace t2 with (fst (m_dflt (str_eqb (dv_kind dv) s_replace) dv (m_cfg dv cur))) by (rewrite E; reflexivity).
      rewrite shape_m_dflt. apply shape_m_cfg. }
    unfold m_bounds. fold (bounded (m_mand dv t2)). rewrite BD.
    destruct (dv_min dv), (dv_max dv); try reflexivity. destruct H; congruence.
  - destruct S as (S1 & S2 & S3). rewrite S1, S2, S3. cbn [orb]. rewrite apply_add_replace_stages.
    destruct (m_dflt _ dv (m_cfg dv cur)) as [t2 e1] eqn:E.
    assert (BD : bounded (m_mand dv t2) = false).
    { rewrite <- B. apply shape_bounded. rewrite shape_m_mand. replace t2 with (fst (m_dflt true dv (m_cfg dv cur))) by (rewrite E; reflexivity).
      rewrite shape_m_dflt. apply shape_m_cfg. }
    unfold m_bounds. fold (bounded (m_mand dv t2)). rewrite BD.
    destruct (dv_min dv), (dv_max dv); try reflexivity. destruct H; congruence.
  - destruct S as (S1 & S2 & S3 & S4). rewrite S1, S2, S3, S4. cbn [orb]. rewrite apply_delete_stages.
    pose proof (bounded_d_stages dv cur) as BD.
    destruct (d_dflt dv (d_cfg dv cur)) as [t2 e1]. cbn [fst] in *.
    unfold d_bounds. fold (bounded (d_mand dv t2)). rewrite BD, B.
    destruct (dv_min dv), (dv_max dv); try reflexivity. destruct H; congruence.
Qed.

(* unknown deviate kind (also caught when the statement is read, see Process_reports_bad_statement) *)
Theorem unknown_kind_errs : forall cur dv, kind_of (dv_kind dv) = None -> step_errs cur dv = true.
Proof.
  intros cur dv K. pose proof (kind_of_spec (dv_kind dv)) as S. rewrite K in S.
  destruct S as (S1 & S2 & S3 & S4). unfold step_errs. rewrite S1, S2, S3, S4. reflexivity.
Qed.

Theorem unknown_kind_bad_statement : forall dv, kind_of (dv_kind dv) = None -> deviate_err dv = true.
Proof. intros dv K. rewrite deviate_err_spec, K. reflexivity. Qed.

Theorem unresolvable_type_bad_statement : forall dv t,
  dv_type dv = Some t -> is_builtin t = false -> deviate_err dv = true.
Proof.
  intros dv t T B. unfold deviate_err. rewrite T, B. cbn. apply orb_true_r.
Qed.

(* a step that errs somewhere in the statements of a job makes the job fail *)
Theorem step_errs_job_fails : forall SC ign F m path d1 dv d2 p F1 cur,
  Find SC F m (m_name m, []) path = (Some p, F1) -> locate_pos F1 p = Some cur ->
  step_errs (node_after cur d1) dv = true ->
  job_fails SC ign F (m, (path, d1 ++ dv :: d2)).
Proof.
  intros SC ign F m path d1 dv d2 p F1 cur HF HL H. unfold job_fails. cbn [fst snd]. rewrite HF, HL.
  apply apply_deviates_step_errs. assumption.
Qed.

(* a second not-supported on one target, or not-supported on a module root or an rpc's input/output *)
Theorem not_supported_not_removable_fails : forall p dvs F cur att err,
  removable p = false -> existsb is_ns dvs = true ->
  snd (apply_deviates false F p cur att err dvs) = true.
Proof.
  intros p. induction dvs as [|dv dvs IH]; intros F cur att err R H; [discriminate|].
  cbn [existsb apply_deviates] in *. unfold is_ns in H at 1. unfold removable in R.
  destruct (str_eqb (dv_kind dv) s_notsupported) eqn:K.
  - destruct (rev (snd p)) as [|[n| |] up]; try discriminate; apply apply_deviates_err.
  - cbn [orb] in H.
    destruct (str_eqb (dv_kind dv) s_add || str_eqb (dv_kind dv) s_replace).
    { destruct (apply_add_replace _ dv cur). apply IH; assumption. }
    destruct (str_eqb (dv_kind dv) s_delete); [|apply IH; assumption].
    destruct (apply_delete dv cur). apply IH; assumption.
Qed.

(* ------------------------------------------------------------------ what a lookup creates *)
(* away from the updated position, when the update is known only at the node it reaches *)
Lemma locate_update_at_away_at : forall steps tail root f qs e,
  locate root steps = Some e ->
  (forall qs', ~ comparable tail qs' -> locate (f e) qs' = locate e qs') ->
  ~ comparable (steps ++ tail) qs ->
  locate (update_at root steps f) qs = locate root qs.
Proof.
  induction steps as [|s steps IH]; intros tail root f qs e HL Hf Hc; cbn [app update_at locate] in *.
  - inversion HL; subst. apply Hf. assumption.
  - destruct qs as [|s' qs]; [exfalso; apply Hc; exact I|].
    cbn [comparable] in Hc.
    destruct (step_eq_dec s s') as [E|NE].
    + subst s'. assert (Hc' : ~ comparable (steps ++ tail) qs) by tauto.
      destruct s; cbn [locate].
      * destruct (e_dir root) as [d|] eqn:D; [|discriminate].
        destruct (lookup n d) as [c|] eqn:L; [|discriminate].
        rewrite dir_set_dir. rewrite lookup_update_same by congruence. eapply IH; eassumption.
      * destruct (e_rpc root) as [[[i|] o]|] eqn:R; try discriminate.
        rewrite rpc_set_rpc. eapply IH; eassumption.
      * destruct (e_rpc root) as [[i [o|]]|] eqn:R; try discriminate.
        rewrite rpc_set_rpc. eapply IH; eassumption.
    + destruct s.
      * destruct (e_dir root) as [d|] eqn:D; [|reflexivity].
        destruct (lookup n d) as [c|] eqn:L; [|reflexivity].
        destruct s'; cbn [locate]; rewrite ?dir_set_dir, ?rpc_set_dir, ?D; try reflexivity.
        rewrite lookup_update_other; [reflexivity|].
        apply str_eqb_neq. congruence.
      * destruct (e_rpc root) as [[[i|] o]|] eqn:R; try reflexivity.
        destruct s'; cbn [locate]; rewrite ?dir_set_rpc, ?rpc_set_rpc, ?R; try reflexivity. congruence.
      * destruct (e_rpc root) as [[i [o|]]|] eqn:R; try reflexivity.
        destruct s'; cbn [locate]; rewrite ?dir_set_rpc, ?rpc_set_rpc, ?R; try reflexivity. congruence.
Qed.

Lemma locate_pos_update_away_at : forall F p tail f q e,
  locate_pos F p = Some e ->
  (forall qs', ~ comparable tail qs' -> locate (f e) qs' = locate e qs') ->
  ~ pcomparable (below p tail) q ->
  locate_pos (update_pos F p f) q = locate_pos F q.
Proof.
  intros F [mn steps] tail f [qn qs] e HL Hf Hc. unfold locate_pos, update_pos, pcomparable, below in *.
  cbn [fst snd] in *.
  destruct (lookup mn F) as [root|] eqn:L; [|reflexivity].
  destruct (str_eqb qn mn) eqn:E.
  - apply str_eqb_eq in E. subst qn. rewrite lookup_update_same by congruence. rewrite L.
    apply locate_update_at_away_at with (tail := tail) (e := e); [assumption|assumption|]. tauto.
  - rewrite lookup_update_other by assumption. reflexivity.
Qed.

Lemma create_input_away : forall e o qs', e_rpc e = Some (None, o) -> ~ comparable [SIn] qs' ->
  locate (set_rpc e (Some (Some (empty_io true), o))) qs' = locate e qs'.
Proof.
  intros e o qs' R H. destruct qs' as [|s r]; [exfalso; apply H; exact I|].
  destruct s; cbn [locate]; rewrite ?dir_set_rpc, ?rpc_set_rpc, ?R; try reflexivity.
  exfalso. apply H. cbn. split; [reflexivity|]. destruct r; exact I.
Qed.
Lemma create_output_away : forall e i qs', e_rpc e = Some (i, None) -> ~ comparable [SOut] qs' ->
  locate (set_rpc e (Some (i, Some (empty_io false)))) qs' = locate e qs'.
Proof.
  intros e i qs' R H. destruct qs' as [|s r]; [exfalso; apply H; exact I|].
  destruct s; cbn [locate]; rewrite ?dir_set_rpc, ?rpc_set_rpc, ?R; try reflexivity; try (destruct i; reflexivity).
  exfalso. apply H. cbn. split; [reflexivity|]. destruct r; exact I.
Qed.

(* the positions of the rpc input/output nodes that find_steps makes on demand, in the order made *)
Fixpoint find_created (F : forest) (p : option pos) (parts : list str) : list pos :=
  match parts with
  | [] => []
  | part :: rest =>
    match p with
    | None => []
    | Some (mn, steps) =>
      if str_eqb part s_dot then find_created F p rest
      else if str_eqb part s_dotdot then
        match rev steps with
        | [] => []
        | _ :: up => find_created F (Some (mn, rev up)) rest
        end
      else
        match locate_pos F (mn, steps) with
        | None => []
        | Some e =>
          let name := snd (getPrefix part) in
          match e_rpc e with
          | Some (i, o) =>
            if str_eqb name s_input then
              match i with
              | None => (mn, steps ++ [SIn]) ::
                        find_created (update_pos F (mn, steps) (fun x => set_rpc x (Some (Some (empty_io true), o))))
                                     (Some (mn, steps ++ [SIn])) rest
              | Some _ => find_created F (Some (mn, steps ++ [SIn])) rest
              end
            else if str_eqb name s_output then
              match o with
              | None => (mn, steps ++ [SOut]) ::
                        find_created (update_pos F (mn, steps) (fun x => set_rpc x (Some (i, Some (empty_io false)))))
                                     (Some (mn, steps ++ [SOut])) rest
              | Some _ => find_created F (Some (mn, steps ++ [SOut])) rest
              end
            else []
          | None =>
            if str_eqb name s_dot then find_created F p rest
            else if match name with [] => true | _ => false end || str_eqb name s_dotdot then []
            else
              match e_dir e with
              | Some d => match lookup name d with
                          | Some _ => find_created F (Some (mn, steps ++ [SChild name])) rest
                          | None => []
                          end
              | None => []
              end
          end
        end
    end
  end.

Lemma find_steps_none : forall parts F, find_steps F None parts = (None, F).
Proof. destruct parts; reflexivity. Qed.

Lemma find_steps_frame : forall parts F p q,
  (forall c, In c (find_created F p parts) -> ~ pcomparable c q) ->
  locate_pos (snd (find_steps F p parts)) q = locate_pos F q.
Proof.
  induction parts as [|part rest IH]; intros F p q H; cbn [find_steps find_created] in *; [reflexivity|].
  destruct p as [[mn steps]|]; [|reflexivity].
  destruct (str_eqb part s_dot); [apply IH; assumption|].
  destruct (str_eqb part s_dotdot).
  { destruct (rev steps); [rewrite find_steps_none; reflexivity|apply IH; assumption]. }
  destruct (locate_pos F (mn, steps)) as [e|] eqn:L; [|reflexivity].
  destruct (e_rpc e) as [[i o]|] eqn:R.
  - destruct (str_eqb (snd (getPrefix part)) s_input).
    { destruct i as [i|]; [apply IH; assumption|].
      rewrite IH by (intros c Hc; apply H; right; assumption).
      apply locate_pos_update_away_at with (tail := [SIn]) (e := e); [assumption| |].
      - intros qs' X. apply create_input_away; assumption.
      - apply H. left. reflexivity. }
    destruct (str_eqb (snd (getPrefix part)) s_output); [|reflexivity].
    destruct o as [o|]; [apply IH; assumption|].
    rewrite IH by (intros c Hc; apply H; right; assumption).
    apply locate_pos_update_away_at with (tail := [SOut]) (e := e); [assumption| |].
    + intros qs' X. apply create_output_away; assumption.
    + apply H. left. reflexivity.
  - destruct (str_eqb (snd (getPrefix part)) s_dot); [apply IH; assumption|].
    destruct (_ || _); [reflexivity|].
    destruct (e_dir e) as [d|]; [|rewrite find_steps_none; reflexivity].
    destruct (lookup (snd (getPrefix part)) d); [apply IH; assumption|rewrite find_steps_none; reflexivity].
Qed.

(* Find only dispatches to find_steps: the start position is all that depends on the module set *)
Definition Find_created (SC : schema) (F : forest) (ctx : module) (start : pos) (name : str) : list pos :=
  match name with
  | [] => []
  | _ =>
    match split_on cSLASH [] name with
    | [] :: first :: rest =>
      let prefix := fst (getPrefix first) in
      match prefix with
      | [] =>
        let root := match find_module SC (fst start) with
                    | Some sm => match owner SC sm with Some o => m_name o | None => fst start end
                    | None => fst start
                    end in
        find_created F (Some (root, [])) (first :: rest)
      | _ =>
        match FindModuleByPrefix SC ctx prefix with
        | None => []
        | Some md =>
          match owner SC md with
          | None => []
          | Some m => find_created F (Some (m_name m, [])) (first :: rest)
          end
        end
      end
    | [] :: [] => []
    | parts => find_created F (Some start) parts
    end
  end.

Theorem Find_frame : forall SC F ctx start name q,
  (forall c, In c (Find_created SC F ctx start name) -> ~ pcomparable c q) ->
  locate_pos (snd (Find SC F ctx start name)) q = locate_pos F q.
Proof.
  intros SC F ctx start name q H. unfold Find, Find_created in *.
  destruct name as [|c0 name]; [reflexivity|].
  destruct (split_on cSLASH [] (c0 :: name)) as [|[|x l] [|first rest]];
    try (apply find_steps_frame; assumption); try reflexivity.
  destruct (fst (getPrefix first)).
  - apply find_steps_frame; assumption.
  - destruct (FindModuleByPrefix SC ctx (n :: s)); [|reflexivity].
    destruct (owner SC m); [|reflexivity]. apply find_steps_frame; assumption.
Qed.

Theorem Find_created_nil : forall SC F ctx start name,
  Find_created SC F ctx start name = [] -> forall q, locate_pos (snd (Find SC F ctx start name)) q = locate_pos F q.
Proof. intros. apply Find_frame. rewrite H. intros c []. Qed.

(* ------------------------------------------------------------------ T2 for the whole deviation pass *)
Definition job_target (SC : schema) (F : forest) (j : job) : option pos :=
  fst (Find SC F (fst j) (m_name (fst j), []) (fst (snd j))).

(* what one deviation touches: the rpc input/output nodes its path lookup creates, and its target *)
Definition job_touched (SC : schema) (F : forest) (j : job) : list pos :=
  Find_created SC F (fst j) (m_name (fst j), []) (fst (snd j)) ++
  match job_target SC F j with Some p => [p] | None => [] end.

(* ... and the whole pass, each deviation in the forest of its moment *)
Fixpoint jobs_touched (SC : schema) (ign : bool) (F : forest) (js : list job) : list pos :=
  match js with
  | [] => []
  | j :: r => job_touched SC F j ++ jobs_touched SC ign (fst (run_job SC ign (F, false) j)) r
  end.

Lemma run_job_err_indep : forall SC ign F e1 e2 j,
  fst (run_job SC ign (F, e1) j) = fst (run_job SC ign (F, e2) j).
Proof.
  intros SC ign F e1 e2 [m [path dvs]]. unfold run_job. cbn [fst snd apply_deviations].
  destruct (Find SC F m (m_name m, []) path) as [[p|] F1]; [|reflexivity].
  destruct (locate_pos F1 p) as [cur|]; [|reflexivity].
  pose proof (apply_deviates_err_indep ign p dvs F1 cur true e1 e2) as E.
  destruct (apply_deviates ign F1 p cur true e1 dvs) as [[[F2 c2] a2] x2].
  destruct (apply_deviates ign F1 p cur true e2 dvs) as [[[F2' c2'] a2'] x2'].
  cbn in *. inversion E; subst. reflexivity.
Qed.

Lemma run_job_frame : forall SC ign F err j q,
  (forall p, In p (job_touched SC F j) -> ~ pcomparable p q) ->
  locate_pos (fst (run_job SC ign (F, err) j)) q = locate_pos F q.
Proof.
  intros SC ign F err [m [path dvs]] q HT. unfold job_touched, job_target in HT. cbn [fst snd] in *.
  pose proof (Find_frame SC F m (m_name m, []) path q
                (fun c Hc => HT c (in_or_app _ _ _ (or_introl Hc)))) as FF.
  destruct (Find SC F m (m_name m, []) path) as [[p|] F1] eqn:HF; cbn [fst snd] in *.
  - destruct (locate_pos F1 p) as [cur|] eqn:HL.
    + unfold run_job. cbn [fst snd]. rewrite (apply_deviations_one SC ign F err m path dvs p F1 cur HF HL).
      rewrite deviation_frame_away; [exact FF|]. apply HT. apply in_or_app. right. left. reflexivity.
    + unfold run_job. cbn [fst snd apply_deviations]. rewrite HF, HL. exact FF.
  - unfold run_job. cbn [fst snd apply_deviations]. rewrite HF. exact FF.
Qed.

Theorem jobs_frame : forall SC ign js F err q,
  (forall p, In p (jobs_touched SC ign F js) -> ~ pcomparable p q) ->
  locate_pos (fst (run_jobs SC ign (F, err) js)) q = locate_pos F q.
Proof.
  intros SC ign. induction js as [|j js IH]; intros F err q HT; [reflexivity|].
  cbn [run_jobs fold_left jobs_touched] in *.
  fold (run_jobs SC ign (run_job SC ign (F, err) j) js).
  destruct (run_job SC ign (F, err) j) as [F' e'] eqn:RJ.
  assert (EF : F' = fst (run_job SC ign (F, false) j)).
  { rewrite (run_job_err_indep SC ign F false err j), RJ. reflexivity. }
  rewrite IH.
  - replace F' with (fst (run_job SC ign (F, err) j)) by (rewrite RJ; reflexivity).
    apply run_job_frame. intros p Hp. apply HT. apply in_or_app. left. assumption.
  - intros p Hp. apply HT. apply in_or_app. right. rewrite <- EF. assumption.
Qed.

(* a clean Process: the forest is the one built before the deviation pass, changed by the pass only *)
Theorem Process_ok_inv : forall SC ic ign order F4,
  Process SC ic ign order = ROk F4 ->
  exists F3, pre_dev SC ic order = Some (F3, false) /\
             run_jobs SC ign (F3, false) (jobs SC order) = (F4, false).
Proof.
  intros SC ic ign order F4 H. rewrite Process_split in H.
  destruct (pre_dev SC ic order) as [[F3 e3]|]; [|discriminate].
  rewrite dev_pass_jobs in H. exists F3.
  destruct e3.
  - pose proof (run_jobs_err SC ign (jobs SC order) F3) as E.
    destruct (run_jobs SC ign (F3, true) (jobs SC order)) as [F e]. cbn in E. subst. discriminate.
  - split; [reflexivity|]. destruct (run_jobs SC ign (F3, false) (jobs SC order)) as [F e].
    destruct e; [discriminate|]. inversion H. reflexivity.
Qed.

Theorem Process_frame : forall SC ic ign order F4,
  Process SC ic ign order = ROk F4 ->
  exists F3, pre_dev SC ic order = Some (F3, false) /\
    forall q, (forall p, In p (jobs_touched SC ign F3 (jobs SC order)) -> ~ pcomparable p q) ->
              locate_pos F4 q = locate_pos F3 q.
Proof.
  intros SC ic ign order F4 H. destruct (Process_ok_inv _ _ _ _ _ H) as (F3 & H1 & H2).
  exists F3. split; [assumption|]. intros q HT.
  replace F4 with (fst (run_jobs SC ign (F3, false) (jobs SC order))) by (rewrite H2; reflexivity).
  apply jobs_frame; assumption.
Qed.

(* the option reaches Process only through the deviation pass *)
Theorem Process_option_only_in_pass : forall SC ic order,
  pre_dev SC ic order = None -> forall ign, Process SC ic ign order = RErr.
Proof. intros SC ic order H ign. rewrite Process_split, H. reflexivity. Qed.

Lemma is_ns_kind : forall dv, is_ns dv = true -> kind_of (dv_kind dv) = Some DKNotSupported.
Proof. intros dv H. unfold is_ns in H. apply str_eqb_eq in H. rewrite H. reflexivity. Qed.

(* two not-supported statements on one target: the second has nothing left to remove *)
Theorem not_supported_twice_fails : forall F p cur d1 dv1 d2 dv2 d3 err,
  locate_pos F p = Some cur -> parent_nodup F p ->
  is_ns dv1 = true -> is_ns dv2 = true ->
  snd (apply_deviates false F p cur true err (d1 ++ dv1 :: d2 ++ dv2 :: d3)) = true.
Proof.
  intros F p cur d1 dv1 d2 dv2 d3 err L ND N1 N2.
  destruct (removable p) eqn:R.
  2:{ apply not_supported_not_removable_fails; [assumption|].
      rewrite existsb_app. cbn [existsb]. rewrite N1. rewrite orb_true_r. reflexivity. }
  (* generalise over the statements before the first not-supported *)
  assert (G : forall d1 F cur att err,
             (att = true -> present_at F p = true /\ parent_nodup F p) ->
             (att = false -> present_at F p = false) ->
             snd (apply_deviates false F p cur att err (d1 ++ dv1 :: d2 ++ dv2 :: d3)) = true).
  { clear d1 F cur err L ND.
    assert (G2 : forall d2 F cur err, present_at F p = false ->
                 snd (apply_deviates false F p cur false err (d2 ++ dv2 :: d3)) = true).
    { intro dd. induction dd as [|d dd IH]; intros F cur err P.
      - cbn [app]; cbn [apply_deviates]. unfold is_ns in N2. rewrite N2.
        unfold present_at in P. unfold removable in R.
        destruct (rev (snd p)) as [|[n| |] up]; try discriminate.
        rewrite P. cbn [negb]. rewrite orb_true_r. apply apply_deviates_err.
      - cbn [app]; cbn [apply_deviates].
        destruct (str_eqb (dv_kind d) s_notsupported).
        { unfold present_at in P. unfold removable in R.
          destruct (rev (snd p)) as [|[n| |] up]; try discriminate.
          rewrite P. cbn [negb]. rewrite orb_true_r. apply apply_deviates_err. }
        destruct (str_eqb (dv_kind d) s_add || str_eqb (dv_kind d) s_replace).
        { destruct (apply_add_replace _ d cur). apply IH; assumption. }
        destruct (str_eqb (dv_kind d) s_delete); [|apply IH; assumption].
        destruct (apply_delete d cur). apply IH; assumption. }
    intro dd. induction dd as [|d dd IH]; intros F cur att err HA HD.
    - cbn [app]; cbn [apply_deviates]. unfold is_ns in N1. rewrite N1.
      pose proof R as R'. unfold removable in R'.
      destruct (rev (snd p)) as [|[n| |] up] eqn:E; try discriminate.
      destruct att.
      + destruct (HA eq_refl) as [HP HN].
        destruct (remove_target_eq F p n up E) as [RT _]. fold (rm_child n). rewrite <- RT.
        apply G2. apply present_after_remove; assumption.
      + specialize (HD eq_refl). unfold present_at in HD. rewrite E in HD. rewrite HD. cbn [negb].
        rewrite orb_true_r. apply apply_deviates_err.
    - cbn [app]; cbn [apply_deviates].
      destruct (str_eqb (dv_kind d) s_notsupported).
      { pose proof R as R'. unfold removable in R'.
        destruct (rev (snd p)) as [|[n| |] up] eqn:E; try discriminate.
        destruct att.
        + destruct (HA eq_refl) as [HP HN].
          destruct (remove_target_eq F p n up E) as [RT _]. fold (rm_child n). rewrite <- RT.
          apply IH; [discriminate|]. intros _. apply present_after_remove; assumption.
        + specialize (HD eq_refl). pose proof HD as HD'. unfold present_at in HD'. rewrite E in HD'. rewrite HD'. cbn [negb].
          rewrite orb_true_r. apply apply_deviates_err. }
      destruct (str_eqb (dv_kind d) s_add || str_eqb (dv_kind d) s_replace).
      { destruct (apply_add_replace _ d cur). apply IH; assumption. }
      destruct (str_eqb (dv_kind d) s_delete); [|apply IH; assumption].
      destruct (apply_delete d cur). apply IH; assumption. }
  apply G.
  - intros _. split; [eapply located_present; eassumption|assumption].
  - discriminate.
Qed.

(* T3 on the reference side: under the option a not-supported statement leaves the state as it is *)
Theorem spec_ignore_not_supported : forall res rem st dv,
  is_ns dv = true -> props_valid res (named_props dv) = true ->
  spec_deviate res true rem st dv = Some st.
Proof.
  intros res rem st dv N V. unfold spec_deviate. rewrite (is_ns_kind dv N), V. reflexivity.
Qed.

(* ------------------------------------------------------------------ T1 for the whole pass, on forests that satisfy C04's invariant *)
(* what remains of the hypotheses of the agreement once the tree invariant provides the distinct sibling names *)
Definition job_claimed (SC : schema) (ign : bool) (F : forest) (j : job) : Prop :=
  match Find SC F (fst j) (m_name (fst j), []) (fst (snd j)) with
  | (Some p, F1) =>
    match locate_pos F1 p with
    | Some cur => (ign = true -> snd p <> []) /\
                  claimed is_builtin ign (removable p) (init_state cur) (snd (snd j)) = true
    | None => True
    end
  | (None, _) => True
  end.

Fixpoint jobs_claimed (SC : schema) (ign : bool) (F : forest) (js : list job) : Prop :=
  match js with
  | [] => True
  | j :: rest =>
    job_claimed SC ign F j /\
    match spec_deviation SC ign F (fst j) (snd j) with
    | Some F' => jobs_claimed SC ign F' rest
    | None => True
    end
  end.

Lemma job_claimed_deviation : forall SC ign s F m d,
  C04.ForestInv s F -> job_claimed SC ign F (m, d) -> deviation_claimed SC ign F m d.
Proof.
  intros SC ign s F m d HI HC. unfold job_claimed, deviation_claimed in *. cbn [fst snd] in *.
  pose proof (TreeInvProofs.Find_inv SC s F m (m_name m, []) (fst d) HI) as HI1.
  destruct (Find SC F m (m_name m, []) (fst d)) as [[p|] F1]; [|exact I]. cbn [snd] in HI1.
  destruct (locate_pos F1 p); [|exact I]. destruct HC as [H1 H2].
  split; [eapply forestinv_parent_nodup; eassumption|]. split; assumption.
Qed.

Definition jobs_deviate_err (js : list job) : bool := existsb (fun j => existsb deviate_err (snd (snd j))) js.

Theorem jobs_agree : forall SC ign s js F err,
  C04.ForestInv s F -> jobs_claimed SC ign F js ->
  match spec_pass SC ign F js with
  | Some F' => run_jobs SC ign (F, err) js = (F', err) /\ jobs_deviate_err js = false
  | None => snd (run_jobs SC ign (F, err) js) = true \/ jobs_deviate_err js = true
  end.
Proof.
  intros SC ign s. induction js as [|[m d] js IH]; intros F err HI HC.
  { cbn. auto. }
  cbn [spec_pass jobs_claimed run_jobs fold_left jobs_deviate_err existsb fst snd] in *.
  destruct HC as [HC1 HC2].
  pose proof (deviation_agree SC ign F err m d (job_claimed_deviation _ _ _ _ _ _ HI HC1)) as A.
  pose proof (run_job_inv SC ign s (F, err) (m, d) HI) as HI'.
  fold (run_jobs SC ign (run_job SC ign (F, err) (m, d)) js).
  unfold run_job in *. cbn [fst snd] in *.
  destruct (spec_deviation SC ign F m d) as [F'|].
  - destruct A as [A1 A2]. rewrite A1 in *. rewrite A2. cbn [orb fst] in *.
    apply (IH F' err); assumption.
  - destruct A as [A|A].
    + left. destruct (apply_deviations SC ign F err m [d]) as [F' e']. cbn in A. subst e'.
      apply run_jobs_err.
    + right. rewrite A. reflexivity.
Qed.

Lemma find_module_in : forall SC n m, find_module SC n = Some m -> In m SC.
Proof.
  induction SC as [|x SC IH]; cbn; intros n m H; [discriminate|].
  destruct (str_eqb (m_name x) n); [inversion H; auto|]. right. eapply IH; eassumption.
Qed.

Lemma jobs_in : forall SC order j, In j (jobs SC order) -> In (fst j) SC /\ In (snd j) (m_deviations (fst j)).
Proof.
  intros SC order j H. unfold jobs in H. apply in_flat_map in H. destruct H as (mn & _ & H).
  destruct (find_module SC mn) as [m|] eqn:E; [|contradiction].
  unfold module_jobs in H. apply in_map_iff in H. destruct H as (d & <- & Hd). cbn.
  split; [eapply find_module_in; eassumption|assumption].
Qed.

(* T1 at the level of Process: with the forest before the pass clean, Process returns what the reference pass
   returns -- no hypothesis on sibling names or defaults any more *)
Theorem Process_agrees : forall SC ic ign order F3,
  pre_dev SC ic order = Some (F3, false) ->
  jobs_claimed SC ign F3 (jobs SC order) ->
  Process SC ic ign order = match spec_pass SC ign F3 (jobs SC order) with Some F' => ROk F' | None => RErr end.
Proof.
  intros SC ic ign order F3 HP HC.
  pose proof (jobs_agree SC ign false (jobs SC order) F3 false (pre_dev_inv _ _ _ _ _ HP) HC) as A.
  destruct (spec_pass SC ign F3 (jobs SC order)) as [F'|].
  - destruct A as [A _]. rewrite Process_split, HP, dev_pass_jobs, A. reflexivity.
  - destruct A as [A|A].
    + rewrite Process_split, HP, dev_pass_jobs.
      destruct (run_jobs SC ign (F3, false) (jobs SC order)) as [F e]. cbn in A. subst. reflexivity.
    + unfold jobs_deviate_err in A. apply existsb_exists in A. destruct A as (j & Hj & A).
      apply existsb_exists in A. destruct A as (dv & Hdv & A).
      destruct (jobs_in _ _ _ Hj) as [H1 H2].
      eapply Process_reports_bad_statement; eassumption.
Qed.

(* ------------------------------------------------------------------ the forest before the pass is the result without the deviations *)
Lemma pre_dev_strip : forall SC ic order,
  existsb derr SC = false -> pre_dev (strip_devs SC) ic order = pre_dev SC ic order.
Proof.
  intros SC ic order H. unfold pre_dev.
  rewrite includes_fail_strip, stage_F3_strip, stage_err3_strip, (build_fail_strip SC ic), H, orb_false_r. reflexivity.
Qed.

Lemma jobs_strip : forall SC order, jobs (strip_devs SC) order = [].
Proof.
  intros SC order. unfold jobs. induction order as [|mn order IH]; [reflexivity|].
  cbn [flat_map]. rewrite IH, find_module_strip. destruct (find_module SC mn); reflexivity.
Qed.

Theorem Process_strip : forall SC ic ign order,
  existsb derr SC = false ->
  Process (strip_devs SC) ic ign order =
  match pre_dev SC ic order with
  | None => RErr
  | Some (F3, e3) => if e3 then RErr else ROk F3
  end.
Proof.
  intros SC ic ign order H. rewrite Process_split, (pre_dev_strip SC ic order H).
  destruct (pre_dev SC ic order) as [[F3 e3]|]; [|reflexivity].
  rewrite dev_pass_jobs, jobs_strip. reflexivity.
Qed.

Lemma Process_ok_no_derr : forall SC ic ign order F, Process SC ic ign order = ROk F -> existsb derr SC = false.
Proof.
  intros SC ic ign order F H. destruct (existsb derr SC) eqn:E; [|reflexivity].
  apply existsb_exists in E. destruct E as (m & Hm & E). unfold derr in E.
  apply existsb_exists in E. destruct E as (d & Hd & E). apply existsb_exists in E. destruct E as (dv & Hdv & E).
  rewrite (Process_reports_bad_statement SC ic ign order m d dv Hm Hd Hdv E) in H. discriminate.
Qed.

(* T2 at the level of Process, complete: a clean result differs from what the same modules yield WITHOUT their
   deviation statements only at the positions the deviations touch *)
Theorem Process_frame_without : forall SC ic ign order F4,
  Process SC ic ign order = ROk F4 ->
  exists F3, Process (strip_devs SC) ic ign order = ROk F3 /\
    forall q, (forall p, In p (jobs_touched SC ign F3 (jobs SC order)) -> ~ pcomparable p q) ->
              locate_pos F4 q = locate_pos F3 q.
Proof.
  intros SC ic ign order F4 H. destruct (Process_frame SC ic ign order F4 H) as (F3 & HP & HF).
  exists F3. split; [|assumption].
  rewrite (Process_strip SC ic ign order (Process_ok_no_derr _ _ _ _ _ H)), HP. reflexivity.
Qed.

(* ... and T1 at that level: with the undeviated result F3 at hand, Process returns what the reference pass makes
   of F3 *)
Theorem Process_agrees_without : forall SC ic ign order F3,
  existsb derr SC = false ->
  Process (strip_devs SC) ic ign order = ROk F3 ->
  jobs_claimed SC ign F3 (jobs SC order) ->
  Process SC ic ign order = match spec_pass SC ign F3 (jobs SC order) with Some F' => ROk F' | None => RErr end.
Proof.
  intros SC ic ign order F3 HD HS HC. rewrite (Process_strip SC ic ign order HD) in HS.
  destruct (pre_dev SC ic order) as [[F e]|] eqn:HP; [|discriminate].
  destruct e; [discriminate|]. inversion HS; subst F.
  apply Process_agrees; assumption.
Qed.

(* an unreadable deviate statement is the only way in which the deviation statements can make the part of Process
   before the pass fail *)
Theorem Process_strip_err : forall SC ic ign order,
  existsb derr SC = true -> Process SC ic ign order = RErr.
Proof.
  intros SC ic ign order E. destruct (Process SC ic ign order) eqn:P; [reflexivity|].
  rewrite (Process_ok_no_derr _ _ _ _ _ P) in E. discriminate.
Qed.
