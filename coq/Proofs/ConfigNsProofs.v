(* C12 — lemmas about Schema.ReadOnly / Namespace / InstantiatingModule and about where namespace stamps come from
   (ToEntry builds none; Entry.merge called by Entry.Augment puts the augmenting module's on every grafted child;
   FixChoice copies the member's onto the implicit case).
     ro_walk_spec, ReadOnly_spec                  ReadOnly = the property's wording (by path)
     ro_up_pinned_text, ro_up_pinned_refuted      the pinned upward walk agreed with it exactly off `config true`
                                                  below an output
     ns_walk_root, Namespace_spec                 Namespace = nearest stamp on the path, else the tree's module
     to_entry_unstamped, module_entry_unstamped   (a) module / submodule / grouping text yields unstamped trees
     merge_dir_stamp, graft_*, augment_module_*   (b) one applicable augment: grafted children carry the namespace,
     update_keeps_answers, graft_keeps_answers        existing nodes keep namespace and read-only flag
     fix_choice_member, Namespace_same_stamp      the implicit case reports its member's namespace
     InstantiatingModule_spec / _unique           T3 *)
From Coq Require Import List NArith Bool Arith Lia.
From GY Require Import Model.Schema Spec.C17 Spec.C12 Proofs.FindProofs.
Import ListNotations.
Local Open Scope N_scope.

(* ------------------------------------------------------------------ T1: ReadOnly *)
Definition tri_ro (b : bool) (t : tri) : bool := match t with TSUnset => b | TSTrue => false | TSFalse => true end.
Definition cfg_fold (inh : bool) (es : list entry) : bool := fold_left (fun acc e => tri_ro acc (e_cfg e)) es inh.
Definition last_from (t : tri) (es : list entry) : tri :=
  fold_left (fun acc e => match e_cfg e with TSUnset => acc | c => c end) es t.

Lemma cfg_fold_last b : forall es t, cfg_fold (tri_ro b t) es = tri_ro b (last_from t es).
Proof.
  induction es as [|e es IH]; intros t; [reflexivity|]. unfold cfg_fold, last_from in *. cbn [fold_left].
  rewrite <- IH. f_equal. destruct (e_cfg e), t; reflexivity.
Qed.

Lemma ro_walk_spec : forall steps e inh io,
  ro_walk e steps inh io = io || existsb is_output (path_entries e steps) || cfg_fold inh (path_entries e steps).
Proof.
  assert (Hstop : forall e inh io,
    io || is_output e || tri_ro inh (e_cfg e) = io || existsb is_output [e] || cfg_fold inh [e]).
  { intros. cbn. now rewrite orb_false_r. }
  induction steps as [|s r IH]; intros e inh io; cbn [ro_walk path_entries];
    change (match e_kind e with KOutput => true | _ => false end) with (is_output e);
    change (match e_cfg e with TSUnset => inh | TSTrue => false | TSFalse => true end) with (tri_ro inh (e_cfg e)).
  - apply Hstop.
  - assert (Hgo : forall c, ro_walk c r (tri_ro inh (e_cfg e)) (io || is_output e)
                  = io || existsb is_output (e :: path_entries c r) || cfg_fold inh (e :: path_entries c r)).
    { intros c. rewrite IH. cbn [existsb]. unfold cfg_fold. cbn [fold_left]. now rewrite !orb_assoc. }
    destruct s as [n| |].
    + destruct (e_dir e) as [d|]; [|apply Hstop]. destruct (lookup n d) as [c|]; [apply Hgo|apply Hstop].
    + destruct (e_rpc e) as [[[i|] o]|]; try apply Hstop. apply Hgo.
    + destruct (e_rpc e) as [[i [o|]]|]; try apply Hstop. apply Hgo.
Qed.

(* T1: ReadOnly is the property's wording, on every forest and position *)
Theorem ReadOnly_spec F mn steps root : lookup mn F = Some root ->
  ReadOnly F (mn, steps) = ro_text (path_entries root steps).
Proof.
  intros H. unfold ReadOnly. cbn [fst snd]. rewrite H, ro_walk_spec. cbn [orb]. unfold ro_text. f_equal.
  change false with (tri_ro false TSUnset) at 1. rewrite cfg_fold_last. unfold last_cfg, last_from.
  now destruct (fold_left _ _ TSUnset).
Qed.

(* the pinned upward walk (before fix c376f44) and the wording *)
Lemma last_cfg_snoc es x : last_cfg (es ++ [x]) = match e_cfg x with TSUnset => last_cfg es | c => c end.
Proof. unfold last_cfg. now rewrite fold_left_app. Qed.

Lemma no_true_below_output_prefix es x : no_true_below_output (es ++ [x]) -> no_true_below_output es.
Proof.
  intros H l1 o l2 y -> Ho Hy. apply (H l1 o (l2 ++ [x]) y); [now rewrite <- app_assoc|exact Ho|].
  apply in_or_app. now left.
Qed.

Theorem ro_up_pinned_text es : no_true_below_output es -> ro_up_pinned false (rev es) = ro_text es.
Proof.
  induction es as [|x es IH] using rev_ind; intros Hno; [reflexivity|].
  rewrite rev_unit. cbn [ro_up_pinned]. unfold ro_text. rewrite existsb_app, last_cfg_snoc. cbn [existsb].
  rewrite orb_false_r. destruct (is_output x) eqn:Ex.
  - now rewrite orb_true_r.
  - rewrite orb_false_r. destruct (e_cfg x) eqn:Ec.
    + rewrite IH by (eapply no_true_below_output_prefix; eauto). reflexivity.
    + destruct (existsb is_output es) eqn:Eo; [|reflexivity]. exfalso.
      apply existsb_exists in Eo as (o & Hin & Ho). apply in_split in Hin as (l1 & l2 & ->).
      apply (Hno l1 o (l2 ++ [x]) x); [now rewrite <- app_assoc|exact Ho| |exact Ec].
      apply in_or_app. right. now left.
    + now rewrite orb_true_r.
Qed.

(* ------------------------------------------------------------------ T2: Namespace *)
Lemma ns_up_app a b : ns_up (a ++ b) = match ns_up a with Some n => Some n | None => ns_up b end.
Proof. induction a as [|x a IH]; [reflexivity|]. cbn. destruct (e_ns x); [reflexivity|exact IH]. Qed.

Definition or_else (a b : option str) : option str := match a with Some n => Some n | None => b end.

Lemma ns_walk_inner : forall steps e best,
  ns_walk e steps best false = or_else (ns_up (rev (path_entries e steps))) best.
Proof.
  induction steps as [|s r IH]; intros e best.
  - cbn. destruct (e_ns e); reflexivity.
  - assert (Hstop : or_else (e_ns e) best = or_else (ns_up (rev [e])) best) by (cbn; now destruct (e_ns e)).
    assert (Hgo : forall c, or_else (ns_up (rev (path_entries c r))) (or_else (e_ns e) best)
                            = or_else (ns_up (rev (path_entries c r) ++ [e])) best).
    { intros c. rewrite ns_up_app. cbn. destruct (ns_up (rev (path_entries c r))); [reflexivity|]. now destruct (e_ns e). }
    cbn [ns_walk path_entries].
    change (match e_ns e with Some n => Some n | None => best end) with (or_else (e_ns e) best).
    destruct s as [n| |].
    + destruct (e_dir e) as [d|]; [|exact Hstop]. destruct (lookup n d) as [c|]; [|exact Hstop].
      cbn [rev]. rewrite IH. apply Hgo.
    + destruct (e_rpc e) as [[[i|] o]|]; try exact Hstop. cbn [rev]. rewrite IH. apply Hgo.
    + destruct (e_rpc e) as [[i [o|]]|]; try exact Hstop. cbn [rev]. rewrite IH. apply Hgo.
Qed.

Lemma ns_walk_root steps e : ns_walk e steps None true = ns_up (rev (tl (path_entries e steps))).
Proof.
  destruct steps as [|s r]; [reflexivity|]. cbn [ns_walk path_entries tl].
  assert (Hor : forall x, or_else x None = x) by (now intros [|]).
  destruct s as [n| |].
  - destruct (e_dir e) as [d|]; [|reflexivity]. destruct (lookup n d) as [c|]; [|reflexivity].
    now rewrite ns_walk_inner, Hor.
  - destruct (e_rpc e) as [[[i|] o]|]; try reflexivity. now rewrite ns_walk_inner, Hor.
  - destruct (e_rpc e) as [[i [o|]]|]; try reflexivity. now rewrite ns_walk_inner, Hor.
Qed.

Theorem Namespace_spec SC F mn steps root : lookup mn F = Some root ->
  Namespace SC F (mn, steps) = ns_spec SC root mn steps.
Proof.
  intros H. unfold Namespace, ns_spec, tree_ns. cbn [fst snd]. rewrite H, ns_walk_root. reflexivity.
Qed.
(* ------------------------------------------------------------------ path_entries and locate *)
Lemma path_entries_located : forall steps e x, In x (path_entries e steps) -> exists pre, locate e pre = Some x.
Proof.
  induction steps as [|s r IH]; intros e x Hin; cbn [path_entries] in Hin.
  - destruct Hin as [<-|[]]. now exists [].
  - destruct Hin as [<-|Hin]; [now exists []|].
    destruct s as [n| |].
    + destruct (e_dir e) as [d|] eqn:Ed; [|destruct Hin]. destruct (lookup n d) as [c|] eqn:El; [|destruct Hin].
      destruct (IH _ _ Hin) as (pre & Hp). exists (SChild n :: pre). cbn. now rewrite Ed, El.
    + destruct (e_rpc e) as [[[i|] o]|] eqn:Er; try destruct Hin.
      destruct (IH _ _ Hin) as (pre & Hp). exists (SIn :: pre). cbn. now rewrite Er.
    + destruct (e_rpc e) as [[i [o|]]|] eqn:Er; try destruct Hin.
      destruct (IH _ _ Hin) as (pre & Hp). exists (SOut :: pre). cbn. now rewrite Er.
Qed.

Lemma path_entries_head e steps : path_entries e steps = e :: tl (path_entries e steps).
Proof. destruct steps; reflexivity. Qed.

Lemma path_entries_app : forall a e x b, locate e a = Some x ->
  path_entries e (a ++ b) = path_entries e a ++ tl (path_entries x b).
Proof.
  induction a as [|s a IH]; intros e x b Hl.
  - cbn in Hl. inversion Hl; subst. cbn [app]. rewrite (path_entries_head x b) at 1. reflexivity.
  - destruct s as [n| |]; cbn [locate app path_entries] in *.
    + destruct (e_dir e) as [d|]; [|discriminate]. destruct (lookup n d) as [c|]; [|discriminate].
      cbn [app]. f_equal. now apply IH.
    + destruct (e_rpc e) as [[[i|] o]|]; try discriminate. cbn [app]. f_equal. now apply IH.
    + destruct (e_rpc e) as [[i [o|]]|]; try discriminate. cbn [app]. f_equal. now apply IH.
Qed.

Lemma ns_up_none l : (forall x, In x l -> e_ns x = None) -> ns_up l = None.
Proof.
  induction l as [|x l IH]; intros H; [reflexivity|]. cbn. rewrite (H x) by now left.
  apply IH. intros y Hy. apply H. now right.
Qed.

Lemma unstamped_path e steps x : unstamped e -> In x (path_entries e steps) -> e_ns x = None.
Proof. intros Hu Hin. destruct (path_entries_located _ _ _ Hin) as (pre & Hp). exact (Hu _ _ Hp). Qed.

(* (a) a tree without stamps: every node gets the namespace of the module that owns the tree *)
Theorem Namespace_unstamped SC F mn steps root : lookup mn F = Some root -> unstamped root ->
  Namespace SC F (mn, steps) = tree_ns SC mn.
Proof.
  intros Hr Hu. rewrite (Namespace_spec SC F mn steps root Hr). unfold ns_spec.
  rewrite ns_up_none; [reflexivity|]. intros x Hx. apply in_rev in Hx.
  apply (unstamped_path root steps x Hu). rewrite path_entries_head. now right.
Qed.

(* ------------------------------------------------------------------ building trees without stamps *)
Definition dir_unstamped (d : list (str * entry)) : Prop := forall k c, lookup k d = Some c -> unstamped c.

Lemma unstamped_intro e : e_ns e = None ->
  (forall d, e_dir e = Some d -> dir_unstamped d) ->
  (forall i o, e_rpc e = Some (i, o) -> (forall x, i = Some x -> unstamped x) /\ (forall x, o = Some x -> unstamped x)) ->
  unstamped e.
Proof.
  intros Hns Hd Hr steps x Hl. destruct steps as [|s r].
  - cbn in Hl. now inversion Hl; subst.
  - destruct s as [n| |]; cbn [locate] in Hl.
    + destruct (e_dir e) as [d|]; [|discriminate]. destruct (lookup n d) as [c|] eqn:El; [|discriminate].
      exact (Hd d eq_refl _ _ El _ _ Hl).
    + destruct (e_rpc e) as [[[i|] o]|]; try discriminate. destruct (Hr _ _ eq_refl) as [Hi _]. exact (Hi i eq_refl _ _ Hl).
    + destruct (e_rpc e) as [[i [o|]]|]; try discriminate. destruct (Hr _ _ eq_refl) as [_ Ho]. exact (Ho o eq_refl _ _ Hl).
Qed.

Lemma unstamped_dir e d : unstamped e -> e_dir e = Some d -> dir_unstamped d.
Proof. intros Hu Hd k c Hl steps x Hx. apply (Hu (SChild k :: steps)). cbn. now rewrite Hd, Hl. Qed.

Lemma lookup_app {A} k (d1 d2 : list (str * A)) :
  lookup k (d1 ++ d2) = match lookup k d1 with Some c => Some c | None => lookup k d2 end.
Proof. induction d1 as [|[k1 v1] d1 IH]; [reflexivity|]. cbn. destruct (str_eqb k k1); [reflexivity|exact IH]. Qed.

Lemma dir_unstamped_nil : dir_unstamped []. Proof. intros k c H. discriminate. Qed.

Lemma dir_unstamped_snoc d k v : dir_unstamped d -> unstamped v -> dir_unstamped (d ++ [(k, v)]).
Proof.
  intros Hd Hv k' c Hl. rewrite lookup_app in Hl. destruct (lookup k' d) as [c'|] eqn:E.
  - inversion Hl; subst. eapply Hd; eauto.
  - cbn in Hl. destruct (str_eqb k' k); [|discriminate]. now inversion Hl; subst.
Qed.

Lemma add_child_unstamped acc key v : dir_unstamped (fst acc) -> unstamped (fst v) ->
  dir_unstamped (fst (add_child acc key v)).
Proof.
  destruct acc as [d err]. cbn [fst add_child]. intros Hd Hv. destruct (lookup key d); cbn [fst]; [exact Hd|].
  now apply dir_unstamped_snoc.
Qed.

(* merge without a namespace: only children whose key is still free are taken over *)
Lemma merge_dir_unstamped : forall oe d err, dir_unstamped d ->
  (forall k c, lookup k d = None -> lookup k oe = Some c -> unstamped c) ->
  dir_unstamped (fst (merge_dir (d, err) None oe)).
Proof.
  induction oe as [|[k1 v1] oe IH]; intros d err Hd Hoe; [exact Hd|].
  unfold merge_dir. cbn [fold_left fst snd]. destruct (lookup k1 d) as [c1|] eqn:E1.
  - apply IH; [exact Hd|]. intros k c Hk Hl. apply (Hoe k c Hk). cbn. destruct (str_eqb k k1) eqn:Ek; [|exact Hl].
    apply str_eqb_eq in Ek. subst. congruence.
  - apply IH.
    + apply dir_unstamped_snoc; [exact Hd|]. apply (Hoe k1 v1 E1). cbn. now rewrite str_eqb_refl.
    + intros k c Hk Hl. rewrite lookup_app in Hk. destruct (lookup k d) eqn:Ed; [discriminate|]. cbn in Hk.
      apply (Hoe k c Ed). cbn. destruct (str_eqb k k1); [discriminate|exact Hl].
Qed.

Section ToEntryUnstamped.
Variable SC : schema.

(* the loop body of ToEntry over the statements of a directory node (verbatim from Schema.to_entry) *)
Definition body_step (f : nat) (c' : gctx) (busy : list nat) :=
  fun (acc : list (str * entry) * bool) (ch : dnode) =>
    match ch with
    | DGrouping gid _ gb => let '(_, e) := to_entry SC f c' busy ch in (fst acc, snd acc || e)
    | DUses g =>
        match FindGrouping SC c' g with
        | None => (fst acc, true)
        | Some (gid, gb, gc) =>
          if existsb (Nat.eqb gid) busy then (fst acc, true)
          else
            let '(ge, gerr) := to_entry SC f gc (gid :: busy) (DGrouping gid [] gb) in
            let '(d, e) := merge_dir acc None (match e_dir ge with Some d => d | None => [] end) in
            (d, e || gerr)
        end
    | _ => let b := to_entry SC f c' busy ch in add_child acc (e_name (fst b)) b
    end.

Lemma body_fold f (IH : forall c busy n, unstamped (fst (to_entry SC f c busy n))) c' busy :
  forall body acc, dir_unstamped (fst acc) -> dir_unstamped (fst (fold_left (body_step f c' busy) body acc)).
Proof.
  induction body as [|ch body IHb]; intros acc Hacc; [exact Hacc|].
  cbn [fold_left]. apply IHb. unfold body_step.
  destruct ch; try (apply add_child_unstamped; [exact Hacc|apply IH]).
  - destruct (FindGrouping SC c' gname) as [[[gid gb] gc]|]; [|exact Hacc].
    destruct (existsb (Nat.eqb gid) busy); [exact Hacc|].
    pose proof (IH gc (gid :: busy) (DGrouping gid [] gb)) as Hge.
    destruct (to_entry SC f gc (gid :: busy) (DGrouping gid [] gb)) as [ge gerr]. cbn [fst] in Hge.
    destruct acc as [d0 e0]. cbn [fst] in Hacc.
    pose proof (merge_dir_unstamped (match e_dir ge with Some d => d | None => [] end) d0 e0 Hacc) as Hm.
    destruct (merge_dir (d0, e0) None _) as [d e]. cbn [fst] in *. apply Hm.
    intros k c _ Hl. destruct (e_dir ge) as [gd|] eqn:Eg; [|discriminate].
    exact (unstamped_dir ge gd Hge Eg k c Hl).
  - destruct (to_entry SC f c' busy (DGrouping gid name body0)) as [x e]. exact Hacc.
Qed.

Ltac fold_body f c busy body IH :=
  let c' := constr:({| g_mod := g_mod c; g_scopes := body :: g_scopes c |}) in
  match goal with |- context [fold_left ?g body ([], false)] => change g with (body_step f c' busy) end;
  let Hf := fresh "Hf" in let d := fresh "d" in let e := fresh "e" in
  pose proof (body_fold f IH c' busy body ([], false) dir_unstamped_nil) as Hf;
  destruct (fold_left (body_step f c' busy) body ([], false)) as [d e]; cbn [fst] in Hf.

Ltac dir_entry Hf :=
  apply unstamped_intro; cbn; [reflexivity|intros d' Hd'; inversion Hd'; subst; exact Hf|discriminate].

Lemma to_entry_unstamped : forall fuel c busy n, unstamped (fst (to_entry SC fuel c busy n)).
Proof.
  induction fuel as [|f IH]; intros c busy n.
  - cbn. apply unstamped_intro; cbn; [reflexivity|intros d Hd; inversion Hd; apply dir_unstamped_nil|discriminate].
  - cbn [to_entry]. destruct n.
    + cbn. apply unstamped_intro; cbn; [reflexivity|discriminate|discriminate].
    + destruct (semCheckMax maxE). cbn. apply unstamped_intro; cbn; [reflexivity|discriminate|discriminate].
    + fold_body f c busy body IH. dir_entry Hf.
    + fold_body f c busy body IH. destruct (semCheckMax maxE). dir_entry Hf.
    + fold_body f c busy body IH. dir_entry Hf.
    + fold_body f c busy body IH. dir_entry Hf.
    + cbn. apply unstamped_intro; cbn; [reflexivity|intros d Hd; inversion Hd; apply dir_unstamped_nil|discriminate].
    + cbn. apply unstamped_intro; cbn; [reflexivity|intros d Hd; inversion Hd; apply dir_unstamped_nil|discriminate].
    + fold_body f c busy body IH. dir_entry Hf.
    + assert (Hio : forall nm k d, dir_unstamped d ->
                unstamped (Entry nm k TSUnset TSUnset [] [] None [] None None (Some d) None)).
      { intros nm k d0 Hd0. apply unstamped_intro; cbn; [reflexivity|intros d' Hd'; inversion Hd'; subst; exact Hd0|discriminate]. }
      destruct input as [ib|]; [fold_body f c busy ib IH|]; (destruct output as [ob|]; [fold_body f c busy ob IH|]);
        try destruct action; cbn;
        (apply unstamped_intro; cbn;
         [reflexivity|intros d' Hd'; inversion Hd'; apply dir_unstamped_nil|
          try discriminate; intros i o Hr; inversion Hr; subst; split; intros x Hx; inversion Hx; subst; now apply Hio]).
    + fold_body f c busy body IH. dir_entry Hf.
Qed.

Lemma body_entry_unstamped m scopes body : unstamped (fst (body_entry SC m scopes body)).
Proof. apply to_entry_unstamped. Qed.
End ToEntryUnstamped.
Section ModuleUnstamped.
Variables (SC : schema) (ic : bool).

Lemma module_dir_unstamped : forall fuel merged m, dir_unstamped (fst (fst (module_dir SC ic fuel merged m))).
Proof.
  induction fuel as [|f IH]; intros merged m; [apply dir_unstamped_nil|].
  cbn [module_dir].
  pose proof (body_entry_unstamped SC m [] (m_body m)) as Hme.
  destruct (body_entry SC m [] (m_body m)) as [me err]. cbn [fst] in Hme.
  match goal with |- context [fold_left ?g (m_includes m) ?st0] =>
    assert (Hfold : forall l st, dir_unstamped (fst (fst st)) -> dir_unstamped (fst (fst (fold_left g l st)))) end.
  { induction l as [|sn l IHl]; intros st Hst; [exact Hst|]. cbn [fold_left]. apply IHl.
    destruct st as [acc mg]. cbn [fst] in Hst. destruct (find_module SC sn) as [sm|]; [|exact Hst].
    destruct (mem _ mg); [exact Hst|]. destruct (_ && _).
    - destruct (mem _ mg); [exact Hst|].
      pose proof (IH (key2 (m_name sm) (m_name m)
                      :: key2 (m_name sm) match m_belongs sm with Some o => o | None => [] end :: mg) sm) as Hsd.
      destruct (module_dir SC ic f _ sm) as [[sd serr] mg']. cbn [fst] in Hsd.
      destruct acc as [d0 e0]. cbn [fst] in Hst.
      pose proof (merge_dir_unstamped sd d0 e0 Hst) as Hm.
      destruct (merge_dir (d0, e0) None sd) as [d e]. cbn [fst] in *. apply Hm. intros k c _ Hl. exact (Hsd k c Hl).
    - destruct ic; exact Hst. }
  apply Hfold. cbn [fst]. destruct (e_dir me) as [d|] eqn:Ed; [|apply dir_unstamped_nil].
  exact (unstamped_dir me d Hme Ed).
Qed.

(* (a): the tree ToEntry builds for a module -- its own statements, those of its submodules (nested includes as
   well) and every grouping they use, wherever it is defined -- carries no namespace stamp *)
Theorem module_entry_unstamped m : unstamped (fst (module_entry SC ic m)).
Proof.
  unfold module_entry. pose proof (module_dir_unstamped (S (length SC)) [] m) as H.
  destruct (module_dir SC ic (S (length SC)) [] m) as [[d err] mg]. cbn [fst] in *.
  apply unstamped_intro; cbn; [reflexivity|intros d' Hd'; inversion Hd'; subst; exact H|discriminate].
Qed.

(* ... and so does the body of an augment statement before it is grafted *)
Lemma module_augs_unstamped m a : In a (module_augs SC m) -> dir_unstamped (a_dir a) /\ a_mod a = m.
Proof.
  unfold module_augs. intros Hin. apply in_map_iff in Hin as ([path body] & <- & _).
  pose proof (body_entry_unstamped SC m [m_body m] body) as Hb. cbn [snd fst].
  destruct (body_entry SC m [m_body m] body) as [e err]. cbn [a_dir a_mod fst] in *. split; [|reflexivity].
  destruct (e_dir e) as [d|] eqn:Ed; [|apply dir_unstamped_nil]. exact (unstamped_dir e d Hb Ed).
Qed.
End ModuleUnstamped.
(* ------------------------------------------------------------------ (b) what an augment grafts *)
Lemma merge_dir_stamp ns : forall oe d err k,
  lookup k (fst (merge_dir (d, err) (Some ns) oe)) =
  match lookup k d with
  | Some c => Some c
  | None => option_map (fun c => set_ns c (Some ns)) (lookup k oe)
  end.
Proof.
  induction oe as [|[k1 v1] oe IH]; intros d err k.
  - cbn. now destruct (lookup k d).
  - unfold merge_dir. cbn [fold_left fst snd]. destruct (lookup k1 d) as [c1|] eqn:E1.
    + change (fold_left _ oe (d, true)) with (merge_dir (d, true) (Some ns) oe). rewrite IH.
      destruct (lookup k d) as [c|] eqn:Ek; [reflexivity|]. cbn [lookup].
      destruct (str_eqb k k1) eqn:E; [|reflexivity]. apply str_eqb_eq in E. subst. congruence.
    + change (fold_left _ oe (?a, err)) with (merge_dir (a, err) (Some ns) oe). rewrite IH, lookup_app.
      destruct (lookup k d) as [c|] eqn:Ek; [reflexivity|]. cbn [lookup].
      destruct (str_eqb k k1) eqn:E; reflexivity.
Qed.

Lemma e_dir_set_ns e n : e_dir (set_ns e n) = e_dir e. Proof. now destruct e. Qed.
Lemma e_rpc_set_ns e n : e_rpc (set_ns e n) = e_rpc e. Proof. now destruct e. Qed.
Lemma e_ns_set_ns e n : e_ns (set_ns e n) = n. Proof. now destruct e. Qed.

Lemma locate_set_ns e n s r : locate (set_ns e n) (s :: r) = locate e (s :: r).
Proof. destruct s; cbn [locate]; now rewrite ?e_dir_set_ns, ?e_rpc_set_ns. Qed.

Lemma path_entries_tl_located : forall steps e x, In x (tl (path_entries e steps)) ->
  exists s pre, locate e (s :: pre) = Some x.
Proof.
  intros [|s r] e x Hin; [destruct Hin|]. cbn [path_entries tl] in Hin. destruct s as [n| |].
  - destruct (e_dir e) as [d|] eqn:Ed; [|destruct Hin]. destruct (lookup n d) as [c|] eqn:El; [|destruct Hin].
    destruct (path_entries_located _ _ _ Hin) as (pre & Hp). exists (SChild n), pre. cbn. now rewrite Ed, El.
  - destruct (e_rpc e) as [[[i|] o]|] eqn:Er; try destruct Hin.
    destruct (path_entries_located _ _ _ Hin) as (pre & Hp). exists SIn, pre. cbn. now rewrite Er.
  - destruct (e_rpc e) as [[i [o|]]|] eqn:Er; try destruct Hin.
    destruct (path_entries_located _ _ _ Hin) as (pre & Hp). exists SOut, pre. cbn. now rewrite Er.
Qed.

Section Graft.
Variable SC : schema.
Variables (F : forest) (mn : str) (ps : list step) (root te : entry) (d : list (str * entry)).
Variables (ns : str) (adir : list (str * entry)).
Hypothesis Hroot : lookup mn F = Some root.
Hypothesis Hte : locate root ps = Some te.
Hypothesis Hd : e_dir te = Some d.
Let F2 := graft F (mn, ps) ns adir.
Let d2 := fst (merge_dir (d, false) (Some ns) adir).

Lemma graft_target : locate_pos F2 (mn, ps) = Some (set_dir te (Some d2)).
Proof.
  unfold F2, graft. rewrite <- (app_nil_r ps) at 2. erewrite frame_below.
  2:{ unfold locate_pos. cbn [fst snd]. rewrite Hroot. exact Hte. }
  now rewrite Hd.
Qed.

(* a grafted child is the augment's child with the augmenting module's namespace stamped on it *)
Lemma graft_child k c : lookup k d = None -> lookup k adir = Some c ->
  locate_pos F2 (mn, ps ++ [SChild k]) = Some (set_ns c (Some ns)).
Proof.
  intros Hk Hc. unfold F2, graft. erewrite frame_below.
  2:{ unfold locate_pos. cbn [fst snd]. rewrite Hroot. exact Hte. }
  rewrite Hd. cbn [locate]. rewrite e_dir_set_dir. fold d2. unfold d2. now rewrite merge_dir_stamp, Hk, Hc.
Qed.

(* the children the target had stay what they were, with everything below them *)
Lemma graft_old_child k c0 r : lookup k d = Some c0 ->
  locate_pos F2 (mn, ps ++ SChild k :: r) = locate_pos F (mn, ps ++ SChild k :: r).
Proof.
  intros Hk. unfold F2, graft. erewrite frame_below.
  2:{ unfold locate_pos. cbn [fst snd]. rewrite Hroot. exact Hte. }
  rewrite Hd. cbn [locate]. rewrite e_dir_set_dir. fold d2. unfold d2. rewrite merge_dir_stamp, Hk.
  unfold locate_pos. cbn [fst snd]. rewrite Hroot, locate_app, Hte. cbn [locate]. now rewrite Hd, Hk.
Qed.

(* positions neither on the way to the target nor below it see the entry they saw *)
Lemma graft_elsewhere q : ~ below q (mn, ps) -> ~ below (mn, ps) q -> locate_pos F2 q = locate_pos F q.
Proof.
  unfold F2, graft. eapply frame_elsewhere. unfold locate_pos. cbn [fst snd]. rewrite Hroot. exact Hte.
Qed.

(* (b) the grafted child and everything below it (none of which carries a stamp of its own: it was built from
   the augment's text) gets the namespace given to merge: the augmenting module's *)
Theorem graft_namespace k c r : lookup k d = None -> lookup k adir = Some c -> unstamped c ->
  Namespace SC F2 (mn, ps ++ SChild k :: r) = ns.
Proof.
  intros Hk Hc Hu.
  assert (Hroot2 : lookup mn F2 = Some (update_at root ps
            (fun te0 => match e_dir te0 with
                        | Some d0 => set_dir te0 (Some (fst (merge_dir (d0, false) (Some ns) adir)))
                        | None => te0 end))).
  { unfold F2, graft, update_pos. cbn [fst snd]. rewrite Hroot. apply lookup_update_same. congruence. }
  rewrite (Namespace_spec SC F2 mn _ _ Hroot2). unfold ns_spec.
  set (g := fun te0 : entry => _) in *. set (root2 := update_at root ps g) in *.
  assert (Hte2 : locate root2 ps = Some (set_dir te (Some d2))).
  { unfold root2. rewrite <- (app_nil_r ps) at 2. rewrite (locate_update_at_below g ps root [] te Hte).
    unfold g. now rewrite Hd. }
  rewrite (path_entries_app ps root2 _ (SChild k :: r) Hte2).
  cbn [path_entries tl]. rewrite e_dir_set_dir. unfold d2. rewrite merge_dir_stamp, Hk, Hc. cbn [option_map].
  set (c' := set_ns c (Some ns)). rewrite (path_entries_head root2 ps). cbn [app tl].
  rewrite (path_entries_head c' r), rev_app_distr. cbn [rev]. rewrite <- !app_assoc, ns_up_app.
  rewrite ns_up_none.
  - cbn [app ns_up]. unfold c'. now rewrite e_ns_set_ns.
  - intros x Hx. apply in_rev in Hx. apply path_entries_tl_located in Hx as (s & pre & Hp).
    unfold c' in Hp. rewrite locate_set_ns in Hp. exact (Hu _ _ Hp).
Qed.
End Graft.

(* Entry.Augment on one applicable augment is that graft, with the namespace of the module (or of the owner of
   the submodule) that declares the augment *)
Lemma augment_module_applicable SC F err a rest addErrors p F1 te d :
  Find SC F (a_mod a) (m_name (a_mod a), []) (a_path a) = (Some p, F1) ->
  locate_pos F1 p = Some te -> e_dir te = Some d ->
  augment_module SC F err (a :: rest) addErrors =
  (let '(F3, err3, n, un) :=
     augment_module SC (graft F1 p (owner_ns SC (a_mod a)) (a_dir a))
                    (err || snd (merge_dir (d, false) None (a_dir a)) || a_err a) rest addErrors in
   (F3, err3, S n, un)).
Proof.
  intros HF Hl Hd. cbn [augment_module]. rewrite HF, Hl, Hd. reflexivity.
Qed.

(* an augment whose target does not exist (yet) grafts nothing *)
Lemma augment_module_skipped SC F err a rest addErrors F1 :
  Find SC F (a_mod a) (m_name (a_mod a), []) (a_path a) = (None, F1) ->
  augment_module SC F err (a :: rest) addErrors =
  (let '(F3, err3, n, un) := augment_module SC F1 (err || addErrors) rest addErrors in (F3, err3, n, a :: un)).
Proof. intros HF. cbn [augment_module]. rewrite HF. reflexivity. Qed.

(* ------------------------------------------------------------------ T3: InstantiatingModule *)
Lemma has_ns_true ns m : has_ns ns m = true <-> m_ns m = ns.
Proof. unfold has_ns. apply str_eqb_eq. Qed.

Lemma filter_nil_iff {A} (f : A -> bool) l : filter f l = [] <-> forall x, In x l -> f x = false.
Proof.
  induction l as [|a l IH]; cbn; [tauto|]. destruct (f a) eqn:E; split.
  - discriminate.
  - intros H. specialize (H a (or_introl eq_refl)). congruence.
  - intros H x [<-|Hx]; [exact E|]. now apply IH.
  - intros H. apply IH. intros x Hx. apply H. now right.
Qed.

Lemma filter_cons_split {A} (f : A -> bool) l x r : filter f l = x :: r ->
  exists l1 l2, l = l1 ++ x :: l2 /\ f x = true /\ (forall y, In y l1 -> f y = false) /\ filter f l2 = r.
Proof.
  induction l as [|a l IH]; cbn; [discriminate|]. destruct (f a) eqn:E.
  - intros H. inversion H; subst. exists [], l. repeat split; [exact E|intros y []].
  - intros H. destruct (IH H) as (l1 & l2 & -> & Hx & Hl1 & Hr). exists (a :: l1), l2. repeat split; try assumption.
    intros y [<-|Hy]; [exact E|now apply Hl1].
Qed.

Theorem InstantiatingModule_spec SC F p :
  inst_spec (modules_only SC) (Namespace SC F p) (InstantiatingModule SC F p).
Proof.
  unfold InstantiatingModule. set (ns := Namespace SC F p). set (mods := modules_only SC).
  change (fun m : module => str_eqb (m_ns m) ns) with (has_ns ns).
  destruct (filter (has_ns ns) mods) as [|m [|m2 r]] eqn:Ef; cbn [inst_spec].
  - left. intros x Hx Hn. rewrite filter_nil_iff in Ef. specialize (Ef x Hx). apply has_ns_true in Hn. congruence.
  - destruct (filter_cons_split _ _ _ _ Ef) as (l1 & l2 & Hm & Hx & Hl1 & Hr).
    exists l1, m, l2. repeat split; [exact Hm|now apply has_ns_true|].
    intros x [Hx1|Hx2] Hn; apply has_ns_true in Hn.
    + rewrite (Hl1 x Hx1) in Hn. discriminate.
    + rewrite filter_nil_iff in Hr. rewrite (Hr x Hx2) in Hn. discriminate.
  - right. destruct (filter_cons_split _ _ _ _ Ef) as (l1 & l2 & Hm & Hx & Hl1 & Hr).
    destruct (filter_cons_split _ _ _ _ Hr) as (l3 & l4 & Hm2 & Hx2 & _ & _).
    exists l1, m, l3, m2, l4. subst l2. repeat split; [exact Hm|now apply has_ns_true|now apply has_ns_true].
Qed.

(* the converse reading: exactly one module with that namespace gives its name, none or several give nothing *)
Theorem InstantiatingModule_unique SC F p l1 m l2 : modules_only SC = l1 ++ m :: l2 ->
  m_ns m = Namespace SC F p -> (forall x, In x l1 \/ In x l2 -> m_ns x <> Namespace SC F p) ->
  InstantiatingModule SC F p = Some (m_name m).
Proof.
  intros Hm Hn Hu. unfold InstantiatingModule. rewrite Hm, filter_app. cbn [filter].
  replace (str_eqb (m_ns m) (Namespace SC F p)) with true by (symmetry; now apply str_eqb_eq).
  assert (H1 : filter (fun m0 => str_eqb (m_ns m0) (Namespace SC F p)) l1 = []).
  { apply filter_nil_iff. intros x Hx. apply str_eqb_neq. apply Hu. now left. }
  assert (H2 : filter (fun m0 => str_eqb (m_ns m0) (Namespace SC F p)) l2 = []).
  { apply filter_nil_iff. intros x Hx. apply str_eqb_neq. apply Hu. now right. }
  now rewrite H1, H2.
Qed.

(* ------------------------------------------------------------------ the pinned walk's input class, decided *)
Lemma ntbo_sound : forall es b, ntbo b es = true ->
  (b = true -> forall x, In x es -> e_cfg x <> TSTrue) /\ no_true_below_output es.
Proof.
  induction es as [|e es IH]; intros b H.
  - split; [intros _ x []|]. intros l1 o l2 x Heq. destruct l1; discriminate.
  - cbn [ntbo] in H. apply andb_true_iff in H as [H1 H2]. destruct (IH _ H2) as [IHa IHb]. split.
    + intros -> x [<-|Hx].
      * cbn in H1. unfold cfg_true in H1. destruct (e_cfg e); cbn in H1; congruence.
      * apply IHa; [reflexivity|exact Hx].
    + intros l1 o l2 x Heq Ho Hx. destruct l1 as [|y l1]; cbn in Heq; inversion Heq; subst.
      * apply IHa; [|exact Hx]. rewrite Ho. apply orb_true_r.
      * exact (IHb l1 o l2 x eq_refl Ho Hx).
Qed.

(* on its input class the pinned walk computed what ReadOnly computes now *)
Theorem ReadOnly_pinned_agrees F mn steps root : lookup mn F = Some root ->
  ntbo false (path_entries root steps) = true ->
  ro_up_pinned false (rev (path_entries root steps)) = ReadOnly F (mn, steps).
Proof.
  intros Hr Hn. rewrite (ReadOnly_spec F mn steps root Hr). apply ro_up_pinned_text. now apply (ntbo_sound _ false).
Qed.
(* ------------------------------------------------------------------ updates that keep every existing node's answers *)
Definition keeps (te : entry) (f : entry -> entry) : Prop :=
  label (f te) = label te /\
  forall s r x, locate te (s :: r) = Some x -> tl (path_entries (f te) (s :: r)) = tl (path_entries te (s :: r)).

Lemma labels_path_update f : forall ps root qs te x,
  locate root ps = Some te -> locate root qs = Some x -> keeps te f ->
  map label (path_entries (update_at root ps f) qs) = map label (path_entries root qs).
Proof.
  induction ps as [|s ps IH]; intros root qs te x Hps Hqs [Hlab Hkeep].
  - cbn in Hps. inversion Hps; subst te. cbn [update_at]. destruct qs as [|s r].
    + cbn. now rewrite Hlab.
    + rewrite (path_entries_head (f root)), (path_entries_head root (s :: r)), (Hkeep s r x Hqs). cbn [map]. now rewrite Hlab.
  - destruct s as [n| |]; cbn [locate update_at] in *.
    + destruct (e_dir root) as [d|] eqn:Ed; [|discriminate]. destruct (lookup n d) as [c|] eqn:El; [|discriminate].
      destruct qs as [|[n'| |] r]; cbn [path_entries map locate] in *; rewrite ?e_dir_set_dir, ?e_rpc_set_dir, ?label_set_dir, ?Ed; rewrite ?Ed in Hqs.
      * reflexivity.
      * destruct (str_eqb n' n) eqn:En.
        -- apply str_eqb_eq in En. subst n'. rewrite El in Hqs. rewrite lookup_update_same, El by congruence.
           f_equal. eapply IH; eauto. now split.
        -- now rewrite lookup_update_other.
      * reflexivity.
      * reflexivity.
    + destruct (e_rpc root) as [[[i|] o]|] eqn:Er; try discriminate.
      destruct qs as [|[n'| |] r]; cbn [path_entries map locate] in *; rewrite ?e_dir_set_rpc, ?e_rpc_set_rpc, ?label_set_rpc, ?Er; rewrite ?Er in Hqs; try reflexivity.
      f_equal. eapply IH; eauto. now split.
    + destruct (e_rpc root) as [[i [o|]]|] eqn:Er; try discriminate.
      destruct qs as [|[n'| |] r]; cbn [path_entries map locate] in *; rewrite ?e_dir_set_rpc, ?e_rpc_set_rpc, ?label_set_rpc, ?Er; rewrite ?Er in Hqs; try reflexivity.
      f_equal. eapply IH; eauto. now split.
Qed.

Lemma label_e_ns a b : label a = label b -> e_ns a = e_ns b. Proof. unfold label. congruence. Qed.
Lemma label_ro a b : label a = label b -> is_output a = is_output b /\ e_cfg a = e_cfg b.
Proof. unfold label, is_output. intros H. inversion H. split; congruence. Qed.

Lemma ns_up_labels : forall l1 l2, map label l1 = map label l2 -> ns_up l1 = ns_up l2.
Proof.
  induction l1 as [|a l1 IH]; intros [|b l2] H; try discriminate; [reflexivity|].
  cbn [map] in H. pose proof (f_equal (@hd _ (label a)) H) as Hh. pose proof (f_equal (@tl _) H) as Ht. cbn [hd tl] in Hh, Ht. cbn. rewrite (label_e_ns a b) by assumption. destruct (e_ns b); [reflexivity|now apply IH].
Qed.

Lemma ro_text_labels : forall l1 l2, map label l1 = map label l2 -> ro_text l1 = ro_text l2.
Proof.
  assert (Hex : forall l1 l2, map label l1 = map label l2 -> existsb is_output l1 = existsb is_output l2).
  { induction l1 as [|a l1 IH]; intros [|b l2] H; try discriminate; [reflexivity|].
    cbn [map] in H. pose proof (f_equal (@hd _ (label a)) H) as Hh. pose proof (f_equal (@tl _) H) as Ht. cbn [hd tl] in Hh, Ht. cbn. destruct (label_ro a b) as [-> _]; [assumption|]. f_equal. now apply IH. }
  assert (Hl : forall l1 l2 t, map label l1 = map label l2 ->
                 fold_left (fun acc e => match e_cfg e with TSUnset => acc | c => c end) l1 t
                 = fold_left (fun acc e => match e_cfg e with TSUnset => acc | c => c end) l2 t).
  { induction l1 as [|a l1 IH]; intros [|b l2] t H; try discriminate; [reflexivity|].
    cbn [map] in H. pose proof (f_equal (@hd _ (label a)) H) as Hh. pose proof (f_equal (@tl _) H) as Ht. cbn [hd tl] in Hh, Ht. cbn [fold_left]. destruct (label_ro a b) as [_ ->]; [assumption|]. now apply IH. }
  intros l1 l2 H. unfold ro_text, last_cfg. now rewrite (Hex _ _ H), (Hl _ _ TSUnset H).
Qed.

Lemma map_label_rev_tl l1 l2 : map label l1 = map label l2 -> map label (rev (tl l1)) = map label (rev (tl l2)).
Proof.
  intros H. rewrite !map_rev. f_equal. destruct l1, l2; try discriminate; [reflexivity|]. cbn in *. now inversion H.
Qed.

(* an update at position ps that keeps the node's own attributes and its existing children changes neither the
   namespace nor the read-only flag of any existing node of the forest *)
Theorem update_keeps_answers SC F mn ps te f : locate_pos F (mn, ps) = Some te -> keeps te f ->
  forall q x, locate_pos F q = Some x ->
  Namespace SC (update_pos F (mn, ps) f) q = Namespace SC F q /\
  ReadOnly (update_pos F (mn, ps) f) q = ReadOnly F q.
Proof.
  intros Hl Hk [mn' qs] x Hq. unfold locate_pos in Hl, Hq. cbn [fst snd] in Hl, Hq.
  destruct (lookup mn F) as [root|] eqn:Hroot; [|discriminate].
  destruct (list_eq_dec N.eq_dec mn' mn) as [->|Hne].
  - rewrite Hroot in Hq.
    assert (Hroot2 : lookup mn (update_pos F (mn, ps) f) = Some (update_at root ps f)).
    { unfold update_pos. cbn [fst snd]. rewrite Hroot. apply lookup_update_same. congruence. }
    pose proof (labels_path_update f ps root qs te x Hl Hq Hk) as Hlab.
    pose proof (map_label_rev_tl _ _ Hlab) as H1. split.
    + rewrite (Namespace_spec SC _ mn qs _ Hroot2), (Namespace_spec SC F mn qs root Hroot). unfold ns_spec.
      now rewrite (ns_up_labels _ _ H1).
    + rewrite (ReadOnly_spec _ mn qs _ Hroot2), (ReadOnly_spec F mn qs root Hroot). now apply ro_text_labels.
  - assert (Hsame : lookup mn' (update_pos F (mn, ps) f) = lookup mn' F).
    { unfold update_pos. cbn [fst snd]. rewrite Hroot. apply lookup_update_other. now apply str_eqb_neq. }
    unfold Namespace, ReadOnly. cbn [fst snd]. now rewrite Hsame.
Qed.

Lemma keeps_graft te d ns adir : e_dir te = Some d ->
  keeps te (fun te0 => match e_dir te0 with
                       | Some d0 => set_dir te0 (Some (fst (merge_dir (d0, false) (Some ns) adir)))
                       | None => te0 end).
Proof.
  intros Hd. unfold keeps. rewrite Hd. split; [apply label_set_dir|].
  intros s r x Hl. destruct s as [k| |]; cbn [locate path_entries tl] in *; rewrite ?e_dir_set_dir, ?e_rpc_set_dir, ?Hd in *.
  - destruct (lookup k d) as [c0|] eqn:Ek; [|discriminate]. now rewrite merge_dir_stamp, Ek.
  - reflexivity.
  - reflexivity.
Qed.

(* an augment changes the namespace and the read-only flag of no node that existed before it *)
Theorem graft_keeps_answers SC F mn ps te d ns adir : locate_pos F (mn, ps) = Some te -> e_dir te = Some d ->
  forall q x, locate_pos F q = Some x ->
  Namespace SC (graft F (mn, ps) ns adir) q = Namespace SC F q /\
  ReadOnly (graft F (mn, ps) ns adir) q = ReadOnly F q.
Proof. intros Hl Hd. unfold graft. apply update_keeps_answers with (te := te); [exact Hl|now apply (keeps_graft te d)]. Qed.

Lemma keeps_add_input te o : e_rpc te = Some (None, o) -> keeps te (add_input o).
Proof.
  intros Hr. split; [apply label_add_input|]. intros s r x Hl. unfold add_input.
  destruct s as [k| |]; cbn [locate path_entries tl] in *; rewrite ?e_dir_set_rpc, ?e_rpc_set_rpc, ?Hr in *;
    try reflexivity; discriminate.
Qed.
Lemma keeps_add_output te i : e_rpc te = Some (i, None) -> keeps te (add_output i).
Proof.
  intros Hr. split; [apply label_add_output|]. intros s r x Hl. unfold add_output.
  destruct s as [k| |]; cbn [locate path_entries tl] in *; rewrite ?e_dir_set_rpc, ?e_rpc_set_rpc, ?Hr in *;
    try reflexivity; try discriminate.
Qed.

(* neither does the on-demand creation of an rpc/action input or output by a lookup *)
Theorem lazy_io_keeps_answers SC F mn ps te : locate_pos F (mn, ps) = Some te ->
  (forall o, e_rpc te = Some (None, o) -> forall q x, locate_pos F q = Some x ->
     Namespace SC (update_pos F (mn, ps) (add_input o)) q = Namespace SC F q /\
     ReadOnly (update_pos F (mn, ps) (add_input o)) q = ReadOnly F q) /\
  (forall i, e_rpc te = Some (i, None) -> forall q x, locate_pos F q = Some x ->
     Namespace SC (update_pos F (mn, ps) (add_output i)) q = Namespace SC F q /\
     ReadOnly (update_pos F (mn, ps) (add_output i)) q = ReadOnly F q).
Proof.
  intros Hl. split; intros io Hr; apply update_keeps_answers with (te := te); try exact Hl;
    [now apply keeps_add_input|now apply keeps_add_output].
Qed.

(* D58, fixed by c376f44: on `config true` below an output the pinned upward walk answered read-write *)
Lemma ro_up_pinned_refuted : exists es, ro_up_pinned false (rev es) = false /\ ro_text es = true.
Proof.
  exists [Entry [] KOutput TSUnset TSUnset [] [] None [] None None (Some []) None;
          Entry [] KLeaf TSTrue TSUnset [] [] None [] None None None None].
  split; reflexivity.
Qed.

(* ------------------------------------------------------------------ FixChoice: the implicit case (D59) *)
Lemma label_fix_choice : forall f x, label (fix_choice f x) = label x.
Proof.
  intros [|f] x; [reflexivity|]. cbn [fix_choice].
  set (e1 := match e_kind x with KChoice => _ | _ => x end).
  assert (H1 : label e1 = label x).
  { unfold e1. destruct (e_kind x); try reflexivity. destruct (e_dir x); [apply label_set_dir|reflexivity]. }
  set (e2 := match e_dir e1 with Some d => _ | None => e1 end).
  assert (H2 : label e2 = label x).
  { unfold e2. destruct (e_dir e1); [now rewrite label_set_dir|exact H1]. }
  destruct (e_rpc e2) as [[i o]|]; [now rewrite label_set_rpc|exact H2].
Qed.

Lemma lookup_map_values {A B} (h : A -> B) k (d : list (str * A)) :
  lookup k (map (fun kv => (fst kv, h (snd kv))) d) = option_map h (lookup k d).
Proof. induction d as [|[k1 v1] d IH]; [reflexivity|]. cbn. destruct (str_eqb k k1); [reflexivity|exact IH]. Qed.

(* what FixChoice puts around a choice member that is not a case: a case of the member's name that holds the
   member under its name and carries the member's namespace stamp *)
Definition implicit_case (c : entry) : entry :=
  Entry (e_name c) KCase TSUnset TSUnset [] [] None [] None (e_ns c) (Some [(e_name c, c)]) None.

Theorem fix_choice_member f e d k c : e_kind e = KChoice -> e_dir e = Some d -> lookup k d = Some c ->
  e_kind c <> KCase ->
  exists w, dir_lookup (fix_choice (S f) e) k = Some w /\ label w = label (implicit_case c) /\
            dir_lookup w (e_name c) = Some (fix_choice (pred f) c).
Proof.
  intros Hk Hd Hl Hc. exists (fix_choice f (implicit_case c)). split; [|split].
  - cbn [fix_choice]. rewrite Hk, Hd.
    set (wrap := fun x : entry => match e_kind x with KCase => x | _ => implicit_case x end).
    assert (Hmap : map (fun kv : str * entry =>
                          match e_kind (snd kv) with
                          | KCase => kv
                          | _ => (fst kv, Entry (e_name (snd kv)) KCase TSUnset TSUnset [] [] None [] None
                                                (e_ns (snd kv)) (Some [(e_name (snd kv), snd kv)]) None)
                          end) d = map (fun kv => (fst kv, wrap (snd kv))) d).
    { apply map_ext. intros [k1 v1]. unfold wrap, implicit_case. cbn [fst snd]. now destruct (e_kind v1). }
    rewrite Hmap, e_dir_set_dir.
    set (e2 := set_dir (set_dir e _) _).
    assert (He2 : dir_lookup e2 k = Some (fix_choice f (implicit_case c))).
    { unfold e2, dir_lookup. rewrite e_dir_set_dir, lookup_map_values, lookup_map_values, Hl. cbn [option_map].
      unfold wrap. destruct (e_kind c); try reflexivity. congruence. }
    unfold dir_lookup in *. destruct (e_rpc e2) as [[i o]|]; [now rewrite e_dir_set_rpc|exact He2].
  - apply label_fix_choice.
  - destruct f as [|f]; [cbn; now rewrite str_eqb_refl|].
    cbn [fix_choice pred]. unfold implicit_case, dir_lookup.
    cbn [e_kind e_dir e_rpc set_dir set_rpc map fst snd lookup]. now rewrite str_eqb_refl.
Qed.

(* a child that carries the stamp of its parent (or none) reports its parent's namespace: with the theorem above,
   the implicit case and the member inside it report one namespace -- that of the text that placed the member *)
Theorem Namespace_same_stamp SC F mn ps s root w x : lookup mn F = Some root -> ps <> [] ->
  locate root ps = Some w -> locate w [s] = Some x -> e_ns x = e_ns w \/ e_ns x = None ->
  Namespace SC F (mn, ps ++ [s]) = Namespace SC F (mn, ps).
Proof.
  intros Hroot Hne Hw Hx Hns. rewrite !(Namespace_spec SC F mn _ root Hroot). unfold ns_spec.
  rewrite (path_entries_app ps root w [s] Hw).
  assert (Hpx : tl (path_entries w [s]) = [x]).
  { destruct s as [n| |]; cbn [locate path_entries tl] in *.
    - destruct (e_dir w) as [d|]; [|discriminate]. destruct (lookup n d) as [c|]; [|discriminate]. now inversion Hx.
    - destruct (e_rpc w) as [[[i|] o]|]; try discriminate. now inversion Hx.
    - destruct (e_rpc w) as [[i [o|]]|]; try discriminate. now inversion Hx. }
  rewrite Hpx.
  (* the path to w ends in w, and w is not the root *)
  assert (Hlast : exists pre, tl (path_entries root ps) = pre ++ [w]).
  { destruct ps as [|s0 ps0] using rev_ind; [congruence|]. clear IHps0.
    rewrite locate_app in Hw. destruct (locate root ps0) as [y|] eqn:Ey; [|discriminate].
    rewrite (path_entries_app ps0 root y [s0] Ey).
    assert (tl (path_entries y [s0]) = [w]).
    { destruct s0 as [n| |]; cbn [locate path_entries tl] in *.
      - destruct (e_dir y) as [d|]; [|discriminate]. destruct (lookup n d) as [c|]; [|discriminate]. now inversion Hw.
      - destruct (e_rpc y) as [[[i|] o]|]; try discriminate. now inversion Hw.
      - destruct (e_rpc y) as [[i [o|]]|]; try discriminate. now inversion Hw. }
    rewrite H, (path_entries_head root ps0). cbn [app tl]. now exists (tl (path_entries root ps0)). }
  destruct Hlast as (pre & Hpre).
  rewrite (path_entries_head root ps). cbn [app tl]. rewrite Hpre, <- app_assoc. cbn [app].
  rewrite !rev_app_distr. cbn [rev app ns_up]. destruct Hns as [-> | ->]; [|reflexivity].
  now destruct (e_ns w).
Qed.
