(* Lemmas about Model/Utf8.v: the decoding the lexer performs yields Unicode scalar values only (so never
   the lexer's end-of-file sentinel), inverts encoding, is the identity on ASCII, never lengthens. *)
From Coq Require Import List NArith ZArith Bool Lia ZifyBool ZifyN ZifyNat.
Import ListNotations.
From GY Require Import Model.Lex Model.Parse Model.Utf8.
From GY Require Spec.C16.
Local Open Scope N_scope.
Ltac Zify.zify_post_hook ::= Z.div_mod_to_equations.

Ltac split_matches :=
  repeat match goal with
         | |- context [match ?x with _ => _ end] => destruct x eqn:?
         end.

(* one step of the loop: [decode] is "DecodeRuneInString, then skip the width" *)
Lemma decode_unfold : forall s0 r0,
  decode (s0 :: r0) = fst (decode_rune (s0 :: r0)) :: decode (skipn (snd (decode_rune (s0 :: r0))) (s0 :: r0)).
Proof.
  intros s0 r0. cbn [decode]. unfold decode_rune.
  destruct (seq_len s0) as [|p] eqn:Hs; [reflexivity|].
  destruct p as [p|p|]; try reflexivity;
    (destruct r0 as [|s1 r1]; [reflexivity|];
     destruct (negb (second_ok s0 s1)); [reflexivity|];
     destruct (_ =? 2); [reflexivity|];
     destruct r1 as [|s2 r2]; [reflexivity|];
     destruct (negb (is_cont s2)); [reflexivity|];
     destruct (_ =? 3); [reflexivity|];
     destruct r2 as [|s3 r3]; [reflexivity|];
     destruct (negb (is_cont s3)); reflexivity).
Qed.

Lemma seq_len_cases : forall s0,
  (seq_len s0 = 0 /\ s0 < 128) \/ seq_len s0 = 1 \/ (seq_len s0 = 2 /\ 194 <= s0 < 224) \/
  (seq_len s0 = 3 /\ 224 <= s0 < 240) \/ (seq_len s0 = 4 /\ 240 <= s0 < 245).
Proof.
  intros s0. unfold seq_len.
  destruct (N.ltb_spec s0 128); [left; split; [reflexivity|lia]|].
  destruct (N.ltb_spec s0 194); [right; left; reflexivity|].
  destruct (N.ltb_spec s0 224); [right; right; left; split; [reflexivity|lia]|].
  destruct (N.ltb_spec s0 240); [right; right; right; left; split; [reflexivity|lia]|].
  destruct (N.ltb_spec s0 245); [right; right; right; right; split; [reflexivity|lia]|].
  right; left; reflexivity.
Qed.

Lemma scalar_error : scalar RuneError = true.
Proof. reflexivity. Qed.

Lemma second_ok_bounds : forall s0 s1, second_ok s0 s1 = true ->
  128 <= s1 <= 191 /\ (s0 = 224 -> 160 <= s1) /\ (s0 = 240 -> 144 <= s1) /\
  (s0 = 237 -> s1 <= 159) /\ (s0 = 244 -> s1 <= 143).
Proof.
  intros s0 s1 H. unfold second_ok, accept_lo, accept_hi in H.
  destruct (N.eqb_spec s0 224); destruct (N.eqb_spec s0 240); destruct (N.eqb_spec s0 237);
    destruct (N.eqb_spec s0 244); lia.
Qed.

Lemma is_cont_bounds : forall b, is_cont b = true -> 128 <= b <= 191.
Proof. intros b H. unfold is_cont in H. lia. Qed.

(* every rune DecodeRuneInString returns is a Unicode scalar value *)
Lemma decode_rune_scalar : forall s, scalar (fst (decode_rune s)) = true.
Proof.
  intros s. unfold decode_rune.
  destruct s as [|s0 r0]; [reflexivity|].
  destruct (seq_len_cases s0) as [[H B]|[H|[[H B]|[[H B]|[H B]]]]]; rewrite H; cbv beta iota.
  - cbn [fst]. unfold scalar. lia.
  - reflexivity.
  - destruct r0 as [|s1 r1]; [reflexivity|].
    destruct (second_ok s0 s1) eqn:H1; cbn [negb]; [|reflexivity].
    apply second_ok_bounds in H1. change (2 =? 2) with true. cbv beta iota. cbn [fst]. unfold scalar. lia.
  - destruct r0 as [|s1 r1]; [reflexivity|].
    destruct (second_ok s0 s1) eqn:H1; cbn [negb]; [|reflexivity].
    apply second_ok_bounds in H1. change (3 =? 2) with false. cbv beta iota.
    destruct r1 as [|s2 r2]; [reflexivity|].
    destruct (is_cont s2) eqn:H2; cbn [negb]; [|reflexivity].
    apply is_cont_bounds in H2. change (3 =? 3) with true. cbv beta iota. cbn [fst]. unfold scalar. lia.
  - destruct r0 as [|s1 r1]; [reflexivity|].
    destruct (second_ok s0 s1) eqn:H1; cbn [negb]; [|reflexivity].
    apply second_ok_bounds in H1. change (4 =? 2) with false. cbv beta iota.
    destruct r1 as [|s2 r2]; [reflexivity|].
    destruct (is_cont s2) eqn:H2; cbn [negb]; [|reflexivity].
    apply is_cont_bounds in H2. change (4 =? 3) with false. cbv beta iota.
    destruct r2 as [|s3 r3]; [reflexivity|].
    destruct (is_cont s3) eqn:H3; cbn [negb]; [|reflexivity].
    apply is_cont_bounds in H3. cbn [fst]. unfold scalar. lia.
Qed.

(* the width is at least one byte and never reaches past the end of the string *)
Lemma decode_rune_width : forall s0 r0,
  (1 <= snd (decode_rune (s0 :: r0)) <= length (s0 :: r0))%nat.
Proof.
  intros s0 r0. unfold decode_rune.
  destruct (seq_len s0) as [|p]; [cbn; lia|].
  destruct p as [p|p|]; try (cbn; lia);
    (destruct r0 as [|s1 r1]; [cbn; lia|];
     destruct (negb (second_ok s0 s1)); [cbn; lia|];
     destruct (_ =? 2); [cbn; lia|];
     destruct r1 as [|s2 r2]; [cbn; lia|];
     destruct (negb (is_cont s2)); [cbn; lia|];
     destruct (_ =? 3); [cbn; lia|];
     destruct r2 as [|s3 r3]; [cbn; lia|];
     destruct (negb (is_cont s3)); cbn; lia).
Qed.

Lemma skipn_length_le : forall (w : nat) (s : list byte), (length (skipn w s) = length s - w)%nat.
Proof. intros w s. apply skipn_length. Qed.

(* induction over the loop: a property of all decoded texts follows from one step *)
Lemma decode_ind_len : forall (P : list byte -> Prop),
  P [] ->
  (forall s0 r0, P (skipn (snd (decode_rune (s0 :: r0))) (s0 :: r0)) -> P (s0 :: r0)) ->
  forall s, P s.
Proof.
  intros P H0 Hs s. remember (length s) as n eqn:Hn.
  revert s Hn. induction n as [n IH] using lt_wf_ind. intros s Hn.
  destruct s as [|s0 r0]; [exact H0|].
  apply Hs. pose proof (decode_rune_width s0 r0) as W.
  eapply IH; [|reflexivity]. rewrite skipn_length. subst n. lia.
Qed.

Lemma decode_scalar : forall s, Forall (fun r => scalar r = true) (decode s).
Proof.
  intros s. induction s as [|s0 r0 IH] using decode_ind_len; [constructor|].
  rewrite decode_unfold. constructor; [apply decode_rune_scalar|exact IH].
Qed.

Lemma decode_no_eof : forall s, ~ In EOFR (decode s).
Proof.
  intros s H. pose proof (decode_scalar s) as F. rewrite Forall_forall in F.
  apply F in H. discriminate H.
Qed.

Lemma decode_length : forall s, (length (decode s) <= length s)%nat.
Proof.
  intros s. induction s as [|s0 r0 IH] using decode_ind_len; [cbn; lia|].
  rewrite decode_unfold. pose proof (decode_rune_width s0 r0) as W.
  rewrite skipn_length in IH. cbn [length] in *. lia.
Qed.

(* the loop as the lexer runs it, with the number of bytes as fuel *)
Lemma decode_loop_eq : forall fuel s, (length s <= fuel)%nat -> decode_loop fuel s = decode s.
Proof.
  induction fuel as [|f IH]; intros s H.
  - destruct s; [reflexivity|cbn in H; lia].
  - destruct s as [|s0 r0]; [reflexivity|].
    rewrite decode_unfold. cbn [decode_loop].
    destruct (decode_rune (s0 :: r0)) as [r w] eqn:E. cbn [fst snd].
    f_equal. apply IH. pose proof (decode_rune_width s0 r0) as W. rewrite E in W. cbn [snd] in W.
    rewrite skipn_length. cbn [length] in *. lia.
Qed.

(* ASCII is transparent *)
Lemma decode_ascii : forall s, Forall (fun b => b < 128) s -> decode s = s.
Proof.
  intros s H. induction H as [|b s Hb _ IH]; [reflexivity|].
  cbn [decode]. unfold seq_len. destruct (N.ltb_spec b 128); [|lia]. rewrite IH. reflexivity.
Qed.

(* decoding inverts encoding, rune by rune, whatever follows *)
Lemma decode_rune_encode : forall r t, scalar r = true ->
  decode_rune (encode_rune r ++ t) = (r, length (encode_rune r)).
Proof.
  intros r t Hr. unfold scalar in Hr. unfold encode_rune.
  destruct (N.ltb_spec r 128) as [H1|H1].
  { cbn [app]. unfold decode_rune. unfold seq_len. destruct (N.ltb_spec r 128); [reflexivity|lia]. }
  destruct (N.ltb_spec r 2048) as [H2|H2].
  { cbn [app length]. unfold decode_rune.
    destruct (seq_len_cases (192 + r / 64)) as [[H B]|[H|[[H B]|[[H B]|[H B]]]]]; try lia.
    - unfold seq_len in H. destruct (N.ltb_spec (192 + r / 64) 128); [lia|].
      destruct (N.ltb_spec (192 + r / 64) 194); [lia|].
      destruct (N.ltb_spec (192 + r / 64) 224); [discriminate|lia].
    - rewrite H. cbv beta iota.
      assert (S : second_ok (192 + r / 64) (128 + r mod 64) = true).
      { unfold second_ok, accept_lo, accept_hi.
        destruct (N.eqb_spec (192 + r / 64) 224); [lia|]. destruct (N.eqb_spec (192 + r / 64) 240); [lia|].
        destruct (N.eqb_spec (192 + r / 64) 237); [lia|]. destruct (N.eqb_spec (192 + r / 64) 244); lia. }
      rewrite S. cbn [negb]. change (2 =? 2) with true. cbv beta iota. f_equal. lia. }
  assert (Hs : (55296 <=? r) && (r <? 57344) = false) by lia. rewrite Hs.
  destruct (N.ltb_spec r 65536) as [H3|H3].
  { cbn [app length]. unfold decode_rune.
    destruct (seq_len_cases (224 + r / 4096)) as [[H B]|[H|[[H B]|[[H B]|[H B]]]]]; try lia.
    - unfold seq_len in H. destruct (N.ltb_spec (224 + r / 4096) 128); [lia|].
      destruct (N.ltb_spec (224 + r / 4096) 194); [lia|].
      destruct (N.ltb_spec (224 + r / 4096) 224); [lia|].
      destruct (N.ltb_spec (224 + r / 4096) 240); [discriminate|lia].
    - rewrite H. cbv beta iota.
      assert (S : second_ok (224 + r / 4096) (128 + (r / 64) mod 64) = true).
      { unfold second_ok, accept_lo, accept_hi.
        destruct (N.eqb_spec (224 + r / 4096) 224); destruct (N.eqb_spec (224 + r / 4096) 240);
          destruct (N.eqb_spec (224 + r / 4096) 237); destruct (N.eqb_spec (224 + r / 4096) 244); lia. }
      rewrite S. cbn [negb]. change (3 =? 2) with false. cbv beta iota.
      assert (C : is_cont (128 + r mod 64) = true) by (unfold is_cont; lia).
      rewrite C. cbn [negb]. change (3 =? 3) with true. cbv beta iota. f_equal. lia. }
  destruct (N.ltb_spec r 1114112) as [H4|H4]; [|lia].
  cbn [app length]. unfold decode_rune.
  destruct (seq_len_cases (240 + r / 262144)) as [[H B]|[H|[[H B]|[[H B]|[H B]]]]]; try lia.
  - unfold seq_len in H. destruct (N.ltb_spec (240 + r / 262144) 128); [lia|].
    destruct (N.ltb_spec (240 + r / 262144) 194); [lia|].
    destruct (N.ltb_spec (240 + r / 262144) 224); [lia|].
    destruct (N.ltb_spec (240 + r / 262144) 240); [lia|].
    destruct (N.ltb_spec (240 + r / 262144) 245); [discriminate|lia].
  - rewrite H. cbv beta iota.
    assert (S : second_ok (240 + r / 262144) (128 + (r / 4096) mod 64) = true).
    { unfold second_ok, accept_lo, accept_hi.
      destruct (N.eqb_spec (240 + r / 262144) 224); destruct (N.eqb_spec (240 + r / 262144) 240);
        destruct (N.eqb_spec (240 + r / 262144) 237); destruct (N.eqb_spec (240 + r / 262144) 244); lia. }
    rewrite S. cbn [negb]. change (4 =? 2) with false. cbv beta iota.
    assert (C : is_cont (128 + (r / 64) mod 64) = true) by (unfold is_cont; lia).
    rewrite C. cbn [negb]. change (4 =? 3) with false. cbv beta iota.
    assert (C' : is_cont (128 + r mod 64) = true) by (unfold is_cont; lia).
    rewrite C'. cbn [negb]. f_equal. lia.
Qed.

Lemma encode_rune_nonempty : forall r, exists b t, encode_rune r = b :: t.
Proof.
  intros r. unfold encode_rune.
  destruct (r <? 128); [eauto|]. destruct (r <? 2048); [eauto|].
  destruct ((55296 <=? r) && (r <? 57344)); [eauto|]. destruct (r <? 65536); [eauto|].
  destruct (r <? 1114112); eauto.
Qed.

Lemma decode_encode_app : forall rs t, Forall (fun r => scalar r = true) rs ->
  decode (encode rs ++ t) = rs ++ decode t.
Proof.
  intros rs t H. induction H as [|r rs Hr _ IH]; [reflexivity|].
  unfold encode. cbn [flat_map]. fold (encode rs). rewrite <- app_assoc.
  destruct (encode_rune_nonempty r) as [b [u E]].
  pose proof (decode_rune_encode r (encode rs ++ t) Hr) as D.
  rewrite E in *. cbn [app] in *. rewrite decode_unfold, D. cbn [fst snd].
  change (b :: u ++ encode rs ++ t) with ((b :: u) ++ (encode rs ++ t)).
  rewrite skipn_app, skipn_all, Nat.sub_diag. cbn [skipn app]. rewrite IH. reflexivity.
Qed.

Lemma decode_encode : forall rs, Forall (fun r => scalar r = true) rs -> decode (encode rs) = rs.
Proof.
  intros rs H. pose proof (decode_encode_app rs [] H) as E. rewrite !app_nil_r in E. exact E.
Qed.

(* re-encoding what was decoded gives back a text that decodes to the same runes: decoding is idempotent
   up to the replacement of ill-formed bytes by U+FFFD *)
Lemma decode_encode_decode : forall s, decode (encode (decode s)) = decode s.
Proof. intros s. apply decode_encode, decode_scalar. Qed.

(* ------------------------------------------------------------------ the forced final line break *)
Lemma decode_rune_app_lf : forall s0 r0, decode_rune ((s0 :: r0) ++ [10]) = decode_rune (s0 :: r0).
Proof.
  intros s0 r0. cbn [app]. unfold decode_rune.
  destruct (seq_len s0) as [|p] eqn:Hs; [reflexivity|].
  assert (L1 : forall s0, negb (second_ok s0 10) = true).
  { intros x. unfold second_ok, accept_lo. destruct (x =? 224); destruct (x =? 240); reflexivity. }
  destruct p as [p|p|]; try reflexivity;
    (destruct r0 as [|s1 r1]; [cbn [app]; rewrite L1; reflexivity|]; cbn [app];
     destruct (negb (second_ok s0 s1)); [reflexivity|];
     destruct (_ =? 2); [reflexivity|];
     destruct r1 as [|s2 r2]; [cbn [app]; reflexivity|]; cbn [app];
     destruct (negb (is_cont s2)); [reflexivity|];
     destruct (_ =? 3); [reflexivity|];
     destruct r2 as [|s3 r3]; [cbn [app]; reflexivity|]; cbn [app];
     destruct (negb (is_cont s3)); reflexivity).
Qed.

Lemma decode_app_lf : forall s, decode (s ++ [10]) = decode s ++ [10].
Proof.
  intros s. induction s as [|s0 r0 IH] using decode_ind_len; [reflexivity|].
  pose proof (decode_rune_width s0 r0) as W.
  change ((s0 :: r0) ++ [10]) with (s0 :: (r0 ++ [10])) at 1. rewrite (decode_unfold s0 (r0 ++ [10])).
  change (s0 :: r0 ++ [10]) with ((s0 :: r0) ++ [10]).
  rewrite decode_rune_app_lf, skipn_app.
  match goal with |- context [skipn ?k [10]] => replace k with 0%nat by (unfold byte in *; cbn [length] in *; lia) end.
  change (skipn 0 [10]) with [10]. pose proof (decode_unfold s0 r0) as U. unfold byte in *. rewrite U. cbn [app]. f_equal. exact IH.
Qed.

(* a decoded rune below 128 is an ASCII byte decoded as itself *)
Lemma decode_rune_small : forall s0 r0, fst (decode_rune (s0 :: r0)) < 128 -> decode_rune (s0 :: r0) = (s0, 1%nat).
Proof.
  intros s0 r0. unfold decode_rune.
  destruct (seq_len_cases s0) as [[H B]|[H|[[H B]|[[H B]|[H B]]]]]; rewrite H; cbv beta iota.
  - reflexivity.
  - cbn [fst]. unfold RuneError. lia.
  - destruct r0 as [|s1 r1]; [cbn [fst]; unfold RuneError; lia|].
    destruct (second_ok s0 s1) eqn:H1; cbn [negb]; [|cbn [fst]; unfold RuneError; lia].
    apply second_ok_bounds in H1. change (2 =? 2) with true. cbv beta iota. cbn [fst]. lia.
  - destruct r0 as [|s1 r1]; [cbn [fst]; unfold RuneError; lia|].
    destruct (second_ok s0 s1) eqn:H1; cbn [negb]; [|cbn [fst]; unfold RuneError; lia].
    apply second_ok_bounds in H1. change (3 =? 2) with false. cbv beta iota.
    destruct r1 as [|s2 r2]; [cbn [fst]; unfold RuneError; lia|].
    destruct (is_cont s2) eqn:H2; cbn [negb]; [|cbn [fst]; unfold RuneError; lia].
    apply is_cont_bounds in H2. change (3 =? 3) with true. cbv beta iota. cbn [fst]. lia.
  - destruct r0 as [|s1 r1]; [cbn [fst]; unfold RuneError; lia|].
    destruct (second_ok s0 s1) eqn:H1; cbn [negb]; [|cbn [fst]; unfold RuneError; lia].
    apply second_ok_bounds in H1. change (4 =? 2) with false. cbv beta iota.
    destruct r1 as [|s2 r2]; [cbn [fst]; unfold RuneError; lia|].
    destruct (is_cont s2) eqn:H2; cbn [negb]; [|cbn [fst]; unfold RuneError; lia].
    apply is_cont_bounds in H2. change (4 =? 3) with false. cbv beta iota.
    destruct r2 as [|s3 r3]; [cbn [fst]; unfold RuneError; lia|].
    destruct (is_cont s3) eqn:H3; cbn [negb]; [|cbn [fst]; unfold RuneError; lia].
    apply is_cont_bounds in H3. cbn [fst]. lia.
Qed.

Lemma last_skipn : forall (w : nat) (s : list byte) d, skipn w s <> [] -> last (skipn w s) d = last s d.
Proof.
  induction w as [|w IH]; intros s d H; [reflexivity|].
  destruct s as [|x s]; [exfalso; apply H; reflexivity|].
  cbn [skipn] in *. rewrite IH by exact H.
  destruct s as [|y s]; [exfalso; apply H; destruct w; reflexivity|reflexivity].
Qed.

(* the decoded text ends in a line break exactly when the bytes do *)
Lemma decode_last_lf : forall s d, s <> [] -> last (decode s) d = 10 -> last s d = 10.
Proof.
  intros s d. induction s as [|s0 r0 IH] using decode_ind_len; intros Hne HL; [contradiction|].
  rewrite decode_unfold in HL.
  destruct (skipn (snd (decode_rune (s0 :: r0))) (s0 :: r0)) as [|y t] eqn:E.
  - cbn [decode last] in HL.
    assert (S : fst (decode_rune (s0 :: r0)) < 128) by lia.
    apply decode_rune_small in S. rewrite S in *. cbn [fst snd skipn] in *. subst. reflexivity.
  - assert (Hn : y :: t <> []) by discriminate.
    assert (HL' : last (decode (y :: t)) d = 10).
    { destruct (decode (y :: t)) as [|a b] eqn:D.
      - rewrite decode_unfold in D. discriminate D.
      - exact HL. }
    specialize (IH Hn HL'). rewrite <- E in IH. rewrite last_skipn in IH by (rewrite E; discriminate). exact IH.
Qed.

Lemma rev_head_last : forall (s : list N) b t d, rev s = b :: t -> last s d = b.
Proof.
  intros s b t d H. assert (E : s = rev t ++ [b]).
  { rewrite <- (rev_involutive s), H. reflexivity. }
  rewrite E. apply last_last.
Qed.

Lemma decode_terminated : forall s, decode (terminated_bytes s) = Spec.C16.terminated (decode s).
Proof.
  intros s. unfold terminated_bytes, Spec.C16.terminated.
  destruct (rev s) as [|b t] eqn:R.
  - assert (s = []) by (rewrite <- (rev_involutive s), R; reflexivity). subst. reflexivity.
  - assert (Es : s = rev t ++ [b]) by (rewrite <- (rev_involutive s), R; reflexivity).
    destruct (N.eqb_spec b 10) as [Hb|Hb].
    + subst b. rewrite Es, decode_app_lf, rev_app_distr. cbn [rev app]. reflexivity.
    + rewrite decode_app_lf.
      destruct (rev (decode s)) as [|c u] eqn:RD.
      * assert (decode s = []) by (rewrite <- (rev_involutive (decode s)), RD; reflexivity).
        exfalso. rewrite Es in H. destruct (rev t); cbn [app] in H; rewrite decode_unfold in H; discriminate H.
      * destruct (N.eqb_spec c cLF) as [Hc|Hc]; [|reflexivity].
        exfalso. apply Hb.
        pose proof (rev_head_last (decode s) c u 0 RD) as L. rewrite Hc in L.
        apply decode_last_lf in L; [|rewrite Es; destruct (rev t); discriminate].
        rewrite Es, last_last in L. exact L.
Qed.
