(* Lemmas for C07 (augments): confluence of the abstract augment system (Spec/C07.v), the flat view of
   the model's forests, and the refinement of the model's augment loop (Model/Schema.v) to a maximal run. *)
From Coq Require Import List NArith Bool Permutation Arith Lia.
From GY Require Import Model.Schema Spec.C07.
From GY Require Spec.C04 Proofs.SchemaLemmas.
Import ListNotations.
Local Open Scope N_scope.

(* ================================================================== 1. generic confluence *)
Section Generic.
Context {St : Type}.
Variable eqv : St -> St -> Prop.
Variable st : St -> aug -> option (St * bool).
Variable Inv : St -> Prop.

Hypothesis eqv_refl : forall s, eqv s s.
Hypothesis eqv_sym : forall s t, eqv s t -> eqv t s.
Hypothesis eqv_trans : forall s t u, eqv s t -> eqv t u -> eqv s u.
Hypothesis st_compat_none : forall s s' a, eqv s s' -> st s a = None -> st s' a = None.
Hypothesis st_compat_some : forall s s' a t c, eqv s s' -> st s a = Some (t, c) ->
  exists t', st s' a = Some (t', c) /\ eqv t t'.
Hypothesis Inv_eqv : forall s s', Inv s -> eqv s s' -> Inv s'.
Hypothesis Inv_step : forall s a t c, Inv s -> st s a = Some (t, c) -> Inv t.
(* an applicable step stays applicable after a clean step, and stays dirty if it was *)
Hypothesis persist : forall s a b t u c, Inv s -> st s a = Some (t, false) -> st s b = Some (u, c) ->
  exists u' c', st t b = Some (u', c') /\ (c = true -> c' = true).
(* two clean steps commute *)
Hypothesis comm : forall s a b t1 t2 u1 u2 c1 c2, Inv s ->
  st s a = Some (t1, false) -> st s b = Some (t2, false) ->
  st t1 b = Some (u1, c1) -> st t2 a = Some (u2, c2) ->
  c1 = c2 /\ (c1 = false -> eqv u1 u2).

Notation run := (run eqv st).
Notation maximal := (maximal st).

Lemma run_dirty_mono : forall s P d s' P' d', run s P d s' P' d' -> d = true -> d' = true.
Proof.
  induction 1 as [| s P d a t c t' Q s' P' d' Hst He Hp Hr IH]; intros Hd; auto.
  apply IH. subst d. reflexivity.
Qed.

Lemma run_start_eqv : forall s P d s' P' d', run s P d s' P' d' ->
  forall s0 P0, eqv s0 s -> Permutation P0 P -> run s0 P0 d s' P' d'.
Proof.
  induction 1 as [s s' P P' d He Hp | s P d a t c t' Q s' P' d' Hst He Hp Hr IH]; intros s0 P0 H0 HP0.
  - apply run_nil; [eapply eqv_trans; eauto | eapply perm_trans; eauto].
  - destruct (st_compat_some s s0 a t c (eqv_sym _ _ H0) Hst) as [t0 [Hst0 Ht0]].
    eapply run_step; [exact Hst0 | | eapply perm_trans; [exact HP0 | exact Hp] | exact Hr].
    eapply eqv_trans; [apply eqv_sym; exact Ht0 | exact He].
Qed.

Lemma run_end_eqv : forall s P d s' P' d', run s P d s' P' d' ->
  forall s1 P1, eqv s' s1 -> Permutation P' P1 -> run s P d s1 P1 d'.
Proof.
  induction 1 as [s s' P P' d He Hp | s P d a t c t' Q s' P' d' Hst He Hp Hr IH]; intros s1 P1 H1 HP1.
  - apply run_nil; [eapply eqv_trans; eauto | eapply perm_trans; eauto].
  - eapply run_step; eauto.
Qed.

Lemma maximal_eqv : forall s s' P P', eqv s s' -> Permutation P P' -> maximal s P -> maximal s' P'.
Proof.
  intros s s' P P' He Hp Hm a Ha. apply (st_compat_none s s' a He). apply Hm.
  eapply Permutation_in; [apply Permutation_sym; exact Hp | exact Ha].
Qed.

Lemma run_Inv : forall s P d s' P' d', run s P d s' P' d' -> Inv s -> Inv s'.
Proof.
  induction 1 as [s s' P P' d He Hp | s P d a t c t' Q s' P' d' Hst He Hp Hr IH]; intros Hi.
  - eapply Inv_eqv; eauto.
  - apply IH. eapply Inv_eqv; [eapply Inv_step; eauto | exact He].
Qed.

(* every state has a maximal run (each step consumes one pending augment) *)
Lemma first_applicable : forall s (P : list aug),
  (forall a, In a P -> st s a = None) \/
  (exists a t c Q, st s a = Some (t, c) /\ Permutation P (a :: Q)).
Proof.
  intros s P. induction P as [| a P IH].
  - left. intros a [].
  - destruct (st s a) as [[t c] |] eqn:E.
    + right. exists a, t, c, P. split; [exact E | apply Permutation_refl].
    + destruct IH as [IH | [b [t [c [Q [Hb Hp]]]]]].
      * left. intros x [Hx | Hx]; [subst x; exact E | apply IH; exact Hx].
      * right. exists b, t, c, (a :: Q). split; [exact Hb |].
        eapply perm_trans; [apply perm_skip; exact Hp | apply perm_swap].
Qed.

Lemma maximal_run_exists : forall n s P d, length P = n ->
  exists s' P' d', run s P d s' P' d' /\ maximal s' P'.
Proof.
  induction n as [| n IH]; intros s P d Hn.
  - destruct P; [| discriminate]. exists s, [], d. split; [apply run_nil; auto | intros a []].
  - destruct (first_applicable s P) as [Hm | [a [t [c [Q [Ha Hp]]]]]].
    + exists s, P, d. split; [apply run_nil; auto | exact Hm].
    + assert (HQ : length Q = n).
      { apply Permutation_length in Hp. simpl in Hp. lia. }
      destruct (IH t Q (d || c)%bool HQ) as [s' [P' [d' [Hr Hm]]]].
      exists s', P', d'. split; [| exact Hm].
      eapply run_step; [exact Ha | apply eqv_refl | exact Hp | exact Hr].
Qed.

Lemma perm_two_heads : forall (a b : aug) Qa Qb, Permutation (a :: Qa) (b :: Qb) ->
  (a = b /\ Permutation Qa Qb) \/ (exists Q, Permutation Qa (b :: Q) /\ Permutation Qb (a :: Q)).
Proof.
  intros a b Qa Qb Hp.
  assert (Hin : In b (a :: Qa)).
  { eapply Permutation_in; [apply Permutation_sym; exact Hp | left; reflexivity]. }
  destruct Hin as [Heq | Hin].
  - left. subst b. split; [reflexivity | eapply Permutation_cons_inv; exact Hp].
  - right. apply in_split in Hin. destruct Hin as [l1 [l2 Hq]].
    exists (l1 ++ l2). split.
    + subst Qa. apply Permutation_sym. apply Permutation_middle.
    + apply Permutation_cons_inv with (a := b).
      eapply perm_trans; [apply Permutation_sym; exact Hp |].
      subst Qa. eapply perm_trans; [| apply perm_swap]. apply perm_skip.
      apply Permutation_sym. apply Permutation_middle.
Qed.

(* T1: if one maximal run is clean, every maximal run is clean, ends in an equivalent state and leaves
   the same augments unapplied *)
Theorem confluence : forall n s P, length P = n -> Inv s ->
  forall s1 P1, run s P false s1 P1 false -> maximal s1 P1 ->
  forall s2 P2 d2, run s P false s2 P2 d2 -> maximal s2 P2 ->
  d2 = false /\ eqv s1 s2 /\ Permutation P1 P2.
Proof.
  induction n as [| n IH]; intros s P Hn Hi s1 P1 R1 M1 s2 P2 d2 R2 M2.
  - destruct P; [| discriminate].
    inversion R1 as [? ? ? ? ? He1 Hp1 | ? ? ? a1 t1 c1 t1' Q1 ? ? ? Hst1 Het1 HP1 Hr1]; subst.
    2:{ apply Permutation_nil in HP1. discriminate. }
    inversion R2 as [? ? ? ? ? He2 Hp2 | ? ? ? a2 t2 c2 t2' Q2 ? ? ? Hst2 Het2 HP2 Hr2]; subst.
    2:{ apply Permutation_nil in HP2. discriminate. }
    split; [reflexivity |]. split.
    + eapply eqv_trans; [apply eqv_sym; exact He1 | exact He2].
    + eapply perm_trans; [apply Permutation_sym; exact Hp1 | exact Hp2].
  - inversion R1 as [? ? ? ? ? He1 Hp1 | ? ? ? a t1 c1 t1' Qa ? ? ? Hst1 Het1 HPa Hr1]; subst.
    + (* R1 takes no step: s is maximal, so R2 cannot step either *)
      assert (Ms : maximal s P).
      { eapply maximal_eqv; [apply eqv_sym; exact He1 | apply Permutation_sym; exact Hp1 | exact M1]. }
      inversion R2 as [? ? ? ? ? He2 Hp2 | ? ? ? b t2 c2 t2' Qb ? ? ? Hst2 Het2 HPb Hr2]; subst.
      * split; [reflexivity |]. split.
        -- eapply eqv_trans; [apply eqv_sym; exact He1 | exact He2].
        -- eapply perm_trans; [apply Permutation_sym; exact Hp1 | exact Hp2].
      * exfalso. assert (Hb : st s b = None).
        { apply Ms. eapply Permutation_in; [apply Permutation_sym; exact HPb | left; reflexivity]. }
        rewrite Hb in Hst2. discriminate.
    + (* R1 = a ; R1' *)
      assert (Hc1 : c1 = false).
      { destruct c1; [| reflexivity]. apply run_dirty_mono in Hr1; [discriminate | reflexivity]. }
      subst c1. simpl in Hr1.
      inversion R2 as [? ? ? ? ? He2 Hp2 | ? ? ? b t2 c2 t2' Qb ? ? ? Hst2 Het2 HPb Hr2]; subst.
      * exfalso. assert (Ms : maximal s P).
        { eapply maximal_eqv; [apply eqv_sym; exact He2 | apply Permutation_sym; exact Hp2 | exact M2]. }
        assert (Ha : st s a = None).
        { apply Ms. eapply Permutation_in; [apply Permutation_sym; exact HPa | left; reflexivity]. }
        rewrite Ha in Hst1. discriminate.
      * assert (HQa : length Qa = n).
        { apply Permutation_length in HPa. simpl in HPa. lia. }
        assert (Hit1 : Inv t1) by (exact (Inv_step s a t1 false Hi Hst1)).
        assert (Hit1' : Inv t1') by (exact (Inv_eqv t1 t1' Hit1 Het1)).
        assert (Hab : Permutation (a :: Qa) (b :: Qb)).
        { eapply perm_trans; [apply Permutation_sym; exact HPa | exact HPb]. }
        destruct (perm_two_heads _ _ _ _ Hab) as [[Heq HQ] | [Q [HQa' HQb']]].
        -- (* the same augment first *)
           subst b. rewrite Hst1 in Hst2. inversion Hst2; subst t2 c2. simpl in Hr2.
           apply (IH t1' Qa HQa Hit1' s1 P1 Hr1 M1 s2 P2 d2); [| exact M2].
           eapply run_start_eqv; [exact Hr2 | | exact HQ].
           eapply eqv_trans; [apply eqv_sym; exact Het1 | exact Het2].
        -- (* different augments first *)
           assert (HQb : length Qb = n).
           { apply Permutation_length in HPb. simpl in HPb. lia. }
           assert (HQ : length Q = pred n).
           { apply Permutation_length in HQa'. simpl in HQa'. lia. }
           destruct (persist s a b t1 t2 c2 Hi Hst1 Hst2) as [u1 [c1' [Hb1 Hdirty]]].
           (* a maximal run from t1 that starts with b *)
           destruct (maximal_run_exists (length Q) u1 Q (false || c1')%bool eq_refl) as [sm [Pm [dm [Rm Mm]]]].
           assert (Rb : run t1' Qa false sm Pm dm).
           { destruct (st_compat_some t1 t1' b u1 c1' Het1 Hb1) as [u1' [Hb1' Hu1']].
             eapply run_step; [exact Hb1' | apply eqv_sym; exact Hu1' | exact HQa' | exact Rm]. }
           destruct (IH t1' Qa HQa Hit1' s1 P1 Hr1 M1 sm Pm dm Rb Mm) as [Hdm [Hs1m HP1m]].
           subst dm.
           assert (Hc1' : c1' = false).
           { destruct c1'; [| reflexivity]. apply run_dirty_mono in Rm; [discriminate | reflexivity]. }
           subst c1'.
           assert (Hc2 : c2 = false).
           { destruct c2; [| reflexivity]. discriminate (Hdirty eq_refl). }
           subst c2. simpl in Hr2, Rm.
           destruct (persist s b a t2 t1 false Hi Hst2 Hst1) as [u2 [c2' [Ha2 _]]].
           destruct (comm s a b t1 t2 u1 u2 false c2' Hi Hst1 Hst2 Hb1 Ha2) as [Hcc Hu].
           subst c2'. specialize (Hu eq_refl).
           assert (Hit2 : Inv t2) by (exact (Inv_step s b t2 false Hi Hst2)).
           assert (Hit2' : Inv t2') by (exact (Inv_eqv t2 t2' Hit2 Het2)).
           (* the clean maximal run from t2: a, then as from u1 *)
           assert (Ra : run t2' Qb false sm Pm false).
           { destruct (st_compat_some t2 t2' a u2 false Het2 Ha2) as [u2' [Ha2' Hu2']].
             eapply run_step; [exact Ha2' | | exact HQb' | simpl; exact Rm].
             eapply eqv_trans; [apply eqv_sym; exact Hu2' | apply eqv_sym; exact Hu]. }
           destruct (IH t2' Qb HQb Hit2' sm Pm Ra Mm s2 P2 d2 Hr2 M2) as [Hd2 [Hsm2 HPm2]].
           split; [exact Hd2 |]. split.
           ++ eapply eqv_trans; [exact Hs1m | exact Hsm2].
           ++ eapply perm_trans; [exact HP1m | exact HPm2].
Qed.

(* ------------------------------------------------------------------ counted runs *)
Notation run_n := (run_n eqv st).

Lemma run_n_run : forall n s P d s' P' d', run_n n s P d s' P' d' -> run s P d s' P' d'.
Proof.
  induction 1 as [s s' P P' d He Hp | n s P d a t c t' Q s' P' d' Hst He Hp Hr IH].
  - apply run_nil; assumption.
  - eapply run_step; eauto.
Qed.

Lemma run_n_length : forall n s P d s' P' d', run_n n s P d s' P' d' -> length P = (n + length P')%nat.
Proof.
  induction 1 as [s s' P P' d He Hp | n s P d a t c t' Q s' P' d' Hst He Hp Hr IH].
  - apply Permutation_length in Hp. simpl. exact Hp.
  - apply Permutation_length in Hp. simpl in *. lia.
Qed.

Lemma run_n_start_eqv : forall n s P d s' P' d', run_n n s P d s' P' d' ->
  forall s0 P0, eqv s0 s -> Permutation P0 P -> run_n n s0 P0 d s' P' d'.
Proof.
  induction 1 as [s s' P P' d He Hp | n s P d a t c t' Q s' P' d' Hst He Hp Hr IH]; intros s0 P0 H0 HP0.
  - apply runn_nil; [eapply eqv_trans; eauto | eapply perm_trans; eauto].
  - destruct (st_compat_some s s0 a t c (eqv_sym _ _ H0) Hst) as [t0 [Hst0 Ht0]].
    eapply runn_step; [exact Hst0 | | eapply perm_trans; [exact HP0 | exact Hp] | exact Hr].
    eapply eqv_trans; [apply eqv_sym; exact Ht0 | exact He].
Qed.

Lemma run_n_end_eqv : forall n s P d s' P' d', run_n n s P d s' P' d' ->
  forall s1 P1, eqv s' s1 -> Permutation P' P1 -> run_n n s P d s1 P1 d'.
Proof.
  induction 1 as [s s' P P' d He Hp | n s P d a t c t' Q s' P' d' Hst He Hp Hr IH]; intros s1 P1 H1 HP1.
  - apply runn_nil; [eapply eqv_trans; eauto | eapply perm_trans; eauto].
  - eapply runn_step; eauto.
Qed.

Lemma run_n_frame : forall n s P d s' P' d', run_n n s P d s' P' d' ->
  forall R, run_n n s (P ++ R) d s' (P' ++ R) d'.
Proof.
  induction 1 as [s s' P P' d He Hp | n s P d a t c t' Q s' P' d' Hst He Hp Hr IH]; intros R.
  - apply runn_nil; [exact He | apply Permutation_app_tail; exact Hp].
  - eapply runn_step; [exact Hst | exact He | | apply IH].
    change (a :: Q ++ R) with ((a :: Q) ++ R). apply Permutation_app_tail. exact Hp.
Qed.

Lemma run_n_trans : forall n s P d s1 P1 d1, run_n n s P d s1 P1 d1 ->
  forall m s2 P2 d2, run_n m s1 P1 d1 s2 P2 d2 -> run_n (n + m) s P d s2 P2 d2.
Proof.
  induction 1 as [s s' P P' d He Hp | n s P d a t c t' Q s' P' d' Hst He Hp Hr IH]; intros m s2 P2 d2 R2.
  - simpl. eapply run_n_start_eqv; eauto.
  - simpl. eapply runn_step; eauto.
Qed.

Lemma run_n_dirty : forall n s P d s' P' d', run_n n s P d s' P' d' ->
  exists x, d' = (d || x)%bool /\ forall d0, run_n n s P d0 s' P' (d0 || x)%bool.
Proof.
  induction 1 as [s s' P P' d He Hp | n s P d a t c t' Q s' P' d' Hst He Hp Hr IH].
  - exists false. split; [rewrite orb_false_r; reflexivity |].
    intros d0. rewrite orb_false_r. apply runn_nil; assumption.
  - destruct IH as [x [Hx Hall]]. exists (c || x)%bool. split.
    + rewrite Hx. rewrite orb_assoc. reflexivity.
    + intros d0. eapply runn_step; [exact Hst | exact He | exact Hp |].
      rewrite orb_assoc. apply Hall.
Qed.

End Generic.


(* ================================================================== 2. strings, steps, association lists *)
Lemma str_eqb_eq : forall a b, str_eqb a b = true <-> a = b.
Proof.
  induction a as [| x a IH]; destruct b as [| y b]; simpl; split; intros H; try discriminate; auto.
  - apply andb_true_iff in H. destruct H as [H1 H2]. apply N.eqb_eq in H1. apply IH in H2. subst. reflexivity.
  - inversion H; subst. apply andb_true_iff. split; [apply N.eqb_refl | apply IH; reflexivity].
Qed.

Lemma str_eqb_refl : forall a, str_eqb a a = true.
Proof. intros a. apply str_eqb_eq. reflexivity. Qed.

Lemma str_eqb_neq : forall a b, str_eqb a b = false <-> a <> b.
Proof.
  intros a b. split.
  - intros H E. apply str_eqb_eq in E. rewrite E in H. discriminate.
  - intros H. destruct (str_eqb a b) eqn:E; [| reflexivity]. apply str_eqb_eq in E. contradiction.
Qed.

Lemma str_eqb_sym : forall a b, str_eqb a b = str_eqb b a.
Proof.
  intros a b. destruct (str_eqb a b) eqn:E.
  - apply str_eqb_eq in E. subst. symmetry. apply str_eqb_refl.
  - apply str_eqb_neq in E. symmetry. apply str_eqb_neq. auto.
Qed.

Lemma step_eqb_eq : forall a b, step_eqb a b = true <-> a = b.
Proof.
  destruct a, b; simpl; split; intros H; try discriminate; try reflexivity.
  - apply str_eqb_eq in H. subst. reflexivity.
  - inversion H. apply str_eqb_refl.
Qed.

Lemma strip_spec : forall pre l r, strip pre l = Some r <-> l = pre ++ r.
Proof.
  induction pre as [| a pre IH]; intros l r; simpl.
  - split; intros H; [inversion H; reflexivity | subst; reflexivity].
  - destruct l as [| b l].
    + split; intros H; discriminate.
    + destruct (step_eqb a b) eqn:E.
      * apply step_eqb_eq in E. subst b. rewrite IH. split; intros H; [subst; reflexivity | inversion H; reflexivity].
      * split; intros H; [discriminate |]. inversion H; subst.
        assert (step_eqb a a = true) by (apply step_eqb_eq; reflexivity). congruence.
Qed.

Lemma strip_app : forall pre r, strip pre (pre ++ r) = Some r.
Proof. intros. apply strip_spec. reflexivity. Qed.

Lemma mem_In : forall k l, mem k l = true <-> In k l.
Proof.
  intros k l. unfold mem. rewrite existsb_exists. split.
  - intros [x [Hx He]]. apply str_eqb_eq in He. subst. exact Hx.
  - intros H. exists k. split; [exact H | apply str_eqb_refl].
Qed.

Lemma lookup_In : forall {A} k (l : list (str * A)) v, lookup k l = Some v -> In k (map fst l).
Proof.
  intros A k l. induction l as [| [k' v'] l IH]; simpl; intros v H; [discriminate |].
  destruct (str_eqb k k') eqn:E.
  - apply str_eqb_eq in E. left. auto.
  - right. eapply IH; eauto.
Qed.

Lemma lookup_None : forall {A} k (l : list (str * A)), lookup k l = None <-> ~ In k (map fst l).
Proof.
  intros A k l. induction l as [| [k' v'] l IH]; simpl.
  - split; auto.
  - destruct (str_eqb k k') eqn:E.
    + apply str_eqb_eq in E. split; [discriminate | intros H; exfalso; apply H; left; auto].
    + apply str_eqb_neq in E. rewrite IH. split; intros H; [intros [H1 | H1]; [congruence | auto] | auto].
Qed.

Lemma lookup_update : forall {A} k n (v : A) l,
  lookup k (update n v l) = if str_eqb k n then (match lookup n l with Some _ => Some v | None => None end)
                            else lookup k l.
Proof.
  intros A k n v l. induction l as [| [k' v'] l IH]; simpl.
  - destruct (str_eqb k n); reflexivity.
  - destruct (str_eqb n k') eqn:E; simpl.
    + apply str_eqb_eq in E. subst k'. destruct (str_eqb k n); reflexivity.
    + rewrite IH. destruct (str_eqb k n) eqn:E2; [| reflexivity].
      apply str_eqb_eq in E2. subst k. rewrite E. reflexivity.
Qed.

Lemma lookup_app : forall {A} k (l1 l2 : list (str * A)),
  lookup k (l1 ++ l2) = match lookup k l1 with Some v => Some v | None => lookup k l2 end.
Proof.
  intros A k l1 l2. induction l1 as [| [k' v'] l1 IH]; simpl; [reflexivity |].
  destruct (str_eqb k k'); [reflexivity | exact IH].
Qed.

Lemma map_fst_update : forall {A} n (v : A) l, map fst (update n v l) = map fst l.
Proof.
  intros A n v l. induction l as [| [k' v'] l IH]; simpl; [reflexivity |].
  destruct (str_eqb n k'); simpl; [reflexivity | rewrite IH; reflexivity].
Qed.



(* ================================================================== 3. the abstract system on views *)
Definition fle (f g : flat) : Prop := forall q l, f q = Some l -> g q = Some l.

Lemma feq_refl : forall f, feq f f.
Proof. intros f p. reflexivity. Qed.
Lemma feq_sym : forall f g, feq f g -> feq g f.
Proof. intros f g H p. symmetry. apply H. Qed.
Lemma feq_trans : forall f g h, feq f g -> feq g h -> feq f h.
Proof. intros f g h H1 H2 p. rewrite H1. apply H2. Qed.

Lemma fle_None : forall f g q, fle f g -> g q = None -> f q = None.
Proof.
  intros f g q H Hg. destruct (f q) eqn:E; [| reflexivity]. apply H in E. congruence.
Qed.

Lemma afind_steps_None : forall fl parts, afind_steps fl None parts = None.
Proof. intros fl parts. destruct parts; reflexivity. Qed.

Lemma afind_steps_feq : forall fl fl', feq fl fl' ->
  forall parts p, afind_steps fl p parts = afind_steps fl' p parts.
Proof.
  intros fl fl' H. induction parts as [| part rest IH]; intros p; simpl; [reflexivity |].
  destruct p as [[mn steps] |]; [| reflexivity].
  rewrite <- (H (mn, steps)).
  destruct (str_eqb part s_dot); [apply IH |].
  destruct (str_eqb part s_dotdot).
  { destruct (rev steps); [reflexivity | apply IH]. }
  destruct (fl (mn, steps)) as [l |]; [| reflexivity].
  rewrite <- (H (mn, steps ++ [SChild (snd (getPrefix part))])).
  destruct (l_isrpc l).
  { destruct (str_eqb (snd (getPrefix part)) s_input); [apply IH |].
    destruct (str_eqb (snd (getPrefix part)) s_output); [apply IH | reflexivity]. }
  destruct (str_eqb (snd (getPrefix part)) s_dot); [apply IH |].
  destruct ((match snd (getPrefix part) with [] => true | _ => false end) || str_eqb (snd (getPrefix part)) s_dotdot)%bool;
    [reflexivity |].
  destruct (l_hasdir l); [| reflexivity].
  destruct (fl (mn, steps ++ [SChild (snd (getPrefix part))])); [apply IH | reflexivity].
Qed.

Lemma afind_feq : forall SC fl fl' ctx start name, feq fl fl' ->
  afind SC fl ctx start name = afind SC fl' ctx start name.
Proof.
  intros SC fl fl' ctx start name H. unfold afind.
  destruct name as [| c name]; [reflexivity |].
  destruct (split_on cSLASH [] (c :: name)) as [| [| x xs] l].
  - apply afind_steps_feq; exact H.
  - destruct l as [| first rest]; [reflexivity |].
    destruct (fst (getPrefix first)).
    + apply afind_steps_feq; exact H.
    + destruct (FindModuleByPrefix SC ctx (n :: s)); [| reflexivity].
      destruct (owner SC m); [| reflexivity]. apply afind_steps_feq; exact H.
  - apply afind_steps_feq; exact H.
Qed.

Lemma afind_steps_mono : forall fl fl', fle fl fl' ->
  forall parts p q, afind_steps fl p parts = Some q -> afind_steps fl' p parts = Some q.
Proof.
  intros fl fl' H. induction parts as [| part rest IH]; intros p q Hq; simpl in *; [exact Hq |].
  destruct p as [[mn steps] |]; [| discriminate].
  destruct (str_eqb part s_dot); [apply IH; exact Hq |].
  destruct (str_eqb part s_dotdot).
  { destruct (rev steps); [discriminate | apply IH; exact Hq]. }
  destruct (fl (mn, steps)) as [l |] eqn:E; [| discriminate].
  rewrite (H _ _ E).
  destruct (l_isrpc l).
  { destruct (str_eqb (snd (getPrefix part)) s_input); [apply IH; exact Hq |].
    destruct (str_eqb (snd (getPrefix part)) s_output); [apply IH; exact Hq | discriminate]. }
  destruct (str_eqb (snd (getPrefix part)) s_dot); [apply IH; exact Hq |].
  destruct ((match snd (getPrefix part) with [] => true | _ => false end) || str_eqb (snd (getPrefix part)) s_dotdot)%bool;
    [discriminate |].
  destruct (l_hasdir l); [| discriminate].
  destruct (fl (mn, steps ++ [SChild (snd (getPrefix part))])) as [l2 |] eqn:E2; [| discriminate].
  rewrite (H _ _ E2). apply IH; exact Hq.
Qed.

Lemma afind_mono : forall SC fl fl' ctx start name q, fle fl fl' ->
  afind SC fl ctx start name = Some q -> afind SC fl' ctx start name = Some q.
Proof.
  intros SC fl fl' ctx start name q H. unfold afind.
  destruct name as [| c name]; [auto |].
  destruct (split_on cSLASH [] (c :: name)) as [| [| x xs] l].
  - apply afind_steps_mono; exact H.
  - destruct l as [| first rest]; [auto |].
    destruct (fst (getPrefix first)).
    + apply afind_steps_mono; exact H.
    + destruct (FindModuleByPrefix SC ctx (n :: s)); [| auto].
      destruct (owner SC m); [| auto]. apply afind_steps_mono; exact H.
  - apply afind_steps_mono; exact H.
Qed.



Lemma vlocate_app : forall a e b,
  vlocate e (a ++ b) = match vlocate e a with Some c => vlocate c b | None => None end.
Proof.
  induction a as [| s a IH]; intros e b; simpl; [reflexivity |].
  destruct s.
  - destruct (e_dir e) as [d |]; [| reflexivity]. destruct (lookup n d); [apply IH | reflexivity].
  - destruct (e_rpc e) as [[i o] |]; [apply IH | reflexivity].
  - destruct (e_rpc e) as [[i o] |]; [apply IH | reflexivity].
Qed.

Lemma pc_app : forall fl, prefix_closed fl ->
  forall suf mn pre, fl (mn, pre ++ suf) <> None -> fl (mn, pre) <> None.
Proof.
  intros fl Hpc suf. induction suf as [| s suf IH] using rev_ind; intros mn pre H.
  - rewrite app_nil_r in H. exact H.
  - apply IH. apply (Hpc mn (pre ++ suf) s). rewrite <- app_assoc. exact H.
Qed.

Lemma grafted_inv : forall fl p ns A q l, grafted fl p ns A q = Some l ->
  exists k rest c, q = (fst p, snd p ++ SChild k :: rest) /\ fl (fst p, snd p ++ [SChild k]) = None /\
                   lookup k A = Some c /\ option_map lab (vlocate (stamp ns c) rest) = Some l.
Proof.
  intros fl p ns A [qm qs] l H. unfold grafted in H. simpl in H.
  destruct (str_eqb qm (fst p)) eqn:E; [| discriminate]. apply str_eqb_eq in E. subst qm.
  destruct (strip (snd p) qs) as [[| [k | |] rest] |] eqn:Es; try discriminate.
  apply strip_spec in Es. subst qs.
  destruct (fl (fst p, snd p ++ [SChild k])) eqn:En; [discriminate |].
  destruct (lookup k A) as [c |] eqn:El; [| discriminate].
  exists k, rest, c. auto.
Qed.

Lemma grafted_intro : forall fl p ns A k rest c,
  fl (fst p, snd p ++ [SChild k]) = None -> lookup k A = Some c ->
  grafted fl p ns A (fst p, snd p ++ SChild k :: rest) = option_map lab (vlocate (stamp ns c) rest).
Proof.
  intros fl p ns A k rest c Hn Hl. unfold grafted. simpl.
  rewrite str_eqb_refl, strip_app, Hn, Hl. reflexivity.
Qed.

Lemma fle_agraft : forall fl p ns A, fle fl (agraft fl p ns A).
Proof. intros fl p ns A q l H. unfold agraft. rewrite H. reflexivity. Qed.

Lemma agraft_old : forall fl p ns A q l, fl q = Some l -> agraft fl p ns A q = Some l.
Proof. intros. apply fle_agraft. assumption. Qed.

Lemma last_cases : forall {A} (l : list A), l = [] \/ exists l' x, l = l' ++ [x].
Proof.
  intros A l. destruct l as [| a l] using rev_ind; [left; reflexivity | right; eauto].
Qed.

Lemma prefix_closed_agraft : forall fl p ns A, prefix_closed fl -> fl p <> None ->
  prefix_closed (agraft fl p ns A).
Proof.
  intros fl [pm ps] ns A Hpc Hp mn steps s H. unfold agraft in *.
  destruct (fl (mn, steps)) eqn:E; [discriminate |].
  destruct (fl (mn, steps ++ [s])) eqn:E2.
  { exfalso. apply (Hpc mn steps s); [rewrite E2; discriminate | exact E]. }
  destruct (grafted fl (pm, ps) ns A (mn, steps ++ [s])) as [l |] eqn:G; [| congruence].
  apply grafted_inv in G. simpl in G. destruct G as [k [rest [c [Hq [Hn [Hl Hv]]]]]].
  inversion Hq as [[Hm Hs]]. subst mn.
  destruct (last_cases rest) as [Hr | [r' [x Hr]]]; subst rest.
  - apply (app_inj_tail steps ps s (SChild k)) in Hs. destruct Hs as [Hs _]. subst steps.
    exfalso. apply Hp. exact E.
  - assert (Hs' : steps ++ [s] = (ps ++ SChild k :: r') ++ [x]).
    { rewrite Hs. rewrite <- app_assoc. reflexivity. }
    apply app_inj_tail in Hs'. destruct Hs' as [Hs' _]. subst steps.
    pose proof (grafted_intro fl (pm, ps) ns A k r' c Hn Hl) as Gi. simpl in Gi. rewrite Gi.
    rewrite vlocate_app in Hv. destruct (vlocate (stamp ns c) r'); [simpl; discriminate | discriminate].
Qed.

(* ------------------------------------------------------------------ conflicts *)
Definition absent (fl : flat) (p : pos) (k : str) : Prop := fl (fst p, snd p ++ [SChild k]) = None.

Lemma aconflict_fold : forall fl p kids seen c,
  snd (fold_left (fun (st : list str * bool) (kv : str * entry) =>
                    if (is_some (fl (fst p, snd p ++ [SChild (fst kv)])) || mem (fst kv) (fst st))%bool
                    then (fst st, true) else (fst kv :: fst st, snd st)) kids (seen, c)) = false <->
  c = false /\ (forall k, In k (map fst kids) -> absent fl p k /\ ~ In k seen) /\ NoDup (map fst kids).
Proof.
  intros fl p kids. induction kids as [| [k0 v0] kids IH]; intros seen c; simpl.
  - split; [intros H; split; [exact H | split; [intros k [] | constructor]] | intros [H _]; exact H].
  - destruct (is_some (fl (fst p, snd p ++ [SChild k0])) || mem k0 seen)%bool eqn:E.
    + rewrite IH. split.
      * intros [H _]. discriminate.
      * intros [_ [H _]]. exfalso. destruct (H k0 (or_introl eq_refl)) as [Ha Hs].
        unfold absent in Ha. rewrite Ha in E. simpl in E. apply mem_In in E. contradiction.
    + apply orb_false_iff in E. destruct E as [E1 E2].
      assert (Ha0 : absent fl p k0).
      { unfold absent. destruct (fl (fst p, snd p ++ [SChild k0])); [discriminate | reflexivity]. }
      assert (Hs0 : ~ In k0 seen).
      { intros Hin. apply mem_In in Hin. congruence. }
      rewrite IH. split.
      * intros [Hc [Hall Hnd]]. split; [exact Hc |]. split.
        -- intros k [Hk | Hk].
           ++ subst k. auto.
           ++ destruct (Hall k Hk) as [Ha Hs]. split; [exact Ha |]. intros Hin. apply Hs. right. exact Hin.
        -- constructor; [| exact Hnd]. intros Hin. destruct (Hall k0 Hin) as [_ Hs]. apply Hs. left. reflexivity.
      * intros [Hc [Hall Hnd]]. simpl in Hnd. apply NoDup_cons_iff in Hnd. destruct Hnd as [Hnotin Hnd'].
        split; [exact Hc |]. split; [| exact Hnd'].
        intros k Hk. destruct (Hall k (or_intror Hk)) as [Ha Hs]. split; [exact Ha |].
        intros [Hin | Hin]; [subst k; contradiction | contradiction].
Qed.

Lemma aconflict_false : forall fl p kids,
  aconflict fl p kids = false <->
  (forall k, In k (map fst kids) -> absent fl p k) /\ NoDup (map fst kids).
Proof.
  intros fl p kids. unfold aconflict. rewrite aconflict_fold. split.
  - intros [_ [H Hnd]]. split; [intros k Hk; apply (H k Hk) | exact Hnd].
  - intros [H Hnd]. split; [reflexivity |]. split; [| exact Hnd].
    intros k Hk. split; [apply H; exact Hk | intros []].
Qed.

Lemma aconflict_mono : forall fl fl' p kids, fle fl fl' ->
  aconflict fl p kids = true -> aconflict fl' p kids = true.
Proof.
  intros fl fl' p kids H Hc. destruct (aconflict fl' p kids) eqn:E; [reflexivity |].
  apply aconflict_false in E. destruct E as [Ha Hnd].
  assert (Hf : aconflict fl p kids = false).
  { apply aconflict_false. split; [| exact Hnd]. intros k Hk. unfold absent.
    eapply fle_None; [exact H | apply Ha; exact Hk]. }
  congruence.
Qed.

Lemma aconflict_feq : forall fl fl' p kids, feq fl fl' -> aconflict fl p kids = aconflict fl' p kids.
Proof.
  intros fl fl' p kids H.
  destruct (aconflict fl p kids) eqn:E1; destruct (aconflict fl' p kids) eqn:E2; try reflexivity.
  - apply aconflict_false in E2. destruct E2 as [Ha Hnd].
    assert (Hf : aconflict fl p kids = false).
    { apply aconflict_false. split; [| exact Hnd]. intros k Hk. unfold absent. rewrite H. apply Ha. exact Hk. }
    congruence.
  - apply aconflict_false in E1. destruct E1 as [Ha Hnd].
    assert (Hf : aconflict fl' p kids = false).
    { apply aconflict_false. split; [| exact Hnd]. intros k Hk. unfold absent. rewrite <- H. apply Ha. exact Hk. }
    congruence.
Qed.

Lemma grafted_feq : forall fl fl' p ns A q, feq fl fl' -> grafted fl p ns A q = grafted fl' p ns A q.
Proof.
  intros fl fl' p ns A q H. unfold grafted.
  destruct (str_eqb (fst q) (fst p)); [| reflexivity].
  destruct (strip (snd p) (snd q)) as [[| [k | |] rest] |]; try reflexivity.
  rewrite (H (fst p, snd p ++ [SChild k])). reflexivity.
Qed.

Lemma agraft_feq : forall fl fl' p ns A, feq fl fl' -> feq (agraft fl p ns A) (agraft fl' p ns A).
Proof.
  intros fl fl' p ns A H q. unfold agraft. rewrite (H q). rewrite (grafted_feq fl fl' p ns A q H). reflexivity.
Qed.



Lemma In_lookup : forall {A} k (l : list (str * A)), In k (map fst l) -> exists v, lookup k l = Some v.
Proof.
  intros A k l H. destruct (lookup k l) eqn:E; [eauto |]. apply lookup_None in E. contradiction.
Qed.

Lemma prefix_closed_feq : forall fl fl', prefix_closed fl -> feq fl fl' -> prefix_closed fl'.
Proof.
  intros fl fl' Hpc H mn steps s. rewrite <- (H (mn, steps ++ [s])), <- (H (mn, steps)). apply Hpc.
Qed.

Section View.
Variable SC : schema.

Lemma astep_inv : forall fl a t c, astep SC fl a = Some (t, c) ->
  exists p l, afind SC fl (a_mod a) (m_name (a_mod a), []) (a_path a) = Some p /\ fl p = Some l /\
              l_hasdir l = true /\ t = agraft fl p (owner_ns SC (a_mod a)) (a_dir a) /\
              c = (aconflict fl p (a_dir a) || a_err a)%bool.
Proof.
  intros fl a t c H. unfold astep in H.
  destruct (afind SC fl (a_mod a) (m_name (a_mod a), []) (a_path a)) as [p |] eqn:Ef; [| discriminate].
  destruct (fl p) as [l |] eqn:El; [| discriminate].
  destruct (l_hasdir l) eqn:Eh; [| discriminate].
  inversion H; subst. exists p, l. auto.
Qed.

Lemma astep_intro : forall fl a p l,
  afind SC fl (a_mod a) (m_name (a_mod a), []) (a_path a) = Some p -> fl p = Some l -> l_hasdir l = true ->
  astep SC fl a = Some (agraft fl p (owner_ns SC (a_mod a)) (a_dir a), (aconflict fl p (a_dir a) || a_err a)%bool).
Proof.
  intros fl a p l Hf Hl Hh. unfold astep. rewrite Hf, Hl, Hh. reflexivity.
Qed.

Lemma astep_feq : forall fl fl' a, feq fl fl' ->
  match astep SC fl a, astep SC fl' a with
  | Some (t, c), Some (t', c') => c = c' /\ feq t t'
  | None, None => True
  | _, _ => False
  end.
Proof.
  intros fl fl' a H. unfold astep.
  rewrite <- (afind_feq SC fl fl' _ _ _ H).
  destruct (afind SC fl (a_mod a) (m_name (a_mod a), []) (a_path a)) as [p |]; [| exact I].
  rewrite <- (H p). destruct (fl p) as [l |]; [| exact I].
  destruct (l_hasdir l); [| exact I].
  split; [rewrite (aconflict_feq fl fl' p _ H); reflexivity | apply agraft_feq; exact H].
Qed.

Lemma astep_compat_none : forall fl fl' a, feq fl fl' -> astep SC fl a = None -> astep SC fl' a = None.
Proof.
  intros fl fl' a H Hn. pose proof (astep_feq fl fl' a H) as Hc. rewrite Hn in Hc.
  destruct (astep SC fl' a); [contradiction | reflexivity].
Qed.

Lemma astep_compat_some : forall fl fl' a t c, feq fl fl' -> astep SC fl a = Some (t, c) ->
  exists t', astep SC fl' a = Some (t', c) /\ feq t t'.
Proof.
  intros fl fl' a t c H Hs. pose proof (astep_feq fl fl' a H) as Hc. rewrite Hs in Hc.
  destruct (astep SC fl' a) as [[t' c'] |]; [| contradiction]. destruct Hc as [Hc Ht]. subst c'. eauto.
Qed.

Lemma astep_Inv : forall fl a t c, prefix_closed fl -> astep SC fl a = Some (t, c) -> prefix_closed t.
Proof.
  intros fl a t c Hpc H. apply astep_inv in H. destruct H as [p [l [_ [Hl [_ [Ht _]]]]]]. subst t.
  apply prefix_closed_agraft; [exact Hpc | congruence].
Qed.

Lemma astep_persist : forall fl a b t u c, prefix_closed fl ->
  astep SC fl a = Some (t, false) -> astep SC fl b = Some (u, c) ->
  exists u' c', astep SC t b = Some (u', c') /\ (c = true -> c' = true).
Proof.
  intros fl a b t u c _ Ha Hb.
  apply astep_inv in Ha. destruct Ha as [p [lp [_ [_ [_ [Ht _]]]]]].
  apply astep_inv in Hb. destruct Hb as [q [lq [Hfq [Hlq [Hhq [_ Hc]]]]]].
  assert (Hle : fle fl t) by (subst t; apply fle_agraft).
  eexists. eexists. split.
  - apply (astep_intro t b q lq); [eapply afind_mono; eauto | apply Hle; exact Hlq | exact Hhq].
  - intros Hct. subst c. apply orb_true_iff in Hct. apply orb_true_iff. destruct Hct as [Hct | Hct]; [left | right; exact Hct].
    eapply aconflict_mono; eauto.
Qed.

(* a graft that is clean after another clean graft: the other order is clean too *)
Lemma cross_clean : forall fl p q nsa nsb A B, prefix_closed fl -> fl p <> None -> fl q <> None ->
  aconflict fl p A = false ->
  aconflict (agraft fl p nsa A) q B = false ->
  aconflict (agraft fl q nsb B) p A = false.
Proof.
  intros fl p q nsa nsb A B Hpc Hp Hq HA HB.
  apply aconflict_false in HA. destruct HA as [HAa HAn].
  apply aconflict_false in HB. destruct HB as [HBa HBn].
  apply aconflict_false. split; [| exact HAn].
  intros ka Hka. unfold absent. unfold agraft. rewrite (HAa ka Hka).
  destruct (grafted fl q nsb B (fst p, snd p ++ [SChild ka])) as [l |] eqn:G; [exfalso | reflexivity].
  apply grafted_inv in G. destruct G as [k [rest [c [Hx [Hn [Hl Hv]]]]]].
  inversion Hx as [[Hm Hs]].
  destruct (last_cases rest) as [Hr | [r' [x Hr]]]; subst rest.
  - apply (app_inj_tail (snd p) (snd q) (SChild ka) (SChild k)) in Hs. destruct Hs as [Hs Hk]. inversion Hk; subst k.
    assert (Epq : p = q) by (destruct p, q; simpl in *; congruence).
    subst q. apply lookup_In in Hl. specialize (HBa ka Hl). unfold absent, agraft in HBa.
    rewrite (HAa ka Hka) in HBa. destruct (In_lookup ka A Hka) as [ca Hca].
    pose proof (grafted_intro fl p nsa A ka [] ca (HAa ka Hka) Hca) as Gi.
    rewrite Gi in HBa. simpl in HBa. discriminate.
  - assert (Hs' : snd p ++ [SChild ka] = (snd q ++ SChild k :: r') ++ [x]).
    { rewrite Hs. rewrite <- app_assoc. reflexivity. }
    apply app_inj_tail in Hs'. destruct Hs' as [Hs' _].
    apply (pc_app fl Hpc r' (fst q) (snd q ++ [SChild k])); [| exact Hn].
    rewrite <- app_assoc. simpl. rewrite <- Hs', <- Hm. destruct p; exact Hp.
Qed.

Lemma grafted_same_check : forall fl fl' q ns B x,
  (forall k, In k (map fst B) -> fl (fst q, snd q ++ [SChild k]) = None /\ fl' (fst q, snd q ++ [SChild k]) = None) ->
  grafted fl' q ns B x = grafted fl q ns B x.
Proof.
  intros fl fl' q ns B x H. unfold grafted.
  destruct (str_eqb (fst x) (fst q)); [| reflexivity].
  destruct (strip (snd q) (snd x)) as [[| [k | |] rest] |]; try reflexivity.
  destruct (lookup k B) as [c |] eqn:El.
  - destruct (H k (lookup_In _ _ _ El)) as [H1 H2]. rewrite H1, H2. reflexivity.
  - destruct (fl' (fst q, snd q ++ [SChild k])), (fl (fst q, snd q ++ [SChild k])); reflexivity.
Qed.

Lemma grafted_exclusive : forall fl p q nsa nsb A B x l l', prefix_closed fl -> fl p <> None -> fl q <> None ->
  (forall k, In k (map fst B) -> agraft fl p nsa A (fst q, snd q ++ [SChild k]) = None) ->
  grafted fl p nsa A x = Some l -> grafted fl q nsb B x = Some l' -> False.
Proof.
  intros fl p q nsa nsb A B x l l' Hpc Hp Hq HB GA GB.
  apply grafted_inv in GA. destruct GA as [ka [ra [ca [Hxa [Hna [Hla Hva]]]]]].
  apply grafted_inv in GB. destruct GB as [kb [rb [cb [Hxb [Hnb [Hlb Hvb]]]]]].
  rewrite Hxa in Hxb. inversion Hxb as [[Hm Hs]].
  apply app_eq_app in Hs. destruct Hs as [m [[H1 H2] | [H1 H2]]].
  - (* snd p = snd q ++ m *)
    destruct m as [| y m].
    + simpl in H2. inversion H2; subst kb rb. rewrite app_nil_r in H1.
      assert (Epq : p = q) by (destruct p, q; simpl in *; congruence). subst q.
      specialize (HB ka (lookup_In _ _ _ Hlb)). unfold agraft in HB. rewrite Hna in HB.
      rewrite (grafted_intro fl p nsa A ka [] ca Hna Hla) in HB. simpl in HB. discriminate.
    + simpl in H2. inversion H2; subst y rb.
      apply (pc_app fl Hpc m (fst q) (snd q ++ [SChild kb])); [| exact Hnb].
      rewrite <- app_assoc. simpl. rewrite <- H1, <- Hm. destruct p; exact Hp.
  - destruct m as [| y m].
    + simpl in H2. inversion H2; subst kb rb. rewrite app_nil_r in H1.
      assert (Epq : p = q) by (destruct p, q; simpl in *; congruence). subst q.
      specialize (HB ka (lookup_In _ _ _ Hlb)). unfold agraft in HB. rewrite Hna in HB.
      rewrite (grafted_intro fl p nsa A ka [] ca Hna Hla) in HB. simpl in HB. discriminate.
    + simpl in H2. inversion H2; subst y ra.
      apply (pc_app fl Hpc m (fst p) (snd p ++ [SChild ka])); [| exact Hna].
      rewrite <- app_assoc. simpl. rewrite <- H1, Hm. destruct q; exact Hq.
Qed.

Lemma astep_comm : forall fl a b t1 t2 u1 u2 c1 c2, prefix_closed fl ->
  astep SC fl a = Some (t1, false) -> astep SC fl b = Some (t2, false) ->
  astep SC t1 b = Some (u1, c1) -> astep SC t2 a = Some (u2, c2) ->
  c1 = c2 /\ (c1 = false -> feq u1 u2).
Proof.
  intros fl a b t1 t2 u1 u2 c1 c2 Hpc Ha Hb Hb1 Ha2.
  apply astep_inv in Ha. destruct Ha as [p [lp [Hfp [Hlp [Hhp [Ht1 Hca]]]]]].
  apply astep_inv in Hb. destruct Hb as [q [lq [Hfq [Hlq [Hhq [Ht2 Hcb]]]]]].
  symmetry in Hca, Hcb. apply orb_false_iff in Hca. apply orb_false_iff in Hcb.
  destruct Hca as [HcA HeA]. destruct Hcb as [HcB HeB].
  set (nsa := owner_ns SC (a_mod a)) in *. set (nsb := owner_ns SC (a_mod b)) in *.
  set (A := a_dir a) in *. set (B := a_dir b) in *.
  assert (Hle1 : fle fl t1) by (subst t1; apply fle_agraft).
  assert (Hle2 : fle fl t2) by (subst t2; apply fle_agraft).
  apply astep_inv in Hb1. destruct Hb1 as [q' [lq' [Hfq' [_ [_ [Hu1 Hc1]]]]]].
  rewrite (afind_mono SC fl t1 _ _ _ q Hle1 Hfq) in Hfq'. inversion Hfq'; subst q'. clear Hfq'.
  apply astep_inv in Ha2. destruct Ha2 as [p' [lp' [Hfp' [_ [_ [Hu2 Hc2]]]]]].
  rewrite (afind_mono SC fl t2 _ _ _ p Hle2 Hfp) in Hfp'. inversion Hfp'; subst p'. clear Hfp'.
  fold nsb B in Hu1, Hc1. fold nsa A in Hu2, Hc2. rewrite HeB in Hc1. rewrite HeA in Hc2.
  rewrite orb_false_r in Hc1, Hc2.
  assert (Hp : fl p <> None) by congruence. assert (Hq : fl q <> None) by congruence.
  assert (X1 : aconflict t1 q B = false -> aconflict t2 p A = false).
  { intros H. subst t1 t2. eapply cross_clean; eauto. }
  assert (X2 : aconflict t2 p A = false -> aconflict t1 q B = false).
  { intros H. subst t1 t2. eapply cross_clean; eauto. }
  assert (Hcc : c1 = c2).
  { subst c1 c2. destruct (aconflict t1 q B) eqn:E1; destruct (aconflict t2 p A) eqn:E2; try reflexivity.
    - apply X2. reflexivity.
    - symmetry. apply X1. reflexivity. }
  split; [exact Hcc |]. intros Hc1f. rewrite Hc1f in Hcc. symmetry in Hcc.
  rewrite Hc1f in Hc1. rewrite Hcc in Hc2. symmetry in Hc1, Hc2.
  pose proof (proj1 (aconflict_false _ _ _) HcA) as [HAa _].
  pose proof (proj1 (aconflict_false _ _ _) HcB) as [HBa _].
  pose proof (proj1 (aconflict_false _ _ _) Hc1) as [HB1 _].
  pose proof (proj1 (aconflict_false _ _ _) Hc2) as [HA2 _].
  intros x. subst u1 u2. unfold agraft at 1 2.
  destruct (fl x) as [lx |] eqn:Ex.
  - rewrite (Hle1 _ _ Ex), (Hle2 _ _ Ex). reflexivity.
  - assert (E1 : t1 x = grafted fl p nsa A x) by (subst t1; unfold agraft; rewrite Ex; reflexivity).
    assert (E2 : t2 x = grafted fl q nsb B x) by (subst t2; unfold agraft; rewrite Ex; reflexivity).
    rewrite E1, E2.
    rewrite (grafted_same_check fl t1 q nsb B x).
    2:{ intros k Hk. split; [apply HBa; exact Hk | apply HB1; exact Hk]. }
    rewrite (grafted_same_check fl t2 p nsa A x).
    2:{ intros k Hk. split; [apply HAa; exact Hk | apply HA2; exact Hk]. }
    destruct (grafted fl p nsa A x) as [l1 |] eqn:G1; destruct (grafted fl q nsb B x) as [l2 |] eqn:G2; try reflexivity.
    exfalso. eapply (grafted_exclusive fl p q nsa nsb A B x l1 l2 Hpc Hp Hq); eauto.
    intros k Hk. specialize (HB1 k Hk). unfold absent in HB1. subst t1. exact HB1.
Qed.

(* T1 on views *)
Theorem view_confluence : forall fl P, prefix_closed fl ->
  forall fl1 P1, vrun SC fl P false fl1 P1 false -> vmaximal SC fl1 P1 ->
  forall fl2 P2 d2, vrun SC fl P false fl2 P2 d2 -> vmaximal SC fl2 P2 ->
  d2 = false /\ feq fl1 fl2 /\ Permutation P1 P2.
Proof.
  intros fl P Hpc. unfold vrun, vmaximal.
  apply (confluence feq (astep SC) prefix_closed feq_refl feq_sym feq_trans
           astep_compat_none astep_compat_some prefix_closed_feq astep_Inv astep_persist astep_comm
           (length P) fl P eq_refl Hpc).
Qed.

End View.



(* ================================================================== 4. the view of the model's forests *)
Lemma e_dir_set_dir : forall e d, e_dir (set_dir e d) = d.
Proof. destruct e; reflexivity. Qed.
Lemma e_rpc_set_dir : forall e d, e_rpc (set_dir e d) = e_rpc e.
Proof. destruct e; reflexivity. Qed.
Lemma e_dir_set_rpc : forall e r, e_dir (set_rpc e r) = e_dir e.
Proof. destruct e; reflexivity. Qed.
Lemma e_rpc_set_rpc : forall e r, e_rpc (set_rpc e r) = r.
Proof. destruct e; reflexivity. Qed.

Lemma lab_set_dir : forall e d d', e_dir e = Some d -> lab (set_dir e (Some d')) = lab e.
Proof. intros e d d' H. destruct e. simpl in H. subst. reflexivity. Qed.
Lemma lab_set_rpc : forall e r r', e_rpc e = Some r -> lab (set_rpc e (Some r')) = lab e.
Proof. intros e r r' H. destruct e. simpl in H. subst. reflexivity. Qed.

Lemma locate_app : forall a e b,
  locate e (a ++ b) = match locate e a with Some c => locate c b | None => None end.
Proof.
  induction a as [| s a IH]; intros e b; simpl; [reflexivity |].
  destruct s.
  - destruct (e_dir e) as [d |]; [| reflexivity]. destruct (lookup n d); [apply IH | reflexivity].
  - destruct (e_rpc e) as [[[i |] o] |]; try reflexivity. apply IH.
  - destruct (e_rpc e) as [[i [o |]] |]; try reflexivity. apply IH.
Qed.

Lemma locate_vlocate : forall steps e c, locate e steps = Some c -> vlocate e steps = Some c.
Proof.
  induction steps as [| s steps IH]; intros e c H; simpl in *; [exact H |].
  destruct s.
  - destruct (e_dir e) as [d |]; [| discriminate]. destruct (lookup n d); [apply IH; exact H | discriminate].
  - destruct (e_rpc e) as [[[i |] o] |]; try discriminate. simpl. apply IH; exact H.
  - destruct (e_rpc e) as [[i [o |]] |]; try discriminate. simpl. apply IH; exact H.
Qed.

Lemma locate_update_at : forall ps root te f r, locate root ps = Some te ->
  locate (update_at root ps f) (ps ++ r) = locate (f te) r.
Proof.
  induction ps as [| s ps IH]; intros root te f r H; simpl in *.
  - inversion H; subst. reflexivity.
  - destruct s.
    + destruct (e_dir root) as [d |] eqn:Ed; [| discriminate].
      destruct (lookup n d) as [c |] eqn:El; [| discriminate].
      rewrite e_dir_set_dir. rewrite lookup_update, str_eqb_refl, El. apply IH; exact H.
    + destruct (e_rpc root) as [[[i |] o] |] eqn:Er; try discriminate.
      rewrite e_rpc_set_rpc. apply IH; exact H.
    + destruct (e_rpc root) as [[i [o |]] |] eqn:Er; try discriminate.
      rewrite e_rpc_set_rpc. apply IH; exact H.
Qed.

(* labels after an update at a located path: below the path what the update made, elsewhere unchanged *)
Lemma vlocate_update_at : forall ps root te f, locate root ps = Some te -> lab (f te) = lab te ->
  forall xs, option_map lab (vlocate (update_at root ps f) xs) =
             match strip ps xs with
             | Some r => option_map lab (vlocate (f te) r)
             | None => option_map lab (vlocate root xs)
             end.
Proof.
  induction ps as [| s ps IH]; intros root te f H Hl xs; simpl in H.
  - inversion H; subst. reflexivity.
  - destruct s.
    + destruct (e_dir root) as [d |] eqn:Ed; [| discriminate].
      destruct (lookup n d) as [c |] eqn:El; [| discriminate].
      simpl update_at. rewrite Ed, El.
      destruct xs as [| x xs]; simpl.
      * rewrite (lab_set_dir root d _ Ed). reflexivity.
      * destruct x; simpl.
        -- rewrite e_dir_set_dir, Ed. rewrite lookup_update. rewrite (str_eqb_sym n n0).
           destruct (str_eqb n0 n) eqn:E.
           ++ apply str_eqb_eq in E. subst n0. rewrite El. apply (IH c te f H Hl xs).
           ++ reflexivity.
        -- rewrite e_rpc_set_dir. reflexivity.
        -- rewrite e_rpc_set_dir. reflexivity.
    + destruct (e_rpc root) as [[[i |] o] |] eqn:Er; try discriminate.
      simpl update_at. rewrite Er.
      destruct xs as [| x xs]; simpl.
      * rewrite (lab_set_rpc root _ _ Er). reflexivity.
      * destruct x; simpl.
        -- rewrite e_dir_set_rpc. reflexivity.
        -- rewrite e_rpc_set_rpc, Er. simpl. apply (IH i te f H Hl xs).
        -- rewrite e_rpc_set_rpc, Er. reflexivity.
    + destruct (e_rpc root) as [[i [o |]] |] eqn:Er; try discriminate.
      simpl update_at. rewrite Er.
      destruct xs as [| x xs]; simpl.
      * rewrite (lab_set_rpc root _ _ Er). reflexivity.
      * destruct x; simpl.
        -- rewrite e_dir_set_rpc. reflexivity.
        -- rewrite e_rpc_set_rpc, Er. reflexivity.
        -- rewrite e_rpc_set_rpc, Er. simpl. apply (IH o te f H Hl xs).
Qed.

Lemma flat_of_update_pos : forall F mn ps root te f,
  lookup mn F = Some root -> locate root ps = Some te -> lab (f te) = lab te ->
  forall x, flat_of (update_pos F (mn, ps) f) x =
            if str_eqb (fst x) mn then
              match strip ps (snd x) with
              | Some r => option_map lab (vlocate (f te) r)
              | None => flat_of F x
              end
            else flat_of F x.
Proof.
  intros F mn ps root te f HF Hl Hlab [xm xs]. unfold update_pos, flat_of. simpl. rewrite HF.
  rewrite lookup_update. destruct (str_eqb xm mn) eqn:E.
  - rewrite HF. apply str_eqb_eq in E. subst xm. rewrite HF.
    apply vlocate_update_at; assumption.
  - reflexivity.
Qed.

Lemma flat_of_below : forall F mn ps root te r, lookup mn F = Some root -> locate root ps = Some te ->
  flat_of F (mn, ps ++ r) = option_map lab (vlocate te r).
Proof.
  intros F mn ps root te r HF Hl. unfold flat_of. simpl. rewrite HF, vlocate_app.
  rewrite (locate_vlocate _ _ _ Hl). reflexivity.
Qed.

Lemma flat_of_at : forall F mn ps e, locate_pos F (mn, ps) = Some e -> flat_of F (mn, ps) = Some (lab e).
Proof.
  intros F mn ps e H. unfold locate_pos in H. simpl in H.
  destruct (lookup mn F) as [root |] eqn:HF; [| discriminate].
  rewrite <- (app_nil_r ps). rewrite (flat_of_below F mn ps root e [] HF H). reflexivity.
Qed.

(* an update that only changes what the view does not see *)
Lemma flat_of_update_pos_invisible : forall F mn ps te f,
  locate_pos F (mn, ps) = Some te -> (forall r, option_map lab (vlocate (f te) r) = option_map lab (vlocate te r)) ->
  feq (flat_of (update_pos F (mn, ps) f)) (flat_of F).
Proof.
  intros F mn ps te f Hl Hf x. unfold locate_pos in Hl. simpl in Hl.
  destruct (lookup mn F) as [root |] eqn:HF; [| discriminate].
  assert (Hlab : lab (f te) = lab te).
  { specialize (Hf []). simpl in Hf. congruence. }
  rewrite (flat_of_update_pos F mn ps root te f HF Hl Hlab x).
  destruct (str_eqb (fst x) mn) eqn:E; [| reflexivity].
  destruct (strip ps (snd x)) as [r |] eqn:Es; [| reflexivity].
  apply strip_spec in Es. apply str_eqb_eq in E. destruct x as [xm xs]. simpl in *. subst xm xs.
  rewrite (flat_of_below F mn ps root te r HF Hl). apply Hf.
Qed.

Lemma lookup_update_pos : forall F p f mn, lookup mn (update_pos F p f) = None <-> lookup mn F = None.
Proof.
  intros F p f mn. unfold update_pos. destruct (lookup (fst p) F) as [root |] eqn:E; [| tauto].
  rewrite lookup_update. destruct (str_eqb mn (fst p)) eqn:E2; [| tauto].
  apply str_eqb_eq in E2. subst mn. rewrite E. split; discriminate.
Qed.

(* ------------------------------------------------------------------ merge_dir *)
Definition stamp_opt (ns : option str) (c : entry) : entry :=
  match ns with Some _ => set_ns c ns | None => c end.

Lemma lookup_merge_dir : forall ns kids acc k,
  lookup k (fst (merge_dir acc ns kids)) =
  match lookup k (fst acc) with
  | Some c => Some c
  | None => option_map (stamp_opt ns) (lookup k kids)
  end.
Proof.
  intros ns kids. unfold merge_dir. induction kids as [| [k0 v0] kids IH]; intros [d e] k; simpl.
  - destruct (lookup k d); reflexivity.
  - destruct (lookup k0 d) as [c0 |] eqn:E0.
    + rewrite IH. simpl. destruct (lookup k d) as [c |] eqn:Ek; [reflexivity |].
      destruct (str_eqb k k0) eqn:E; [| reflexivity].
      apply str_eqb_eq in E. subst k0. congruence.
    + rewrite IH. simpl. rewrite lookup_app. simpl.
      destruct (lookup k d) as [c |] eqn:Ek; [reflexivity |].
      destruct (str_eqb k k0) eqn:E; [| reflexivity].
      unfold stamp_opt. destruct ns; reflexivity.
Qed.

Lemma merge_dir_conflict : forall (fl : flat) (p : pos) kids d seen c,
  (forall k, is_some (lookup k d) = (is_some (fl (fst p, snd p ++ [SChild k])) || mem k seen)%bool) ->
  snd (merge_dir (d, c) None kids) =
  snd (fold_left (fun (st : list str * bool) (kv : str * entry) =>
                    if (is_some (fl (fst p, snd p ++ [SChild (fst kv)])) || mem (fst kv) (fst st))%bool
                    then (fst st, true) else (fst kv :: fst st, snd st)) kids (seen, c)).
Proof.
  intros fl p kids. unfold merge_dir. induction kids as [| [k0 v0] kids IH]; intros d seen c H; simpl; [reflexivity |].
  rewrite <- (H k0). destruct (lookup k0 d) as [c0 |] eqn:E0; simpl.
  - apply IH. exact H.
  - apply IH. intros k. rewrite lookup_app. specialize (H k). unfold mem in *. simpl.
    destruct (lookup k d); destruct (str_eqb k k0); simpl in *;
      destruct (is_some (fl (fst p, snd p ++ [SChild k]))); destruct (existsb (str_eqb k) seen);
      simpl in *; congruence.
Qed.



(* ------------------------------------------------------------------ Find is afind on the view *)
Definition locatable (F : forest) (q : pos) : Prop :=
  forall root, lookup (fst q) F = Some root -> locate root (snd q) <> None.

Lemma find_steps_None : forall parts F, find_steps F None parts = (None, F).
Proof. intros parts F. destruct parts; reflexivity. Qed.

Lemma flat_of_no_module : forall F mn xs, lookup mn F = None -> flat_of F (mn, xs) = None.
Proof. intros F mn xs H. unfold flat_of. simpl. rewrite H. reflexivity. Qed.

Lemma locatable_None : forall F mn steps, locatable F (mn, steps) -> locate_pos F (mn, steps) = None ->
  lookup mn F = None.
Proof.
  intros F mn steps HL H. unfold locate_pos in H. simpl in H.
  destruct (lookup mn F) as [root |] eqn:HF; [| reflexivity].
  exfalso. apply (HL root HF). exact H.
Qed.

Lemma io_invisible_in : forall e o r, e_rpc e = Some (None, o) ->
  option_map lab (vlocate (set_rpc e (Some (Some (empty_io true), o))) r) = option_map lab (vlocate e r).
Proof.
  intros e o r H. destruct r as [| s r]; simpl.
  - rewrite (lab_set_rpc e _ _ H). reflexivity.
  - destruct s.
    + rewrite e_dir_set_rpc. reflexivity.
    + rewrite e_rpc_set_rpc, H. reflexivity.
    + rewrite e_rpc_set_rpc, H. reflexivity.
Qed.

Lemma io_invisible_out : forall e i r, e_rpc e = Some (i, None) ->
  option_map lab (vlocate (set_rpc e (Some (i, Some (empty_io false)))) r) = option_map lab (vlocate e r).
Proof.
  intros e i r H. destruct r as [| s r]; simpl.
  - rewrite (lab_set_rpc e _ _ H). reflexivity.
  - destruct s.
    + rewrite e_dir_set_rpc. reflexivity.
    + rewrite e_rpc_set_rpc, H. reflexivity.
    + rewrite e_rpc_set_rpc, H. reflexivity.
Qed.

Lemma locatable_extend : forall F mn steps root e s c,
  lookup mn F = Some root -> locate root steps = Some e -> locate e [s] = Some c ->
  locatable F (mn, steps ++ [s]).
Proof.
  intros F mn steps root e s c HF Hl Hs root' HF'. cbn [fst snd] in *. rewrite HF in HF'. inversion HF'; subst root'.
  rewrite locate_app, Hl, Hs. discriminate.
Qed.

Lemma locatable_update : forall F mn steps root e f s c,
  lookup mn F = Some root -> locate root steps = Some e -> locate (f e) [s] = Some c ->
  locatable (update_pos F (mn, steps) f) (mn, steps ++ [s]).
Proof.
  intros F mn steps root e f s c HF Hl Hs root' HF'. cbn [fst snd] in *.
  unfold update_pos in HF'. cbn [fst snd] in HF'. rewrite HF in HF'. rewrite lookup_update, str_eqb_refl, HF in HF'.
  inversion HF'; subst root'. rewrite (locate_update_at steps root e f [s] Hl), Hs. discriminate.
Qed.

Lemma find_steps_sim : forall parts F p, (forall q, p = Some q -> locatable F q) ->
  forall op F1, find_steps F p parts = (op, F1) ->
  feq (flat_of F1) (flat_of F) /\ op = afind_steps (flat_of F) p parts /\ (forall q, op = Some q -> locatable F1 q).
Proof.
  induction parts as [| part rest IH]; intros F p HL op F1 Hfs.
  - simpl in Hfs. inversion Hfs; subst. split; [apply feq_refl |]. split; [reflexivity | exact HL].
  - simpl in Hfs. simpl afind_steps.
    destruct p as [[mn steps] |].
    2:{ inversion Hfs; subst. split; [apply feq_refl |]. split; [reflexivity | intros q Hq; discriminate]. }
    destruct (str_eqb part s_dot); [apply (IH F _ HL op F1 Hfs) |].
    destruct (str_eqb part s_dotdot).
    { destruct (rev steps) as [| x up] eqn:Er.
      - rewrite find_steps_None in Hfs. inversion Hfs; subst.
        split; [apply feq_refl |]. split; [reflexivity | intros q Hq; discriminate].
      - apply (IH F (Some (mn, rev up))); [| exact Hfs].
        intros q Hq. inversion Hq; subst q. intros root HF. simpl in *.
        assert (Hs : steps = rev up ++ [x]).
        { rewrite <- (rev_involutive steps), Er. reflexivity. }
        pose proof (HL (mn, steps) eq_refl root HF) as Hne. simpl in Hne. rewrite Hs, locate_app in Hne.
        destruct (locate root (rev up)); [discriminate | contradiction]. }
    destruct (locate_pos F (mn, steps)) as [e |] eqn:El.
    2:{ inversion Hfs; subst.
        rewrite (flat_of_no_module F1 mn steps (locatable_None F1 mn steps (HL _ eq_refl) El)).
        split; [apply feq_refl |]. split; [reflexivity | intros q Hq; discriminate]. }
    rewrite (flat_of_at F mn steps e El).
    pose proof El as El'. unfold locate_pos in El'. simpl in El'.
    destruct (lookup mn F) as [root |] eqn:HF; [| discriminate].
    unfold lab at 1. simpl l_isrpc. simpl l_hasdir.
    destruct (e_rpc e) as [[i o] |] eqn:Er; simpl is_some.
    + (* rpc or action *)
      destruct (str_eqb (snd (getPrefix part)) s_input).
      { destruct i as [x |].
        - apply (IH F (Some (mn, steps ++ [SIn]))); [| exact Hfs].
          intros q Hq. inversion Hq; subst q.
          apply (locatable_extend F mn steps root e SIn x HF El'). simpl. rewrite Er. reflexivity.
        - set (f := fun x : entry => set_rpc x (Some (Some (empty_io true), o))) in *.
          assert (Hinv : feq (flat_of (update_pos F (mn, steps) f)) (flat_of F)).
          { apply (flat_of_update_pos_invisible F mn steps e f El). intros r. apply io_invisible_in. exact Er. }
          destruct (IH (update_pos F (mn, steps) f) (Some (mn, steps ++ [SIn]))) with (op := op) (F1 := F1)
            as [I1 [I2 I3]]; [| exact Hfs |].
          { intros q Hq. inversion Hq; subst q.
            apply (locatable_update F mn steps root e f SIn (empty_io true) HF El').
            unfold f. simpl. rewrite e_rpc_set_rpc. reflexivity. }
          split; [eapply feq_trans; eauto |]. split; [| exact I3].
          rewrite I2. apply afind_steps_feq. exact Hinv. }
      destruct (str_eqb (snd (getPrefix part)) s_output).
      { destruct o as [x |].
        - apply (IH F (Some (mn, steps ++ [SOut]))); [| exact Hfs].
          intros q Hq. inversion Hq; subst q.
          apply (locatable_extend F mn steps root e SOut x HF El'). simpl. rewrite Er. reflexivity.
        - set (f := fun x : entry => set_rpc x (Some (i, Some (empty_io false)))) in *.
          assert (Hinv : feq (flat_of (update_pos F (mn, steps) f)) (flat_of F)).
          { apply (flat_of_update_pos_invisible F mn steps e f El). intros r. apply io_invisible_out. exact Er. }
          destruct (IH (update_pos F (mn, steps) f) (Some (mn, steps ++ [SOut]))) with (op := op) (F1 := F1)
            as [I1 [I2 I3]]; [| exact Hfs |].
          { intros q Hq. inversion Hq; subst q.
            apply (locatable_update F mn steps root e f SOut (empty_io false) HF El').
            unfold f. simpl. rewrite e_rpc_set_rpc. reflexivity. }
          split; [eapply feq_trans; eauto |]. split; [| exact I3].
          rewrite I2. apply afind_steps_feq. exact Hinv. }
      inversion Hfs; subst. split; [apply feq_refl |]. split; [reflexivity | intros q Hq; discriminate].
    + (* ordinary node *)
      destruct (str_eqb (snd (getPrefix part)) s_dot); [apply (IH F _ HL op F1 Hfs) |].
      destruct ((match snd (getPrefix part) with [] => true | _ => false end) || str_eqb (snd (getPrefix part)) s_dotdot)%bool.
      { inversion Hfs; subst. split; [apply feq_refl |]. split; [reflexivity | intros q Hq; discriminate]. }
      destruct (e_dir e) as [d |] eqn:Ed; simpl is_some.
      * rewrite (flat_of_below F mn steps root e [SChild (snd (getPrefix part))] HF El'). simpl vlocate. rewrite Ed.
        destruct (lookup (snd (getPrefix part)) d) as [c |] eqn:Elk; simpl option_map.
        -- apply (IH F (Some (mn, steps ++ [SChild (snd (getPrefix part))]))); [| exact Hfs].
           intros q Hq. inversion Hq; subst q.
           apply (locatable_extend F mn steps root e (SChild (snd (getPrefix part))) c HF El'). simpl. rewrite Ed, Elk. reflexivity.
        -- rewrite find_steps_None in Hfs. inversion Hfs; subst.
           split; [apply feq_refl |]. split; [reflexivity | intros q Hq; discriminate].
      * rewrite find_steps_None in Hfs. inversion Hfs; subst.
        split; [apply feq_refl |]. split; [reflexivity | intros q Hq; discriminate].
Qed.

Lemma locatable_root : forall F mn, locatable F (mn, []).
Proof. intros F mn root _. simpl. discriminate. Qed.

Lemma Find_sim : forall SC F ctx start name op F1, Find SC F ctx start name = (op, F1) ->
  locatable F start ->
  feq (flat_of F1) (flat_of F) /\ op = afind SC (flat_of F) ctx start name /\ (forall q, op = Some q -> locatable F1 q).
Proof.
  intros SC F ctx start name op F1 H HLs. unfold Find in H. unfold afind.
  assert (Triv : forall (o : option pos), (None, F) = (o, F1) ->
                 feq (flat_of F1) (flat_of F) /\ o = None /\ (forall q, o = Some q -> locatable F1 q)).
  { intros o Ho. inversion Ho; subst. split; [apply feq_refl |]. split; [reflexivity | intros q Hq; discriminate]. }
  destruct name as [| c name]; [apply Triv; exact H |].
  destruct (split_on cSLASH [] (c :: name)) as [| [| x xs] l].
  - apply (find_steps_sim [] F (Some start)); [| exact H]. intros q Hq. inversion Hq; subst. exact HLs.
  - destruct l as [| first rest].
    + inversion H; subst. split; [apply feq_refl |]. split; [reflexivity |].
      intros q Hq. inversion Hq; subst. apply locatable_root.
    + destruct (fst (getPrefix first)).
      * apply (find_steps_sim (first :: rest) F (Some (_, []))); [| exact H].
        intros q Hq. inversion Hq; subst. apply locatable_root.
      * destruct (FindModuleByPrefix SC ctx (n :: s)); [| apply Triv; exact H].
        destruct (owner SC m); [| apply Triv; exact H].
        apply (find_steps_sim (first :: rest) F (Some (m_name m0, []))); [| exact H].
        intros q Hq. inversion Hq; subst. apply locatable_root.
  - apply (find_steps_sim ((x :: xs) :: l) F (Some start)); [| exact H]. intros q Hq. inversion Hq; subst. exact HLs.
Qed.



(* ------------------------------------------------------------------ the model's graft is agraft on the view *)
Definition graft_fun (ns : str) (kids : list (str * entry)) (te : entry) : entry :=
  match e_dir te with
  | Some d => set_dir te (Some (fst (merge_dir (d, false) (Some ns) kids)))
  | None => te
  end.

Lemma graft_sim : forall F1 mn ps root te d ns kids,
  lookup mn F1 = Some root -> locate root ps = Some te -> e_dir te = Some d ->
  feq (flat_of (update_pos F1 (mn, ps) (graft_fun ns kids))) (agraft (flat_of F1) (mn, ps) ns kids).
Proof.
  intros F1 mn ps root te d ns kids HF Hl Ed [xm xs].
  assert (Hlab : lab (graft_fun ns kids te) = lab te).
  { unfold graft_fun. rewrite Ed. apply (lab_set_dir te d _ Ed). }
  rewrite (flat_of_update_pos F1 mn ps root te _ HF Hl Hlab (xm, xs)).
  unfold agraft, grafted. cbn [fst snd].
  destruct (str_eqb xm mn) eqn:E.
  2:{ destruct (flat_of F1 (xm, xs)); reflexivity. }
  apply str_eqb_eq in E. subst xm.
  destruct (strip ps xs) as [r |] eqn:Es.
  2:{ destruct (flat_of F1 (mn, xs)); reflexivity. }
  apply strip_spec in Es. subst xs.
  rewrite (flat_of_below F1 mn ps root te r HF Hl).
  unfold graft_fun. rewrite Ed.
  destruct r as [| [k | |] rest].
  - simpl. rewrite (lab_set_dir te d _ Ed). reflexivity.
  - simpl vlocate. rewrite e_dir_set_dir, Ed. rewrite lookup_merge_dir. cbn [fst].
    rewrite (flat_of_below F1 mn ps root te [SChild k] HF Hl). simpl vlocate. rewrite Ed.
    destruct (lookup k d) as [c |] eqn:Ek.
    + simpl. destruct (option_map lab (vlocate c rest)); reflexivity.
    + simpl. destruct (lookup k kids) as [ck |]; simpl; reflexivity.
  - simpl vlocate. rewrite e_rpc_set_dir.
    destruct (option_map lab match e_rpc te with Some (i, _) => vlocate (io_or_empty true i) rest | None => None end); reflexivity.
  - simpl vlocate. rewrite e_rpc_set_dir.
    destruct (option_map lab match e_rpc te with Some (_, o) => vlocate (io_or_empty false o) rest | None => None end); reflexivity.
Qed.

Lemma cstep_sim : forall SC F a F' r, cstep SC F a = (F', r) ->
  match r with
  | None => astep SC (flat_of F) a = None /\ feq (flat_of F') (flat_of F)
  | Some c => exists t, astep SC (flat_of F) a = Some (t, c) /\ feq (flat_of F') t
  end.
Proof.
  intros SC F a F' r H. unfold cstep in H.
  destruct (Find SC F (a_mod a) (m_name (a_mod a), []) (a_path a)) as [target F1] eqn:EF.
  destruct (Find_sim SC F _ _ _ _ _ EF (locatable_root F _)) as [Hfeq [Htar Hloc]].
  unfold astep. rewrite <- Htar.
  destruct target as [[mn ps] |].
  2:{ inversion H; subst. split; [reflexivity | exact Hfeq]. }
  rewrite <- (Hfeq (mn, ps)).
  destruct (locate_pos F1 (mn, ps)) as [te |] eqn:El.
  2:{ inversion H; subst.
      rewrite (flat_of_no_module F' mn ps (locatable_None F' mn ps (Hloc _ eq_refl) El)).
      split; [reflexivity | exact Hfeq]. }
  rewrite (flat_of_at F1 mn ps te El). change (l_hasdir (lab te)) with (is_some (e_dir te)).
  destruct (e_dir te) as [d |] eqn:Ed; cbn [is_some].
  2:{ inversion H; subst. split; [reflexivity | exact Hfeq]. }
  inversion H; subst F' r. clear H.
  pose proof El as El'. unfold locate_pos in El'. cbn [fst snd] in El'.
  destruct (lookup mn F1) as [root |] eqn:HF; [| discriminate].
  eexists. split.
  - f_equal. f_equal. f_equal.
    rewrite <- (aconflict_feq (flat_of F1) (flat_of F) (mn, ps) (a_dir a) Hfeq).
    unfold aconflict. symmetry. apply merge_dir_conflict.
    intros k. cbn [fst snd]. rewrite (flat_of_below F1 mn ps root te [SChild k] HF El').
    simpl vlocate. rewrite Ed. simpl. rewrite orb_false_r. destruct (lookup k d); reflexivity.
  - eapply feq_trans; [| apply agraft_feq; exact Hfeq].
    apply (graft_sim F1 mn ps root te d _ _ HF El' Ed).
Qed.



(* ================================================================== 5. the model's loop is a maximal run *)
Section Loop.
Variable SC : schema.

Definition vrun_n := @run_n flat feq (astep SC).

Lemma vrun_n_start : forall n s P d s' P' d' s0 P0, vrun_n n s P d s' P' d' -> feq s0 s -> Permutation P0 P ->
  vrun_n n s0 P0 d s' P' d'.
Proof.
  intros. unfold vrun_n in *.
  eapply (run_n_start_eqv feq (astep SC) feq_sym feq_trans (astep_compat_some SC)); eauto.
Qed.

Lemma vrun_n_end : forall n s P d s' P' d' s1 P1, vrun_n n s P d s' P' d' -> feq s' s1 -> Permutation P' P1 ->
  vrun_n n s P d s1 P1 d'.
Proof.
  intros. unfold vrun_n in *. eapply (run_n_end_eqv feq (astep SC) feq_trans); eauto.
Qed.

Lemma vrun_n_trans : forall n s P d s1 P1 d1 m s2 P2 d2, vrun_n n s P d s1 P1 d1 -> vrun_n m s1 P1 d1 s2 P2 d2 ->
  vrun_n (n + m) s P d s2 P2 d2.
Proof.
  intros. unfold vrun_n in *.
  eapply (run_n_trans feq (astep SC) feq_sym feq_trans (astep_compat_some SC)); eauto.
Qed.

Lemma augment_module_cons : forall F err a rest b,
  augment_module SC F err (a :: rest) b =
  match cstep SC F a with
  | (F2, Some c) => let '(F3, e3, n, un) := augment_module SC F2 (err || c) rest b in (F3, e3, S n, un)
  | (F1, None) => let '(F3, e3, n, un) := augment_module SC F1 (err || b) rest b in (F3, e3, n, a :: un)
  end.
Proof.
  intros F err a rest b. simpl. unfold cstep.
  destruct (Find SC F (a_mod a) (m_name (a_mod a), []) (a_path a)) as [target F1].
  destruct target as [p |]; [| reflexivity].
  destruct (locate_pos F1 p) as [te |]; [| reflexivity].
  destruct (e_dir te) as [d |]; [| reflexivity].
  rewrite orb_assoc. reflexivity.
Qed.

Definition is_nil {A} (l : list A) : bool := match l with [] => true | _ => false end.

(* one call of Entry.Augment on a module's pending list: a run of n steps that leaves un; the error flag is
   raised by dirty steps and, when addErrors is set, by any augment left over *)
Lemma augment_module_spec : forall pend F err b F' err' n un,
  augment_module SC F err pend b = (F', err', n, un) ->
  exists x, (forall d, vrun_n n (flat_of F) pend d (flat_of F') un (d || x)) /\
            err' = (err || x || (b && negb (is_nil un)))%bool /\
            (n = O -> forall a, In a pend -> astep SC (flat_of F) a = None).
Proof.
  induction pend as [| a rest IH]; intros F err b F' err' n un H.
  - simpl in H. inversion H; subst. exists false. split; [| split].
    + intros d. rewrite orb_false_r. apply runn_nil; [apply feq_refl | apply Permutation_refl].
    + simpl. rewrite andb_false_r, !orb_false_r. reflexivity.
    + intros _ a [].
  - rewrite augment_module_cons in H.
    destruct (cstep SC F a) as [F2 [c |]] eqn:Ec; pose proof (cstep_sim SC F a F2 _ Ec) as Hs; cbn beta iota in Hs.
    + destruct Hs as [t [Hst Ht]].
      destruct (augment_module SC F2 (err || c) rest b) as [[[F3 e3] n3] un3] eqn:Er.
      inversion H; subst F' err' n un. clear H.
      destruct (IH F2 (err || c)%bool b F3 e3 n3 un3 Er) as [x [Hrun [He _]]].
      exists (c || x)%bool. split; [| split].
      * intros d. eapply runn_step; [exact Hst | apply feq_sym; exact Ht | apply Permutation_refl |].
        rewrite orb_assoc. apply Hrun.
      * rewrite He. rewrite !orb_assoc. reflexivity.
      * intros Hn. discriminate.
    + destruct Hs as [Hst Ht].
      destruct (augment_module SC F2 (err || b) rest b) as [[[F3 e3] n3] un3] eqn:Er.
      inversion H; subst F' err' n un. clear H.
      destruct (IH F2 (err || b)%bool b F3 e3 n3 un3 Er) as [x [Hrun [He Hstuck]]].
      exists x. split; [| split].
      * intros d. specialize (Hrun d).
        apply (vrun_n_start n3 (flat_of F2) (a :: rest) d (flat_of F3) (a :: un3) (d || x) (flat_of F) (a :: rest));
          [| apply feq_sym; exact Ht | apply Permutation_refl].
        apply (vrun_n_start n3 (flat_of F2) (rest ++ [a]) d (flat_of F3) (a :: un3) (d || x));
          [| apply feq_refl | apply Permutation_cons_append].
        apply (vrun_n_end n3 (flat_of F2) (rest ++ [a]) d (flat_of F3) (un3 ++ [a]) (d || x));
          [| apply feq_refl | apply Permutation_sym; apply Permutation_cons_append].
        unfold vrun_n. apply run_n_frame. exact Hrun.
      * rewrite He. simpl is_nil. simpl negb. destruct err, b, x, (is_nil un3); reflexivity.
      * intros Hn a' [Ha' | Ha'].
        -- subst a'. exact Hst.
        -- apply (astep_compat_none SC (flat_of F2) (flat_of F) a' Ht). apply (Hstuck Hn a' Ha').
Qed.

Lemma vrun_n_length : forall n s P d s' P' d', vrun_n n s P d s' P' d' -> length P = (n + length P')%nat.
Proof. intros. unfold vrun_n in *. eapply run_n_length; eauto. Qed.

End Loop.



(* ------------------------------------------------------------------ the pendings table and swap-remove *)
Lemma update_absent : forall {A} n (v : A) l, lookup n l = None -> update n v l = l.
Proof.
  intros A n v l. induction l as [| [k' v'] l IH]; simpl; intros H; [reflexivity |].
  destruct (str_eqb n k'); [discriminate | rewrite IH; auto].
Qed.

Lemma all_pending_update : forall (P : pendings) mn pend, lookup mn P = Some pend ->
  exists R, Permutation (all_pending P) (pend ++ R) /\
            forall un, Permutation (all_pending (update mn un P)) (un ++ R).
Proof.
  unfold all_pending. induction P as [| [k v] P IH]; simpl; intros mn pend H; [discriminate |].
  destruct (str_eqb mn k) eqn:E.
  - inversion H; subst v. exists (concat (map snd P)). split; [apply Permutation_refl |].
    intros un. simpl. apply Permutation_refl.
  - destruct (IH mn pend H) as [R [H1 H2]]. exists (v ++ R). split.
    + eapply perm_trans; [apply Permutation_app_head; exact H1 |]. apply Permutation_app_swap_app.
    + intros un. simpl. eapply perm_trans; [apply Permutation_app_head; apply H2 |]. apply Permutation_app_swap_app.
Qed.

Lemma In_all_pending : forall (P : pendings) a, In a (all_pending P) -> NoDup (map fst P) ->
  exists mn pend, lookup mn P = Some pend /\ In a pend.
Proof.
  unfold all_pending. induction P as [| [k v] P IH]; simpl; intros a H Hnd; [contradiction |].
  apply in_app_or in H. inversion Hnd as [| ? ? Hnotin Hnd']; subst. destruct H as [H | H].
  - exists k, v. rewrite str_eqb_refl. auto.
  - destruct (IH a H Hnd') as [mn [pend [Hl Hin]]]. exists mn, pend. split; [| exact Hin].
    destruct (str_eqb mn k) eqn:E; [| exact Hl].
    apply str_eqb_eq in E. subst mn. exfalso. apply Hnotin. eapply lookup_In; eauto.
Qed.

Definition swap_remove (i : nat) (mods : list str) (mn : str) : list str :=
  removelast (firstn i mods ++ (match rev mods with x :: _ => x | [] => mn end) :: skipn (S i) mods).

Lemma swap_remove_spec : forall mods i mn, nth_error mods i = Some mn ->
  Permutation mods (mn :: swap_remove i mods mn) /\ firstn i (swap_remove i mods mn) = firstn i mods.
Proof.
  intros mods i mn H. destruct (nth_error_split mods i H) as [l1 [l2 [Hm Hlen]]].
  unfold swap_remove.
  assert (Hf : firstn i mods = l1).
  { subst mods i. rewrite firstn_app, Nat.sub_diag, firstn_all. simpl. apply app_nil_r. }
  assert (Hs : skipn (S i) mods = l2).
  { subst mods i. rewrite skipn_app. rewrite skipn_all2 by lia.
    replace (S (length l1) - length l1)%nat with 1%nat by lia. reflexivity. }
  rewrite Hf, Hs. clear Hf Hs.
  destruct (last_cases l2) as [Hl2 | [l2' [z Hl2]]]; subst l2.
  - subst mods. rewrite rev_unit. rewrite removelast_last. split.
    + apply Permutation_sym. apply Permutation_cons_append.
    + rewrite <- Hlen. apply firstn_all.
  - assert (Hm' : mods = (l1 ++ mn :: l2') ++ [z]).
    { rewrite Hm. rewrite <- app_assoc. reflexivity. }
    assert (Hr : rev mods = z :: rev (l1 ++ mn :: l2')) by (rewrite Hm'; apply rev_unit). rewrite Hr.
    replace (l1 ++ z :: l2' ++ [z]) with ((l1 ++ z :: l2') ++ [z]) by (rewrite <- app_assoc; reflexivity).
    rewrite removelast_last. split.
    + rewrite Hm. apply Permutation_sym. eapply perm_trans; [apply Permutation_middle |].
      apply Permutation_app_head. apply perm_skip.
      eapply perm_trans; [apply Permutation_cons_append | apply Permutation_refl].
    + rewrite firstn_app. rewrite <- Hlen, Nat.sub_diag, firstn_all. simpl. apply app_nil_r.
Qed.

Lemma firstn_S_nth : forall {A} (l : list A) i x, nth_error l i = Some x -> firstn (S i) l = firstn i l ++ [x].
Proof.
  intros A l. induction l as [| y l IH]; intros i x H.
  - destruct i; discriminate.
  - destruct i; simpl in *.
    + inversion H; reflexivity.
    + rewrite (IH i x H). reflexivity.
Qed.



Section Pass.
Variable SC : schema.

Definition pend_of (P : pendings) (mn : str) : list aug := match lookup mn P with Some l => l | None => [] end.

(* every module that still has pending augments is in the work list *)
Definition covers (P : pendings) (mods : list str) : Prop :=
  forall mn pend, lookup mn P = Some pend -> pend <> [] -> In mn mods.
(* no pending augment of the listed modules is applicable *)
Definition stuck (F : forest) (P : pendings) (l : list str) : Prop :=
  forall mn pend a, In mn l -> lookup mn P = Some pend -> In a pend -> astep SC (flat_of F) a = None.

(* every listed module still has something pending *)
Definition tight (P : pendings) (l : list str) : Prop := forall mn, In mn l -> pend_of P mn <> [].

Lemma vrun_n_zero : forall s P d s' P' d', vrun_n SC O s P d s' P' d' -> feq s s' /\ Permutation P P' /\ d = d'.
Proof. intros s P d s' P' d' H. inversion H; subst. auto. Qed.

(* one module's turn, seen on the whole table *)
Lemma module_turn : forall F err P mn F1 err1 p un,
  augment_module SC F err (pend_of P mn) false = (F1, err1, p, un) ->
  exists x, (forall d, vrun_n SC p (flat_of F) (all_pending P) d (flat_of F1) (all_pending (update mn un P)) (d || x)) /\
            err1 = (err || x)%bool /\
            (p = O -> feq (flat_of F) (flat_of F1) /\ Permutation (pend_of P mn) un /\
                      forall a, In a (pend_of P mn) -> astep SC (flat_of F) a = None).
Proof.
  intros F err P mn F1 err1 p un H.
  destruct (augment_module_spec SC _ _ _ _ _ _ _ _ H) as [x [Hrun [He Hstuck]]].
  exists x. split; [| split].
  - intros d. unfold pend_of in *. destruct (lookup mn P) as [pend |] eqn:El.
    + destruct (all_pending_update P mn pend El) as [R [H1 H2]].
      apply (vrun_n_start SC p (flat_of F) (pend ++ R) d _ _ _ (flat_of F) (all_pending P));
        [| apply feq_refl | exact H1].
      apply (vrun_n_end SC p (flat_of F) (pend ++ R) d (flat_of F1) (un ++ R));
        [| apply feq_refl | apply Permutation_sym; apply H2].
      unfold vrun_n. apply run_n_frame. apply Hrun.
    + simpl in H. inversion H; subst. rewrite (update_absent mn [] P El).
      specialize (Hrun d). exact (vrun_n_start SC _ _ _ _ _ _ _ _ _
                (vrun_n_end SC _ _ _ _ _ _ _ _ _ (run_n_frame _ _ _ _ _ _ _ _ _ Hrun (all_pending P)) (feq_refl _) (Permutation_refl _))
                (feq_refl _) (Permutation_refl _)).
  - rewrite He. rewrite andb_false_l, orb_false_r. reflexivity.
  - intros Hp. subst p. destruct (vrun_n_zero _ _ _ _ _ _ (Hrun false)) as [Hf [Hp _]].
    split; [exact Hf |]. split; [exact Hp |]. apply Hstuck. reflexivity.
Qed.

Lemma augment_pass_spec : forall fuel F err P mods i pr F' err' P' mods' pr',
  augment_pass SC fuel F err P mods i pr = (F', err', P', mods', pr') ->
  (length mods - i <= fuel)%nat ->
  exists x, (forall d, vrun_n SC (pr' - pr) (flat_of F) (all_pending P) d (flat_of F') (all_pending P') (d || x)) /\
            err' = (err || x)%bool /\ (pr <= pr')%nat /\ map fst P' = map fst P /\
            (covers P mods -> covers P' mods') /\
            (pr' = pr -> stuck F P (firstn i mods) -> stuck F' P' mods') /\
            (pr' = pr -> tight P (firstn i mods) -> tight P' mods').
Proof.
  induction fuel as [| f IH]; intros F err P mods i pr F' err' P' mods' pr' H Hfuel.
  - simpl in H. inversion H; subst. exists false.
    split; [intros d; rewrite Nat.sub_diag, orb_false_r; apply runn_nil; [apply feq_refl | apply Permutation_refl] |].
    split; [rewrite orb_false_r; reflexivity |]. split; [lia |]. split; [reflexivity |]. split; [auto |].
    split; intros _ Hs; rewrite firstn_all2 in Hs by lia; exact Hs.
  - simpl in H. destruct (nth_error mods i) as [mn |] eqn:En.
    2:{ inversion H; subst. exists false.
        split; [intros d; rewrite Nat.sub_diag, orb_false_r; apply runn_nil; [apply feq_refl | apply Permutation_refl] |].
        split; [rewrite orb_false_r; reflexivity |]. split; [lia |]. split; [reflexivity |]. split; [auto |].
        apply nth_error_None in En.
        split; intros _ Hs; rewrite firstn_all2 in Hs by lia; exact Hs. }
    fold (pend_of P mn) in H.
    destruct (augment_module SC F err (pend_of P mn) false) as [[[F1 err1] p] un] eqn:Ea.
    destruct (module_turn F err P mn F1 err1 p un Ea) as [x1 [Hrun1 [He1 Hz1]]].
    assert (Hi : (i < length mods)%nat) by (apply nth_error_Some; congruence).
    (* facts about the updated table *)
    assert (Hlk : forall mn' pend', lookup mn' (update mn un P) = Some pend' ->
                  (mn' = mn /\ pend' = un) \/ (mn' <> mn /\ lookup mn' P = Some pend')).
    { intros mn' pend' Hl. rewrite lookup_update in Hl. destruct (str_eqb mn' mn) eqn:E.
      - apply str_eqb_eq in E. left. split; [exact E |]. destruct (lookup mn P); [inversion Hl; reflexivity | discriminate].
      - apply str_eqb_neq in E. right. auto. }
    assert (Hstuck1 : p = O -> forall l, (forall m, In m l -> m <> mn -> In m (firstn i mods)) ->
                      stuck F P (firstn i mods) -> stuck F1 (update mn un P) l).
    { intros Hp l Hl Hs mn' pend' a Hin Hlook Ha. destruct (Hz1 Hp) as [Hf [Hperm Hst]].
      apply (astep_compat_none SC (flat_of F) (flat_of F1) a Hf).
      destruct (Hlk mn' pend' Hlook) as [[E1 E2] | [E1 E2]].
      - subst. apply Hst. eapply Permutation_in; [apply Permutation_sym; exact Hperm | exact Ha].
      - apply (Hs mn' pend' a (Hl mn' Hin E1) E2 Ha). }
    assert (Htight1 : p = O -> forall l, (forall m, In m l -> m <> mn -> In m (firstn i mods)) ->
                      (In mn l -> un <> []) -> tight P (firstn i mods) -> tight (update mn un P) l).
    { intros Hp l Hl Hmn Ht mn' Hin. unfold pend_of. rewrite lookup_update.
      destruct (str_eqb mn' mn) eqn:E.
      - apply str_eqb_eq in E. subst mn'. destruct (lookup mn P) as [pend0 |] eqn:El0.
        + apply Hmn. exact Hin.
        + destruct (Hz1 Hp) as [_ [Hperm _]]. unfold pend_of in Hperm. rewrite El0 in Hperm.
          apply Permutation_nil in Hperm. specialize (Hmn Hin). congruence.
      - apply str_eqb_neq in E. apply (Ht mn'). apply Hl; assumption. }
    destruct un as [| a0 un'].
    + (* finished: swap-remove *)
      fold (swap_remove i mods mn) in H.
      destruct (swap_remove_spec mods i mn En) as [Hperm Hfirst].
      assert (Hlen : length mods = S (length (swap_remove i mods mn))).
      { apply Permutation_length in Hperm. exact Hperm. }
      destruct (IH F1 err1 (update mn [] P) (swap_remove i mods mn) i (pr + p)%nat F' err' P' mods' pr' H) as
        [x2 [Hrun2 [He2 [Hle [Hkeys [Hcov [Hst Hti]]]]]]]; [lia |].
      exists (x1 || x2)%bool. split; [| split; [| split; [| split; [| split; [| split]]]]].
      * intros d. replace (pr' - pr)%nat with (p + (pr' - (pr + p)))%nat by lia.
        eapply vrun_n_trans; [apply Hrun1 |]. rewrite orb_assoc. apply Hrun2.
      * rewrite He2, He1, orb_assoc. reflexivity.
      * lia.
      * rewrite Hkeys. apply map_fst_update.
      * intros Hc. apply Hcov. intros mn' pend' Hl Hne.
        destruct (Hlk mn' pend' Hl) as [[E1 E2] | [E1 E2]]; [congruence |].
        assert (Hin : In mn' (mn :: swap_remove i mods mn)).
        { eapply Permutation_in; [exact Hperm | apply (Hc mn' pend' E2 Hne)]. }
        destruct Hin as [Hin | Hin]; [congruence | exact Hin].
      * intros Hpr Hs. assert (Hp : p = O) by lia. apply Hst; [lia |].
        apply (Hstuck1 Hp); [| exact Hs]. intros m Hm _. rewrite Hfirst in Hm. exact Hm.
      * intros Hpr Ht. assert (Hp : p = O) by lia. apply Hti; [lia |].
        apply (Htight1 Hp); [| | exact Ht].
        -- intros m Hm _. rewrite Hfirst in Hm. exact Hm.
        -- intros Hin. exfalso. rewrite Hfirst in Hin. specialize (Ht mn Hin).
           destruct (Hz1 Hp) as [_ [Hperm0 _]]. apply Permutation_sym, Permutation_nil in Hperm0. contradiction.
    + (* something left: next index *)
      destruct (IH F1 err1 (update mn (a0 :: un') P) mods (S i) (pr + p)%nat F' err' P' mods' pr' H) as
        [x2 [Hrun2 [He2 [Hle [Hkeys [Hcov [Hst Hti]]]]]]]; [lia |].
      exists (x1 || x2)%bool. split; [| split; [| split; [| split; [| split; [| split]]]]].
      * intros d. replace (pr' - pr)%nat with (p + (pr' - (pr + p)))%nat by lia.
        eapply vrun_n_trans; [apply Hrun1 |]. rewrite orb_assoc. apply Hrun2.
      * rewrite He2, He1, orb_assoc. reflexivity.
      * lia.
      * rewrite Hkeys. apply map_fst_update.
      * intros Hc. apply Hcov. intros mn' pend' Hl Hne.
        destruct (Hlk mn' pend' Hl) as [[E1 E2] | [E1 E2]].
        -- subst mn'. eapply nth_error_In; eauto.
        -- apply (Hc mn' pend' E2 Hne).
      * intros Hpr Hs. assert (Hp : p = O) by lia. apply Hst; [lia |].
        apply (Hstuck1 Hp); [| exact Hs]. intros m Hm Hne.
        rewrite (firstn_S_nth mods i mn En) in Hm. apply in_app_or in Hm.
        destruct Hm as [Hm | [Hm | []]]; [exact Hm | congruence].
      * intros Hpr Ht. assert (Hp : p = O) by lia. apply Hti; [lia |].
        apply (Htight1 Hp); [| | exact Ht].
        -- intros m Hm Hne. rewrite (firstn_S_nth mods i mn En) in Hm. apply in_app_or in Hm.
           destruct Hm as [Hm | [Hm | []]]; [exact Hm | congruence].
        -- intros _. discriminate.
Qed.

End Pass.



Section LoopSpec.
Variable SC : schema.

Lemma stuck_maximal : forall F P mods, NoDup (map fst P) -> covers P mods -> stuck SC F P mods ->
  vmaximal SC (flat_of F) (all_pending P).
Proof.
  intros F P mods Hnd Hc Hs a Ha.
  destruct (In_all_pending P a Ha Hnd) as [mn [pend [Hl Hin]]].
  apply (Hs mn pend a); [| exact Hl | exact Hin].
  apply (Hc mn pend Hl). intros E. subst pend. contradiction.
Qed.

(* T2: the retry loop, for any visiting order and enough fuel, performs a maximal run; it counts its steps *)
Lemma augment_loop_spec : forall fuel F err P mods ap F1 err1 P1 mods1 ap1,
  augment_loop SC fuel F err P mods ap = (F1, err1, P1, mods1, ap1) ->
  (length (all_pending P) < fuel)%nat -> NoDup (map fst P) -> covers P mods ->
  exists x n, (forall d, vrun_n SC n (flat_of F) (all_pending P) d (flat_of F1) (all_pending P1) (d || x)) /\
              err1 = (err || x)%bool /\ ap1 = (ap + n)%nat /\ map fst P1 = map fst P /\ covers P1 mods1 /\
              vmaximal SC (flat_of F1) (all_pending P1) /\ tight P1 mods1.
Proof.
  induction fuel as [| f IH]; intros F err P mods ap F1 err1 P1 mods1 ap1 H Hfuel Hnd Hcov; [lia |].
  simpl in H. destruct mods as [| m0 mods0] eqn:Em.
  - inversion H; subst. exists false, O. split; [| split; [| split; [| split; [| split; [| split]]]]].
    + intros d. rewrite orb_false_r. apply runn_nil; [apply feq_refl | apply Permutation_refl].
    + rewrite orb_false_r. reflexivity.
    + lia.
    + reflexivity.
    + exact Hcov.
    + apply (stuck_maximal F1 P1 [] Hnd Hcov). intros mn pend a [].
    + intros mn [].
  - rewrite <- Em in *. clear Em m0 mods0.
    change (length mods + (length mods + 0))%nat with (2 * length mods)%nat in H.
    destruct (augment_pass SC (2 * length mods) F err P mods 0 0) as [[[[F2 err2] P2] mods2] pr] eqn:Ep.
    destruct (augment_pass_spec SC _ _ _ _ _ _ _ _ _ _ _ _ Ep) as [x1 [Hrun1 [He1 [_ [Hkeys [Hc [Hst Hti]]]]]]]; [lia |].
    rewrite Nat.sub_0_r in Hrun1.
    assert (Hnd2 : NoDup (map fst P2)) by (rewrite Hkeys; exact Hnd).
    destruct pr as [| pr].
    + inversion H; subst. exists x1, O. split; [| split; [| split; [| split; [| split; [| split]]]]].
      * exact Hrun1.
      * reflexivity.
      * lia.
      * exact Hkeys.
      * apply Hc. exact Hcov.
      * apply (stuck_maximal F1 P1 mods1 Hnd2 (Hc Hcov)). apply Hst; [reflexivity |].
        simpl. intros mn pend a [].
      * apply Hti; [reflexivity |]. simpl. intros mn [].
    + pose proof (vrun_n_length SC _ _ _ _ _ _ _ (Hrun1 false)) as Hlen.
      destruct (IH F2 err2 P2 mods2 (ap + S pr)%nat F1 err1 P1 mods1 ap1 H) as [x2 [n2 [Hrun2 [He2 [Hap [Hkeys2 [Hc2 [Hmax Hti2]]]]]]]];
        [lia | exact Hnd2 | apply Hc; exact Hcov |].
      exists (x1 || x2)%bool, (S pr + n2)%nat. split; [| split; [| split; [| split; [| split; [| split]]]]].
      * intros d. eapply vrun_n_trans; [apply Hrun1 |]. rewrite orb_assoc. apply Hrun2.
      * rewrite He2, He1, orb_assoc. reflexivity.
      * lia.
      * rewrite Hkeys2. exact Hkeys.
      * exact Hc2.
      * exact Hmax.
      * exact Hti2.
Qed.

End LoopSpec.



Lemma prefix_closed_flat_of : forall F, prefix_closed (flat_of F).
Proof.
  intros F mn steps s H. unfold flat_of in *. simpl in *.
  destruct (lookup mn F) as [root |]; [| exact H].
  rewrite vlocate_app in H. destruct (vlocate root steps); [simpl; discriminate | exact H].
Qed.

Section OrderIndependence.
Variable SC : schema.

Lemma vrun_n_vrun : forall n s P d s' P' d', vrun_n SC n s P d s' P' d' -> vrun SC s P d s' P' d'.
Proof. intros. unfold vrun_n, vrun in *. eapply run_n_run; eauto. Qed.

(* T2 corollary: the outcome of the retry loop does not depend on the visiting order *)
Theorem augment_loop_order_independent : forall fuel1 fuel2 F P o1 o2 a1 a2 F1 P1 m1 n1 F2 e2 P2 m2 n2,
  NoDup (map fst P) -> covers P o1 -> covers P o2 ->
  (length (all_pending P) < fuel1)%nat -> (length (all_pending P) < fuel2)%nat ->
  augment_loop SC fuel1 F false P o1 a1 = (F1, false, P1, m1, n1) ->
  augment_loop SC fuel2 F false P o2 a2 = (F2, e2, P2, m2, n2) ->
  e2 = false /\ forest_eqv F1 F2 /\ Permutation (all_pending P1) (all_pending P2).
Proof.
  intros fuel1 fuel2 F P o1 o2 a1 a2 F1 P1 m1 n1 F2 e2 P2 m2 n2 Hnd Hc1 Hc2 Hf1 Hf2 H1 H2.
  destruct (augment_loop_spec SC _ _ _ _ _ _ _ _ _ _ _ H1 Hf1 Hnd Hc1) as [x1 [k1 [R1 [E1 [_ [_ [_ [M1 _]]]]]]]].
  destruct (augment_loop_spec SC _ _ _ _ _ _ _ _ _ _ _ H2 Hf2 Hnd Hc2) as [x2 [k2 [R2 [E2 [_ [_ [_ [M2 _]]]]]]]].
  simpl in E1, E2. subst x1 x2.
  pose proof (vrun_n_vrun _ _ _ _ _ _ _ (R1 false)) as V1.
  pose proof (vrun_n_vrun _ _ _ _ _ _ _ (R2 false)) as V2. simpl in V1, V2.
  exact (view_confluence SC (flat_of F) (all_pending P) (prefix_closed_flat_of F) _ _ V1 M1 _ _ _ V2 M2).
Qed.

(* ... and if one order meets an error, so does every other *)
Corollary augment_loop_error_agree : forall fuel1 fuel2 F P o1 o2 a1 a2 F1 e1 P1 m1 n1 F2 e2 P2 m2 n2,
  NoDup (map fst P) -> covers P o1 -> covers P o2 ->
  (length (all_pending P) < fuel1)%nat -> (length (all_pending P) < fuel2)%nat ->
  augment_loop SC fuel1 F false P o1 a1 = (F1, e1, P1, m1, n1) ->
  augment_loop SC fuel2 F false P o2 a2 = (F2, e2, P2, m2, n2) ->
  e1 = e2.
Proof.
  intros fuel1 fuel2 F P o1 o2 a1 a2 F1 e1 P1 m1 n1 F2 e2 P2 m2 n2 Hnd Hc1 Hc2 Hf1 Hf2 H1 H2.
  destruct e1, e2; try reflexivity.
  - destruct (augment_loop_order_independent _ _ _ _ _ _ _ _ _ _ _ _ _ _ _ _ _ Hnd Hc2 Hc1 Hf2 Hf1 H2 H1) as [E _]. exact E.
  - destruct (augment_loop_order_independent _ _ _ _ _ _ _ _ _ _ _ _ _ _ _ _ _ Hnd Hc1 Hc2 Hf1 Hf2 H1 H2) as [E _]. symmetry. exact E.
Qed.

End OrderIndependence.



(* ================================================================== 6. reporting (T3) *)
Lemma Process_stages : forall SC ic ins order, Process SC ic ins order = Process_staged SC ic ins order.
Proof.
  intros. unfold Process, Process_staged, sources_ok, augment_stage, process_tail, final_pass, deviation_stage.
  destruct (forallb _ (modules_only SC)); simpl; [| reflexivity].
  destruct (existsb _ _); simpl; [reflexivity |].
  reflexivity.
Qed.

Section Reporting.
Variable SC : schema.
Variable ic ins : bool.

Lemma apply_deviates_mono : forall dvs F p cur att,
  snd (apply_deviates ins F p cur att true dvs) = true.
Proof.
  induction dvs as [| dv rest IH]; intros F p cur att; simpl; [reflexivity |].
  destruct (str_eqb (dv_kind dv) s_notsupported).
  { destruct (rev (snd p)) as [| last up]; [apply IH |].
    destruct ins; [apply IH |]. destruct last; apply IH. }
  destruct (str_eqb (dv_kind dv) s_add || str_eqb (dv_kind dv) s_replace)%bool.
  { destruct (apply_add_replace (str_eqb (dv_kind dv) s_replace) dv cur) as [cur' e]. apply IH. }
  destruct (str_eqb (dv_kind dv) s_delete).
  { destruct (apply_delete dv cur) as [cur' e]. apply IH. }
  apply IH.
Qed.

Lemma apply_deviations_mono : forall devs F m, snd (apply_deviations SC ins F true m devs) = true.
Proof.
  induction devs as [| [path dvs] rest IH]; intros F m; simpl; [reflexivity |].
  destruct (Find SC F m (m_name m, []) path) as [target F1].
  destruct target as [p |]; [| apply IH].
  destruct (locate_pos F1 p) as [cur |]; [| apply IH].
  pose proof (apply_deviates_mono dvs F1 p cur true) as Hm.
  destruct (apply_deviates ins F1 p cur true true dvs) as [[[F2 cur'] attached] err']. simpl in Hm. subst err'.
  apply IH.
Qed.

Lemma deviation_stage_mono : forall order F, snd (deviation_stage SC ins order (F, true)) = true.
Proof.
  unfold deviation_stage. induction order as [| mn rest IH]; intros F; simpl; [reflexivity |].
  destruct (find_module SC mn) as [m |]; [| apply IH].
  pose proof (apply_deviations_mono (m_deviations m) F m) as Hm.
  destruct (apply_deviations SC ins F true m (m_deviations m)) as [F' e']. simpl in Hm. subst e'. apply IH.
Qed.

(* the last pass: an error flag stays; an augment that is left over raises it *)
Lemma final_pass_spec : forall mods F err P F3 err3 P3,
  final_pass SC (F, err, P) mods = (F3, err3, P3) ->
  (err = true -> err3 = true) /\ map fst P3 = map fst P /\
  (err = true \/ covers P mods -> err3 = false -> forall mn pend, lookup mn P3 = Some pend -> pend = []).
Proof.
  unfold final_pass. induction mods as [| mn rest IH]; intros F err P F3 err3 P3 H.
  - simpl in H. inversion H; subst. split; [auto |]. split; [reflexivity |].
    intros [He | Hc] He3 mn pend Hl; [congruence |].
    destruct pend as [| a pend]; [reflexivity |]. exfalso. apply (Hc mn (a :: pend) Hl). discriminate.
  - simpl in H.
    destruct (augment_module SC F err (match lookup mn P with Some l => l | None => [] end) true)
      as [[[F' err'] n] un] eqn:Ea.
    destruct (augment_module_spec SC _ _ _ _ _ _ _ _ Ea) as [x [_ [He _]]].
    destruct (IH F' err' (update mn un P) F3 err3 P3 H) as [I1 [I2 I3]].
    split; [| split].
    + intros E. apply I1. rewrite He, E. reflexivity.
    + rewrite I2. apply map_fst_update.
    + intros Hor He3. apply I3; [| exact He3].
      destruct err' eqn:Ee'; [left; reflexivity | right].
      assert (Herr : err = false) by (destruct err; [discriminate | reflexivity]).
      assert (Hun : un = []).
      { destruct un; [reflexivity |]. rewrite Herr in He. simpl in He. rewrite orb_true_r in He. discriminate. }
      destruct Hor as [E | Hc]; [congruence |].
      intros mn' pend' Hl Hne. rewrite lookup_update in Hl.
      destruct (str_eqb mn' mn) eqn:E.
      * destruct (lookup mn P); [inversion Hl; congruence | discriminate].
      * destruct (Hc mn' pend' Hl Hne) as [Hin | Hin]; [| exact Hin].
        subst mn'. rewrite str_eqb_refl in E. discriminate.
Qed.

Lemma all_pending_empty : forall (P : pendings), NoDup (map fst P) ->
  (forall mn pend, lookup mn P = Some pend -> pend = []) -> all_pending P = [].
Proof.
  intros P Hnd H. destruct (all_pending P) as [| a l] eqn:E; [reflexivity |].
  assert (Ha : In a (all_pending P)) by (rewrite E; left; reflexivity).
  destruct (In_all_pending P a Ha Hnd) as [mn [pend [Hl Hin]]].
  rewrite (H mn pend Hl) in Hin. contradiction.
Qed.

Lemma pend0_keys : map fst (pend0 SC) = map m_name SC.
Proof. unfold pend0. rewrite map_map. reflexivity. Qed.

Lemma n_aug_pending : length (all_pending (pend0 SC)) = n_aug SC.
Proof.
  unfold all_pending, pend0, n_aug. generalize SC at 2 3 as l.
  induction l as [| m l IH]; simpl; [reflexivity |].
  rewrite app_length, IH. unfold module_augs. rewrite map_length. reflexivity.
Qed.

Lemma rounds_S : forall f round F err P mods,
  rounds SC (S f) round F err P mods =
  let '(Fa, erra, Pa, modsa, applied) := augment_loop SC (S (n_aug SC)) F err P mods O in
  match modsa with
  | [] => (fix_all Fa, erra, Pa, modsa)
  | _ => match round, applied with
         | S _, O => (fix_all Fa, erra, Pa, modsa)
         | _, _ => rounds SC f (S round) (fix_all Fa) erra Pa modsa
         end
  end.
Proof. reflexivity. Qed.

(* the rounds: an error flag stays, the table keeps its keys, the work list keeps covering it *)
Lemma rounds_spec : forall fuel round F err P mods F2 err2 P2 mods2,
  rounds SC fuel round F err P mods = (F2, err2, P2, mods2) ->
  NoDup (map fst P) -> covers P mods -> (length (all_pending P) <= n_aug SC)%nat ->
  (err = true -> err2 = true) /\ map fst P2 = map fst P /\ covers P2 mods2 /\
  (length (all_pending P2) <= n_aug SC)%nat.
Proof.
  induction fuel as [| f IH]; intros round F err P mods F2 err2 P2 mods2 H Hnd Hcov Hlen.
  - simpl in H. inversion H; subst. auto.
  - rewrite rounds_S in H.
    destruct (augment_loop SC (S (n_aug SC)) F err P mods 0) as [[[[Fa erra] Pa] modsa] ap] eqn:El.
    destruct (augment_loop_spec SC _ _ _ _ _ _ _ _ _ _ _ El) as [x [n [Hrun [He [_ [Hk [Hc _]]]]]]];
      [lia | exact Hnd | exact Hcov |].
    pose proof (vrun_n_length SC _ _ _ _ _ _ _ (Hrun false)) as Hl.
    assert (Hdone : (err = true -> erra = true) /\ map fst Pa = map fst P /\ covers Pa modsa /\
                    (length (all_pending Pa) <= n_aug SC)%nat).
    { split; [intros E; rewrite He, E; reflexivity |]. split; [exact Hk |]. split; [exact Hc | lia]. }
    destruct modsa as [| m0 ms] eqn:Em.
    + inversion H; subst. exact Hdone.
    + rewrite <- Em in *. clear Em.
      assert (Hrec : rounds SC f (S round) (fix_all Fa) erra Pa modsa = (F2, err2, P2, mods2) ->
                     (err = true -> err2 = true) /\ map fst P2 = map fst P /\ covers P2 mods2 /\
                     (length (all_pending P2) <= n_aug SC)%nat).
      { intros Hr. destruct Hdone as [D1 [D2 [D3 D4]]].
        destruct (IH _ _ _ _ _ _ _ _ _ Hr) as [I1 [I2 [I3 I4]]]; [rewrite D2; exact Hnd | exact D3 | exact D4 |].
        split; [auto |]. split; [congruence |]. auto. }
      destruct round as [| r].
      * apply Hrec. exact H.
      * destruct ap as [| ap']; [inversion H; subst; exact Hdone | apply Hrec; exact H].
Qed.

(* T3, read from a clean result: no step of any round was dirty, the last pass had nothing to report,
   and no augment remains unapplied *)
Theorem process_ok_inv : forall order F4, Process SC ic ins order = ROk F4 ->
  NoDup (map m_name SC) -> covers (pend0 SC) order ->
  exists F2 P1 mods1 F3 P3,
    augment_stage SC ic order = (F2, false, P1, mods1) /\
    final_pass SC (F2, false, P1) mods1 = (F3, false, P3) /\
    all_pending P3 = [].
Proof.
  intros order F4 H Hnd Hcov. rewrite Process_stages in H. unfold Process_staged in H.
  destruct (sources_ok SC ic); [| discriminate].
  destruct (augment_stage SC ic order) as [[[F2 err1] P1] mods1] eqn:Es.
  unfold process_tail in H.
  destruct (final_pass SC (F2, err1, P1) mods1) as [[F3 err3] P3] eqn:Ef.
  destruct (final_pass_spec _ _ _ _ _ _ _ Ef) as [I1 [I2 I3]].
  assert (He3 : err3 = false).
  { destruct err3; [| reflexivity]. pose proof (deviation_stage_mono order F3) as Hm.
    destruct (deviation_stage SC ins order (F3, true)) as [F4' e4]. simpl in Hm. subst e4. discriminate. }
  assert (He1 : err1 = false).
  { destruct err1; [| reflexivity]. rewrite (I1 eq_refl) in He3. discriminate. }
  subst err1 err3.
  unfold augment_stage in Es.
  destruct (rounds_spec _ _ _ _ _ _ _ _ _ _ Es) as [_ [Hk [Hc _]]].
  { rewrite pend0_keys. exact Hnd. }
  { exact Hcov. }
  { rewrite n_aug_pending. lia. }
  exists F2, P1, mods1, F3, P3. split; [reflexivity |]. split; [exact Ef |].
  apply all_pending_empty.
  - rewrite I2, Hk, pend0_keys. exact Hnd.
  - apply I3; [right; exact Hc | reflexivity].
Qed.

(* T3, the reporting direction *)
Theorem process_reports_dirty : forall order F2 P1 mods1,
  augment_stage SC ic order = (F2, true, P1, mods1) -> Process SC ic ins order = RErr.
Proof.
  intros order F2 P1 mods1 Es. rewrite Process_stages. unfold Process_staged.
  destruct (sources_ok SC ic); [| reflexivity]. rewrite Es. unfold process_tail.
  destruct (final_pass SC (F2, true, P1) mods1) as [[F3 err3] P3] eqn:Ef.
  destruct (final_pass_spec _ _ _ _ _ _ _ Ef) as [I1 _]. rewrite (I1 eq_refl).
  pose proof (deviation_stage_mono order F3) as Hm.
  destruct (deviation_stage SC ins order (F3, true)) as [F4' e4]. simpl in Hm. subst e4. reflexivity.
Qed.

Theorem process_reports_unapplied : forall order F2 e1 P1 mods1 F3 e3 P3 a,
  NoDup (map m_name SC) -> covers (pend0 SC) order ->
  augment_stage SC ic order = (F2, e1, P1, mods1) ->
  final_pass SC (F2, e1, P1) mods1 = (F3, e3, P3) ->
  In a (all_pending P3) -> Process SC ic ins order = RErr.
Proof.
  intros order F2 e1 P1 mods1 F3 e3 P3 a Hnd Hcov Es Ef Ha.
  destruct (Process SC ic ins order) as [| F4] eqn:Ep; [reflexivity |]. exfalso.
  destruct (process_ok_inv order F4 Ep Hnd Hcov) as [F2' [P1' [mods1' [F3' [P3' [Es' [Ef' Hemp]]]]]]].
  rewrite Es in Es'. inversion Es'; subst. rewrite Ef in Ef'. inversion Ef'; subst.
  rewrite Hemp in Ha. contradiction.
Qed.

(* what "not applicable" means: the path finds nothing, or what it finds cannot have children *)
Lemma astep_none_iff : forall fl a,
  astep SC fl a = None <->
  (afind SC fl (a_mod a) (m_name (a_mod a), []) (a_path a) = None \/
   exists p, afind SC fl (a_mod a) (m_name (a_mod a), []) (a_path a) = Some p /\
             (fl p = None \/ exists l, fl p = Some l /\ l_hasdir l = false)).
Proof.
  intros fl a. unfold astep.
  destruct (afind SC fl (a_mod a) (m_name (a_mod a), []) (a_path a)) as [p |].
  - destruct (fl p) as [l |] eqn:El.
    + destruct (l_hasdir l) eqn:Eh.
      * split; [discriminate |]. intros [H | [p' [Hp [H | [l' [Hl Hh]]]]]]; try discriminate.
        -- inversion Hp; subst. congruence.
        -- inversion Hp; subst. rewrite El in Hl. inversion Hl; subst. congruence.
      * split; [| reflexivity]. intros _. right. exists p. split; [reflexivity |]. right. exists l. auto.
    + split; [| reflexivity]. intros _. right. exists p. split; [reflexivity |]. left. exact El.
  - split; [intros _; left; reflexivity | reflexivity].
Qed.

End Reporting.



(* ================================================================== 7. exactly once, namespace (T4) *)
(* ------------------------------------------------------------------ Namespace of the model = vns of the view *)
Definition ns_upd (e : entry) (best : option str) (is_root : bool) : option str :=
  if is_root then best else match e_ns e with Some n => Some n | None => best end.

Lemma vlocate_empty_io : forall b s r, vlocate (empty_io b) (s :: r) = None.
Proof. intros b s r. destruct s; reflexivity. Qed.

Lemma ns_walk_view : forall F mn root, lookup mn F = Some root ->
  forall rest pre e best isr, locate root pre = Some e ->
  ns_walk e rest best isr = vns_walk (flat_of F) mn pre rest (ns_upd e best isr).
Proof.
  intros F mn root HF. induction rest as [| s r IH]; intros pre e best isr Hl.
  - simpl. unfold ns_upd. destruct isr; reflexivity.
  - simpl vns_walk. rewrite (flat_of_below F mn pre root e [s] HF Hl).
    assert (Hnext : forall c, locate e [s] = Some c -> locate root (pre ++ [s]) = Some c).
    { intros c Hc. rewrite locate_app, Hl. exact Hc. }
    destruct s; simpl.
    + fold (ns_upd e best isr).
      destruct (e_dir e) as [d |] eqn:Ed; [| reflexivity].
      destruct (lookup n d) as [c |] eqn:Ec; [| reflexivity].
      simpl. rewrite (IH (pre ++ [SChild n]) c (ns_upd e best isr) false).
      * reflexivity.
      * apply Hnext. simpl. rewrite Ed, Ec. reflexivity.
    + fold (ns_upd e best isr).
      destruct (e_rpc e) as [[[i |] o] |] eqn:Er; simpl.
      * rewrite (IH (pre ++ [SIn]) i (ns_upd e best isr) false); [reflexivity |].
        apply Hnext. simpl. rewrite Er. reflexivity.
      * destruct r as [| s' r']; [reflexivity |]. simpl.
        rewrite <- app_assoc. simpl.
        assert (Hv : flat_of F (mn, pre ++ [SIn; s']) = None).
        { rewrite (flat_of_below F mn pre root e [SIn; s'] HF Hl). simpl. rewrite Er. simpl.
          destruct s'; reflexivity. }
        rewrite Hv. reflexivity.
      * reflexivity.
    + fold (ns_upd e best isr).
      destruct (e_rpc e) as [[i [o |]] |] eqn:Er; simpl.
      * rewrite (IH (pre ++ [SOut]) o (ns_upd e best isr) false); [reflexivity |].
        apply Hnext. simpl. rewrite Er. reflexivity.
      * destruct r as [| s' r']; [reflexivity |]. simpl.
        rewrite <- app_assoc. simpl.
        assert (Hv : flat_of F (mn, pre ++ [SOut; s']) = None).
        { rewrite (flat_of_below F mn pre root e [SOut; s'] HF Hl). simpl. rewrite Er. simpl.
          destruct s'; reflexivity. }
        rewrite Hv. reflexivity.
      * reflexivity.
Qed.

(* the model's Namespace is a function of the view *)
Theorem Namespace_view : forall SC F p,
  Namespace SC F p =
  match lookup (fst p) F with
  | Some _ => match vns (flat_of F) p with
              | Some n => n
              | None => match find_module SC (fst p) with Some m => owner_ns SC m | None => [] end
              end
  | None => []
  end.
Proof.
  intros SC F [mn steps]. unfold Namespace, vns. simpl.
  destruct (lookup mn F) as [root |] eqn:HF; [| reflexivity].
  rewrite (ns_walk_view F mn root HF steps [] root None true eq_refl). reflexivity.
Qed.

(* ------------------------------------------------------------------ vns along a path *)
Lemma vns_walk_feq : forall fl fl', feq fl fl' -> forall mn rest pre best,
  vns_walk fl mn pre rest best = vns_walk fl' mn pre rest best.
Proof.
  intros fl fl' H mn. induction rest as [| s r IH]; intros pre best; simpl; [reflexivity |].
  rewrite (H (mn, pre ++ [s])). destruct (fl' (mn, pre ++ [s])); [apply IH | reflexivity].
Qed.

(* all nodes on the path from pre (exclusive) down rest exist *)
Definition path_exists (fl : flat) (mn : str) (pre rest : list step) : Prop :=
  forall a x b, rest = a ++ x :: b -> fl (mn, pre ++ a ++ [x]) <> None.

Lemma path_exists_cons : forall fl mn pre s r, path_exists fl mn pre (s :: r) ->
  fl (mn, pre ++ [s]) <> None /\ path_exists fl mn (pre ++ [s]) r.
Proof.
  intros fl mn pre s r H. split.
  - apply (H [] s r). reflexivity.
  - intros a x b E. rewrite <- app_assoc. simpl. apply (H (s :: a) x b). rewrite E. reflexivity.
Qed.

Lemma vns_walk_fle : forall fl fl', fle fl fl' -> forall mn rest pre best, path_exists fl mn pre rest ->
  vns_walk fl' mn pre rest best = vns_walk fl mn pre rest best.
Proof.
  intros fl fl' H mn. induction rest as [| s r IH]; intros pre best Hp; simpl; [reflexivity |].
  destruct (path_exists_cons _ _ _ _ _ Hp) as [Hs Hr].
  destruct (fl (mn, pre ++ [s])) as [l |] eqn:E; [| contradiction].
  rewrite (H _ _ E). apply IH. exact Hr.
Qed.

Lemma vns_walk_app : forall fl mn a pre b best, path_exists fl mn pre a ->
  vns_walk fl mn pre (a ++ b) best = vns_walk fl mn (pre ++ a) b (vns_walk fl mn pre a best).
Proof.
  intros fl mn. induction a as [| s a IH]; intros pre b best Hp; simpl.
  - rewrite app_nil_r. reflexivity.
  - destruct (path_exists_cons _ _ _ _ _ Hp) as [Hs Hr].
    destruct (fl (mn, pre ++ [s])) as [l |] eqn:E; [| contradiction].
    rewrite (IH (pre ++ [s]) b _ Hr). rewrite <- app_assoc. reflexivity.
Qed.

(* below a stamped node whose descendants on the path carry no stamp, the stamp is the namespace *)
Lemma vns_walk_unstamped : forall fl mn rest pre best,
  (forall a x b, rest = a ++ x :: b -> exists l, fl (mn, pre ++ a ++ [x]) = Some l /\ l_ns l = None) ->
  vns_walk fl mn pre rest best = best.
Proof.
  intros fl mn. induction rest as [| s r IH]; intros pre best H; simpl; [reflexivity |].
  destruct (H [] s r eq_refl) as [l [Hl Hn]]. simpl in Hl. rewrite Hl, Hn.
  apply IH. intros a x b E. destruct (H (s :: a) x b) as [l' [Hl' Hn']]; [rewrite E; reflexivity |].
  exists l'. split; [| exact Hn']. rewrite <- app_assoc. exact Hl'.
Qed.

Lemma pc_path_exists : forall fl mn rest, prefix_closed fl -> fl (mn, rest) <> None -> path_exists fl mn [] rest.
Proof.
  intros fl mn rest Hpc H a x b E. simpl. subst rest.
  apply (pc_app fl Hpc b mn (a ++ [x])). rewrite <- app_assoc. exact H.
Qed.

Lemma vlocate_stamp_below : forall ns c s r, vlocate (stamp ns c) (s :: r) = vlocate c (s :: r).
Proof. intros ns c s r. destruct c. destruct s; reflexivity. Qed.

(* T4 (namespace) for one clean step: every node the augment defines, below each grafted child, is
   attributed to the owner namespace *)
Lemma graft_namespace : forall fl p lp ns A k c rest node, prefix_closed fl -> fl p = Some lp ->
  fl (fst p, snd p ++ [SChild k]) = None -> lookup k A = Some c -> ns_free c -> vlocate c rest = Some node ->
  agraft fl p ns A (fst p, snd p ++ SChild k :: rest) =
    Some (lab (match rest with [] => stamp ns c | _ => node end)) /\
  vns (agraft fl p ns A) (fst p, snd p ++ SChild k :: rest) = Some ns.
Proof.
  intros fl [pm ps] lp ns A k c rest node Hpc Hp Hk Hl Hfree Hnode. simpl in *.
  set (t := agraft fl (pm, ps) ns A).
  assert (Hnew : forall r x, vlocate c r = Some x ->
                 t (pm, ps ++ SChild k :: r) = Some (lab (match r with [] => stamp ns c | _ => x end))).
  { intros r x Hx. unfold t, agraft.
    assert (Hnone : fl (pm, ps ++ SChild k :: r) = None).
    { destruct (fl (pm, ps ++ SChild k :: r)) eqn:E; [| reflexivity]. exfalso.
      apply (pc_app fl Hpc r pm (ps ++ [SChild k])); [| exact Hk]. rewrite <- app_assoc. simpl. congruence. }
    rewrite Hnone. pose proof (grafted_intro fl (pm, ps) ns A k r c Hk Hl) as G. simpl in G. rewrite G.
    destruct r as [| s r']; [reflexivity |]. rewrite vlocate_stamp_below, Hx. reflexivity. }
  split; [apply Hnew; exact Hnode |].
  unfold vns. simpl.
  assert (Hle : fle fl t) by apply fle_agraft.
  change (ps ++ SChild k :: rest) with (ps ++ [SChild k] ++ rest).
  rewrite vns_walk_app.
  2:{ apply pc_path_exists.
      - apply prefix_closed_agraft; [exact Hpc | congruence].
      - rewrite (Hle _ _ Hp). discriminate. }
  simpl app at 1. rewrite vns_walk_app.
  2:{ intros a x b E. destruct a as [| y a]; [| destruct a; discriminate]. inversion E; subst. simpl.
      rewrite (Hnew [] c eq_refl). discriminate. }
  simpl vns_walk at 2. rewrite (Hnew [] c eq_refl).
  replace (l_ns (lab (stamp ns c))) with (Some ns) by (destruct c; reflexivity).
  apply vns_walk_unstamped.
  intros a x b E.
  assert (Hex : exists y, vlocate c (a ++ [x]) = Some y).
  { subst rest. replace (a ++ x :: b) with ((a ++ [x]) ++ b) in Hnode by (rewrite <- app_assoc; reflexivity).
    rewrite vlocate_app in Hnode. destruct (vlocate c (a ++ [x])); [eauto | discriminate]. }
  destruct Hex as [y Hy]. exists (lab y). split.
  - rewrite <- !app_assoc. simpl. rewrite (Hnew (a ++ [x]) y Hy).
    destruct (a ++ [x]) eqn:Ea; [destruct a; discriminate | reflexivity].
  - simpl. apply (Hfree (a ++ [x]) y Hy).
Qed.



(* ================================================================== 8. order independence of the rounds *)
Section Rounds.
Variable SC : schema.

Lemma vrun_start : forall s P d s' P' d' s0 P0, vrun SC s P d s' P' d' -> feq s0 s -> Permutation P0 P ->
  vrun SC s0 P0 d s' P' d'.
Proof.
  intros. unfold vrun in *.
  eapply (run_start_eqv feq (astep SC) feq_sym feq_trans (astep_compat_some SC)); eauto.
Qed.

Lemma lookup_incl_all_pending : forall (P : pendings) mn pend a, lookup mn P = Some pend -> In a pend ->
  In a (all_pending P).
Proof.
  unfold all_pending. induction P as [| [k v] P IH]; simpl; intros mn pend a H Ha; [discriminate |].
  apply in_or_app. destruct (str_eqb mn k).
  - inversion H; subst. left. exact Ha.
  - right. eapply IH; eauto.
Qed.

Lemma tight_nil : forall (P : pendings) mods, tight P mods -> all_pending P = [] -> mods = [].
Proof.
  intros P mods Ht He. destruct mods as [| mn mods]; [reflexivity |]. exfalso.
  specialize (Ht mn (or_introl eq_refl)). unfold pend_of in Ht.
  destruct (lookup mn P) as [pend |] eqn:El; [| congruence].
  destruct pend as [| a pend]; [congruence |].
  pose proof (lookup_incl_all_pending P mn (a :: pend) a El (or_introl eq_refl)) as Hin.
  rewrite He in Hin. contradiction.
Qed.

Lemma covers_nil : forall (P : pendings), NoDup (map fst P) -> covers P [] -> all_pending P = [].
Proof.
  intros P Hnd Hc. apply all_pending_empty; [exact Hnd |].
  intros mn pend Hl. destruct pend as [| a pend]; [reflexivity |]. exfalso.
  apply (Hc mn (a :: pend) Hl). discriminate.
Qed.

(* the retry loop from two equivalent states, in two orders *)
Lemma augment_loop_confluent : forall fuel1 fuel2 F F' P P' o1 o2 a1 a2 F1 P1 m1 n1 F2 e2 P2 m2 n2,
  forest_eqv F F' -> Permutation (all_pending P) (all_pending P') ->
  NoDup (map fst P) -> NoDup (map fst P') -> covers P o1 -> covers P' o2 ->
  (length (all_pending P) < fuel1)%nat -> (length (all_pending P') < fuel2)%nat ->
  augment_loop SC fuel1 F false P o1 a1 = (F1, false, P1, m1, n1) ->
  augment_loop SC fuel2 F' false P' o2 a2 = (F2, e2, P2, m2, n2) ->
  e2 = false /\ forest_eqv F1 F2 /\ Permutation (all_pending P1) (all_pending P2) /\
  (n1 - a1 = n2 - a2)%nat /\ (m1 = [] <-> m2 = []).
Proof.
  intros fuel1 fuel2 F F' P P' o1 o2 a1 a2 F1 P1 m1 n1 F2 e2 P2 m2 n2 Hf HP Hnd Hnd' Hc1 Hc2 Hf1 Hf2 H1 H2.
  destruct (augment_loop_spec SC _ _ _ _ _ _ _ _ _ _ _ H1 Hf1 Hnd Hc1) as [x1 [k1 [R1 [E1 [A1 [K1 [C1 [M1 T1]]]]]]]].
  destruct (augment_loop_spec SC _ _ _ _ _ _ _ _ _ _ _ H2 Hf2 Hnd' Hc2) as [x2 [k2 [R2 [E2 [A2 [K2 [C2 [M2 T2]]]]]]]].
  simpl in E1, E2. subst x1 x2.
  pose proof (vrun_n_vrun SC _ _ _ _ _ _ _ (R1 false)) as V1.
  pose proof (vrun_n_vrun SC _ _ _ _ _ _ _ (R2 false)) as V2. simpl in V1, V2.
  pose proof (vrun_start _ _ _ _ _ _ _ _ V2 Hf HP) as V2'.
  destruct (view_confluence SC (flat_of F) (all_pending P) (prefix_closed_flat_of F) _ _ V1 M1 _ _ _ V2' M2)
    as [He [Hfe Hp]].
  split; [exact He |]. split; [exact Hfe |]. split; [exact Hp |].
  pose proof (vrun_n_length SC _ _ _ _ _ _ _ (R1 false)) as L1.
  pose proof (vrun_n_length SC _ _ _ _ _ _ _ (R2 false)) as L2.
  pose proof (Permutation_length HP) as LP. pose proof (Permutation_length Hp) as Lp.
  split; [lia |].
  assert (Hnd1 : NoDup (map fst P1)) by (rewrite K1; exact Hnd).
  assert (Hnd2 : NoDup (map fst P2)) by (rewrite K2; exact Hnd').
  split; intros Hm.
  - subst m1. apply (tight_nil P2 m2 T2). pose proof (covers_nil P1 Hnd1 C1) as E.
    rewrite E in Hp. apply Permutation_nil in Hp. exact Hp.
  - subst m2. apply (tight_nil P1 m1 T1). pose proof (covers_nil P2 Hnd2 C2) as E.
    rewrite E in Hp. apply Permutation_sym, Permutation_nil in Hp. exact Hp.
Qed.

(* FixChoice is a function of the view: the premise under which the rounds are order-independent *)
Definition fix_all_compat : Prop :=
  forall F F', forest_eqv F F' -> forest_eqv (fix_all F) (fix_all F').

Lemma rounds_err : forall fuel round F P mods F2 err2 P2 mods2,
  rounds SC fuel round F true P mods = (F2, err2, P2, mods2) ->
  NoDup (map fst P) -> covers P mods -> (length (all_pending P) <= n_aug SC)%nat -> err2 = true.
Proof.
  intros fuel round F P mods F2 err2 P2 mods2 H Hnd Hc Hl.
  destruct (rounds_spec SC _ _ _ _ _ _ _ _ _ _ H Hnd Hc Hl) as [E _]. apply E. reflexivity.
Qed.

Lemma rounds_confluent : fix_all_compat ->
  forall fuel round F F' P P' o1 o2 F2 P2 m2 F2' e2' P2' m2',
  forest_eqv F F' -> Permutation (all_pending P) (all_pending P') ->
  NoDup (map fst P) -> NoDup (map fst P') -> covers P o1 -> covers P' o2 ->
  (length (all_pending P) <= n_aug SC)%nat ->
  rounds SC fuel round F false P o1 = (F2, false, P2, m2) ->
  rounds SC fuel round F' false P' o2 = (F2', e2', P2', m2') ->
  e2' = false /\ forest_eqv F2 F2' /\ Permutation (all_pending P2) (all_pending P2').
Proof.
  intros Hfix. induction fuel as [| f IH];
    intros round F F' P P' o1 o2 F2 P2 m2 F2' e2' P2' m2' Hf HP Hnd Hnd' Hc1 Hc2 Hlen H1 H2.
  - simpl in H1, H2. inversion H1; subst. inversion H2; subst. auto.
  - rewrite rounds_S in H1, H2.
    assert (Hlen' : (length (all_pending P') <= n_aug SC)%nat).
    { rewrite <- (Permutation_length HP). exact Hlen. }
    destruct (augment_loop SC (S (n_aug SC)) F false P o1 0) as [[[[Fa ea] Pa] ma] na] eqn:L1.
    destruct (augment_loop SC (S (n_aug SC)) F' false P' o2 0) as [[[[Fa' ea'] Pa'] ma'] na'] eqn:L2.
    destruct (augment_loop_spec SC _ _ _ _ _ _ _ _ _ _ _ L1) as [x1 [k1 [R1 [_ [_ [K1 [C1 [M1 T1]]]]]]]];
      [lia | exact Hnd | exact Hc1 |].
    destruct (augment_loop_spec SC _ _ _ _ _ _ _ _ _ _ _ L2) as [x2 [k2 [R2 [_ [_ [K2 [C2 [M2 T2]]]]]]]];
      [lia | exact Hnd' | exact Hc2 |].
    pose proof (vrun_n_length SC _ _ _ _ _ _ _ (R1 false)) as Ll1.
    pose proof (vrun_n_length SC _ _ _ _ _ _ _ (R2 false)) as Ll2.
    assert (Hnda : NoDup (map fst Pa)) by (rewrite K1; exact Hnd).
    assert (Hnda' : NoDup (map fst Pa')) by (rewrite K2; exact Hnd').
    assert (Hea : ea = false).
    { destruct ea; [| reflexivity]. exfalso.
      destruct ma as [| m0 ms] eqn:Em; [inversion H1 |].
      rewrite <- Em in *. clear Em.
      assert (Hr : forall r, rounds SC f r (fix_all Fa) true Pa ma = (F2, false, P2, m2) -> False).
      { intros r Hr. pose proof (rounds_err _ _ _ _ _ _ _ _ _ Hr Hnda C1) as E. discriminate E. lia. }
      destruct round as [| r]; [exact (Hr _ H1) |].
      destruct na; [inversion H1 | exact (Hr _ H1)]. }
    subst ea.
    destruct (augment_loop_confluent _ _ _ _ _ _ _ _ _ _ _ _ _ _ _ _ _ _ _ Hf HP Hnd Hnd' Hc1 Hc2
                (le_n_S _ _ Hlen) (le_n_S _ _ Hlen') L1 L2)
      as [Hea' [Hfa [Hpa [Hn Hm]]]].
    subst ea'. rewrite !Nat.sub_0_r in Hn. subst na'.
    assert (Hfb : forest_eqv (fix_all Fa) (fix_all Fa')) by (apply Hfix; exact Hfa).
    assert (Hterm : (fix_all Fa, false, Pa, ma) = (F2, false, P2, m2) ->
                    (fix_all Fa', false, Pa', ma') = (F2', e2', P2', m2') ->
                    e2' = false /\ forest_eqv F2 F2' /\ Permutation (all_pending P2) (all_pending P2')).
    { intros X1 X2. inversion X1; subst. inversion X2; subst. auto. }
    assert (Hrec : forall r, rounds SC f r (fix_all Fa) false Pa ma = (F2, false, P2, m2) ->
                             rounds SC f r (fix_all Fa') false Pa' ma' = (F2', e2', P2', m2') ->
                    e2' = false /\ forest_eqv F2 F2' /\ Permutation (all_pending P2) (all_pending P2')).
    { intros r X1 X2. eapply (IH r); [exact Hfb | exact Hpa | exact Hnda | exact Hnda' | exact C1 | exact C2 | lia | exact X1 | exact X2]. }
    destruct ma as [| m0 ms] eqn:Em.
    + pose proof (proj1 Hm eq_refl) as X. subst ma'. cbv iota in H1, H2. apply Hterm; assumption.
    + destruct ma' as [| m0' ms'] eqn:Em'.
      { pose proof (proj2 Hm eq_refl) as X. discriminate X. }
      cbv iota in H1, H2.
      destruct round as [| r]; [apply (Hrec _ H1 H2) |].
      destruct na.
      * apply Hterm; assumption.
      * apply (Hrec _ H1 H2).
Qed.

End Rounds.

Section ProcessOrder.
Variable SC : schema.
Variable ic ins : bool.

Lemma all_pending_nil_lookup : forall (P : pendings), all_pending P = [] ->
  forall mn pend, lookup mn P = Some pend -> pend = [].
Proof.
  intros P He mn pend Hl. destruct pend as [| a pend]; [reflexivity |]. exfalso.
  pose proof (lookup_incl_all_pending P mn (a :: pend) a Hl (or_introl eq_refl)) as Hin.
  rewrite He in Hin. contradiction.
Qed.

Lemma final_pass_nopending : forall mods (F : forest) (err : bool) (P : pendings),
  (forall mn pend, lookup mn P = Some pend -> pend = []) ->
  exists P', final_pass SC (F, err, P) mods = (F, err, P').
Proof.
  unfold final_pass. induction mods as [| mn rest IH]; intros F err P H; simpl; [eauto |].
  assert (Hp : match lookup mn P with Some l => l | None => [] end = []).
  { destruct (lookup mn P) as [l |] eqn:E; [apply (H mn l E) | reflexivity]. }
  rewrite Hp. simpl. apply IH.
  intros mn' pend' Hl. rewrite lookup_update in Hl. destruct (str_eqb mn' mn).
  - destruct (lookup mn P); [inversion Hl; reflexivity | discriminate].
  - apply (H mn' pend' Hl).
Qed.

Lemma find_module_In : forall (S : schema) mn m, find_module S mn = Some m -> In m S.
Proof.
  induction S as [| x S IH]; simpl; intros mn m H; [discriminate |].
  destruct (str_eqb (m_name x) mn); [inversion H; left; reflexivity | right; eapply IH; eauto].
Qed.

Definition no_deviations : Prop := forall m, In m SC -> m_deviations m = [].

Lemma deviation_stage_nodev : no_deviations -> forall order st, deviation_stage SC ins order st = st.
Proof.
  intros Hnd. unfold deviation_stage. induction order as [| mn rest IH]; intros st; simpl; [reflexivity |].
  destruct (find_module SC mn) as [m |] eqn:E; [| apply IH].
  rewrite (Hnd m (find_module_In SC mn m E)). simpl. destruct st. apply IH.
Qed.

(* T2 at the level of Process, for schemas without deviations, under the premise that FixChoice is a
   function of the view: when the rounds applied every augment in one visiting order, every other
   visiting order gives a clean, equivalent result *)
Theorem process_order_independent : fix_all_compat -> no_deviations ->
  NoDup (map m_name SC) -> forall o1 o2, covers (pend0 SC) o1 -> covers (pend0 SC) o2 ->
  sources_ok SC ic = true ->
  forall F2 P1, augment_stage SC ic o1 = (F2, false, P1, []) ->
  Process SC ic ins o1 = ROk F2 /\
  exists F2', Process SC ic ins o2 = ROk F2' /\ forest_eqv F2 F2'.
Proof.
  intros Hfix Hnodev Hnd o1 o2 Hc1 Hc2 Hok F2 P1 Hs1.
  assert (Hndp : NoDup (map fst (pend0 SC))) by (rewrite pend0_keys; exact Hnd).
  assert (Hlen : (length (all_pending (pend0 SC)) <= n_aug SC)%nat) by (rewrite n_aug_pending; lia).
  unfold augment_stage in Hs1.
  destruct (rounds_spec SC _ _ _ _ _ _ _ _ _ _ Hs1 Hndp Hc1 Hlen) as [_ [Hk1 [Hcov1 _]]].
  assert (Hemp1 : all_pending P1 = []).
  { apply covers_nil; [rewrite Hk1; exact Hndp | exact Hcov1]. }
  split.
  - rewrite Process_stages. unfold Process_staged, augment_stage. rewrite Hok, Hs1. cbv beta iota. unfold process_tail.
    destruct (final_pass_nopending [] F2 false P1 (all_pending_nil_lookup P1 Hemp1)) as [P' Hfp].
    rewrite Hfp. rewrite (deviation_stage_nodev Hnodev). reflexivity.
  - destruct (rounds SC (S (S (n_aug SC))) 0 (forest0 SC ic) false (pend0 SC) o2) as [[[F2' e2'] P1'] m1'] eqn:Hs2.
    destruct (rounds_confluent SC Hfix _ _ _ _ _ _ _ _ _ _ _ _ _ _ _
                (fun p => eq_refl) (Permutation_refl _) Hndp Hndp Hc1 Hc2 Hlen Hs1 Hs2) as [He2 [Hfe Hp]].
    subst e2'. rewrite Hemp1 in Hp. apply Permutation_nil in Hp.
    exists F2'. split; [| exact Hfe].
    rewrite Process_stages. unfold Process_staged, augment_stage. rewrite Hok, Hs2. cbv beta iota. unfold process_tail.
    destruct (final_pass_nopending m1' F2' false P1' (all_pending_nil_lookup P1' Hp)) as [P' Hfp].
    rewrite Hfp. rewrite (deviation_stage_nodev Hnodev). reflexivity.
Qed.

End ProcessOrder.



(* ------------------------------------------------------------------ T4 along a run *)
Section Attribution.
Variable SC : schema.

Lemma fle_trans : forall f g h, fle f g -> fle g h -> fle f h.
Proof. intros f g h H1 H2 q l H. apply H2. apply H1. exact H. Qed.

Lemma feq_fle : forall f g, feq f g -> fle f g.
Proof. intros f g H q l Hq. rewrite <- H. exact Hq. Qed.

(* steps only add nodes *)
Lemma vrun_fle : forall fl P d fl' P' d', vrun SC fl P d fl' P' d' -> fle fl fl'.
Proof.
  unfold vrun. induction 1 as [s s' P P' d He Hp | s P d a t c t' Q s' P' d' Hst He Hp Hr IH].
  - apply feq_fle. exact He.
  - apply astep_inv in Hst. destruct Hst as [p [l [_ [_ [_ [Ht _]]]]]]. subst t.
    eapply fle_trans; [apply fle_agraft |]. eapply fle_trans; [apply feq_fle; exact He | exact IH].
Qed.

(* T4: the nodes an applied augment defines stay where they were grafted, with their labels, and are
   attributed to the augmenting module's namespace in every later state of the run *)
Theorem augment_attributed : forall s a t c t' Q d fl1 P1 d1 p k c0 rest node,
  prefix_closed s -> astep SC s a = Some (t, c) -> feq t t' -> vrun SC t' Q d fl1 P1 d1 ->
  afind SC s (a_mod a) (m_name (a_mod a), []) (a_path a) = Some p ->
  s (fst p, snd p ++ [SChild k]) = None -> lookup k (a_dir a) = Some c0 -> ns_free c0 ->
  vlocate c0 rest = Some node ->
  fl1 (fst p, snd p ++ SChild k :: rest) =
    Some (lab (match rest with [] => stamp (owner_ns SC (a_mod a)) c0 | _ => node end)) /\
  vns fl1 (fst p, snd p ++ SChild k :: rest) = Some (owner_ns SC (a_mod a)).
Proof.
  intros s a t c t' Q d fl1 P1 d1 p k c0 rest node Hpc Hst Ht Hrun Hfind Hk Hl Hfree Hnode.
  apply astep_inv in Hst. destruct Hst as [p' [lp [Hf' [Hlp [_ [Heq _]]]]]].
  rewrite Hfind in Hf'. inversion Hf'; subst p'. clear Hf'.
  destruct (graft_namespace s p lp (owner_ns SC (a_mod a)) (a_dir a) k c0 rest node Hpc Hlp Hk Hl Hfree Hnode)
    as [G1 G2].
  rewrite <- Heq in G1, G2.
  assert (Hle : fle t fl1).
  { eapply fle_trans; [apply feq_fle; exact Ht | apply (vrun_fle _ _ _ _ _ _ Hrun)]. }
  split; [apply Hle; exact G1 |].
  unfold vns in *. cbn [fst snd] in *. rewrite (vns_walk_fle t fl1 Hle); [exact G2 |].
  apply pc_path_exists.
  - subst t. apply prefix_closed_agraft; [exact Hpc | congruence].
  - rewrite G1. discriminate.
Qed.

(* ... read on the model's forest *)
Lemma Namespace_of_view : forall F fl q n, feq (flat_of F) fl -> lookup (fst q) F <> None ->
  vns fl q = Some n -> Namespace SC F q = n.
Proof.
  intros F fl q n Hf Hl Hv. rewrite Namespace_view.
  destruct (lookup (fst q) F); [| contradiction].
  unfold vns in *. rewrite (vns_walk_feq _ _ Hf). rewrite Hv. reflexivity.
Qed.

End Attribution.

(* ------------------------------------------------------------------ exactly once in the child map *)
Lemma merge_dir_err_mono : forall ns kids d, snd (merge_dir (d, true) ns kids) = true.
Proof.
  intros ns kids. unfold merge_dir. induction kids as [| [k0 v0] kids IH]; intros d; simpl; [reflexivity |].
  destruct (lookup k0 d); apply IH.
Qed.

(* a clean merge appends every child under its own name, once *)
Lemma merge_dir_clean_keys : forall ns kids d,
  snd (merge_dir (d, false) ns kids) = false ->
  map fst (fst (merge_dir (d, false) ns kids)) = map fst d ++ map fst kids /\
  (NoDup (map fst d) -> NoDup (map fst (fst (merge_dir (d, false) ns kids)))).
Proof.
  intros ns kids. unfold merge_dir. induction kids as [| [k0 v0] kids IH]; intros d H; simpl in *.
  - rewrite app_nil_r. auto.
  - destruct (lookup k0 d) as [c0 |] eqn:E.
    + pose proof (merge_dir_err_mono ns kids d) as Hm. unfold merge_dir in Hm. congruence.
    + destruct (IH _ H) as [I1 I2]. split.
      * rewrite I1. rewrite map_app. simpl. rewrite <- app_assoc. reflexivity.
      * intros Hnd. apply I2. rewrite map_app. simpl.
        apply (Permutation_NoDup (Permutation_cons_append (map fst d) k0)).
        constructor; [apply lookup_None; exact E | exact Hnd].
Qed.

(* every module of the schema in the visiting order: the work list covers the table *)
Lemma covers_all : forall SC order, (forall m, In m SC -> In (m_name m) order) -> covers (pend0 SC) order.
Proof.
  intros SC order H mn pend Hl _. apply lookup_In in Hl. rewrite pend0_keys in Hl.
  apply in_map_iff in Hl. destruct Hl as [m [Hm Hin]]. subst mn. apply H. exact Hin.
Qed.



(* ------------------------------------------------------------------ ToEntry builds trees without namespace stamps *)
Definition dir_ok (d : list (str * entry)) : Prop := forall k c, lookup k d = Some c -> ns_free c.

Lemma ns_free_intro : forall e, e_ns e = None ->
  (forall d, e_dir e = Some d -> dir_ok d) ->
  (forall i o, e_rpc e = Some (i, o) -> ns_free (io_or_empty true i) /\ ns_free (io_or_empty false o)) ->
  ns_free e.
Proof.
  intros e Hn Hd Hr steps x H. destruct steps as [| s r]; simpl in H.
  - inversion H; subst. exact Hn.
  - destruct s.
    + destruct (e_dir e) as [d |] eqn:Ed; [| discriminate].
      destruct (lookup n d) as [c |] eqn:El; [| discriminate].
      apply (Hd d eq_refl n c El r x H).
    + destruct (e_rpc e) as [[i o] |] eqn:Er; [| discriminate].
      apply (proj1 (Hr i o eq_refl) r x H).
    + destruct (e_rpc e) as [[i o] |] eqn:Er; [| discriminate].
      apply (proj2 (Hr i o eq_refl) r x H).
Qed.

Lemma ns_free_child : forall e d k c, ns_free e -> e_dir e = Some d -> lookup k d = Some c -> ns_free c.
Proof.
  intros e d k c H Hd Hl steps x Hx. apply (H (SChild k :: steps) x). simpl. rewrite Hd, Hl. exact Hx.
Qed.

Lemma ns_free_empty_io : forall b, ns_free (empty_io b).
Proof.
  intros b. apply ns_free_intro; [reflexivity | |].
  - intros d Hd. inversion Hd; subst. intros k c Hl. discriminate.
  - intros i o Hr. discriminate.
Qed.

Lemma dir_ok_nil : dir_ok [].
Proof. intros k c H. discriminate. Qed.

Lemma dir_ok_add_child : forall acc key v, dir_ok (fst acc) -> ns_free (fst v) ->
  dir_ok (fst (add_child acc key v)).
Proof.
  intros [d e] key v Hd Hv. unfold add_child. destruct (lookup key d) eqn:E; simpl; [exact Hd |].
  intros k c Hl. rewrite lookup_app in Hl. destruct (lookup k d) as [c' |] eqn:Ek.
  - inversion Hl; subst. apply (Hd k c Ek).
  - simpl in Hl. destruct (str_eqb k key); [inversion Hl; subst; exact Hv | discriminate].
Qed.

Lemma dir_ok_merge_dir : forall acc oe, dir_ok (fst acc) -> dir_ok oe -> dir_ok (fst (merge_dir acc None oe)).
Proof.
  intros acc oe Ha Ho k c Hl. rewrite lookup_merge_dir in Hl.
  destruct (lookup k (fst acc)) as [c' |] eqn:Ek.
  - inversion Hl; subst. apply (Ha k c Ek).
  - destruct (lookup k oe) as [c' |] eqn:Eo; [| discriminate]. simpl in Hl. inversion Hl; subst. apply (Ho k c Eo).
Qed.

Section ToEntryNs.
Variable SC : schema.

(* the statement-list fold inside to_entry, with the recursive calls at fuel f *)
Definition body_step (f : nat) (c' : gctx) (busy : list nat) (acc : list (str * entry) * bool) (ch : dnode)
  : list (str * entry) * bool :=
  match ch with
  | DGrouping gid _ gb =>
      let '(_, e) := to_entry SC f c' busy ch in (fst acc, snd acc || e)
  | DUses g =>
      match FindGrouping SC c' g with
      | None => (fst acc, true)
      | Some (gid, gb, gc) =>
        if existsb (Nat.eqb gid) busy then (fst acc, true)
        else
          let '(ge, gerr) := to_entry SC f gc (gid :: busy) (DGrouping gid [] gb) in
          let '(d, e) := merge_dir acc None (match e_dir ge with Some d => d | None => [] end) in
          (d, e || gerr)
      end
  | _ => let b := to_entry SC f c' busy ch in add_child acc (e_name (fst b)) b
  end.

Definition body_dir (f : nat) (c : gctx) (busy : list nat) (body : list dnode) : list (str * entry) * bool :=
  fold_left (body_step f {| g_mod := g_mod c; g_scopes := body :: g_scopes c |} busy) body ([], false).

Lemma body_dir_ok : forall f, (forall c busy n, ns_free (fst (to_entry SC f c busy n))) ->
  forall c busy body, dir_ok (fst (body_dir f c busy body)).
Proof.
  intros f IH c busy body. unfold body_dir.
  generalize ({| g_mod := g_mod c; g_scopes := body :: g_scopes c |}) as c'. intros c'.
  assert (G : forall l acc, dir_ok (fst acc) -> dir_ok (fst (fold_left (body_step f c' busy) l acc))).
  { induction l as [| ch l IHl]; intros acc Ha; simpl; [exact Ha |]. apply IHl.
    destruct ch; unfold body_step;
      try (apply dir_ok_add_child; [exact Ha | apply IH]).
    - (* uses *)
      destruct (FindGrouping SC c' gname) as [[[gid gb] gc] |]; [| exact Ha].
      destruct (existsb (Nat.eqb gid) busy); [exact Ha |].
      pose proof (IH gc (gid :: busy) (DGrouping gid [] gb)) as Hge.
      destruct (to_entry SC f gc (gid :: busy) (DGrouping gid [] gb)) as [ge gerr]. simpl in Hge.
      pose proof (dir_ok_merge_dir acc (match e_dir ge with Some d => d | None => [] end) Ha) as Hm.
      destruct (merge_dir acc None (match e_dir ge with Some d => d | None => [] end)) as [d e]. simpl in *.
      apply Hm. destruct (e_dir ge) as [dg |] eqn:Eg; [| apply dir_ok_nil].
      intros k c0 Hl. apply (ns_free_child ge dg k c0 Hge Eg Hl).
    - (* grouping *)
      destruct (to_entry SC f c' busy (DGrouping gid name body0)) as [x e]. exact Ha. }
  apply G. apply dir_ok_nil.
Qed.

Lemma to_entry_S : forall f c busy n,
  to_entry SC (S f) c busy n =
  match n with
  | DLeaf name ty cfg mand dflt units =>
      leaf_entry name ty cfg mand (match dflt with Some d => [d] | None => [] end) units
  | DLeafList name ty cfg dflts minE maxE =>
      let '(mx, bad) := semCheckMax maxE in
      (Entry name KLeaf cfg TSUnset dflts [] (Some ty) [] (Some (semCheckMin minE, mx, (is_some minE, is_some maxE))) None None None,
       negb (is_builtin ty) || bad)
  | DContainer name cfg body =>
      let '(d, e) := body_dir f c busy body in
      (Entry name KDir cfg TSUnset [] [] None [] None None (Some d) None, e)
  | DList name key cfg minE maxE body =>
      let '(d, e) := body_dir f c busy body in
      let '(mx, bad) := semCheckMax maxE in
      (Entry name KDir cfg TSUnset [] [] None (match key with Some k => k | None => [] end)
             (Some (semCheckMin minE, mx, (is_some minE, is_some maxE))) None (Some d) None, e || bad)
  | DChoice name cfg mand dflt body =>
      let '(d, e) := body_dir f c busy body in
      (Entry name KChoice cfg mand (match dflt with Some x => [x] | None => [] end) [] None [] None None (Some d) None, e)
  | DCase name body =>
      let '(d, e) := body_dir f c busy body in
      (Entry name KCase TSUnset TSUnset [] [] None [] None None (Some d) None, e)
  | DAny xml name cfg mand =>
      (Entry name (if xml then KAnyXML else KAnyData) cfg mand [] [] None [] None None (Some []) None, false)
  | DUses g => (newDirectory g, true)
  | DGrouping gid name body =>
      let '(d, e) := body_dir f c busy body in
      (Entry name KDir TSUnset TSUnset [] [] None [] None None (Some d) None, e)
  | DRpc action name input output =>
      let io (k : ekind) (nm : str) (b : option (list dnode)) : option entry * bool :=
        match b with
        | None => (None, false)
        | Some body => let '(d, e) := body_dir f c busy body in
                       (Some (Entry nm k TSUnset TSUnset [] [] None [] None None (Some d) None), e)
        end in
      let '(i, ei) := io KInput s_input input in
      let '(o, eo) := io KOutput s_output output in
      let r := match i, o with
               | None, None => Some (None, None)
               | _, _ => Some (i, o)
               end in
      (Entry name KDir TSUnset TSUnset [] [] None [] None None (Some []) r, ei || eo)
  | DNotification name body =>
      let '(d, e) := body_dir f c busy body in
      (Entry name KNotification TSUnset TSUnset [] [] None [] None None (Some d) None, e)
  end.
Proof. intros. destruct n; reflexivity. Qed.

Lemma ns_free_dir_node : forall name kind cfg mand dflt units ty key la d,
  dir_ok d -> ns_free (Entry name kind cfg mand dflt units ty key la None (Some d) None).
Proof.
  intros. apply ns_free_intro; [reflexivity | |].
  - intros d' Hd. inversion Hd; subst. assumption.
  - intros i o Hr. discriminate.
Qed.

Lemma ns_free_nodir_node : forall name kind cfg mand dflt units ty key la,
  ns_free (Entry name kind cfg mand dflt units ty key la None None None).
Proof.
  intros. apply ns_free_intro; [reflexivity | |].
  - intros d' Hd. discriminate.
  - intros i o Hr. discriminate.
Qed.

Theorem to_entry_ns_free : forall fuel c busy n, ns_free (fst (to_entry SC fuel c busy n)).
Proof.
  induction fuel as [| f IH]; intros c busy n.
  - simpl. apply ns_free_dir_node. apply dir_ok_nil.
  - rewrite to_entry_S. pose proof (body_dir_ok f IH) as HB.
    destruct n.
    + unfold leaf_entry. simpl. apply ns_free_nodir_node.
    + destruct (semCheckMax maxE) as [mx bad]. simpl. apply ns_free_nodir_node.
    + pose proof (HB c busy body) as H. destruct (body_dir f c busy body) as [d e]. simpl in *.
      apply ns_free_dir_node. exact H.
    + pose proof (HB c busy body) as H. destruct (body_dir f c busy body) as [d e].
      destruct (semCheckMax maxE) as [mx bad]. simpl in *. apply ns_free_dir_node. exact H.
    + pose proof (HB c busy body) as H. destruct (body_dir f c busy body) as [d e]. simpl in *.
      apply ns_free_dir_node. exact H.
    + pose proof (HB c busy body) as H. destruct (body_dir f c busy body) as [d e]. simpl in *.
      apply ns_free_dir_node. exact H.
    + simpl. apply ns_free_dir_node. apply dir_ok_nil.
    + simpl. apply ns_free_dir_node. apply dir_ok_nil.
    + pose proof (HB c busy body) as H. destruct (body_dir f c busy body) as [d e]. simpl in *.
      apply ns_free_dir_node. exact H.
    + (* rpc *)
      assert (Hio : forall k nm b,
                match (match b with
                       | None => (None, false)
                       | Some body => let '(d, e) := body_dir f c busy body in
                                      (Some (Entry nm k TSUnset TSUnset [] [] None [] None None (Some d) None), e)
                       end) with (Some x, _) => ns_free x | (None, _) => True end).
      { intros k nm b. destruct b as [body |]; [| exact I].
        pose proof (HB c busy body) as H. destruct (body_dir f c busy body) as [d e]. simpl in *.
        apply ns_free_dir_node. exact H. }
      pose proof (Hio KInput s_input input) as Hi. pose proof (Hio KOutput s_output output) as Ho.
      cbv zeta.
      destruct (match input with
                | None => (None, false)
                | Some body => let '(d, e) := body_dir f c busy body in
                               (Some (Entry s_input KInput TSUnset TSUnset [] [] None [] None None (Some d) None), e)
                end) as [i ei].
      destruct (match output with
                | None => (None, false)
                | Some body => let '(d, e) := body_dir f c busy body in
                               (Some (Entry s_output KOutput TSUnset TSUnset [] [] None [] None None (Some d) None), e)
                end) as [o eo].
      simpl. apply ns_free_intro; [reflexivity | |].
      * intros d Hd. inversion Hd; subst. apply dir_ok_nil.
      * intros i' o' Hr. simpl in Hr.
        assert (Hgen : ns_free (io_or_empty true i) /\ ns_free (io_or_empty false o)).
        { split; [destruct i; [exact Hi | apply ns_free_empty_io] | destruct o; [exact Ho | apply ns_free_empty_io]]. }
        destruct i as [xi |], o as [xo |]; inversion Hr; subst; exact Hgen.
    + pose proof (HB c busy body) as H. destruct (body_dir f c busy body) as [d e]. simpl in *.
      apply ns_free_dir_node. exact H.
Qed.

(* the children an augment grafts carry no stamp of their own *)
Theorem module_augs_ns_free : forall m a k c0, In a (module_augs SC m) -> lookup k (a_dir a) = Some c0 -> ns_free c0.
Proof.
  intros m a k c0 Ha Hl. unfold module_augs in Ha. apply in_map_iff in Ha. destruct Ha as [x [Hx _]].
  unfold body_entry in Hx.
  pose proof (to_entry_ns_free (entry_fuel SC) {| g_mod := m; g_scopes := [m_body m] |} [] (DGrouping O [] (snd x))) as Hf.
  destruct (to_entry SC (entry_fuel SC) {| g_mod := m; g_scopes := [m_body m] |} [] (DGrouping O [] (snd x))) as [e err].
  simpl in Hf. subst a. simpl in Hl.
  destruct (e_dir e) as [d |] eqn:Ed; [| discriminate].
  apply (ns_free_child e d k c0 Hf Ed Hl).
Qed.

Lemma pending0_ns_free : forall a k c0, In a (all_pending (pend0 SC)) -> lookup k (a_dir a) = Some c0 -> ns_free c0.
Proof.
  intros a k c0 Ha Hl. unfold all_pending, pend0 in Ha. rewrite map_map in Ha. simpl in Ha.
  apply in_concat in Ha. destruct Ha as [l [Hl' Hin]]. apply in_map_iff in Hl'. destruct Hl' as [m [Hm _]]. subst l.
  apply (module_augs_ns_free m a k c0 Hin Hl).
Qed.

End ToEntryNs.

(* T4 for the augments of the schema: no hypothesis on the grafted subtree is left *)
Theorem augment_attributed_schema : forall SC s a t c t' Q d fl1 P1 d1 p k c0 rest node,
  In a (all_pending (pend0 SC)) ->
  prefix_closed s -> astep SC s a = Some (t, c) -> feq t t' -> vrun SC t' Q d fl1 P1 d1 ->
  afind SC s (a_mod a) (m_name (a_mod a), []) (a_path a) = Some p ->
  s (fst p, snd p ++ [SChild k]) = None -> lookup k (a_dir a) = Some c0 ->
  vlocate c0 rest = Some node ->
  fl1 (fst p, snd p ++ SChild k :: rest) =
    Some (lab (match rest with [] => stamp (owner_ns SC (a_mod a)) c0 | _ => node end)) /\
  vns fl1 (fst p, snd p ++ SChild k :: rest) = Some (owner_ns SC (a_mod a)).
Proof.
  intros SC s a t c t' Q d fl1 P1 d1 p k c0 rest node Hin Hpc Hst Ht Hrun Hfind Hk Hl Hnode.
  apply (augment_attributed SC s a t c t' Q d fl1 P1 d1 p k c0 rest node Hpc Hst Ht Hrun Hfind Hk Hl); [| exact Hnode].
  apply (pending0_ns_free SC a k c0 Hin Hl).
Qed.



(* ================================================================== 9. FixChoice is a function of the view *)
(* fix_choice, one level *)
Definition fc_case (c : entry) : entry :=
  Entry (e_name c) KCase TSUnset TSUnset [] [] None [] None (e_ns c) (Some [(e_name c, c)]) None.
Definition fc_wrapv (c : entry) : entry := match e_kind c with KCase => c | _ => fc_case c end.
Definition fc_wrap (e : entry) : entry :=
  match e_kind e, e_dir e with
  | KChoice, Some d => set_dir e (Some (map (fun kv => (fst kv, fc_wrapv (snd kv))) d))
  | _, _ => e
  end.
Definition fc_children (f : nat) (e1 : entry) : entry :=
  match e_dir e1 with
  | Some d => set_dir e1 (Some (map (fun kv => (fst kv, fix_choice f (snd kv))) d))
  | None => e1
  end.
Definition fc_rpc (f : nat) (e2 : entry) : entry :=
  match e_rpc e2 with
  | Some (i, o) => set_rpc e2 (Some (option_map (fix_choice f) i, option_map (fix_choice f) o))
  | None => e2
  end.

Lemma fc_wrap1_eq : forall d : list (str * entry),
  map (fun kv => match e_kind (snd kv) with
                 | KCase => kv
                 | _ => (fst kv, Entry (e_name (snd kv)) KCase TSUnset TSUnset [] [] None [] None (e_ns (snd kv))
                                       (Some [(e_name (snd kv), snd kv)]) None)
                 end) d =
  map (fun kv => (fst kv, fc_wrapv (snd kv))) d.
Proof.
  intros d. apply map_ext. intros [k v]. unfold fc_wrapv, fc_case. simpl. destruct (e_kind v); reflexivity.
Qed.

Lemma fix_choice_step : forall f e, fix_choice (S f) e = fc_rpc f (fc_children f (fc_wrap e)).
Proof.
  intros f e. unfold fc_rpc, fc_children, fc_wrap. simpl fix_choice.
  destruct (e_kind e); try reflexivity.
  destruct (e_dir e) as [d |]; [| reflexivity]. rewrite fc_wrap1_eq. reflexivity.
Qed.

Lemma lookup_map_val : forall (g : entry -> entry) k (d : list (str * entry)),
  lookup k (map (fun kv => (fst kv, g (snd kv))) d) = option_map g (lookup k d).
Proof.
  intros g k d. induction d as [| [k' v] d IH]; simpl; [reflexivity |].
  destruct (str_eqb k k'); [reflexivity | exact IH].
Qed.

Lemma lab_set_dir_some : forall e d d', e_dir e = Some d -> lab (set_dir e (Some d')) = lab e.
Proof. intros. eapply lab_set_dir; eauto. Qed.

Lemma lab_fc_wrap : forall e, lab (fc_wrap e) = lab e.
Proof.
  intros e. unfold fc_wrap. destruct (e_kind e); try reflexivity.
  destruct (e_dir e) as [d |] eqn:Ed; [| reflexivity]. apply (lab_set_dir e d _ Ed).
Qed.
Lemma lab_fc_children : forall f e, lab (fc_children f e) = lab e.
Proof.
  intros f e. unfold fc_children. destruct (e_dir e) as [d |] eqn:Ed; [| reflexivity]. apply (lab_set_dir e d _ Ed).
Qed.
Lemma lab_fc_rpc : forall f e, lab (fc_rpc f e) = lab e.
Proof.
  intros f e. unfold fc_rpc. destruct (e_rpc e) as [[i o] |] eqn:Er; [| reflexivity]. apply (lab_set_rpc e _ _ Er).
Qed.

Lemma lab_fix_choice : forall n e, lab (fix_choice n e) = lab e.
Proof.
  intros n e. destruct n as [| f]; [reflexivity |].
  rewrite fix_choice_step, lab_fc_rpc, lab_fc_children, lab_fc_wrap. reflexivity.
Qed.

Lemma e_kind_lab : forall e e', lab e = lab e' -> e_kind e = e_kind e'.
Proof. intros e e' H. change (l_kind (lab e) = l_kind (lab e')). rewrite H. reflexivity. Qed.

(* the children of a node after one level of fix_choice *)
Lemma e_dir_fix_step : forall f e,
  e_dir (fix_choice (S f) e) =
  match e_dir e with
  | Some d => Some (map (fun kv => (fst kv, fix_choice f (match e_kind e with KChoice => fc_wrapv (snd kv) | _ => snd kv end))) d)
  | None => None
  end.
Proof.
  intros f e. rewrite fix_choice_step. unfold fc_rpc.
  assert (H : e_dir (fc_children f (fc_wrap e)) =
              match e_dir e with
              | Some d => Some (map (fun kv => (fst kv, fix_choice f (match e_kind e with KChoice => fc_wrapv (snd kv) | _ => snd kv end))) d)
              | None => None
              end).
  { unfold fc_children, fc_wrap. destruct (e_dir e) as [d |] eqn:Ed.
    - destruct (e_kind e) eqn:Ek; try (rewrite Ed, e_dir_set_dir; reflexivity).
      rewrite e_dir_set_dir, e_dir_set_dir, map_map. reflexivity.
    - destruct (e_kind e); rewrite Ed; exact Ed. }
  destruct (e_rpc (fc_children f (fc_wrap e))) as [[i o] |]; [rewrite e_dir_set_rpc |]; exact H.
Qed.

Lemma e_rpc_fix_step : forall f e,
  e_rpc (fix_choice (S f) e) =
  match e_rpc e with
  | Some (i, o) => Some (option_map (fix_choice f) i, option_map (fix_choice f) o)
  | None => None
  end.
Proof.
  intros f e. rewrite fix_choice_step.
  assert (H : e_rpc (fc_children f (fc_wrap e)) = e_rpc e).
  { unfold fc_children, fc_wrap. destruct (e_dir e) as [d |] eqn:Ed.
    - destruct (e_kind e) eqn:Ek; try (rewrite Ed, e_rpc_set_dir; reflexivity).
      rewrite e_dir_set_dir, e_rpc_set_dir, e_rpc_set_dir. reflexivity.
    - destruct (e_kind e); rewrite Ed; reflexivity. }
  unfold fc_rpc. rewrite H. destruct (e_rpc e) as [[i o] |] eqn:Er; [rewrite e_rpc_set_rpc; reflexivity | exact H].
Qed.

Lemma lookup_fix_dir : forall f (e : entry) n (d : list (str * entry)),
  lookup n (map (fun kv => (fst kv, fix_choice f (match e_kind e with KChoice => fc_wrapv (snd kv) | _ => snd kv end))) d) =
  option_map (fun v => fix_choice f (match e_kind e with KChoice => fc_wrapv v | _ => v end)) (lookup n d).
Proof.
  intros f e n d. induction d as [| [k' v] d IH]; simpl; [reflexivity |].
  destruct (str_eqb n k'); [reflexivity | exact IH].
Qed.

Lemma fix_choice_empty_io : forall n b, fix_choice n (empty_io b) = empty_io b.
Proof. intros n b. destruct n; [reflexivity |]. destruct b; reflexivity. Qed.

(* view equality of trees *)
Definition veq (e e' : entry) : Prop := forall q, option_map lab (vlocate e q) = option_map lab (vlocate e' q).

Lemma veq_refl : forall e, veq e e.
Proof. intros e q. reflexivity. Qed.

Lemma veq_lab : forall e e', veq e e' -> lab e = lab e'.
Proof. intros e e' H. specialize (H []). simpl in H. congruence. Qed.

Lemma veq_child : forall e e' k, veq e e' ->
  match e_dir e, e_dir e' with
  | Some d, Some d' => match lookup k d, lookup k d' with
                       | Some c, Some c' => veq c c'
                       | None, None => True
                       | _, _ => False
                       end
  | None, None => True
  | _, _ => False
  end.
Proof.
  intros e e' k H. pose proof (veq_lab e e' H) as Hl.
  assert (Hd : is_some (e_dir e) = is_some (e_dir e')) by (change (l_hasdir (lab e) = l_hasdir (lab e')); rewrite Hl; reflexivity).
  destruct (e_dir e) as [d |] eqn:Ed; destruct (e_dir e') as [d' |] eqn:Ed'; try discriminate; [| exact I].
  pose proof (H [SChild k]) as H1. simpl in H1. rewrite Ed, Ed' in H1.
  destruct (lookup k d) as [c |] eqn:Ec; destruct (lookup k d') as [c' |] eqn:Ec'; try discriminate; [| exact I].
  intros q. specialize (H (SChild k :: q)). simpl in H. rewrite Ed, Ed', Ec, Ec' in H. exact H.
Qed.

Lemma veq_io : forall e e', veq e e' ->
  match e_rpc e, e_rpc e' with
  | Some (i, o), Some (i', o') => veq (io_or_empty true i) (io_or_empty true i') /\
                                  veq (io_or_empty false o) (io_or_empty false o')
  | None, None => True
  | _, _ => False
  end.
Proof.
  intros e e' H. pose proof (veq_lab e e' H) as Hl.
  assert (Hd : is_some (e_rpc e) = is_some (e_rpc e')) by (change (l_isrpc (lab e) = l_isrpc (lab e')); rewrite Hl; reflexivity).
  destruct (e_rpc e) as [[i o] |] eqn:Er; destruct (e_rpc e') as [[i' o'] |] eqn:Er'; try discriminate; [| exact I].
  split; intros q.
  - specialize (H (SIn :: q)). simpl in H. rewrite Er, Er' in H. exact H.
  - specialize (H (SOut :: q)). simpl in H. rewrite Er, Er' in H. exact H.
Qed.

Lemma veq_fc_case : forall c c', veq c c' -> veq (fc_case c) (fc_case c').
Proof.
  intros c c' H. pose proof (veq_lab c c' H) as Hl.
  assert (Hn : e_name c = e_name c') by (change (l_name (lab c) = l_name (lab c')); rewrite Hl; reflexivity).
  assert (Hs : e_ns c = e_ns c') by (change (l_ns (lab c) = l_ns (lab c')); rewrite Hl; reflexivity).
  intros q. destruct q as [| s r]; simpl.
  - unfold fc_case, lab. simpl. rewrite Hn, Hs. reflexivity.
  - destruct s; try reflexivity. simpl. rewrite <- Hn.
    destruct (str_eqb n (e_name c)); [apply H | reflexivity].
Qed.

Lemma veq_fc_wrapv : forall c c', veq c c' -> veq (fc_wrapv c) (fc_wrapv c').
Proof.
  intros c c' H. unfold fc_wrapv. rewrite <- (e_kind_lab c c' (veq_lab c c' H)).
  destruct (e_kind c); try (apply veq_fc_case; exact H). exact H.
Qed.

(* the same fuel on trees with equal views gives trees with equal views *)
Lemma fix_choice_veq : forall n e e', veq e e' -> veq (fix_choice n e) (fix_choice n e').
Proof.
  induction n as [| f IH]; intros e e' H; [exact H |].
  pose proof (veq_lab e e' H) as Hl. pose proof (e_kind_lab e e' Hl) as Hk.
  intros q. destruct q as [| s r].
  - cbn [vlocate option_map]. rewrite !lab_fix_choice. rewrite Hl. reflexivity.
  - destruct s.
    + cbn [vlocate]. rewrite !e_dir_fix_step. pose proof (veq_child e e' n H) as Hc. rewrite <- Hk.
      destruct (e_dir e) as [d |]; destruct (e_dir e') as [d' |]; try contradiction; [| reflexivity].
      rewrite !lookup_fix_dir.
      destruct (lookup n d) as [c |]; destruct (lookup n d') as [c' |]; try contradiction; [| reflexivity].
      simpl. apply IH. destruct (e_kind e); try exact Hc. apply veq_fc_wrapv. exact Hc.
    + cbn [vlocate]. rewrite !e_rpc_fix_step. pose proof (veq_io e e' H) as Hio.
      destruct (e_rpc e) as [[i o] |]; destruct (e_rpc e') as [[i' o'] |]; try contradiction; [| reflexivity].
      destruct Hio as [Hi _].
      replace (io_or_empty true (option_map (fix_choice f) i)) with (fix_choice f (io_or_empty true i))
        by (destruct i; [reflexivity | apply fix_choice_empty_io]).
      replace (io_or_empty true (option_map (fix_choice f) i')) with (fix_choice f (io_or_empty true i'))
        by (destruct i'; [reflexivity | apply fix_choice_empty_io]).
      apply IH. exact Hi.
    + cbn [vlocate]. rewrite !e_rpc_fix_step. pose proof (veq_io e e' H) as Hio.
      destruct (e_rpc e) as [[i o] |]; destruct (e_rpc e') as [[i' o'] |]; try contradiction; [| reflexivity].
      destruct Hio as [_ Ho].
      replace (io_or_empty false (option_map (fix_choice f) o)) with (fix_choice f (io_or_empty false o))
        by (destruct o; [reflexivity | apply fix_choice_empty_io]).
      replace (io_or_empty false (option_map (fix_choice f) o')) with (fix_choice f (io_or_empty false o'))
        by (destruct o'; [reflexivity | apply fix_choice_empty_io]).
      apply IH. exact Ho.
Qed.



Lemma veq_sym : forall e e', veq e e' -> veq e' e.
Proof. intros e e' H q. symmetry. apply H. Qed.
Lemma veq_trans : forall a b c, veq a b -> veq b c -> veq a c.
Proof. intros a b c H1 H2 q. rewrite H1. apply H2. Qed.

Lemma e_kind_fix_choice : forall n e, e_kind (fix_choice n e) = e_kind e.
Proof. intros n e. apply e_kind_lab. apply lab_fix_choice. Qed.

Lemma e_kind_fc_wrapv : forall c, e_kind (fc_wrapv c) = KCase.
Proof. intros c. unfold fc_wrapv. destruct (e_kind c) eqn:E; try reflexivity. exact E. Qed.

Lemma fc_wrapv_case : forall c, e_kind c = KCase -> fc_wrapv c = c.
Proof. intros c H. unfold fc_wrapv. rewrite H. reflexivity. Qed.

(* only the child map and the rpc part change *)
Lemma fix_choice_rebuild : forall f e,
  fix_choice (S f) e = set_rpc (set_dir e (e_dir (fix_choice (S f) e))) (e_rpc (fix_choice (S f) e)).
Proof.
  intros f e. rewrite fix_choice_step. unfold fc_rpc, fc_children, fc_wrap.
  destruct e as [n k c m df u t ky la ns d r]. simpl.
  destruct k; destruct d as [d |]; destruct r as [[i o] |]; reflexivity.
Qed.

Lemma set_dir_rpc_same : forall e, set_rpc (set_dir e (e_dir e)) (e_rpc e) = e.
Proof. destruct e; reflexivity. Qed.

(* fixing with less fuel what was fixed with more changes nothing *)
Lemma fix_choice_absorb : forall n K e, (n <= K)%nat -> fix_choice n (fix_choice K e) = fix_choice K e.
Proof.
  induction n as [| f IH]; intros K e Hle; [reflexivity |].
  destruct K as [| K']; [lia |].
  set (y := fix_choice (S K') e).
  rewrite fix_choice_rebuild.
  assert (Hd : e_dir (fix_choice (S f) y) = e_dir y).
  { rewrite e_dir_fix_step. unfold y at 1 2 3. rewrite e_kind_fix_choice. rewrite e_dir_fix_step.
    destruct (e_dir e) as [d |]; [| reflexivity]. f_equal. rewrite map_map. apply map_ext. intros [k v]. simpl. f_equal.
    destruct (e_kind e) eqn:Ek; try (apply IH; lia).
    rewrite fc_wrapv_case; [apply IH; lia |]. rewrite e_kind_fix_choice. apply e_kind_fc_wrapv. }
  assert (Hr : e_rpc (fix_choice (S f) y) = e_rpc y).
  { rewrite e_rpc_fix_step. unfold y. rewrite e_rpc_fix_step.
    destruct (e_rpc e) as [[i o] |]; [| reflexivity].
    f_equal. f_equal; [destruct i | destruct o]; simpl; try reflexivity; f_equal; apply IH; lia. }
  rewrite Hd, Hr. apply set_dir_rpc_same.
Qed.

(* ------------------------------------------------------------------ height of the view *)
Definition VH (h : nat) (e : entry) : Prop := forall q x, vlocate e q = Some x -> (length q < h)%nat.

Lemma VH_mono : forall h h' e, VH h e -> (h <= h')%nat -> VH h' e.
Proof. intros h h' e H Hle q x Hq. specialize (H q x Hq). lia. Qed.

Lemma veq_VH : forall h e e', veq e e' -> VH h e -> VH h e'.
Proof.
  intros h e e' Hv H q x Hq. specialize (Hv q). rewrite Hq in Hv. simpl in Hv.
  destruct (vlocate e q) as [y |] eqn:E; [| discriminate]. apply (H q y E).
Qed.

Lemma VH_child : forall h e d k c, VH (S h) e -> e_dir e = Some d -> lookup k d = Some c -> VH h c.
Proof.
  intros h e d k c H Hd Hl q x Hq. specialize (H (SChild k :: q) x). simpl in H. rewrite Hd, Hl in H.
  specialize (H Hq). lia.
Qed.

Lemma VH_in : forall h e i o, VH (S h) e -> e_rpc e = Some (i, o) -> VH h (io_or_empty true i).
Proof.
  intros h e i o H Hr q x Hq. specialize (H (SIn :: q) x). simpl in H. rewrite Hr in H. specialize (H Hq). lia.
Qed.
Lemma VH_out : forall h e i o, VH (S h) e -> e_rpc e = Some (i, o) -> VH h (io_or_empty false o).
Proof.
  intros h e i o H Hr q x Hq. specialize (H (SOut :: q) x). simpl in H. rewrite Hr in H. specialize (H Hq). lia.
Qed.

Lemma VH_pos : forall h e, VH h e -> (0 < h)%nat.
Proof. intros h e H. specialize (H [] e eq_refl). simpl in H. exact H. Qed.

Lemma fix_choice_case : forall m c,
  fix_choice (S m) (fc_case c) = set_dir (fc_case c) (Some [(e_name c, fix_choice m c)]).
Proof. intros m c. rewrite fix_choice_step. reflexivity. Qed.

(* above twice the height of the view the fuel does not matter (for the view) *)
Lemma fix_choice_fuel_veq : forall h e n n', VH h e -> (2 * h <= n)%nat -> (2 * h <= n')%nat ->
  veq (fix_choice n e) (fix_choice n' e).
Proof.
  induction h as [| h IH]; intros e n n' Hv Hn Hn'.
  - apply VH_pos in Hv. lia.
  - destruct n as [| [| m]]; try lia. destruct n' as [| [| m']]; try lia.
    intros q. destruct q as [| s r].
    + cbn [vlocate option_map]. rewrite !lab_fix_choice. reflexivity.
    + destruct s.
      * cbn [vlocate]. rewrite !e_dir_fix_step.
        destruct (e_dir e) as [d |] eqn:Ed; [| reflexivity].
        rewrite !lookup_fix_dir. destruct (lookup n d) as [c |] eqn:Ec; [| reflexivity]. cbn [option_map].
        pose proof (VH_child h e d n c Hv Ed Ec) as Hc.
        assert (Hplain : forall z, VH h z -> option_map lab (vlocate (fix_choice (S m) z) r) =
                                             option_map lab (vlocate (fix_choice (S m') z) r)).
        { intros z Hz. apply (IH z (S m) (S m') Hz); lia. }
        destruct (e_kind e); try (apply Hplain; exact Hc).
        assert (Hw : fc_wrapv c = c \/ fc_wrapv c = fc_case c).
        { unfold fc_wrapv. destruct (e_kind c); auto. }
        destruct Hw as [Hw | Hw]; rewrite Hw; [apply Hplain; exact Hc |].
        rewrite !fix_choice_case.
        destruct r as [| s2 r2]; [reflexivity |].
        destruct s2; try reflexivity.
        cbn [vlocate]. rewrite !e_dir_set_dir. simpl lookup.
        destruct (str_eqb n0 (e_name c)); [| reflexivity].
        apply (IH c m m' Hc); lia.
      * cbn [vlocate]. rewrite !e_rpc_fix_step.
        destruct (e_rpc e) as [[i o] |] eqn:Er; [| reflexivity].
        replace (io_or_empty true (option_map (fix_choice (S m)) i)) with (fix_choice (S m) (io_or_empty true i))
          by (destruct i; [reflexivity | apply fix_choice_empty_io]).
        replace (io_or_empty true (option_map (fix_choice (S m')) i)) with (fix_choice (S m') (io_or_empty true i))
          by (destruct i; [reflexivity | apply fix_choice_empty_io]).
        apply (IH _ (S m) (S m') (VH_in h e i o Hv Er)); lia.
      * cbn [vlocate]. rewrite !e_rpc_fix_step.
        destruct (e_rpc e) as [[i o] |] eqn:Er; [| reflexivity].
        replace (io_or_empty false (option_map (fix_choice (S m)) o)) with (fix_choice (S m) (io_or_empty false o))
          by (destruct o; [reflexivity | apply fix_choice_empty_io]).
        replace (io_or_empty false (option_map (fix_choice (S m')) o)) with (fix_choice (S m') (io_or_empty false o))
          by (destruct o; [reflexivity | apply fix_choice_empty_io]).
        apply (IH _ (S m) (S m') (VH_out h e i o Hv Er)); lia.
Qed.

(* ------------------------------------------------------------------ the height *)
Lemma fold_max_le : forall (l : list nat) b, (forall v, In v l -> (v <= b)%nat) -> (fold_right Nat.max 0%nat l <= b)%nat.
Proof.
  induction l as [| a l IH]; intros b H; simpl; [lia |].
  pose proof (H a (or_introl eq_refl)). pose proof (IH b (fun v Hv => H v (or_intror Hv))). lia.
Qed.

Lemma fold_max_in : forall (l : list nat) v, In v l -> (v <= fold_right Nat.max 0%nat l)%nat.
Proof.
  induction l as [| a l IH]; intros v Hv; [destruct Hv |]. simpl.
  destruct Hv as [-> | Hv]; [lia |]. specialize (IH v Hv). lia.
Qed.

Lemma lookup_In_pair : forall {A} k (l : list (str * A)) v, lookup k l = Some v -> exists k', In (k', v) l.
Proof.
  intros A k l. induction l as [| [k' v'] l IH]; simpl; intros v H; [discriminate |].
  destruct (str_eqb k k').
  - inversion H; subst. exists k'. left. reflexivity.
  - destruct (IH v H) as [k2 Hin]. exists k2. right. exact Hin.
Qed.

(* the height of a tree bounds the height of its view (the view shows an empty input/output where an rpc has none,
   hence one more) *)
Lemma height_VH_le : forall n e, (height e <= n)%nat -> VH (S n) e.
Proof.
  induction n as [| n IH]; intros e Hle; [pose proof (SchemaLemmas.height_pos e); lia |].
  intros q x Hq. destruct q as [| s r]; [simpl; lia |].
  destruct s; simpl in Hq.
  - destruct (e_dir e) as [d |] eqn:Ed; [| discriminate].
    destruct (lookup n0 d) as [c |] eqn:Ec; [| discriminate].
    destruct (lookup_In_pair n0 d c Ec) as [k' Hin].
    pose proof (SchemaLemmas.height_child e d (k', c) Ed Hin) as Hc. cbn [snd] in Hc.
    assert (Hv : VH (S n) c) by (apply IH; lia).
    specialize (Hv r x Hq). simpl. lia.
  - destruct (e_rpc e) as [[i o] |] eqn:Er; [| discriminate].
    destruct i as [xi |]; simpl in Hq.
    + pose proof (SchemaLemmas.height_input e xi o Er) as Hc.
      assert (Hv : VH (S n) xi) by (apply IH; lia).
      specialize (Hv r x Hq). simpl. lia.
    + destruct r as [| s' r']; [simpl; lia |]. rewrite vlocate_empty_io in Hq. discriminate.
  - destruct (e_rpc e) as [[i o] |] eqn:Er; [| discriminate].
    destruct o as [xo |]; simpl in Hq.
    + pose proof (SchemaLemmas.height_output e i xo Er) as Hc.
      assert (Hv : VH (S n) xo) by (apply IH; lia).
      specialize (Hv r x Hq). simpl. lia.
    + destruct r as [| s' r']; [simpl; lia |]. rewrite vlocate_empty_io in Hq. discriminate.
Qed.

Lemma height_VH : forall e, VH (S (height e)) e.
Proof. intros e. apply height_VH_le. apply Nat.le_refl. Qed.



(* ------------------------------------------------------------------ fix_all *)
Section FixAll.

Definition mheight (F : forest) : nat := fold_right Nat.max 0%nat (map (fun kv => height (snd kv)) F).
Definition fix_fuel (F : forest) : nat := (2 * S (S (mheight F)))%nat.

Lemma fix_all_eq : forall F, fix_all F = map (fun kv => (fst kv, fix_choice (fix_fuel F) (snd kv))) F.
Proof. reflexivity. Qed.

Lemma lookup_fix_all : forall F mn, lookup mn (fix_all F) = option_map (fix_choice (fix_fuel F)) (lookup mn F).
Proof. intros F mn. rewrite fix_all_eq. apply lookup_map_val. Qed.

Lemma mheight_ge : forall F mn x, lookup mn F = Some x -> (height x <= mheight F)%nat.
Proof.
  intros F mn x Hl. destruct (lookup_In_pair mn F x Hl) as [k' Hin]. unfold mheight.
  apply fold_max_in. apply in_map_iff. exists (k', x). split; [reflexivity | exact Hin].
Qed.

(* the fuel exceeds twice the height of every tree's view *)
Lemma fix_fuel_enough : forall F mn x, lookup mn F = Some x -> VH (S (mheight F)) x.
Proof.
  intros F mn x Hl. pose proof (mheight_ge F mn x Hl) as Hge.
  apply (VH_mono (S (height x))); [apply height_VH | lia].
Qed.

Lemma forest_eqv_trees : forall F F' mn, forest_eqv F F' ->
  match lookup mn F, lookup mn F' with
  | Some x, Some x' => veq x x'
  | None, None => True
  | _, _ => False
  end.
Proof.
  intros F F' mn H. pose proof (H (mn, [])) as H0. unfold flat_of in H0. simpl in H0.
  destruct (lookup mn F) as [x |] eqn:E; destruct (lookup mn F') as [x' |] eqn:E'; try discriminate; [| exact I].
  intros q. specialize (H (mn, q)). unfold flat_of in H. simpl in H. rewrite E, E' in H. exact H.
Qed.

(* (1) FixChoice on all trees is a function of the view *)
Theorem fix_all_respects_eqv : fix_all_compat.
Proof.
  intros F F' H [mn q]. unfold flat_of. cbn [fst snd]. rewrite !lookup_fix_all.
  pose proof (forest_eqv_trees F F' mn H) as Ht.
  destruct (lookup mn F) as [x |] eqn:E; destruct (lookup mn F') as [x' |] eqn:E'; try contradiction; [| reflexivity].
  cbn [option_map].
  destruct (Nat.lt_trichotomy (mheight F) (mheight F')) as [Hlt | [Heq | Hgt]].
  - (* F is lower: its fuel is enough for x, and so is the larger one *)
    pose proof (fix_fuel_enough F mn x E) as Hv.
    assert (P1 : (2 * S (mheight F) <= fix_fuel F)%nat) by (unfold fix_fuel; lia).
    assert (P2 : (2 * S (mheight F) <= fix_fuel F')%nat) by (unfold fix_fuel; lia).
    rewrite (fix_choice_fuel_veq (S (mheight F)) x (fix_fuel F) (fix_fuel F') Hv P1 P2 q).
    apply (fix_choice_veq (fix_fuel F') x x' Ht q).
  - unfold fix_fuel. rewrite Heq. apply (fix_choice_veq _ x x' Ht q).
  - pose proof (fix_fuel_enough F' mn x' E') as Hv.
    assert (P1 : (2 * S (mheight F') <= fix_fuel F)%nat) by (unfold fix_fuel; lia).
    assert (P2 : (2 * S (mheight F') <= fix_fuel F')%nat) by (unfold fix_fuel; lia).
    rewrite <- (fix_choice_fuel_veq (S (mheight F')) x' (fix_fuel F) (fix_fuel F') Hv P1 P2 q).
    apply (fix_choice_veq (fix_fuel F) x x' Ht q).
Qed.

(* FixChoice twice is FixChoice once (for the view) *)
Theorem fix_all_idem : forall X, forest_eqv (fix_all (fix_all X)) (fix_all X).
Proof.
  intros X [mn q]. unfold flat_of. cbn [fst snd]. rewrite !lookup_fix_all.
  destruct (lookup mn X) as [x |] eqn:E; [| reflexivity]. cbn [option_map].
  set (Y := fix_all X). set (NX := fix_fuel X). set (NY := fix_fuel Y).
  set (y := fix_choice NX x).
  change (option_map lab (vlocate (fix_choice NY y) q) = option_map lab (vlocate y q)).
  (* the fuel of the first pass was enough for x, so any larger fuel gives the same view *)
  pose proof (fix_fuel_enough X mn x E) as Hv.
  set (K := Nat.max NX NY).
  assert (P1 : (2 * S (mheight X) <= NX)%nat) by (unfold NX, fix_fuel; lia).
  assert (P2 : (2 * S (mheight X) <= K)%nat) by (unfold K; lia).
  assert (Hyk : veq y (fix_choice K x)) by (apply (fix_choice_fuel_veq (S (mheight X)) x NX K Hv P1 P2)).
  rewrite (fix_choice_veq NY y (fix_choice K x) Hyk q).
  rewrite fix_choice_absorb by (unfold K; lia).
  symmetry. apply Hyk.
Qed.

End FixAll.



(* ================================================================== 10. the rounds reach their fixpoint *)
Section RoundsFinal.
Variable SC : schema.

Lemma vmaximal_eqv : forall s s' P P', feq s s' -> Permutation P P' -> vmaximal SC s P -> vmaximal SC s' P'.
Proof.
  intros s s' P P' He Hp Hm. unfold vmaximal in *.
  eapply (maximal_eqv feq (astep SC) (astep_compat_none SC)); eauto.
Qed.

Lemma vrun_n_maximal_zero : forall n s P d s' P' d', vrun_n SC n s P d s' P' d' -> vmaximal SC s P -> n = O.
Proof.
  intros n s P d s' P' d' H Hm. inversion H as [| n0 ? ? ? a t c t' Q ? ? ? Hst He Hp Hr]; subst; [reflexivity |].
  exfalso. assert (Ha : astep SC s a = None).
  { apply Hm. eapply Permutation_in; [apply Permutation_sym; exact Hp | left; reflexivity]. }
  rewrite Ha in Hst. discriminate.
Qed.

(* (2) the rounds never run out of fuel before reaching the state in which no pending augment is applicable *)
Lemma rounds_final : forall fuel round F err P mods F2 err2 P2 mods2,
  rounds SC fuel round F err P mods = (F2, err2, P2, mods2) ->
  NoDup (map fst P) -> covers P mods -> (length (all_pending P) <= n_aug SC)%nat ->
  (length (all_pending P) + (match round with O => 1 | _ => 0 end) < fuel)%nat ->
  (round <> O -> forest_eqv (fix_all F) F) ->
  vmaximal SC (flat_of F2) (all_pending P2).
Proof.
  induction fuel as [| f IH]; intros round F err P mods F2 err2 P2 mods2 H Hnd Hcov Hlen Hfuel Hfix; [lia |].
  rewrite rounds_S in H.
  destruct (augment_loop SC (S (n_aug SC)) F err P mods 0) as [[[[Fa ea] Pa] ma] na] eqn:L1.
  destruct (augment_loop_spec SC _ _ _ _ _ _ _ _ _ _ _ L1) as [x [n [R [_ [A [K [C [M T]]]]]]]];
    [lia | exact Hnd | exact Hcov |].
  pose proof (vrun_n_length SC _ _ _ _ _ _ _ (R false)) as Ll.
  assert (Hnda : NoDup (map fst Pa)) by (rewrite K; exact Hnd).
  assert (Hrec : rounds SC f (S round) (fix_all Fa) ea Pa ma = (F2, err2, P2, mods2) ->
                 (length (all_pending Pa) < f)%nat -> vmaximal SC (flat_of F2) (all_pending P2)).
  { intros Hr Hm. apply (IH _ _ _ _ _ _ _ _ _ Hr Hnda C); [lia | simpl; lia |].
    intros _. apply fix_all_idem. }
  destruct ma as [| m0 ms] eqn:Em.
  - inversion H; subst. rewrite (covers_nil P2 Hnda C). intros a [].
  - rewrite <- Em in *. clear Em m0 ms.
    destruct round as [| r].
    + assert (H' : rounds SC f 1 (fix_all Fa) ea Pa ma = (F2, err2, P2, mods2)).
      { destruct ma; [| exact H]. destruct na; exact H. }
      apply Hrec; [exact H' | simpl in Hfuel; lia].
    + destruct na as [| na'].
      * assert (H' : (fix_all Fa, ea, Pa, ma) = (F2, err2, P2, mods2)) by (destruct ma; exact H).
        inversion H'; subst. assert (n = O) by lia. subst n.
        destruct (vrun_n_zero SC _ _ _ _ _ _ (R false)) as [He [Hp _]].
        (* nothing was applied: Fa has the view of F, which FixChoice leaves alone *)
        assert (E1 : forest_eqv (fix_all Fa) (fix_all F)).
        { apply fix_all_respects_eqv. apply feq_sym. exact He. }
        assert (E2 : feq (flat_of Fa) (flat_of (fix_all Fa))).
        { apply feq_sym. eapply feq_trans; [exact E1 |]. eapply feq_trans; [apply Hfix; discriminate | exact He]. }
        apply (vmaximal_eqv _ _ _ _ E2 (Permutation_refl _) M).
      * assert (H' : rounds SC f (S (S r)) (fix_all Fa) ea Pa ma = (F2, err2, P2, mods2)) by (destruct ma; exact H).
        apply Hrec; [exact H' | simpl in Hfuel; lia].
Qed.

(* one turn of Entry.Augment when nothing pending is applicable: nothing is applied, only paths are looked up *)
Lemma augment_module_stuck : forall F err (P : pendings) mn b F' err' n un,
  augment_module SC F err (pend_of P mn) b = (F', err', n, un) ->
  vmaximal SC (flat_of F) (all_pending P) ->
  n = O /\ feq (flat_of F') (flat_of F) /\ Permutation (all_pending (update mn un P)) (all_pending P).
Proof.
  intros F err P mn b F' err' n un H Hm.
  destruct (augment_module_spec SC _ _ _ _ _ _ _ _ H) as [x [Hrun _]].
  assert (Hsub : vmaximal SC (flat_of F) (pend_of P mn)).
  { intros a Ha. apply Hm. unfold pend_of in Ha. destruct (lookup mn P) as [pend |] eqn:El; [| destruct Ha].
    eapply lookup_incl_all_pending; eauto. }
  pose proof (vrun_n_maximal_zero _ _ _ _ _ _ _ (Hrun false) Hsub) as Hn. subst n.
  destruct (vrun_n_zero SC _ _ _ _ _ _ (Hrun false)) as [Hf [Hp _]].
  split; [reflexivity |]. split; [apply feq_sym; exact Hf |].
  unfold pend_of in Hp. destruct (lookup mn P) as [pend |] eqn:El.
  - destruct (all_pending_update P mn pend El) as [R0 [H1 H2]].
    eapply perm_trans; [apply H2 |]. eapply perm_trans; [| apply Permutation_sym; exact H1].
    apply Permutation_app_tail. apply Permutation_sym. exact Hp.
  - apply Permutation_nil in Hp. subst un. rewrite (update_absent mn [] P El). apply Permutation_refl.
Qed.

Lemma final_pass_stuck : forall mods F err (P : pendings) F3 e3 P3,
  final_pass SC (F, err, P) mods = (F3, e3, P3) -> vmaximal SC (flat_of F) (all_pending P) ->
  feq (flat_of F3) (flat_of F) /\ Permutation (all_pending P3) (all_pending P).
Proof.
  unfold final_pass. induction mods as [| mn rest IH]; intros F err P F3 e3 P3 H Hm.
  - simpl in H. inversion H; subst. split; [apply feq_refl | apply Permutation_refl].
  - simpl in H. fold (pend_of P mn) in H.
    destruct (augment_module SC F err (pend_of P mn) true) as [[[F' err'] n] un] eqn:Ea.
    destruct (augment_module_stuck _ _ _ _ _ _ _ _ _ Ea Hm) as [_ [Hf Hp]].
    destruct (IH _ _ _ _ _ _ H) as [I1 I2].
    { apply (vmaximal_eqv _ _ _ _ (feq_sym _ _ Hf) (Permutation_sym Hp) Hm). }
    split; [eapply feq_trans; eauto | eapply perm_trans; eauto].
Qed.

End RoundsFinal.

(* ------------------------------------------------------------------ (4) in the vocabulary of Spec/C04.v *)
Lemma c04_rounds_eq : forall SC fuel round F err P mods,
  C04.rounds SC (n_aug SC) fuel round F err P mods = rounds SC fuel round F err P mods.
Proof.
  intros SC. induction fuel as [| f IH]; intros round F err P mods; [reflexivity |].
  rewrite rounds_S. cbn [C04.rounds].
  destruct (augment_loop SC (S (n_aug SC)) F err P mods 0) as [[[[Fa ea] Pa] ma] na].
  destruct ma as [| m0 ms]; [reflexivity |].
  destruct round as [| r]; [apply IH |]. destruct na; [reflexivity | apply IH].
Qed.

Lemma c04_stage_rounds_eq : forall SC ic order, C04.stage_rounds SC ic order = augment_stage SC ic order.
Proof. intros. unfold C04.stage_rounds, augment_stage. apply c04_rounds_eq. Qed.

Lemma final_cnt_stuck : forall SC mods F err (P : pendings) c,
  vmaximal SC (flat_of F) (all_pending P) ->
  snd (fold_left (C04.final_step_cnt SC) mods ((F, err, P), c)) = c.
Proof.
  intros SC. induction mods as [| mn rest IH]; intros F err P c Hm; [reflexivity |].
  simpl fold_left. unfold C04.final_step_cnt at 2. cbn [fst snd]. fold (pend_of P mn).
  destruct (augment_module SC F err (pend_of P mn) true) as [[[F' err'] n] un] eqn:Ea.
  destruct (augment_module_stuck SC _ _ _ _ _ _ _ _ _ Ea Hm) as [Hn [Hf Hp]]. subst n.
  rewrite IH; [lia |].
  apply (vmaximal_eqv SC _ _ _ _ (feq_sym _ _ Hf) (Permutation_sym Hp) Hm).
Qed.

(* after the rounds, the reporting pass (Augment(true) over the modules left) applies no augment *)
Theorem final_pass_applies_nothing : forall SC ic order,
  NoDup (map m_name SC) -> covers (pend0 SC) order -> C04.final_applied SC ic order = O.
Proof.
  intros SC ic order Hnd Hcov. unfold C04.final_applied, C04.stage_F2, C04.stage_err1, C04.stage_P1, C04.stage_mods1.
  rewrite c04_stage_rounds_eq.
  destruct (augment_stage SC ic order) as [[[F2 e1] P1] m1] eqn:Es. cbn [fst snd].
  apply final_cnt_stuck. unfold augment_stage in Es.
  apply (rounds_final SC _ _ _ _ _ _ _ _ _ _ Es).
  - rewrite pend0_keys. exact Hnd.
  - exact Hcov.
  - rewrite n_aug_pending. lia.
  - rewrite n_aug_pending. lia.
  - intros H. contradiction.
Qed.

Corollary final_pass_applies_nothing_perm : forall SC ic order,
  NoDup (map m_name SC) -> Permutation (map m_name SC) order -> C04.final_applied SC ic order = O.
Proof.
  intros SC ic order Hnd Hp. apply final_pass_applies_nothing; [exact Hnd |].
  apply covers_all. intros m Hm. eapply Permutation_in; [exact Hp | apply in_map; exact Hm].
Qed.



(* ================================================================== 11. order independence of Process (T2, full) *)
Section ProcessOrderFull.
Variable SC : schema.
Variable ic ins : bool.

(* the rounds {retry loop; FixChoice}, from equivalent states, in two visiting orders *)
Theorem rounds_order_independent :
  forall fuel round F F' P P' o1 o2 F2 P2 m2 F2' e2' P2' m2',
  forest_eqv F F' -> Permutation (all_pending P) (all_pending P') ->
  NoDup (map fst P) -> NoDup (map fst P') -> covers P o1 -> covers P' o2 ->
  (length (all_pending P) <= n_aug SC)%nat ->
  rounds SC fuel round F false P o1 = (F2, false, P2, m2) ->
  rounds SC fuel round F' false P' o2 = (F2', e2', P2', m2') ->
  e2' = false /\ forest_eqv F2 F2' /\ Permutation (all_pending P2) (all_pending P2').
Proof. exact (rounds_confluent SC fix_all_respects_eqv). Qed.

Lemma Process_ok_sources : forall order F, Process SC ic ins order = ROk F -> sources_ok SC ic = true.
Proof.
  intros order F H. rewrite Process_stages in H. unfold Process_staged in H.
  destruct (sources_ok SC ic); [reflexivity | discriminate].
Qed.

(* a clean result: the rounds themselves applied every augment *)
Lemma process_ok_rounds_done : forall order F, Process SC ic ins order = ROk F ->
  NoDup (map m_name SC) -> covers (pend0 SC) order ->
  exists F2 P1 m1, augment_stage SC ic order = (F2, false, P1, m1) /\ all_pending P1 = [].
Proof.
  intros order F H Hnd Hcov.
  destruct (process_ok_inv SC ic ins order F H Hnd Hcov) as [F2 [P1 [m1 [F3 [P3 [Es [Ef Hemp]]]]]]].
  exists F2, P1, m1. split; [exact Es |].
  assert (Hm : vmaximal SC (flat_of F2) (all_pending P1)).
  { unfold augment_stage in Es. apply (rounds_final SC _ _ _ _ _ _ _ _ _ _ Es).
    - rewrite pend0_keys. exact Hnd.
    - exact Hcov.
    - rewrite n_aug_pending. lia.
    - rewrite n_aug_pending. lia.
    - intros X. contradiction. }
  destruct (final_pass_stuck SC _ _ _ _ _ _ _ Ef Hm) as [_ Hp].
  rewrite Hemp in Hp. apply Permutation_nil in Hp. exact Hp.
Qed.

Lemma process_ok_transfer : no_deviations SC -> NoDup (map m_name SC) ->
  forall o1 o2, covers (pend0 SC) o1 -> covers (pend0 SC) o2 ->
  forall F1, Process SC ic ins o1 = ROk F1 ->
  exists F2, Process SC ic ins o2 = ROk F2 /\ forest_eqv F1 F2.
Proof.
  intros Hnodev Hnd o1 o2 Hc1 Hc2 F1 H1.
  pose proof (Process_ok_sources o1 F1 H1) as Hok.
  destruct (process_ok_rounds_done o1 F1 H1 Hnd Hc1) as [F2s [P1 [m1 [Hs1 Hemp1]]]].
  assert (Hndp : NoDup (map fst (pend0 SC))) by (rewrite pend0_keys; exact Hnd).
  assert (Hlen : (length (all_pending (pend0 SC)) <= n_aug SC)%nat) by (rewrite n_aug_pending; lia).
  (* Process o1 returns the forest of the rounds *)
  assert (E1 : Process SC ic ins o1 = ROk F2s).
  { rewrite Process_stages. unfold Process_staged. rewrite Hok, Hs1. cbv beta iota. unfold process_tail.
    destruct (final_pass_nopending SC m1 F2s false P1 (all_pending_nil_lookup P1 Hemp1)) as [P' Hfp].
    rewrite Hfp. rewrite (deviation_stage_nodev SC ins Hnodev). reflexivity. }
  rewrite H1 in E1. inversion E1; subst F2s. clear E1.
  unfold augment_stage in Hs1.
  destruct (rounds SC (S (S (n_aug SC))) 0 (forest0 SC ic) false (pend0 SC) o2) as [[[F2' e2'] P1'] m1'] eqn:Hs2.
  destruct (rounds_order_independent _ _ _ _ _ _ _ _ _ _ _ _ _ _ _
              (fun p => eq_refl) (Permutation_refl _) Hndp Hndp Hc1 Hc2 Hlen Hs1 Hs2) as [He2 [Hfe Hp]].
  subst e2'. rewrite Hemp1 in Hp. apply Permutation_nil in Hp.
  exists F2'. split; [| exact Hfe].
  rewrite Process_stages. unfold Process_staged, augment_stage. rewrite Hok, Hs2. cbv beta iota. unfold process_tail.
  destruct (final_pass_nopending SC m1' F2' false P1' (all_pending_nil_lookup P1' Hp)) as [P' Hfp].
  rewrite Hfp. rewrite (deviation_stage_nodev SC ins Hnodev). reflexivity.
Qed.

(* T2 for Process: for schemas without deviations, two visiting orders that contain every module with
   augments either both report an error or return equivalent forests *)
Theorem process_order_independent_full : no_deviations SC -> NoDup (map m_name SC) ->
  forall o1 o2, covers (pend0 SC) o1 -> covers (pend0 SC) o2 ->
  match Process SC ic ins o1, Process SC ic ins o2 with
  | ROk F1, ROk F2 => forest_eqv F1 F2
  | RErr, RErr => True
  | _, _ => False
  end.
Proof.
  intros Hnodev Hnd o1 o2 Hc1 Hc2.
  destruct (Process SC ic ins o1) as [| F1] eqn:E1; destruct (Process SC ic ins o2) as [| F2] eqn:E2.
  - exact I.
  - destruct (process_ok_transfer Hnodev Hnd o2 o1 Hc2 Hc1 F2 E2) as [F1 [H _]]. congruence.
  - destruct (process_ok_transfer Hnodev Hnd o1 o2 Hc1 Hc2 F1 E1) as [F2 [H _]]. congruence.
  - destruct (process_ok_transfer Hnodev Hnd o1 o2 Hc1 Hc2 F1 E1) as [F2' [H Hf]].
    rewrite E2 in H. inversion H; subst. exact Hf.
Qed.

(* the same for orders that are permutations of the module names *)
Corollary process_order_independent_perm : no_deviations SC -> NoDup (map m_name SC) ->
  forall o1 o2, Permutation (map m_name SC) o1 -> Permutation (map m_name SC) o2 ->
  match Process SC ic ins o1, Process SC ic ins o2 with
  | ROk F1, ROk F2 => forest_eqv F1 F2
  | RErr, RErr => True
  | _, _ => False
  end.
Proof.
  intros Hnodev Hnd o1 o2 Hp1 Hp2. apply process_order_independent_full; try assumption;
    apply covers_all; intros m Hm; (eapply Permutation_in; [eassumption | apply in_map; exact Hm]).
Qed.

End ProcessOrderFull.
