(* Two indenting writers stacked on each other (C20): the lower writer sees the concatenation of
   what the callers of both writers hand down, whatever the interleaving. *)
From Coq Require Import List NArith ZArith Bool Lia.
Import ListNotations.
From GY Require Import Model.Indent Spec.C20 Proofs.IndentProofs.
Local Open Scope Z_scope.

(* the pieces the lower writer is handed by a history whose bottom writer accepts everything *)
Fixpoint stream (p2 : list byte) (w2 : writer) (ops : list op2) : list (list byte) :=
  match ops with
  | [] => []
  | OLower b _ :: r => b :: stream p2 w2 r
  | OUpper b _ :: r => w_out (Write p2 w2 b None) :: stream p2 (w_state (Write p2 w2 b None)) r
  | ONew :: r => stream p2 (NewWriter p2) r
  end.

Definition op_ok (o : op2) : Prop :=
  match o with OLower _ (Some _) | OUpper _ (Some _) => False | _ => True end.

Fixpoint results (ops : list op2) : list (Z * bool) :=
  match ops with
  | [] => []
  | OLower b _ :: r | OUpper b _ :: r => (Z.of_nat (length b), false) :: results r
  | ONew :: r => results r
  end.

Lemma Write_None_res p w buf :
  w_n (Write p w buf None) = Z.of_nat (length buf) /\ w_err (Write p w buf None) = false.
Proof. destruct w as [|partial]; [easy|]. destruct buf; easy. Qed.

Lemma Write_ind_nil p partial acc : Write p (Ind partial) [] acc
  = {| w_n := 0; w_err := false; w_out := []; w_state := Ind partial |}.
Proof. reflexivity. Qed.

Lemma run2_ok_gen p1 p2 ops : Forall op_ok ops -> forall acc1 w1 w2,
  winv p1 acc1 w1 ->
  fst (run2 p1 p2 w1 w2 ops) = results ops /\
  spec_indent p1 (acc1 ++ concat (stream p2 w2 ops))
  = spec_indent p1 acc1 ++ snd (run2 p1 p2 w1 w2 ops).
Proof.
  induction 1 as [|o ops Ho _ IH]; intros acc1 w1 w2 Hw.
  - cbn. rewrite !app_nil_r. easy.
  - destruct o as [b [n|]|b [n|]|]; try (now destruct Ho).
    + (* lower *)
      cbn [run2 stream results concat].
      destruct (Write_ok_step p1 acc1 w1 b Hw) as (Hn & He & Hi & Hout).
      specialize (IH (acc1 ++ b) _ w2 Hi).
      destruct (run2 p1 p2 (w_state (Write p1 w1 b None)) w2 ops) as [rs out].
      cbn [fst snd] in *. destruct IH as [IH1 IH2]. split.
      * now rewrite Hn, He, IH1.
      * now rewrite app_assoc, IH2, Hout, <- app_assoc.
    + (* upper *)
      cbn [run2 stream results concat].
      assert (E : WriteUpper p1 p2 w1 w2 b None =
                  ((Z.of_nat (length b), false),
                   w_out (Write p1 w1 (w_out (Write p2 w2 b None)) None),
                   (w_state (Write p1 w1 (w_out (Write p2 w2 b None)) None),
                    w_state (Write p2 w2 b None)))).
      { unfold WriteUpper.
        destruct (Write_ok_step p1 acc1 w1 (w_out (Write p2 w2 b None)) Hw) as (_ & He & _).
        destruct (Write_None_res p2 w2 b) as [Hn2 He2].
        destruct w2 as [|partial].
        - rewrite He. cbn [w_n w_err] in *. now rewrite Hn2, He2.
        - destruct b as [|c b].
          + rewrite Write_ind_nil. cbn [w_out w_state length Z.of_nat].
            unfold winv in Hw. destruct p1; subst w1; reflexivity.
          + rewrite He. now rewrite Hn2, He2. }
      rewrite E. clear E.
      set (j := w_out (Write p2 w2 b None)).
      destruct (Write_ok_step p1 acc1 w1 j Hw) as (_ & _ & Hi & Hout).
      specialize (IH (acc1 ++ j) _ (w_state (Write p2 w2 b None)) Hi).
      destruct (run2 p1 p2 (w_state (Write p1 w1 j None)) (w_state (Write p2 w2 b None)) ops) as [rs out].
      cbn [fst snd] in *. destruct IH as [IH1 IH2]. split.
      * now rewrite IH1.
      * now rewrite app_assoc, IH2, Hout, <- app_assoc.
    + cbn [run2 stream results]. apply IH. exact Hw.
Qed.

(* every all-ok history over two stacked writers delivers to the bottom writer the one-shot
   rendering, by the lower prefix, of the concatenation of what the lower writer was handed *)
Lemma run2_ok p1 p2 w2 ops : Forall op_ok ops ->
  run2 p1 p2 (NewWriter p1) w2 ops = (results ops, Bytes p1 (concat (stream p2 w2 ops))).
Proof.
  intros H. destruct (run2_ok_gen p1 p2 ops H [] _ w2 (winv_init p1)) as [H1 H2].
  destruct (run2 p1 p2 (NewWriter p1) w2 ops) as [rs out]. cbn [fst snd app] in *.
  rewrite Bytes_spec, H2, H1. reflexivity.
Qed.

Lemma stream_upper p2 chunks : forall w2,
  concat (stream p2 w2 (map (fun c => OUpper c None) chunks)) = snd (run p2 w2 (ok_calls chunks)).
Proof.
  induction chunks as [|c cs IH]; intros w2; [reflexivity|].
  cbn [map stream concat ok_calls run]. fold (ok_calls cs).
  rewrite IH. destruct (run p2 (w_state (Write p2 w2 c None)) (ok_calls cs)). reflexivity.
Qed.

Lemma stream_lower p2 w2 heads rest :
  concat (stream p2 w2 (map (fun c => OLower c None) heads ++ rest))
  = concat heads ++ concat (stream p2 w2 rest).
Proof. induction heads as [|h hs IH]; [reflexivity|]. cbn. now rewrite IH, app_assoc. Qed.

Lemma Forall_ok_lower heads : Forall op_ok (map (fun c => OLower c None) heads).
Proof. induction heads; constructor; easy. Qed.
Lemma Forall_ok_upper cs : Forall op_ok (map (fun c => OUpper c None) cs).
Proof. induction cs; constructor; easy. Qed.

Lemma stream_lower_only p2 w tails :
  concat (stream p2 w (map (fun c => OLower c None) tails)) = concat tails.
Proof. rewrite <- (app_nil_r (map _ tails)), stream_lower. cbn. now rewrite app_nil_r. Qed.

Lemma stream_upper_lower p2 cs tails : forall w,
  concat (stream p2 w (map (fun c => OUpper c None) cs ++ map (fun c => OLower c None) tails))
  = snd (run p2 w (ok_calls cs)) ++ concat tails.
Proof.
  induction cs as [|c cs IH]; intros w.
  - cbn [map app run snd ok_calls]. apply stream_lower_only.
  - cbn [map app stream concat ok_calls run]. fold (ok_calls cs). rewrite IH.
    destruct (run p2 (w_state (Write p2 w c None)) (ok_calls cs)). cbn [snd]. now rewrite app_assoc.
Qed.

Lemma results_app a b : results (a ++ b) = results a ++ results b.
Proof. induction a as [|[? ?|? ?|] a IH]; cbn [app results]; now rewrite ?IH. Qed.
Lemma results_lower l : results (map (fun c => OLower c None) l) = map (fun c => (Z.of_nat (length c), false)) l.
Proof. induction l as [|x l IH]; cbn; now rewrite ?IH. Qed.
Lemma results_upper l : results (map (fun c => OUpper c None) l) = map (fun c => (Z.of_nat (length c), false)) l.
Proof. induction l as [|x l IH]; cbn; now rewrite ?IH. Qed.

(* a writer put on top of a lower writer that is anywhere in its text (mid-line included):
   head through the lower one, then any chunking of text through a fresh upper one, then a
   tail through the lower one again *)
Lemma stacked_head_upper_tail p1 p2 w2 heads chunks tails :
  run2 p1 p2 (NewWriter p1) w2
       (map (fun c => OLower c None) heads ++ ONew :: map (fun c => OUpper c None) chunks
        ++ map (fun c => OLower c None) tails)
  = (map (fun c => (Z.of_nat (length c), false)) (heads ++ chunks ++ tails),
     Bytes p1 (concat heads ++ Bytes p2 (concat chunks) ++ concat tails)).
Proof.
  rewrite run2_ok.
  2:{ apply Forall_app; split; [apply Forall_ok_lower|]. constructor; [easy|].
      apply Forall_app; split; [apply Forall_ok_upper | apply Forall_ok_lower]. }
  f_equal.
  - rewrite results_app. cbn [results]. rewrite results_app, results_lower, results_upper, results_lower.
    now rewrite !map_app.
  - f_equal. rewrite stream_lower. f_equal. cbn [stream].
    rewrite stream_upper_lower, run_chunks. reflexivity.
Qed.

(* short writes through the stack: the upper writer's count is the number of the caller's bytes
   among the bytes the lower writer reports as delivered, which in turn is the number of the
   upper writer's bytes among those that reached the bottom writer *)
Lemma WriteUpper_short p1 p2 partial1 partial2 buf n :
  p1 <> [] -> p2 <> [] -> buf <> [] ->
  let joined := ind_sm p2 (negb partial2) buf in
  let t1 := tind_sm p1 (negb partial1) joined in
  let t2 := tind_sm p2 (negb partial2) buf in
  let '(res, out, _) := WriteUpper p1 p2 (Ind partial1) (Ind partial2) buf (Some n) in
  out = firstn (Z.to_nat n) (map snd t1) /\
  res = (caller_count (caller_count n t1) t2, true) /\
  0 <= fst res <= Z.of_nat (length buf).
Proof.
  intros H1 H2 Hb. cbn zeta. unfold WriteUpper.
  destruct buf as [|c buf]; [easy|]. remember (c :: buf) as b.
  assert (J : w_out (Write p2 (Ind partial2) b None) = ind_sm p2 (negb partial2) b).
  { rewrite Write_ind_eq by (subst; easy). unfold Write_ind. cbn [w_out].
    pose proof (join_split p2 b (negb partial2)) as J. destruct partial2; exact J. }
  rewrite J.
  assert (Hj : ind_sm p2 (negb partial2) b <> []).
  { subst b. cbn [ind_sm]. destruct (negb partial2); [destruct p2; easy | easy]. }
  destruct (Write_short p1 partial1 _ n H1 Hj) as (E1 & O1 & N1 & _).
  rewrite E1, N1, O1.
  destruct (Write_short p2 partial2 b (caller_count n (tind_sm p1 (negb partial1) (ind_sm p2 (negb partial2) b))) H2)
    as (E2 & _ & N2 & B2); [subst; easy|].
  rewrite E2, N2. cbn [fst]. rewrite <- N2. repeat split; try reflexivity; apply B2.
Qed.
