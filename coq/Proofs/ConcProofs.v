(* C19 — lockset discipline implies race freedom (for all programs, all valid traces). *)
From Coq Require Import String List Bool Arith Lia.
Import ListNotations.
From GY Require Import Model.Conc.

(* ------------------------------------------------------------------ holds / count / remove1 *)
Lemma lmode_eqb_eq : forall a b, lmode_eqb a b = true <-> a = b.
Proof. destruct a, b; simpl; split; intro H; try reflexivity; discriminate. Qed.

Lemma hold_eqb_eq : forall a b : hold, hold_eqb a b = true <-> a = b.
Proof.
  intros [m d] [m' d']. unfold hold_eqb. simpl. rewrite andb_true_iff, String.eqb_eq, lmode_eqb_eq.
  split. - intros [-> ->]. reflexivity. - intro H. inversion H. auto.
Qed.

Lemma hold_eqb_refl : forall a, hold_eqb a a = true.
Proof. intro a. apply hold_eqb_eq. reflexivity. Qed.

Lemma hold_eqb_neq : forall a b : hold, a <> b -> hold_eqb a b = false.
Proof. intros a b H. destruct (hold_eqb a b) eqn:E; [|reflexivity]. apply hold_eqb_eq in E. contradiction. Qed.

Lemma hold_dec : forall a b : hold, a = b \/ a <> b.
Proof. intros a b. destruct (hold_eqb a b) eqn:E. - left. now apply hold_eqb_eq. - right. intro H. apply hold_eqb_eq in H. congruence. Qed.

Lemma count_In : forall k h, In k h <-> count k h <> 0.
Proof.
  intros k h. induction h as [|a r IH]; simpl.
  - split; [intros [] | intro H; now apply H].
  - destruct (hold_eqb k a) eqn:E.
    + apply hold_eqb_eq in E. subst. split; [intros _; lia | intros _; now left].
    + simpl. rewrite <- IH. split.
      * intros [H|H]; [|exact H]. subst. rewrite hold_eqb_refl in E. discriminate.
      * intro H. now right.
Qed.

Lemma holds_In : forall k h, holds k h = true <-> In k h.
Proof.
  intros k h. unfold holds. rewrite negb_true_iff, Nat.eqb_neq. symmetry. apply count_In.
Qed.

Lemma count_remove1_same : forall k h, count k h <> 0 -> S (count k (remove1 k h)) = count k h.
Proof.
  intros k h. induction h as [|a r IH]; simpl; intro H.
  - lia.
  - destruct (hold_eqb k a) eqn:E.
    + simpl. reflexivity.
    + simpl. rewrite E. simpl in *. apply IH. exact H.
Qed.

Lemma count_remove1_other : forall k k' h, k <> k' -> count k (remove1 k' h) = count k h.
Proof.
  intros k k' h Hne. induction h as [|a r IH]; simpl.
  - reflexivity.
  - destruct (hold_eqb k' a) eqn:E.
    + apply hold_eqb_eq in E. subst a. rewrite (hold_eqb_neq k k' Hne). reflexivity.
    + simpl. rewrite IH. reflexivity.
Qed.

Lemma remove1_incl : forall k k' h, In k (remove1 k' h) -> In k h.
Proof.
  intros k k' h. induction h as [|a r IH]; simpl; [tauto|].
  destruct (hold_eqb k' a); simpl; intuition.
Qed.

Lemma remove1_keeps : forall k k' h, In k h -> k <> k' -> In k (remove1 k' h).
Proof.
  intros k k' h Hin Hne. apply count_In. rewrite count_remove1_other by exact Hne. now apply count_In.
Qed.

(* ------------------------------------------------------------------ per-thread ghost state *)
Definition hupd (H : nat -> held) (t : nat) (h : held) : nat -> held :=
  fun t' => if Nat.eqb t' t then h else H t'.

Lemma hupd_same : forall H t h, hupd H t h t = h.
Proof. intros. unfold hupd. now rewrite Nat.eqb_refl. Qed.
Lemma hupd_other : forall H t h t', t' <> t -> hupd H t h t' = H t'.
Proof. intros H t h t' Hne. unfold hupd. apply Nat.eqb_neq in Hne. now rewrite Hne. Qed.

Fixpoint cnt (k : hold) (H : nat -> held) (n : nat) : nat :=
  match n with 0 => 0 | S n' => cnt k H n' + count k (H n') end.

Lemma cnt_hupd_ge : forall k H t h n, n <= t -> cnt k (hupd H t h) n = cnt k H n.
Proof.
  intros k H t h n. induction n as [|n IH]; simpl; intro Hle; [reflexivity|].
  rewrite IH by lia. rewrite hupd_other by lia. reflexivity.
Qed.

Lemma cnt_hupd : forall k H t h n, t < n -> cnt k (hupd H t h) n + count k (H t) = cnt k H n + count k h.
Proof.
  intros k H t h n. induction n as [|n IH]; simpl; intro Hlt; [lia|].
  destruct (Nat.eq_dec t n) as [->|Hne].
  - rewrite hupd_same. rewrite cnt_hupd_ge by lia. lia.
  - rewrite hupd_other by lia. assert (t < n) by lia. specialize (IH H0). lia.
Qed.

Lemma cnt_ge1 : forall k H n t, t < n -> count k (H t) <= cnt k H n.
Proof.
  intros k H n t. induction n as [|n IH]; simpl; intro Hlt; [lia|].
  destruct (Nat.eq_dec t n) as [->|Hne]; [lia|]. assert (t < n) by lia. specialize (IH H0). lia.
Qed.

Lemma cnt_ge2 : forall k H n t1 t2, t1 < n -> t2 < n -> t1 <> t2 ->
  count k (H t1) + count k (H t2) <= cnt k H n.
Proof.
  intros k H n t1 t2. induction n as [|n IH]; simpl; intros H1 H2 Hne; [lia|].
  destruct (Nat.eq_dec t1 n) as [->|N1].
  - assert (t2 < n) by lia. pose proof (cnt_ge1 k H n t2 H0). lia.
  - destruct (Nat.eq_dec t2 n) as [->|N2].
    + assert (t1 < n) by lia. pose proof (cnt_ge1 k H n t1 H0). lia.
    + assert (t1 < n) by lia. assert (t2 < n) by lia. specialize (IH H0 H3 Hne). lia.
Qed.

Lemma cnt_empty : forall k n, cnt k (fun _ => []) n = 0.
Proof. intros k n. induction n as [|n IH]; simpl; [reflexivity|]. rewrite IH. reflexivity. Qed.

(* ------------------------------------------------------------------ the invariant *)
(* the runtime's anonymous counters agree with what the threads hold according to their programs *)
Definition Inv (s : lstate) (H : nat -> held) (n : nat) : Prop :=
  forall m, cnt (m, MX) H n = (if xh s m then 1 else 0) /\
            cnt (m, MR) H n = rc s m /\
            (xh s m = true -> rc s m = 0).

Definition WF (ps : list prog) (H : nat -> held) : Prop :=
  forall t p, nth_error ps t = Some p -> wf_prog (H t) p = true.

Lemma upd_length : forall A (l : list A) n x, length (upd l n x) = length l.
Proof. intros A l. induction l as [|a r IH]; intros [|n] x; simpl; auto. Qed.

Lemma nth_upd_same : forall A (l : list A) n x, n < length l -> nth_error (upd l n x) n = Some x.
Proof. intros A l. induction l as [|a r IH]; intros [|n] x; simpl; intro Hlt; try lia; auto. apply IH. lia. Qed.

Lemma nth_upd_other : forall A (l : list A) n x n', n' <> n -> nth_error (upd l n x) n' = nth_error l n'.
Proof.
  intros A l. induction l as [|a r IH]; intros [|n] x [|n'] Hne; simpl; auto; try congruence.
  all: try (apply IH; congruence).
Qed.

Lemma nth_lt : forall A (l : list A) n x, nth_error l n = Some x -> n < length l.
Proof. intros A l n x H. apply nth_error_Some. congruence. Qed.

Lemma Inv_init : forall n, Inv init_state (fun _ => []) n.
Proof. intros n m. simpl. rewrite !cnt_empty. repeat split; auto. Qed.

Lemma WF_init : forall ps, forallb (wf_prog []) ps = true -> WF ps (fun _ => []).
Proof.
  intros ps Hall t p Hn. rewrite forallb_forall in Hall. apply Hall. eapply nth_error_In. exact Hn.
Qed.

Lemma wf_tail : forall h e rest, wf_prog h (e :: rest) = true -> wf_prog (scan_ev h e) rest = true.
Proof.
  intros h e rest. destruct e; simpl; try tauto; rewrite andb_true_iff; tauto.
Qed.

Lemma wf_rel : forall h m rest, wf_prog h (Rel m :: rest) = true -> In (m, MX) h.
Proof. intros h m rest. simpl. rewrite andb_true_iff. intros [H _]. now apply holds_In. Qed.
Lemma wf_rrel : forall h m rest, wf_prog h (RRel m :: rest) = true -> In (m, MR) h.
Proof. intros h m rest. simpl. rewrite andb_true_iff. intros [H _]. now apply holds_In. Qed.

Lemma setb_same : forall f m v, setb f m v m = v.
Proof. intros. unfold setb. now rewrite String.eqb_refl. Qed.
Lemma setb_other : forall f m v m', m' <> m -> setb f m v m' = f m'.
Proof. intros f m v m' Hne. unfold setb. apply String.eqb_neq in Hne. now rewrite Hne. Qed.
Lemma setn_same : forall f m v, setn f m v m = v.
Proof. intros. unfold setn. now rewrite String.eqb_refl. Qed.
Lemma setn_other : forall f m v m', m' <> m -> setn f m v m' = f m'.
Proof. intros f m v m' Hne. unfold setn. apply String.eqb_neq in Hne. now rewrite Hne. Qed.

Lemma hold_neq_m : forall (m m' : mutex) (d d' : lmode), m' <> m -> (m', d') <> (m, d).
Proof. intros. congruence. Qed.

(* one step of thread t preserves the invariant *)
Lemma step_Inv : forall ps s H t e rest,
  nth_error ps t = Some (e :: rest) -> can_step s e ->
  Inv s H (length ps) -> WF ps H ->
  Inv (do_step s e) (hupd H t (scan_ev (H t) e)) (length ps) /\
  WF (upd ps t rest) (hupd H t (scan_ev (H t) e)).
Proof.
  intros ps s H t e rest Hnth Hcan HI HW.
  pose proof (nth_lt _ _ _ _ Hnth) as Hlt.
  pose proof (HW _ _ Hnth) as Hwf.
  split.
  - intro m'.
    destruct (HI m') as (IX & IR & IE).
    pose proof (cnt_hupd (m', MX) H t (scan_ev (H t) e) _ Hlt) as CX.
    pose proof (cnt_hupd (m', MR) H t (scan_ev (H t) e) _ Hlt) as CR.
    destruct e as [m|m|m|m|x|x]; simpl in *.
    + (* Acq *) destruct Hcan as [Hx Hr].
      destruct (string_dec m' m) as [->|Hne].
      * rewrite hold_eqb_refl in CX. rewrite hold_eqb_neq in CR by discriminate.
        rewrite setb_same. rewrite Hx in IX. repeat split; try lia.
      * rewrite hold_eqb_neq in CX by (apply hold_neq_m; exact Hne).
        rewrite hold_eqb_neq in CR by (apply hold_neq_m; exact Hne).
        rewrite setb_other by exact Hne. repeat split; try lia. all: try exact IE.
    + (* RAcq *)
      destruct (string_dec m' m) as [->|Hne].
      * rewrite hold_eqb_refl in CR. rewrite hold_eqb_neq in CX by discriminate.
        rewrite setn_same. repeat split; try lia. all: try (intro Hx; rewrite Hx in Hcan; discriminate).
      * rewrite hold_eqb_neq in CX by (apply hold_neq_m; exact Hne).
        rewrite hold_eqb_neq in CR by (apply hold_neq_m; exact Hne).
        rewrite setn_other by exact Hne. repeat split; try lia. all: try exact IE.
    + (* Rel *)
      apply wf_rel in Hwf.
      destruct (string_dec m' m) as [->|Hne].
      * pose proof (count_remove1_same (m, MX) (H t) (proj1 (count_In _ _) Hwf)) as E1.
        rewrite count_remove1_other in CR by discriminate.
        rewrite setb_same. rewrite Hcan in IX.
        repeat split; try lia. all: try (intro; discriminate).
      * rewrite count_remove1_other in CX by (apply hold_neq_m; exact Hne).
        rewrite count_remove1_other in CR by (apply hold_neq_m; exact Hne).
        rewrite setb_other by exact Hne. repeat split; try lia. all: try exact IE.
    + (* RRel *)
      apply wf_rrel in Hwf.
      destruct (string_dec m' m) as [->|Hne].
      * pose proof (count_remove1_same (m, MR) (H t) (proj1 (count_In _ _) Hwf)) as E1.
        rewrite count_remove1_other in CX by discriminate.
        rewrite setn_same.
        repeat split; try lia. all: try (intro Hx; specialize (IE Hx); contradiction).
      * rewrite count_remove1_other in CX by (apply hold_neq_m; exact Hne).
        rewrite count_remove1_other in CR by (apply hold_neq_m; exact Hne).
        rewrite setn_other by exact Hne. repeat split; try lia. all: try exact IE.
    + repeat split; try lia. all: try exact IE.
    + repeat split; try lia. all: try exact IE.
  - intros t' p Hn.
    destruct (Nat.eq_dec t' t) as [->|Hne].
    + rewrite nth_upd_same in Hn by exact Hlt. inversion Hn; subst p.
      rewrite hupd_same. apply wf_tail. exact Hwf.
    + rewrite nth_upd_other in Hn by exact Hne. rewrite hupd_other by exact Hne. apply HW. exact Hn.
Qed.

(* exclusion: under the invariant two threads never hold one mutex in conflicting modes *)
Lemma Inv_excl : forall s H n t1 t2 m d1 d2,
  Inv s H n -> t1 < n -> t2 < n -> t1 <> t2 ->
  In (m, d1) (H t1) -> In (m, d2) (H t2) -> (d1 = MX \/ d2 = MX) -> False.
Proof.
  intros s H n t1 t2 m d1 d2 HI L1 L2 Hne I1 I2 Hd.
  destruct (HI m) as (IX & IR & IE).
  apply count_In in I1. apply count_In in I2.
  assert (CX : cnt (m, MX) H n <= 1) by (rewrite IX; destruct (xh s m); lia).
  destruct d1, d2.
  - pose proof (cnt_ge2 (m, MX) H n t1 t2 L1 L2 Hne). lia.
  - pose proof (cnt_ge1 (m, MX) H n t1 L1). pose proof (cnt_ge1 (m, MR) H n t2 L2).
    destruct (xh s m); [specialize (IE eq_refl)|]; lia.
  - pose proof (cnt_ge1 (m, MX) H n t2 L2). pose proof (cnt_ge1 (m, MR) H n t1 L1).
    destruct (xh s m); [specialize (IE eq_refl)|]; lia.
  - destruct Hd; discriminate.
Qed.

(* ------------------------------------------------------------------ state along a trace *)
Fixpoint heldat (H : nat -> held) (tr : trace) (k : nat) {struct k} : nat -> held :=
  match k, tr with
  | S k', (t, e) :: tr' => heldat (hupd H t (scan_ev (H t) e)) tr' k'
  | _, _ => H
  end.
Fixpoint stateat (s : lstate) (tr : trace) (k : nat) {struct k} : lstate :=
  match k, tr with
  | S k', (t, e) :: tr' => stateat (do_step s e) tr' k'
  | _, _ => s
  end.

Lemma heldat_S : forall tr H k,
  heldat H tr (S k) =
  match nth_error tr k with
  | Some (t, e) => hupd (heldat H tr k) t (scan_ev (heldat H tr k t) e)
  | None => heldat H tr k
  end.
Proof.
  induction tr as [|[t e] tr IH]; intros H k.
  - destruct k; reflexivity.
  - destruct k as [|k].
    + reflexivity.
    + change (heldat H ((t, e) :: tr) (S (S k))) with (heldat (hupd H t (scan_ev (H t) e)) tr (S k)).
      rewrite IH. reflexivity.
Qed.

Lemma inv_at : forall ps s tr, valid ps s tr -> forall H k,
  Inv s H (length ps) -> WF ps H ->
  Inv (stateat s tr k) (heldat H tr k) (length ps).
Proof.
  induction 1 as [ps s | ps s t e rest tr Hnth Hcan Hv IH]; intros H k HI HW.
  - destruct k; exact HI.
  - destruct k as [|k]; [exact HI|]. simpl.
    destruct (step_Inv ps s H t e rest Hnth Hcan HI HW) as [HI' HW'].
    specialize (IH (hupd H t (scan_ev (H t) e)) k). rewrite upd_length in IH. apply IH; assumption.
Qed.

Lemma can_step_at : forall ps s tr, valid ps s tr -> forall l t e,
  nth_error tr l = Some (t, e) -> can_step (stateat s tr l) e.
Proof.
  induction 1 as [ps s | ps s t0 e0 rest tr Hnth Hcan Hv IH]; intros l t e Hl.
  - destruct l; discriminate.
  - destruct l as [|l]; simpl in *.
    + inversion Hl; subst. exact Hcan.
    + eapply IH. exact Hl.
Qed.

Lemma tid_lt : forall ps s tr, valid ps s tr -> forall l t e,
  nth_error tr l = Some (t, e) -> t < length ps.
Proof.
  induction 1 as [ps s | ps s t0 e0 rest tr Hnth Hcan Hv IH]; intros l t e Hl.
  - destruct l; discriminate.
  - destruct l as [|l]; simpl in *.
    + inversion Hl; subst. eapply nth_lt. exact Hnth.
    + pose proof (IH _ _ _ Hl) as Q. rewrite upd_length in Q. exact Q.
Qed.

Lemma accs_step : forall a h e rest, In a (accs (scan_ev h e) rest) -> In a (accs h (e :: rest)).
Proof. intros a h e rest Hin. destruct e; simpl in *; auto. Qed.

(* the access performed at position j of a trace is one of the accesses of the program of its thread,
   and the scan attributes to it exactly the locks the thread holds at time j *)
Lemma access_in_accs : forall ps s tr, valid ps s tr -> forall H j t e x,
  nth_error tr j = Some (t, e) -> ev_loc e = Some x ->
  exists p, nth_error ps t = Some p /\ In (x, is_write e, heldat H tr j t) (accs (H t) p).
Proof.
  induction 1 as [ps s | ps s t0 e0 rest tr Hnth Hcan Hv IH]; intros H j t e x Hj Hx.
  - destruct j; discriminate.
  - destruct j as [|j]; simpl in Hj.
    + inversion Hj; subst t0 e0. exists (e :: rest). split; [exact Hnth|].
      destruct e; simpl in Hx; try discriminate; inversion Hx; subst; simpl; now left.
    + simpl. destruct (IH (hupd H t0 (scan_ev (H t0) e0)) j t e x Hj Hx) as (p & Hp & Hin).
      pose proof (nth_lt _ _ _ _ Hnth) as Hlt.
      destruct (Nat.eq_dec t t0) as [->|Hne].
      * rewrite nth_upd_same in Hp by exact Hlt. inversion Hp; subst p.
        exists (e0 :: rest). split; [exact Hnth|]. rewrite hupd_same in Hin. apply accs_step. exact Hin.
      * rewrite nth_upd_other in Hp by exact Hne. rewrite hupd_other in Hin by exact Hne.
        exists p. split; assumption.
Qed.

(* ------------------------------------------------------------------ what lockset_ok gives *)
Lemma protects_spec : forall h1 h2, protects h1 h2 = true ->
  exists m d1 d2, In (m, d1) h1 /\ In (m, d2) h2 /\ (d1 = MX \/ d2 = MX).
Proof.
  intros h1 h2 Hp. unfold protects in Hp. apply existsb_exists in Hp. destruct Hp as ([m d1] & I1 & Hp).
  apply existsb_exists in Hp. destruct Hp as ([m2 d2] & I2 & Hp). simpl in Hp.
  apply andb_true_iff in Hp. destruct Hp as [Hm Hd]. apply String.eqb_eq in Hm. subst m2.
  exists m, d1, d2. repeat split; auto.
  apply orb_true_iff in Hd. destruct Hd as [Hd|Hd]; [left; now destruct d1 | right; now destruct d2].
Qed.

Lemma cross_ok_spec : forall p q x w1 h1 w2 h2, cross_ok p q = true ->
  In (x, w1, h1) (accs [] p) -> In (x, w2, h2) (accs [] q) -> (w1 = true \/ w2 = true) ->
  exists m d1 d2, In (m, d1) h1 /\ In (m, d2) h2 /\ (d1 = MX \/ d2 = MX).
Proof.
  intros p q x w1 h1 w2 h2 Hc I1 I2 Hw. unfold cross_ok in Hc.
  rewrite forallb_forall in Hc. specialize (Hc _ I1). rewrite forallb_forall in Hc. specialize (Hc _ I2).
  simpl in Hc. rewrite String.eqb_refl in Hc.
  assert (Hor : (w1 || w2)%bool = true) by (destruct Hw; subst; [reflexivity | apply orb_true_r]).
  rewrite Hor in Hc. simpl in Hc. now apply protects_spec.
Qed.

Lemma pairs_ok_spec : forall ps i j p q, pairs_ok ps = true -> i < j ->
  nth_error ps i = Some p -> nth_error ps j = Some q -> cross_ok p q = true.
Proof.
  induction ps as [|a r IH]; intros i j p q Hok Hlt Hi Hj.
  - destruct i; discriminate.
  - simpl in Hok. apply andb_true_iff in Hok. destruct Hok as [Ha Hr].
    destruct j as [|j]; [lia|]. simpl in Hj. destruct i as [|i]; simpl in Hi.
    + inversion Hi; subst a. rewrite forallb_forall in Ha. apply Ha. eapply nth_error_In. exact Hj.
    + apply (IH i j p q Hr); [lia | exact Hi | exact Hj].
Qed.

Lemma lockset_common_lock : forall ps t1 t2 p1 p2 x w1 h1 w2 h2,
  pairs_ok ps = true -> t1 <> t2 ->
  nth_error ps t1 = Some p1 -> nth_error ps t2 = Some p2 ->
  In (x, w1, h1) (accs [] p1) -> In (x, w2, h2) (accs [] p2) -> (w1 = true \/ w2 = true) ->
  exists m d1 d2, In (m, d1) h1 /\ In (m, d2) h2 /\ (d1 = MX \/ d2 = MX).
Proof.
  intros ps t1 t2 p1 p2 x w1 h1 w2 h2 Hok Hne H1 H2 I1 I2 Hw.
  destruct (Nat.lt_ge_cases t1 t2) as [Hlt|Hge].
  - eapply cross_ok_spec; eauto. eapply pairs_ok_spec; eauto.
  - assert (Hlt : t2 < t1) by lia.
    pose proof (pairs_ok_spec ps t2 t1 p2 p1 Hok Hlt H2 H1) as Hc.
    assert (Hw' : w2 = true \/ w1 = true) by tauto.
    destruct (cross_ok_spec p2 p1 x w2 h2 w1 h1 Hc I2 I1 Hw') as (m & d2 & d1 & A & B & C).
    exists m, d1, d2. repeat split; auto. tauto.
Qed.

(* ------------------------------------------------------------------ discrete intermediate value *)
Lemma first_flip : forall (b : nat -> bool) i j, i < j -> b i = false -> b j = true ->
  exists l, i <= l /\ l < j /\ b l = false /\ b (S l) = true.
Proof.
  intros b i j Hlt. induction j as [|j IH]; intros Hi Hj; [lia|].
  destruct (b j) eqn:Ej.
  - destruct (Nat.eq_dec i j) as [->|Hne]; [congruence|].
    assert (i < j) by lia. destruct (IH H Hi eq_refl) as (l & A & B & C & D).
    exists l. repeat split; auto.
  - exists j. repeat split; auto. lia.
Qed.

Lemma scan_adds : forall k h e, In k (scan_ev h e) -> ~ In k h -> acquires e (fst k) /\
  (e = Acq (fst k) -> snd k = MX) /\ (e = RAcq (fst k) -> snd k = MR).
Proof.
  intros [m d] h e Hin Hn. destruct e as [m'|m'|m'|m'|x|x]; simpl in *.
  - destruct Hin as [E|E]; [inversion E; subst|contradiction].
    split; [now left|]. split; [reflexivity | intro Q; discriminate].
  - destruct Hin as [E|E]; [inversion E; subst|contradiction].
    split; [now right|]. split; [intro Q; discriminate | reflexivity].
  - apply remove1_incl in Hin. contradiction.
  - apply remove1_incl in Hin. contradiction.
  - contradiction.
  - contradiction.
Qed.

Lemma scan_removes : forall k h e, In k h -> ~ In k (scan_ev h e) -> releases e (fst k).
Proof.
  intros [m d] h e Hin Hn. destruct e as [m'|m'|m'|m'|x|x]; simpl in *.
  - exfalso. apply Hn. now right.
  - exfalso. apply Hn. now right.
  - destruct (hold_dec (m, d) (m', MX)) as [E|E].
    + inversion E; subst. now left.
    + exfalso. apply Hn. apply remove1_keeps; assumption.
  - destruct (hold_dec (m, d) (m', MR)) as [E|E].
    + inversion E; subst. now right.
    + exfalso. apply Hn. apply remove1_keeps; assumption.
  - contradiction.
  - contradiction.
Qed.

(* a change of what thread t holds between times l and l+1 is an event of thread t at position l *)
Lemma heldat_change : forall tr H l t k,
  holds k (heldat H tr l t) <> holds k (heldat H tr (S l) t) ->
  exists e, nth_error tr l = Some (t, e) /\ heldat H tr (S l) t = scan_ev (heldat H tr l t) e.
Proof.
  intros tr H l t k Hd. rewrite heldat_S in *.
  destruct (nth_error tr l) as [[t' e]|] eqn:E; [|congruence].
  destruct (Nat.eq_dec t t') as [->|Hne].
  - exists e. split; [reflexivity|]. now rewrite hupd_same.
  - rewrite hupd_other in Hd by exact Hne. congruence.
Qed.

(* ------------------------------------------------------------------ main theorems *)
Theorem lockset_hb_proof : forall ps tr,
  lockset_ok ps = true -> valid_trace ps tr -> hb_race_free tr.
Proof.
  intros ps tr Hok Hv i j t1 e1 t2 e2 Hij Hi Hj Hne Hconf.
  unfold lockset_ok in Hok. apply andb_true_iff in Hok. destruct Hok as [Hwf Hpairs].
  unfold valid_trace in Hv.
  set (H0 := fun _ : nat => @nil hold).
  assert (HI0 : Inv init_state H0 (length ps)) by apply Inv_init.
  assert (HW0 : WF ps H0) by (apply WF_init; exact Hwf).
  pose proof (fun k => inv_at ps init_state tr Hv H0 k HI0 HW0) as HInv.
  pose proof (tid_lt _ _ _ Hv _ _ _ Hi) as L1.
  pose proof (tid_lt _ _ _ Hv _ _ _ Hj) as L2.
  destruct Hconf as (x & X1 & X2 & Hw).
  destruct (access_in_accs _ _ _ Hv H0 i t1 e1 x Hi X1) as (p1 & P1 & A1).
  destruct (access_in_accs _ _ _ Hv H0 j t2 e2 x Hj X2) as (p2 & P2 & A2).
  destruct (lockset_common_lock ps t1 t2 p1 p2 x _ _ _ _ Hpairs Hne P1 P2 A1 A2 Hw)
    as (m & d1 & d2 & I1 & I2 & Hd).
  (* t2 does not hold (m,d2) at time i *)
  assert (N2 : ~ In (m, d2) (heldat H0 tr i t2)).
  { intro I2'. eapply (Inv_excl _ _ _ t1 t2 m d1 d2 (HInv i)); eauto. }
  (* so it acquires it at some l in [i, j) *)
  destruct (first_flip (fun k => holds (m, d2) (heldat H0 tr k t2)) i j Hij) as (l & Lil & Llj & Fl & Tl).
  { destruct (holds (m, d2) (heldat H0 tr i t2)) eqn:E; [|reflexivity]. apply holds_In in E. contradiction. }
  { now apply holds_In. }
  cbv beta in Fl, Tl.
  destruct (heldat_change tr H0 l t2 (m, d2)) as (e' & El & Sl); [congruence|].
  assert (Fl' : ~ In (m, d2) (heldat H0 tr l t2)) by (intro Q; apply holds_In in Q; congruence).
  assert (Tl' : In (m, d2) (scan_ev (heldat H0 tr l t2) e')) by (rewrite <- Sl; now apply holds_In).
  destruct (scan_adds _ _ _ Tl' Fl') as (Acq' & AX & AR). simpl in Acq', AX, AR.
  assert (Lne : l <> i) by (intro Q; subst l; rewrite Hi in El; inversion El; congruence).
  assert (Lil' : i < l) by lia.
  (* when t2 acquires, t1 does not hold (m,d1) *)
  pose proof (can_step_at _ _ _ Hv _ _ _ El) as Hcan.
  pose proof (tid_lt _ _ _ Hv _ _ _ El) as L2'.
  assert (N1 : ~ In (m, d1) (heldat H0 tr l t1)).
  { intro Q. apply count_In in Q. destruct (HInv l m) as (IX & IR & IE).
    pose proof (cnt_ge1 (m, d1) (heldat H0 tr l) (length ps) t1 L1) as G.
    destruct Acq' as [-> | ->]; simpl in Hcan.
    - destruct Hcan as [Hx Hr]. rewrite Hx in IX. destruct d1; lia.
    - specialize (AR eq_refl). subst d2. destruct Hd as [->|Q']; [|discriminate].
      rewrite Hcan in IX. lia. }
  (* so t1 released it at some k in [i, l) *)
  destruct (first_flip (fun k => negb (holds (m, d1) (heldat H0 tr k t1))) i l Lil') as (k & Kik & Kkl & Fk & Tk).
  { apply negb_false_iff. now apply holds_In. }
  { apply negb_true_iff. destruct (holds (m, d1) (heldat H0 tr l t1)) eqn:E; [|reflexivity].
    apply holds_In in E. contradiction. }
  cbv beta in Fk, Tk. apply negb_false_iff in Fk. apply negb_true_iff in Tk.
  destruct (heldat_change tr H0 k t1 (m, d1)) as (e & Ek & Sk); [congruence|].
  assert (Rk : releases e m).
  { apply (scan_removes (m, d1) (heldat H0 tr k t1) e).
    - now apply holds_In.
    - rewrite <- Sk. intro Q. apply holds_In in Q. congruence. }
  assert (Kne : k <> i).
  { intro Q; subst k. rewrite Hi in Ek. inversion Ek; subst e.
    destruct Rk as [-> | ->]; discriminate. }
  exists m, k, l, e, e'. repeat split; auto; lia.
Qed.

Theorem lockset_race_free_proof : forall ps tr,
  lockset_ok ps = true -> valid_trace ps tr -> race_free tr.
Proof.
  intros ps tr Hok Hv [i (t1 & e1 & t2 & e2 & Hi & Hj & Hne & Hc)].
  destruct (lockset_hb_proof ps tr Hok Hv i (S i) t1 e1 t2 e2 (Nat.lt_succ_diag_r i) Hi Hj Hne Hc)
    as (m & k & l & e & e' & A & B & C & _). lia.
Qed.

(* ------------------------------------------------------------------ T3: guarded memo caches *)
Section MemoProofs.
  Variables (K V : Type) (keq : K -> K -> bool) (f : K -> V).
  Hypothesis keq_eq : forall a b, keq a b = true -> a = b.

  Lemma memo_op_sound : forall c k, cache_sound K V keq f c ->
    fst (memo_op K V keq f c k) = f k /\ cache_sound K V keq f (snd (memo_op K V keq f c k)).
  Proof.
    intros c k Hs. unfold memo_op. destruct (assoc K V keq k c) as [v|] eqn:E; simpl.
    - split; [apply Hs; exact E | exact Hs].
    - split; [reflexivity|]. intros k' v'. simpl. destruct (keq k' k) eqn:Ek.
      + intro Q. inversion Q; subst v'. apply keq_eq in Ek. now subst.
      + apply Hs.
  Qed.

  (* whatever the order in which the lock serialises the callers, each obtains f k *)
  Lemma memo_run_spec : forall ks c, cache_sound K V keq f c -> memo_run K V keq f c ks = map f ks.
  Proof.
    induction ks as [|k r IH]; intros c Hs; simpl; [reflexivity|].
    destruct (memo_op_sound c k Hs) as [A B].
    destruct (memo_op K V keq f c k) as [v c'] eqn:E. simpl in A, B. subst v. f_equal. apply IH. exact B.
  Qed.

  Lemma cache_sound_nil : cache_sound K V keq f [].
  Proof. intros k v Q. discriminate. Qed.
End MemoProofs.
