(* Shared lemmas about the core resolver model (Model/Schema.v), used by C04 (TreeInvProofs) and C06
   (GroupingProofs): string equality, association lists, the unfolding equation of to_entry. *)
From Coq Require Import List NArith Bool Lia.
From GY Require Import Model.Schema.
Import ListNotations.

(* ------------------------------------------------------------------ strings *)
Lemma str_eqb_refl : forall a, str_eqb a a = true.
Proof. induction a; simpl; auto. rewrite N.eqb_refl, IHa. reflexivity. Qed.

Lemma str_eqb_eq : forall a b, str_eqb a b = true <-> a = b.
Proof.
  induction a as [|x a IH]; destruct b as [|y b]; simpl; split; intro H; try congruence; try discriminate; auto.
  - apply andb_true_iff in H. destruct H as [H1 H2]. apply N.eqb_eq in H1. apply IH in H2. congruence.
  - inversion H; subst. rewrite N.eqb_refl. simpl. apply IH. reflexivity.
Qed.

Lemma str_eqb_neq : forall a b, str_eqb a b = false <-> a <> b.
Proof.
  intros. split; intro H.
  - intro E. apply str_eqb_eq in E. congruence.
  - destruct (str_eqb a b) eqn:E; auto. apply str_eqb_eq in E. contradiction.
Qed.

Lemma str_eqb_sym : forall a b, str_eqb a b = str_eqb b a.
Proof.
  intros. destruct (str_eqb a b) eqn:E.
  - apply str_eqb_eq in E. subst. symmetry. apply str_eqb_refl.
  - symmetry. apply str_eqb_neq. apply str_eqb_neq in E. congruence.
Qed.

Lemma str_eq_dec : forall a b : str, {a = b} + {a <> b}.
Proof. intros. destruct (str_eqb a b) eqn:E; [left; apply str_eqb_eq; auto | right; apply str_eqb_neq; auto]. Qed.

(* ------------------------------------------------------------------ association lists *)
Section Assoc.
Context {A : Type}.
Implicit Types (l : list (str * A)) (k : str).

Lemma lookup_none : forall l k, lookup k l = None <-> ~ In k (map fst l).
Proof.
  induction l as [|[k' v] l IH]; simpl; intros; split; intro H; auto.
  - destruct (str_eqb k k') eqn:E; [discriminate|]. intros [H1|H1].
    + subst. rewrite str_eqb_refl in E. discriminate.
    + apply IH in H. contradiction.
  - destruct (str_eqb k k') eqn:E.
    + apply str_eqb_eq in E. subst. exfalso. apply H. left. reflexivity.
    + apply IH. intro. apply H. right. assumption.
Qed.

Lemma lookup_in : forall l k v, lookup k l = Some v -> In (k, v) l.
Proof.
  induction l as [|[k' v'] l IH]; simpl; intros; [discriminate|].
  destruct (str_eqb k k') eqn:E.
  - apply str_eqb_eq in E. inversion H. subst. left. reflexivity.
  - right. apply IH. assumption.
Qed.

Lemma lookup_some_in_keys : forall l k v, lookup k l = Some v -> In k (map fst l).
Proof. intros. apply lookup_in in H. apply (in_map fst) in H. assumption. Qed.

Lemma in_lookup : forall l k v, NoDup (map fst l) -> In (k, v) l -> lookup k l = Some v.
Proof.
  induction l as [|[k' v'] l IH]; simpl; intros k v ND H; [contradiction|].
  inversion ND; subst. destruct H as [H|H].
  - inversion H; subst. rewrite str_eqb_refl. reflexivity.
  - destruct (str_eqb k k') eqn:E.
    + apply str_eqb_eq in E. subst. exfalso. apply H2. apply (in_map fst) in H. assumption.
    + apply IH; assumption.
Qed.

Lemma lookup_app : forall l1 l2 k,
  lookup k (l1 ++ l2) = match lookup k l1 with Some v => Some v | None => lookup k l2 end.
Proof.
  induction l1 as [|[k' v'] l1 IH]; simpl; intros; auto.
  destruct (str_eqb k k'); auto.
Qed.

Lemma update_keys : forall l k v, map fst (update k v l) = map fst l.
Proof.
  induction l as [|[k' v'] l IH]; simpl; intros; auto.
  destruct (str_eqb k k'); simpl; [reflexivity | rewrite IH; reflexivity].
Qed.

Lemma lookup_update_same : forall l k v, lookup k l <> None -> lookup k (update k v l) = Some v.
Proof.
  induction l as [|[k' v'] l IH]; simpl; intros; [congruence|].
  destruct (str_eqb k k') eqn:E; simpl; rewrite E; auto.
Qed.

Lemma lookup_update_other : forall l k k' v, k <> k' -> lookup k' (update k v l) = lookup k' l.
Proof.
  induction l as [|[k0 v0] l IH]; simpl; intros; auto.
  destruct (str_eqb k k0) eqn:E; simpl.
  - apply str_eqb_eq in E. subst. destruct (str_eqb k' k0) eqn:E2; auto.
    apply str_eqb_eq in E2. congruence.
  - destruct (str_eqb k' k0); auto.
Qed.

Lemma update_in : forall l k v x, In x (update k v l) -> In x l \/ x = (fst x, v) /\ lookup k l <> None /\ str_eqb k (fst x) = true.
Proof.
  induction l as [|[k0 v0] l IH]; simpl; intros; auto.
  destruct (str_eqb k k0) eqn:E; simpl in *.
  - destruct H as [H|H]; [|left; right; assumption].
    subst. right. simpl. repeat split; auto. congruence.
  - destruct H as [H|H]; [left; left; assumption|].
    apply IH in H. destruct H as [H|[H1 [H2 H3]]]; [left; right; assumption|].
    right. repeat split; auto.
Qed.

Lemma remove_incl : forall l k x, In x (remove k l) -> In x l.
Proof.
  induction l as [|[k0 v0] l IH]; simpl; intros; auto.
  destruct (str_eqb k k0); simpl in *; auto. destruct H; auto. right. eapply IH. eassumption.
Qed.

Lemma remove_keys_nodup : forall l k, NoDup (map fst l) -> NoDup (map fst (remove k l)).
Proof.
  induction l as [|[k0 v0] l IH]; simpl; intros; auto.
  inversion H; subst. destruct (str_eqb k k0); simpl; auto.
  constructor; auto. intro HI. apply H2.
  apply in_map_iff in HI. destruct HI as [x [Hx1 Hx2]]. apply remove_incl in Hx2.
  apply in_map_iff. exists x. auto.
Qed.

Lemma lookup_remove_other : forall l k k', k <> k' -> lookup k' (remove k l) = lookup k' l.
Proof.
  induction l as [|[k0 v0] l IH]; simpl; intros; auto.
  destruct (str_eqb k k0) eqn:E; simpl.
  - apply str_eqb_eq in E. subst. destruct (str_eqb k' k0) eqn:E2; auto.
    apply str_eqb_eq in E2. congruence.
  - destruct (str_eqb k' k0); auto.
Qed.
End Assoc.

Lemma fold_left_inv : forall {A B} (f : A -> B -> A) (I : A -> Prop),
  (forall a b, I a -> I (f a b)) -> forall l a, I a -> I (fold_left f l a).
Proof. intros A B f I H. induction l; simpl; intros; auto. Qed.

Lemma fold_left_inv_in : forall {A B} (f : A -> B -> A) (I : A -> Prop) l,
  (forall a b, In b l -> I a -> I (f a b)) -> forall a, I a -> I (fold_left f l a).
Proof.
  intros A B f I. induction l as [|x l IHl]; simpl; intros H a Ha; [assumption|].
  apply IHl; [intros; apply H; auto | apply H; auto].
Qed.

(* ------------------------------------------------------------------ the unfolding equation of to_entry *)
Section ToEntryEq.
Variable SC : schema.

(* one child statement of a directory body (the function folded by to_entry's local body_dir) *)
Definition body_step (f : nat) (c' : gctx) (busy : list nat) (acc : list (str * entry) * bool) (ch : dnode)
  : list (str * entry) * bool :=
  match ch with
  | DGrouping gid _ gb => let '(_, e) := to_entry SC f c' busy ch in (fst acc, snd acc || e)
  | DUses g =>
      match FindGrouping SC c' g with
      | None => (fst acc, true)
      | Some (gid, gb, gc) =>
        if existsb (Nat.eqb gid) busy then (fst acc, true)
        else
          let '(ge, gerr) := to_entry SC f gc (gid :: busy) (DGrouping gid [] gb) in
          let '(d, e) := merge_dir acc None (match e_dir ge with Some d => d | None => [] end) in
          (d, e || gerr)
      end
  | _ => let b := to_entry SC f c' busy ch in add_child acc (e_name (fst b)) b
  end.

Definition inner_ctx (c : gctx) (body : list dnode) : gctx :=
  {| g_mod := g_mod c; g_scopes := body :: g_scopes c |}.

Definition body_dir (f : nat) (c : gctx) (busy : list nat) (body : list dnode) : list (str * entry) * bool :=
  fold_left (body_step f (inner_ctx c body) busy) body ([], false).

Definition dir_entry (name : str) (k : ekind) (d : list (str * entry)) : entry :=
  Entry name k TSUnset TSUnset [] [] None [] None None (Some d) None.

Definition rpc_io (f : nat) (c : gctx) (busy : list nat) (k : ekind) (nm : str) (b : option (list dnode))
  : option entry * bool :=
  match b with
  | None => (None, false)
  | Some body => let '(d, e) := body_dir f c busy body in (Some (dir_entry nm k d), e)
  end.

Lemma to_entry_0 : forall c busy n, to_entry SC O c busy n = (newDirectory [], true).
Proof. reflexivity. Qed.

Lemma to_entry_S : forall f c busy n,
  to_entry SC (S f) c busy n =
  match n with
    | DLeaf name ty cfg mand dflt units =>
        leaf_entry name ty cfg mand (match dflt with Some d => [d] | None => [] end) units
    | DLeafList name ty cfg dflts minE maxE =>
        let '(mx, bad) := semCheckMax maxE in
        (Entry name KLeaf cfg TSUnset dflts [] (Some ty) [] (Some (semCheckMin minE, mx, (is_some minE, is_some maxE))) None None None,
         negb (is_builtin ty) || bad)
    | DContainer name cfg body =>
        let '(d, e) := body_dir f c busy body in
        (Entry name KDir cfg TSUnset [] [] None [] None None (Some d) None, e)
    | DList name key cfg minE maxE body =>
        let '(d, e) := body_dir f c busy body in
        let '(mx, bad) := semCheckMax maxE in
        (Entry name KDir cfg TSUnset [] [] None (match key with Some k => k | None => [] end)
               (Some (semCheckMin minE, mx, (is_some minE, is_some maxE))) None (Some d) None, e || bad)
    | DChoice name cfg mand dflt body =>
        let '(d, e) := body_dir f c busy body in
        (Entry name KChoice cfg mand (match dflt with Some x => [x] | None => [] end) [] None [] None None (Some d) None, e)
    | DCase name body =>
        let '(d, e) := body_dir f c busy body in (dir_entry name KCase d, e)
    | DAny xml name cfg mand =>
        (Entry name (if xml then KAnyXML else KAnyData) cfg mand [] [] None [] None None (Some []) None, false)
    | DUses g => (newDirectory g, true)
    | DGrouping gid name body =>
        let '(d, e) := body_dir f c busy body in (dir_entry name KDir d, e)
    | DRpc action name input output =>
        let '(i, ei) := rpc_io f c busy KInput s_input input in
        let '(o, eo) := rpc_io f c busy KOutput s_output output in
        let r := match i, o with
                 | None, None => Some (None, None)
                 | _, _ => Some (i, o)
                 end in
        (Entry name KDir TSUnset TSUnset [] [] None [] None None (Some []) r, ei || eo)
    | DNotification name body =>
        let '(d, e) := body_dir f c busy body in (dir_entry name KNotification d, e)
  end.
Proof. intros. destruct n; reflexivity. Qed.

End ToEntryEq.

(* ------------------------------------------------------------------ the height of a tree *)
(* [height] (Model/Schema.v) is a nested structural fixpoint; this is its unfolding equation over the list of the
   heights of the immediate subtrees (children, rpc input, rpc output) *)
Definition height_list (e : entry) : list nat :=
  match e_dir e with Some d => map (fun kv => height (snd kv)) d | None => [] end ++
  match e_rpc e with
  | Some (i, o) => (match i with Some x => [height x] | None => [] end) ++
                   (match o with Some x => [height x] | None => [] end)
  | None => []
  end.

Lemma height_eq : forall e, height e = S (fold_right Nat.max O (height_list e)).
Proof.
  intros [n k c m df u t ky la ns d r]. unfold height_list. cbn [height e_dir e_rpc]. f_equal.
  assert (A : forall (l : list (str * entry)) (l' : list nat),
             fold_right Nat.max 0 (map (fun kv => height (snd kv)) l ++ l') =
             Nat.max ((fix hl (l : list (str * entry)) : nat :=
                         match l with [] => O | (_, c) :: r => Nat.max (height c) (hl r) end) l)
                     (fold_right Nat.max 0 l')).
  { induction l as [|[a b] l IH]; intros l'; cbn [map app fold_right snd]; [reflexivity|]. rewrite IH. lia. }
  destruct d as [d|].
  - rewrite A. f_equal. destruct r as [[[i|] [o|]]|]; cbn [app fold_right]; lia.
  - cbn [app]. destruct r as [[[i|] [o|]]|]; cbn [app fold_right]; lia.
Qed.

Lemma fold_max_upper : forall (l : list nat) b, (forall v, In v l -> v <= b) -> fold_right Nat.max 0 l <= b.
Proof.
  induction l as [|a l IH]; intros b H; cbn [fold_right]; [lia|].
  pose proof (H a (or_introl eq_refl)). pose proof (IH b (fun v Hv => H v (or_intror Hv))). lia.
Qed.

Lemma fold_max_member : forall (l : list nat) v, In v l -> v <= fold_right Nat.max 0 l.
Proof.
  induction l as [|a l IH]; intros v Hv; [destruct Hv|]. cbn [fold_right].
  destruct Hv as [->|Hv]; [lia|]. specialize (IH v Hv). lia.
Qed.

Lemma height_pos : forall e, 1 <= height e.
Proof. intros e. rewrite height_eq. lia. Qed.

(* every immediate subtree is lower *)
Lemma height_child : forall e d kv, e_dir e = Some d -> In kv d -> height (snd kv) < height e.
Proof.
  intros e d kv Ed Hin. rewrite (height_eq e). apply le_n_S. apply fold_max_member.
  unfold height_list. rewrite Ed. apply in_or_app. left. apply in_map_iff. exists kv. split; [reflexivity | exact Hin].
Qed.

Lemma height_input : forall e x o, e_rpc e = Some (Some x, o) -> height x < height e.
Proof.
  intros e x o Er. rewrite (height_eq e). apply le_n_S. apply fold_max_member.
  unfold height_list. rewrite Er. apply in_or_app. right. apply in_or_app. left. left. reflexivity.
Qed.

Lemma height_output : forall e i x, e_rpc e = Some (i, Some x) -> height x < height e.
Proof.
  intros e i x Er. rewrite (height_eq e). apply le_n_S. apply fold_max_member.
  unfold height_list. rewrite Er. apply in_or_app. right. apply in_or_app. right. left. reflexivity.
Qed.

(* the fuel-bounded measurement that [height] replaced in Process (cut off at [fuel]): wherever it was not cut
   off it is the height, so Process computes what it computed before on all those schemas *)
Fixpoint depth_cut (fuel : nat) (e : entry) : nat :=
  match fuel with
  | O => O
  | S f =>
    S (fold_right Nat.max O
         (match e_dir e with Some d => map (fun kv => depth_cut f (snd kv)) d | None => [] end ++
          match e_rpc e with
          | Some (i, o) => (match i with Some x => [depth_cut f x] | None => [] end) ++
                           (match o with Some x => [depth_cut f x] | None => [] end)
          | None => []
          end))
  end.

Lemma fold_max_map_min : forall f (l : list nat),
  fold_right Nat.max 0 (map (Nat.min f) l) = Nat.min f (fold_right Nat.max 0 l).
Proof. intros f. induction l as [|a l IH]; cbn [map fold_right]; [lia|]. rewrite IH. lia. Qed.

Lemma depth_cut_height : forall f e, depth_cut f e = Nat.min f (height e).
Proof.
  induction f as [|f IH]; intros e; [reflexivity|].
  rewrite height_eq. cbn [depth_cut]. cbn [Nat.min]. f_equal.
  rewrite <- fold_max_map_min. f_equal. unfold height_list. rewrite map_app. f_equal.
  - destruct (e_dir e) as [d|]; [|reflexivity]. rewrite map_map. apply map_ext. intros kv. apply IH.
  - destruct (e_rpc e) as [[[i|] [o|]]|]; cbn [map app]; rewrite ?IH; reflexivity.
Qed.

Corollary depth_cut_exact : forall f e, depth_cut f e < f -> depth_cut f e = height e.
Proof. intros f e H. rewrite depth_cut_height in *. lia. Qed.
