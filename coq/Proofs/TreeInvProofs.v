(* C04: the tree invariant (Spec/C04.v) is established by every constructor of entry trees and preserved by
   every transformation Process applies (Model/Schema.v). *)
From Coq Require Import List NArith Bool Lia.
From GY Require Import Model.Schema Spec.C04 Proofs.SchemaLemmas.
Import ListNotations.

Definition elems_ok (s : bool) (d : list (str * entry)) : Prop :=
  Forall (fun kv => fst kv = e_name (snd kv) /\ TreeInv s (snd kv)) d.
Definition dir_ok (s : bool) (d : list (str * entry)) : Prop := NoDup (map fst d) /\ elems_ok s d.

Lemma TreeInv_kind : forall s e, TreeInv s e -> kind_ok e.
Proof. intros s e H. inversion H; assumption. Qed.

Lemma TreeInv_dir : forall s e d, TreeInv s e -> e_dir e = Some d ->
  dir_ok s d /\ (s = true -> e_kind e = KChoice -> Forall (fun kv => e_kind (snd kv) = KCase) d).
Proof. intros s e d H E. inversion H as [e' K D R]; subst. destruct (D d E) as [A [B C]]. repeat split; assumption. Qed.

Lemma TreeInv_rpc : forall s e i o, TreeInv s e -> e_rpc e = Some (i, o) ->
  (forall x, i = Some x -> e_kind x = KInput /\ e_name x = s_input /\ TreeInv s x) /\
  (forall x, o = Some x -> e_kind x = KOutput /\ e_name x = s_output /\ TreeInv s x).
Proof. intros s e i o H E. inversion H as [e' K D R]; subst. apply (R _ _ E). Qed.

Lemma dir_ok_nil : forall s, dir_ok s [].
Proof. intros. split; constructor. Qed.

Lemma elems_ok_app : forall s a b, elems_ok s a -> elems_ok s b -> elems_ok s (a ++ b).
Proof. intros. apply Forall_app. split; assumption. Qed.

Lemma NoDup_snoc : forall {A} (l : list A) x, NoDup l -> ~ In x l -> NoDup (l ++ [x]).
Proof.
  induction l as [|y l IH]; simpl; intros x ND NI.
  - constructor; auto.
  - inversion ND; subst. constructor.
    + intro H. apply in_app_or in H. destruct H as [H|[H|[]]]; [contradiction | subst; apply NI; left; reflexivity].
    + apply IH; auto.
Qed.

Lemma dir_ok_snoc : forall s d k v, dir_ok s d -> lookup k d = None -> k = e_name v -> TreeInv s v ->
  dir_ok s (d ++ [(k, v)]).
Proof.
  intros s d k v [ND EL] L K T. split.
  - rewrite map_app. simpl. apply NoDup_snoc; [assumption | apply lookup_none; assumption].
  - apply elems_ok_app; [assumption|]. constructor; [split; assumption | constructor].
Qed.

(* ------------------------------------------------------------------ field setters *)
Lemma TreeInv_set_ns : forall s e ns, TreeInv s e -> TreeInv s (set_ns e ns).
Proof.
  intros s e ns H. destruct e. inversion H as [e' K D R]; subst.
  constructor; [exact K | exact D | exact R].
Qed.
Lemma e_name_set_ns : forall e ns, e_name (set_ns e ns) = e_name e. Proof. destruct e; reflexivity. Qed.
Lemma e_kind_set_ns : forall e ns, e_kind (set_ns e ns) = e_kind e. Proof. destruct e; reflexivity. Qed.

(* ------------------------------------------------------------------ add, merge *)
Lemma add_child_ok : forall s acc v,
  dir_ok s (fst acc) -> TreeInv s (fst v) -> dir_ok s (fst (add_child acc (e_name (fst v)) v)).
Proof.
  intros s [d err] v H T. unfold add_child. cbn [fst] in H.
  destruct (lookup (e_name (fst v)) d) eqn:L; cbn [fst]; [assumption|].
  apply dir_ok_snoc; auto.
Qed.

Lemma merge_dir_ok : forall s ns oe acc,
  dir_ok s (fst acc) -> elems_ok s oe -> dir_ok s (fst (merge_dir acc ns oe)).
Proof.
  intros s ns. unfold merge_dir. induction oe as [|[k v] oe IH]; intros [d err] H E; cbn [fold_left]; [assumption|].
  inversion E as [|x l [K T] E']; subst. cbn [fst snd] in *.
  apply IH; [|assumption].
  destruct (lookup k d) eqn:L; cbn [fst]; [assumption|].
  apply dir_ok_snoc; auto.
  - destruct ns; [rewrite e_name_set_ns|]; assumption.
  - destruct ns; [apply TreeInv_set_ns|]; assumption.
Qed.

(* ------------------------------------------------------------------ ToEntry *)
(* kind_ok of a literal non-leaf entry without list attributes *)
Ltac kok := unfold kind_ok; cbn [e_kind e_dir e_ty e_la]; split; [|split];
  [ intro; discriminate | intros _; discriminate | let H := fresh in intro H; exfalso; apply H; reflexivity ].

Lemma TreeInv_newDirectory : forall s n, TreeInv s (newDirectory n).
Proof.
  intros. constructor; unfold newDirectory.
  - kok.
  - cbn [e_dir e_kind]. intros d E. inversion E; subst. repeat split; try constructor; intros; discriminate.
  - cbn [e_rpc]. intros; discriminate.
Qed.

Lemma TreeInv_dir_entry : forall name k cfg mand df ky la ns d,
  k <> KLeaf -> (la <> None -> k = KDir) -> dir_ok false d ->
  TreeInv false (Entry name k cfg mand df [] None ky la ns (Some d) None).
Proof.
  intros name k cfg mand df ky la ns d Hk Hla [ND EL]. constructor.
  - unfold kind_ok; cbn [e_kind e_dir e_ty e_la]. split; [|split].
    + intro; contradiction.
    + intros _; discriminate.
    + intro L. right. auto.
  - cbn [e_dir e_kind]. intros d' E. inversion E; subst. repeat split; auto. intros; discriminate.
  - cbn [e_rpc]. intros; discriminate.
Qed.

Lemma TreeInv_leaf_entry : forall name cfg mand df ty la,
  TreeInv false (Entry name KLeaf cfg mand df [] (Some ty) [] la None None None).
Proof.
  intros. constructor.
  - unfold kind_ok; cbn [e_kind e_dir e_ty e_la]. split; [|split].
    + intros _. split; [reflexivity | discriminate].
    + intro H; exfalso; apply H; reflexivity.
    + intros _. left. reflexivity.
  - cbn [e_dir]. intros; discriminate.
  - cbn [e_rpc]. intros; discriminate.
Qed.

Section ToEntryInv.
Variable SC : schema.

Lemma body_step_ok : forall f,
  (forall c busy n, TreeInv false (fst (to_entry SC f c busy n))) ->
  forall c' busy acc ch, dir_ok false (fst acc) -> dir_ok false (fst (body_step SC f c' busy acc ch)).
Proof.
  intros f IH c' busy acc ch H.
  assert (G : dir_ok false (fst (add_child acc (e_name (fst (to_entry SC f c' busy ch))) (to_entry SC f c' busy ch)))).
  { apply add_child_ok; auto. }
  destruct ch; try exact G; unfold body_step.
  - (* uses *)
    destruct (FindGrouping SC c' gname) as [[[gid gb] gc]|]; [|assumption].
    destruct (existsb (Nat.eqb gid) busy); [assumption|].
    specialize (IH gc (gid :: busy) (DGrouping gid [] gb)).
    destruct (to_entry SC f gc (gid :: busy) (DGrouping gid [] gb)) as [ge gerr]. cbn [fst] in IH.
    pose proof (merge_dir_ok false None (match e_dir ge with Some d => d | None => [] end) acc H) as M.
    destruct (merge_dir acc None _) as [d e]. cbn [fst] in *. apply M.
    destruct (e_dir ge) eqn:E; [|constructor].
    apply (TreeInv_dir _ _ _ IH E).
  - (* grouping *)
    destruct (to_entry SC f c' busy (DGrouping gid name body)). assumption.
Qed.

Lemma body_dir_ok : forall f,
  (forall c busy n, TreeInv false (fst (to_entry SC f c busy n))) ->
  forall c busy body, dir_ok false (fst (body_dir SC f c busy body)).
Proof.
  intros f IH c busy body. unfold body_dir.
  apply fold_left_inv with (I := fun acc => dir_ok false (fst acc)).
  - intros. apply body_step_ok; assumption.
  - apply dir_ok_nil.
Qed.

Lemma rpc_io_ok : forall f,
  (forall c busy n, TreeInv false (fst (to_entry SC f c busy n))) ->
  forall c busy k nm b x, k <> KLeaf ->
  fst (rpc_io SC f c busy k nm b) = Some x -> e_kind x = k /\ e_name x = nm /\ TreeInv false x.
Proof.
  intros f IH c busy k nm b x Hk. unfold rpc_io. destruct b as [body|]; [|discriminate].
  pose proof (body_dir_ok f IH c busy body) as BD.
  destruct (body_dir SC f c busy body) as [d e]. cbn [fst] in *. intro E. inversion E; subst.
  split; [reflexivity | split; [reflexivity|]].
  unfold dir_entry. apply TreeInv_dir_entry; [assumption | intro L; exfalso; apply L; reflexivity | assumption].
Qed.

Ltac dir_case BD body :=
  specialize (BD body); destruct (body_dir SC _ _ _ body) as [?d ?e]; cbn [fst] in *; unfold dir_entry;
  apply TreeInv_dir_entry;
  [discriminate | first [intros L; exfalso; apply L; reflexivity | intros; reflexivity] | assumption].

Lemma to_entry_inv : forall fuel c busy n, TreeInv false (fst (to_entry SC fuel c busy n)).
Proof.
  induction fuel as [|f IH]; intros.
  - rewrite to_entry_0. apply TreeInv_newDirectory.
  - rewrite to_entry_S.
    pose proof (body_dir_ok f IH c busy) as BD.
    destruct n.
    + apply TreeInv_leaf_entry.
    + destruct (semCheckMax maxE). apply TreeInv_leaf_entry.
    + dir_case BD body.
    + specialize (BD body). destruct (body_dir SC f c busy body) as [d e]. destruct (semCheckMax maxE).
      cbn [fst] in *. apply TreeInv_dir_entry; [discriminate | intros; reflexivity | assumption].
    + dir_case BD body.
    + dir_case BD body.
    + cbn [fst]. apply TreeInv_dir_entry; [destruct xml; discriminate | intro L; exfalso; apply L; reflexivity | apply dir_ok_nil].
    + apply TreeInv_newDirectory.
    + dir_case BD body.
    + (* rpc *)
      pose proof (rpc_io_ok f IH c busy KInput s_input input) as II.
      pose proof (rpc_io_ok f IH c busy KOutput s_output output) as OO.
      destruct (rpc_io SC f c busy KInput s_input input) as [i ei].
      destruct (rpc_io SC f c busy KOutput s_output output) as [o eo]. cbn [fst] in *.
      constructor.
      * kok.
      * cbn [e_dir e_kind]. intros d E. inversion E; subst. repeat split; try constructor; intros; discriminate.
      * cbn [e_rpc]. intros i' o' E.
        assert (E' : i' = i /\ o' = o).
        { destruct i, o; try (inversion E; auto). destruct action; inversion E; auto. }
        destruct E'; subst. split; intros x Hx; subst; [apply II | apply OO]; auto; discriminate.
    + dir_case BD body.
Qed.

End ToEntryInv.

(* ------------------------------------------------------------------ rebuilding a node *)
Lemma TreeInv_set_dir : forall s e d',
  TreeInv s e -> e_dir e <> None -> dir_ok s d' ->
  (s = true -> e_kind e = KChoice -> Forall (fun kv => e_kind (snd kv) = KCase) d') ->
  TreeInv s (set_dir e (Some d')).
Proof.
  intros s e d' H N [ND EL] C. destruct e. inversion H as [e' K D R]; subst. cbn [e_dir] in N.
  constructor.
  - destruct K as [K1 [K2 K3]]. cbn [e_kind e_dir e_ty e_la set_dir] in *. split; [|split].
    + intro E. destruct (K1 E) as [E1 _]. contradiction.
    + intros _; discriminate.
    + exact K3.
  - cbn [set_dir e_dir e_kind]. intros d0 E. inversion E; subst. split; [assumption | split; assumption].
  - exact R.
Qed.

Lemma TreeInv_set_rpc : forall s e i o,
  TreeInv s e ->
  (forall x, i = Some x -> e_kind x = KInput /\ e_name x = s_input /\ TreeInv s x) ->
  (forall x, o = Some x -> e_kind x = KOutput /\ e_name x = s_output /\ TreeInv s x) ->
  TreeInv s (set_rpc e (Some (i, o))).
Proof.
  intros s e i o H HI HO. destruct e. inversion H as [e' K D R]; subst.
  constructor; [exact K | exact D |].
  cbn [set_rpc e_rpc]. intros i' o' E. inversion E; subst. split; assumption.
Qed.

Lemma e_name_set_dir : forall e d, e_name (set_dir e d) = e_name e. Proof. destruct e; reflexivity. Qed.
Lemma e_kind_set_dir : forall e d, e_kind (set_dir e d) = e_kind e. Proof. destruct e; reflexivity. Qed.
Lemma e_name_set_rpc : forall e r, e_name (set_rpc e r) = e_name e. Proof. destruct e; reflexivity. Qed.
Lemma e_kind_set_rpc : forall e r, e_kind (set_rpc e r) = e_kind e. Proof. destruct e; reflexivity. Qed.
Lemma e_dir_set_rpc : forall e r, e_dir (set_rpc e r) = e_dir e. Proof. destruct e; reflexivity. Qed.
Lemma e_rpc_set_dir : forall e d, e_rpc (set_dir e d) = e_rpc e. Proof. destruct e; reflexivity. Qed.
Lemma e_dir_set_dir : forall e d, e_dir (set_dir e d) = d. Proof. destruct e; reflexivity. Qed.
Lemma e_rpc_set_rpc : forall e r, e_rpc (set_rpc e r) = r. Proof. destruct e; reflexivity. Qed.

Lemma Forall_update : forall {A} (P : str * A -> Prop) k v l,
  Forall P l -> (forall k', str_eqb k k' = true -> P (k', v)) -> Forall P (update k v l).
Proof.
  induction l as [|[k0 v0] l IH]; intros H Hk; cbn [update]; [constructor|].
  inversion H; subst. destruct (str_eqb k k0) eqn:E.
  - constructor; auto.
  - constructor; auto.
Qed.

Lemma Forall_remove : forall {A} (P : str * A -> Prop) k l, Forall P l -> Forall P (remove k l).
Proof.
  intros A P k l H. apply Forall_forall. intros x Hx. apply remove_incl in Hx.
  rewrite Forall_forall in H. auto.
Qed.

(* ------------------------------------------------------------------ locate / update_at *)
Lemma locate_inv : forall s steps e x, TreeInv s e -> locate e steps = Some x -> TreeInv s x.
Proof.
  induction steps as [|st r IH]; intros e x H L; cbn [locate] in L.
  - inversion L; subst; assumption.
  - destruct st.
    + destruct (e_dir e) as [d|] eqn:E; [|discriminate].
      destruct (lookup n d) as [c|] eqn:Lk; [|discriminate].
      apply (IH c); [|assumption].
      destruct (TreeInv_dir _ _ _ H E) as [[_ EL] _].
      apply lookup_in in Lk. unfold elems_ok in EL. rewrite Forall_forall in EL. apply (EL _ Lk).
    + destruct (e_rpc e) as [[[i|] o]|] eqn:E; try discriminate.
      apply (IH i); [|assumption].
      destruct (TreeInv_rpc _ _ _ _ H E) as [A _]. apply (A i eq_refl).
    + destruct (e_rpc e) as [[i [o|]]|] eqn:E; try discriminate.
      apply (IH o); [|assumption].
      destruct (TreeInv_rpc _ _ _ _ H E) as [_ A]. apply (A o eq_refl).
Qed.

Definition keeps (s : bool) (f : entry -> entry) (x : entry) : Prop :=
  TreeInv s (f x) /\ e_name (f x) = e_name x /\ e_kind (f x) = e_kind x.

Lemma update_at_inv : forall s steps e f,
  TreeInv s e -> (forall x, locate e steps = Some x -> keeps s f x) -> keeps s (fun e => update_at e steps f) e.
Proof.
  unfold keeps. induction steps as [|st r IH]; intros e f H Hf; cbn [update_at locate] in *.
  - apply Hf. reflexivity.
  - destruct st.
    + destruct (e_dir e) as [d|] eqn:E; [|auto].
      destruct (lookup n d) as [c|] eqn:Lk; [|auto].
      destruct (TreeInv_dir _ _ _ H E) as [[ND EL] CH].
      assert (Tc : TreeInv s c /\ n = e_name c).
      { pose proof (lookup_in _ _ _ Lk) as I. unfold elems_ok in EL. rewrite Forall_forall in EL.
        destruct (EL _ I) as [A B]. split; [exact B | exact A]. }
      destruct Tc as [Tc Nc].
      destruct (IH c f Tc Hf) as [T' [N' K']].
      rewrite e_name_set_dir, e_kind_set_dir. split; [|split; reflexivity].
      apply TreeInv_set_dir; [assumption | congruence | |].
      * split; [rewrite update_keys; assumption|].
        apply Forall_update; [assumption|].
        intros k' Ek. apply str_eqb_eq in Ek. subst k'. cbn [fst snd]. split; [congruence | assumption].
      * intros S1 S2. apply Forall_update; [apply CH; assumption|].
        intros k' _. cbn [snd]. rewrite K'.
        specialize (CH S1 S2). rewrite Forall_forall in CH. apply (CH _ (lookup_in _ _ _ Lk)).
    + destruct (e_rpc e) as [[[i|] o]|] eqn:E; auto.
      destruct (TreeInv_rpc _ _ _ _ H E) as [A B]. destruct (A i eq_refl) as [Ki [Ni Ti]].
      destruct (IH i f Ti Hf) as [T' [N' K']].
      rewrite e_name_set_rpc, e_kind_set_rpc. split; [|split; reflexivity].
      apply TreeInv_set_rpc; [assumption | | assumption].
      intros x Ex. inversion Ex; subst. split; [congruence | split; [congruence | assumption]].
    + destruct (e_rpc e) as [[i [o|]]|] eqn:E; auto.
      destruct (TreeInv_rpc _ _ _ _ H E) as [A B]. destruct (B o eq_refl) as [Ko [No To]].
      destruct (IH o f To Hf) as [T' [N' K']].
      rewrite e_name_set_rpc, e_kind_set_rpc. split; [|split; reflexivity].
      apply TreeInv_set_rpc; [assumption | assumption |].
      intros x Ex. inversion Ex; subst. split; [congruence | split; [congruence | assumption]].
Qed.

Lemma ForestInv_lookup : forall s F k root, ForestInv s F -> lookup k F = Some root -> TreeInv s root.
Proof.
  intros s F k root H L. apply lookup_in in L. unfold ForestInv in H. rewrite Forall_forall in H. apply (H _ L).
Qed.

Lemma locate_pos_inv : forall s F p x, ForestInv s F -> locate_pos F p = Some x -> TreeInv s x.
Proof.
  intros s F p x H L. unfold locate_pos in L. destruct (lookup (fst p) F) as [root|] eqn:E; [|discriminate].
  eapply locate_inv; [eapply ForestInv_lookup; eassumption | eassumption].
Qed.

Lemma update_pos_inv : forall s F p f,
  ForestInv s F -> (forall x, locate_pos F p = Some x -> keeps s f x) -> ForestInv s (update_pos F p f).
Proof.
  intros s F p f H Hf. unfold update_pos. unfold locate_pos in Hf.
  destruct (lookup (fst p) F) as [root|] eqn:E; [|assumption].
  apply Forall_update; [assumption|]. intros k' _. cbn [snd].
  apply (update_at_inv s (snd p) root f); [eapply ForestInv_lookup; eassumption | assumption].
Qed.

(* ------------------------------------------------------------------ Find (creates rpc input/output on demand) *)
Lemma TreeInv_empty_io : forall s b, TreeInv s (empty_io b).
Proof.
  intros. constructor; unfold empty_io.
  - destruct b; kok.
  - cbn [e_dir e_kind]. intros d E. inversion E; subst. repeat split; try constructor.
  - cbn [e_rpc]. intros; discriminate.
Qed.

Section FindInv.
Variable SC : schema.

Lemma find_steps_inv : forall s parts F p, ForestInv s F -> ForestInv s (snd (find_steps F p parts)).
Proof.
  induction parts as [|part rest IH]; intros F p H; cbn [find_steps]; [assumption|].
  destruct p as [[mn steps]|]; [|assumption].
  destruct (str_eqb part s_dot); [apply IH; assumption|].
  destruct (str_eqb part s_dotdot).
  { destruct (rev steps); apply IH; assumption. }
  destruct (locate_pos F (mn, steps)) as [e|] eqn:L; [|assumption].
  pose proof (locate_pos_inv _ _ _ _ H L) as Te.
  destruct (e_rpc e) as [[i o]|] eqn:R.
  - destruct (TreeInv_rpc _ _ _ _ Te R) as [A B].
    destruct (str_eqb (snd (getPrefix part)) s_input).
    { apply IH. destruct i; [assumption|].
      apply update_pos_inv; [assumption|]. intros x Lx. rewrite L in Lx. inversion Lx; subst x.
      unfold keeps. rewrite e_name_set_rpc, e_kind_set_rpc. split; [|split; reflexivity].
      apply TreeInv_set_rpc; [assumption | | assumption].
      intros x Ex. inversion Ex; subst. split; [reflexivity | split; [reflexivity | apply TreeInv_empty_io]]. }
    destruct (str_eqb (snd (getPrefix part)) s_output); [|assumption].
    apply IH. destruct o; [assumption|].
    apply update_pos_inv; [assumption|]. intros x Lx. rewrite L in Lx. inversion Lx; subst x.
    unfold keeps. rewrite e_name_set_rpc, e_kind_set_rpc. split; [|split; reflexivity].
    apply TreeInv_set_rpc; [assumption | assumption |].
    intros x Ex. inversion Ex; subst. split; [reflexivity | split; [reflexivity | apply TreeInv_empty_io]].
  - destruct (str_eqb (snd (getPrefix part)) s_dot); [apply IH; assumption|].
    destruct (_ || _); [assumption|].
    destruct (e_dir e) as [d|]; [|apply IH; assumption].
    destruct (lookup (snd (getPrefix part)) d); apply IH; assumption.
Qed.

Lemma Find_inv : forall s F ctx start name, ForestInv s F -> ForestInv s (snd (Find SC F ctx start name)).
Proof.
  intros s F ctx start name H. unfold Find.
  destruct name as [|c0 name']; [assumption|].
  destruct (split_on cSLASH [] (c0 :: name')) as [|p0 ps]; [apply find_steps_inv; assumption|].
  destruct p0 as [|x p0']; [|apply find_steps_inv; assumption].
  destruct ps as [|first rest]; [assumption|].
  destruct (fst (getPrefix first)); [apply find_steps_inv; assumption|].
  destruct (FindModuleByPrefix SC ctx _); [|assumption].
  destruct (owner SC m); [|assumption].
  apply find_steps_inv; assumption.
Qed.

End FindInv.
