(* C04: the tree invariant (Spec/C04.v) is established by every constructor of entry trees and preserved by
   every transformation Process applies (Model/Schema.v). *)
From Coq Require Import List NArith Bool Lia Wf_nat Arith.
From GY Require Import Model.Schema Spec.C04 Proofs.SchemaLemmas.
Import ListNotations.

Definition elems_ok (s : bool) (d : list (str * entry)) : Prop :=
  Forall (fun kv => fst kv = e_name (snd kv) /\ TreeInv s (snd kv)) d.
Definition dir_ok (s : bool) (d : list (str * entry)) : Prop := NoDup (map fst d) /\ elems_ok s d.

Lemma TreeInv_kind : forall s e, TreeInv s e -> kind_ok e.
Proof. intros s e H. inversion H; assumption. Qed.

Lemma TreeInv_dir : forall s e d, TreeInv s e -> e_dir e = Some d ->
  dir_ok s d /\ (s = true -> e_kind e = KChoice -> Forall (fun kv => e_kind (snd kv) = KCase) d).
Proof. intros s e d H E. inversion H as [e' K D R]; subst. destruct (D d E) as [A [B C]]. repeat split; assumption. Qed.

Lemma TreeInv_rpc : forall s e i o, TreeInv s e -> e_rpc e = Some (i, o) ->
  (forall x, i = Some x -> e_kind x = KInput /\ e_name x = s_input /\ TreeInv s x) /\
  (forall x, o = Some x -> e_kind x = KOutput /\ e_name x = s_output /\ TreeInv s x).
Proof. intros s e i o H E. inversion H as [e' K D R]; subst. apply (R _ _ E). Qed.

Lemma dir_ok_nil : forall s, dir_ok s [].
Proof. intros. split; constructor. Qed.

Lemma elems_ok_app : forall s a b, elems_ok s a -> elems_ok s b -> elems_ok s (a ++ b).
Proof. intros. apply Forall_app. split; assumption. Qed.

Lemma NoDup_snoc : forall {A} (l : list A) x, NoDup l -> ~ In x l -> NoDup (l ++ [x]).
Proof.
  induction l as [|y l IH]; simpl; intros x ND NI.
  - constructor; auto.
  - inversion ND; subst. constructor.
    + intro H. apply in_app_or in H. destruct H as [H|[H|[]]]; [contradiction | subst; apply NI; left; reflexivity].
    + apply IH; auto.
Qed.

Lemma dir_ok_snoc : forall s d k v, dir_ok s d -> lookup k d = None -> k = e_name v -> TreeInv s v ->
  dir_ok s (d ++ [(k, v)]).
Proof.
  intros s d k v [ND EL] L K T. split.
  - rewrite map_app. simpl. apply NoDup_snoc; [assumption | apply lookup_none; assumption].
  - apply elems_ok_app; [assumption|]. constructor; [split; assumption | constructor].
Qed.

(* ------------------------------------------------------------------ field setters *)
Lemma TreeInv_set_ns : forall s e ns, TreeInv s e -> TreeInv s (set_ns e ns).
Proof.
  intros s e ns H. destruct e. inversion H as [e' K D R]; subst.
  constructor; [exact K | exact D | exact R].
Qed.
Lemma e_name_set_ns : forall e ns, e_name (set_ns e ns) = e_name e. Proof. destruct e; reflexivity. Qed.
Lemma e_kind_set_ns : forall e ns, e_kind (set_ns e ns) = e_kind e. Proof. destruct e; reflexivity. Qed.

(* ------------------------------------------------------------------ add, merge *)
Lemma add_child_ok : forall s acc v,
  dir_ok s (fst acc) -> TreeInv s (fst v) -> dir_ok s (fst (add_child acc (e_name (fst v)) v)).
Proof.
  intros s [d err] v H T. unfold add_child. cbn [fst] in H.
  destruct (lookup (e_name (fst v)) d) eqn:L; cbn [fst]; [assumption|].
  apply dir_ok_snoc; auto.
Qed.

Lemma merge_dir_ok : forall s ns oe acc,
  dir_ok s (fst acc) -> elems_ok s oe -> dir_ok s (fst (merge_dir acc ns oe)).
Proof.
  intros s ns. unfold merge_dir. induction oe as [|[k v] oe IH]; intros [d err] H E; cbn [fold_left]; [assumption|].
  inversion E as [|x l [K T] E']; subst. cbn [fst snd] in *.
  apply IH; [|assumption].
  destruct (lookup k d) eqn:L; cbn [fst]; [assumption|].
  apply dir_ok_snoc; auto.
  - destruct ns; [rewrite e_name_set_ns|]; assumption.
  - destruct ns; [apply TreeInv_set_ns|]; assumption.
Qed.

(* ------------------------------------------------------------------ ToEntry *)
(* kind_ok of a literal non-leaf entry without list attributes *)
Ltac kok := unfold kind_ok; cbn [e_kind e_dir e_ty e_la]; split; [|split];
  [ intro; discriminate | intros _; discriminate | let H := fresh in intro H; exfalso; apply H; reflexivity ].

Lemma TreeInv_newDirectory : forall s n, TreeInv s (newDirectory n).
Proof.
  intros. constructor; unfold newDirectory.
  - kok.
  - cbn [e_dir e_kind]. intros d E. inversion E; subst. repeat split; try constructor; intros; discriminate.
  - cbn [e_rpc]. intros; discriminate.
Qed.

Lemma TreeInv_dir_entry : forall name k cfg mand df ky la ns d,
  k <> KLeaf -> (la <> None -> k = KDir) -> dir_ok false d ->
  TreeInv false (Entry name k cfg mand df [] None ky la ns (Some d) None).
Proof.
  intros name k cfg mand df ky la ns d Hk Hla [ND EL]. constructor.
  - unfold kind_ok; cbn [e_kind e_dir e_ty e_la]. split; [|split].
    + intro; contradiction.
    + intros _; discriminate.
    + intro L. right. auto.
  - cbn [e_dir e_kind]. intros d' E. inversion E; subst. repeat split; auto. intros; discriminate.
  - cbn [e_rpc]. intros; discriminate.
Qed.

Lemma TreeInv_leaf_entry : forall name cfg mand df ty la,
  TreeInv false (Entry name KLeaf cfg mand df [] (Some ty) [] la None None None).
Proof.
  intros. constructor.
  - unfold kind_ok; cbn [e_kind e_dir e_ty e_la]. split; [|split].
    + intros _. split; [reflexivity | discriminate].
    + intro H; exfalso; apply H; reflexivity.
    + intros _. left. reflexivity.
  - cbn [e_dir]. intros; discriminate.
  - cbn [e_rpc]. intros; discriminate.
Qed.

Section ToEntryInv.
Variable SC : schema.

Lemma body_step_ok : forall f,
  (forall c busy n, TreeInv false (fst (to_entry SC f c busy n))) ->
  forall c' busy acc ch, dir_ok false (fst acc) -> dir_ok false (fst (body_step SC f c' busy acc ch)).
Proof.
  intros f IH c' busy acc ch H.
  assert (G : dir_ok false (fst (add_child acc (e_name (fst (to_entry SC f c' busy ch))) (to_entry SC f c' busy ch)))).
  { apply add_child_ok; auto. }
  destruct ch; try exact G; unfold body_step.
  - (* uses *)
    destruct (FindGrouping SC c' gname) as [[[gid gb] gc]|]; [|assumption].
    destruct (existsb (Nat.eqb gid) busy); [assumption|].
    specialize (IH gc (gid :: busy) (DGrouping gid [] gb)).
    destruct (to_entry SC f gc (gid :: busy) (DGrouping gid [] gb)) as [ge gerr]. cbn [fst] in IH.
    pose proof (merge_dir_ok false None (match e_dir ge with Some d => d | None => [] end) acc H) as M.
    destruct (merge_dir acc None _) as [d e]. cbn [fst] in *. apply M.
    destruct (e_dir ge) eqn:E; [|constructor].
    apply (TreeInv_dir _ _ _ IH E).
  - (* grouping *)
    destruct (to_entry SC f c' busy (DGrouping gid name body)). assumption.
Qed.

Lemma body_dir_ok : forall f,
  (forall c busy n, TreeInv false (fst (to_entry SC f c busy n))) ->
  forall c busy body, dir_ok false (fst (body_dir SC f c busy body)).
Proof.
  intros f IH c busy body. unfold body_dir.
  apply fold_left_inv with (I := fun acc => dir_ok false (fst acc)).
  - intros. apply body_step_ok; assumption.
  - apply dir_ok_nil.
Qed.

Lemma rpc_io_ok : forall f,
  (forall c busy n, TreeInv false (fst (to_entry SC f c busy n))) ->
  forall c busy k nm b x, k <> KLeaf ->
  fst (rpc_io SC f c busy k nm b) = Some x -> e_kind x = k /\ e_name x = nm /\ TreeInv false x.
Proof.
  intros f IH c busy k nm b x Hk. unfold rpc_io. destruct b as [body|]; [|discriminate].
  pose proof (body_dir_ok f IH c busy body) as BD.
  destruct (body_dir SC f c busy body) as [d e]. cbn [fst] in *. intro E. inversion E; subst.
  split; [reflexivity | split; [reflexivity|]].
  unfold dir_entry. apply TreeInv_dir_entry; [assumption | intro L; exfalso; apply L; reflexivity | assumption].
Qed.

Ltac dir_case BD body :=
  specialize (BD body); destruct (body_dir SC _ _ _ body) as [?d ?e]; cbn [fst] in *; unfold dir_entry;
  apply TreeInv_dir_entry;
  [discriminate | first [intros L; exfalso; apply L; reflexivity | intros; reflexivity] | assumption].

Lemma to_entry_inv : forall fuel c busy n, TreeInv false (fst (to_entry SC fuel c busy n)).
Proof.
  induction fuel as [|f IH]; intros.
  - rewrite to_entry_0. apply TreeInv_newDirectory.
  - rewrite to_entry_S.
    pose proof (body_dir_ok f IH c busy) as BD.
    destruct n.
    + apply TreeInv_leaf_entry.
    + destruct (semCheckMax maxE). apply TreeInv_leaf_entry.
    + dir_case BD body.
    + specialize (BD body). destruct (body_dir SC f c busy body) as [d e]. destruct (semCheckMax maxE).
      cbn [fst] in *. apply TreeInv_dir_entry; [discriminate | intros; reflexivity | assumption].
    + dir_case BD body.
    + dir_case BD body.
    + cbn [fst]. apply TreeInv_dir_entry; [destruct xml; discriminate | intro L; exfalso; apply L; reflexivity | apply dir_ok_nil].
    + apply TreeInv_newDirectory.
    + dir_case BD body.
    + (* rpc *)
      pose proof (rpc_io_ok f IH c busy KInput s_input input) as II.
      pose proof (rpc_io_ok f IH c busy KOutput s_output output) as OO.
      destruct (rpc_io SC f c busy KInput s_input input) as [i ei].
      destruct (rpc_io SC f c busy KOutput s_output output) as [o eo]. cbn [fst] in *.
      constructor.
      * kok.
      * cbn [e_dir e_kind]. intros d E. inversion E; subst. repeat split; try constructor; intros; discriminate.
      * cbn [e_rpc]. intros i' o' E.
        assert (E' : i' = i /\ o' = o).
        { destruct i, o; inversion E; auto. }
        destruct E'; subst. split; intros x Hx; subst; [apply II | apply OO]; auto; discriminate.
    + dir_case BD body.
Qed.

End ToEntryInv.

(* ------------------------------------------------------------------ rebuilding a node *)
Lemma TreeInv_set_dir : forall s e d',
  TreeInv s e -> e_dir e <> None -> dir_ok s d' ->
  (s = true -> e_kind e = KChoice -> Forall (fun kv => e_kind (snd kv) = KCase) d') ->
  TreeInv s (set_dir e (Some d')).
Proof.
  intros s e d' H N [ND EL] C. destruct e. inversion H as [e' K D R]; subst. cbn [e_dir] in N.
  constructor.
  - destruct K as [K1 [K2 K3]]. cbn [e_kind e_dir e_ty e_la set_dir] in *. split; [|split].
    + intro E. destruct (K1 E) as [E1 _]. contradiction.
    + intros _; discriminate.
    + exact K3.
  - cbn [set_dir e_dir e_kind]. intros d0 E. inversion E; subst. split; [assumption | split; assumption].
  - exact R.
Qed.

Lemma TreeInv_set_rpc : forall s e i o,
  TreeInv s e ->
  (forall x, i = Some x -> e_kind x = KInput /\ e_name x = s_input /\ TreeInv s x) ->
  (forall x, o = Some x -> e_kind x = KOutput /\ e_name x = s_output /\ TreeInv s x) ->
  TreeInv s (set_rpc e (Some (i, o))).
Proof.
  intros s e i o H HI HO. destruct e. inversion H as [e' K D R]; subst.
  constructor; [exact K | exact D |].
  cbn [set_rpc e_rpc]. intros i' o' E. inversion E; subst. split; assumption.
Qed.

Lemma e_name_set_dir : forall e d, e_name (set_dir e d) = e_name e. Proof. destruct e; reflexivity. Qed.
Lemma e_kind_set_dir : forall e d, e_kind (set_dir e d) = e_kind e. Proof. destruct e; reflexivity. Qed.
Lemma e_name_set_rpc : forall e r, e_name (set_rpc e r) = e_name e. Proof. destruct e; reflexivity. Qed.
Lemma e_kind_set_rpc : forall e r, e_kind (set_rpc e r) = e_kind e. Proof. destruct e; reflexivity. Qed.
Lemma e_dir_set_rpc : forall e r, e_dir (set_rpc e r) = e_dir e. Proof. destruct e; reflexivity. Qed.
Lemma e_rpc_set_dir : forall e d, e_rpc (set_dir e d) = e_rpc e. Proof. destruct e; reflexivity. Qed.
Lemma e_dir_set_dir : forall e d, e_dir (set_dir e d) = d. Proof. destruct e; reflexivity. Qed.
Lemma e_rpc_set_rpc : forall e r, e_rpc (set_rpc e r) = r. Proof. destruct e; reflexivity. Qed.

Lemma Forall_update : forall {A} (P : str * A -> Prop) k v l,
  Forall P l -> (forall k', str_eqb k k' = true -> P (k', v)) -> Forall P (update k v l).
Proof.
  induction l as [|[k0 v0] l IH]; intros H Hk; cbn [update]; [constructor|].
  inversion H; subst. destruct (str_eqb k k0) eqn:E.
  - constructor; auto.
  - constructor; auto.
Qed.

Lemma Forall_remove : forall {A} (P : str * A -> Prop) k l, Forall P l -> Forall P (remove k l).
Proof.
  intros A P k l H. apply Forall_forall. intros x Hx. apply remove_incl in Hx.
  rewrite Forall_forall in H. auto.
Qed.

(* ------------------------------------------------------------------ locate / update_at *)
Lemma locate_inv : forall s steps e x, TreeInv s e -> locate e steps = Some x -> TreeInv s x.
Proof.
  induction steps as [|st r IH]; intros e x H L; cbn [locate] in L.
  - inversion L; subst; assumption.
  - destruct st.
    + destruct (e_dir e) as [d|] eqn:E; [|discriminate].
      destruct (lookup n d) as [c|] eqn:Lk; [|discriminate].
      apply (IH c); [|assumption].
      destruct (TreeInv_dir _ _ _ H E) as [[_ EL] _].
      apply lookup_in in Lk. unfold elems_ok in EL. rewrite Forall_forall in EL. apply (EL _ Lk).
    + destruct (e_rpc e) as [[[i|] o]|] eqn:E; try discriminate.
      apply (IH i); [|assumption].
      destruct (TreeInv_rpc _ _ _ _ H E) as [A _]. apply (A i eq_refl).
    + destruct (e_rpc e) as [[i [o|]]|] eqn:E; try discriminate.
      apply (IH o); [|assumption].
      destruct (TreeInv_rpc _ _ _ _ H E) as [_ A]. apply (A o eq_refl).
Qed.

Definition keeps (s : bool) (f : entry -> entry) (x : entry) : Prop :=
  TreeInv s (f x) /\ e_name (f x) = e_name x /\ e_kind (f x) = e_kind x.

Lemma update_at_inv : forall s steps e f,
  TreeInv s e -> (forall x, locate e steps = Some x -> keeps s f x) -> keeps s (fun e => update_at e steps f) e.
Proof.
  unfold keeps. induction steps as [|st r IH]; intros e f H Hf; cbn [update_at locate] in *.
  - apply Hf. reflexivity.
  - destruct st.
    + destruct (e_dir e) as [d|] eqn:E; [|auto].
      destruct (lookup n d) as [c|] eqn:Lk; [|auto].
      destruct (TreeInv_dir _ _ _ H E) as [[ND EL] CH].
      assert (Tc : TreeInv s c /\ n = e_name c).
      { pose proof (lookup_in _ _ _ Lk) as I. unfold elems_ok in EL. rewrite Forall_forall in EL.
        destruct (EL _ I) as [A B]. split; [exact B | exact A]. }
      destruct Tc as [Tc Nc].
      destruct (IH c f Tc Hf) as [T' [N' K']].
      rewrite e_name_set_dir, e_kind_set_dir. split; [|split; reflexivity].
      apply TreeInv_set_dir; [assumption | congruence | |].
      * split; [rewrite update_keys; assumption|].
        apply Forall_update; [assumption|].
        intros k' Ek. apply str_eqb_eq in Ek. subst k'. cbn [fst snd]. split; [congruence | assumption].
      * intros S1 S2. apply Forall_update; [apply CH; assumption|].
        intros k' _. cbn [snd]. rewrite K'.
        specialize (CH S1 S2). rewrite Forall_forall in CH. apply (CH _ (lookup_in _ _ _ Lk)).
    + destruct (e_rpc e) as [[[i|] o]|] eqn:E; auto.
      destruct (TreeInv_rpc _ _ _ _ H E) as [A B]. destruct (A i eq_refl) as [Ki [Ni Ti]].
      destruct (IH i f Ti Hf) as [T' [N' K']].
      rewrite e_name_set_rpc, e_kind_set_rpc. split; [|split; reflexivity].
      apply TreeInv_set_rpc; [assumption | | assumption].
      intros x Ex. inversion Ex; subst. split; [congruence | split; [congruence | assumption]].
    + destruct (e_rpc e) as [[i [o|]]|] eqn:E; auto.
      destruct (TreeInv_rpc _ _ _ _ H E) as [A B]. destruct (B o eq_refl) as [Ko [No To]].
      destruct (IH o f To Hf) as [T' [N' K']].
      rewrite e_name_set_rpc, e_kind_set_rpc. split; [|split; reflexivity].
      apply TreeInv_set_rpc; [assumption | assumption |].
      intros x Ex. inversion Ex; subst. split; [congruence | split; [congruence | assumption]].
Qed.

Lemma ForestInv_lookup : forall s F k root, ForestInv s F -> lookup k F = Some root -> TreeInv s root.
Proof.
  intros s F k root H L. apply lookup_in in L. unfold ForestInv in H. rewrite Forall_forall in H. apply (H _ L).
Qed.

Lemma locate_pos_inv : forall s F p x, ForestInv s F -> locate_pos F p = Some x -> TreeInv s x.
Proof.
  intros s F p x H L. unfold locate_pos in L. destruct (lookup (fst p) F) as [root|] eqn:E; [|discriminate].
  eapply locate_inv; [eapply ForestInv_lookup; eassumption | eassumption].
Qed.

Lemma update_pos_inv : forall s F p f,
  ForestInv s F -> (forall x, locate_pos F p = Some x -> keeps s f x) -> ForestInv s (update_pos F p f).
Proof.
  intros s F p f H Hf. unfold update_pos. unfold locate_pos in Hf.
  destruct (lookup (fst p) F) as [root|] eqn:E; [|assumption].
  apply Forall_update; [assumption|]. intros k' _. cbn [snd].
  apply (update_at_inv s (snd p) root f); [eapply ForestInv_lookup; eassumption | assumption].
Qed.

(* ------------------------------------------------------------------ Find (creates rpc input/output on demand) *)
Lemma TreeInv_empty_io : forall s b, TreeInv s (empty_io b).
Proof.
  intros. constructor; unfold empty_io.
  - destruct b; kok.
  - cbn [e_dir e_kind]. intros d E. inversion E; subst. repeat split; try constructor.
  - cbn [e_rpc]. intros; discriminate.
Qed.

Section FindInv.
Variable SC : schema.

Lemma find_steps_inv : forall s parts F p, ForestInv s F -> ForestInv s (snd (find_steps F p parts)).
Proof.
  induction parts as [|part rest IH]; intros F p H; cbn [find_steps]; [assumption|].
  destruct p as [[mn steps]|]; [|assumption].
  destruct (str_eqb part s_dot); [apply IH; assumption|].
  destruct (str_eqb part s_dotdot).
  { destruct (rev steps); apply IH; assumption. }
  destruct (locate_pos F (mn, steps)) as [e|] eqn:L; [|assumption].
  pose proof (locate_pos_inv _ _ _ _ H L) as Te.
  destruct (e_rpc e) as [[i o]|] eqn:R.
  - destruct (TreeInv_rpc _ _ _ _ Te R) as [A B].
    destruct (str_eqb (snd (getPrefix part)) s_input).
    { apply IH. destruct i; [assumption|].
      apply update_pos_inv; [assumption|]. intros x Lx. rewrite L in Lx. inversion Lx; subst x.
      unfold keeps. rewrite e_name_set_rpc, e_kind_set_rpc. split; [|split; reflexivity].
      apply TreeInv_set_rpc; [assumption | | assumption].
      intros x Ex. inversion Ex; subst. split; [reflexivity | split; [reflexivity | apply TreeInv_empty_io]]. }
    destruct (str_eqb (snd (getPrefix part)) s_output); [|assumption].
    apply IH. destruct o; [assumption|].
    apply update_pos_inv; [assumption|]. intros x Lx. rewrite L in Lx. inversion Lx; subst x.
    unfold keeps. rewrite e_name_set_rpc, e_kind_set_rpc. split; [|split; reflexivity].
    apply TreeInv_set_rpc; [assumption | assumption |].
    intros x Ex. inversion Ex; subst. split; [reflexivity | split; [reflexivity | apply TreeInv_empty_io]].
  - destruct (str_eqb (snd (getPrefix part)) s_dot); [apply IH; assumption|].
    destruct (_ || _); [assumption|].
    destruct (e_dir e) as [d|]; [|apply IH; assumption].
    destruct (lookup (snd (getPrefix part)) d); apply IH; assumption.
Qed.

Lemma Find_inv : forall s F ctx start name, ForestInv s F -> ForestInv s (snd (Find SC F ctx start name)).
Proof.
  intros s F ctx start name H. unfold Find.
  destruct name as [|c0 name']; [assumption|].
  destruct (split_on cSLASH [] (c0 :: name')) as [|p0 ps]; [apply find_steps_inv; assumption|].
  destruct p0 as [|x p0']; [|apply find_steps_inv; assumption].
  destruct ps as [|first rest]; [assumption|].
  destruct (fst (getPrefix first)); [apply find_steps_inv; assumption|].
  destruct (FindModuleByPrefix SC ctx _); [|assumption].
  destruct (owner SC m); [|assumption].
  apply find_steps_inv; assumption.
Qed.

End FindInv.

(* ------------------------------------------------------------------ module trees *)
Section ModulesInv.
Variable SC : schema.
Variable ic : bool.

Lemma body_entry_dir_ok : forall m scopes body,
  elems_ok false (match e_dir (fst (body_entry SC m scopes body)) with Some d => d | None => [] end).
Proof.
  intros. unfold body_entry.
  pose proof (to_entry_inv SC (entry_fuel SC) {| g_mod := m; g_scopes := scopes |} [] (DGrouping O [] body)) as T.
  destruct (e_dir (fst (to_entry SC (entry_fuel SC) _ [] (DGrouping O [] body)))) as [d|] eqn:E; [|constructor].
  apply (TreeInv_dir _ _ _ T E).
Qed.

Lemma body_entry_dir_nodup : forall m scopes body,
  NoDup (map fst (match e_dir (fst (body_entry SC m scopes body)) with Some d => d | None => [] end)).
Proof.
  intros. unfold body_entry.
  pose proof (to_entry_inv SC (entry_fuel SC) {| g_mod := m; g_scopes := scopes |} [] (DGrouping O [] body)) as T.
  destruct (e_dir (fst (to_entry SC (entry_fuel SC) _ [] (DGrouping O [] body)))) as [d|] eqn:E; [|constructor].
  apply (TreeInv_dir _ _ _ T E).
Qed.

Lemma module_dir_ok : forall fuel merged m, dir_ok false (fst (fst (module_dir SC ic fuel merged m))).
Proof.
  induction fuel as [|f IH]; intros merged m; cbn [module_dir]; [apply dir_ok_nil|].
  pose proof (body_entry_dir_ok m [] (m_body m)) as E1.
  pose proof (body_entry_dir_nodup m [] (m_body m)) as E2.
  destruct (body_entry SC m [] (m_body m)) as [me err]. cbn [fst] in E1, E2.
  apply fold_left_inv with (I := fun st : (list (str * entry) * bool) * list str => dir_ok false (fst (fst st))).
  - intros [acc mg] sn H. cbn [fst] in H.
    destruct (find_module SC sn) as [sm|]; [|exact H].
    destruct (mem _ mg); [exact H|].
    destruct (_ && _).
    + destruct (mem _ mg); [exact H|].
      specialize (IH (key2 (m_name sm) (m_name m) :: key2 (m_name sm) (match m_belongs sm with Some o => o | None => [] end) :: mg) sm).
      destruct (module_dir SC ic f _ sm) as [[sd serr] mg']. cbn [fst] in IH.
      pose proof (merge_dir_ok false None sd acc H (proj2 IH)) as M.
      destruct (merge_dir acc None sd) as [d e]. exact M.
    + destruct ic; exact H.
  - cbn [fst]. split; assumption.
Qed.

Lemma module_entry_inv : forall m, TreeInv false (fst (module_entry SC ic m)).
Proof.
  intros. unfold module_entry.
  pose proof (module_dir_ok (S (length SC)) [] m) as H.
  destruct (module_dir SC ic (S (length SC)) [] m) as [[d err] mg]. cbn [fst] in *.
  apply TreeInv_dir_entry; [discriminate | intro L; exfalso; apply L; reflexivity | assumption].
Qed.

Lemma stage_F0_inv : ForestInv false (stage_F0 SC ic).
Proof.
  unfold stage_F0, ForestInv. apply Forall_forall. intros kv H.
  apply in_map_iff in H. destruct H as [[m b] [E H]]. subst kv. cbn [fst snd].
  apply filter_In in H. destruct H as [H _]. apply in_map_iff in H. destruct H as [m' [E' _]].
  inversion E'; subst. apply module_entry_inv.
Qed.

(* ------------------------------------------------------------------ augments *)
Definition AugsOk (l : list aug) : Prop := Forall (fun a => elems_ok false (a_dir a)) l.
Definition PendOk (P : pendings) : Prop := Forall (fun kv => AugsOk (snd kv)) P.

Lemma module_augs_ok : forall m, AugsOk (module_augs SC m).
Proof.
  intros. unfold module_augs, AugsOk. apply Forall_forall. intros a H.
  apply in_map_iff in H. destruct H as [x [E _]]. subst a.
  pose proof (body_entry_dir_ok m [m_body m] (snd x)) as B.
  destruct (body_entry SC m [m_body m] (snd x)) as [e err]. exact B.
Qed.

Lemma stage_P0_ok : PendOk (stage_P0 SC).
Proof.
  unfold stage_P0, PendOk. apply Forall_forall. intros kv H.
  apply in_map_iff in H. destruct H as [m [E _]]. subst kv. apply module_augs_ok.
Qed.

Lemma pend_lookup_ok : forall P mn, PendOk P -> AugsOk (match lookup mn P with Some l => l | None => [] end).
Proof.
  intros P mn H. destruct (lookup mn P) as [l|] eqn:E; [|constructor].
  apply lookup_in in E. unfold PendOk in H. rewrite Forall_forall in H. apply (H _ E).
Qed.

Lemma pend_update_ok : forall P mn un, PendOk P -> AugsOk un -> PendOk (update mn un P).
Proof. intros. apply Forall_update; auto. Qed.

Lemma augment_module_inv : forall pending F err addErrors,
  ForestInv false F -> AugsOk pending ->
  ForestInv false (fst (fst (fst (augment_module SC F err pending addErrors)))) /\
  AugsOk (snd (augment_module SC F err pending addErrors)).
Proof.
  induction pending as [|a rest IH]; intros F err addErrors HF HA; cbn [augment_module].
  - split; [assumption | constructor].
  - inversion HA as [|a' l Ha Hrest]; subst.
    pose proof (Find_inv SC false F (a_mod a) (m_name (a_mod a), []) (a_path a) HF) as HF1.
    destruct (Find SC F (a_mod a) (m_name (a_mod a), []) (a_path a)) as [target F1]. cbn [snd] in HF1.
    match goal with |- context [if ?c then _ else _] => destruct c end.
    + destruct target as [p|]; [|split; assumption].
      match goal with |- context [augment_module SC ?F2 ?e2 rest addErrors] =>
        assert (HF2 : ForestInv false F2); [| specialize (IH F2 e2 addErrors HF2 Hrest);
          destruct (augment_module SC F2 e2 rest addErrors) as [[[F3 err3] n] un]; exact IH ] end.
      apply update_pos_inv; [assumption|]. intros te Lte.
      pose proof (locate_pos_inv _ _ _ _ HF1 Lte) as Tte.
      unfold keeps. destruct (e_dir te) as [d|] eqn:Ed; [|auto].
      rewrite e_name_set_dir, e_kind_set_dir. split; [|split; reflexivity].
      apply TreeInv_set_dir; [assumption | congruence | | intros; discriminate].
      destruct (TreeInv_dir _ _ _ Tte Ed) as [DO _].
      apply (merge_dir_ok false (Some (owner_ns SC (a_mod a))) (a_dir a) (d, false)); assumption.
    + specialize (IH F1 (err || addErrors) addErrors HF1 Hrest).
      destruct (augment_module SC F1 (err || addErrors) rest addErrors) as [[[F3 err3] n] un].
      cbn [fst snd] in *. destruct IH. split; [assumption | constructor; assumption].
Qed.

Lemma augment_pass_inv : forall fuel F err P mods i processed,
  ForestInv false F -> PendOk P ->
  ForestInv false (fst (fst (fst (fst (augment_pass SC fuel F err P mods i processed))))) /\
  PendOk (snd (fst (fst (augment_pass SC fuel F err P mods i processed)))).
Proof.
  induction fuel as [|f IH]; intros F err P mods i processed HF HP; cbn [augment_pass]; [split; assumption|].
  destruct (nth_error mods i) as [mn|]; [|split; assumption].
  pose proof (augment_module_inv _ F err false HF (pend_lookup_ok P mn HP)) as [A B].
  destruct (augment_module SC F err _ false) as [[[F1 err1] p] un]. cbn [fst snd] in A, B.
  pose proof (pend_update_ok P mn un HP B) as HP1.
  destruct un; apply IH; assumption.
Qed.

Lemma augment_loop_inv : forall fuel F err P mods applied,
  ForestInv false F -> PendOk P ->
  ForestInv false (fst (fst (fst (fst (augment_loop SC fuel F err P mods applied))))) /\
  PendOk (snd (fst (fst (augment_loop SC fuel F err P mods applied)))).
Proof.
  induction fuel as [|f IH]; intros F err P mods applied HF HP; cbn [augment_loop]; [split; assumption|].
  destruct mods as [|m0 mods']; [split; assumption|].
  pose proof (augment_pass_inv (2 * length (m0 :: mods')) F err P (m0 :: mods') O O HF HP) as [A B].
  destruct (augment_pass SC (2 * length (m0 :: mods')) F err P (m0 :: mods') O O) as [[[[F1 err1] P1] mods1] processed].
  cbn [fst snd] in A, B.
  destruct processed; [split; assumption | apply IH; assumption].
Qed.

End ModulesInv.

(* ------------------------------------------------------------------ FixChoice *)
Definition wrap1 (kv : str * entry) : str * entry :=
  match e_kind (snd kv) with
  | KCase => kv
  | _ => (fst kv, Entry (e_name (snd kv)) KCase TSUnset TSUnset [] [] None [] None (e_ns (snd kv))
                        (Some [(e_name (snd kv), snd kv)]) None)
  end.
Definition wrap_cases (e : entry) : entry :=
  match e_kind e, e_dir e with
  | KChoice, Some d => set_dir e (Some (map wrap1 d))
  | _, _ => e
  end.
Definition fix_children (f : nat) (e1 : entry) : entry :=
  match e_dir e1 with
  | Some d => set_dir e1 (Some (map (fun kv => (fst kv, fix_choice f (snd kv))) d))
  | None => e1
  end.
Definition fix_rpc (f : nat) (e2 : entry) : entry :=
  match e_rpc e2 with
  | Some (i, o) => set_rpc e2 (Some (option_map (fix_choice f) i, option_map (fix_choice f) o))
  | None => e2
  end.

Lemma fix_choice_S : forall f e, fix_choice (S f) e = fix_rpc f (fix_children f (wrap_cases e)).
Proof. reflexivity. Qed.

Lemma map_fst_map : forall (g : entry -> entry) (d : list (str * entry)),
  map fst (map (fun kv => (fst kv, g (snd kv))) d) = map fst d.
Proof. induction d as [|[k v] d IH]; cbn; [reflexivity | rewrite IH; reflexivity]. Qed.

Lemma map_fst_wrap1 : forall d, map fst (map wrap1 d) = map fst d.
Proof.
  induction d as [|[k v] d IH]; cbn [map]; [reflexivity|]. rewrite IH. f_equal.
  unfold wrap1. cbn [snd fst]. destruct (e_kind v); reflexivity.
Qed.

Lemma dir_ok_map : forall s s' (g : entry -> entry) d,
  dir_ok s d ->
  (forall kv, In kv d -> TreeInv s (snd kv) -> TreeInv s' (g (snd kv)) /\ e_name (g (snd kv)) = e_name (snd kv)) ->
  dir_ok s' (map (fun kv => (fst kv, g (snd kv))) d).
Proof.
  intros s s' g d [ND EL] Hg. split; [rewrite map_fst_map; assumption|].
  unfold elems_ok in *. rewrite Forall_forall in EL. apply Forall_forall. intros x Hx.
  apply in_map_iff in Hx. destruct Hx as [kv [E I]]. subst x. cbn [fst snd].
  destruct (EL _ I) as [A B]. destruct (Hg _ I B) as [C D]. split; [congruence | assumption].
Qed.

Lemma TreeInv_wrap1 : forall s kv, fst kv = e_name (snd kv) -> TreeInv s (snd kv) ->
  fst (wrap1 kv) = e_name (snd (wrap1 kv)) /\ TreeInv s (snd (wrap1 kv)) /\ e_kind (snd (wrap1 kv)) = KCase.
Proof.
  intros s [k v] N T. cbn [fst snd] in *. unfold wrap1. cbn [fst snd].
  destruct (e_kind v) eqn:K; try (split; [assumption | split; [assumption | assumption]]);
  cbn [fst snd e_name e_kind]; (split; [assumption | split; [|reflexivity]]);
  (constructor;
   [ unfold kind_ok; cbn [e_kind e_dir e_ty e_la]; split; [|split];
     [ intro; discriminate | intros _; discriminate | let H := fresh in intro H; exfalso; apply H; reflexivity ]
   | cbn [e_dir e_kind]; intros d E; inversion E; subst; split; [|split];
     [ cbn; constructor; [intros []| constructor]
     | constructor; [split; [reflexivity | assumption] | constructor]
     | intros _ C; discriminate C ]
   | cbn [e_rpc]; intros; discriminate ]).
Qed.

Lemma wrap_cases_keeps : forall s e, TreeInv s e -> keeps s wrap_cases e.
Proof.
  intros s e T. unfold keeps, wrap_cases.
  destruct (e_kind e) eqn:K; try (split; [assumption | split; [reflexivity | exact K]]).
  destruct (e_dir e) as [d|] eqn:D; [|split; [assumption | split; [reflexivity | exact K]]].
  rewrite e_name_set_dir, e_kind_set_dir. split; [|split; [reflexivity | exact K]].
  destruct (TreeInv_dir _ _ _ T D) as [[ND EL] _].
  apply TreeInv_set_dir; [assumption | congruence | |].
  - split; [rewrite map_fst_wrap1; assumption|].
    unfold elems_ok in *. rewrite Forall_forall in EL. apply Forall_forall. intros x Hx.
    apply in_map_iff in Hx. destruct Hx as [kv [E I]]. subst x. destruct (EL _ I) as [A B].
    destruct (TreeInv_wrap1 s kv A B) as [P [Q _]]. split; assumption.
  - intros _ _. unfold elems_ok in *. rewrite Forall_forall in EL. apply Forall_forall. intros x Hx.
    apply in_map_iff in Hx. destruct Hx as [kv [E I]]. subst x. destruct (EL _ I) as [A B].
    apply (TreeInv_wrap1 s kv A B).
Qed.

Lemma wrap_cases_choice : forall e d, e_kind e = KChoice -> e_dir (wrap_cases e) = Some d ->
  Forall (fun kv => e_kind (snd kv) = KCase) d.
Proof.
  intros e d K D. unfold wrap_cases in D. rewrite K in D. destruct (e_dir e) as [d0|] eqn:D0; [|congruence].
  rewrite e_dir_set_dir in D. inversion D; subst. apply Forall_forall. intros x Hx.
  apply in_map_iff in Hx. destruct Hx as [[k v] [E _]]. subst x. unfold wrap1. cbn [snd].
  destruct (e_kind v) eqn:Kv; cbn [snd e_kind]; auto.
Qed.

(* FixChoice preserves the invariant (without the choice clause), names and kinds, whatever the fuel *)
Lemma fix_choice_weak : forall fuel e, TreeInv false e -> keeps false (fix_choice fuel) e.
Proof.
  induction fuel as [|f IH]; intros e T.
  - unfold keeps. cbn [fix_choice]. split; [assumption | split; reflexivity].
  - unfold keeps. rewrite fix_choice_S. destruct (wrap_cases_keeps false e T) as [T1 [N1 K1]].
    set (e1 := wrap_cases e) in *. clearbody e1.
    assert (S2 : keeps false (fix_children f) e1).
    { unfold keeps, fix_children. destruct (e_dir e1) as [d|] eqn:D; [|split; [assumption | split; reflexivity]].
      rewrite e_name_set_dir, e_kind_set_dir. split; [|split; reflexivity].
      destruct (TreeInv_dir _ _ _ T1 D) as [DO _].
      apply TreeInv_set_dir; [assumption | congruence | | intros; discriminate].
      apply (dir_ok_map false false); [assumption|]. intros kv _ Tkv. destruct (IH _ Tkv) as [A [B _]]. split; assumption. }
    destruct S2 as [T2 [N2 K2]]. set (e2 := fix_children f e1) in *. clearbody e2.
    unfold fix_rpc. destruct (e_rpc e2) as [[i o]|] eqn:R.
    + rewrite e_name_set_rpc, e_kind_set_rpc. split; [|split; congruence].
      destruct (TreeInv_rpc _ _ _ _ T2 R) as [A B].
      apply TreeInv_set_rpc; [assumption | |].
      * intros x Ex. destruct i as [i|]; [|discriminate]. cbn [option_map] in Ex. inversion Ex; subst.
        destruct (A i eq_refl) as [Ki [Ni Ti]]. destruct (IH _ Ti) as [P [Q Rk]].
        split; [congruence | split; [congruence | assumption]].
      * intros x Ex. destruct o as [o|]; [|discriminate]. cbn [option_map] in Ex. inversion Ex; subst.
        destruct (B o eq_refl) as [Ko [No To]]. destruct (IH _ To) as [P [Q Rk]].
        split; [congruence | split; [congruence | assumption]].
    + split; [assumption | split; congruence].
Qed.

Lemma fix_all_inv : forall F, ForestInv false F -> ForestInv false (fix_all F).
Proof.
  intros F H. unfold fix_all, ForestInv in *. rewrite Forall_forall in H. apply Forall_forall. intros x Hx.
  apply in_map_iff in Hx. destruct Hx as [kv [E I]]. subst x. cbn [snd].
  apply (fix_choice_weak _ _ (H _ I)).
Qed.

(* with enough fuel FixChoice establishes the choice clause: every original level costs at most two units
   (the implicit case and the member) *)
Lemma HeightLe_mono : forall n e, HeightLe n e -> forall m, n <= m -> HeightLe m e.
Proof.
  induction n as [|n IH]; intros e H m Hm; inversion H as [n' e' D R]; subst.
  destruct m as [|m]; [lia|]. constructor.
  - intros d E. specialize (D d E). rewrite Forall_forall in *. intros x Hx. apply (IH _ (D x Hx)). lia.
  - intros i o E. destruct (R i o E) as [A B]. split; intros x Ex; [apply (IH _ (A x Ex)) | apply (IH _ (B x Ex))]; lia.
Qed.

Lemma e_rpc_wrap_cases : forall e, e_rpc (wrap_cases e) = e_rpc e.
Proof.
  intros. unfold wrap_cases. destruct (e_kind e); try reflexivity.
  destruct (e_dir e); [apply e_rpc_set_dir | reflexivity].
Qed.

Lemma kind_ok_some : forall n k c m df u t ky la ns d r d' r',
  kind_ok (Entry n k c m df u t ky la ns (Some d) r) -> kind_ok (Entry n k c m df u t ky la ns (Some d') r').
Proof.
  intros n k c m df u t ky la ns d r d' r'. unfold kind_ok. cbn [e_kind e_dir e_ty e_la]. intros [A [B C]]. split; [|split]; auto.
  - intro E. destruct (A E) as [X _]. discriminate X.
  - intros _. discriminate.
Qed.
Lemma kind_ok_rpc : forall n k c m df u t ky la ns d r r',
  kind_ok (Entry n k c m df u t ky la ns d r) -> kind_ok (Entry n k c m df u t ky la ns d r').
Proof. intros n k c m df u t ky la ns d r r'. unfold kind_ok. cbn [e_kind e_dir e_ty e_la]. auto. Qed.

(* one node whose children, rpc input and output have been fixed *)
Lemma fix_node_strict : forall f e1,
  TreeInv false e1 ->
  (forall d1, e_dir e1 = Some d1 -> Forall (fun kv => TreeInv true (fix_choice f (snd kv))) d1) ->
  (e_kind e1 = KChoice -> forall d1, e_dir e1 = Some d1 -> Forall (fun kv => e_kind (snd kv) = KCase) d1) ->
  (forall i o, e_rpc e1 = Some (i, o) ->
     (forall x, i = Some x -> TreeInv true (fix_choice f x)) /\ (forall x, o = Some x -> TreeInv true (fix_choice f x))) ->
  TreeInv true (fix_rpc f (fix_children f e1)).
Proof.
  intros f e1 T1 CH KC RP.
  pose proof (TreeInv_kind _ _ T1) as KO.
  assert (DIR : forall d1, e_dir e1 = Some d1 ->
           NoDup (map fst (map (fun kv => (fst kv, fix_choice f (snd kv))) d1)) /\
           Forall (fun kv => fst kv = e_name (snd kv) /\ TreeInv true (snd kv))
                  (map (fun kv => (fst kv, fix_choice f (snd kv))) d1) /\
           (true = true -> e_kind e1 = KChoice ->
            Forall (fun kv => e_kind (snd kv) = KCase) (map (fun kv => (fst kv, fix_choice f (snd kv))) d1))).
  { intros d1 D1. destruct (TreeInv_dir _ _ _ T1 D1) as [[ND EL] _]. specialize (CH d1 D1).
    unfold elems_ok in EL. rewrite Forall_forall in EL, CH. split; [|split].
    - rewrite map_fst_map. assumption.
    - apply Forall_forall. intros x Hx. apply in_map_iff in Hx. destruct Hx as [kv [E I]]. subst x. cbn [fst snd].
      destruct (EL _ I) as [A B]. destruct (fix_choice_weak f _ B) as [_ [Nn _]]. split; [congruence | apply (CH _ I)].
    - intros _ Kc. specialize (KC Kc d1 D1). rewrite Forall_forall in KC. apply Forall_forall. intros x Hx.
      apply in_map_iff in Hx. destruct Hx as [kv [E I]]. subst x. cbn [snd].
      destruct (EL _ I) as [_ B]. destruct (fix_choice_weak f _ B) as [_ [_ Kk]]. rewrite Kk. apply (KC _ I). }
  assert (RPC : forall i o, e_rpc e1 = Some (i, o) ->
           (forall x, option_map (fix_choice f) i = Some x -> e_kind x = KInput /\ e_name x = s_input /\ TreeInv true x) /\
           (forall x, option_map (fix_choice f) o = Some x -> e_kind x = KOutput /\ e_name x = s_output /\ TreeInv true x)).
  { intros i o R. destruct (TreeInv_rpc _ _ _ _ T1 R) as [A B]. destruct (RP i o R) as [P Q]. split.
    - intros x Ex. destruct i as [i|]; [|discriminate]. cbn [option_map] in Ex. inversion Ex; subst.
      destruct (A i eq_refl) as [Ki [Ni Ti]]. destruct (fix_choice_weak f _ Ti) as [_ [Nn Kk]].
      split; [congruence | split; [congruence | apply (P i eq_refl)]].
    - intros x Ex. destruct o as [o|]; [|discriminate]. cbn [option_map] in Ex. inversion Ex; subst.
      destruct (B o eq_refl) as [Ko [No To]]. destruct (fix_choice_weak f _ To) as [_ [Nn Kk]].
      split; [congruence | split; [congruence | apply (Q o eq_refl)]]. }
  destruct e1 as [n1 k1 c1 m1 df1 u1 t1 ky1 la1 ns1 dir1 r1].
  unfold fix_children, fix_rpc. cbn [e_dir e_rpc e_kind] in *.
  destruct dir1 as [d1|]; cbn [set_dir e_rpc].
  - destruct r1 as [[i o]|]; cbn [set_rpc].
    + constructor.
      * exact (kind_ok_some _ _ _ _ _ _ _ _ _ _ _ _ _ _ KO).
      * cbn [e_dir e_kind]. intros d0 E0. inversion E0; subst d0. apply (DIR d1 eq_refl).
      * cbn [e_rpc]. intros i' o' E. inversion E; subst. apply (RPC i o eq_refl).
    + constructor.
      * exact (kind_ok_some _ _ _ _ _ _ _ _ _ _ _ _ _ _ KO).
      * cbn [e_dir e_kind]. intros d0 E0. inversion E0; subst d0. apply (DIR d1 eq_refl).
      * cbn [e_rpc]. intros; discriminate.
  - destruct r1 as [[i o]|]; cbn [set_rpc].
    + constructor.
      * exact (kind_ok_rpc _ _ _ _ _ _ _ _ _ _ _ _ _ KO).
      * cbn [e_dir]. intros; discriminate.
      * cbn [e_rpc]. intros i' o' E. inversion E; subst. apply (RPC i o eq_refl).
    + constructor.
      * exact KO.
      * cbn [e_dir]. intros; discriminate.
      * cbn [e_rpc]. intros; discriminate.
Qed.

Lemma fix_choice_strict : forall fuel h e,
  HeightLe h e -> 2 * h <= fuel -> TreeInv false e -> TreeInv true (fix_choice fuel e).
Proof.
  induction fuel as [fuel IHf] using lt_wf_ind. intros h e HH Hf T.
  destruct h as [|h]; [inversion HH|].
  destruct fuel as [|f]; [lia|].
  inversion HH as [n' e' HD HR]; subst.
  rewrite fix_choice_S.
  destruct (wrap_cases_keeps false e T) as [T1 [N1 K1]].
  apply fix_node_strict.
  - exact T1.
  - (* children of the node after wrapping: fixed by [fix_choice f] *)
    intros d1 D1. unfold wrap_cases in D1.
    assert (ORIG : forall d, e_dir e = Some d -> Forall (fun kv => TreeInv true (fix_choice f (snd kv))) d).
    { intros d D. specialize (HD d D). destruct (TreeInv_dir _ _ _ T D) as [[_ EL] _].
      unfold elems_ok in EL. rewrite Forall_forall in *. intros x Hx.
      apply (IHf f ltac:(lia) h); [apply (HD x Hx) | lia | apply (EL x Hx)]. }
    destruct (e_kind e) eqn:K; try (apply ORIG; assumption).
    destruct (e_dir e) as [d|] eqn:D; [|congruence].
    rewrite e_dir_set_dir in D1. inversion D1; subst d1.
    specialize (HD d eq_refl). destruct (TreeInv_dir _ _ _ T D) as [[_ EL] _].
    unfold elems_ok in EL. rewrite Forall_forall in *. intros x Hx.
    apply in_map_iff in Hx. destruct Hx as [[k v] [E I]]. subst x.
    destruct (EL _ I) as [Nk Tv]. cbn [fst snd] in Nk, Tv. specialize (HD _ I). cbn [snd] in HD.
    unfold wrap1. cbn [snd].
    assert (PLAIN : TreeInv true (fix_choice f v)) by (apply (IHf f ltac:(lia) h); [assumption | lia | assumption]).
    destruct (e_kind v) eqn:Kv; cbn [snd]; try exact PLAIN;
    (* an implicit case: its only child is the member, fixed with fuel f-1 *)
    (destruct f as [|f']; [lia|]; rewrite fix_choice_S; unfold wrap_cases; cbn [e_kind e_dir];
     unfold fix_children; cbn [e_dir set_dir map fst snd]; unfold fix_rpc; cbn [e_rpc];
     assert (Tm : TreeInv true (fix_choice f' v)) by (apply (IHf f' ltac:(lia) h); [assumption | lia | assumption]);
     destruct (fix_choice_weak f' v Tv) as [_ [Nm _]];
     constructor;
     [ unfold kind_ok; cbn [e_kind e_dir e_ty e_la]; split; [|split];
       [ intro; discriminate | intros _; discriminate | let H := fresh in intro H; exfalso; apply H; reflexivity ]
     | cbn [e_dir e_kind]; intros d0 E0; inversion E0; subst; split; [|split];
       [ cbn; constructor; [intros []| constructor]
       | constructor; [cbn [fst snd]; split; [congruence | assumption] | constructor]
       | intros _ C; discriminate C ]
     | cbn [e_rpc]; intros; discriminate ]).
  - intros Kc d1 D1. apply (wrap_cases_choice e); [congruence | assumption].
  - intros i o R. rewrite e_rpc_wrap_cases in R. destruct (HR i o R) as [HA HB].
    destruct (TreeInv_rpc _ _ _ _ T R) as [A B]. split; intros x Ex.
    + destruct (A x Ex) as [_ [_ Tx]]. apply (IHf f ltac:(lia) h); [apply (HA x Ex) | lia | assumption].
    + destruct (B x Ex) as [_ [_ Tx]]. apply (IHf f ltac:(lia) h); [apply (HB x Ex) | lia | assumption].
Qed.

(* ------------------------------------------------------------------ deviations *)
Definition attr_same (t t' : entry) : Prop :=
  e_name t' = e_name t /\ e_kind t' = e_kind t /\ e_dir t' = e_dir t /\ e_rpc t' = e_rpc t /\
  (e_ty t <> None -> e_ty t' <> None) /\ (e_la t' <> None -> e_la t <> None).

Lemma attr_same_refl : forall t, attr_same t t.
Proof. intros. unfold attr_same. repeat split; auto. Qed.
Lemma attr_same_trans : forall a b c, attr_same a b -> attr_same b c -> attr_same a c.
Proof.
  unfold attr_same. intros a b c [A1 [A2 [A3 [A4 [A5 A6]]]]] [B1 [B2 [B3 [B4 [B5 B6]]]]].
  repeat split; try congruence; auto.
Qed.
Lemma as_cfg : forall t c, attr_same t (set_cfg t c). Proof. destruct t; intros; unfold attr_same; cbn; repeat split; auto. Qed.
Lemma as_mand : forall t c, attr_same t (set_mand t c). Proof. destruct t; intros; unfold attr_same; cbn; repeat split; auto. Qed.
Lemma as_dflt : forall t c, attr_same t (set_dflt t c). Proof. destruct t; intros; unfold attr_same; cbn; repeat split; auto. Qed.
Lemma as_units : forall t c, attr_same t (set_units t c). Proof. destruct t; intros; unfold attr_same; cbn; repeat split; auto. Qed.
Lemma as_ty : forall t ty, attr_same t (set_ty t (Some ty)).
Proof. destruct t; intros; unfold attr_same; cbn. repeat split; auto. intros _; discriminate. Qed.
Lemma as_la : forall t x, e_la t <> None -> attr_same t (set_la t x).
Proof. destruct t; intros; unfold attr_same; cbn in *. repeat split; auto. Qed.

Ltac as_solve :=
  repeat first
    [ apply attr_same_refl
    | eapply attr_same_trans; [| first [apply as_cfg | apply as_mand | apply as_dflt | apply as_units | apply as_ty
                                       | apply as_la; congruence ] ] ].

Ltac split_all :=
  repeat match goal with
  | |- context [match ?x with _ => _ end] => first [is_var x; destruct x | destruct x eqn:?]
  | |- context [if ?x then _ else _] => first [is_var x; destruct x | destruct x eqn:?]
  end.

Lemma apply_add_replace_same : forall replace dv t, attr_same t (fst (apply_add_replace replace dv t)).
Proof.
  intros replace [kind cfg mand dflt mn mx units ty] t. unfold apply_add_replace.
  cbn [dv_kind dv_cfg dv_mand dv_default dv_min dv_max dv_units dv_type].
  set (t1 := if is_set cfg then set_cfg t cfg else t).
  assert (A1 : attr_same t t1) by (subst t1; destruct (is_set cfg); as_solve).
  clearbody t1.
  match goal with |- context [let '(t, e1) := ?M in _] => destruct M as [t2 e1] eqn:E2 end.
  assert (A2 : attr_same t t2).
  { eapply attr_same_trans; [exact A1|]. destruct dflt as [d|]; [|inversion E2; as_solve].
    destruct replace; [inversion E2; as_solve|].
    destruct (isLeafList t1); [inversion E2; as_solve|].
    destruct (e_dflt t1); inversion E2; as_solve. }
  clear E2 A1. eapply attr_same_trans; [exact A2|]. clear A2.
  split_all; cbn [fst]; as_solve.
Qed.

Lemma apply_delete_same : forall dv t, attr_same t (fst (apply_delete dv t)).
Proof.
  intros [kind cfg mand dflt mn mx units ty] t. unfold apply_delete.
  cbn [dv_kind dv_cfg dv_mand dv_default dv_min dv_max dv_units dv_type].
  set (t1 := if is_set cfg then set_cfg t TSUnset else t).
  assert (A1 : attr_same t t1) by (subst t1; destruct (is_set cfg); as_solve).
  clearbody t1.
  match goal with |- context [let '(t, e1) := ?M in _] => destruct M as [t2 e1] eqn:E2 end.
  assert (A2 : attr_same t t2).
  { eapply attr_same_trans; [exact A1|]. destruct dflt as [d|]; [|inversion E2; as_solve].
    destruct (isLeafList t1); [inversion E2; as_solve|].
    destruct (e_dflt t1); [inversion E2; as_solve|].
    destruct (str_eqb d s); inversion E2; as_solve. }
  clear E2 A1. eapply attr_same_trans; [exact A2|]. clear A2.
  split_all; cbn [fst]; as_solve.
Qed.

Lemma TreeInv_attr_same : forall s t t', TreeInv s t -> attr_same t t' -> TreeInv s t'.
Proof.
  intros s t t' T [A1 [A2 [A3 [A4 [A5 A6]]]]]. destruct t, t'. cbn [e_name e_kind e_dir e_rpc e_ty e_la] in *. subst.
  inversion T as [e' K D R]; subst. constructor; [|exact D | exact R].
  destruct K as [K1 [K2 K3]]. cbn [e_kind e_dir e_ty e_la] in *. split; [|split].
  - intro E. destruct (K1 E) as [X Y]. split; [assumption | apply A5; assumption].
  - exact K2.
  - intro L. apply K3. apply A6. assumption.
Qed.

Lemma keep_children_same : forall t t', attr_same t t' -> keep_children t t' = t'.
Proof.
  intros t t' [_ [_ [A3 [A4 _]]]]. unfold keep_children. rewrite <- A3, <- A4. destruct t'; reflexivity.
Qed.

Section DevInv.
Variable SC : schema.

Lemma apply_deviates_inv : forall ins s dvs F p cur attached err,
  ForestInv s F -> ForestInv s (fst (fst (fst (apply_deviates ins F p cur attached err dvs)))).
Proof.
  intros ins s. induction dvs as [|dv rest IH]; intros F p cur attached err H; cbn [apply_deviates]; [assumption|].
  destruct (str_eqb (dv_kind dv) s_notsupported).
  - destruct (rev (snd p)) as [|last up]; [apply IH; assumption|].
    destruct ins; [apply IH; assumption|].
    destruct last; try (apply IH; assumption).
    apply IH. apply update_pos_inv; [assumption|]. intros pe L.
    pose proof (locate_pos_inv _ _ _ _ H L) as T. unfold keeps.
    destruct (e_dir pe) as [d|] eqn:D; [|auto].
    rewrite e_name_set_dir, e_kind_set_dir. split; [|split; reflexivity].
    destruct (TreeInv_dir _ _ _ T D) as [[ND EL] CH].
    apply TreeInv_set_dir; [assumption | congruence | |].
    + split; [apply remove_keys_nodup; assumption | apply Forall_remove; assumption].
    + intros S1 S2. apply Forall_remove. apply CH; assumption.
  - destruct (_ || _).
    + destruct (apply_add_replace _ dv cur). apply IH; assumption.
    + destruct (str_eqb (dv_kind dv) s_delete); [|apply IH; assumption].
      destruct (apply_delete dv cur). apply IH; assumption.
Qed.

Lemma apply_deviates_attr : forall ins dvs F p cur attached err,
  attr_same cur (snd (fst (fst (apply_deviates ins F p cur attached err dvs)))).
Proof.
  intros ins. induction dvs as [|dv rest IH]; intros F p cur attached err; cbn [apply_deviates]; [apply attr_same_refl|].
  destruct (str_eqb (dv_kind dv) s_notsupported).
  - destruct (rev (snd p)) as [|last up]; [apply IH|].
    destruct ins; [apply IH|]. destruct last; apply IH.
  - destruct (_ || _).
    + pose proof (apply_add_replace_same (str_eqb (dv_kind dv) s_replace) dv cur) as A.
      destruct (apply_add_replace _ dv cur) as [cur' e]. eapply attr_same_trans; [exact A | apply IH].
    + destruct (str_eqb (dv_kind dv) s_delete); [|apply IH].
      pose proof (apply_delete_same dv cur) as A.
      destruct (apply_delete dv cur) as [cur' e]. eapply attr_same_trans; [exact A | apply IH].
Qed.

Lemma apply_deviates_detached : forall ins dvs F p cur err,
  snd (fst (apply_deviates ins F p cur false err dvs)) = false.
Proof.
  intros ins. induction dvs as [|dv rest IH]; intros F p cur err; cbn [apply_deviates]; [reflexivity|].
  destruct (str_eqb (dv_kind dv) s_notsupported).
  - destruct (rev (snd p)) as [|last up]; [apply IH|].
    destruct ins; [apply IH|]. destruct last; apply IH.
  - destruct (_ || _).
    + destruct (apply_add_replace _ dv cur). apply IH.
    + destruct (str_eqb (dv_kind dv) s_delete); [|apply IH]. destruct (apply_delete dv cur). apply IH.
Qed.

Lemma apply_deviates_attached : forall ins dvs F p cur attached err,
  snd (fst (apply_deviates ins F p cur attached err dvs)) = true ->
  fst (fst (fst (apply_deviates ins F p cur attached err dvs))) = F.
Proof.
  intros ins. induction dvs as [|dv rest IH]; intros F p cur attached err; cbn [apply_deviates]; [reflexivity|].
  destruct (str_eqb (dv_kind dv) s_notsupported).
  - destruct (rev (snd p)) as [|last up]; [apply IH|].
    destruct ins; [apply IH|]. destruct last; try apply IH.
    intro H. rewrite apply_deviates_detached in H. discriminate.
  - destruct (_ || _).
    + destruct (apply_add_replace _ dv cur). apply IH.
    + destruct (str_eqb (dv_kind dv) s_delete); [|apply IH]. destruct (apply_delete dv cur). apply IH.
Qed.

Lemma apply_deviations_inv : forall ins s m devs F err,
  ForestInv s F -> ForestInv s (fst (apply_deviations SC ins F err m devs)).
Proof.
  intros ins s m. induction devs as [|[path dvs] rest IH]; intros F err H; cbn [apply_deviations]; [assumption|].
  pose proof (Find_inv SC s F m (m_name m, []) path H) as H1.
  destruct (Find SC F m (m_name m, []) path) as [target F1]. cbn [snd] in H1.
  destruct target as [p|]; [|apply IH; assumption].
  destruct (locate_pos F1 p) as [cur|] eqn:L; [|apply IH; assumption].
  pose proof (apply_deviates_inv ins s dvs F1 p cur true err H1) as H2.
  pose proof (apply_deviates_attr ins dvs F1 p cur true err) as A.
  pose proof (apply_deviates_attached ins dvs F1 p cur true err) as AT.
  destruct (apply_deviates ins F1 p cur true err dvs) as [[[F2 cur'] attached] err']. cbn [fst snd] in *.
  apply IH. destruct attached; [|assumption].
  specialize (AT eq_refl). subst F2.
  apply update_pos_inv; [assumption|]. intros old Lo. rewrite L in Lo. inversion Lo; subst old.
  unfold keeps. rewrite (keep_children_same _ _ A).
  split; [eapply TreeInv_attr_same; [eapply locate_pos_inv; eassumption | assumption]|].
  destruct A as [A1 [A2 _]]. split; assumption.
Qed.

End DevInv.

(* ------------------------------------------------------------------ Process *)
Lemma existsb_built : forall (f : module -> built) l,
  existsb (fun x : module * built => snd (snd x)) (map (fun m => (m, f m)) l) = existsb (fun m => snd (f m)) l.
Proof. induction l; simpl; auto. rewrite IHl. reflexivity. Qed.

Lemma Process_eq : forall SC ic ins order,
  Process SC ic ins order =
  if includes_fail SC then RErr
  else if existsb (fun x : module * built => snd (snd x)) (map (fun m => (m, module_entry SC ic m)) SC) then RErr
  else process_tail SC ins order (stage_rounds SC ic order).
Proof. reflexivity. Qed.

Lemma process_tail_eq : forall SC ic ins order,
  process_tail SC ins order (stage_rounds SC ic order) =
  if stage_err4 SC ic ins order then RErr else ROk (stage_F4 SC ic ins order).
Proof.
  intros. unfold stage_err4, stage_F4, stage_dev, stage_F3, stage_err3, stage_final, stage_F2, stage_err1, stage_P1, stage_mods1.
  destruct (stage_rounds SC ic order) as [[[F2 err1] P1] mods1].
  unfold process_tail. cbn [fst snd].
  destruct (fold_left (final_step SC) mods1 _) as [[F3 err3] P3].
  cbn [fst snd].
  destruct (fold_left (dev_step SC ins) order (F3, err3)) as [F4 err4]. reflexivity.
Qed.

(* Process, stage by stage: the only ways to RErr *)
Lemma Process_stages : forall SC ic ins order,
  Process SC ic ins order =
  if includes_fail SC then RErr
  else if build_fail SC ic then RErr
  else if stage_err4 SC ic ins order then RErr else ROk (stage_F4 SC ic ins order).
Proof. intros. rewrite Process_eq, existsb_built, process_tail_eq. reflexivity. Qed.

Section ProcessInv.
Variable SC : schema.
Variable ic ins : bool.
Variable order : list str.

Lemma rounds_inv : forall n_aug fuel round F err P mods,
  ForestInv false F -> PendOk P ->
  ForestInv false (fst (fst (fst (rounds SC n_aug fuel round F err P mods)))) /\
  PendOk (snd (fst (rounds SC n_aug fuel round F err P mods))).
Proof.
  intros n_aug. induction fuel as [|f IH]; intros round F err P mods HF HP; cbn [rounds]; [split; assumption|].
  pose proof (augment_loop_inv SC (S n_aug) F err P mods O HF HP) as [A B].
  destruct (augment_loop SC (S n_aug) F err P mods O) as [[[[Fa erra] Pa] modsa] applied]. cbn [fst snd] in A, B.
  pose proof (fix_all_inv Fa A) as C.
  destruct modsa as [|m0 modsa']; [split; assumption|].
  destruct round as [|r]; [apply IH; assumption|].
  destruct applied; [split; assumption | apply IH; assumption].
Qed.

Lemma stage_rounds_inv : ForestInv false (stage_F2 SC ic order) /\ PendOk (stage_P1 SC ic order).
Proof.
  unfold stage_F2, stage_P1, stage_rounds. apply rounds_inv; [apply stage_F0_inv | apply stage_P0_ok].
Qed.

Lemma final_fold_inv : forall mods st,
  ForestInv false (fst (fst st)) -> PendOk (snd st) ->
  ForestInv false (fst (fst (fold_left (final_step SC) mods st))) /\ PendOk (snd (fold_left (final_step SC) mods st)).
Proof.
  induction mods as [|mn mods IH]; intros [[F err] P] HF HP; cbn [fold_left]; [split; assumption|].
  cbn [fst snd] in HF, HP. apply IH.
  - unfold final_step.
    pose proof (augment_module_inv SC _ F err true HF (pend_lookup_ok P mn HP)) as [A B].
    destruct (augment_module SC F err _ true) as [[[F' err'] n] un]. exact A.
  - unfold final_step.
    pose proof (augment_module_inv SC _ F err true HF (pend_lookup_ok P mn HP)) as [A B].
    destruct (augment_module SC F err _ true) as [[[F' err'] n] un]. cbn [snd] in *.
    apply pend_update_ok; assumption.
Qed.

Lemma dev_fold_inv : forall s mods st,
  ForestInv s (fst st) -> ForestInv s (fst (fold_left (dev_step SC ins) mods st)).
Proof.
  intros s. induction mods as [|mn mods IH]; intros st H; cbn [fold_left]; [assumption|].
  apply IH. unfold dev_step. destruct (find_module SC mn); [apply apply_deviations_inv|]; assumption.
Qed.

Lemma stage_F3_inv : ForestInv false (stage_F3 SC ic order).
Proof.
  unfold stage_F3, stage_final. destruct stage_rounds_inv as [A B].
  apply final_fold_inv; assumption.
Qed.

Lemma stage_F4_inv : ForestInv false (stage_F4 SC ic ins order).
Proof. unfold stage_F4, stage_dev. apply dev_fold_inv. apply stage_F3_inv. Qed.

(* T1 (without the choice clause): unconditional *)
Theorem Process_TreeInv_weak : forall F, Process SC ic ins order = ROk F -> ForestInv false F.
Proof.
  intros F H. rewrite Process_stages in H.
  destruct (includes_fail SC); [discriminate|]. destruct (build_fail SC ic); [discriminate|].
  destruct (stage_err4 SC ic ins order); [discriminate|]. inversion H; subst. apply stage_F4_inv.
Qed.

End ProcessInv.

(* ------------------------------------------------------------------ the choice clause *)
(* the structural height (Model/Schema.v) is a height in the sense of HeightLe *)
Lemma HeightLe_height_le : forall n e, height e <= n -> HeightLe n e.
Proof.
  induction n as [|n IH]; intros e H; [pose proof (height_pos e); lia|].
  constructor.
  - intros d E. apply Forall_forall. intros x Hx. apply IH.
    pose proof (height_child e d x E Hx). lia.
  - intros i o E. split; intros x Ex; subst; apply IH.
    + pose proof (height_input e x o E). lia.
    + pose proof (height_output e i x E). lia.
Qed.

Lemma HeightLe_height : forall e, HeightLe (height e) e.
Proof. intros e. apply HeightLe_height_le. apply Nat.le_refl. Qed.

(* FixChoice on all trees, with the fuel Process gives it, establishes the choice clause *)
Lemma fix_all_strict : forall F, ForestInv false F -> ForestInv true (fix_all F).
Proof.
  intros F HI. unfold fix_all, ForestInv in *.
  rewrite Forall_forall in HI. apply Forall_forall. intros x Hx.
  apply in_map_iff in Hx. destruct Hx as [kv [E I]]. subst x. cbn [snd].
  apply (fix_choice_strict _ (height (snd kv))).
  - apply HeightLe_height.
  - assert (height (snd kv) <= fold_right Nat.max 0 (map (fun kv0 => height (snd kv0)) F)).
    { apply fold_max_member. apply in_map_iff. exists kv. auto. }
    lia.
  - apply (HI _ I).
Qed.

Section Strict.
Variable SC : schema.
Variable ic ins : bool.
Variable order : list str.

Lemma rounds_strict : forall n_aug fuel round F err P mods,
  ForestInv false F -> PendOk P ->
  (fuel = 0 -> ForestInv true F) ->
  ForestInv true (fst (fst (fst (rounds SC n_aug fuel round F err P mods)))).
Proof.
  intros n_aug. induction fuel as [|f IH]; intros round F err P mods HF HP H0; cbn [rounds]; [auto|].
  pose proof (augment_loop_inv SC (S n_aug) F err P mods O HF HP) as [A B].
  destruct (augment_loop SC (S n_aug) F err P mods O) as [[[[Fa erra] Pa] modsa] applied]. cbn [fst snd] in A, B.
  pose proof (fix_all_strict Fa A) as C.
  pose proof (fix_all_inv Fa A) as C'.
  destruct modsa as [|m0 modsa']; [exact C|].
  destruct round as [|r]; [apply IH; auto|].
  destruct applied; [exact C | apply IH; auto].
Qed.

Lemma stage_F2_strict : ForestInv true (stage_F2 SC ic order).
Proof.
  unfold stage_F2, stage_rounds. apply rounds_strict.
  - apply stage_F0_inv.
  - apply stage_P0_ok.
  - discriminate.
Qed.

(* a pass of Augment that applies nothing only looks paths up (which may create rpc input/output) *)
Lemma augment_module_idle : forall s pending F err addErrors,
  ForestInv s F -> snd (fst (augment_module SC F err pending addErrors)) = 0 ->
  ForestInv s (fst (fst (fst (augment_module SC F err pending addErrors)))).
Proof.
  intros s. induction pending as [|a rest IH]; intros F err addErrors HF HN; cbn [augment_module] in *; [assumption|].
  pose proof (Find_inv SC s F (a_mod a) (m_name (a_mod a), []) (a_path a) HF) as HF1.
  destruct (Find SC F (a_mod a) (m_name (a_mod a), []) (a_path a)) as [target F1]. cbn [snd] in HF1.
  match goal with |- context [if ?c then _ else _] => destruct c end.
  - destruct target as [p|]; [|assumption].
    match type of HN with context [augment_module SC ?F2 ?e2 rest addErrors] =>
      destruct (augment_module SC F2 e2 rest addErrors) as [[[F3 err3] n] un] end.
    cbn [fst snd] in HN. discriminate.
  - specialize (IH F1 (err || addErrors) addErrors HF1).
    destruct (augment_module SC F1 (err || addErrors) rest addErrors) as [[[F3 err3] n] un].
    cbn [fst snd] in *. apply IH. assumption.
Qed.

Definition step_n (st : forest * bool * pendings) (mn : str) : nat :=
  snd (fst (augment_module SC (fst (fst st)) (snd (fst st))
                           (match lookup mn (snd st) with Some l => l | None => [] end) true)).

Lemma final_step_cnt_eq : forall st c mn,
  final_step_cnt SC (st, c) mn = (final_step SC st mn, c + step_n st mn).
Proof.
  intros [[F err] P] c mn. unfold final_step_cnt, final_step, step_n. cbn [fst snd].
  destruct (augment_module SC F err _ true) as [[[F' err'] n] un]. reflexivity.
Qed.

Lemma final_cnt_fst : forall mods st c,
  fst (fold_left (final_step_cnt SC) mods (st, c)) = fold_left (final_step SC) mods st.
Proof.
  induction mods as [|mn mods IH]; intros st c; cbn [fold_left]; [reflexivity|].
  rewrite final_step_cnt_eq. apply IH.
Qed.

Lemma final_cnt_mono : forall mods st c, c <= snd (fold_left (final_step_cnt SC) mods (st, c)).
Proof.
  induction mods as [|mn mods IH]; intros st c; cbn [fold_left]; [apply Nat.le_refl|].
  rewrite final_step_cnt_eq. specialize (IH (final_step SC st mn) (c + step_n st mn)). lia.
Qed.

Lemma final_fold_idle : forall s mods st c,
  ForestInv s (fst (fst st)) -> snd (fold_left (final_step_cnt SC) mods (st, c)) = 0 ->
  ForestInv s (fst (fst (fold_left (final_step SC) mods st))).
Proof.
  intros s. induction mods as [|mn mods IH]; intros st c HF HN; cbn [fold_left] in *; [assumption|].
  rewrite final_step_cnt_eq in HN.
  pose proof (final_cnt_mono mods (final_step SC st mn) (c + step_n st mn)) as M.
  apply (IH _ (c + step_n st mn)); [|assumption].
  assert (Z : step_n st mn = 0) by lia. clear - HF Z.
  destruct st as [[F err] P]. unfold step_n in Z. unfold final_step. cbn [fst snd] in *.
  pose proof (augment_module_idle s (match lookup mn P with Some l => l | None => [] end) F err true HF Z) as ID.
  destruct (augment_module SC F err _ true) as [[[F' err'] n] un]. exact ID.
Qed.

(* T1 with the choice clause, under the one explicit side condition that the reporting pass applies nothing
   (Proofs/TreeInvFull.v discharges it for module sets with distinct names and orders that visit every module) *)
Theorem Process_TreeInv_full : forall F,
  Process SC ic ins order = ROk F ->
  final_applied SC ic order = 0 -> ForestInv true F.
Proof.
  intros F H HA. rewrite Process_stages in H.
  destruct (includes_fail SC); [discriminate|]. destruct (build_fail SC ic); [discriminate|].
  destruct (stage_err4 SC ic ins order); [discriminate|]. inversion H; subst.
  unfold stage_F4, stage_dev. apply dev_fold_inv. unfold stage_F3, stage_final.
  apply (final_fold_idle true _ _ 0); [apply stage_F2_strict | exact HA].
Qed.

End Strict.

(* ------------------------------------------------------------------ T2: a clean result means no error at any stage *)
Definition pend_of (P : pendings) (mn : str) : list aug := match lookup mn P with Some l => l | None => [] end.

Section Clean.
Variable SC : schema.

(* the error flag only ever rises *)
Lemma augment_module_err_mono : forall pending F err addErrors,
  err = true -> snd (fst (fst (augment_module SC F err pending addErrors))) = true.
Proof.
  induction pending as [|a rest IH]; intros F err addErrors E; cbn [augment_module]; [assumption|].
  destruct (Find SC F (a_mod a) (m_name (a_mod a), []) (a_path a)) as [target F1].
  match goal with |- context [if ?c then _ else _] => destruct c end.
  - destruct target as [p|]; [|assumption].
    match goal with |- context [augment_module SC ?F2 ?e2 rest addErrors] =>
      specialize (IH F2 e2 addErrors); destruct (augment_module SC F2 e2 rest addErrors) as [[[F3 err3] n] un] end.
    cbn [fst snd] in *. apply IH. subst. reflexivity.
  - specialize (IH F1 (err || addErrors) addErrors).
    destruct (augment_module SC F1 (err || addErrors) rest addErrors) as [[[F3 err3] n] un].
    cbn [fst snd] in *. apply IH. subst. reflexivity.
Qed.

(* Augment(true): an augment left unapplied is always reported *)
Lemma augment_module_report : forall pending F err,
  snd (augment_module SC F err pending true) <> [] ->
  snd (fst (fst (augment_module SC F err pending true))) = true.
Proof.
  induction pending as [|a rest IH]; intros F err HN; cbn [augment_module] in *; [exfalso; apply HN; reflexivity|].
  destruct (Find SC F (a_mod a) (m_name (a_mod a), []) (a_path a)) as [target F1].
  destruct target as [p|].
  - match goal with |- context [if ?c then _ else _] => destruct c end.
    + match goal with |- context [augment_module SC ?F2 ?e2 rest true] =>
        specialize (IH F2 e2); destruct (augment_module SC F2 e2 rest true) as [[[F3 err3] n] un] end.
      cbn [fst snd] in *. apply IH. assumption.
    + pose proof (augment_module_err_mono rest F1 (err || true) true (orb_true_r err)) as M.
      destruct (augment_module SC F1 (err || true) rest true) as [[[F3 err3] n] un]. exact M.
  - pose proof (augment_module_err_mono rest F1 (err || true) true (orb_true_r err)) as M.
    destruct (augment_module SC F1 (err || true) rest true) as [[[F3 err3] n] un]. exact M.
Qed.

Lemma augment_module_nil : forall F err addErrors, augment_module SC F err [] addErrors = (F, err, 0, []).
Proof. reflexivity. Qed.

Lemma final_step_err_mono : forall st mn, snd (fst st) = true -> snd (fst (final_step SC st mn)) = true.
Proof.
  intros [[F err] P] mn E. cbn [fst snd] in E. unfold final_step.
  pose proof (augment_module_err_mono (match lookup mn P with Some l => l | None => [] end) F err true E) as M.
  destruct (augment_module SC F err _ true) as [[[F' err'] n] un]. exact M.
Qed.

Lemma final_fold_err_mono : forall mods st, snd (fst st) = true -> snd (fst (fold_left (final_step SC) mods st)) = true.
Proof.
  induction mods as [|mn mods IH]; intros st E; cbn [fold_left]; [assumption|].
  apply IH. apply final_step_err_mono. assumption.
Qed.

Lemma pend_of_update : forall P mn un mn',
  pend_of (update mn un P) mn' = if str_eqb mn mn' then (match lookup mn P with Some _ => un | None => [] end) else pend_of P mn'.
Proof.
  intros. unfold pend_of. destruct (str_eqb mn mn') eqn:E.
  - apply str_eqb_eq in E. subst mn'. destruct (lookup mn P) eqn:L.
    + rewrite lookup_update_same; [reflexivity | congruence].
    + assert (lookup mn (update mn un P) = None).
      { apply lookup_none. rewrite update_keys. apply lookup_none. assumption. }
      rewrite H. reflexivity.
  - apply str_eqb_neq in E. rewrite lookup_update_other; [reflexivity | assumption].
Qed.

(* after a clean reporting pass no visited module has a pending augment *)
Lemma final_fold_clean : forall mods st,
  snd (fst (fold_left (final_step SC) mods st)) = false ->
  forall mn, In mn mods \/ pend_of (snd st) mn = [] -> pend_of (snd (fold_left (final_step SC) mods st)) mn = [].
Proof.
  induction mods as [|m0 mods IH]; intros st E mn H; cbn [fold_left] in *.
  - destruct H as [[]|H]; assumption.
  - apply IH; [assumption|].
    destruct (str_eq_dec m0 mn) as [->|NE].
    + right. destruct st as [[F err] P]. unfold final_step. cbn [snd].
      pose proof (augment_module_report (match lookup mn P with Some l => l | None => [] end) F err) as R.
      assert (E0 : snd (fst (final_step SC (F, err, P) mn)) = false).
      { destruct (snd (fst (final_step SC (F, err, P) mn))) eqn:X; [|reflexivity].
        rewrite (final_fold_err_mono mods _ X) in E. discriminate. }
      unfold final_step in E0.
      destruct (augment_module SC F err _ true) as [[[F' err'] n] un]. cbn [fst snd] in *.
      rewrite pend_of_update, str_eqb_refl.
      destruct un; [destruct (lookup mn P); reflexivity|].
      rewrite R in E0; [discriminate | discriminate].
    + destruct H as [[H|H]|H]; [contradiction | left; assumption |].
      right. destruct st as [[F err] P]. unfold final_step. cbn [snd] in *.
      destruct (augment_module SC F err _ true) as [[[F' err'] n] un]. cbn [snd].
      rewrite pend_of_update. apply str_eqb_neq in NE. rewrite NE. assumption.
Qed.

End Clean.

(* ------------------------------------------------------------------ deviations: the flag only rises *)
Lemma apply_deviates_err_mono : forall ins dvs F p cur attached err,
  err = true -> snd (apply_deviates ins F p cur attached err dvs) = true.
Proof.
  intros ins. induction dvs as [|dv rest IH]; intros F p cur attached err E; cbn [apply_deviates]; [assumption|].
  destruct (str_eqb (dv_kind dv) s_notsupported).
  - destruct (rev (snd p)) as [|last up]; [apply IH; reflexivity|].
    destruct ins; [apply IH; assumption|]. destruct last; apply IH; subst; reflexivity.
  - destruct (_ || _).
    + destruct (apply_add_replace _ dv cur). apply IH. subst. reflexivity.
    + destruct (str_eqb (dv_kind dv) s_delete); [|apply IH; reflexivity].
      destruct (apply_delete dv cur). apply IH. subst. reflexivity.
Qed.

Lemma apply_deviations_err_mono : forall SC ins m devs F err,
  err = true -> snd (apply_deviations SC ins F err m devs) = true.
Proof.
  intros SC ins m. induction devs as [|[path dvs] rest IH]; intros F err E; cbn [apply_deviations]; [assumption|].
  destruct (Find SC F m (m_name m, []) path) as [target F1].
  destruct target as [p|]; [|apply IH; reflexivity].
  destruct (locate_pos F1 p) as [cur|]; [|apply IH; reflexivity].
  pose proof (apply_deviates_err_mono ins dvs F1 p cur true err E) as M.
  destruct (apply_deviates ins F1 p cur true err dvs) as [[[F2 cur'] attached] err']. cbn [snd] in M.
  apply IH. assumption.
Qed.

Lemma dev_fold_err_mono : forall SC ins mods st, snd st = true -> snd (fold_left (dev_step SC ins) mods st) = true.
Proof.
  intros SC ins. induction mods as [|mn mods IH]; intros st E; cbn [fold_left]; [assumption|].
  apply IH. unfold dev_step. destruct (find_module SC mn); [apply apply_deviations_err_mono|]; assumption.
Qed.

Section CleanProcess.
Variable SC : schema.
Variable ic ins : bool.
Variable order : list str.

(* T2: the complete list of ways to RErr *)
Theorem Process_err_iff :
  Process SC ic ins order = RErr <->
  includes_fail SC = true \/ (exists m, In m SC /\ snd (module_entry SC ic m) = true) \/ stage_err4 SC ic ins order = true.
Proof.
  rewrite Process_stages. unfold build_fail. split.
  - destruct (includes_fail SC); [auto|].
    destruct (existsb _ SC) eqn:B.
    + intros _. right. left. apply existsb_exists in B. exact B.
    + destruct (stage_err4 SC ic ins order); [auto | discriminate].
  - intros [H|[H|H]].
    + rewrite H. reflexivity.
    + destruct (includes_fail SC); [reflexivity|].
      assert (B : existsb (fun m => snd (module_entry SC ic m)) SC = true) by (apply existsb_exists; exact H).
      rewrite B. reflexivity.
    + destruct (includes_fail SC); [reflexivity|]. destruct (existsb _ SC); [reflexivity|]. rewrite H. reflexivity.
Qed.

(* an error flagged by the augment stage or the reporting pass is never lost *)
Theorem stage_err_mono :
  (stage_err1 SC ic order = true -> stage_err3 SC ic order = true) /\
  (stage_err3 SC ic order = true -> stage_err4 SC ic ins order = true).
Proof.
  split.
  - intro H. unfold stage_err3, stage_final. apply final_fold_err_mono. exact H.
  - intro H. unfold stage_err4, stage_dev. apply dev_fold_err_mono. exact H.
Qed.

(* no pending augment in a clean result: every module the reporting pass visits ends with an empty list *)
Theorem Process_ok_no_pending : forall F,
  Process SC ic ins order = ROk F ->
  forall mn, In mn (stage_mods1 SC ic order) -> pend_of (stage_P3 SC ic order) mn = [].
Proof.
  intros F H mn Hmn. rewrite Process_stages in H.
  destruct (includes_fail SC); [discriminate|]. destruct (build_fail SC ic); [discriminate|].
  destruct (stage_err4 SC ic ins order) eqn:E4; [discriminate|].
  assert (E3 : stage_err3 SC ic order = false).
  { destruct (stage_err3 SC ic order) eqn:X; [|reflexivity].
    rewrite (proj2 stage_err_mono X) in E4. discriminate. }
  unfold stage_P3, stage_final. apply final_fold_clean; [exact E3 | left; exact Hmn].
Qed.

End CleanProcess.
