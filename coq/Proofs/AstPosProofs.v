(* Lemmas for the error-position part of C03 (serves C16's sentence on errors from building a module):
   build_e (Model/Ast.v) refines build with the kind of the error and the statement whose position the
   Go code reports; it projects to build, the reported id is an id of the tree, and it is the first
   error in Go's evaluation order as stated declaratively by [reports] / [site] (Spec/C03.v). *)
From Coq Require Import Ascii String List Bool Arith Lia.
From GY Require Import Base.Outcome Model.Ast Spec.C03 Proofs.AstProofs.
Import ListNotations.

(* ------------------------------------------------------------------ build_e projects to build *)

Lemma special_name_noerr : forall sd a, special_name sd a <> Err.
Proof. intros. unfold special_name. destruct (field_of sd "Name"); [destruct (f_kind f)|]; discriminate. Qed.
Lemma special_src_noerr : forall sd i, special_src sd i <> Err.
Proof. intros. unfold special_src. destruct (field_of sd "Statement"); [destruct (f_kind f)|]; discriminate. Qed.
Lemma special_parent_noerr : forall S sd p, special_parent S sd p <> Err.
Proof.
  intros. unfold special_parent. destruct (field_of sd "Parent"); [|discriminate].
  destruct (f_kind f); try discriminate. destruct p as [[pty pid]|]; [|discriminate].
  destruct (find_struct S pty); [|discriminate]. destruct (s_isnode s); discriminate.
Qed.

Lemma forget_lift : forall {A} (o : outcome A), o <> Err -> forget (lift o) = o.
Proof. intros A o H. destruct o; simpl; try reflexivity. contradiction. Qed.

Lemma lift_not_err : forall {A} (o : outcome A) k pos, lift o <> RErr k pos.
Proof. intros A o k pos. destruct o; discriminate. Qed.

Lemma forget_rbind : forall {A B} (x : result A) (f : A -> result B) (g : A -> outcome B),
  (forall a, forget (f a) = g a) -> forget (rbind x f) = obind (forget x) g.
Proof. intros A B x f g H. destruct x; simpl; auto. Qed.

Lemma step_forget : forall sd (be : unit -> result node) (b : unit -> outcome node) ss st,
  forget (be tt) = b tt -> forget (step_e sd be ss st) = step sd b ss st.
Proof.
  intros sd be b ss [[fs ex] fd] H. unfold step_e, step.
  destruct (classify sd (kw_of ss)) as [f| |]; try reflexivity.
  - destruct (f_kind f); try reflexivity.
    + destruct (get (kw_of ss) fs); [|reflexivity].
      rewrite <- H. destruct (be tt); simpl; try reflexivity. destruct (String.eqb (n_ty a) ty); reflexivity.
    + rewrite <- H. destruct (be tt); simpl; try reflexivity. destruct (String.eqb (n_ty a) ty); reflexivity.
  - destruct (field_of sd "Ext"); [|reflexivity]. destruct (f_kind f); reflexivity.
Qed.

Lemma check_required_split : forall sd kw fd,
  check_required sd kw fd = check_req1 sd fd && check_req2 sd kw fd && check_req3 sd kw fd.
Proof. reflexivity. Qed.

Lemma finish_forget : forall sd ty kw nm i sr pa st,
  forget (finish_e sd ty kw nm i sr pa st) = finish sd ty kw nm sr pa st.
Proof.
  intros sd ty kw nm i sr pa [[fs ex] fd]. unfold finish_e, finish. rewrite check_required_split.
  destruct (check_req1 sd fd), (check_req2 sd kw fd), (check_req3 sd kw fd); reflexivity.
Qed.

Lemma build_e_unfold : forall S kw ha a i subs p,
  build_e S (Stmt kw ha a i subs) p =
  match struct_of S kw with
  | None => RErr EUnknownStmt (Some i)
  | Some (ty, None) => RPanic
  | Some (ty, Some sd) =>
      rbind (lift (special_name sd a)) (fun nm =>
      rbind (lift (special_src sd i)) (fun sr =>
      rbind (lift (special_parent S sd p)) (fun pa =>
      rbind (build_list_e S sd (ty, i) subs (init_fields sd, [], [])) (fun st =>
      finish_e sd ty kw nm i sr pa st))))
  end.
Proof. reflexivity. Qed.

Lemma build_list_e_cons : forall S sd me ss r st,
  build_list_e S sd me (ss :: r) st =
  rbind (step_e sd (fun _ => build_e S ss (Some me)) ss st) (fun st' => build_list_e S sd me r st').
Proof. reflexivity. Qed.

Lemma loop_forget : forall S sd me l,
  Forall (fun ss => forall p, forget (build_e S ss p) = build S ss p) l ->
  forall st, forget (build_list_e S sd me l st) = build_list S sd me l st.
Proof.
  intros S sd me l. induction l as [|a l IH]; intros HF st; [reflexivity|].
  inversion HF as [|? ? H1 H2]; subst.
  rewrite build_list_e_cons, build_list_cons.
  rewrite (forget_rbind _ _ (fun st' => build_list S sd me l st')); [|intro; apply IH; exact H2].
  rewrite (step_forget sd _ (fun _ => build S a (Some me))); [reflexivity | apply H1].
Qed.

Theorem forget_build_e : forall S s p, forget (build_e S s p) = build S s p.
Proof.
  intros S. induction s as [kw ha a i subs IH] using stmt_ind'. intro p.
  rewrite build_e_unfold, build_unfold.
  destruct (struct_of S kw) as [[ty [sd|]]|]; try reflexivity.
  pose proof (special_name_noerr sd a) as N1. destruct (special_name sd a); simpl; try reflexivity; [|contradiction].
  pose proof (special_src_noerr sd i) as N2. destruct (special_src sd i); simpl; try reflexivity; [|contradiction].
  pose proof (special_parent_noerr S sd p) as N3.
  destruct (special_parent S sd p); simpl; try reflexivity; [|contradiction].
  rewrite (forget_rbind _ _ (fun st => finish sd ty kw a0 a1 a2 st)); [|intro; apply finish_forget].
  rewrite loop_forget; [reflexivity | exact IH].
Qed.

Lemma forget_Ok : forall {A} (r : result A) a, r = ROk a -> forget r = Ok a.
Proof. intros; subst; reflexivity. Qed.

Lemma forget_add_e : forall S n, forget (add_e S n) = add S n.
Proof. intros. unfold add_e. destruct (add S n); reflexivity. Qed.

Theorem forget_parse_all_e : forall S l, forget (parse_all_e S l) = parse_all S l.
Proof.
  intros S. induction l as [|s r IH]; [reflexivity|]. simpl.
  rewrite <- forget_build_e. destruct (build_e S s None); simpl; try reflexivity.
  rewrite <- forget_add_e. destruct (add_e S a); simpl; try reflexivity.
  rewrite <- IH. destruct (parse_all_e S r); reflexivity.
Qed.

(* ------------------------------------------------------------------ a reported position is a statement of the tree *)

Lemma ids_head : forall s, In (id_of s) (ids s).
Proof. destruct s; simpl; auto. Qed.

Lemma step_e_pos : forall S sd me ss st k j,
  (forall p k j, build_e S ss p = RErr k (Some j) -> In j (ids ss)) ->
  step_e sd (fun _ => build_e S ss (Some me)) ss st = RErr k (Some j) -> In j (ids ss).
Proof.
  intros S sd me ss [[fs ex] fd] k j IH. unfold step_e.
  assert (B : forall g, rbind (build_e S ss (Some me)) (fun n => if String.eqb (n_ty n) g then ROk (fs, ex, fd) else RPanic)
                        = RErr k (Some j) -> In j (ids ss)).
  { intros g H. destruct (build_e S ss (Some me)) eqn:E; simpl in H; try discriminate.
    - destruct (String.eqb (n_ty a) g); discriminate.
    - inversion H; subst. eapply IH. exact E. }
  destruct (classify sd (kw_of ss)) as [f| |].
  - destruct (f_kind f); try discriminate.
    + destruct (get (kw_of ss) fs); [|discriminate].
      intro H. destruct (build_e S ss (Some me)) eqn:E; simpl in H; try discriminate.
      * destruct (String.eqb (n_ty a) ty); discriminate.
      * inversion H; subst. eapply IH. exact E.
    + intro H. destruct (build_e S ss (Some me)) eqn:E; simpl in H; try discriminate.
      * destruct (String.eqb (n_ty a) ty); discriminate.
      * inversion H; subst. eapply IH. exact E.
  - destruct (field_of sd "Ext"); [destruct (f_kind f); discriminate|].
    intro H. inversion H. apply ids_head.
  - intro H. inversion H. apply ids_head.
Qed.

Lemma build_list_e_pos : forall S sd me l,
  Forall (fun ss => forall p k j, build_e S ss p = RErr k (Some j) -> In j (ids ss)) l ->
  forall st k j, build_list_e S sd me l st = RErr k (Some j) -> In j (flat_map ids l).
Proof.
  intros S sd me l. induction l as [|a l IH]; intros HF st k j H; [discriminate|].
  inversion HF as [|? ? H1 H2]; subst. rewrite build_list_e_cons in H. simpl. apply in_or_app.
  destruct (step_e sd (fun _ => build_e S a (Some me)) a st) eqn:E; simpl in H; try discriminate.
  - right. eapply IH; eauto.
  - left. inversion H; subst. eapply step_e_pos; eauto.
Qed.

Theorem build_e_pos_in_tree : forall S s p k j, build_e S s p = RErr k (Some j) -> In j (ids s).
Proof.
  intros S. induction s as [kw ha a i subs IH] using stmt_ind'. intros p k j H.
  rewrite build_e_unfold in H. simpl.
  destruct (struct_of S kw) as [[ty [sd|]]|]; try discriminate.
  - destruct (special_name sd a); simpl in H; try discriminate.
    destruct (special_src sd i); simpl in H; try discriminate.
    destruct (special_parent S sd p); simpl in H; try discriminate.
    destruct (build_list_e S sd (ty, i) subs (init_fields sd, [], [])) as [[[fs ex] fd]| | |] eqn:EL;
      simpl in H; try discriminate.
    + unfold finish_e in H.
      destruct (check_req1 sd fd); simpl in H; [|inversion H; auto].
      destruct (check_req2 sd kw fd); simpl in H; [|inversion H; auto].
      destruct (check_req3 sd kw fd); simpl in H; [discriminate | inversion H; auto].
    + inversion H; subst. right. eapply build_list_e_pos; eauto.
  - inversion H. auto.
Qed.

(* ------------------------------------------------------------------ the reported error is the first one *)

Lemma build_list_e_err : forall S sd me l st k pos,
  build_list_e S sd me l st = RErr k pos ->
  exists l1 x l2 st1, l = l1 ++ x :: l2 /\ build_list_e S sd me l1 st = ROk st1 /\
    step_e sd (fun _ => build_e S x (Some me)) x st1 = RErr k pos.
Proof.
  intros S sd me l. induction l as [|a l IH]; intros st k pos H; [discriminate|].
  rewrite build_list_e_cons in H.
  destruct (step_e sd (fun _ => build_e S a (Some me)) a st) as [st'| | |] eqn:E; simpl in H; try discriminate.
  - destruct (IH _ _ _ H) as [l1 [x [l2 [st1 [E1 [E2 E3]]]]]].
    exists (a :: l1), x, l2, st1. split; [subst l; reflexivity|]. split; [|exact E3].
    rewrite build_list_e_cons, E. simpl. exact E2.
  - inversion H; subst. exists [], a, l, st. auto.
Qed.

Lemma kids_length_In : forall k l, 1 <= length (kids k l) -> In k (kws l).
Proof.
  intros k l. unfold kids, kws. induction l as [|x r IH]; simpl; intro H; [lia|].
  destruct (String.eqb (kw_of x) k) eqn:E.
  - left. apply String.eqb_eq. exact E.
  - right. apply IH. exact H.
Qed.

Lemma req1_false : forall sd subs, check_req1 sd (rev (kws subs) ++ []) = false -> missing1 sd subs.
Proof.
  intros sd subs H. apply forallb_false in H as [f [HI HB]].
  destruct (f_required f) eqn:ER; [|discriminate]. simpl in HB.
  exists f. split; [exact HI|]. split; [exact ER|]. intro HIn. apply found_In in HIn. congruence.
Qed.

Lemma req1_true : forall sd subs, check_req1 sd (rev (kws subs) ++ []) = true -> ~ missing1 sd subs.
Proof.
  intros sd subs H [f [HI [HR HN]]]. unfold check_req1 in H. rewrite forallb_forall in H.
  specialize (H f HI). rewrite HR in H. simpl in H. apply found_In in H. contradiction.
Qed.

Lemma req2_false : forall sd kw subs, check_req2 sd kw (rev (kws subs) ++ []) = false -> missing2 sd kw subs.
Proof.
  intros sd kw subs H. apply forallb_false in H as [f [HI HB]].
  destruct (mem kw (f_reqkinds f)) eqn:ER; [|discriminate]. simpl in HB. apply mem_In in ER.
  exists f. split; [exact HI|]. split; [exact ER|]. intro HIn. apply found_In in HIn. congruence.
Qed.

Lemma req2_true : forall sd kw subs, check_req2 sd kw (rev (kws subs) ++ []) = true -> ~ missing2 sd kw subs.
Proof.
  intros sd kw subs H [f [HI [HR HN]]]. unfold check_req2 in H. rewrite forallb_forall in H.
  specialize (H f HI). apply mem_In in HR. rewrite HR in H. simpl in H. apply found_In in H. contradiction.
Qed.

Lemma req3_false : forall sd kw subs, check_req3 sd kw (rev (kws subs) ++ []) = false -> otherkind sd kw subs.
Proof.
  intros sd kw subs H. apply forallb_false in H as [f [HI HB]]. apply forallb_false in HB as [n [HN HB]].
  apply orb_false_iff in HB as [B1 B2]. apply String.eqb_neq in B1. apply negb_false_iff in B2.
  apply found_In in B2. exists f, n. auto.
Qed.

Section WF.
Variable S : schema.
Hypothesis WF : schema_wf S = true.

(* what is known after the loop has gone through a run of substatements *)
Lemma prefix_facts : forall sd ty i l fs ex fd,
  struct_wf S sd = true -> good_parent S (Some (ty, i)) ->
  build_list_e S sd (ty, i) l (init_fields sd, [], []) = ROk (fs, ex, fd) ->
  prefix_ok S sd l /\ fd = rev (kws l) ++ [] /\
  (forall k, In k (child_keys sd) -> length (get k fs) = length (kids k l)).
Proof.
  intros sd ty i l fs ex fd SW GP H.
  apply forget_Ok in H. rewrite loop_forget in H; [|apply Forall_forall; intros; apply forget_build_e].
  assert (IH' : Forall (fun ss => outcome_spec S ss (Some (ty, i)) (build S ss (Some (ty, i)))) l).
  { apply Forall_forall. intros x _. apply build_spec; assumption. }
  assert (KP : forall k, In k (child_keys sd) -> In k (map fst (init_fields sd))).
  { intros k HK. rewrite map_fst_init. exact HK. }
  pose proof (build_list_spec S sd (ty, i) SW l IH' (init_fields sd) [] [] KP) as BL.
  rewrite H in BL. unfold list_ok in BL. destruct BL as [Q1 [Q2 [Q3 [Q4 [Q5 [Q6 Q7]]]]]].
  assert (INV0 : single_inv sd (init_fields sd)).
  { intros f t _ _. rewrite get_init. simpl. lia. }
  specialize (Q7 INV0).
  assert (LEN : forall k, In k (child_keys sd) -> length (get k fs) = length (kids k l)).
  { intros k HK. destruct (Q4 k) as [cs [C1 C2]]. rewrite get_init in C1. simpl in C1. rewrite C1.
    rewrite (filter_kids_field S sd k l SW HK) in C2. symmetry. eapply Forall2_length'. exact C2. }
  split; [|split; [exact Q2 | exact LEN]].
  split; [exact Q6|].
  intros f t HI HK. rewrite <- LEN.
  - eapply Q7; eauto.
  - unfold child_keys. apply in_map. apply filter_In. split; [exact HI|]. rewrite HK. reflexivity.
Qed.

Theorem build_e_reports : forall s p k pos, good_parent S p ->
  build_e S s p = RErr k pos -> reports S s (k, pos).
Proof.
  induction s as [kw ha a i subs IH] using stmt_ind'. intros p k pos GP H.
  rewrite build_e_unfold in H.
  destruct (struct_of S kw) as [[ty o]|] eqn:ES; [|inversion H; apply RepUnknownStmt; exact ES].
  destruct (struct_of_wf S WF kw ty o ES) as [sd [EO [EF [ISN [SW [EL [SN [SS SP]]]]]]]]. subst o.
  rewrite SN, SS, (SP p GP) in H. simpl in H.
  assert (GPme : good_parent S (Some (ty, i))) by (simpl; eauto).
  destruct (build_list_e S sd (ty, i) subs (init_fields sd, [], [])) as [[[fs ex] fd]|k' pos'| |] eqn:EB;
    simpl in H; try discriminate.
  - (* the loop went through: one of the required checks *)
    destruct (prefix_facts sd ty i subs fs ex fd SW GPme EB) as [PO [EFD _]]. subst fd.
    unfold finish_e in H.
    destruct (check_req1 sd (rev (kws subs) ++ [])) eqn:R1; simpl in H.
    + destruct (check_req2 sd kw (rev (kws subs) ++ [])) eqn:R2; simpl in H.
      * destruct (check_req3 sd kw (rev (kws subs) ++ [])) eqn:R3; simpl in H; [discriminate|].
        inversion H; subst. eapply RepOtherKind; eauto using req1_true, req2_true, req3_false.
      * inversion H; subst. eapply RepMissingKind; eauto using req1_true, req2_false.
    + inversion H; subst. eapply RepMissing; eauto using req1_false.
  - (* the loop stopped at a substatement *)
    inversion H; subst k' pos'. clear H.
    destruct (build_list_e_err _ _ _ _ _ _ _ EB) as [l1 [x [l2 [[[fs1 ex1] fd1] [E1 [E2 E3]]]]]].
    destruct (prefix_facts sd ty i l1 fs1 ex1 fd1 SW GPme E2) as [PO [_ LEN]].
    assert (HIx : In x subs) by (subst subs; apply in_or_app; right; left; reflexivity).
    unfold step_e in E3.
    destruct (classify sd (kw_of x)) as [f| |] eqn:EC.
    + destruct (classify_field S _ _ _ SW EC) as [HI [HK [HCK [t [HKD HL]]]]].
      specialize (LEN _ HCK).
      assert (CH : forall g (upd' : node -> bstate), rbind (build_e S x (Some (ty, i)))
                     (fun n => if String.eqb (n_ty n) g then ROk (upd' n) else RPanic) = RErr k pos ->
                   build_e S x (Some (ty, i)) = RErr k pos).
      { intros g upd' HH. destruct (build_e S x (Some (ty, i))) as [n0|k0 p0| |]; simpl in HH.
        - destruct (String.eqb (n_ty n0) g); discriminate.
        - inversion HH; reflexivity.
        - discriminate.
        - discriminate. }
      rewrite Forall_forall in IH.
      destruct HKD as [HKD|HKD]; rewrite HKD in E3.
      * destruct (get (kw_of x) fs1) as [|n0 r0] eqn:EG.
        -- apply (CH t (fun n => (upd (kw_of x) (fun _ => [n]) fs1, ex1, kw_of x :: fd1))) in E3.
           eapply RepChild; eauto.
           intros t' _ HIn. apply kids_In_length in HIn. simpl in LEN. lia.
        -- inversion E3; subst. eapply RepAlreadySet; eauto.
           apply kids_length_In. simpl in LEN. lia.
      * apply (CH t (fun n => (upd (kw_of x) (fun l => l ++ [n]) fs1, ex1, kw_of x :: fd1))) in E3.
        eapply RepChild; eauto.
        intros t' C. rewrite HKD in C. discriminate.
    + destruct (field_of sd "Ext") as [f|] eqn:EX.
      * destruct (f_kind f); discriminate.
      * inversion E3; subst. eapply RepNoExt; eauto.
    + inversion E3; subst. eapply RepUnknownField; eauto.
Qed.

End WF.

(* ------------------------------------------------------------------ what the first error points at *)

Lemma site_lift : forall S kw ha a i subs ty sd x f k pos,
  struct_of S kw = Some (ty, Some sd) -> In x subs -> classify sd (kw_of x) = KField f ->
  site S x k pos -> site S (Stmt kw ha a i subs) k pos.
Proof.
  intros S kw ha a i subs ty sd x f k pos ES HI HC H.
  assert (L : forall t, filed S x t -> filed S (Stmt kw ha a i subs) t).
  { intros t F. eapply FiledSub; eauto. }
  destruct k; simpl in *; auto.
  - destruct H as [t [F R]]. exists t. split; [apply L; exact F | exact R].
  - destruct H as [t [ty' [sd' [y [F R]]]]]. exists t, ty', sd', y. split; [apply L; exact F | exact R].
  - destruct H as [t [ty' [sd' [y [F R]]]]]. exists t, ty', sd', y. split; [apply L; exact F | exact R].
  - destruct H as [t [ty' [sd' [F R]]]]. exists t, ty', sd'. split; [apply L; exact F | exact R].
  - destruct H as [t [ty' [sd' [F R]]]]. exists t, ty', sd'. split; [apply L; exact F | exact R].
  - destruct H as [t [ty' [sd' [F R]]]]. exists t, ty', sd'. split; [apply L; exact F | exact R].
Qed.

Theorem reports_site : forall S s e, reports S s e -> site S s (fst e) (snd e).
Proof.
  intros S s e H. induction H; simpl.
  - exists (Stmt kw ha a i subs). split; [apply FiledHere|]. auto.
  - exists (Stmt kw ha a i subs), ty, sd, x. split; [apply FiledHere|]. simpl.
    split; [assumption|]. split; [subst subs; apply in_or_app; right; left; reflexivity|]. auto.
  - exists (Stmt kw ha a i subs), ty, sd, x. split; [apply FiledHere|]. simpl.
    split; [assumption|]. split; [subst subs; apply in_or_app; right; left; reflexivity|]. auto.
  - reflexivity.
  - eapply site_lift; eauto. subst subs. apply in_or_app. right. left. reflexivity.
  - exists (Stmt kw ha a i subs), ty, sd. split; [apply FiledHere|]. simpl. auto.
  - exists (Stmt kw ha a i subs), ty, sd. split; [apply FiledHere|]. simpl. auto.
  - exists (Stmt kw ha a i subs), ty, sd. split; [apply FiledHere|]. simpl. auto.
Qed.

Theorem build_e_site : forall S, schema_wf S = true -> forall s p k pos, good_parent S p ->
  build_e S s p = RErr k pos -> site S s k pos.
Proof.
  intros S WF s p k pos GP H. apply (reports_site S s (k, pos)). eapply build_e_reports; eauto.
Qed.

(* ------------------------------------------------------------------ Modules.Parse over a text *)

Theorem parse_all_e_err : forall S l k pos, parse_all_e S l = RErr k pos ->
  exists l1 s l2, l = l1 ++ s :: l2 /\ (exists ns, parse_all S l1 = Ok ns) /\
    (build_e S s None = RErr k pos \/
     (k = ENotModule /\ pos = None /\ exists n, build S s None = Ok n /\ add S n = Err)).
Proof.
  intros S. induction l as [|s r IH]; intros k pos H; [discriminate|]. simpl in H.
  destruct (build_e S s None) as [n| | |] eqn:EB; simpl in H; try discriminate.
  - unfold add_e in H. destruct (add S n) as [m| | |] eqn:EA; simpl in H; try discriminate.
    + destruct (parse_all_e S r) as [ms| | |] eqn:EP; simpl in H; try discriminate.
      inversion H; subst. destruct (IH _ _ eq_refl) as [l1 [x [l2 [E1 [[ns E2] E3]]]]].
      exists (s :: l1), x, l2. split; [subst r; reflexivity|]. split; [|exact E3].
      exists (m :: ns). simpl. rewrite <- forget_build_e, EB. simpl. rewrite EA. simpl. rewrite E2. reflexivity.
    + inversion H; subst. exists [], s, r. split; [reflexivity|]. split; [exists []; reflexivity|].
      right. split; [reflexivity|]. split; [reflexivity|]. exists n. split; [|exact EA].
      rewrite <- forget_build_e, EB. reflexivity.
  - inversion H; subst. exists [], s, r. split; [reflexivity|]. split; [exists []; reflexivity|]. left. exact EB.
Qed.

(* ------------------------------------------------------------------ conversely: what [reports] says is what build_e returns
   (so [reports] is functional: THE first error) *)

Lemma forget_Ok_inv : forall {A} (r : result A) a, forget r = Ok a -> r = ROk a.
Proof. intros A r a H. destruct r; simpl in H; try discriminate. inversion H. reflexivity. Qed.

Lemma build_list_e_app : forall S sd me l1 x l2 st,
  build_list_e S sd me (l1 ++ x :: l2) st =
  rbind (build_list_e S sd me l1 st) (fun st1 =>
  rbind (step_e sd (fun _ => build_e S x (Some me)) x st1) (fun st2 => build_list_e S sd me l2 st2)).
Proof.
  intros S sd me l1 x l2. induction l1 as [|a l1 IH]; intro st.
  - simpl app. rewrite build_list_e_cons. reflexivity.
  - simpl app. rewrite !build_list_e_cons.
    destruct (step_e sd (fun _ => build_e S a (Some me)) a st); simpl; try reflexivity. apply IH.
Qed.

Lemma req3_true : forall sd kw subs, check_req3 sd kw (rev (kws subs) ++ []) = true -> ~ otherkind sd kw subs.
Proof.
  intros sd kw subs H [f [n [HI [HN [NE HP]]]]]. unfold check_req3 in H. rewrite forallb_forall in H.
  specialize (H f HI). rewrite forallb_forall in H. specialize (H n HN).
  apply orb_true_iff in H as [H|H].
  - apply String.eqb_eq in H. contradiction.
  - apply negb_true_iff in H. apply found_In in HP. congruence.
Qed.

Section WF2.
Variable S : schema.
Hypothesis WF : schema_wf S = true.

Lemma prefix_run : forall sd ty i l,
  struct_wf S sd = true -> good_parent S (Some (ty, i)) -> prefix_ok S sd l ->
  exists st, build_list_e S sd (ty, i) l (init_fields sd, [], []) = ROk st.
Proof.
  intros sd ty i l SW GP [PO1 PO2].
  assert (IH' : Forall (fun ss => outcome_spec S ss (Some (ty, i)) (build S ss (Some (ty, i)))) l).
  { apply Forall_forall. intros x _. apply build_spec; assumption. }
  assert (KP : forall k, In k (child_keys sd) -> In k (map fst (init_fields sd))).
  { intros k HK. rewrite map_fst_init. exact HK. }
  pose proof (build_list_spec S sd (ty, i) SW l IH' (init_fields sd) [] [] KP) as BL.
  rewrite <- (loop_forget S sd (ty, i) l) in BL; [|apply Forall_forall; intros; apply forget_build_e].
  destruct (forget (build_list_e S sd (ty, i) l (init_fields sd, [], []))) as [st| | |] eqn:EF;
    try contradiction.
  - exists st. apply forget_Ok_inv. exact EF.
  - exfalso. unfold list_bad in BL. destruct BL as [l1 [y [l2 [E B]]]].
    rewrite Forall_forall in PO1.
    assert (HIy : In y l) by (subst l; apply in_or_app; right; left; reflexivity).
    specialize (PO1 y HIy). unfold sub_ok in PO1.
    destruct (classify sd (kw_of y)) as [f| |] eqn:EC; try contradiction.
    destruct B as [B|[t [B1 B2]]]; [contradiction|].
    destruct B2 as [B2|B2]; [rewrite get_init in B2; contradiction|].
    destruct (classify_field S _ _ _ SW EC) as [HI [HK _]].
    specialize (PO2 f t HI B1). rewrite HK in PO2. subst l. rewrite kids_app, app_length in PO2.
    apply kids_In_length in B2. unfold kids at 2 in PO2. simpl in PO2. rewrite String.eqb_refl in PO2.
    simpl in PO2. lia.
Qed.

Theorem reports_build_e : forall s e, reports S s e ->
  forall p, good_parent S p -> build_e S s p = RErr (fst e) (snd e).
Proof.
  intros s e H. induction H as
    [kw ha a i subs ES
    |kw ha a i subs ty sd l1 x l2 ES EQ PO EC
    |kw ha a i subs ty sd l1 x l2 ES EQ PO EC EX
    |kw ha a i subs ty sd l1 x l2 f t ES EQ PO EC EK HIn
    |kw ha a i subs ty sd l1 x l2 f e ES EQ PO EC NS R IH
    |kw ha a i subs ty sd ES PO M1
    |kw ha a i subs ty sd ES PO M1 M2
    |kw ha a i subs ty sd ES PO M1 M2 M3]; intros p GP; rewrite build_e_unfold, ES; simpl fst; simpl snd;
    try reflexivity;
    destruct (struct_of_wf S WF kw ty _ ES) as [sd' [EO [EF [ISN [SW [EL [SN [SS SP]]]]]]]];
    inversion EO; subst sd'; clear EO; rewrite SN, SS, (SP p GP); simpl;
    assert (GPme : good_parent S (Some (ty, i))) by (simpl; eauto).
  - (* unknown field *)
    subst subs. rewrite build_list_e_app.
    destruct (prefix_run sd ty i l1 SW GPme PO) as [[[fs1 ex1] fd1] E1]. rewrite E1. simpl.
    unfold step_e. rewrite EC. reflexivity.
  - (* no extension function *)
    subst subs. rewrite build_list_e_app.
    destruct (prefix_run sd ty i l1 SW GPme PO) as [[[fs1 ex1] fd1] E1]. rewrite E1. simpl.
    unfold step_e. rewrite EC, EX. reflexivity.
  - (* already set *)
    subst subs. rewrite build_list_e_app.
    destruct (prefix_run sd ty i l1 SW GPme PO) as [[[fs1 ex1] fd1] E1]. rewrite E1. simpl.
    destruct (prefix_facts S WF sd ty i l1 fs1 ex1 fd1 SW GPme E1) as [_ [_ LEN]].
    destruct (classify_field S _ _ _ SW EC) as [_ [_ [HCK _]]]. specialize (LEN _ HCK).
    apply kids_In_length in HIn.
    unfold step_e. rewrite EC, EK.
    destruct (get (kw_of x) fs1); [simpl in LEN; lia | reflexivity].
  - (* the substatement's own error *)
    subst subs. rewrite build_list_e_app.
    destruct (prefix_run sd ty i l1 SW GPme PO) as [[[fs1 ex1] fd1] E1]. rewrite E1. simpl.
    destruct (prefix_facts S WF sd ty i l1 fs1 ex1 fd1 SW GPme E1) as [_ [_ LEN]].
    destruct (classify_field S _ _ _ SW EC) as [_ [_ [HCK [t [HKD _]]]]]. specialize (LEN _ HCK).
    unfold step_e. rewrite EC.
    destruct HKD as [HKD|HKD]; rewrite HKD.
    + destruct (get (kw_of x) fs1) eqn:EG.
      * cbv beta. match goal with |- context [build_e S x ?q] => rewrite (IH q GPme) end. reflexivity.
      * exfalso. apply (NS t HKD). apply kids_length_In. simpl in LEN. lia.
    + cbv beta. match goal with |- context [build_e S x ?q] => rewrite (IH q GPme) end. reflexivity.
  - (* missing required *)
    destruct (prefix_run sd ty i subs SW GPme PO) as [[[fs1 ex1] fd1] E1]. rewrite E1. simpl.
    destruct (prefix_facts S WF sd ty i subs fs1 ex1 fd1 SW GPme E1) as [_ [EFD _]]. subst fd1.
    unfold finish_e.
    destruct (check_req1 sd (rev (kws subs) ++ [])) eqn:R1; [|reflexivity].
    exfalso. exact (req1_true _ _ R1 M1).
  - (* missing required for this keyword *)
    destruct (prefix_run sd ty i subs SW GPme PO) as [[[fs1 ex1] fd1] E1]. rewrite E1. simpl.
    destruct (prefix_facts S WF sd ty i subs fs1 ex1 fd1 SW GPme E1) as [_ [EFD _]]. subst fd1.
    unfold finish_e.
    destruct (check_req1 sd (rev (kws subs) ++ [])) eqn:R1; [|exfalso; exact (M1 (req1_false _ _ R1))].
    destruct (check_req2 sd kw (rev (kws subs) ++ [])) eqn:R2; [|reflexivity].
    exfalso. exact (req2_true _ _ _ R2 M2).
  - (* required for the other keyword, present *)
    destruct (prefix_run sd ty i subs SW GPme PO) as [[[fs1 ex1] fd1] E1]. rewrite E1. simpl.
    destruct (prefix_facts S WF sd ty i subs fs1 ex1 fd1 SW GPme E1) as [_ [EFD _]]. subst fd1.
    unfold finish_e.
    destruct (check_req1 sd (rev (kws subs) ++ [])) eqn:R1; [|exfalso; exact (M1 (req1_false _ _ R1))].
    destruct (check_req2 sd kw (rev (kws subs) ++ [])) eqn:R2; [|exfalso; exact (M2 (req2_false _ _ _ R2))].
    destruct (check_req3 sd kw (rev (kws subs) ++ [])) eqn:R3; [|reflexivity].
    exfalso. exact (req3_true _ _ _ R3 M3).
Qed.

Theorem build_e_reports_iff : forall s p k pos, good_parent S p ->
  (build_e S s p = RErr k pos <-> reports S s (k, pos)).
Proof.
  intros s p k pos GP. split.
  - apply build_e_reports; assumption.
  - intro R. apply (reports_build_e s (k, pos) R p GP).
Qed.

Theorem reports_unique : forall s e1 e2, reports S s e1 -> reports S s e2 -> e1 = e2.
Proof.
  intros s [k1 p1] [k2 p2] R1 R2.
  pose proof (reports_build_e s _ R1 None I) as B1. pose proof (reports_build_e s _ R2 None I) as B2.
  simpl in *. rewrite B1 in B2. inversion B2. reflexivity.
Qed.

End WF2.
