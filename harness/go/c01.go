package main

// C01: crash / hang finder commands.  Observations are short classifications, never dumps.
//
//   hist <opts> <ops> <n> (<namehex> <texthex>){n}
//     opts: letters, "-" for none
//           c IgnoreSubmoduleCircularDependencies   n IgnoreDeviateNotSupported   u StoreUses
//           f Find probes on every entry            q Print every module, and run all reads twice
//           e read the trees also after a Process that returned errors
//           x also read the entries hanging off Augmented / Uses / Deviations / Deviate
//     ops : comma separated
//           L<i> ms.Parse(text i)     P ms.Process()    R read everything now (ToEntry of every module,
//           GetErrors, and per entry Namespace, InstantiatingModule, ReadOnly, DefaultValues,
//           SingleDefaultValue, Path, GetWhenXPath, Modules, [Find], [Print]; then the AST lookups: every node
//           of every loaded module and submodule is asked with yang.ChildNode and yang.FindNode for names that
//           occur in the set, a name that occurs nowhere, and relative / absolute / prefixed paths built from them)
//           G<i> ms.GetModule(name i without ".yang")   (Read + Process + ToEntry in one call)
//           D<i> write text i as file "name i" into a fresh directory that is on ms's search path (opts r: "dir/...")
//     after every P a read is done when Process returned no error (or opts has e).
//   output: "ok <per-op summary>"  or  "PANIC:op=<k>:<op> api=<api> msg=<value> at=<goyang frames>"
//
//   stmt <hex>   yang.Parse; on success every statement is written back with Statement.Write and the
//                written text is parsed again.  "ok <n>" | "err" | "PANIC:..."

import (
	"bufio"
	"bytes"
	"fmt"
	"io"
	"os"
	"path/filepath"
	"reflect"
	"runtime/debug"
	"sort"
	"strconv"
	"strings"

	"github.com/openconfig/goyang/pkg/yang"
)

type c01Reader struct {
	opts    string
	api     string // the call in progress (for the panic report)
	entries int
	calls   int
	nodes   int // AST nodes asked with ChildNode / FindNode
	seen    map[*yang.Entry]bool
	op      string   // the history operation in progress
	panics  []string // distinct panics of read calls (a read that panics does not stop the walk)
	pseen   map[string]bool
}

// try runs one read call; a panic is recorded (once per api and message) and the walk goes on.
func (r *c01Reader) try(api string, f func()) {
	defer func() {
		if x := recover(); x != nil {
			msg := strings.ReplaceAll(fmt.Sprint(x), "\n", " ")
			if len(msg) > 300 {
				msg = msg[:300]
			}
			fr := c01Frames(debug.Stack())
			key := strings.SplitN(api, "(", 2)[0] + "|" + msg + "|" + fr
			if r.pseen == nil {
				r.pseen = map[string]bool{}
			}
			if !r.pseen[key] && len(r.panics) < 6 {
				r.pseen[key] = true
				r.panics = append(r.panics, fmt.Sprintf("PANIC:op=%s api=%s msg=%s at=%s", r.op, api, msg, fr))
			}
		}
	}()
	r.calls++
	f()
}

func c01Frames(stack []byte) string {
	var out []string
	lines := strings.Split(string(stack), "\n")
	for i := 0; i+1 < len(lines) && len(out) < 8; i++ {
		fn := strings.TrimSpace(lines[i])
		if !strings.Contains(fn, "goyang/pkg/") {
			continue
		}
		loc := strings.TrimSpace(lines[i+1])
		if j := strings.LastIndex(loc, "/"); j >= 0 {
			loc = loc[j+1:]
		}
		if j := strings.Index(loc, " "); j >= 0 {
			loc = loc[:j]
		}
		if j := strings.LastIndex(fn, "/"); j >= 0 {
			fn = fn[j+1:]
		}
		if j := strings.LastIndex(fn, "("); j > 0 && strings.HasSuffix(fn, ")") {
			fn = fn[:j]
		}
		out = append(out, fn+"@"+loc)
	}
	return strings.Join(out, "<")
}

func (r *c01Reader) probes(e *yang.Entry) []string {
	ps := []string{".", "..", "../..", "/", "//", "", "../../../../../..", "/bogus-pfx:x", "/:x", ":", "x:y:z", "a//b",
		"input", "output", "../input/x", "./.", "/" + e.Name, "../" + e.Name, e.Name, "../../..", "../../../x", "/../..", "/..", "../..//..",
		"/" + e.Name + "/../../.."}
	pfx := ""
	if e.Prefix != nil {
		pfx = e.Prefix.Name
	}
	// the node's own absolute path, with its prefix on every step and with none
	var names []string
	for x, n := e, 0; x != nil && x.Parent != nil && n < 64; x, n = x.Parent, n+1 {
		names = append([]string{x.Name}, names...)
	}
	if len(names) > 0 {
		var a, b []string
		for _, n := range names {
			a = append(a, pfx+":"+n)
			b = append(b, n)
		}
		ps = append(ps, "/"+strings.Join(a, "/"), "/"+strings.Join(b, "/"), "/"+strings.Join(a, "/")+"/..", "/"+strings.Join(a, "/")+"/input")
	}
	cnt := 0
	for k := range e.Dir {
		ps = append(ps, k, pfx+":"+k, k+"/..", k+"/input/x")
		if cnt++; cnt >= 2 {
			break
		}
	}
	return ps
}

func (r *c01Reader) readEntry(e *yang.Entry) {
	r.entries++
	r.try("Namespace", func() { _ = e.Namespace() })
	r.try("InstantiatingModule", func() { _, _ = e.InstantiatingModule() })
	r.try("ReadOnly", func() { _ = e.ReadOnly() })
	r.try("DefaultValues", func() { _ = e.DefaultValues() })
	r.try("SingleDefaultValue", func() { _, _ = e.SingleDefaultValue() })
	r.try("Path", func() { _ = e.Path() })
	r.try("GetWhenXPath", func() { _, _ = e.GetWhenXPath() })
	r.try("Modules", func() { _ = e.Modules() })
	r.try("Is*", func() {
		_ = e.IsDir() || e.IsLeaf() || e.IsLeafList() || e.IsList() || e.IsContainer() || e.IsChoice() || e.IsCase()
	})
	if e.Type != nil {
		r.try("Type", func() { r.readType(e.Type, 0) })
	}
	if strings.Contains(r.opts, "f") {
		for _, p := range r.probes(e) {
			p := p
			r.try("Find("+strconv.Quote(p)+")", func() { _ = e.Find(p) })
		}
	}
}

// readType prints what a reader of the resolved type looks at: restrictions, enum and bit tables, union members.
func (r *c01Reader) readType(t *yang.YangType, depth int) {
	if t == nil || depth > 8 {
		return
	}
	_ = t.Range.String()
	_ = t.Length.String()
	for _, x := range t.Range {
		_ = x.String()
		_ = x.Min.String() + x.Max.String()
		_ = x.Valid()
	}
	for _, x := range t.Length {
		_ = x.String()
	}
	_ = t.Range.Equal(t.Length)
	for _, en := range []*yang.EnumType{t.Enum, t.Bit} {
		if en != nil {
			for _, n := range en.Names() {
				_ = en.Value(n)
				_ = en.IsDefined(n)
			}
			for _, v := range en.Values() {
				_ = en.Name(v)
			}
			_ = en.NameMap()
			_ = en.ValueMap()
		}
	}
	_ = fmt.Sprintf("%v %v %v %v %v", t.Name, t.Kind, t.Default, t.FractionDigits, t.Pattern)
	_ = t.Equal(t.Root)
	if t.IdentityBase != nil {
		_ = t.IdentityBase.PrefixedName()
	}
	for _, u := range t.Type {
		r.readType(u, depth+1)
	}
}

func (r *c01Reader) walk(e *yang.Entry, depth int) {
	if e == nil || r.seen[e] || depth > 100000 {
		return
	}
	r.seen[e] = true
	r.readEntry(e)
	keys := make([]string, 0, len(e.Dir))
	for k := range e.Dir {
		keys = append(keys, k)
	}
	sort.Strings(keys)
	for _, k := range keys {
		r.walk(e.Dir[k], depth+1)
	}
	if e.RPC != nil {
		r.walk(e.RPC.Input, depth+1)
		r.walk(e.RPC.Output, depth+1)
	}
	if strings.Contains(r.opts, "x") {
		for _, a := range e.Augmented {
			r.walk(a, depth+1)
		}
		for _, a := range e.Augments {
			r.walk(a, depth+1)
		}
		for _, u := range e.Uses {
			if u != nil {
				r.walk(u.Grouping, depth+1)
			}
		}
		for _, d := range e.Deviations {
			if d != nil {
				r.walk(d.Entry, depth+1)
			}
		}
		for _, ds := range e.Deviate {
			for _, d := range ds {
				r.walk(d, depth+1)
			}
		}
	}
}

// c01Nodes lists the AST nodes below n (n first) by the same walk over the `yang` struct tags that
// yang.ChildNode does; the pseudo fields (Name, Statement, Parent, Ext) are not followed.
func c01Nodes(n yang.Node, seen map[yang.Node]bool, out *[]yang.Node, depth int) {
	if n == nil || depth > 100000 || len(*out) >= 20000 {
		return
	}
	v := reflect.ValueOf(n)
	if v.Kind() != reflect.Ptr || v.IsNil() || seen[n] {
		return
	}
	seen[n] = true
	*out = append(*out, n)
	v = v.Elem()
	if v.Kind() != reflect.Struct {
		return
	}
	t := v.Type()
	for i := 0; i < t.NumField(); i++ {
		tag := t.Field(i).Tag.Get("yang")
		if tag == "" || (tag[0] >= 'A' && tag[0] <= 'Z') {
			continue
		}
		f := v.Field(i)
		switch f.Kind() {
		case reflect.Ptr:
			if !f.IsNil() && f.CanInterface() {
				if c, ok := f.Interface().(yang.Node); ok {
					c01Nodes(c, seen, out, depth+1)
				}
			}
		case reflect.Slice:
			for j := 0; j < f.Len(); j++ {
				if e := f.Index(j); e.Kind() == reflect.Ptr && !e.IsNil() && e.CanInterface() {
					if c, ok := e.Interface().(yang.Node); ok {
						c01Nodes(c, seen, out, depth+1)
					}
				}
			}
		}
	}
}

const c01NodeBudget = 800 // ChildNode / FindNode calls per read of the whole set

// readNodes: the AST lookups.  Every node of every loaded module and submodule is asked, with yang.ChildNode
// and yang.FindNode, for names that occur somewhere in the set (as they stand and without their prefix), for
// a name that occurs nowhere, and for relative ("..", "../.."), absolute and prefixed paths made of them; a
// uses / augment / deviation argument is also asked as the path it is.  The number of calls per read is
// bounded: when nodes x names is larger, every node still gets the unknown name and a rotating part of the
// names.  A lookup that recurses without bound kills the process (fatal stack overflow), one that does not
// return is a stall; both are the caller's to see.
func (r *c01Reader) readNodes(ms *yang.Modules) {
	var mods []*yang.Module
	seenM := map[*yang.Module]bool{}
	for _, mm := range []map[string]*yang.Module{ms.Modules, ms.SubModules} {
		keys := make([]string, 0, len(mm))
		for k := range mm {
			keys = append(keys, k)
		}
		sort.Strings(keys)
		for _, k := range keys {
			if m := mm[k]; m != nil && !seenM[m] {
				seenM[m] = true
				mods = append(mods, m)
			}
		}
	}
	var nodes []yang.Node
	seen := map[yang.Node]bool{}
	for _, m := range mods {
		c01Nodes(m, seen, &nodes, 0)
	}
	if len(nodes) == 0 {
		return
	}
	nameSet := map[string]bool{}
	pfxSet := map[string]bool{}
	simple := func(s string) bool {
		return s != "" && len(s) <= 64 && !strings.ContainsAny(s, "/ \t\r\n\"'{};")
	}
	for _, n := range nodes {
		name := ""
		r.try("NName", func() { name = n.NName() })
		switch n.Kind() {
		case "prefix":
			if simple(name) {
				pfxSet[name] = true
			}
			continue
		case "leaf", "leaf-list", "container", "list", "choice", "case", "anyxml", "anydata", "grouping", "uses",
			"typedef", "identity", "rpc", "action", "notification", "module", "submodule", "extension", "feature":
		default:
			continue
		}
		if !simple(name) {
			continue
		}
		nameSet[name] = true
		if i := strings.Index(name, ":"); i >= 0 && simple(name[i+1:]) {
			nameSet[name[i+1:]] = true
			if simple(name[:i]) {
				pfxSet[name[:i]] = true
			}
		}
	}
	names := make([]string, 0, len(nameSet))
	for k := range nameSet {
		names = append(names, k)
	}
	sort.Strings(names)
	pfxs := make([]string, 0, len(pfxSet)+1)
	for k := range pfxSet {
		pfxs = append(pfxs, k)
	}
	sort.Strings(pfxs)
	pfxs = append(pfxs, "zz-no-such-prefix")
	const nowhere = "zz-nowhere"

	ask := func(n yang.Node, kind, name string, k int) {
		r.try("ChildNode("+kind+","+strconv.Quote(name)+")", func() { _ = yang.ChildNode(n, name) })
		pfx := pfxs[k%len(pfxs)]
		other := nowhere
		if len(names) > 0 {
			other = names[(k+1)%len(names)]
		}
		for _, p := range []string{name, "/" + name, "../" + name, pfx + ":" + name, "/" + pfx + ":" + name,
			"../../" + name + "/..", "/" + pfx + ":" + name + "/" + other + "/../" + name} {
			p := p
			r.try("FindNode("+kind+","+strconv.Quote(p)+")", func() { _, _ = yang.FindNode(n, p) })
		}
	}
	const perAsk = 8
	per := len(names) // names asked per node, besides the unknown one
	for per > 0 && len(nodes)*(per+1)*perAsk > c01NodeBudget {
		per--
	}
	stride := 1
	for (len(nodes)/stride+1)*perAsk > c01NodeBudget {
		stride++
	}
	for j, n := range nodes {
		kind := n.Kind()
		if j%stride != 0 && kind != "uses" && kind != "module" && kind != "submodule" {
			continue
		}
		r.nodes++
		ask(n, kind, nowhere, j)
		for t := 0; t < per; t++ {
			ask(n, kind, names[(j*per+t)%len(names)], j+t)
		}
		switch kind {
		case "uses", "augment", "deviation":
			// the argument of the statement as the path it is
			raw := n.NName()
			if len(raw) <= 256 {
				r.try("FindNode("+kind+",own argument "+strconv.Quote(raw)+")", func() { _, _ = yang.FindNode(n, raw) })
			}
		}
		if j%16 == 0 {
			for _, p := range []string{"", "/", "..", "../..", "a/", "//", "/:", ":", "/..", "../../../../../../../..", "./."} {
				p := p
				r.try("FindNode("+kind+","+strconv.Quote(p)+")", func() { _, _ = yang.FindNode(n, p) })
			}
		}
	}
}

func (r *c01Reader) readAll(ms *yang.Modules) {
	times := 1
	if strings.Contains(r.opts, "q") {
		times = 2
	}
	for t := 0; t < times; t++ {
		r.seen = map[*yang.Entry]bool{}
		for _, mm := range []map[string]*yang.Module{ms.Modules, ms.SubModules} {
			keys := make([]string, 0, len(mm))
			for k := range mm {
				keys = append(keys, k)
			}
			sort.Strings(keys)
			for _, k := range keys {
				m := mm[k]
				var e *yang.Entry
				r.try("ToEntry", func() { e = yang.ToEntry(m) })
				if e == nil {
					continue
				}
				r.try("GetErrors", func() { _ = e.GetErrors() })
				r.walk(e, 0)
				if strings.Contains(r.opts, "q") {
					r.try("Print", func() { e.Print(io.Discard) })
				}
				r.api = "Identities"
				seenID := map[*yang.Identity]bool{}
				var visit func(i *yang.Identity, d int)
				visit = func(i *yang.Identity, d int) {
					if i == nil || seenID[i] || d > 100000 {
						return
					}
					seenID[i] = true
					_ = i.PrefixedName()
					_ = i.IsDefined("x")
					_ = i.GetValue("x")
					for _, v := range i.Values {
						visit(v, d+1)
					}
				}
				for _, i := range m.Identities() {
					visit(i, 0)
				}
			}
		}
	}
	r.api = "ChildNode/FindNode"
	r.readNodes(ms)
	r.api = ""
}

func c01Hist(toks []string) (out string) {
	opts, ops := toks[0], toks[1]
	n, _ := strconv.Atoi(toks[2])
	names := make([]string, n)
	texts := make([]string, n)
	for i := 0; i < n; i++ {
		names[i] = string(unhex(toks[3+2*i]))
		texts[i] = string(unhex(toks[4+2*i]))
	}
	r := &c01Reader{opts: opts}
	cur := ""
	defer func() {
		if x := recover(); x != nil {
			msg := strings.ReplaceAll(fmt.Sprint(x), "\n", " ")
			if len(msg) > 300 {
				msg = msg[:300]
			}
			api := r.api
			if api == "" {
				api = "-"
			}
			out = fmt.Sprintf("PANIC:op=%s api=%s msg=%s at=%s", cur, api, msg, c01Frames(debug.Stack()))
		}
	}()
	ms := yang.NewModules()
	ms.ParseOptions.IgnoreSubmoduleCircularDependencies = strings.Contains(opts, "c")
	ms.ParseOptions.DeviateOptions.IgnoreDeviateNotSupported = strings.Contains(opts, "n")
	ms.ParseOptions.StoreUses = strings.Contains(opts, "u")
	var sum []string
	// D<i> puts text i as a file into a directory of its own (below the working directory, which the caller
	// removes) that is on the search path of ms; with option r the path entry is recursive ("dir/...")
	fsdir := ""
	defer func() {
		if fsdir != "" {
			os.RemoveAll(fsdir)
		}
	}()
	for k, op := range strings.Split(ops, ",") {
		cur = fmt.Sprintf("%d:%s", k, op)
		r.op = cur
		switch {
		case op == "P":
			r.api = "Process"
			errs := ms.Process()
			r.api = ""
			for _, e := range errs {
				if e == nil || strings.TrimSpace(e.Error()) == "" {
					return "BROKEN nil or empty error returned by Process"
				}
			}
			sum = append(sum, fmt.Sprintf("P%d", len(errs)))
			if len(errs) == 0 || strings.Contains(opts, "e") {
				r.readAll(ms)
			}
		case op == "R":
			r.readAll(ms)
			sum = append(sum, "R")
		case strings.HasPrefix(op, "L"):
			i, _ := strconv.Atoi(op[1:])
			if i < 0 || i >= n {
				continue
			}
			r.api = "Parse"
			err := ms.Parse(texts[i], names[i])
			r.api = ""
			if err != nil {
				if strings.TrimSpace(err.Error()) == "" {
					return "BROKEN empty error returned by Parse"
				}
				sum = append(sum, "Le")
			} else {
				sum = append(sum, "Lo")
			}
		case strings.HasPrefix(op, "D"):
			i, _ := strconv.Atoi(op[1:])
			if i < 0 || i >= n {
				continue
			}
			if fsdir == "" {
				d, err := os.MkdirTemp(".", "fs")
				if err != nil {
					return "BROKEN cannot create a directory: " + err.Error()
				}
				fsdir = d
				if strings.Contains(opts, "r") {
					ms.AddPath(filepath.Join(fsdir, "..."))
				} else {
					ms.AddPath(fsdir)
				}
			}
			name := filepath.Clean("/" + names[i])[1:] // stays below fsdir
			if name == "" {
				name = "x.yang"
			}
			full := filepath.Join(fsdir, name)
			_ = os.MkdirAll(filepath.Dir(full), 0o755)
			if err := os.WriteFile(full, []byte(texts[i]), 0o644); err != nil {
				sum = append(sum, "De")
			} else {
				sum = append(sum, "Do")
			}
		case strings.HasPrefix(op, "G"):
			i, _ := strconv.Atoi(op[1:])
			if i < 0 || i >= n {
				continue
			}
			r.api = "GetModule"
			e, errs := ms.GetModule(strings.TrimSuffix(names[i], ".yang"))
			r.api = ""
			if e != nil {
				r.seen = map[*yang.Entry]bool{}
				r.walk(e, 0)
			}
			sum = append(sum, fmt.Sprintf("G%d", len(errs)))
		}
	}
	if len(r.panics) > 0 {
		return strings.Join(r.panics, " ALSO ")
	}
	return fmt.Sprintf("ok %s entries=%d calls=%d nodes=%d", strings.Join(sum, ","), r.entries, r.calls, r.nodes)
}

type c01Capped struct {
	buf  bytes.Buffer
	max  int
	full bool
}

func (c *c01Capped) Write(p []byte) (int, error) {
	if c.buf.Len()+len(p) > c.max {
		c.full = true
		return len(p), nil
	}
	return c.buf.Write(p)
}

func c01Stmt(toks []string) (out string) {
	defer func() {
		if x := recover(); x != nil {
			out = fmt.Sprintf("PANIC:op=stmt api=- msg=%s at=%s", strings.ReplaceAll(fmt.Sprint(x), "\n", " "), c01Frames(debug.Stack()))
		}
	}()
	text := string(unhex(toks[0]))
	ss, err := yang.Parse(text, "s.yang")
	if err != nil {
		if len(ss) != 0 {
			return "BROKEN statements returned together with an error"
		}
		return "err"
	}
	// Write's output grows with the square of the nesting depth: keep at most 4 MB of it
	b := &c01Capped{max: 4 << 20}
	for _, s := range ss {
		if err := s.Write(b, ""); err != nil {
			return "BROKEN Write failed on a buffer"
		}
		_ = s.Location()
		_, _ = s.Arg()
	}
	// the written form is for display; parsing it again must not crash either
	if !b.full {
		_, _ = yang.Parse(b.buf.String(), "w.yang")
	}
	return "ok " + strconv.Itoa(len(ss))
}

func init() {
	// VERIF_MAXSTACK_MB lowers Go's 1 GB stack limit for this process, so that unbounded recursion is
	// detected (fatal "stack overflow") in a fraction of a second instead of several seconds.
	if v, err := strconv.Atoi(os.Getenv("VERIF_MAXSTACK_MB")); err == nil && v > 0 {
		debug.SetMaxStack(v << 20)
	}
	// "harness c01run": the line protocol of "run" with the output flushed after every case, so that the
	// caller knows exactly which case a dying or stalling child was working on.
	specials["c01run"] = func(args []string) int {
		in := bufio.NewReaderSize(os.Stdin, 1<<20)
		out := bufio.NewWriterSize(os.Stdout, 1<<16)
		for {
			line, err := in.ReadString('\n')
			if line == "" && err != nil {
				break
			}
			toks := strings.Fields(strings.TrimRight(line, "\n"))
			if len(toks) == 0 {
				fmt.Fprintln(out, "")
			} else if h, ok := handlers[toks[0]]; ok {
				fmt.Fprintln(out, safe(h, toks[1:]))
			} else {
				fmt.Fprintln(out, "unknown-cmd")
			}
			out.Flush()
			if err != nil {
				break
			}
		}
		return 0
	}
	handlers["hist"] = c01Hist
	handlers["stmt"] = c01Stmt
}
