package main

// Resolver-level observations (C04-C09, C11, C12, C17, C18, C05, C01): run a history of loads and
// Process() calls on one yang.Modules and dump everything the properties talk about as JSON.
//
//   process <opts> <ops> <n> (<namehex> <texthex>){n}
//     opts: string of flag letters, "-" for none: c = IgnoreSubmoduleCircularDependencies,
//           n = IgnoreDeviateNotSupported, u = StoreUses, f = run the Find checks, q = run read queries twice
//     ops : comma separated: L<i> load text i, P process (a dump is taken after every P),
//           D<i> write text i as a file (under its name) into a fresh temporary directory that is on the set's
//           search path (ms.AddPath) WITHOUT loading it: Process then finds it through import / include resolution
//   output: one JSON object {"loads":[..], "runs":[dump,...]}

import (
	"encoding/json"
	"fmt"
	"io"
	"os"
	"path/filepath"
	"regexp"
	"sort"
	"strconv"
	"strings"

	"github.com/openconfig/goyang/pkg/yang"
)

type typeDump struct {
	Name     string      `json:"name"`
	Kind     string      `json:"kind"`
	Units    string      `json:"units,omitempty"`
	Default  string      `json:"default,omitempty"`
	HasDef   bool        `json:"hasdef,omitempty"`
	FD       int         `json:"fd,omitempty"`
	Range    string      `json:"range,omitempty"`
	Length   string      `json:"length,omitempty"`
	Pattern  []string    `json:"pattern,omitempty"`
	Posix    []string    `json:"posix,omitempty"` // POSIXPattern (oc-ext:posix-pattern), added for C05
	Enum     string      `json:"enum,omitempty"`
	Bit      string      `json:"bit,omitempty"`
	Path     string      `json:"path,omitempty"`
	IdBase   string      `json:"idbase,omitempty"`
	IdValues []string    `json:"idvalues,omitempty"`
	Union    []*typeDump `json:"union,omitempty"`
}

type nodeDump struct {
	Name      string      `json:"name"`
	Kind      string      `json:"kind"`
	Config    string      `json:"config"`
	Mandatory string      `json:"mandatory"`
	Default   []string    `json:"default,omitempty"`
	Units     string      `json:"units,omitempty"`
	Key       string      `json:"key,omitempty"`
	Desc      string      `json:"desc,omitempty"`
	List      string      `json:"list,omitempty"` // min:max:orderedby:orderedbyuser
	Type      *typeDump   `json:"type,omitempty"`
	NS        string      `json:"ns"`
	InstMod   string      `json:"instmod"`
	RO        bool        `json:"ro"`
	DefVals   []string    `json:"defvals,omitempty"`
	Prefix    string      `json:"prefix,omitempty"`
	NErr      int         `json:"nerr,omitempty"`
	ID        int         `json:"id"`
	HasDir    bool        `json:"hasdir"`
	Src       string      `json:"src,omitempty"` // file:line:col of the defining statement
	Children  []*nodeDump `json:"children,omitempty"`
	Input     *nodeDump   `json:"input,omitempty"`
	Output    *nodeDump   `json:"output,omitempty"`
	HasRPC    bool        `json:"hasrpc,omitempty"`
	NAugments int         `json:"naugments,omitempty"` // augments still pending on this entry
	Extra     []string    `json:"extra,omitempty"`     // keyword=arg,arg,... of the statements kept in Entry.Extra (if-feature, must, when, ...)
}

type identDump struct {
	Name   string   `json:"name"`
	Values []string `json:"values"`
}

type modDump struct {
	Keys       []string     `json:"keys"` // keys of ms.Modules / ms.SubModules that map to this module
	Name       string       `json:"name"`
	Sub        bool         `json:"sub"`
	Revision   string       `json:"rev,omitempty"`
	Imports    []string     `json:"imports,omitempty"` // prefix=resolved full name
	Includes   []string     `json:"includes,omitempty"`
	Tree       *nodeDump    `json:"tree"`
	Identities []*identDump `json:"identities,omitempty"`
}

type runDump struct {
	Errors    []string   `json:"errors"`   // full error strings (never compared textually)
	ErrPos    []string   `json:"errpos"`   // file:line:col prefixes, in the order returned ("" when none)
	Modules   []*modDump `json:"modules"`  // only when Process returned no error
	TreeViol  []string   `json:"treeviol"` // violated clauses of the C04 tree invariant
	FindViol  []string   `json:"findviol"` // C17 lookups that did not return the node itself
	FindCount int        `json:"findcount"`
}

type procOut struct {
	Loads []string   `json:"loads"` // "ok" | "err" per L op
	Runs  []*runDump `json:"runs"`
}

var posRE = regexp.MustCompile(`^([^:\s]+\.yang):(-?\d+):(-?\d+):`)

func showRangeText(r yang.YangRange) string {
	var ps []string
	for _, x := range r {
		ps = append(ps, x.Min.String()+".."+x.Max.String())
	}
	return strings.Join(ps, "|")
}

func showEnum(e *yang.EnumType) string {
	if e == nil {
		return ""
	}
	m := e.NameMap()
	var names []string
	for n := range m {
		names = append(names, n)
	}
	sort.Strings(names)
	var ps []string
	for _, n := range names {
		ps = append(ps, fmt.Sprintf("%s=%d", n, m[n]))
	}
	vm := e.ValueMap()
	var vals []int64
	for v := range vm {
		vals = append(vals, v)
	}
	sort.Slice(vals, func(i, j int) bool { return vals[i] < vals[j] })
	var qs []string
	for _, v := range vals {
		qs = append(qs, fmt.Sprintf("%d=%s", v, vm[v]))
	}
	return strings.Join(ps, ",") + ";" + strings.Join(qs, ",")
}

func identKey(i *yang.Identity) string {
	if i == nil {
		return "<nil>"
	}
	m := yang.RootNode(i)
	mn := "<noroot>"
	if m != nil {
		mn = m.Name
		if m.BelongsTo != nil {
			mn = m.BelongsTo.Name + "/" + m.Name
		}
	}
	return mn + ":" + i.Name
}

func dumpType(t *yang.YangType, depth int) *typeDump {
	if t == nil {
		return nil
	}
	d := &typeDump{Name: t.Name, Kind: yang.TypeKindToName[t.Kind], Units: t.Units, Default: t.Default, HasDef: t.HasDefault,
		FD: t.FractionDigits, Range: showRangeText(t.Range), Length: showRangeText(t.Length), Pattern: t.Pattern, Posix: t.POSIXPattern, Enum: showEnum(t.Enum),
		Bit: showEnum(t.Bit), Path: t.Path}
	if t.IdentityBase != nil {
		d.IdBase = identKey(t.IdentityBase)
		for _, v := range t.IdentityBase.Values {
			d.IdValues = append(d.IdValues, identKey(v))
		}
	}
	if depth < 8 {
		for _, u := range t.Type {
			d.Union = append(d.Union, dumpType(u, depth+1))
		}
	}
	return d
}

type walker struct {
	ids   map[*yang.Entry]int
	viol  []string
	nodes []*yang.Entry
}

func (w *walker) v(format string, a ...interface{}) {
	if len(w.viol) < 40 {
		w.viol = append(w.viol, fmt.Sprintf(format, a...))
	}
}

func kindName(k yang.EntryKind) string { return k.String() }

func (w *walker) dump(e *yang.Entry, key string, parent *yang.Entry, path string, depth int) *nodeDump {
	d := &nodeDump{Name: e.Name, Kind: kindName(e.Kind), Config: e.Config.String(), Mandatory: e.Mandatory.String(),
		Default: e.Default, Units: e.Units, Key: e.Key, Desc: e.Description, NErr: len(e.Errors), HasDir: e.Dir != nil,
		NAugments: len(e.Augments)}
	if id, seen := w.ids[e]; seen {
		d.ID = id
		w.v("shared: node %s reachable by a second path (first id %d)", path, id)
		return d
	}
	d.ID = len(w.ids) + 1
	w.ids[e] = d.ID
	w.nodes = append(w.nodes, e)
	if depth > 60 {
		w.v("too deep at %s", path)
		return d
	}
	// C04 (a): filed under its own name, parent pointer
	if key != "" && e.Name != key {
		w.v("name: %s is filed under key %q but is named %q", path, key, e.Name)
	}
	if e.Parent != parent {
		w.v("parent: %s does not point back to its holder", path)
	}
	// C04 (c): kind coherence
	isLeafKind := e.Kind == yang.LeafEntry
	if isLeafKind {
		if e.Dir != nil {
			w.v("kind: leaf %s has a child map", path)
		}
		if e.Type == nil {
			w.v("kind: leaf %s has no resolved type", path)
		}
	} else if e.Dir == nil {
		w.v("kind: %s of kind %s has no child map", path, kindName(e.Kind))
	}
	if e.ListAttr != nil && !(e.IsList() || e.IsLeafList()) {
		w.v("kind: %s carries list attributes but is neither list nor leaf-list", path)
	}
	if e.Kind == yang.ChoiceEntry {
		for k, c := range e.Dir {
			if c.Kind != yang.CaseEntry {
				w.v("kind: child %s of choice %s is not a case", k, path)
			}
		}
	}
	if len(e.Augments) != 0 {
		w.v("augment: %d unapplied augment(s) left on %s", len(e.Augments), path)
	}
	if len(e.Errors) != 0 {
		w.v("errors: node %s carries %d recorded error(s): %v", path, len(e.Errors), e.Errors[0])
	}
	if e.ListAttr != nil {
		ob := ""
		if e.ListAttr.OrderedBy != nil {
			ob = e.ListAttr.OrderedBy.Name
		}
		d.List = fmt.Sprintf("%d:%d:%s:%v", e.ListAttr.MinElements, e.ListAttr.MaxElements, ob, e.ListAttr.OrderedByUser)
	}
	d.Type = dumpType(e.Type, 0)
	if ns := e.Namespace(); ns != nil {
		d.NS = ns.Name
	} else {
		d.NS = "<nil>"
	}
	func() {
		defer func() {
			if r := recover(); r != nil {
				d.InstMod = fmt.Sprintf("PANIC:%v", r)
			}
		}()
		im, err := e.InstantiatingModule()
		if err != nil {
			d.InstMod = "ERR"
		} else {
			d.InstMod = im
		}
	}()
	d.RO = e.ReadOnly()
	d.DefVals = e.DefaultValues()
	if e.Prefix != nil {
		d.Prefix = e.Prefix.Name
	}
	if len(e.Extra) > 0 {
		var ks []string
		for k := range e.Extra {
			ks = append(ks, k)
		}
		sort.Strings(ks)
		for _, k := range ks {
			var vs []string
			for _, v := range e.Extra[k] {
				if n, ok := v.(yang.Node); ok && n != nil {
					vs = append(vs, n.NName())
				} else {
					vs = append(vs, fmt.Sprintf("%T", v))
				}
			}
			d.Extra = append(d.Extra, k+"="+strings.Join(vs, ","))
		}
	}
	if e.Node != nil && e.Node.Statement() != nil {
		d.Src = yang.Source(e.Node)
	}
	var keys []string
	for k := range e.Dir {
		keys = append(keys, k)
	}
	sort.Strings(keys)
	for _, k := range keys {
		d.Children = append(d.Children, w.dump(e.Dir[k], k, e, path+"/"+k, depth+1))
	}
	if e.RPC != nil {
		d.HasRPC = true
		if e.RPC.Input != nil {
			d.Input = w.dump(e.RPC.Input, "input", e, path+"/input", depth+1)
		}
		if e.RPC.Output != nil {
			d.Output = w.dump(e.RPC.Output, "output", e, path+"/output", depth+1)
		}
	}
	return d
}

func fullName(m *yang.Module) string { return m.FullName() }

func dumpModules(ms *yang.Modules, run *runDump, findChecks bool) {
	byMod := map[*yang.Module]*modDump{}
	var order []*yang.Module
	collect := func(mm map[string]*yang.Module, sub bool) {
		var keys []string
		for k := range mm {
			keys = append(keys, k)
		}
		sort.Strings(keys)
		for _, k := range keys {
			m := mm[k]
			d := byMod[m]
			if d == nil {
				d = &modDump{Name: m.Name, Sub: sub}
				if len(m.Revision) > 0 {
					d.Revision = m.Current()
				}
				byMod[m] = d
				order = append(order, m)
			}
			d.Keys = append(d.Keys, k)
		}
	}
	collect(ms.Modules, false)
	collect(ms.SubModules, true)
	w := &walker{ids: map[*yang.Entry]int{}}
	roots := map[*yang.Module]*yang.Entry{}
	for _, m := range order {
		d := byMod[m]
		for _, i := range m.Import {
			r := "<nil>"
			if i.Module != nil {
				r = fullName(i.Module)
			}
			p := ""
			if i.Prefix != nil {
				p = i.Prefix.Name
			}
			d.Imports = append(d.Imports, p+"="+r)
		}
		for _, i := range m.Include {
			r := "<nil>"
			if i.Module != nil {
				r = fullName(i.Module)
			}
			d.Includes = append(d.Includes, i.Name+"="+r)
		}
		e := yang.ToEntry(m)
		roots[m] = e
		d.Tree = w.dump(e, "", nil, "/"+fullName(m), 0)
		for _, id := range m.Identities() {
			x := &identDump{Name: identKey(id), Values: []string{}}
			for _, v := range id.Values {
				x.Values = append(x.Values, identKey(v))
			}
			d.Identities = append(d.Identities, x)
		}
		run.Modules = append(run.Modules, d)
	}
	run.TreeViol = w.viol
	if findChecks {
		findCheck(ms, order, roots, w, run)
	}
}

// C17: absolute prefixed path of every node, looked up from every module root that can name the
// owning module by a prefix; relative paths between nodes of one tree.
func findCheck(ms *yang.Modules, order []*yang.Module, roots map[*yang.Module]*yang.Entry, w *walker, run *runDump) {
	type step struct {
		e    *yang.Entry
		name string
	}
	pathOf := func(e *yang.Entry) ([]step, *yang.Entry) {
		var st []step
		for ; e.Parent != nil; e = e.Parent {
			st = append([]step{{e, e.Name}}, st...)
		}
		return st, e
	}
	rootMod := map[*yang.Entry]*yang.Module{}
	for m, e := range roots {
		rootMod[e] = m
	}
	bad := func(format string, a ...interface{}) {
		if len(run.FindViol) < 30 {
			run.FindViol = append(run.FindViol, fmt.Sprintf(format, a...))
		}
	}
	for _, target := range w.nodes {
		st, root := pathOf(target)
		owner := rootMod[root]
		if owner == nil || len(st) == 0 {
			continue
		}
		if owner.Kind() != "module" {
			continue
		}
		for _, from := range order {
			// which prefix names owner from 'from'?
			prefix := ""
			if from == owner {
				prefix = from.GetPrefix()
			} else if from.Kind() == "module" {
				for _, i := range from.Import {
					if i.Module == owner && i.Prefix != nil {
						prefix = i.Prefix.Name
					}
				}
			}
			if prefix == "" {
				continue
			}
			var parts []string
			for _, s := range st {
				parts = append(parts, prefix+":"+s.name)
			}
			p := "/" + strings.Join(parts, "/")
			got := roots[from].Find(p)
			run.FindCount++
			if got != target {
				bad("abs: Find(%q) from %s returned %s, want node id %d", p, from.Name, describe(got, w), w.ids[target])
			}
			// one bad step at every position must find nothing
			if from == owner && len(parts) <= 6 {
				for i := range parts {
					q := append([]string{}, parts...)
					q[i] = prefix + ":no-such-node-zz"
					qp := "/" + strings.Join(q, "/")
					run.FindCount++
					if g := roots[from].Find(qp); g != nil {
						bad("bad-step: Find(%q) returned %s, want nothing", qp, describe(g, w))
					}
				}
			}
		}
		// absolute, from start nodes inside the trees: the prefixes that apply are those of the module in
		// whose text the start node was written (a node grafted by an augment or copied from a grouping
		// keeps the node of its defining module)
		if len(st) <= 5 {
			for si, start := range w.nodes {
				if si%7 != int(uint(len(st))%7) && len(w.nodes) > 40 {
					continue
				}
				if start.Node == nil || start.Node.Statement() == nil {
					continue
				}
				ctx := yang.RootNode(start.Node)
				if ctx == nil {
					continue
				}
				prefix := ""
				cown := ctx
				if ctx.BelongsTo != nil {
					cown = ms.Modules[ctx.BelongsTo.Name]
				}
				if cown == owner {
					prefix = ctx.GetPrefix()
				} else {
					for _, i := range ctx.Import {
						if i.Module == owner && i.Prefix != nil {
							prefix = i.Prefix.Name
						}
					}
				}
				if prefix == "" {
					continue
				}
				var parts []string
				for _, s := range st {
					parts = append(parts, prefix+":"+s.name)
				}
				p := "/" + strings.Join(parts, "/")
				run.FindCount++
				if got := start.Find(p); got != target {
					bad("abs-from-node: Find(%q) from %s (written in %s) returned %s, want node id %d", p, start.Path(), ctx.Name, describe(got, w), w.ids[target])
				}
			}
		}
		// relative: from the parent's other children via ".."
		if target.Parent != nil && target.Parent.Dir != nil {
			for k, sib := range target.Parent.Dir {
				if sib == target || target.Parent.Dir[target.Name] != target {
					continue
				}
				run.FindCount++
				if g := sib.Find("../" + target.Name); g != target {
					bad("rel: Find(../%s) from sibling %s returned %s", target.Name, k, describe(g, w))
				}
				break
			}
		}
	}
}

func describe(e *yang.Entry, w *walker) string {
	if e == nil {
		return "nothing"
	}
	return fmt.Sprintf("node id %d (%s)", w.ids[e], e.Path())
}

func runProcess(toks []string) string {
	opts, ops := toks[0], toks[1]
	n, _ := strconv.Atoi(toks[2])
	names := make([]string, n)
	texts := make([]string, n)
	for i := 0; i < n; i++ {
		names[i] = string(unhex(toks[3+2*i]))
		texts[i] = string(unhex(toks[4+2*i]))
	}
	ms := yang.NewModules()
	ms.ParseOptions.IgnoreSubmoduleCircularDependencies = strings.Contains(opts, "c")
	ms.ParseOptions.DeviateOptions.IgnoreDeviateNotSupported = strings.Contains(opts, "n")
	ms.ParseOptions.StoreUses = strings.Contains(opts, "u")
	out := &procOut{Loads: []string{}, Runs: []*runDump{}}
	pathDir := ""
	defer func() {
		if pathDir != "" {
			os.RemoveAll(pathDir)
		}
	}()
	for _, op := range strings.Split(ops, ",") {
		switch {
		case strings.HasPrefix(op, "D"):
			i, _ := strconv.Atoi(op[1:])
			if pathDir == "" {
				d, err := os.MkdirTemp("", "verifpath")
				if err != nil {
					return "BROKEN tempdir: " + err.Error()
				}
				pathDir = d
				ms.AddPath(pathDir)
			}
			if err := os.WriteFile(filepath.Join(pathDir, filepath.Base(names[i])), []byte(texts[i]), 0o644); err != nil {
				return "BROKEN write: " + err.Error()
			}
		case op == "P":
			run := &runDump{Errors: []string{}, ErrPos: []string{}, TreeViol: []string{}, FindViol: []string{}}
			errs := ms.Process()
			for _, e := range errs {
				s := e.Error()
				run.Errors = append(run.Errors, s)
				m := posRE.FindStringSubmatch(s)
				if m != nil {
					run.ErrPos = append(run.ErrPos, m[1]+":"+m[2]+":"+m[3])
				} else {
					run.ErrPos = append(run.ErrPos, "")
				}
			}
			if len(errs) == 0 {
				dumpModules(ms, run, strings.Contains(opts, "f"))
				if strings.Contains(opts, "q") {
					for _, m := range ms.Modules {
						yang.ToEntry(m).Print(io.Discard)
					}
				}
			}
			out.Runs = append(out.Runs, run)
		case strings.HasPrefix(op, "L"):
			i, _ := strconv.Atoi(op[1:])
			if err := ms.Parse(texts[i], names[i]); err != nil {
				out.Loads = append(out.Loads, "err: "+strings.SplitN(err.Error(), "\n", 2)[0])
			} else {
				out.Loads = append(out.Loads, "ok")
			}
		}
	}
	b, err := json.Marshal(out)
	if err != nil {
		return "BROKEN json: " + err.Error()
	}
	return string(b)
}

func init() {
	handlers["process"] = runProcess
}
