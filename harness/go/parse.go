package main

// C02 / C16: yang.Parse on a text; observation = statement forest with positions, or the ordered
// list of positions found in the error text.

import (
	"fmt"
	"regexp"
	"strings"

	"github.com/openconfig/goyang/pkg/yang"
)

const parseFile = "QQ.yang"

var errPosRE = regexp.MustCompile(`QQ\.yang:(?:(-?\d+):(-?\d+):)?|too many errors\.\.\.`)

func dumpStmt(b *strings.Builder, s *yang.Statement) {
	arg, has := s.Arg()
	h := 0
	if has {
		h = 1
	}
	loc := s.Location() // file:line:col
	lc := strings.TrimPrefix(loc, parseFile+":")
	fmt.Fprintf(b, "(%s,%d,%s,%s;", enhex([]byte(s.Keyword)), h, enhex([]byte(arg)), strings.Replace(lc, ":", ",", 1))
	for _, c := range s.SubStatements() {
		dumpStmt(b, c)
	}
	b.WriteString(")")
}

func errPositions(msg string) string {
	var out []string
	for _, m := range errPosRE.FindAllStringSubmatch(msg, -1) {
		switch {
		case strings.HasPrefix(m[0], "too many"):
			out = append(out, "toomany")
		case m[1] == "":
			out = append(out, "nopos")
		default:
			out = append(out, m[1]+":"+m[2])
		}
	}
	if len(out) == 0 {
		return "none"
	}
	return strings.Join(out, ",")
}

func init() {
	handlers["parse"] = func(toks []string) string {
		text := string(unhex(toks[0]))
		ss, err := yang.Parse(text, parseFile)
		if err != nil {
			if len(ss) != 0 {
				return "BROKEN statements returned together with an error"
			}
			if strings.TrimSpace(err.Error()) == "" {
				return "BROKEN empty error"
			}
			return "err " + errPositions(err.Error())
		}
		var b strings.Builder
		b.WriteString("ok ")
		if len(ss) == 0 {
			b.WriteString("-")
		}
		for _, s := range ss {
			dumpStmt(&b, s)
		}
		return b.String()
	}
}
