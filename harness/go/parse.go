package main

// C02 / C16: yang.Parse on a text; observation = statement forest with positions, or the ordered
// list of positions found in the error text.

import (
	"encoding/json"
	"fmt"
	"os"
	"regexp"
	"strconv"
	"strings"

	"github.com/openconfig/goyang/pkg/yang"
)

const parseFile = "QQ.yang"

var errPosRE = regexp.MustCompile(`QQ\.yang:(?:(-?\d+):(-?\d+):)?|too many errors\.\.\.`)

func dumpStmt(b *strings.Builder, s *yang.Statement) {
	arg, has := s.Arg()
	h := 0
	if has {
		h = 1
	}
	loc := s.Location() // file:line:col
	lc := strings.TrimPrefix(loc, parseFile+":")
	fmt.Fprintf(b, "(%s,%d,%s,%s;", enhex([]byte(s.Keyword)), h, enhex([]byte(arg)), strings.Replace(lc, ":", ",", 1))
	for _, c := range s.SubStatements() {
		dumpStmt(b, c)
	}
	b.WriteString(")")
}

func errPositions(msg string) string {
	var out []string
	for _, m := range errPosRE.FindAllStringSubmatch(msg, -1) {
		switch {
		case strings.HasPrefix(m[0], "too many"):
			out = append(out, "toomany")
		case m[1] == "":
			out = append(out, "nopos")
		default:
			out = append(out, m[1]+":"+m[2])
		}
	}
	if len(out) == 0 {
		return "none"
	}
	return strings.Join(out, ",")
}

func init() {
	// the lexer's own rune loop: rune:width:line:col:tcol per call of next() until eof
	handlers["lextrace"] = func(toks []string) string {
		var b strings.Builder
		b.WriteString("trace ")
		tr := yang.VerifLexerTrace(string(unhex(toks[0])))
		if len(tr) == 0 {
			b.WriteString("-")
		}
		for i, t := range tr {
			if i > 0 {
				b.WriteString(",")
			}
			fmt.Fprintf(&b, "%d:%d:%d:%d:%d", t[0], t[1], t[2], t[3], t[4])
		}
		return b.String()
	}
	handlers["parse"] = func(toks []string) string {
		text := string(unhex(toks[0]))
		ss, err := yang.Parse(text, parseFile)
		if err != nil {
			if len(ss) != 0 {
				return "BROKEN statements returned together with an error"
			}
			if strings.TrimSpace(err.Error()) == "" {
				return "BROKEN empty error"
			}
			return "err " + errPositions(err.Error())
		}
		var b strings.Builder
		b.WriteString("ok ")
		if len(ss) == 0 {
			b.WriteString("-")
		}
		for _, s := range ss {
			dumpStmt(&b, s)
		}
		return b.String()
	}
}

// C16 (third sentence): modules found BY NAME in the current directory.
//
//	cwdload <ops> <n> (<filenamehex> <texthex>){n}
//	  ops, comma separated: W<i> write text i as file i into a fresh, empty working directory; L<i> Modules.Parse(text i, name i);
//	  R<hex> Modules.Read(name); G<hex> Modules.GetModule(name); P Process
//	output: JSON {"loads":[...], "errors":[...]} (error strings in full)
func init() {
	handlers["cwdload"] = func(toks []string) string {
		ops := toks[0]
		n, _ := strconv.Atoi(toks[1])
		names := make([]string, n)
		texts := make([]string, n)
		for i := 0; i < n; i++ {
			names[i] = string(unhex(toks[2+2*i]))
			texts[i] = string(unhex(toks[3+2*i]))
		}
		old, err := os.Getwd()
		if err != nil {
			return "BROKEN getwd: " + err.Error()
		}
		dir, err := os.MkdirTemp("", "verifcwd")
		if err != nil {
			return "BROKEN tempdir: " + err.Error()
		}
		defer os.RemoveAll(dir)
		if err := os.Chdir(dir); err != nil {
			return "BROKEN chdir: " + err.Error()
		}
		defer os.Chdir(old)
		ms := yang.NewModules()
		loads := []string{}
		errors := []string{}
		note := func(err error) {
			if err != nil {
				loads = append(loads, "err: "+err.Error())
			} else {
				loads = append(loads, "ok")
			}
		}
		for _, op := range strings.Split(ops, ",") {
			switch {
			case op == "P":
				for _, e := range ms.Process() {
					errors = append(errors, e.Error())
				}
			case strings.HasPrefix(op, "W"):
				i, _ := strconv.Atoi(op[1:])
				if err := os.WriteFile(names[i], []byte(texts[i]), 0o644); err != nil {
					return "BROKEN write: " + err.Error()
				}
			case strings.HasPrefix(op, "L"):
				i, _ := strconv.Atoi(op[1:])
				note(ms.Parse(texts[i], names[i]))
			case strings.HasPrefix(op, "R"):
				note(ms.Read(string(unhex(op[1:]))))
			case strings.HasPrefix(op, "G"):
				_, errs := ms.GetModule(string(unhex(op[1:])))
				if len(errs) == 0 {
					loads = append(loads, "ok")
				}
				for _, e := range errs {
					loads = append(loads, "err: "+e.Error())
				}
			}
		}
		b, _ := json.Marshal(map[string][]string{"loads": loads, "errors": errors})
		return string(b)
	}
}
