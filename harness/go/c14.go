package main

import (
	"fmt"
	"sort"
	"strconv"
	"strings"

	"github.com/openconfig/goyang/pkg/yang"
)

// C14: the public API of EnumType on its own (no module, no Type.resolve), so that the state
// after a rejected Set / SetNext is observed.
func init() {
	// enumapi <bits 0|1> <op>,<op>,...     op = n:<namehex> (SetNext) | s:<namehex>:<int64> (Set)
	//   | md mo ma (NameMap(): delete / overwrite / add an entry of the RETURNED map) | vd vo va (same, ValueMap())
	//   | ln lv (overwrite the slice returned by Names() / Values())
	// -> "ops=<o|e|r per op> " + enumViews
	handlers["enumapi"] = func(t []string) string {
		var e *yang.EnumType
		if t[0] == "1" {
			e = yang.NewBitfield()
		} else {
			e = yang.NewEnumType()
		}
		ops := "-"
		if len(t) > 1 {
			ops = t[1]
		}
		vs := applyOps(e, ops)
		return "ops=" + vs + " " + enumViews(e)
	}

	// enummod <bits 0|1> <name:valuehex|~:pre:post,...>
	// A real module: typedef t { type enumeration|bits { members } } used by two leaves.  pre/post are substatement
	// codes written before/after the value|position statement of the member ("-" = none):
	//   c d o = status current|deprecated|obsolete, D = description, r = reference, f = if-feature.
	// The tables obtained through the first leaf (NameMap, ValueMap, Names, Values) are scrambled by the caller
	// before the type is observed through the second leaf: returned containers are the caller's.
	handlers["enummod"] = func(t []string) string {
		bits := t[0] == "1"
		src := "module m { yang-version \"1.1\"; namespace \"urn:m\"; prefix m; feature ft; typedef t { type " +
			typeBody(bits, t[1]) + " } leaf l { type t; } leaf l2 { type t; } }"
		ms := yang.NewModules()
		if err := ms.Parse(src, "m.yang"); err != nil {
			return "parse-error " + strings.ReplaceAll(err.Error(), "\n", " ")
		}
		if errs := ms.Process(); len(errs) > 0 {
			return "err"
		}
		e := yang.ToEntry(ms.Modules["m"])
		l, l2 := e.Dir["l"], e.Dir["l2"]
		if l == nil || l.Type == nil || l2 == nil || l2.Type == nil {
			return "no-leaf"
		}
		et, et2 := l.Type.Enum, l2.Type.Enum
		if bits {
			et, et2 = l.Type.Bit, l2.Type.Bit
		}
		if et == nil || et2 == nil {
			return "no-table"
		}
		scramble(et)
		return "ok " + enumViews(et2)
	}

	// enumext <bits 0|1> <form t|c|i> <leaf 1|2> <members as in enummod> <ops as in enumapi>
	// The type is resolved from a module and then EXTENDED through the API: the table a leaf ends up with is a
	// complete EnumType (its running maximum included), whichever way the leaf reached the type:
	//   t = typedef t used by both leaves, c = through a second typedef (typedef t2 { type t; }), i = written in place.
	handlers["enumext"] = func(t []string) string {
		bits := t[0] == "1"
		body := typeBody(bits, t[3])
		var src string
		switch t[1] {
		case "t":
			src = "typedef t { type " + body + " } leaf l { type t; } leaf l2 { type t; }"
		case "c":
			src = "typedef t { type " + body + " } typedef t2 { type t; } leaf l { type t2; } leaf l2 { type t2; }"
		case "i":
			src = "leaf l { type " + body + " } leaf l2 { type " + body + " }"
		default:
			panic("bad form")
		}
		ms := yang.NewModules()
		if err := ms.Parse("module m { yang-version \"1.1\"; namespace \"urn:m\"; prefix m; feature ft; "+src+" }", "m.yang"); err != nil {
			return "parse-error " + strings.ReplaceAll(err.Error(), "\n", " ")
		}
		if errs := ms.Process(); len(errs) > 0 {
			return "err"
		}
		name := "l"
		if t[2] == "2" {
			name = "l2"
		}
		l := yang.ToEntry(ms.Modules["m"]).Dir[name]
		if l == nil || l.Type == nil {
			return "no-leaf"
		}
		et := l.Type.Enum
		if bits {
			et = l.Type.Bit
		}
		if et == nil {
			return "no-table"
		}
		vs := applyOps(et, t[4])
		return "ok ops=" + vs + " " + enumViews(et)
	}
}

// baseMembers: the members of the typedef that the restricted forms r / R refer to.
const baseMembers = "a:~:-:-,b:~:-:-,c:~:-:-,d:~:-:-,e:~:-:-,f:~:-:-"

func init() {
	// enumproc <bits 0|1> <form> <steps> <members as in enummod>
	// form: i = leaf l { type enumeration|bits { members } },  t = typedef t { ... } leaf l { type t; },
	//       u = member of a union,  r = RESTRICTION of a typedef (YANG 1.1): typedef base { six members a..f }
	//       leaf l { type base { members } },  R = the same through typedef base2 { type base; }.
	// steps: a string of P (Modules.Process) and G (Modules.GetModule("m")), run on the SAME Modules one after the
	// other.  -> "steps=<o|e per step> " + (views of l's table after the last step | "err")
	handlers["enumproc"] = func(t []string) string {
		bits := t[0] == "1"
		body := typeBody(bits, t[3])
		kind := "enumeration"
		if bits {
			kind = "bits"
		}
		var src string
		switch t[1] {
		case "i":
			src = "leaf l { type " + body + " }"
		case "t":
			src = "typedef t { type " + body + " } leaf l { type t; }"
		case "u":
			src = "leaf l { type union { type " + body + " type string; } }"
		case "r":
			src = "typedef base { type " + typeBody(bits, baseMembers) + " } leaf l { type base " + strings.TrimPrefix(body, kind) + " }"
		case "R":
			src = "typedef base { type " + typeBody(bits, baseMembers) + " } typedef base2 { type base; } leaf l { type base2 " +
				strings.TrimPrefix(body, kind) + " }"
		default:
			panic("bad form")
		}
		ms := yang.NewModules()
		if err := ms.Parse("module m { yang-version \"1.1\"; namespace \"urn:m\"; prefix m; feature ft; "+src+" }", "m.yang"); err != nil {
			return "parse-error " + strings.ReplaceAll(err.Error(), "\n", " ")
		}
		var verdicts strings.Builder
		ok := false
		for _, st := range t[2] {
			var errs []error
			switch st {
			case 'P':
				errs = ms.Process()
			case 'G':
				_, errs = ms.GetModule("m")
			default:
				panic("bad step")
			}
			ok = len(errs) == 0
			if ok {
				verdicts.WriteByte('o')
			} else {
				verdicts.WriteByte('e')
			}
		}
		if !ok {
			return "steps=" + verdicts.String() + " err"
		}
		l := yang.ToEntry(ms.Modules["m"]).Dir["l"]
		if l == nil || l.Type == nil {
			return "no-leaf"
		}
		yt := l.Type
		if t[1] == "u" {
			if len(yt.Type) == 0 {
				return "no-union-member"
			}
			yt = yt.Type[0]
		}
		et := yt.Enum
		if bits {
			et = yt.Bit
		}
		if et == nil {
			return "no-table"
		}
		return "steps=" + verdicts.String() + " " + enumViews(et)
	}
}

func init() {
	// enumunion <members> <members> [<members> ...]      (member lists as in enummod)
	// leaf l { type union { type enumeration {..} type enumeration {..} ... } }: the tables of the union's member
	// types in order, separated by " | " (a member type equal to an earlier one is listed once).
	handlers["enumunion"] = func(t []string) string {
		src := "leaf l { type union {"
		for _, m := range t {
			src += " type " + typeBody(false, m)
		}
		src += " } }"
		ms := yang.NewModules()
		if err := ms.Parse("module m { yang-version \"1.1\"; namespace \"urn:m\"; prefix m; feature ft; "+src+" }", "m.yang"); err != nil {
			return "parse-error " + strings.ReplaceAll(err.Error(), "\n", " ")
		}
		if errs := ms.Process(); len(errs) > 0 {
			return "err"
		}
		l := yang.ToEntry(ms.Modules["m"]).Dir["l"]
		if l == nil || l.Type == nil {
			return "no-leaf"
		}
		var out []string
		for _, yt := range l.Type.Type {
			if yt.Enum == nil {
				out = append(out, "no-table")
				continue
			}
			out = append(out, enumViews(yt.Enum))
		}
		return "ok " + strings.Join(out, " | ")
	}

	// enumdev <bits 0|1> <old form i|t> <old members> <new members>
	// module m { leaf l { type <old> } } (t: through a typedef) and module d { import m; deviation /m:l { deviate replace
	// { type <new> } } }: the table of the deviated leaf.
	handlers["enumdev"] = func(t []string) string {
		bits := t[0] == "1"
		var src string
		switch t[1] {
		case "i":
			src = "leaf l { type " + typeBody(bits, t[2]) + " }"
		case "t":
			src = "typedef ot { type " + typeBody(bits, t[2]) + " } leaf l { type ot; }"
		default:
			panic("bad form")
		}
		ms := yang.NewModules()
		if err := ms.Parse("module m { yang-version \"1.1\"; namespace \"urn:m\"; prefix m; feature ft; "+src+" }", "m.yang"); err != nil {
			return "parse-error " + strings.ReplaceAll(err.Error(), "\n", " ")
		}
		dev := "module d { yang-version \"1.1\"; namespace \"urn:d\"; prefix d; import m { prefix m; } feature ft; " +
			"deviation /m:l { deviate replace { type " + typeBody(bits, t[3]) + " } } }"
		if err := ms.Parse(dev, "d.yang"); err != nil {
			return "parse-error " + strings.ReplaceAll(err.Error(), "\n", " ")
		}
		if errs := ms.Process(); len(errs) > 0 {
			return "err"
		}
		l := yang.ToEntry(ms.Modules["m"]).Dir["l"]
		if l == nil || l.Type == nil {
			return "no-leaf"
		}
		et := l.Type.Enum
		if bits {
			et = l.Type.Bit
		}
		if et == nil {
			return "no-table"
		}
		return "ok " + enumViews(et)
	}
}

// typeBody writes "enumeration { members }" / "bits { members }" from name:valuehex|~:pre:post,... (see enummod).
func typeBody(bits bool, members string) string {
	var b strings.Builder
	kw, vk := "enum", "value"
	if bits {
		kw, vk = "bit", "position"
		b.WriteString("bits {")
	} else {
		b.WriteString("enumeration {")
	}
	sub := func(codes string) {
		if codes == "-" {
			return
		}
		for _, c := range codes {
			switch c {
			case 'c':
				b.WriteString(" status current;")
			case 'd':
				b.WriteString(" status deprecated;")
			case 'o':
				b.WriteString(" status obsolete;")
			case 'D':
				b.WriteString(" description \"some text\";")
			case 'r':
				b.WriteString(" reference \"RFC 7950\";")
			case 'f':
				b.WriteString(" if-feature ft;")
			default:
				panic("bad substatement code")
			}
		}
	}
	for _, mem := range strings.Split(members, ",") {
		f := strings.Split(mem, ":")
		if len(f) != 4 {
			panic("bad member " + mem)
		}
		fmt.Fprintf(&b, " %s %s {", kw, f[0])
		sub(f[2])
		if f[1] != "~" {
			fmt.Fprintf(&b, " %s \"%s\";", vk, string(unhex(f[1])))
		}
		sub(f[3])
		b.WriteString(" }")
	}
	b.WriteString(" }")
	return b.String()
}

// applyOps runs the enumapi operations on e and returns one verdict letter per operation ("-" for none).
func applyOps(e *yang.EnumType, ops string) string {
	var verdicts strings.Builder
	if ops != "-" {
		for _, op := range strings.Split(ops, ",") {
			f := strings.Split(op, ":")
			var err error
			if len(f) == 1 && mutateOp(e, f[0]) {
				verdicts.WriteByte('r')
				continue
			}
			switch {
			case f[0] == "n" && len(f) == 2:
				err = e.SetNext(string(unhex(f[1])))
			case f[0] == "s" && len(f) == 3:
				v, perr := strconv.ParseInt(f[2], 10, 64)
				if perr != nil {
					panic("bad int64 " + f[2])
				}
				err = e.Set(string(unhex(f[1])), v)
			default:
				panic("bad op " + op)
			}
			if err != nil {
				verdicts.WriteByte('e')
			} else {
				verdicts.WriteByte('o')
			}
		}
	}
	if verdicts.Len() == 0 {
		return "-"
	}
	return verdicts.String()
}

// scramble edits every container the EnumType hands out.
func scramble(e *yang.EnumType) {
	nm := e.NameMap()
	for k := range nm {
		delete(nm, k)
	}
	nm["\x01junk"] = 77
	vm := e.ValueMap()
	for k := range vm {
		delete(vm, k)
	}
	vm[424242] = "junk"
	ns := e.Names()
	for i := range ns {
		ns[i] = "junk"
	}
	vs := e.Values()
	for i := range vs {
		vs[i] = 999
	}
}

// mutateOp: read a container through the API and edit what was returned.
func mutateOp(e *yang.EnumType, op string) bool {
	switch op {
	case "md", "mo", "ma":
		m := e.NameMap()
		var ks []string
		for k := range m {
			ks = append(ks, k)
		}
		sort.Strings(ks)
		switch {
		case op == "ma":
			m["\x01junk"] = 77
		case len(ks) == 0:
		case op == "md":
			delete(m, ks[0])
		default:
			m[ks[0]] += 1000
		}
	case "vd", "vo", "va":
		m := e.ValueMap()
		var ks []int64
		for k := range m {
			ks = append(ks, k)
		}
		sort.Slice(ks, func(i, j int) bool { return ks[i] < ks[j] })
		switch {
		case op == "va":
			m[424242] = "junk"
		case len(ks) == 0:
		case op == "vd":
			delete(m, ks[0])
		default:
			m[ks[0]] += "x"
		}
	case "ln":
		s := e.Names()
		for i := range s {
			s[i] = "junk"
		}
	case "lv":
		s := e.Values()
		for i := range s {
			s[i] = 999
		}
	default:
		return false
	}
	return true
}

// enumViews shows an EnumType through every read accessor of the API:
// toint (NameMap, sorted), tostring (ValueMap, sorted), names (Names() with Value and IsDefined),
// values (Values() with Name).
func enumViews(e *yang.EnumType) string {
	j := func(x []string) string {
		if len(x) == 0 {
			return "-"
		}
		return strings.Join(x, ",")
	}
	nm := e.NameMap()
	var names []string
	for n := range nm {
		names = append(names, n)
	}
	sort.Strings(names)
	var a []string
	for _, n := range names {
		a = append(a, fmt.Sprintf("%s:%d", enhex([]byte(n)), nm[n]))
	}
	vm := e.ValueMap()
	var vals []int64
	for v := range vm {
		vals = append(vals, v)
	}
	sort.Slice(vals, func(i, j int) bool { return vals[i] < vals[j] })
	var c []string
	for _, v := range vals {
		c = append(c, fmt.Sprintf("%d:%s", v, enhex([]byte(vm[v]))))
	}
	var ns []string
	for _, n := range e.Names() {
		d := "f"
		if e.IsDefined(n) {
			d = "t"
		}
		ns = append(ns, fmt.Sprintf("%s:%d:%s", enhex([]byte(n)), e.Value(n), d))
	}
	var vs []string
	for _, v := range e.Values() {
		vs = append(vs, fmt.Sprintf("%d:%s", v, enhex([]byte(e.Name(v)))))
	}
	return "toint=" + j(a) + " tostring=" + j(c) + " names=" + j(ns) + " values=" + j(vs)
}

func init() {
	// enumset <steps> <type> <type> ...         type = <kind e|b><place>;<namehex>:<valuehex|~>,...
	// SEVERAL enumeration / bits types in ONE Modules set; member names are arbitrary non-empty strings (hex), written
	// double-quoted.  Type number j (1-based) sits at the leaf x<j>:
	//   i = leaf in module m,  l = leaf-list in a container of m,  t = typedef of m used by a leaf of m,
	//   I = leaf in a second module n,  T = typedef of n used (through an import) by a leaf of m,  g = in a grouping of m
	//   used once.
	// steps as in enumproc.  -> "steps=<o|e per step> " + (the views of every type in order, " | " between | "err")
	handlers["enumset"] = func(t []string) string {
		var m, n strings.Builder
		needImport := false
		type where struct {
			mod  string
			path []string
			bits bool
		}
		var locs []where
		for j, tok := range t[1:] {
			if len(tok) < 3 || tok[2] != ';' {
				panic("bad type " + tok)
			}
			bits := tok[0] == 'b'
			body := quotedBody(bits, tok[3:])
			x := fmt.Sprintf("x%d", j+1)
			switch tok[1] {
			case 'i':
				fmt.Fprintf(&m, " leaf %s { type %s }", x, body)
				locs = append(locs, where{"m", []string{x}, bits})
			case 'l':
				fmt.Fprintf(&m, " container c%d { leaf-list %s { type %s } }", j+1, x, body)
				locs = append(locs, where{"m", []string{fmt.Sprintf("c%d", j+1), x}, bits})
			case 't':
				fmt.Fprintf(&m, " typedef t%d { type %s } leaf %s { type t%d; }", j+1, body, x, j+1)
				locs = append(locs, where{"m", []string{x}, bits})
			case 'g':
				fmt.Fprintf(&m, " grouping g%d { leaf %s { type %s } } uses g%d;", j+1, x, body, j+1)
				locs = append(locs, where{"m", []string{x}, bits})
			case 'I':
				fmt.Fprintf(&n, " leaf %s { type %s }", x, body)
				locs = append(locs, where{"n", []string{x}, bits})
			case 'T':
				needImport = true
				fmt.Fprintf(&n, " typedef t%d { type %s }", j+1, body)
				fmt.Fprintf(&m, " leaf %s { type n:t%d; }", x, j+1)
				locs = append(locs, where{"m", []string{x}, bits})
			default:
				panic("bad place " + tok)
			}
		}
		imp := ""
		if needImport {
			imp = " import n { prefix n; }"
		}
		ms := yang.NewModules()
		if err := ms.Parse("module m { yang-version \"1.1\"; namespace \"urn:m\"; prefix m;"+imp+m.String()+" }", "m.yang"); err != nil {
			return "parse-error " + strings.ReplaceAll(err.Error(), "\n", " ")
		}
		if n.Len() > 0 || needImport {
			if err := ms.Parse("module n { yang-version \"1.1\"; namespace \"urn:n\"; prefix n;"+n.String()+" }", "n.yang"); err != nil {
				return "parse-error " + strings.ReplaceAll(err.Error(), "\n", " ")
			}
		}
		var verdicts strings.Builder
		ok := false
		for _, st := range t[0] {
			var errs []error
			switch st {
			case 'P':
				errs = ms.Process()
			case 'G':
				_, errs = ms.GetModule("m")
			default:
				panic("bad step")
			}
			ok = len(errs) == 0
			if ok {
				verdicts.WriteByte('o')
			} else {
				verdicts.WriteByte('e')
			}
		}
		if !ok {
			return "steps=" + verdicts.String() + " err"
		}
		roots := map[string]*yang.Entry{}
		var out []string
		for _, w := range locs {
			if roots[w.mod] == nil {
				roots[w.mod] = yang.ToEntry(ms.Modules[w.mod])
			}
			e := roots[w.mod]
			for _, p := range w.path {
				if e != nil {
					e = e.Dir[p]
				}
			}
			if e == nil || e.Type == nil {
				out = append(out, "no-leaf")
				continue
			}
			et := e.Type.Enum
			if w.bits {
				et = e.Type.Bit
			}
			if et == nil {
				out = append(out, "no-table")
				continue
			}
			out = append(out, enumViews(et))
		}
		return "steps=" + verdicts.String() + " " + strings.Join(out, " | ")
	}
}

// quotedBody writes "enumeration { members }" / "bits { members }" from <namehex>:<valuehex|~>,... with every name
// (and value) as a double-quoted YANG string.
func quotedBody(bits bool, members string) string {
	var b strings.Builder
	kw, vk := "enum", "value"
	if bits {
		kw, vk = "bit", "position"
		b.WriteString("bits {")
	} else {
		b.WriteString("enumeration {")
	}
	q := func(s string) string {
		s = strings.ReplaceAll(s, "\\", "\\\\")
		return "\"" + strings.ReplaceAll(s, "\"", "\\\"") + "\""
	}
	for _, mem := range strings.Split(members, ",") {
		f := strings.Split(mem, ":")
		if len(f) != 2 {
			panic("bad member " + mem)
		}
		fmt.Fprintf(&b, " %s %s", kw, q(string(unhex(f[0]))))
		if f[1] != "~" {
			fmt.Fprintf(&b, " { %s %s; }", vk, q(string(unhex(f[1]))))
		} else {
			b.WriteString(";")
		}
	}
	b.WriteString(" }")
	return b.String()
}
