package main

import (
	"fmt"
	"sort"
	"strconv"
	"strings"

	"github.com/openconfig/goyang/pkg/yang"
)

// C14: the public API of EnumType on its own (no module, no Type.resolve), so that the state
// after a rejected Set / SetNext is observed.
func init() {
	// enumapi <bits 0|1> <op>,<op>,...     op = n:<namehex> (SetNext) | s:<namehex>:<int64> (Set)
	// -> "ops=<o|e per op> toint=<namehex:value,...sorted by name> tostring=<value:namehex,...sorted by value>"
	handlers["enumapi"] = func(t []string) string {
		var e *yang.EnumType
		if t[0] == "1" {
			e = yang.NewBitfield()
		} else {
			e = yang.NewEnumType()
		}
		var verdicts strings.Builder
		if len(t) > 1 && t[1] != "-" {
			for _, op := range strings.Split(t[1], ",") {
				f := strings.Split(op, ":")
				var err error
				switch {
				case f[0] == "n" && len(f) == 2:
					err = e.SetNext(string(unhex(f[1])))
				case f[0] == "s" && len(f) == 3:
					v, perr := strconv.ParseInt(f[2], 10, 64)
					if perr != nil {
						panic("bad int64 " + f[2])
					}
					err = e.Set(string(unhex(f[1])), v)
				default:
					panic("bad op " + op)
				}
				if err != nil {
					verdicts.WriteByte('e')
				} else {
					verdicts.WriteByte('o')
				}
			}
		}
		nm := e.NameMap()
		var names []string
		for n := range nm {
			names = append(names, n)
		}
		sort.Strings(names)
		var a []string
		for _, n := range names {
			a = append(a, fmt.Sprintf("%s:%d", enhex([]byte(n)), nm[n]))
		}
		vm := e.ValueMap()
		var vals []int64
		for v := range vm {
			vals = append(vals, v)
		}
		sort.Slice(vals, func(i, j int) bool { return vals[i] < vals[j] })
		var c []string
		for _, v := range vals {
			c = append(c, fmt.Sprintf("%d:%s", v, enhex([]byte(vm[v]))))
		}
		j := func(x []string) string {
			if len(x) == 0 {
				return "-"
			}
			return strings.Join(x, ",")
		}
		vs := verdicts.String()
		if vs == "" {
			vs = "-"
		}
		return "ops=" + vs + " toint=" + j(a) + " tostring=" + j(c)
	}
}
