package main

// C18 correspondence: what survives in one yang.Modules along a history of loads, Process calls and namespace
// lookups, printed in the format of the extracted machine (harness/ml/cmd_c18.ml) with module objects named by
// the source position of their statement (check/props/c18.py maps positions to item identifiers).
//
//   c18hist <ops> <n> (<namehex> <texthex>){n}
//     ops: comma separated: L<i> Parse text i, P Process, N<nshex> FindModuleByNamespace, T read every module (c18read)
//   output, one part per op joined by " ; ":
//     L<0|1> M=<keyhex>:<srchex>,.. S=..      keys of ms.Modules / ms.SubModules after the load (sorted)
//     P E=<number of errors> B=<srchex>.(i|c).<k>><srchex>,..   bound import (i) / include (c) statements (sorted)
//     N=f<srchex> | none | amb

import (
	"encoding/json"
	"fmt"
	"io"
	"os"
	"path/filepath"
	"sort"
	"strconv"
	"strings"

	"github.com/openconfig/goyang/pkg/yang"
)

func c18src(m *yang.Module) string {
	return enhex([]byte(yang.Source(m)))
}

func c18map(mm map[string]*yang.Module) string {
	var l []string
	for k, m := range mm {
		l = append(l, enhex([]byte(k))+":"+c18src(m))
	}
	if len(l) == 0 {
		return "-"
	}
	sort.Strings(l)
	return strings.Join(l, ",")
}

func c18binds(ms *yang.Modules) string {
	seen := map[*yang.Module]bool{}
	var l []string
	for _, mm := range []map[string]*yang.Module{ms.Modules, ms.SubModules} {
		for _, m := range mm {
			if seen[m] {
				continue
			}
			seen[m] = true
			for k, i := range m.Import {
				if i.Module != nil {
					l = append(l, fmt.Sprintf("%s.i.%d>%s", c18src(m), k, c18src(i.Module)))
				}
			}
			for k, i := range m.Include {
				if i.Module != nil {
					l = append(l, fmt.Sprintf("%s.c.%d>%s", c18src(m), k, c18src(i.Module)))
				}
			}
		}
	}
	if len(l) == 0 {
		return "-"
	}
	sort.Strings(l)
	return strings.Join(l, ",")
}

// c18read is a read operation on one module: ToEntry, Print, and the namespace / instantiating-module / read-only
// queries on the top-level nodes.  A read of a set that has not been processed may fail; what it leaves behind is
// the point.
func c18read(m *yang.Module) {
	defer func() { _ = recover() }()
	e := yang.ToEntry(m)
	if e == nil {
		return
	}
	e.Print(io.Discard)
	for _, c := range e.Dir {
		c.Namespace()
		c.InstantiatingModule()
		c.ReadOnly()
	}
}

func runC18Hist(toks []string) string {
	ops := toks[0]
	n, _ := strconv.Atoi(toks[1])
	names := make([]string, n)
	texts := make([]string, n)
	for i := 0; i < n; i++ {
		names[i] = string(unhex(toks[2+2*i]))
		texts[i] = string(unhex(toks[3+2*i]))
	}
	ms := yang.NewModules()
	var out []string
	for _, op := range strings.Split(ops, ",") {
		switch {
		case op == "P":
			errs := ms.Process()
			out = append(out, fmt.Sprintf("P E=%d B=%s", len(errs), c18binds(ms)))
		case strings.HasPrefix(op, "L"):
			i, _ := strconv.Atoi(op[1:])
			ok := "1"
			if err := ms.Parse(texts[i], names[i]); err != nil {
				ok = "0"
			}
			out = append(out, fmt.Sprintf("L%s M=%s S=%s", ok, c18map(ms.Modules), c18map(ms.SubModules)))
		case op == "T":
			// a read between the runs (as in c18proc); prints nothing but its mark
			for _, mm := range []map[string]*yang.Module{ms.Modules, ms.SubModules} {
				var keys []string
				for k := range mm {
					keys = append(keys, k)
				}
				sort.Strings(keys)
				for _, k := range keys {
					c18read(mm[k])
				}
			}
			out = append(out, "T")
		case strings.HasPrefix(op, "N"):
			ns := string(unhex(op[1:]))
			m, err := ms.FindModuleByNamespace(ns)
			switch {
			case err == nil && m != nil:
				out = append(out, "N=f"+c18src(m))
			default:
				// which of the two errors it is, decided from the modules and not from the wording
				r := "none"
				for _, x := range ms.Modules {
					if x.Namespace != nil && x.Namespace.Name == ns {
						r = "amb"
					}
				}
				out = append(out, "N="+r)
			}
		}
	}
	return strings.Join(out, " ; ")
}

// c18proc <opts> <ops> <n> (<namehex> <texthex>){n}
//
//	the process command of resolve.go (same options, same JSON, a dump after every P) with read operations between
//	the runs:  T = yang.ToEntry on every module and submodule of the set (key order), followed by a Print of the
//	           entry and the namespace / instantiating-module / read-only queries on its children;
//	           C = ms.ClearEntryCache();  D<i> = text i is written as a file <name i> into a directory of ms.Path, where
//	           FindModule finds it when a Process meets an import/include of a module that is not loaded;
//	           F<i> = text i is written as a file into a second directory, which is not on the search path;
//	           R<i> = the same followed by ms.Read(that file): a load like L (verdict in "loads");
//	option e: the trees are dumped after a run that returned errors as well;
//	and G<namehex> = ms.GetModule(name), which is a run: its errors and, when there are none, the full dump of the
//	set are appended to "runs" exactly as for P.
//	Reads produce no output: only what they leave behind matters.
func runC18Proc(toks []string) string {
	opts, ops := toks[0], toks[1]
	n, _ := strconv.Atoi(toks[2])
	names := make([]string, n)
	texts := make([]string, n)
	for i := 0; i < n; i++ {
		names[i] = string(unhex(toks[3+2*i]))
		texts[i] = string(unhex(toks[4+2*i]))
	}
	ms := yang.NewModules()
	ms.ParseOptions.IgnoreSubmoduleCircularDependencies = strings.Contains(opts, "c")
	ms.ParseOptions.DeviateOptions.IgnoreDeviateNotSupported = strings.Contains(opts, "n")
	ms.ParseOptions.StoreUses = strings.Contains(opts, "u")
	out := &c18Out{Loads: []string{}, Runs: []*runDump{}, Loaded: [][]string{}}
	read := c18read
	pathDir, readDir := "", ""
	defer func() {
		for _, d := range []string{pathDir, readDir} {
			if d != "" {
				os.RemoveAll(d)
			}
		}
	}()
	loaded := func() {
		l := []string{}
		for _, m := range ms.Modules {
			l = append(l, yang.Source(m))
		}
		for _, m := range ms.SubModules {
			l = append(l, yang.Source(m))
		}
		sort.Strings(l)
		out.Loaded = append(out.Loaded, l)
	}
	for _, op := range strings.Split(ops, ",") {
		switch {
		case op == "P":
			run := &runDump{Errors: []string{}, ErrPos: []string{}, TreeViol: []string{}, FindViol: []string{}}
			errs := ms.Process()
			for _, e := range errs {
				s := e.Error()
				run.Errors = append(run.Errors, s)
				m := posRE.FindStringSubmatch(s)
				if m != nil {
					run.ErrPos = append(run.ErrPos, m[1]+":"+m[2]+":"+m[3])
				} else {
					run.ErrPos = append(run.ErrPos, "")
				}
			}
			if len(errs) != 0 && strings.Contains(opts, "e") {
				c18dumpAnyway(ms, run)
			}
			if len(errs) == 0 {
				dumpModules(ms, run, strings.Contains(opts, "f"))
				if strings.Contains(opts, "q") {
					for _, m := range ms.Modules {
						yang.ToEntry(m).Print(io.Discard)
					}
				}
			}
			out.Runs = append(out.Runs, run)
			loaded()
		case op == "T":
			for _, mm := range []map[string]*yang.Module{ms.Modules, ms.SubModules} {
				var keys []string
				for k := range mm {
					keys = append(keys, k)
				}
				sort.Strings(keys)
				for _, k := range keys {
					read(mm[k])
				}
			}
		case strings.HasPrefix(op, "F"), strings.HasPrefix(op, "R"):
			// F<i>: text i is written as a file into a directory that is NOT on the search path;
			// R<i>: the same, then ms.Read(path of that file): a load (verdict in "loads"); findFile puts the
			// directory of a file it is given on the search path, which must hold only if the load succeeds
			i, _ := strconv.Atoi(op[1:])
			if readDir == "" {
				d, err := os.MkdirTemp("", "c18read")
				if err != nil {
					return "BROKEN tempdir: " + err.Error()
				}
				readDir = d
			}
			file := filepath.Join(readDir, filepath.Base(names[i]))
			if err := os.WriteFile(file, []byte(texts[i]), 0o644); err != nil {
				return "BROKEN write: " + err.Error()
			}
			if op[0] == 'R' {
				if err := ms.Read(file); err != nil {
					out.Loads = append(out.Loads, "err: "+strings.SplitN(err.Error(), "\n", 2)[0])
				} else {
					out.Loads = append(out.Loads, "ok")
				}
			}
		case strings.HasPrefix(op, "D"):
			// text i becomes available as a file of the search path (Process may read it through FindModule)
			i, _ := strconv.Atoi(op[1:])
			if pathDir == "" {
				d, err := os.MkdirTemp("", "c18path")
				if err != nil {
					return "BROKEN tempdir: " + err.Error()
				}
				pathDir = d
				ms.AddPath(pathDir)
			}
			if err := os.WriteFile(filepath.Join(pathDir, filepath.Base(names[i])), []byte(texts[i]), 0o644); err != nil {
				return "BROKEN write: " + err.Error()
			}
		case op == "C":
			ms.ClearEntryCache()
		case strings.HasPrefix(op, "G"):
			// ms.GetModule(name): a run (Process) and a read (ToEntry) in one; dumped like P
			run := &runDump{Errors: []string{}, ErrPos: []string{}, TreeViol: []string{}, FindViol: []string{}}
			e, errs := ms.GetModule(string(unhex(op[1:])))
			for _, err := range errs {
				s := err.Error()
				run.Errors = append(run.Errors, s)
				m := posRE.FindStringSubmatch(s)
				if m != nil {
					run.ErrPos = append(run.ErrPos, m[1]+":"+m[2]+":"+m[3])
				} else {
					run.ErrPos = append(run.ErrPos, "")
				}
			}
			// (no dump after a failed GetModule: it may have failed before processing anything)
			if len(errs) == 0 {
				if e == nil {
					run.TreeViol = append(run.TreeViol, "GetModule returned neither an entry nor an error")
				}
				dumpModules(ms, run, strings.Contains(opts, "f"))
			}
			out.Runs = append(out.Runs, run)
			loaded()
		case strings.HasPrefix(op, "L"):
			i, _ := strconv.Atoi(op[1:])
			if err := ms.Parse(texts[i], names[i]); err != nil {
				out.Loads = append(out.Loads, "err: "+strings.SplitN(err.Error(), "\n", 2)[0])
			} else {
				out.Loads = append(out.Loads, "ok")
			}
		}
	}
	b, err := json.Marshal(out)
	if err != nil {
		return "BROKEN json: " + err.Error()
	}
	js := string(b)
	for _, d := range []string{pathDir, readDir} {
		if d != "" {
			// files read from a directory are named by their base name, as the texts loaded with Parse are
			js = strings.ReplaceAll(js, d+string(filepath.Separator), "")
		}
	}
	return js
}

// c18dumpAnyway dumps the trees after a run that returned errors (option e): ToEntry is a public read operation and
// what it shows then must not depend on the history either.  A read of such a set may fail; that is recorded.
func c18dumpAnyway(ms *yang.Modules, run *runDump) {
	defer func() {
		if r := recover(); r != nil {
			run.Modules = nil
			run.TreeViol = []string{fmt.Sprintf("PANIC while dumping after a failed run: %v", r)}
		}
	}()
	dumpModules(ms, run, false)
	// the clauses of the tree invariant are about processed trees (and are listed in map order)
	run.TreeViol = []string{}
}

// c18Out is procOut plus, per run, the source positions of all modules and submodules of the set after it (which
// tells what Process has read from the search path by itself).
type c18Out struct {
	Loads  []string   `json:"loads"`
	Runs   []*runDump `json:"runs"`
	Loaded [][]string `json:"loaded"`
}

// c18tree <opts> <ops> <path> <nfiles> (<relpathhex> <texthex>){nfiles} <ntexts> (<namehex> <texthex>){ntexts}
//
//	histories over a TREE of files that is reached through the search path only (the current directory holds nothing):
//	the files are written below a fresh root, <path> (comma separated, relative to the root, "." = the root itself,
//	a trailing "+" = "/...": the entry and everything below it) is given to ms.AddPath, then the ops run:
//	  R<namehex>  ms.Read(name), name being a bare module name: looked up through the search path; a load (verdict)
//	  M<namehex>  ms.GetModule(name) offered as a load: verdict "errload" when it failed and the module is not in the
//	              set (the Read inside failed), "errrun" when it failed otherwise, "ok"
//	  L<i>        ms.Parse(text i); P, G<namehex>, T, C as in c18proc.
//	Output: c18Out plus "paths" (ms.Path after every run) and "after" (the sources of the set after every load);
//	the root is cut off everywhere.
func runC18Tree(toks []string) string {
	opts, ops, pathSpec := toks[0], toks[1], toks[2]
	nf, _ := strconv.Atoi(toks[3])
	root, err := os.MkdirTemp("", "c18tree")
	if err != nil {
		return "BROKEN tempdir: " + err.Error()
	}
	defer os.RemoveAll(root)
	for i := 0; i < nf; i++ {
		rel := string(unhex(toks[4+2*i]))
		file := filepath.Join(root, filepath.FromSlash(rel))
		if err := os.MkdirAll(filepath.Dir(file), 0o755); err != nil {
			return "BROKEN mkdir: " + err.Error()
		}
		if err := os.WriteFile(file, unhex(toks[5+2*i]), 0o644); err != nil {
			return "BROKEN write: " + err.Error()
		}
	}
	rest := toks[4+2*nf:]
	n, _ := strconv.Atoi(rest[0])
	names := make([]string, n)
	texts := make([]string, n)
	for i := 0; i < n; i++ {
		names[i] = string(unhex(rest[1+2*i]))
		texts[i] = string(unhex(rest[2+2*i]))
	}
	ms := yang.NewModules()
	ms.ParseOptions.StoreUses = strings.Contains(opts, "u")
	if pathSpec != "-" {
		for _, p := range strings.Split(pathSpec, ",") {
			dots := strings.HasSuffix(p, "+")
			p = strings.TrimSuffix(p, "+")
			d := root
			if p != "." {
				d = filepath.Join(root, filepath.FromSlash(p))
			}
			if dots {
				d = filepath.Join(d, "...")
			}
			ms.AddPath(d)
		}
	}
	out := &c18TreeOut{Loads: []string{}, Runs: []*runDump{}, Loaded: [][]string{}, Paths: [][]string{}, After: [][]string{}}
	sources := func() []string {
		l := []string{}
		for _, m := range ms.Modules {
			l = append(l, yang.Source(m))
		}
		for _, m := range ms.SubModules {
			l = append(l, yang.Source(m))
		}
		sort.Strings(l)
		return l
	}
	verdict := func(err error) {
		if err != nil {
			out.Loads = append(out.Loads, "err: "+strings.SplitN(err.Error(), "\n", 2)[0])
		} else {
			out.Loads = append(out.Loads, "ok")
		}
		out.After = append(out.After, sources())
	}
	record := func(run *runDump, errs []error) {
		for _, e := range errs {
			s := e.Error()
			run.Errors = append(run.Errors, s)
			if m := posRE.FindStringSubmatch(s); m != nil {
				run.ErrPos = append(run.ErrPos, m[1]+":"+m[2]+":"+m[3])
			} else {
				run.ErrPos = append(run.ErrPos, "")
			}
		}
		out.Runs = append(out.Runs, run)
		out.Loaded = append(out.Loaded, sources())
		out.Paths = append(out.Paths, append([]string{}, ms.Path...))
	}
	for _, op := range strings.Split(ops, ",") {
		switch {
		case op == "P":
			run := &runDump{Errors: []string{}, ErrPos: []string{}, TreeViol: []string{}, FindViol: []string{}}
			errs := ms.Process()
			if len(errs) == 0 {
				dumpModules(ms, run, strings.Contains(opts, "f"))
			}
			record(run, errs)
		case strings.HasPrefix(op, "G"):
			run := &runDump{Errors: []string{}, ErrPos: []string{}, TreeViol: []string{}, FindViol: []string{}}
			e, errs := ms.GetModule(string(unhex(op[1:])))
			if len(errs) == 0 {
				if e == nil {
					run.TreeViol = append(run.TreeViol, "GetModule returned neither an entry nor an error")
				}
				dumpModules(ms, run, strings.Contains(opts, "f"))
			}
			record(run, errs)
		case op == "T":
			for _, mm := range []map[string]*yang.Module{ms.Modules, ms.SubModules} {
				var keys []string
				for k := range mm {
					keys = append(keys, k)
				}
				sort.Strings(keys)
				for _, k := range keys {
					c18read(mm[k])
				}
			}
		case op == "C":
			ms.ClearEntryCache()
		case strings.HasPrefix(op, "R"):
			verdict(ms.Read(string(unhex(op[1:]))))
		case strings.HasPrefix(op, "M"):
			name := string(unhex(op[1:]))
			_, errs := ms.GetModule(name)
			switch {
			case len(errs) == 0:
				out.Loads = append(out.Loads, "ok")
			case ms.Modules[name] == nil:
				out.Loads = append(out.Loads, "errload: "+strings.SplitN(errs[0].Error(), "\n", 2)[0])
			default:
				out.Loads = append(out.Loads, "errrun")
			}
			out.After = append(out.After, sources())
		case strings.HasPrefix(op, "L"):
			i, _ := strconv.Atoi(op[1:])
			verdict(ms.Parse(texts[i], names[i]))
		}
	}
	b, err := json.Marshal(out)
	if err != nil {
		return "BROKEN json: " + err.Error()
	}
	js := strings.ReplaceAll(string(b), root+string(filepath.Separator), "")
	return strings.ReplaceAll(js, root, ".")
}

type c18TreeOut struct {
	Loads  []string   `json:"loads"`
	Runs   []*runDump `json:"runs"`
	Loaded [][]string `json:"loaded"`
	Paths  [][]string `json:"paths"`
	After  [][]string `json:"after"`
}

func init() {
	handlers["c18hist"] = runC18Hist
	handlers["c18proc"] = runC18Proc
	handlers["c18tree"] = runC18Tree
}
