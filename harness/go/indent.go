package main

import (
	"bytes"
	"errors"
	"fmt"
	"io"
	"strconv"
	"strings"

	"github.com/openconfig/goyang/pkg/indent"
)

// scripted underlying writer: each call consumes one script entry.
type scripted struct {
	got    []byte
	script []string
	i      int
	calls  int // failing calls within the current Write
}

func (s *scripted) Write(p []byte) (int, error) {
	a := s.script[s.i]
	if a == "ok" {
		s.got = append(s.got, p...)
		return len(p), nil
	}
	s.calls++
	// "s<n>": the failure is io.ErrShortWrite, and should the writer above come back for more within the same
	// Write (it has no business to: the first error ends the Write) it is told that the device is full.
	var err error = errors.New("short")
	if strings.HasPrefix(a, "s") {
		a = a[1:]
		err = io.ErrShortWrite
		if s.calls > 1 {
			return 0, errors.New("device full")
		}
	}
	n, _ := strconv.Atoi(a)
	k := n
	if k < 0 {
		k = 0
	}
	if k > len(p) {
		k = len(p)
	}
	s.got = append(s.got, p[:k]...)
	return n, err
}

// plainReader hides every optional interface of the reader it wraps (WriterTo in particular), so that io.Copy
// has to go through the destination's ReadFrom, if it has one, or through Write.
type plainReader struct{ r io.Reader }

func (p plainReader) Read(b []byte) (int, error) { return p.r.Read(b) }

// writeChunk hands buf to w the way the mode letter says: "" Write, "S" io.WriteString, "R" io.Copy from a plain
// reader.  All three are the same operation for the caller: that many of its bytes were taken, or an error.
func writeChunk(w io.Writer, mode string, buf []byte) (int, error) {
	switch mode {
	case "S":
		return io.WriteString(w, string(buf))
	case "R":
		n, err := io.Copy(w, plainReader{bytes.NewReader(buf)})
		return int(n), err
	}
	return w.Write(buf)
}

// splitMode separates the optional mode letter from a chunk token.
func splitMode(tok string) (string, string) {
	if len(tok) > 0 && (tok[0] == 'S' || tok[0] == 'R') {
		return tok[:1], tok[1:]
	}
	return "", tok
}

func init() {
	// indent <prefix> (<chunk> <acc>)*
	handlers["indent"] = func(t []string) string {
		prefix := string(unhex(t[0]))
		s := &scripted{}
		w := indent.NewWriter(s, prefix)
		var rs []string
		for i := 1; i+1 < len(t); i += 2 {
			s.script = []string{t[i+1]}
			s.i, s.calls = 0, 0
			mode, tok := splitMode(t[i])
			buf := unhex(tok)
			if buf == nil {
				buf = []byte{}
			}
			n, err := writeChunk(w, mode, buf)
			e := "ok"
			if err != nil {
				e = "E"
			}
			rs = append(rs, fmt.Sprintf("%d:%s", n, e))
		}
		r := strings.Join(rs, ",")
		if r == "" {
			r = "-"
		}
		return enhex(s.got) + " " + r
	}
	// indent2 <p1> <p2> (L <chunk> <acc> | U <chunk> <acc> | N)* : upper = NewWriter(lower, p2), lower = NewWriter(s, p1)
	handlers["indent2"] = func(t []string) string {
		p1, p2 := string(unhex(t[0])), string(unhex(t[1]))
		s := &scripted{}
		lower := indent.NewWriter(s, p1)
		upper := indent.NewWriter(lower, p2)
		var rs []string
		for i := 2; i < len(t); {
			if t[i] == "N" {
				upper = indent.NewWriter(lower, p2)
				i++
				continue
			}
			w := lower
			if t[i] == "U" {
				w = upper
			}
			s.script = []string{t[i+2]}
			s.i, s.calls = 0, 0
			mode, tok := splitMode(t[i+1])
			buf := unhex(tok)
			if buf == nil {
				buf = []byte{}
			}
			n, err := writeChunk(w, mode, buf)
			e := "ok"
			if err != nil {
				e = "E"
			}
			rs = append(rs, fmt.Sprintf("%d:%s", n, e))
			i += 3
		}
		r := strings.Join(rs, ",")
		if r == "" {
			r = "-"
		}
		return enhex(s.got) + " " + r
	}
	// bytes <prefix> <text> : both one-shot functions, must agree
	handlers["bytes"] = func(t []string) string {
		p0, b0 := unhex(t[0]), unhex(t[1])
		// the caller's slices sit inside larger buffers: the functions must neither write into them nor hand
		// out results that share their memory
		pbuf := append(append(make([]byte, 0, len(p0)+64), p0...), "....tail of the caller's prefix buffer...."...)
		bbuf := append(append(make([]byte, 0, len(b0)+64), b0...), "....tail of the caller's text buffer...."...)
		pcopy, bcopy := string(pbuf), string(bbuf)
		p, b := pbuf[:len(p0)], bbuf[:len(b0)]
		x := indent.Bytes(p, b)
		xs := string(x)
		y := indent.String(string(p), string(b))
		if xs != y {
			return "MISMATCH-String-vs-Bytes"
		}
		// a second rendering with the same prefix slice must leave the first one alone
		z := indent.Bytes(p, []byte("second\n"))
		if string(x) != xs || string(pbuf) != pcopy || string(bbuf) != bcopy {
			return "ALIASED-result-or-argument-changed-by-a-later-call"
		}
		if len(p0) > 0 && len(b0) > 0 {
			// writing into a result must not reach the arguments or another result
			for i := range x {
				x[i] = '#'
			}
			if string(pbuf) != pcopy || string(bbuf) != bcopy || string(z) != string(indent.Bytes(p0, []byte("second\n"))) {
				return "ALIASED-result-shares-memory-with-an-argument"
			}
		}
		return enhex([]byte(xs))
	}
}
