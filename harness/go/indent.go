package main

import (
	"errors"
	"fmt"
	"strconv"
	"strings"

	"github.com/openconfig/goyang/pkg/indent"
)

// scripted underlying writer: each call consumes one script entry.
type scripted struct {
	got    []byte
	script []string
	i      int
}

func (s *scripted) Write(p []byte) (int, error) {
	a := s.script[s.i]
	if a == "ok" {
		s.got = append(s.got, p...)
		return len(p), nil
	}
	n, _ := strconv.Atoi(a)
	k := n
	if k < 0 {
		k = 0
	}
	if k > len(p) {
		k = len(p)
	}
	s.got = append(s.got, p[:k]...)
	return n, errors.New("short")
}

func init() {
	// indent <prefix> (<chunk> <acc>)*
	handlers["indent"] = func(t []string) string {
		prefix := string(unhex(t[0]))
		s := &scripted{}
		w := indent.NewWriter(s, prefix)
		var rs []string
		for i := 1; i+1 < len(t); i += 2 {
			s.script = []string{t[i+1]}
			s.i = 0
			buf := unhex(t[i])
			if buf == nil {
				buf = []byte{}
			}
			n, err := w.Write(buf)
			e := "ok"
			if err != nil {
				e = "E"
			}
			rs = append(rs, fmt.Sprintf("%d:%s", n, e))
		}
		r := strings.Join(rs, ",")
		if r == "" {
			r = "-"
		}
		return enhex(s.got) + " " + r
	}
	// indent2 <p1> <p2> (L <chunk> <acc> | U <chunk> <acc> | N)* : upper = NewWriter(lower, p2), lower = NewWriter(s, p1)
	handlers["indent2"] = func(t []string) string {
		p1, p2 := string(unhex(t[0])), string(unhex(t[1]))
		s := &scripted{}
		lower := indent.NewWriter(s, p1)
		upper := indent.NewWriter(lower, p2)
		var rs []string
		for i := 2; i < len(t); {
			if t[i] == "N" {
				upper = indent.NewWriter(lower, p2)
				i++
				continue
			}
			w := lower
			if t[i] == "U" {
				w = upper
			}
			s.script = []string{t[i+2]}
			s.i = 0
			buf := unhex(t[i+1])
			if buf == nil {
				buf = []byte{}
			}
			n, err := w.Write(buf)
			e := "ok"
			if err != nil {
				e = "E"
			}
			rs = append(rs, fmt.Sprintf("%d:%s", n, e))
			i += 3
		}
		r := strings.Join(rs, ",")
		if r == "" {
			r = "-"
		}
		return enhex(s.got) + " " + r
	}
	// bytes <prefix> <text> : both one-shot functions, must agree
	handlers["bytes"] = func(t []string) string {
		p0, b0 := unhex(t[0]), unhex(t[1])
		// the caller's slices sit inside larger buffers: the functions must neither write into them nor hand
		// out results that share their memory
		pbuf := append(append(make([]byte, 0, len(p0)+64), p0...), "....tail of the caller's prefix buffer...."...)
		bbuf := append(append(make([]byte, 0, len(b0)+64), b0...), "....tail of the caller's text buffer...."...)
		pcopy, bcopy := string(pbuf), string(bbuf)
		p, b := pbuf[:len(p0)], bbuf[:len(b0)]
		x := indent.Bytes(p, b)
		xs := string(x)
		y := indent.String(string(p), string(b))
		if xs != y {
			return "MISMATCH-String-vs-Bytes"
		}
		// a second rendering with the same prefix slice must leave the first one alone
		z := indent.Bytes(p, []byte("second\n"))
		if string(x) != xs || string(pbuf) != pcopy || string(bbuf) != bcopy {
			return "ALIASED-result-or-argument-changed-by-a-later-call"
		}
		if len(p0) > 0 && len(b0) > 0 {
			// writing into a result must not reach the arguments or another result
			for i := range x {
				x[i] = '#'
			}
			if string(pbuf) != pcopy || string(bbuf) != bcopy || string(z) != string(indent.Bytes(p0, []byte("second\n"))) {
				return "ALIASED-result-shares-memory-with-an-argument"
			}
		}
		return enhex([]byte(xs))
	}
}
