package main

// C19 validation harness (TESTING, not proof): ties the syntactic access table of gen_locks.go to the
// running code.  Built twice: into the normal harness, and by check/props/c19.py with `go build -race`.
//
//   harness race pipelines <iterations> <seed> [repo]   N goroutines each load+Process a private module set;
//                                                        every canonical dump must equal the sequential one
//   harness race readers   <iterations> <seed> [repo]   one processed set, N goroutines call the read API
//                                                        (ToEntry cache hit, Find of existing paths, Namespace,
//                                                        InstantiatingModule, FindModuleByNamespace incl. simultaneous
//                                                        first-time lookups, ReadOnly, DefaultValues, GetErrors, Print);
//                                                        every result must equal the sequential one
//   harness race errsets   <iterations> <seed> [repo]   independent module sets that each contain error-producing
//                                                        constructs (the same malformed posix-pattern, a bad range, an
//                                                        unknown type, ...) at positions / file names of their own are
//                                                        processed one after the other (random orders) and in parallel;
//                                                        each set's full error list, positions included, must equal what
//                                                        a FRESH PROCESS that handles only this set prints
//                                                        (`harness race errdump <k> 0`, run as a child process)
//   harness race pathsets  <iterations> <seed>          module sets read from FILES in directories of their own, each with a
//                                                        same-named local import, all configured with AddPath from ONE
//                                                        shared search-path list (built with append: spare capacity); the
//                                                        steps AddPath / Read / Process of several pipelines are interleaved
//                                                        step by step (random schedules, one goroutine) and run in parallel;
//                                                        each set's dump must equal that of a fresh process (`race pathdump`)
//   harness race selftest  0 0                          two goroutines race on purpose (is the detector on?)
//
// exit 0 and a line "OK ..." | exit 3 and lines "DIFF ..." | the race detector prints "WARNING: DATA RACE" and,
// with GORACE="halt_on_error=1 exitcode=66", exits 66.  mode+iterations+seed replay a run.

import (
	"bytes"
	"fmt"
	"math/rand"
	"os"
	"os/exec"
	"path/filepath"
	"runtime/debug"
	"sort"
	"strconv"
	"strings"
	"sync"

	"github.com/openconfig/goyang/pkg/yang"
)

func init() {
	specials["race"] = func(args []string) int {
		if len(args) < 3 {
			fmt.Fprintln(os.Stderr, "usage: harness race pipelines|readers|selftest <iterations> <seed> [repo]")
			return 2
		}
		iters, _ := strconv.Atoi(args[1])
		seed, _ := strconv.ParseInt(args[2], 10, 64)
		repo := "/repo"
		if len(args) > 3 {
			repo = args[3]
		}
		switch args[0] {
		case "pipelines":
			return c19Pipelines(iters, seed, repo)
		case "readers":
			return c19Readers(iters, seed, repo)
		case "errsets":
			return c19ErrSets(iters, seed, repo)
		case "pathsets":
			return c19PathSets(iters, seed)
		case "pathdump": // fresh-process baseline: `race pathdump <k> 0 <repo> <root>`
			if len(args) < 5 {
				return 2
			}
			fmt.Print(c19PathPipelineAll(args[4], iters))
			return 0
		case "errdump": // fresh-process baseline of one error-producing set: `race errdump <k> 0`
			ms, errs := c19Load(c19ErrSet(iters))
			fmt.Print(c19Dump(ms, errs))
			return 0
		case "selftest":
			return c19Selftest()
		}
		fmt.Fprintln(os.Stderr, "unknown race mode", args[0])
		return 2
	}
}

func c19RaceBuild() bool {
	if bi, ok := debug.ReadBuildInfo(); ok {
		for _, s := range bi.Settings {
			if s.Key == "-race" && s.Value == "true" {
				return true
			}
		}
	}
	return false
}

func c19Selftest() int {
	x := 0
	var wg sync.WaitGroup
	for i := 0; i < 2; i++ {
		wg.Add(1)
		go func() {
			defer wg.Done()
			for k := 0; k < 1000; k++ {
				x++
			}
		}()
	}
	wg.Wait()
	fmt.Printf("SELFTEST-NO-REPORT race_build=%v x=%d\n", c19RaceBuild(), x)
	return 0
}

// ------------------------------------------------------------------------------- module sets

type c19Src struct{ name, text string }

type c19Set struct {
	label string
	srcs  []c19Src // parsed with ms.Parse (in this order)
	dir   string   // or: files read from this directory ...
	files []string // ... by ms.Read
}

func c19GenSet(k int) c19Set {
	K := strconv.Itoa(k)
	var extra, items strings.Builder
	for i := 0; i < 1+k%4; i++ {
		fmt.Fprintf(&extra, "    container box%d { uses gt:endpoint; leaf size%d { type gt:percent; } }\n", i, i)
	}
	for i := 0; i < 1+k%3; i++ {
		fmt.Fprintf(&items, "      leaf col%d { type gt:dec; }\n", i)
	}
	types := `module gen-types-` + K + ` {
  namespace "urn:gen:types:` + K + `";
  prefix gt;
  typedef percent { type uint8 { range "0..100"; } default ` + strconv.Itoa(10+k) + `; }
  typedef name-str { type string { length "1..64"; pattern "[a-z]+"; } }
  typedef dec { type decimal64 { fraction-digits 2; range "1.00..99.99"; } }
  typedef small { type percent { range "1..` + strconv.Itoa(20+k) + `"; } }
  identity base-id;
  identity child-a { base base-id; }
  identity child-b { base base-id; }
  identity grand-` + K + ` { base child-a; }
  grouping endpoint {
    leaf address { type name-str; }
    leaf port { type uint16 { range "1..1024 | 8080"; } default 8080; }
    container stats { config false; leaf hits { type uint64; } leaf ratio { type small; } }
  }
}`
	main := `module gen-main-` + K + ` {
  namespace "urn:gen:main:` + K + `";
  prefix gm;
  import gen-types-` + K + ` { prefix gt; }
  include gen-sub-` + K + `;
  container top {
    uses gt:endpoint;
    leaf level { type gt:percent; }
    leaf kind { type identityref { base gt:base-id; } }
    leaf e { type enumeration { enum one; enum two { value 5; } enum three; } default two; }
    leaf u { type union { type int8; type gt:name-str; } }
    leaf flags { type bits { bit b0; bit b1 { position 4; } bit b2; } }
    list item {
      key "id";
      leaf id { type string; }
      leaf-list tags { type string; max-elements 4; }
      leaf ref { type leafref { path "../../level"; } }
` + items.String() + `      choice c { case a { leaf a1 { type empty; } } leaf b1 { type boolean; default true; } }
    }
` + extra.String() + `  }
  rpc do-it { input { leaf arg { type string; } } output { leaf res { type gt:dec; } } }
  rpc ping { input { leaf x { type int32; } } }
  notification ev { leaf why { type string; } }
}`
	sub := `submodule gen-sub-` + K + ` {
  belongs-to gen-main-` + K + ` { prefix gm; }
  import gen-types-` + K + ` { prefix gt; }
  container subtop { leaf s { type gt:percent; } uses gt:endpoint; }
}`
	aug := `module gen-aug-` + K + ` {
  namespace "urn:gen:aug:` + K + `";
  prefix ga;
  import gen-main-` + K + ` { prefix gm; }
  import gen-types-` + K + ` { prefix gt; }
  augment "/gm:top" {
    leaf extra { type string; default "x` + K + `"; }
    container more { leaf z { type int64 { range "min..-1 | 1..max"; } } uses gt:endpoint; }
  }
  augment "/gm:top/gm:item" { leaf added { type uint8; } }
  container own { leaf mine { type gt:small; } }
}`
	return c19Set{label: "gen-" + K, srcs: []c19Src{
		{"gen-types-" + K + ".yang", types}, {"gen-sub-" + K + ".yang", sub},
		{"gen-main-" + K + ".yang", main}, {"gen-aug-" + K + ".yang", aug}}}
}

func c19Sets(repo string) []c19Set {
	var sets []c19Set
	for k := 0; k < 6; k++ {
		sets = append(sets, c19GenSet(k))
	}
	td := filepath.Join(repo, "testdata")
	sets = append(sets,
		c19Set{label: "testdata-base+aug", dir: td, files: []string{"base.yang", "aug.yang"}},
		c19Set{label: "testdata-other", dir: td, files: []string{"other.yang"}})
	pd := filepath.Join(repo, "pkg", "yang", "testdata")
	for _, f := range []string{"deviate.yang", "deviate-replace.yang", "deviate-delete.yang", "deviate-notsupported.yang"} {
		sets = append(sets, c19Set{label: "pkgtestdata-" + f, dir: pd, files: []string{f}})
	}
	return sets
}

// the pipeline: new set, load, Process
func c19Load(s c19Set) (*yang.Modules, []error) {
	ms := yang.NewModules()
	for _, src := range s.srcs {
		if err := ms.Parse(src.text, src.name); err != nil {
			return ms, []error{err}
		}
	}
	if s.dir != "" {
		ms.AddPath(s.dir)
		for _, f := range s.files {
			if err := ms.Read(filepath.Join(s.dir, f)); err != nil {
				return ms, []error{err}
			}
		}
	}
	return ms, ms.Process()
}

// ------------------------------------------------------------------------------- canonical dump

func c19Type(b *bytes.Buffer, t *yang.YangType, depth int) {
	if t == nil || depth > 6 {
		return
	}
	fmt.Fprintf(b, " type{%s k=%s def=%q hd=%v fd=%d path=%q opt=%v units=%q base=%v", t.Name, t.Kind, t.Default, t.HasDefault, t.FractionDigits, t.Path,
		t.OptionalInstance, t.Units, t.Base != nil)
	if t.Root != nil {
		fmt.Fprintf(b, " root=%s/%s/self=%v/opt=%v/def=%q/units=%q", t.Root.Name, t.Root.Kind, t.Root == t, t.Root.OptionalInstance, t.Root.Default, t.Root.Units)
	}
	if len(t.POSIXPattern) > 0 {
		fmt.Fprintf(b, " ppat=%q", t.POSIXPattern)
	}
	if len(t.Range) > 0 {
		fmt.Fprintf(b, " range=%s", t.Range)
	}
	if len(t.Length) > 0 {
		fmt.Fprintf(b, " len=%s", t.Length)
	}
	if len(t.Pattern) > 0 {
		fmt.Fprintf(b, " pat=%q", t.Pattern)
	}
	for _, ev := range []*yang.EnumType{t.Enum, t.Bit} {
		if ev != nil {
			nm := ev.NameMap()
			var ns []string
			for n, v := range nm {
				ns = append(ns, fmt.Sprintf("%s=%d", n, v))
			}
			sort.Strings(ns)
			fmt.Fprintf(b, " enum=%v", ns)
		}
	}
	if t.IdentityBase != nil {
		var vs []string
		for _, v := range t.IdentityBase.Values {
			vs = append(vs, v.Name)
		}
		fmt.Fprintf(b, " idbase=%s%v", t.IdentityBase.Name, vs)
	}
	for _, u := range t.Type {
		c19Type(b, u, depth+1)
	}
	b.WriteString("}")
}

func c19Children(e *yang.Entry) ([]string, map[string]*yang.Entry) {
	m := map[string]*yang.Entry{}
	for k, c := range e.Dir {
		m[k] = c
	}
	if e.RPC != nil { // only what exists: Find would create a missing input/output
		if e.RPC.Input != nil {
			m["input"] = e.RPC.Input
		}
		if e.RPC.Output != nil {
			m["output"] = e.RPC.Output
		}
	}
	var names []string
	for k := range m {
		names = append(names, k)
	}
	sort.Strings(names)
	return names, m
}

func c19Entry(b *bytes.Buffer, e *yang.Entry, ind string) {
	fmt.Fprintf(b, "%s%s kind=%s cfg=%s ro=%v key=%q mand=%s def=%v ns=%q desc=%q errs=%d exts=%d aug=%d", ind, e.Name, e.Kind, e.Config,
		e.ReadOnly(), e.Key, e.Mandatory, e.DefaultValues(), e.Namespace().Name, e.Description, len(e.Errors), len(e.Exts), len(e.Augments))
	if e.Prefix != nil {
		fmt.Fprintf(b, " pfx=%s", e.Prefix.Name)
	}
	if e.ListAttr != nil {
		fmt.Fprintf(b, " list{min=%d max=%d ob=%v}", e.ListAttr.MinElements, e.ListAttr.MaxElements, e.ListAttr.OrderedByUser)
	}
	c19Type(b, e.Type, 0)
	for _, id := range e.Identities {
		var vs []string
		for _, v := range id.Values {
			vs = append(vs, v.Name)
		}
		fmt.Fprintf(b, " identity{%s %v}", id.Name, vs)
	}
	b.WriteString("\n")
	names, m := c19Children(e)
	for _, k := range names {
		c19Entry(b, m[k], ind+"  ")
	}
}

func c19Dump(ms *yang.Modules, errs []error) string {
	var b bytes.Buffer
	var es []string
	for _, e := range errs {
		es = append(es, e.Error())
	}
	sort.Strings(es)
	fmt.Fprintf(&b, "errors=%q\n", es)
	if len(errs) > 0 {
		return b.String()
	}
	var keys []string
	for k := range ms.Modules {
		keys = append(keys, "M:"+k)
	}
	for k := range ms.SubModules {
		keys = append(keys, "S:"+k)
	}
	sort.Strings(keys)
	for _, k := range keys {
		var m *yang.Module
		if k[0] == 'M' {
			m = ms.Modules[k[2:]]
		} else {
			m = ms.SubModules[k[2:]]
		}
		fmt.Fprintf(&b, "== %s\n", k)
		c19Entry(&b, yang.ToEntry(m), "")
	}
	return b.String()
}

// ------------------------------------------------------------------------------- mode pipelines

const c19N = 8 // goroutines per iteration

func c19Pipelines(iters int, seed int64, repo string) int {
	sets := c19Sets(repo)
	want := make([]string, len(sets))
	for i, s := range sets {
		ms, errs := c19Load(s)
		want[i] = c19Dump(ms, errs)
		if len(errs) > 0 {
			fmt.Printf("DIFF mode=pipelines seed=%d set=%s does not process cleanly sequentially: %v\n", seed, s.label, errs[0])
			return 3
		}
	}
	// the dump itself is deterministic
	for i, s := range sets {
		ms, errs := c19Load(s)
		if c19Dump(ms, errs) != want[i] {
			fmt.Printf("DIFF mode=pipelines seed=%d set=%s two sequential runs differ\n", seed, s.label)
			return 3
		}
	}
	rnd := rand.New(rand.NewSource(seed))
	var mu sync.Mutex
	var diffs []string
	runs := 0
	for it := 0; it < iters; it++ {
		pick := make([]int, c19N)
		for g := range pick {
			pick[g] = rnd.Intn(len(sets))
		}
		start := make(chan struct{})
		var wg sync.WaitGroup
		for g := 0; g < c19N; g++ {
			wg.Add(1)
			go func(g int) {
				defer wg.Done()
				<-start
				s := sets[pick[g]]
				ms, errs := c19Load(s)
				if got := c19Dump(ms, errs); got != want[pick[g]] {
					mu.Lock()
					diffs = append(diffs, fmt.Sprintf("DIFF mode=pipelines seed=%d iteration=%d goroutine=%d set=%s: dump differs from the sequential one (first difference at byte %d)",
						seed, it, g, s.label, c19FirstDiff(got, want[pick[g]])))
					mu.Unlock()
				}
			}(g)
		}
		close(start)
		wg.Wait()
		runs += c19N
	}
	return c19Finish("pipelines", iters, seed, runs, len(sets), diffs)
}

func c19FirstDiff(a, b string) int {
	n := len(a)
	if len(b) < n {
		n = len(b)
	}
	for i := 0; i < n; i++ {
		if a[i] != b[i] {
			return i
		}
	}
	return n
}

func c19Finish(mode string, iters int, seed int64, runs, sets int, diffs []string) int {
	if len(diffs) > 0 {
		sort.Strings(diffs)
		for i, d := range diffs {
			if i < 5 {
				fmt.Println(d)
			}
		}
		fmt.Printf("FAILED mode=%s iterations=%d seed=%d goroutine_runs=%d diffs=%d race_build=%v\n", mode, iters, seed, runs, len(diffs), c19RaceBuild())
		return 3
	}
	fmt.Printf("OK mode=%s iterations=%d seed=%d goroutine_runs=%d sets=%d goroutines=%d race_build=%v\n", mode, iters, seed, runs, sets, c19N, c19RaceBuild())
	return 0
}

// ------------------------------------------------------------------------------- mode readers

type c19Node struct {
	e     *yang.Entry
	names []string // path below the module entry
	pfx   string   // prefix of the module the tree belongs to
	root  *yang.Entry
}

type c19Query struct {
	op   int
	ctx  *yang.Entry
	arg  string
	want string       // value results
	ptr  *yang.Entry  // pointer results
	mod  *yang.Module // FindModuleByNamespace
}

const (
	opToEntry = iota
	opFind
	opNamespace
	opInstMod
	opFindNS
	opReadOnly
	opDefaults
	opGetErrors
	opPrint
	opEnum
	opCount
)

var c19OpNames = []string{"ToEntry", "Find", "Namespace", "InstantiatingModule", "FindModuleByNamespace", "ReadOnly", "DefaultValues", "GetErrors", "Print", "EnumAccessors"}

func c19Walk(root *yang.Entry, pfx string) []c19Node {
	var out []c19Node
	var rec func(e *yang.Entry, names []string)
	rec = func(e *yang.Entry, names []string) {
		out = append(out, c19Node{e: e, names: append([]string{}, names...), pfx: pfx, root: root})
		ks, m := c19Children(e)
		for _, k := range ks {
			rec(m[k], append(names, k))
		}
	}
	rec(root, nil)
	return out
}

func c19Nodes(ms *yang.Modules) []c19Node {
	var keys []string
	for k := range ms.Modules {
		if !strings.Contains(k, "@") {
			keys = append(keys, k)
		}
	}
	sort.Strings(keys)
	var all []c19Node
	for _, k := range keys {
		m := ms.Modules[k]
		all = append(all, c19Walk(yang.ToEntry(m), m.GetPrefix())...)
	}
	return all
}

var errScribble = fmt.Errorf("scribbled by a reader")

func c19Errs(es []error) string {
	var s []string
	for _, e := range es {
		s = append(s, e.Error())
	}
	return strings.Join(s, "|")
}

// run one query; pointer results are rendered as %p so that everything compares as a string
func c19Run(ms *yang.Modules, q *c19Query) string {
	switch q.op {
	case opToEntry:
		return fmt.Sprintf("%p", yang.ToEntry(q.ctx.Node))
	case opFind:
		return fmt.Sprintf("%p", q.ctx.Find(q.arg))
	case opNamespace:
		return q.ctx.Namespace().Name
	case opInstMod:
		s, err := q.ctx.InstantiatingModule()
		return fmt.Sprintf("%s/%v", s, err)
	case opFindNS:
		m, err := ms.FindModuleByNamespace(q.arg)
		return fmt.Sprintf("%p/%v", m, err)
	case opReadOnly:
		return fmt.Sprint(q.ctx.ReadOnly())
	case opDefaults:
		dv := q.ctx.DefaultValues()
		d, ok := q.ctx.SingleDefaultValue()
		r := fmt.Sprintf("%q/%q/%v", dv, d, ok)
		// what an accessor returns belongs to the caller: use it like a private slice
		for i := range dv {
			dv[i] = "scribbled-by-a-reader"
		}
		sort.Strings(dv)
		return r
	case opGetErrors:
		es := q.ctx.GetErrors()
		r := c19Errs(es)
		for i := range es {
			es[i] = errScribble
		}
		return r
	case opPrint:
		var b bytes.Buffer
		q.ctx.Print(&b)
		return b.String()
	case opEnum:
		var b bytes.Buffer
		var rec func(t *yang.YangType, d int)
		rec = func(t *yang.YangType, d int) {
			if t == nil || d > 6 {
				return
			}
			for _, et := range []*yang.EnumType{t.Enum, t.Bit} {
				if et == nil {
					continue
				}
				names, values, nm, vm := et.Names(), et.Values(), et.NameMap(), et.ValueMap()
				fmt.Fprintf(&b, "%q %v", names, values)
				for _, n := range names {
					fmt.Fprintf(&b, " %s=%d/%s/%v", n, nm[n], vm[nm[n]], et.IsDefined(n))
				}
				for i := range names {
					names[i] = "scribbled"
				}
				for i := range values {
					values[i] = -77
				}
				for k := range nm {
					nm[k] = -77
					delete(vm, -77)
				}
				nm["scribbled"] = 1
				vm[-78] = "scribbled"
			}
			for _, u := range t.Type {
				rec(u, d+1)
			}
		}
		rec(q.ctx.Type, 0)
		return b.String()
	}
	return "?"
}

// queries with their sequential answers.  The answers are computed on the TWIN set (same sources, processed
// separately, queried sequentially): nothing warms up a lazily built structure of ms before the concurrent
// phase, and nothing touches its namespace memo.  Pointer answers are carried over by position in the walk.
// Only ToEntry is called once on ms itself (the claim is the cache hit).
func c19Queries(ms, twin *yang.Modules) ([][]c19Query, int) {
	nodes := c19Nodes(ms)
	tnodes := c19Nodes(twin)
	if len(nodes) != len(tnodes) {
		panic("twin set has a different shape")
	}
	byOp := make([][]c19Query, opCount)
	add := func(q c19Query) { byOp[q.op] = append(byOp[q.op], q) }
	tindex := map[*yang.Entry]int{}
	for i, n := range tnodes {
		tindex[n.e] = i
	}
	ptr := func(e *yang.Entry) string { return fmt.Sprintf("%p", e) }
	// Find on the twin; the query is kept when it finds a node of the walk (an existing node)
	find := func(ci int, path string, mustBe int) {
		tq := c19Query{op: opFind, ctx: tnodes[ci].e, arg: path}
		res := tnodes[ci].e.Find(tq.arg)
		j, ok := tindex[res]
		if res == nil || !ok || (mustBe >= 0 && j != mustBe) {
			return
		}
		add(c19Query{op: opFind, ctx: nodes[ci].e, arg: path, want: ptr(nodes[j].e)})
	}
	nsSeen := map[string]bool{}
	for i, n := range nodes {
		e, te := n.e, tnodes[i].e
		if e.Node != nil {
			q := c19Query{op: opToEntry, ctx: e}
			q.want = c19Run(ms, &q) // first call (may fill the cache); the concurrent calls are hits
			add(q)
		}
		if len(n.names) > 0 {
			abs := "/" + strings.Join(n.names, "/")
			pabs := "/" + n.pfx + ":" + strings.Join(n.names, "/")
			for _, ci := range []int{i - len(n.names), i, (i*7 + 3) % len(nodes), (i*13 + 5) % len(nodes)} {
				if ci < 0 {
					continue
				}
				if nodes[ci].root == n.root {
					find(ci, abs, i) // unprefixed: stays in the tree of the context entry
				}
				// prefixed: only when the prefix, read where the context node was defined, names the target's
				// module (an unknown prefix makes Find record an error on the tree: not an existing-node lookup)
				if tc := tnodes[ci].e; tc.Node != nil {
					if m := yang.FindModuleByPrefix(tc.Node, n.pfx); m != nil && yang.ToEntry(m) == tnodes[i].root {
						find(ci, pabs, i)
					}
				}
			}
			if e.Parent != nil {
				if pi, ok := tindex[te.Parent]; ok {
					last := n.names[len(n.names)-1]
					for _, p := range []string{last, "./" + last, "../" + e.Parent.Name + "/" + last} {
						if e.Parent.Parent == nil && strings.HasPrefix(p, "../") {
							continue
						}
						find(pi, p, i)
					}
					find(i, "..", pi)
				}
			}
		}
		ops := []int{opNamespace, opReadOnly, opDefaults}
		if len(n.names) <= 1 {
			ops = append(ops, opGetErrors, opPrint)
		}
		if e.Type != nil {
			ops = append(ops, opEnum)
		}
		ops = append(ops, opInstMod)
		for _, op := range ops {
			tq := c19Query{op: op, ctx: te}
			add(c19Query{op: op, ctx: e, want: c19Run(twin, &tq)})
		}
		ns := te.Namespace().Name
		if !nsSeen[ns] {
			nsSeen[ns] = true
			tm, terr := twin.FindModuleByNamespace(ns)
			want := fmt.Sprintf("%p/%v", (*yang.Module)(nil), terr)
			if terr == nil {
				want = fmt.Sprintf("%p/%v", ms.Modules[tm.Name], nil)
			}
			add(c19Query{op: opFindNS, arg: ns, want: want})
		}
	}
	// a namespace nobody has: the error path must not cache
	tm, terr := twin.FindModuleByNamespace("urn:nobody")
	add(c19Query{op: opFindNS, arg: "urn:nobody", want: fmt.Sprintf("%p/%v", tm, terr)})
	total := 0
	for _, qs := range byOp {
		total += len(qs)
	}
	return byOp, total
}

func c19Readers(iters int, seed int64, repo string) int {
	sets := c19Sets(repo)
	rnd := rand.New(rand.NewSource(seed))
	var mu sync.Mutex
	var diffs []string
	runs, nq := 0, 0
	opsDone := make([]int, opCount)
	for it := 0; it < iters; it++ {
		si := it % len(sets)
		if it >= len(sets) {
			si = rnd.Intn(len(sets))
		}
		s := sets[si]
		// a fresh processed set per iteration: first-time namespace lookups happen once per set
		ms, errs := c19Load(s)
		twin, errs2 := c19Load(s)
		if len(errs) > 0 || len(errs2) > 0 {
			fmt.Printf("DIFF mode=readers seed=%d set=%s does not process cleanly\n", seed, s.label)
			return 3
		}
		byOp, total := c19Queries(ms, twin)
		nq += total
		opsPer := 40 + total/2
		var rootPrints []*c19Query
		for i := range byOp[opPrint] {
			if byOp[opPrint][i].ctx.Parent == nil {
				rootPrints = append(rootPrints, &byOp[opPrint][i])
			}
		}
		sort.SliceStable(rootPrints, func(a, b int) bool { return len(rootPrints[a].want) > len(rootPrints[b].want) })
		seeds := make([]int64, c19N)
		for g := range seeds {
			seeds[g] = rnd.Int63()
		}
		start := make(chan struct{})
		var wg sync.WaitGroup
		counts := make([][]int, c19N)
		for g := 0; g < c19N; g++ {
			wg.Add(1)
			go func(g int) {
				defer wg.Done()
				r := rand.New(rand.NewSource(seeds[g]))
				cnt := make([]int, opCount)
				counts[g] = cnt
				<-start
				for k := 0; k < opsPer; k++ {
					op := r.Intn(opCount)
					switch { // everybody starts with namespace -> module lookups on the cold memo,
					case k < 4: // then with first-time prints of whole modules
						op = opInstMod + k%2
					case k < 7:
						op = opPrint
					}
					qs := byOp[op]
					if len(qs) == 0 {
						continue
					}
					q := &qs[r.Intn(len(qs))]
					if op == opPrint && k < 7 && len(rootPrints) > 0 {
						q = rootPrints[(k-4)%len(rootPrints)] // all goroutines print the same fresh module now
					}
					cnt[op]++
					if got := c19Run(ms, q); got != q.want {
						mu.Lock()
						diffs = append(diffs, fmt.Sprintf("DIFF mode=readers seed=%d iteration=%d goroutine=%d set=%s op=%s arg=%q: got %.80q want %.80q",
							seed, it, g, s.label, c19OpNames[op], q.arg, got, q.want))
						mu.Unlock()
					}
				}
			}(g)
		}
		close(start)
		wg.Wait()
		for _, c := range counts {
			for op, n := range c {
				opsDone[op] += n
			}
		}
		runs += c19N
		// afterwards the set still answers like the twin, sequentially
		for op := range byOp {
			for i := range byOp[op] {
				q := &byOp[op][i]
				if got := c19Run(ms, q); got != q.want {
					diffs = append(diffs, fmt.Sprintf("DIFF mode=readers seed=%d iteration=%d set=%s op=%s arg=%q: sequential re-check after the concurrent phase differs",
						seed, it, s.label, c19OpNames[op], q.arg))
				}
			}
		}
	}
	var ops []string
	for op, n := range opsDone {
		ops = append(ops, fmt.Sprintf("%s=%d", c19OpNames[op], n))
	}
	fmt.Printf("OPS %s queries=%d\n", strings.Join(ops, " "), nq)
	return c19Finish("readers", iters, seed, runs, len(sets), diffs)
}

// ------------------------------------------------------------------------------- mode errsets

const c19NErrSets = 20

// c19ErrSet: a module set of its own (own file names, own line numbers) whose Process reports errors.
// The sets share the TEXT of the offending constructs -- whatever the library remembers about such a construct
// must not leak from one set into another.
func c19ErrSet(k int) c19Set {
	K := strconv.Itoa(k)
	if k >= 17 {
		// 17: a leaf of every built-in type that can be used bare;  18, 19: the same built-ins with the
		// substatements that do NOT restrict them (require-instance true/false, an extension statement inside
		// the type statement), typedefs that only add default/units to a bare built-in, leafrefs with
		// require-instance.  Error free: the whole dump (every YangType field, the root type too) is compared.
		// A type statement that "adds nothing" must still not touch what the plain users of the built-in see.
		bare := []string{"int8", "int16", "int32", "int64", "uint8", "uint16", "uint32", "uint64", "string", "boolean", "empty", "binary", "instance-identifier"}
		var b strings.Builder
		b.WriteString("module builtin-" + K + " {\n  namespace \"urn:builtin:" + K + "\";\n  prefix b" + K + ";\n  extension note { argument text; }\n")
		for i, t := range bare {
			name := "l" + strconv.Itoa(i)
			switch {
			case k == 17:
				b.WriteString("  leaf " + name + " { type " + t + "; }\n")
			case t == "instance-identifier":
				b.WriteString("  leaf " + name + " { type " + t + " { require-instance " + map[int]string{18: "false", 19: "true"}[k] + "; } }\n")
				b.WriteString("  leaf " + name + "-plain { type " + t + "; }\n")
			case (i+k)%2 == 0:
				b.WriteString("  leaf " + name + " { type " + t + " { b" + K + ":note \"nothing added\"; } description \"d\"; status deprecated; }\n")
			default:
				b.WriteString("  typedef td" + strconv.Itoa(i) + " { type " + t + "; units \"u" + K + "\"; " +
					map[bool]string{true: "", false: "default " + map[string]string{"string": "\"s\"", "boolean": "true", "binary": "\"AA==\""}[t] + "; "}[t == "empty" || (t != "string" && t != "boolean" && t != "binary")] +
					"}\n  leaf " + name + " { type td" + strconv.Itoa(i) + "; }\n  leaf " + name + "-plain { type " + t + "; }\n")
			}
		}
		if k >= 18 {
			b.WriteString("  typedef ii { type instance-identifier { require-instance false; } }\n  leaf via-ii { type ii; }\n" +
				"  leaf target { type uint8; }\n  leaf ref-loose { type leafref { path \"../target\"; require-instance false; } }\n" +
				"  leaf ref-strict { type leafref { path \"../target\"; require-instance true; } }\n  leaf ref-plain { type leafref { path \"../target\"; } }\n")
		}
		b.WriteString("}\n")
		return c19Set{label: "builtin-" + K, srcs: []c19Src{{"builtin-" + K + ".yang", b.String()}}}
	}
	if k >= 13 {
		// 13, 14: plain lists and leaf-lists WITHOUT any bound or order statement (their dump shows the default
		// bounds and the type default of the leaf-list);  15, 16: the same shapes, and a second module that
		// deviates the bounds (add / add then replace / delete).  Error free: the whole dump is compared.
		// What one set does to its lists must not reach the lists of another set.
		base := "module plain-" + K + " {\n  namespace \"urn:plain:" + K + "\";\n  prefix p" + K + ";\n" +
			"  typedef colour { type string; default \"blue\"; }\n" +
			"  list item { key \"id\"; leaf id { type string; } leaf-list notes { type string; } }\n" +
			"  leaf-list colours { type colour; }\n" +
			"  container box { list inner { key \"k\"; leaf k { type uint8; } } leaf-list sizes { type uint16; } }\n" +
			"  list bounded { key \"b\"; min-elements 2; max-elements 9; leaf b { type string; } }\n}\n"
		set := c19Set{label: "plain-" + K, srcs: []c19Src{{"plain-" + K + ".yang", base}}}
		if k >= 15 {
			dev := "module plain-dev-" + K + " {\n  namespace \"urn:plain-dev:" + K + "\";\n  prefix d" + K + ";\n  import plain-" + K + " { prefix p; }\n" +
				"  deviation /p:item { deviate add { max-elements " + strconv.Itoa(k-11) + "; } }\n" +
				"  deviation /p:colours { deviate add { min-elements 1; } }\n" +
				"  deviation /p:box/p:sizes { deviate add { min-elements 2; max-elements 3; } }\n"
			if k == 16 {
				dev += "  deviation /p:box/p:inner { deviate add { min-elements 1; } }\n" +
					"  deviation /p:bounded { deviate replace { min-elements 3; } }\n"
			}
			set.srcs = append(set.srcs, c19Src{"plain-dev-" + K + ".yang", dev + "}\n"})
		}
		return set
	}
	if k >= 7 {
		// 7..9: the load is REJECTED while a statement is being built (unknown substatement after `type`), at
		// nesting depth 0..2;  10..12: a leaf WITHOUT its required type at depth 0..2 (must be rejected too).
		// Whatever the builder keeps between statements must not travel from one load to another.
		d := (k - 7) % 3
		open, close := strings.Repeat("  container c"+K+" {\n", d), strings.Repeat("  }\n", d)
		leaf := "  leaf victim { type string; description \"d\"; no-such-substatement x; }\n"
		if k >= 10 {
			leaf = "  leaf typeless { description \"no type here\"; }\n  typedef alsotypeless { description \"nor here\"; }\n"
		}
		text := "module shape-" + K + " {\n  namespace \"urn:shape:" + K + "\";\n  prefix s" + K + ";\n" + strings.Repeat("\n", k-7) + open + leaf + close + "}\n"
		return c19Set{label: "shape-" + K, srcs: []c19Src{{"shape-" + K + ".yang", text}}}
	}
	pad := strings.Repeat("\n", k)
	ext := "module openconfig-extensions {\n  namespace \"urn:oc-ext\";\n  prefix oc-ext;\n  extension posix-pattern { argument pattern; }\n}\n"
	var body strings.Builder
	body.WriteString("  leaf good { type string { oc-ext:posix-pattern \"^[a-z]+$\"; pattern \"[a-z]+\"; } }\n" + pad)
	body.WriteString("  leaf badpat { type string { oc-ext:posix-pattern \"^[0-9a-f\"; } }\n")
	if k%2 == 0 {
		body.WriteString(pad + "  leaf badpat2 { type string { oc-ext:posix-pattern \"(unclosed\"; } }\n")
	}
	if k%3 != 2 {
		body.WriteString(pad + "  leaf badrange { type uint8 { range \"300..400\"; } }\n")
	}
	if k == 5 { // an error of the typedef stage ends Process before the leaves are looked at: one set only
		body.WriteString("  typedef t" + K + " { type string { length \"5..2\"; } }\n")
	} else {
		body.WriteString("  typedef t" + K + " { type string { length \"1..5\"; } }\n")
	}
	if k%3 != 0 {
		body.WriteString(pad + "  leaf unknown { type no-such-type; }\n")
	}
	body.WriteString("  leaf viatd { type t" + K + "; }\n")
	body.WriteString(pad + "  leaf dflt { type enumeration { enum a; enum b; } default c; }\n")
	if k == 6 { // and one set without any error
		body.Reset()
		body.WriteString("  leaf fine { type string { oc-ext:posix-pattern \"^[0-9a-f]+$\"; } }\n")
	}
	main := "module errset-" + K + " {\n  namespace \"urn:errset:" + K + "\";\n  prefix e" + K + ";\n  import openconfig-extensions { prefix oc-ext; }\n" +
		body.String() + "}\n"
	return c19Set{label: "errset-" + K, srcs: []c19Src{{"ext-of-" + K + ".yang", ext}, {"errset-" + K + ".yang", main}}}
}

func c19ErrSets(iters int, seed int64, repo string) int {
	self, err := os.Executable()
	if err != nil {
		fmt.Println("DIFF mode=errsets cannot find own executable:", err)
		return 3
	}
	sets := make([]c19Set, c19NErrSets)
	want := make([]string, c19NErrSets)
	withErrors := 0
	for k := range sets {
		sets[k] = c19ErrSet(k)
		out, err := exec.Command(self, "race", "errdump", strconv.Itoa(k), "0").Output()
		if err != nil {
			fmt.Printf("DIFF mode=errsets seed=%d fresh process for set %d failed: %v\n", seed, k, err)
			return 3
		}
		want[k] = string(out)
		if !strings.HasPrefix(want[k], "errors=[]") {
			withErrors++
		}
	}
	if withErrors < 12 {
		fmt.Printf("DIFF mode=errsets seed=%d only %d of the sets report errors: the generator lost its point\n", seed, withErrors)
		return 3
	}
	rnd := rand.New(rand.NewSource(seed))
	var mu sync.Mutex
	var diffs []string
	report := func(phase string, it, g, k int, got string) {
		mu.Lock()
		gl, wl := c19FirstDiffLine(got, want[k])
		diffs = append(diffs, fmt.Sprintf("DIFF mode=errsets seed=%d phase=%s iteration=%d goroutine=%d set=%s: got %.300q, a fresh process handling this set alone gives %.300q",
			seed, phase, it, g, sets[k].label, gl, wl))
		mu.Unlock()
	}
	runs := 0
	for it := 0; it < iters; it++ {
		// one after the other, in a random order (what came before must not matter)
		for _, k := range rnd.Perm(c19NErrSets) {
			ms, errs := c19Load(sets[k])
			if got := c19Dump(ms, errs); got != want[k] {
				report("sequence", it, 0, k, got)
			}
			runs++
		}
		// side by side
		pick := make([]int, c19N)
		for g := range pick {
			pick[g] = rnd.Intn(c19NErrSets)
		}
		start := make(chan struct{})
		var wg sync.WaitGroup
		for g := 0; g < c19N; g++ {
			wg.Add(1)
			go func(g int) {
				defer wg.Done()
				<-start
				ms, errs := c19Load(sets[pick[g]])
				if got := c19Dump(ms, errs); got != want[pick[g]] {
					report("parallel", it, g, pick[g], got)
				}
			}(g)
		}
		close(start)
		wg.Wait()
		runs += c19N
	}
	return c19Finish("errsets", iters, seed, runs, c19NErrSets, diffs)
}

// c19FirstDiffLine returns the first line in which two dumps differ (the whole text when they have one line).
func c19FirstDiffLine(a, b string) (string, string) {
	la, lb := strings.Split(a, "\n"), strings.Split(b, "\n")
	for i := 0; i < len(la) || i < len(lb); i++ {
		x, y := "<end>", "<end>"
		if i < len(la) {
			x = la[i]
		}
		if i < len(lb) {
			y = lb[i]
		}
		if x != y {
			return strings.TrimSpace(x), strings.TrimSpace(y)
		}
	}
	return a, b
}

// ------------------------------------------------------------------------------- mode pathsets

const c19NPathSets = 4

// c19PathFiles writes the library directories and one directory per set below root.
func c19PathFiles(root string) error {
	files := map[string]string{
		"lib1/common.yang": "module common {\n  namespace \"urn:common\";\n  prefix c;\n  typedef id { type string { length \"1..8\"; } }\n}\n",
		"lib2/extra.yang":  "module extra {\n  namespace \"urn:extra\";\n  prefix x;\n  grouping g { leaf from-extra { type string; } }\n}\n",
		"lib3/unused.yang": "module unused {\n  namespace \"urn:unused\";\n  prefix u;\n}\n",
	}
	for k := 0; k < c19NPathSets; k++ {
		K := strconv.Itoa(k)
		// every set has a module called "local" next to its main module, different in every set
		files["set"+K+"/local.yang"] = "module local {\n  namespace \"urn:local:of-set-" + K + "\";\n  prefix l;\n" +
			"  typedef t { type uint" + []string{"8", "16", "32", "64"}[k%4] + "; }\n  grouping part { leaf local-of-set-" + K + " { type t; } }\n}\n"
		files["set"+K+"/main-"+K+".yang"] = "module main-" + K + " {\n  namespace \"urn:main:" + K + "\";\n  prefix m;\n" +
			"  import local { prefix l; }\n  import common { prefix c; }\n  import extra { prefix x; }\n" +
			"  container top { uses l:part; uses x:g; leaf id { type c:id; } leaf own-" + K + " { type l:t; } }\n}\n"
	}
	for name, text := range files {
		p := filepath.Join(root, name)
		if err := os.MkdirAll(filepath.Dir(p), 0o755); err != nil {
			return err
		}
		if err := os.WriteFile(p, []byte(text), 0o644); err != nil {
			return err
		}
	}
	return nil
}

// the search path every set is configured with: ONE list, grown with append (capacity left over)
func c19PathLibs(root string) []string {
	libs := make([]string, 0, 8)
	for _, d := range []string{"lib1", "lib2", "lib3"} {
		libs = append(libs, filepath.Join(root, d))
	}
	return libs
}

// one pipeline in three steps
type c19PathPipe struct {
	root string
	k    int
	ms   *yang.Modules
	err  error
}

func (p *c19PathPipe) step(i int, libs []string) string {
	switch i {
	case 0:
		p.ms = yang.NewModules()
		p.ms.AddPath(libs...)
	case 1:
		p.err = p.ms.Read(filepath.Join(p.root, "set"+strconv.Itoa(p.k), "main-"+strconv.Itoa(p.k)+".yang"))
	case 2:
		if p.err != nil {
			return c19Dump(p.ms, []error{p.err})
		}
		return c19Dump(p.ms, p.ms.Process())
	}
	return ""
}

func c19PathPipelineAll(root string, k int) string {
	p := &c19PathPipe{root: root, k: k}
	libs := c19PathLibs(root)
	p.step(0, libs)
	p.step(1, libs)
	return p.step(2, libs)
}

func c19PathSets(iters int, seed int64) int {
	self, err := os.Executable()
	if err != nil {
		fmt.Println("DIFF mode=pathsets cannot find own executable:", err)
		return 3
	}
	root, err := os.MkdirTemp("", "c19paths")
	if err != nil {
		fmt.Println("DIFF mode=pathsets cannot create a temporary directory:", err)
		return 3
	}
	defer os.RemoveAll(root)
	if err := c19PathFiles(root); err != nil {
		fmt.Println("DIFF mode=pathsets cannot write the module files:", err)
		return 3
	}
	want := make([]string, c19NPathSets)
	for k := range want {
		cmd := exec.Command(self, "race", "pathdump", strconv.Itoa(k), "0", "-", root)
		cmd.Dir = root // the current directory is searched first: keep it free of .yang files
		out, err := cmd.Output()
		if err != nil || !strings.HasPrefix(string(out), "errors=[]") || !strings.Contains(string(out), "local-of-set-"+strconv.Itoa(k)) {
			fmt.Printf("DIFF mode=pathsets seed=%d fresh process for set %d failed or did not process cleanly: %v %.300q\n", seed, k, err, out)
			return 3
		}
		want[k] = string(out)
	}
	if err := os.Chdir(root); err != nil {
		fmt.Println("DIFF mode=pathsets chdir:", err)
		return 3
	}
	rnd := rand.New(rand.NewSource(seed))
	var mu sync.Mutex
	var diffs []string
	report := func(phase, sched string, it, g, k int, got string) {
		gl, wl := c19FirstDiffLine(got, want[k])
		mu.Lock()
		diffs = append(diffs, fmt.Sprintf("DIFF mode=pathsets seed=%d phase=%s iteration=%d goroutine=%d set=%d schedule=%s: got %.200q, a fresh process handling this set alone gives %.200q",
			seed, phase, it, g, k, sched, gl, wl))
		mu.Unlock()
	}
	runs := 0
	for it := 0; it < iters; it++ {
		// step by step: 2 or 3 pipelines, a random interleaving of their steps, all from the same list
		libs := c19PathLibs(root)
		np := 2 + rnd.Intn(2)
		pipes := make([]*c19PathPipe, np)
		next := make([]int, np)
		var order []int
		for i, k := range rnd.Perm(c19NPathSets)[:np] {
			pipes[i] = &c19PathPipe{root: root, k: k}
			order = append(order, i, i, i)
		}
		rnd.Shuffle(len(order), func(a, b int) { order[a], order[b] = order[b], order[a] })
		if it == 0 { // the textbook schedule first: A.AddPath B.AddPath A.Read B.Read A.Process B.Process
			order = order[:0]
			for s := 0; s < 3; s++ {
				for i := range pipes {
					order = append(order, i)
				}
			}
		}
		var sched []string
		for _, i := range order {
			sched = append(sched, fmt.Sprintf("%d.%d", pipes[i].k, next[i]))
		}
		for _, i := range order {
			out := pipes[i].step(next[i], libs)
			if next[i] == 2 && out != want[pipes[i].k] {
				report("steps", strings.Join(sched, ","), it, 0, pipes[i].k, out)
			}
			next[i]++
		}
		runs += np
		// in parallel, again from one list
		libs = c19PathLibs(root)
		pick := make([]int, c19N)
		for g := range pick {
			pick[g] = rnd.Intn(c19NPathSets)
		}
		start := make(chan struct{})
		var wg sync.WaitGroup
		for g := 0; g < c19N; g++ {
			wg.Add(1)
			go func(g int) {
				defer wg.Done()
				<-start
				p := &c19PathPipe{root: root, k: pick[g]}
				p.step(0, libs)
				p.step(1, libs)
				if out := p.step(2, libs); out != want[pick[g]] {
					report("parallel", "-", it, g, pick[g], out)
				}
			}(g)
		}
		close(start)
		wg.Wait()
		runs += c19N
	}
	return c19Finish("pathsets", iters, seed, runs, c19NPathSets, diffs)
}
