package main

// C16 (third sentence, resolver errors): a history of loads, Process calls and ToEntry conversions on ONE yang.Modules,
// every error string kept in full and in the order the library returned it.
//
//   c16hist <ops> <n> (<namehex> <texthex>){n}
//     ops, comma separated: L<i> Modules.Parse(text i, name i); P Process; E ToEntry on every loaded module (sorted by
//     name, submodules after modules) WITHOUT Process, errors collected with Entry.GetErrors
//   output: JSON {"loads":[...], "steps":[{"op":"P"|"E","errors":[...]}...]}

import (
	"encoding/json"
	"sort"
	"strconv"
	"strings"

	"github.com/openconfig/goyang/pkg/yang"
)

type c16Step struct {
	Op     string   `json:"op"`
	Errors []string `json:"errors"`
}

func init() {
	handlers["c16hist"] = func(toks []string) string {
		ops := toks[0]
		n, _ := strconv.Atoi(toks[1])
		names := make([]string, n)
		texts := make([]string, n)
		for i := 0; i < n; i++ {
			names[i] = string(unhex(toks[2+2*i]))
			texts[i] = string(unhex(toks[3+2*i]))
		}
		ms := yang.NewModules()
		loads := []string{}
		steps := []c16Step{}
		for _, op := range strings.Split(ops, ",") {
			switch {
			case op == "P":
				st := c16Step{Op: "P", Errors: []string{}}
				for _, e := range ms.Process() {
					st.Errors = append(st.Errors, e.Error())
				}
				steps = append(steps, st)
			case op == "E":
				st := c16Step{Op: "E", Errors: []string{}}
				var mods []*yang.Module
				for _, m := range ms.Modules {
					mods = append(mods, m)
				}
				sort.Slice(mods, func(i, j int) bool { return mods[i].Name < mods[j].Name })
				var subs []*yang.Module
				for _, m := range ms.SubModules {
					subs = append(subs, m)
				}
				sort.Slice(subs, func(i, j int) bool { return subs[i].Name < subs[j].Name })
				seen := map[*yang.Module]bool{}
				for _, m := range append(mods, subs...) {
					if seen[m] {
						continue // ms.Modules holds a module under "name" and "name@revision"
					}
					seen[m] = true
					for _, e := range yang.ToEntry(m).GetErrors() {
						st.Errors = append(st.Errors, e.Error())
					}
				}
				steps = append(steps, st)
			case strings.HasPrefix(op, "L"):
				i, _ := strconv.Atoi(op[1:])
				if err := ms.Parse(texts[i], names[i]); err != nil {
					loads = append(loads, "err: "+err.Error())
				} else {
					loads = append(loads, "ok")
				}
			}
		}
		b, err := json.Marshal(map[string]interface{}{"loads": loads, "steps": steps})
		if err != nil {
			return "BROKEN json: " + err.Error()
		}
		return string(b)
	}
}
