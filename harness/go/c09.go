package main

// C09: read-then-scribble oracle on the containers a resolved type hands out.
//
//   c09scribble <n> (<namehex> <texthex>){n}
//     load the texts, Process, dump the resolved type of every leaf (A); then take NameMap() and ValueMap() of the
//     Enum and Bit sets of every leaf type (union members included), add a synthetic member to and delete a member
//     from each returned map; dump again (B).  The maps are the caller's: B must equal A.
//   output: "errors" (Process failed) | "same <leaves> <maps>" | "changed <path>: <before> => <after>"

import (
	"encoding/json"
	"fmt"
	"sort"
	"strconv"

	"github.com/openconfig/goyang/pkg/yang"
)

type c09leaf struct {
	path string
	e    *yang.Entry
}

func c09collect(e *yang.Entry, path string, depth int, out *[]c09leaf) {
	if e == nil || depth > 60 {
		return
	}
	if e.Kind == yang.LeafEntry && e.Type != nil {
		*out = append(*out, c09leaf{path, e})
	}
	var keys []string
	for k := range e.Dir {
		keys = append(keys, k)
	}
	sort.Strings(keys)
	for _, k := range keys {
		c09collect(e.Dir[k], path+"/"+k, depth+1, out)
	}
	if e.RPC != nil {
		c09collect(e.RPC.Input, path+"/input", depth+1, out)
		c09collect(e.RPC.Output, path+"/output", depth+1, out)
	}
}

func c09scribbleType(t *yang.YangType, depth int, n *int) {
	if t == nil || depth > 8 {
		return
	}
	for _, s := range []*yang.EnumType{t.Enum, t.Bit} {
		if s == nil {
			continue
		}
		nm := s.NameMap()
		for k := range nm {
			delete(nm, k)
			break
		}
		nm["zz-scribbled"] = 4242
		vm := s.ValueMap()
		for k := range vm {
			delete(vm, k)
			break
		}
		vm[4242] = "zz-scribbled"
		*n += 2
	}
	for _, u := range t.Type {
		c09scribbleType(u, depth+1, n)
	}
}

func runC09Scribble(toks []string) string {
	n, _ := strconv.Atoi(toks[0])
	ms := yang.NewModules()
	for i := 0; i < n; i++ {
		if err := ms.Parse(string(unhex(toks[2+2*i])), string(unhex(toks[1+2*i]))); err != nil {
			return "errors"
		}
	}
	if errs := ms.Process(); len(errs) != 0 {
		return "errors"
	}
	var names []string
	for k := range ms.Modules {
		names = append(names, k)
	}
	sort.Strings(names)
	var leaves []c09leaf
	for _, k := range names {
		c09collect(yang.ToEntry(ms.Modules[k]), "/"+k, 0, &leaves)
	}
	dump := func() []string {
		var out []string
		for _, l := range leaves {
			b, _ := json.Marshal(dumpType(l.e.Type, 0))
			out = append(out, string(b))
		}
		return out
	}
	before := dump()
	maps := 0
	for _, l := range leaves {
		c09scribbleType(l.e.Type, 0, &maps)
	}
	after := dump()
	for i := range leaves {
		if before[i] != after[i] {
			return fmt.Sprintf("changed %s: %s => %s", leaves[i].path, before[i], after[i])
		}
	}
	return fmt.Sprintf("same %d %d", len(leaves), maps)
}

func init() {
	handlers["c09scribble"] = runC09Scribble
}
