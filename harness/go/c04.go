package main

// C04: histories with cache clearing.  Same protocol and output as the `process` command of resolve.go, plus the op
//   C   ms.ClearEntryCache()
// (a dump is taken after every P; what ToEntry hands out after the last P must be the processed trees).
//
//   process04 <opts> <ops> <n> (<namehex> <texthex>){n}

import (
	"encoding/json"
	"os"
	"path/filepath"
	"strconv"
	"strings"

	"github.com/openconfig/goyang/pkg/yang"
)

func runProcess04(toks []string) string {
	opts, ops := toks[0], toks[1]
	n, _ := strconv.Atoi(toks[2])
	names := make([]string, n)
	texts := make([]string, n)
	for i := 0; i < n; i++ {
		names[i] = string(unhex(toks[3+2*i]))
		texts[i] = string(unhex(toks[4+2*i]))
	}
	ms := yang.NewModules()
	ms.ParseOptions.IgnoreSubmoduleCircularDependencies = strings.Contains(opts, "c")
	ms.ParseOptions.DeviateOptions.IgnoreDeviateNotSupported = strings.Contains(opts, "n")
	out := &procOut{Loads: []string{}, Runs: []*runDump{}}
	pathDir := ""
	defer func() {
		if pathDir != "" {
			os.RemoveAll(pathDir)
		}
	}()
	for _, op := range strings.Split(ops, ",") {
		switch {
		case op == "C":
			ms.ClearEntryCache()
		case strings.HasPrefix(op, "D"):
			i, _ := strconv.Atoi(op[1:])
			if pathDir == "" {
				d, err := os.MkdirTemp("", "verifpath04")
				if err != nil {
					return "BROKEN tempdir: " + err.Error()
				}
				pathDir = d
				ms.AddPath(pathDir)
			}
			if err := os.WriteFile(filepath.Join(pathDir, filepath.Base(names[i])), []byte(texts[i]), 0o644); err != nil {
				return "BROKEN write: " + err.Error()
			}
		case op == "P":
			run := &runDump{Errors: []string{}, ErrPos: []string{}, TreeViol: []string{}, FindViol: []string{}}
			errs := ms.Process()
			for _, e := range errs {
				run.Errors = append(run.Errors, e.Error())
				run.ErrPos = append(run.ErrPos, "")
			}
			if len(errs) == 0 {
				dumpModules(ms, run, false)
			}
			out.Runs = append(out.Runs, run)
		case strings.HasPrefix(op, "L"):
			i, _ := strconv.Atoi(op[1:])
			if err := ms.Parse(texts[i], names[i]); err != nil {
				out.Loads = append(out.Loads, "err: "+strings.SplitN(err.Error(), "\n", 2)[0])
			} else {
				out.Loads = append(out.Loads, "ok")
			}
		}
	}
	b, err := json.Marshal(out)
	if err != nil {
		return "BROKEN json: " + err.Error()
	}
	return string(b)
}

func init() {
	handlers["process04"] = runProcess04
}
