package main

// C16, builder leg: front <hex text>
//
// Modules.Parse(text, name) on a fresh module set: yang.Parse, then the AST builder and checkAdd on every
// top-level statement.  One line, the projection the property talks about (never the wording beyond the fixed
// format strings of ast.go / modules.go that tell the error sites apart):
//
//   syntax <positions>        yang.Parse rejects the text (positions as the `parse` command prints them)
//   ok
//   err <class> <line>:<col>  the error starts with "<name>:<line>:<col>: "
//   err <class> nopos         it does not
//
// class, by the format string of the error site: unknown-statement ("%s: unknown statement: %s"),
// unknown-field ("%s: unknown %s field: %s" -- two sites: the unknown substatement, and the substatement required
// by the other keyword), no-ext ("%s: no extension function"), missing ("%s: missing required %s field: %s" --
// two sites: required, required for this keyword), already-set (keyword + ": already set"), not-module
// ("not a module or submodule: ..."), duplicate (Modules.Parse's test between the statements of one text; not
// modelled, the generator avoids it), other:<message> for anything else.

import (
	"regexp"
	"strings"

	"github.com/openconfig/goyang/pkg/yang"
)

var frontPosRe = regexp.MustCompile(`^QQ\.yang:(-?\d+):(-?\d+): `)

var frontClasses = []struct {
	class string
	re    *regexp.Regexp
}{
	{"unknown-field", regexp.MustCompile(`^unknown \S+ field: `)},
	{"unknown-statement", regexp.MustCompile(`^unknown statement: `)},
	{"no-ext", regexp.MustCompile(`^no extension function$`)},
	{"missing", regexp.MustCompile(`^missing required \S+ field: `)},
	{"already-set", regexp.MustCompile(`^\S+: already set$`)},
	{"not-module", regexp.MustCompile(`^not a module or submodule: `)},
	{"duplicate", regexp.MustCompile(`^duplicate `)},
}

func frontClass(msg string) string {
	for _, c := range frontClasses {
		if c.re.MatchString(msg) {
			return c.class
		}
	}
	return "other:" + strings.ReplaceAll(msg, "\n", "\\n")
}

func init() {
	handlers["front"] = func(toks []string) string {
		text := string(unhex(toks[0]))
		ms := yang.NewModules()
		err := ms.Parse(text, parseFile)
		if err == nil {
			return "ok"
		}
		msg := err.Error()
		// which stage: the text front end alone
		if _, perr := yang.Parse(text, parseFile); perr != nil {
			if perr.Error() != msg {
				return "BROKEN Modules.Parse and yang.Parse report different syntax errors"
			}
			return "syntax " + errPositions(msg)
		}
		pos := "nopos"
		if m := frontPosRe.FindStringSubmatch(msg); m != nil {
			pos = m[1] + ":" + m[2]
			msg = msg[len(m[0]):]
		}
		return "err " + frontClass(msg) + " " + pos
	}
}
