// Command harness runs the implementation (/repo, current working tree) on the cases the
// checker generates.  Line protocol: one case per stdin line "<tok> <tok> ...", one
// observation per stdout line.  Byte strings are hex ("-" = empty).
package main

import (
	"bufio"
	"encoding/hex"
	"fmt"
	"os"
	"runtime/debug"
	"strings"
	"time"
)

type handler func(toks []string) string

var handlers = map[string]handler{}

func unhex(s string) []byte {
	if s == "-" {
		return nil
	}
	b, err := hex.DecodeString(s)
	if err != nil {
		panic("bad hex " + s)
	}
	return b
}

func enhex(b []byte) string {
	if len(b) == 0 {
		return "-"
	}
	return hex.EncodeToString(b)
}

func safe(h handler, toks []string) (out string) {
	defer func() {
		if r := recover(); r != nil {
			out = fmt.Sprintf("PANIC:%v", r)
			// where in goyang: the first frames of the stack that lie in the library
			n := 0
			for _, l := range strings.Split(string(debug.Stack()), "\n") {
				if i := strings.Index(l, "/pkg/yang/"); i >= 0 && n < 4 {
					out += " @" + strings.Fields(l[i+len("/pkg/yang/"):])[0]
					n++
				}
			}
			out = strings.ReplaceAll(out, "\n", " ")
		}
	}()
	return h(toks)
}

func main() {
	if len(os.Args) < 2 {
		fmt.Fprintln(os.Stderr, "usage: harness run (cases on stdin, first token = command) or harness SPECIAL args")
		os.Exit(2)
	}
	cmd := os.Args[1]
	if special, ok := specials[cmd]; ok {
		os.Exit(special(os.Args[2:]))
	}
	if cmd != "run" {
		fmt.Fprintln(os.Stderr, "unknown command", cmd)
		os.Exit(2)
	}
	in := bufio.NewReaderSize(os.Stdin, 1<<20)
	out := bufio.NewWriterSize(os.Stdout, 1<<20)
	defer out.Flush()
	lastFlush := time.Now()
	for {
		line, err := in.ReadString('\n')
		if line == "" && err != nil {
			break
		}
		line = strings.TrimRight(line, "\n")
		toks := strings.Fields(line)
		if len(toks) == 0 {
			fmt.Fprintln(out, "")
		} else if h, ok := handlers[toks[0]]; ok {
			fmt.Fprintln(out, safe(h, toks[1:]))
		} else {
			fmt.Fprintln(out, "unknown-cmd")
		}
		// let the caller see progress: it kills a harness that produces no output for too long
		if time.Since(lastFlush) > 200*time.Millisecond {
			out.Flush()
			lastFlush = time.Now()
		}
		if err != nil {
			break
		}
	}
}

// specials are whole-program subcommands (translator, race stress, ...).
var specials = map[string]func(args []string) int{}
