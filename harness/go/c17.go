package main

// C17: Entry.Find for a list of (start position, path) queries on one processed module set.
//
//   find17 <opts> <n> (<namehex> <texthex>){n} <nq> (<start module hex> <nsteps> step* <path hex>){nq}
//     a name token written @<hex> puts the text into a directory of the search path (Modules.AddPath) instead of
//     parsing it: the module is then found only while Process resolves imports and includes
//     a name token written !<hex>: the tree of that module is obtained with Modules.GetModule(name) after Process
//     (lookups that lead into it must return the nodes of THAT tree)
//     opts: c, n as for process; l = after Process and after the module trees have been collected, load an unrelated
//     module, a rejected text and a missing file WITHOUT calling Process again, then run the queries;
//     b<stride> (last option) = big module set: no dump after the queries ("runs" carries only the errors), instead the
//     oracle find17Sweep over the trees, reported as "sweepviol" (violated lookups), "sweepcount", "nodes"
//     step = C<hex> (child of Dir) | I (RPC.Input) | O (RPC.Output); the start module may be a submodule
//   output: JSON {"loads":[..], "runs":[dump after the queries], "find":[r1,...]}
//     r = "<ctx>|<res>": ctx = name of the (sub)module whose text defines the start node (RootNode(e.Node), the
//     context Find resolves prefixes in), res = "-" (nil) | "nostart" | "<module hex>/<step>/...:<name hex>:<kind>"
//     where the position is recovered by walking Parent pointers and testing pointer identity at every level
//     ("?" for a level whose parent does not hold the node).
// The queries run in order on the same entries (Find creates rpc input/output on demand).

import (
	"encoding/json"
	"os"
	"path/filepath"
	"sort"
	"strconv"
	"strings"

	"github.com/openconfig/goyang/pkg/yang"
)

type find17Out struct {
	Loads []string   `json:"loads"`
	Runs  []*runDump `json:"runs"`
	Find  []string   `json:"find"`
	// option b (big module sets: no dump): the implementation-side oracle of find17Sweep
	SweepViol  []string `json:"sweepviol,omitempty"`
	SweepCount int      `json:"sweepcount,omitempty"`
	Nodes      int      `json:"nodes,omitempty"`
}

// find17Sweep checks the property's text directly on the trees the caller holds (roots: ToEntry of every module,
// collected once after Process): for every node t of the tree of a module -- every stride-th one among the children of
// directories with more than 64 children --, reached by walking Dir and RPC.Input/Output from the root, the absolute
// path of t written with the module's own prefix (input/output spelled out) is looked up from the root entry, from t
// itself and from another child of the root (the latter two when written in the module's own text, so that the
// module's own prefix is the one that applies) and from the root entries of up to two modules that import the module,
// with the prefix they gave it; the result must be t (pointer identity).  From t, as many ".."
// as t is deep must lead to the root entry the walk started from, and "../<name>" to t again.
const find17SweepMax = 12

func find17Sweep(ms *yang.Modules, byName map[string]*yang.Entry, stride int, out *find17Out) {
	bad := func(s string) {
		if len(out.SweepViol) < find17SweepMax {
			out.SweepViol = append(out.SweepViol, s)
		}
	}
	show := func(e *yang.Entry) string {
		if e == nil {
			return "nothing"
		}
		return "a " + kindName(e.Kind) + " " + e.Name + " (another node)"
	}
	var names []string
	for n := range ms.Modules {
		if !strings.Contains(n, "@") {
			names = append(names, n)
		}
	}
	sort.Strings(names)
	for _, mn := range names {
		m := ms.Modules[mn]
		root := byName[m.Name]
		if root == nil || m.Prefix == nil {
			continue
		}
		pfx := m.Prefix.Name
		var other *yang.Entry
		type importer struct {
			name, prefix string
			root         *yang.Entry
		}
		var importers []importer
		for _, fn := range names {
			for _, i := range ms.Modules[fn].Import {
				if i.Module == m && i.Prefix != nil && byName[fn] != nil && fn != mn && len(importers) < 2 && yang.FindModuleByPrefix(ms.Modules[fn], i.Prefix.Name) == m {
					importers = append(importers, importer{fn, i.Prefix.Name, byName[fn]})
					break
				}
			}
		}
		var walk func(e *yang.Entry, parts []string)
		walk = func(e *yang.Entry, parts []string) {
			out.Nodes++
			if len(out.SweepViol) >= find17SweepMax {
				return
			}
			if len(parts) > 0 {
				p := "/" + strings.Join(parts, "/")
				starts := []*yang.Entry{root}
				for _, im := range importers {
					// from the root entry of a module that imports m, with the prefix it gave to m
					var ps []string
					for _, x := range parts {
						ps = append(ps, im.prefix+strings.TrimPrefix(x, pfx))
					}
					ip := "/" + strings.Join(ps, "/")
					out.SweepCount++
					if got := im.root.Find(ip); got != e {
						bad("Find(" + ip + ") from the root entry of module " + im.name + " returned " + show(got))
					}
				}
				if e.Node != nil && yang.RootNode(e.Node) == m {
					starts = append(starts, e)
				}
				if other != nil {
					starts = append(starts, other)
				}
				for _, s := range starts {
					out.SweepCount++
					if got := s.Find(p); got != e {
						bad("Find(" + p + ") from " + s.Path() + " of module " + mn + " returned " + show(got))
						break
					}
				}
				out.SweepCount++
				up := strings.TrimSuffix(strings.Repeat("../", len(parts)), "/")
				if got := e.Find(up); got != root {
					bad("Find(" + up + ") from " + p + " of module " + mn + " returned " + show(got) + ", not the root entry of the tree")
				}
				if e.Parent != nil && e.Parent.RPC == nil {
					out.SweepCount++
					if got := e.Find("../" + e.Name); got != e {
						bad("Find(../" + e.Name + ") from " + p + " of module " + mn + " returned " + show(got))
					}
				}
			}
			if e.RPC != nil {
				if e.RPC.Input != nil {
					walk(e.RPC.Input, append(append([]string{}, parts...), pfx+":input"))
				}
				if e.RPC.Output != nil {
					walk(e.RPC.Output, append(append([]string{}, parts...), pfx+":output"))
				}
			}
			var keys []string
			for k := range e.Dir {
				keys = append(keys, k)
			}
			sort.Strings(keys)
			for i, k := range keys {
				if len(keys) > 64 && stride > 1 && i%stride != 0 && i != len(keys)-1 {
					out.Nodes++
					continue
				}
				c := e.Dir[k]
				if o := e.Dir[keys[len(keys)-1-i]]; len(parts) == 0 && other == nil && o != c && o.Node != nil && yang.RootNode(o.Node) == m {
					other = o
				}
				walk(c, append(append([]string{}, parts...), pfx+":"+k))
			}
		}
		walk(root, nil)
	}
}

func find17Pos(e *yang.Entry, roots map[*yang.Entry]string) string {
	var steps []string
	for e.Parent != nil {
		p := e.Parent
		switch {
		case p.RPC != nil && p.RPC.Input == e:
			steps = append([]string{"I"}, steps...)
		case p.RPC != nil && p.RPC.Output == e:
			steps = append([]string{"O"}, steps...)
		case p.Dir != nil && p.Dir[e.Name] == e:
			steps = append([]string{"C" + strings.TrimPrefix(enhex([]byte(e.Name)), "-")}, steps...)
		default:
			steps = append([]string{"?"}, steps...)
		}
		e = p
	}
	name, ok := roots[e]
	if !ok {
		return "?" + strings.Join(append([]string{""}, steps...), "/")
	}
	return strings.Join(append([]string{enhex([]byte(name))}, steps...), "/")
}

func runFind17(toks []string) string {
	opts := toks[0]
	n, _ := strconv.Atoi(toks[1])
	ms := yang.NewModules()
	ms.ParseOptions.IgnoreSubmoduleCircularDependencies = strings.Contains(opts, "c")
	ms.ParseOptions.DeviateOptions.IgnoreDeviateNotSupported = strings.Contains(opts, "n")
	out := &find17Out{Loads: []string{}, Runs: []*runDump{}, Find: []string{}}
	pos := 2
	viaGet := ""
	pathDir := ""
	defer func() {
		if pathDir != "" {
			os.RemoveAll(pathDir)
		}
	}()
	for i := 0; i < n; i++ {
		onPath := strings.HasPrefix(toks[pos], "@")
		if strings.HasPrefix(toks[pos], "!") {
			viaGet = strings.TrimSuffix(string(unhex(toks[pos][1:])), ".yang")
			toks[pos] = toks[pos][1:]
		}
		name, text := string(unhex(strings.TrimPrefix(toks[pos], "@"))), string(unhex(toks[pos+1]))
		pos += 2
		if onPath {
			// not loaded by the caller: only found on the search path while Process resolves imports and includes
			if pathDir == "" {
				d, err := os.MkdirTemp("", "verifc17path")
				if err != nil {
					return "BROKEN tempdir: " + err.Error()
				}
				pathDir = d
				ms.AddPath(pathDir)
			}
			if err := os.WriteFile(filepath.Join(pathDir, filepath.Base(name)), []byte(text), 0o644); err != nil {
				return "BROKEN write: " + err.Error()
			}
			out.Loads = append(out.Loads, "ok")
			continue
		}
		if err := ms.Parse(text, name); err != nil {
			out.Loads = append(out.Loads, "err: "+strings.SplitN(err.Error(), "\n", 2)[0])
		} else {
			out.Loads = append(out.Loads, "ok")
		}
	}
	run := &runDump{Errors: []string{}, ErrPos: []string{}, TreeViol: []string{}, FindViol: []string{}}
	out.Runs = append(out.Runs, run)
	for _, e := range ms.Process() {
		run.Errors = append(run.Errors, e.Error())
	}
	if len(run.Errors) == 0 {
		roots := map[*yang.Entry]string{}
		byName := map[string]*yang.Entry{}
		var got *yang.Entry
		if viaGet != "" {
			// the tree of this module is the one Modules.GetModule hands out (it processes once more), the others are
			// taken from ToEntry afterwards
			g, errs := ms.GetModule(viaGet)
			if len(errs) != 0 || g == nil {
				run.Errors = append(run.Errors, "GetModule failed")
			}
			got = g
		}
		for _, mm := range []map[string]*yang.Module{ms.Modules, ms.SubModules} {
			for _, m := range mm {
				e := yang.ToEntry(m)
				if got != nil && m.Name == viaGet && mm[viaGet] == m {
					e = got
				}
				roots[e] = m.Name
				byName[m.Name] = e
			}
		}
		if strings.Contains(opts, "l") {
			// late loads WITHOUT another Process: the trees collected above are the ones the caller holds; an
			// unrelated module, a rejected text and a missing file must not un-process them
			ms.Parse("module zz-late-load { namespace \"urn:zz-late-load\"; prefix zzl; container late { leaf l { type string; } } }", "zz-late-load.yang")
			ms.Parse("module zz-late-bad { namespace \"urn:zz-late-bad\"; prefix zzb; leaf l { type string; } } frobnicate x;", "zz-late-bad.yang")
			ms.Parse("module zz-late-broken { namespace ; ", "zz-late-broken.yang")
			ms.Read("zz-no-such-module")
		}
		nq, _ := strconv.Atoi(toks[pos])
		pos++
		if strings.Contains(opts, "b") {
			// big module set: the sweep comes first (it looks up existing nodes only, so it creates nothing); when it
			// fails all along, the queries are not run any more
			stride := 1
			if i := strings.Index(opts, "b"); i+1 < len(opts) {
				if v, err := strconv.Atoi(opts[i+1:]); err == nil && v > 0 {
					stride = v
				}
			}
			find17Sweep(ms, byName, stride, out)
			if len(out.SweepViol) >= find17SweepMax {
				nq = 0
			}
		}
		for q := 0; q < nq; q++ {
			e := byName[string(unhex(toks[pos]))]
			ns, _ := strconv.Atoi(toks[pos+1])
			pos += 2
			for i := 0; i < ns; i++ {
				t := toks[pos]
				pos++
				switch {
				case e == nil:
				case t == "I":
					if e.RPC != nil {
						e = e.RPC.Input
					} else {
						e = nil
					}
				case t == "O":
					if e.RPC != nil {
						e = e.RPC.Output
					} else {
						e = nil
					}
				default:
					h := t[1:]
					if h == "" {
						h = "-"
					}
					e = e.Dir[string(unhex(h))]
				}
			}
			path := string(unhex(toks[pos]))
			pos++
			if e == nil {
				out.Find = append(out.Find, "?|nostart")
				continue
			}
			ctx := "?"
			if e.Node != nil {
				if r := yang.RootNode(e.Node); r != nil {
					ctx = r.Name
				}
			}
			got := e.Find(path)
			if got == nil {
				out.Find = append(out.Find, ctx+"|-")
			} else {
				out.Find = append(out.Find, ctx+"|"+find17Pos(got, roots)+":"+enhex([]byte(got.Name))+":"+kindName(got.Kind))
			}
		}
		if !strings.Contains(opts, "b") {
			dumpModules(ms, run, false)
		}
	}
	b, err := json.Marshal(out)
	if err != nil {
		return "BROKEN json: " + err.Error()
	}
	return string(b)
}

// findrev <n> (<file name hex> <text hex>){n} <nq> (<start module key hex> <nsteps> step* <path hex>){nq}
//
//	several revisions of one module may be loaded; the start module is given by its key in Modules.Modules
//	("name" or "name@revision").  Output: "loaderr" | "err" | "ok r1 r2 ..." with
//	r = "-" (nil) | "nostart" | "<full name of the module whose entry tree holds the result>|<hex of Entry.Path()>"
//	(the tree is identified by pointer: the root reached through Parent is ToEntry(m) of exactly that module).
func runFindRev(toks []string) string {
	n, _ := strconv.Atoi(toks[0])
	ms := yang.NewModules()
	pos := 1
	for i := 0; i < n; i++ {
		name, text := string(unhex(toks[pos])), string(unhex(toks[pos+1]))
		pos += 2
		if err := ms.Parse(text, name); err != nil {
			return "loaderr"
		}
	}
	if errs := ms.Process(); len(errs) != 0 {
		return "err " + enhex([]byte(errs[0].Error()))
	}
	roots := map[*yang.Entry]string{}
	for _, m := range ms.Modules {
		roots[yang.ToEntry(m)] = m.FullName()
	}
	nq, _ := strconv.Atoi(toks[pos])
	pos++
	out := []string{"ok"}
	for q := 0; q < nq; q++ {
		var e *yang.Entry
		if m := ms.Modules[string(unhex(toks[pos]))]; m != nil {
			e = yang.ToEntry(m)
		}
		ns, _ := strconv.Atoi(toks[pos+1])
		pos += 2
		for i := 0; i < ns; i++ {
			t := toks[pos]
			pos++
			switch {
			case e == nil:
			case t == "I":
				if e.RPC != nil {
					e = e.RPC.Input
				} else {
					e = nil
				}
			case t == "O":
				if e.RPC != nil {
					e = e.RPC.Output
				} else {
					e = nil
				}
			default:
				e = e.Dir[string(unhex(t[1:]))]
			}
		}
		path := string(unhex(toks[pos]))
		pos++
		if e == nil {
			out = append(out, "nostart")
			continue
		}
		got := e.Find(path)
		if got == nil {
			out = append(out, "-")
			continue
		}
		r := got
		for r.Parent != nil {
			r = r.Parent
		}
		name, ok := roots[r]
		if !ok {
			name = "?"
		}
		out = append(out, name+"|"+enhex([]byte(got.Path())))
	}
	return strings.Join(out, " ")
}

func init() {
	handlers["find17"] = runFind17
	handlers["findrev"] = runFindRev
}
